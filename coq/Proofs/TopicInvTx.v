(* Proofs/TopicInvTx.v — invariant preservation: sender handles (clone / convert / close / drop). *)
From Fibre Require Import Common.Base Chan.TopicOps Chan.TopicSpec Proofs.TopicLemmas Proofs.TopicInv
     Proofs.TopicInvSub Proofs.TopicInvRx Proofs.TopicInvPub.

Definition nopen (ss : list stx) : nat := length (filter x_open ss).

Lemma any_open_nopen sp : any_open sp = negb (Nat.eqb (nopen (sp_tx sp)) 0).
Proof. apply any_open_filter. Qed.

Lemma upd_stx_notin h g ss : ~ In h (map x_id ss) -> upd_stx h g ss = ss.
Proof.
  intros H. unfold upd_stx. rewrite <- (map_id ss) at 2. apply map_ext_in. intros a Ha.
  destruct (N.eqb_spec (x_id a) h) as [E|E]; [|reflexivity].
  exfalso. apply H. rewrite <- E. apply in_map. exact Ha.
Qed.

Definition b2n (b : bool) : nat := if b then 1 else 0.

Lemma zn_succ n : (Z.of_nat n + 1)%Z = Z.of_nat (n + 1).
Proof. lia. Qed.
Lemma zn_plus0 n : Z.of_nat n = Z.of_nat (n + 0).
Proof. lia. Qed.
Lemma ar_one (n n' : nat) : (n' + 1 = n + 0)%nat -> n' = 0%nat -> n = 1%nat.
Proof. lia. Qed.
Lemma ar_notone (n n' k : nat) : (n' + 1 = n + 0)%nat -> n' = S k -> Z.of_nat n <> 1%Z.
Proof. lia. Qed.
Lemma ar_mono (n n' b : nat) : (n' + b = n + 0)%nat -> n = 0%nat -> n' = 0%nat.
Proof. lia. Qed.
Lemma ar_pred (n n' : nat) : (n' + 1 = n + 0)%nat -> (Z.of_nat n - 1)%Z = Z.of_nat n'.
Proof. lia. Qed.

Lemma nopen_upd h g ss y :
  NoDup (map x_id ss) -> find_stx h ss = Some y -> (forall z, x_id (g z) = x_id z) ->
  (nopen (upd_stx h g ss) + b2n (x_open y) = nopen ss + b2n (x_open (g y)))%nat.
Proof.
  unfold nopen, find_stx. induction ss as [|a ss IH]; cbn [map find]; intros Hnd Hf Hid; [discriminate|].
  inversion Hnd as [|? ? Hni Hnd']; subst.
  destruct (N.eqb_spec (x_id a) h) as [E|E].
  - injection Hf as <-. subst h. unfold upd_stx. cbn [map]. rewrite N.eqb_refl.
    fold (upd_stx (x_id a) g ss). rewrite upd_stx_notin by exact Hni.
    cbn [filter]. destruct (x_open (g a)), (x_open a); cbn [length b2n]; lia.
  - unfold upd_stx. cbn [map]. destruct (N.eqb_spec (x_id a) h); [contradiction|].
    fold (upd_stx h g ss). cbn [filter]. specialize (IH Hnd' Hf Hid).
    destruct (x_open a); cbn [length]; lia.
Qed.

Lemma ids_eq_tx c ts ss : Forall2 (rel_tx c) ts ss -> map t_id ts = map x_id ss.
Proof.
  induction 1 as [|x y ts ss Hxy HF IH]; cbn [map]; [reflexivity|].
  rewrite (rt_id _ _ _ Hxy), IH. reflexivity.
Qed.

Lemma spec_tx_nodup c s sp : Inv c s sp -> NoDup (map x_id (sp_tx sp)).
Proof. intros I. rewrite <- (ids_eq_tx _ _ _ (i_tx _ _ _ I)). apply (i_tnd _ _ _ I). Qed.

Lemma find_stx_In h ss y : find_stx h ss = Some y -> In y ss /\ x_id y = h.
Proof.
  unfold find_stx. intros H. apply find_some in H. destruct H as [H1 H2]. apply N.eqb_eq in H2. auto.
Qed.

Lemma find_stx_NoDup r ss y : NoDup (map x_id ss) -> In y ss -> x_id y = r -> find_stx r ss = Some y.
Proof.
  unfold find_stx. induction ss as [|a ss IH]; cbn [map find]; intros Hnd Hin Hid; [contradiction|].
  inversion Hnd as [|? ? Hni Hnd']; subst.
  destruct Hin as [->|Hin].
  - rewrite N.eqb_refl. reflexivity.
  - destruct (N.eqb_spec (x_id a) (x_id y)) as [E|E].
    + exfalso. apply Hni. rewrite E. apply in_map. exact Hin.
    + apply IH; auto.
Qed.

Lemma upd_pair_tx (R R' : txh -> stx -> Prop) h f g ts ss :
  Forall2 R ts ss -> (forall x y, R x y -> t_id x = x_id y) ->
  (forall x y, In x ts -> In y ss -> R x y -> t_id x = h -> R' (f x) (g y)) ->
  (forall x y, In x ts -> In y ss -> R x y -> t_id x <> h -> R' x y) ->
  Forall2 R' (upd_tx h f ts) (upd_stx h g ss).
Proof.
  intros HF Hid H1 H2. unfold upd_tx, upd_stx. eapply Forall2_map2; [exact HF|].
  intros x y Hx Hy HR. rewrite <- (Hid _ _ HR).
  destruct (N.eqb_spec (t_id x) h) as [E|E]; [apply H1 | apply H2]; assumption.
Qed.

Lemma rel_tx_upd c s sp h x y f g :
  Inv c s sp -> find_tx h (txs s) = Some x -> find_stx h (sp_tx sp) = Some y ->
  rel_tx c (f x) (g y) ->
  Forall2 (rel_tx c) (upd_tx h f (txs s)) (upd_stx h g (sp_tx sp)).
Proof.
  intros I Hx Hy HR. eapply upd_pair_tx; [apply (i_tx _ _ _ I) | apply rel_tx_id | |].
  - intros x0 y0 Hx0 Hy0 HR0 E.
    assert (x0 = x).
    { pose proof (find_tx_NoDup _ _ _ (i_tnd _ _ _ I) Hx0 E). congruence. }
    assert (y0 = y).
    { assert (E2 : x_id y0 = h) by (rewrite <- (rt_id _ _ _ HR0); exact E).
      pose proof (find_stx_NoDup _ _ _ (spec_tx_nodup _ _ _ I) Hy0 E2). congruence. }
    subst. exact HR.
  - intros x0 y0 _ _ HR0 _. exact HR0.
Qed.

(* weaken the global parameters of rel_rx *)
Lemma rel_rx_weaken c ls da da' ao sgb sgb' x y :
  rel_rx c ls da ao sgb x y -> (da' = true -> da = true) -> (sgb' = true -> sgb = true) ->
  rel_rx c ls da' ao sgb' x y.
Proof.
  intros HR Hda Hsg. destruct HR. constructor; auto.
  - intros A B C t l. apply rr_reg2; auto.
  - intros A B C. specialize (rr_cdead A B C). destruct da'; [|reflexivity]. rewrite Hda in rr_cdead; auto.
Qed.

Lemma existsb_upd_tx_live h f ts :
  (forall z, t_live (f z) = true -> t_live z = true) ->
  existsb t_live (upd_tx h f ts) = true -> existsb t_live ts = true.
Proof.
  intros Hf H. apply existsb_exists in H. destruct H as [z [Hz Hl]].
  unfold upd_tx in Hz. apply in_map_iff in Hz. destruct Hz as [a [Ea Ha]].
  apply existsb_exists. exists a. split; [exact Ha|].
  destruct (N.eqb (t_id a) h); subst z; auto.
Qed.

(* update one sender handle, no effect on which handles are open *)
Lemma inv_upd_tx c s sp h x y f g :
  Inv c s sp -> find_tx h (txs s) = Some x -> find_stx h (sp_tx sp) = Some y ->
  (forall z, t_id (f z) = t_id z) -> (forall z, x_id (g z) = x_id z) ->
  (forall z, t_live (f z) = true -> t_live z = true) ->
  rel_tx c (f x) (g y) -> x_open (g y) = x_open y ->
  Inv c (st_set_txs s (upd_tx h f (txs s))) (sp_set_tx sp (upd_stx h g (sp_tx sp))).
Proof.
  intros I Hx Hy Hidf Hidg Hlive HR Hopen.
  assert (Hn : nopen (upd_stx h g (sp_tx sp)) = nopen (sp_tx sp)).
  { pose proof (nopen_upd h g _ y (spec_tx_nodup _ _ _ I) Hy Hidg) as P. rewrite Hopen in P. lia. }
  assert (Hao : any_open (sp_set_tx sp (upd_stx h g (sp_tx sp))) = any_open sp).
  { rewrite !any_open_nopen. cbn [sp_tx sp_set_tx]. rewrite Hn. reflexivity. }
  assert (Hsg : sg c (sp_set_tx sp (upd_stx h g (sp_tx sp))) = sg c sp).
  { unfold sg, single. cbn [sp_tx sp_set_tx]. unfold upd_stx. rewrite map_length. reflexivity. }
  constructor; cbn [txs rxs lists futs scount st_set_txs sp_rx sp_tx sp_futs sp_set_tx].
  - eapply rel_tx_upd; eauto.
  - rewrite Hao, Hsg. eapply Forall2_impl2; [apply (i_rx _ _ _ I)|].
    intros x0 y0 _ _ HR0. eapply rel_rx_weaken; [exact HR0 | | auto].
    unfold disp_alive. cbn [txs st_set_txs]. apply existsb_upd_tx_live. exact Hlive.
  - apply (i_rnd _ _ _ I).
  - rewrite map_t_id_upd by exact Hidf. apply (i_tnd _ _ _ I).
  - apply (i_futs _ _ _ I).
  - apply (i_flive _ _ _ I).
  - apply (i_lnd _ _ _ I).
  - apply (i_lknown _ _ _ I).
  - intros F4. fold (nopen (upd_stx h g (sp_tx sp))). rewrite Hn. apply (i_cnt _ _ _ I F4).
Qed.

Lemma ok_ConvS c h : step_ok_for c (ConvS h).
Proof.
  intros s sp s1 rs w sp1 vs I Hs Hsp. cbn [step sp_step] in *.
  destruct (live_tx h s) as [x|] eqn:Hl; injection Hs as <- <- <-; injection Hsp as <- <-.
  2:{ split; [exact I | apply vs_ok_nil]. }
  split; [|apply vs_ok_nil].
  apply live_tx_spec in Hl. destruct Hl as [Hx Hlive].
  destruct (pair_tx _ _ _ _ _ I Hx) as [y [Hy [_ [_ HR]]]].
  pose proof (inv_upd_tx c s sp h x y (fun y0 => tx_set y0 (t_live y0) (negb (t_async y0)) (t_closed y0))
                (fun z => z) I Hx Hy) as P.
  assert (E : upd_stx h (fun z => z) (sp_tx sp) = sp_tx sp).
  { unfold upd_stx. rewrite <- (map_id (sp_tx sp)) at 2. apply map_ext. intros a. destruct (N.eqb (x_id a) h); reflexivity. }
  rewrite E in P. assert (E2 : sp_set_tx sp (sp_tx sp) = sp) by (destruct sp; reflexivity). rewrite E2 in P.
  apply P; auto. destruct HR. constructor; cbn; auto.
Qed.

Lemma ok_CloneS c h h' : step_ok_for c (CloneS h h').
Proof.
  intros s sp s1 rs w sp1 vs I Hs Hsp. cbn [step sp_step] in *.
  destruct (live_tx h s) as [x|] eqn:Hl.
  2:{ injection Hs as <- <- <-. injection Hsp as <- <-. split; [exact I | apply vs_ok_nil]. }
  destruct (find_tx h' (txs s)) as [x'|] eqn:Hf'.
  { injection Hs as <- <- <-. injection Hsp as <- <-. split; [exact I | apply vs_ok_nil]. }
  destruct (t_async x).
  { injection Hs as <- <- <-. injection Hsp as <- <-. split; [exact I | apply vs_ok_nil]. }
  pose proof (live_tx_da _ _ _ Hl) as Hda.
  apply live_tx_spec in Hl. destruct Hl as [Hx Hlive].
  destruct (pair_tx _ _ _ _ _ I Hx) as [y [Hy [_ [Hiny HR]]]].
  assert (Hnone : find_stx h' (sp_tx sp) = None).
  { pose proof (find_pair_tx _ _ _ h' (i_tx _ _ _ I) (rel_tx_id c)) as P. rewrite Hf' in P.
    destruct (find_stx h' (sp_tx sp)); [contradiction | reflexivity]. }
  injection Hs as <- <- <-. rewrite Hy, Hnone in Hsp. injection Hsp as <- <-. split; [|apply vs_ok_nil].
  set (cl := fix04 c && t_closed x).
  set (xn := {| t_id := h'; t_live := true; t_async := false; t_closed := cl |}).
  set (yn := {| x_id := h'; x_live := true; x_closed := x_closed y |}).
  assert (Hrel : rel_tx c xn yn).
  { constructor; cbn; auto.
    - intros _ Hc. unfold cl in Hc. apply andb_true_iff in Hc. destruct Hc as [_ Hc]. apply (rt_cl1 _ _ _ HR Hlive Hc).
    - intros _ F4. unfold cl. rewrite F4. cbn. apply (rt_cl2 _ _ _ HR Hlive F4). }
  assert (Hao : any_open (sp_set_tx sp (sp_tx sp ++ [yn])) = any_open sp).
  { unfold any_open. cbn [sp_tx sp_set_tx]. rewrite existsb_app. cbn [existsb]. rewrite orb_false_r.
    destruct (x_open yn) eqn:E; [|apply orb_false_r].
    rewrite orb_true_r. symmetry. apply existsb_exists. exists y. split; [exact Hiny|].
    unfold x_open in *. cbn in E. rewrite <- (rt_live _ _ _ HR), Hlive. exact E. }
  assert (Hsg : sg c (sp_set_tx sp (sp_tx sp ++ [yn])) = true -> sg c sp = true).
  { unfold sg, single. cbn [sp_tx sp_set_tx]. rewrite app_length. cbn [length].
    destruct (fix04 c); [auto|]. cbn [orb].
    destruct (sp_tx sp) as [|a l]; [destruct Hiny|]. cbn [length]. intros H. apply Nat.eqb_eq in H. lia. }
  assert (Hda' : forall sc, disp_alive (st_set_scount (st_set_txs s (txs s ++ [xn])) sc) = disp_alive s).
  { intros sc. unfold disp_alive. cbn [txs st_set_txs st_set_scount]. rewrite existsb_app. cbn.
    unfold disp_alive in Hda. rewrite Hda. reflexivity. }
  assert (Hgen : forall sc, (fix04 c = true -> sc = Z.of_nat (nopen (sp_tx sp ++ [yn]))) ->
            Inv c (st_set_scount (st_set_txs s (txs s ++ [xn])) sc) (sp_set_tx sp (sp_tx sp ++ [yn]))).
  { intros sc Hsc. constructor; cbn [txs rxs lists futs scount st_set_txs st_set_scount sp_rx sp_tx sp_futs sp_set_tx].
    - apply Forall2_snoc; [apply (i_tx _ _ _ I) | exact Hrel].
    - rewrite Hao, Hda'. eapply Forall2_impl2; [apply (i_rx _ _ _ I)|].
      intros x0 y0 _ _ HR0. eapply rel_rx_weaken; [exact HR0 | auto | exact Hsg].
    - apply (i_rnd _ _ _ I).
    - rewrite map_app. cbn [map]. apply NoDup_snoc; [apply (i_tnd _ _ _ I) | apply find_tx_None; exact Hf'].
    - apply (i_futs _ _ _ I).
    - apply (i_flive _ _ _ I).
    - apply (i_lnd _ _ _ I).
    - apply (i_lknown _ _ _ I).
    - exact Hsc. }
  assert (Hn : nopen (sp_tx sp ++ [yn]) = (nopen (sp_tx sp) + b2n (negb (x_closed y)))%nat).
  { unfold nopen. rewrite filter_app, app_length. cbn [filter]. unfold x_open at 2. cbn.
    destruct (x_closed y); reflexivity. }
  destruct (fix04 c) eqn:F4.
  - assert (Ecl : cl = x_closed y).
    { unfold cl. cbn. apply (rt_cl2 _ _ _ HR Hlive F4). }
    cbn [andb]. destruct (negb cl) eqn:Encl.
    + apply Hgen. intros _. cbn [scount st_set_txs]. rewrite Hn, (i_cnt _ _ _ I F4). fold (nopen (sp_tx sp)).
      rewrite <- Ecl, Encl. cbn [b2n]. apply zn_succ.
    + pose proof (Hgen (scount s)) as P.
      assert (E : st_set_scount (st_set_txs s (txs s ++ [xn])) (scount s) = st_set_txs s (txs s ++ [xn])) by reflexivity.
      rewrite E in P. apply P. intros _. rewrite Hn, (i_cnt _ _ _ I F4). fold (nopen (sp_tx sp)).
      rewrite <- Ecl, Encl. cbn [b2n]. apply zn_plus0.
  - cbn [andb]. pose proof (Hgen (scount s)) as P.
    assert (E : st_set_scount (st_set_txs s (txs s ++ [xn])) (scount s) = st_set_txs s (txs s ++ [xn])) by reflexivity.
    rewrite E in P. apply P. intros; discriminate.
Qed.

(** close / drop of a sender handle whose own flag is not set: close_internal runs *)
Definition disc_fn (c : cfg) (ls : list (N * list N)) (x : rxh) : rxh :=
  if r_live x && (fix05 c || in_lists (r_id x) ls) then rx_set_mb x (fst (mb_disconnect (r_mb x))) else x.

Lemma map_wakes_fst f rs : fst (map_wakes f rs) = map (fun x => fst (f x)) rs.
Proof.
  induction rs as [|a rs IH]; cbn [map_wakes map]; [reflexivity|].
  destruct (f a) as [a' w]. destruct (map_wakes f rs) as [rs' w']. cbn [fst] in *. rewrite IH. reflexivity.
Qed.

Lemma disconnect_all_fst c s : fst (disconnect_all c s) = st_set_rxs s (map (disc_fn c (lists s)) (rxs s)).
Proof.
  unfold disconnect_all.
  pose proof (map_wakes_fst (fun x => if r_live x && (fix05 c || in_lists (r_id x) (lists s))
      then let '(m', w) := mb_disconnect (r_mb x) in (rx_set_mb x m', w) else (x, [])) (rxs s)) as H.
  destruct (map_wakes _ (rxs s)) as [rs' w]. cbn [fst] in *. rewrite H. f_equal. apply map_ext. intros x.
  unfold disc_fn. destruct (r_live x && (fix05 c || in_lists (r_id x) (lists s))); [|reflexivity].
  destruct (mb_disconnect (r_mb x)); reflexivity.
Qed.

Definition tx_ran (c : cfg) (s : state) : bool := negb (fix04 c) || Z.eqb (scount s) 1.

Lemma tx_close_internal_fst c s :
  fst (tx_close_internal c s) =
  st_set_scount (st_set_rxs s (if tx_ran c s then map (disc_fn c (lists s)) (rxs s) else rxs s))
                (if fix04 c then (scount s - 1)%Z else scount s).
Proof.
  unfold tx_close_internal, tx_ran. destruct (fix04 c); cbn [negb orb].
  - destruct (Z.eqb (scount s) 1).
    + rewrite disconnect_all_fst. reflexivity.
    + cbn [fst]. destruct s; reflexivity.
  - rewrite disconnect_all_fst. destruct s; reflexivity.
Qed.

Lemma m_disc_disconnect m : m_disc (fst (mb_disconnect m)) = true.
Proof. unfold mb_disconnect. destruct (m_disc m) eqn:E; cbn; auto. Qed.

Lemma mb_disconnect_keeps m :
  m_buf (fst (mb_disconnect m)) = m_buf m /\ m_cap (fst (mb_disconnect m)) = m_cap m /\
  m_dropped (fst (mb_disconnect m)) = m_dropped m.
Proof. unfold mb_disconnect. destruct (m_disc m); cbn; auto. Qed.

Lemma rx_alive_map F rs m :
  (forall x, r_id (F x) = r_id x) -> (forall x, r_live (F x) = r_live x) ->
  rx_alive m (map F rs) = rx_alive m rs.
Proof.
  intros Hid Hl. unfold rx_alive, find_rx. induction rs as [|a rs IH]; cbn [map find]; [reflexivity|].
  rewrite Hid. destruct (N.eqb (r_id a) m); [apply Hl | exact IH].
Qed.

Lemma sender_gone_inv c s sp h x y f g (b : bool) :
  Inv c s sp -> find_tx h (txs s) = Some x -> t_live x = true -> t_closed x = false ->
  find_stx h (sp_tx sp) = Some y ->
  (forall z, t_id (f z) = t_id z) -> (forall z, x_id (g z) = x_id z) ->
  (forall z, t_live (f z) = true -> t_live z = true) ->
  rel_tx c (f x) (g y) -> x_open (g y) = false ->
  Inv c (st_set_txs (fst (tx_close_internal c s)) (upd_tx h f (txs s)))
        (let sp1 := sp_set_tx sp (upd_stx h g (sp_tx sp)) in if b then after_sender_gone sp1 else sp1).
Proof.
  intros I Hx Hlive Hncl Hy Hidf Hidg Hlf HR Hgo.
  destruct (pair_tx _ _ _ _ _ I Hx) as [y0 [Hy0 [Hinx [Hiny HR0]]]].
  assert (y0 = y) by congruence. subst y0.
  assert (Hda : disp_alive s = true).
  { unfold disp_alive. apply existsb_exists. exists x. auto. }
  pose proof (nopen_upd h g _ y (spec_tx_nodup _ _ _ I) Hy Hidg) as Hn. rewrite Hgo in Hn. cbn [b2n] in Hn.
  set (sp1 := sp_set_tx sp (upd_stx h g (sp_tx sp))).
  assert (Hao' : any_open sp1 = negb (Nat.eqb (nopen (upd_stx h g (sp_tx sp))) 0)) by apply any_open_nopen.
  assert (Hopen4 : fix04 c = true -> x_open y = true).
  { intros F4. unfold x_open. rewrite <- (rt_live _ _ _ HR0), Hlive, <- (rt_cl2 _ _ _ HR0 Hlive F4), Hncl. reflexivity. }
  assert (Hran4 : fix04 c = true -> tx_ran c s = negb (any_open sp1)).
  { intros F4. unfold tx_ran. rewrite F4. cbn [negb orb]. rewrite Hao', negb_involutive.
    rewrite (i_cnt _ _ _ I F4). fold (nopen (sp_tx sp)). rewrite (Hopen4 F4) in Hn. cbn [b2n] in Hn.
    destruct (nopen (upd_stx h g (sp_tx sp))) as [|k] eqn:E.
    - rewrite (ar_one _ _ Hn eq_refl). reflexivity.
    - cbn. apply Z.eqb_neq. eapply ar_notone; [exact Hn | reflexivity]. }
  assert (Hran0 : fix04 c = false -> tx_ran c s = true).
  { intros F4. unfold tx_ran. rewrite F4. reflexivity. }
  assert (Hao_mono : any_open sp = false -> any_open sp1 = false).
  { rewrite any_open_nopen, Hao'. intros H. apply negb_false_iff in H. apply Nat.eqb_eq in H.
    apply negb_false_iff. apply Nat.eqb_eq. eapply ar_mono; eauto. }
  assert (Hsg : sg c sp1 = sg c sp).
  { unfold sg, single, sp1. cbn [sp_tx sp_set_tx]. unfold upd_stx. rewrite map_length. reflexivity. }
  assert (Hsingle : fix04 c = false -> sg c sp = true -> any_open sp1 = false).
  { intros F4. unfold sg, single. rewrite F4. cbn [orb]. intros H. apply Nat.eqb_eq in H. rewrite Hao'.
    destruct (sp_tx sp) as [|a [|a' l]] eqn:E; try discriminate.
    destruct Hiny as [->|[]].
    pose proof (find_stx_In _ _ _ Hy) as [_ Hyid].
    unfold nopen, upd_stx. cbn [map filter]. rewrite Hyid, N.eqb_refl. cbn [filter]. rewrite Hgo. reflexivity. }
  set (ran := tx_ran c s).
  set (mark := b && negb (any_open sp1)).
  set (F := fun x0 => if ran then disc_fn c (lists s) x0 else x0).
  set (G := fun y0 => if mark then srx_reach y0 else y0).
  assert (HFid : forall x0, r_id (F x0) = r_id x0).
  { intros x0. unfold F, disc_fn. destruct ran; [|reflexivity].
    destruct (r_live x0 && (fix05 c || in_lists (r_id x0) (lists s))); reflexivity. }
  assert (HFlive : forall x0, r_live (F x0) = r_live x0).
  { intros x0. unfold F, disc_fn. destruct ran; [|reflexivity].
    destruct (r_live x0 && (fix05 c || in_lists (r_id x0) (lists s))); reflexivity. }
  assert (Emodel : st_set_txs (fst (tx_close_internal c s)) (upd_tx h f (txs s)) =
                   st_set_txs (st_set_scount (st_set_rxs s (map F (rxs s)))
                                 (if fix04 c then (scount s - 1)%Z else scount s)) (upd_tx h f (txs s))).
  { rewrite tx_close_internal_fst. fold ran. unfold F. destruct ran; [reflexivity|].
    rewrite map_id. reflexivity. }
  assert (Espec : (if b then after_sender_gone sp1 else sp1) = sp_set_rx sp1 (map G (sp_rx sp))).
  { unfold G, mark, after_sender_gone. destruct b; cbn [andb].
    - destruct (any_open sp1); cbn [negb]; [rewrite map_id; destruct sp; reflexivity | reflexivity].
    - rewrite map_id. destruct sp; reflexivity. }
  rewrite Emodel. cbv zeta. fold sp1. rewrite Espec. clear Emodel Espec.
  assert (Hda' : disp_alive (st_set_txs (st_set_scount (st_set_rxs s (map F (rxs s)))
                   (if fix04 c then (scount s - 1)%Z else scount s)) (upd_tx h f (txs s))) = true -> disp_alive s = true)
    by (intros _; exact Hda).
  constructor; cbn [txs rxs lists futs scount st_set_txs st_set_scount st_set_rxs sp_rx sp_tx sp_futs sp_set_tx sp_set_rx sp1].
  - eapply rel_tx_upd; eauto.
  - change (any_open (sp_set_rx sp1 (map G (sp_rx sp)))) with (any_open sp1).
    change (sg c (sp_set_rx sp1 (map G (sp_rx sp)))) with (sg c sp1). rewrite Hsg.
    eapply Forall2_map2; [apply (i_rx _ _ _ I)|].
    intros x0 y0 Hx0 Hyy0 R0. rewrite Hda in R0.
    assert (Hmb : m_buf (r_mb (F x0)) = m_buf (r_mb x0) /\ m_cap (r_mb (F x0)) = m_cap (r_mb x0) /\
                  m_dropped (r_mb (F x0)) = m_dropped (r_mb x0)).
    { unfold F, disc_fn. destruct ran; [|auto].
      destruct (r_live x0 && (fix05 c || in_lists (r_id x0) (lists s))); [apply mb_disconnect_keeps | auto]. }
    destruct Hmb as [Hb1 [Hb2 Hb3]].
    assert (Hsubs : r_subs (F x0) = r_subs x0 /\ r_closed (F x0) = r_closed x0).
    { unfold F, disc_fn. destruct ran; [|auto].
      destruct (r_live x0 && (fix05 c || in_lists (r_id x0) (lists s))); auto. }
    destruct Hsubs as [Hs1 Hs2].
    assert (Hdisc_mono : m_disc (r_mb x0) = true -> m_disc (r_mb (F x0)) = true).
    { unfold F, disc_fn. destruct ran; [|auto].
      destruct (r_live x0 && (fix05 c || in_lists (r_id x0) (lists s))); [intros _; apply m_disc_disconnect | auto]. }
    assert (Hdisc_new : m_disc (r_mb (F x0)) = true -> m_disc (r_mb x0) = true \/ ran = true).
    { unfold F. destruct ran; auto. }
    assert (HG : s_id (G y0) = s_id y0 /\ s_live (G y0) = s_live y0 /\ s_subs (G y0) = s_subs y0 /\
                 s_cap (G y0) = s_cap y0 /\ s_q (G y0) = s_q y0 /\ s_full (G y0) = s_full y0 /\
                 s_closed (G y0) = s_closed y0).
    { unfold G. destruct mark; cbn; tauto. }
    destruct HG as [G1 [G2 [G3 [G4 [G5 [G6 G7]]]]]].
    assert (Hgood : good c (G y0) = good c y0) by (unfold good; rewrite G7; reflexivity).
    constructor; rewrite ?HFid, ?HFlive, ?Hs1, ?Hs2, ?Hb1, ?Hb2, ?Hb3, ?G1, ?G2, ?G3, ?G4, ?G5, ?G6, ?G7, ?Hgood.
    + apply (rr_id _ _ _ _ _ _ _ R0).
    + apply (rr_live _ _ _ _ _ _ _ R0).
    + apply (rr_nd _ _ _ _ _ _ _ R0).
    + intros A _. apply (rr_subs _ _ _ _ _ _ _ R0 A eq_refl).
    + apply (rr_buf _ _ _ _ _ _ _ R0).
    + intros A _. apply (rr_reg1 _ _ _ _ _ _ _ R0 A eq_refl).
    + intros A _. apply (rr_reg2 _ _ _ _ _ _ _ R0 A eq_refl).
    + intros A B C. destruct (Hdisc_new B) as [D|D].
      * apply Hao_mono. apply (rr_dsound _ _ _ _ _ _ _ R0 A D C).
      * destruct (fix04 c) eqn:F4.
        -- unfold ran in D. rewrite (Hran4 eq_refl) in D. apply negb_true_iff in D. exact D.
        -- apply Hsingle; auto.
    + intros A F4 F5 Hao. unfold F. unfold ran. rewrite (Hran4 F4), Hao. cbn [negb].
      unfold disc_fn. rewrite A, F5. cbn [orb andb]. cbn [r_mb rx_set_mb]. apply m_disc_disconnect.
    + intros A Hr. unfold G in Hr. destruct mark eqn:Em.
      * cbn [s_reach srx_reach] in Hr. apply orb_true_iff in Hr. destruct Hr as [Hr|Hr].
        -- apply Hdisc_mono. apply (rr_reach _ _ _ _ _ _ _ R0 A Hr).
        -- apply andb_true_iff in Hr. destruct Hr as [_ Hr].
           unfold mark in Em. apply andb_true_iff in Em. destruct Em as [_ Em]. apply negb_true_iff in Em.
           assert (Hran : ran = true).
           { unfold ran. destruct (fix04 c) eqn:F4; [rewrite (Hran4 eq_refl), Em; reflexivity | apply Hran0; reflexivity]. }
           unfold F. rewrite Hran. unfold disc_fn. rewrite A.
           destruct (rr_subs _ _ _ _ _ _ _ R0 A eq_refl) as [Hsub _].
           destruct (s_subs y0) as [|t ts] eqn:Es; [discriminate|].
           assert (Ht : In t (r_subs x0)) by (rewrite Hsub; left; reflexivity).
           destruct (rr_reg1 _ _ _ _ _ _ _ R0 A eq_refl t Ht) as [l [Hl1 Hl2]].
           assert (Hil : in_lists (r_id x0) (lists s) = true).
           { apply in_lists_spec. exists t, l. split; [apply get_list_In; exact Hl1 | exact Hl2]. }
           rewrite Hil, orb_true_r. cbn [andb r_mb rx_set_mb]. apply m_disc_disconnect.
      * apply Hdisc_mono. apply (rr_reach _ _ _ _ _ _ _ R0 A Hr).
    + intros A B C. pose proof (rr_cdead _ _ _ _ _ _ _ R0 A B C). discriminate.
  - rewrite map_map. erewrite map_ext; [apply (i_rnd _ _ _ I) | exact HFid].
  - rewrite map_t_id_upd by exact Hidf. apply (i_tnd _ _ _ I).
  - apply (i_futs _ _ _ I).
  - intros f0 r0 Hin. rewrite rx_alive_map by assumption. eapply (i_flive _ _ _ I); eauto.
  - apply (i_lnd _ _ _ I).
  - intros t l m H1 H2. rewrite map_map. erewrite map_ext; [eapply (i_lknown _ _ _ I); eauto | exact HFid].
  - intros F4. rewrite F4. rewrite (i_cnt _ _ _ I F4). fold (nopen (sp_tx sp)). fold (nopen (upd_stx h g (sp_tx sp))).
    rewrite (Hopen4 F4) in Hn. cbn [b2n] in Hn. apply ar_pred. exact Hn.
Qed.

Lemma tx_close_internal_txs c s t :
  fst (tx_close_internal c (st_set_txs s t)) = st_set_txs (fst (tx_close_internal c s)) t.
Proof. rewrite !tx_close_internal_fst. reflexivity. Qed.

Lemma txs_tx_close_internal c s : txs (fst (tx_close_internal c s)) = txs s.
Proof. rewrite tx_close_internal_fst. reflexivity. Qed.

Lemma ok_CloseS c h : step_ok_for c (CloseS h).
Proof.
  intros s sp s1 rs w sp1 vs I Hs Hsp. cbn [step sp_step] in *.
  destruct (live_tx h s) as [x|] eqn:Hl.
  2:{ injection Hs as <- <- <-. injection Hsp as <- <-. split; [exact I | apply vs_ok_nil]. }
  destruct (t_closed x) eqn:Ec.
  { injection Hs as <- <- <-. injection Hsp as <- <-. split; [exact I | apply vs_ok_nil]. }
  apply live_tx_spec in Hl. destruct Hl as [Hx Hlive].
  destruct (pair_tx _ _ _ _ _ I Hx) as [y [Hy [_ [_ HR]]]].
  pose proof (tx_close_internal_txs c s (upd_tx h (fun y0 => tx_set y0 (t_live y0) (t_async y0) true) (txs s))) as E.
  destruct (tx_close_internal c (st_set_txs s (upd_tx h (fun y0 => tx_set y0 (t_live y0) (t_async y0) true) (txs s))))
    as [s2 w2]. cbn [fst] in E. injection Hs as <- <- <-. injection Hsp as <- <-. split; [|apply vs_ok_nil].
  rewrite E.
  apply (sender_gone_inv c s sp h x y _ (fun x0 => {| x_id := x_id x0; x_live := x_live x0; x_closed := true |}) true); auto.
  - destruct HR. constructor; cbn; auto.
  - unfold x_open. cbn. apply andb_false_r.
Qed.

Lemma ok_DropS c h : step_ok_for c (DropS h).
Proof.
  intros s sp s1 rs w sp1 vs I Hs Hsp. cbn [step sp_step] in *.
  destruct (live_tx h s) as [x|] eqn:Hl.
  2:{ injection Hs as <- <- <-. injection Hsp as <- <-. split; [exact I | apply vs_ok_nil]. }
  apply live_tx_spec in Hl. destruct Hl as [Hx Hlive].
  destruct (pair_tx _ _ _ _ _ I Hx) as [y [Hy [_ [_ HR]]]].
  rewrite Hy in Hsp.
  assert (Hrel : rel_tx c (tx_set x false (t_async x) true) {| x_id := x_id y; x_live := false; x_closed := true |}).
  { destruct HR. constructor; cbn; auto; intros; discriminate. }
  destruct (t_closed x) eqn:Ec.
  - injection Hs as <- <- <-.
    assert (Hop : x_open y = false).
    { unfold x_open. rewrite (rt_cl1 _ _ _ HR Hlive Ec). apply andb_false_r. }
    rewrite Hop in Hsp. injection Hsp as <- <-. split; [|apply vs_ok_nil].
    apply (inv_upd_tx c s sp h x y); auto. intros z H. discriminate.
  - pose proof (txs_tx_close_internal c s) as Et.
    destruct (tx_close_internal c s) as [s2 w2] eqn:Ecl. cbn [fst] in Et.
    injection Hs as <- <- <-. injection Hsp as <- <-. split; [|apply vs_ok_nil].
    rewrite Et. replace s2 with (fst (tx_close_internal c s)) by (rewrite Ecl; reflexivity).
    apply (sender_gone_inv c s sp h x y _ (fun x0 => {| x_id := x_id x0; x_live := false; x_closed := true |}) (x_open y)); auto.
    intros z H. discriminate.
Qed.
