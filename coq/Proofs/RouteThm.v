(* Proofs/RouteThm.v — main theorems of E-ROUTE (property C19, routing clause). *)
From Fibre Require Import Common.Base Log.Route Proofs.RouteProofs.
From Coq Require Import Arith.

(* ------------------------------------------------------------------ well-formedness *)
Lemma nodup_names_In ls : nodup_names ls = true -> NoDup ls.
Proof.
  induction ls as [|x t IH]; cbn [nodup_names]; intros H; [constructor|].
  apply andb_true_iff in H. destruct H as [H1 H2]. constructor; [|apply IH; exact H2].
  intros Hin. apply negb_true_iff in H1.
  assert (existsb (name_eqb x) t = true) as E
    by (apply existsb_exists; exists x; split; [exact Hin | apply name_eqb_refl]).
  congruence.
Qed.

Lemma NoDup_map_inj {A B} (f : A -> B) l x y :
  NoDup (map f l) -> In x l -> In y l -> f x = f y -> x = y.
Proof.
  induction l as [|a t IH]; cbn [map]; intros Hnd Hx Hy E; [destruct Hx|].
  inversion Hnd as [|? ? Hni Hnd']; subst.
  destruct Hx as [<-|Hx], Hy as [<-|Hy].
  - reflexivity.
  - exfalso. apply Hni. rewrite E. apply in_map. exact Hy.
  - exfalso. apply Hni. rewrite <- E. apply in_map. exact Hx.
  - apply IH; assumption.
Qed.

Lemma wf_names c : wf_cfg c = true -> NoDup (map lname (cloggers c)).
Proof. unfold wf_cfg. intros H. apply andb_true_iff in H. apply nodup_names_In. apply H. Qed.

Lemma wf_apps c l a :
  wf_cfg c = true -> In l (cloggers c) -> In a (lapps l) -> In a (cappenders c).
Proof.
  unfold wf_cfg. intros H Hl Ha. apply andb_true_iff in H. destruct H as [_ H].
  rewrite forallb_forall in H. specialize (H l Hl). rewrite forallb_forall in H.
  apply mem_In. apply H. exact Ha.
Qed.

(* ------------------------------------------------------------------ candidates *)
(* loggers that are candidates for appender a and target t, as the MODEL enumerates them *)
Definition cands (ls : list logger) (a : N) (t : name) : list logger :=
  filter (fun l => target_matches_prefix t (lname l))
         (filter (fun l => negb (is_root l) && mem a (lapps l)) ls).

Lemma fmsr_cands ls a t :
  find_most_specific_rule (build_filter a ls) t
  = option_map rule_of (max_by_key logger_len (cands ls a t)).
Proof.
  unfold find_most_specific_rule, build_filter, cands. cbn [frules].
  rewrite filter_map_comm, max_by_key_map. reflexivity.
Qed.

Lemma In_cands ls a t l :
  In l (cands ls a t) <-> In l ls /\ is_root l = false /\ mp (lname l) t /\ In a (lapps l).
Proof.
  unfold cands. rewrite !filter_In, andb_true_iff, negb_true_iff, target_matches_prefix_mp, mem_In.
  tauto.
Qed.

Lemma In_named_matching c t l :
  In l (named_matching c t) <-> In l (cloggers c) /\ is_root l = false /\ mp (lname l) t.
Proof.
  unfold named_matching. rewrite filter_In, andb_true_iff, negb_true_iff, module_prefix_mp. tauto.
Qed.

Lemma In_spec_cands c t a l :
  In l (filter (fun l => mem a (lapps l)) (named_matching c t)) <-> In l (cands (cloggers c) a t).
Proof. rewrite filter_In, In_named_matching, In_cands, mem_In. tauto. Qed.

Lemma cands_sub c a t l : In l (cands (cloggers c) a t) -> In l (named_matching c t).
Proof. rewrite In_cands, In_named_matching. tauto. Qed.

(* among loggers matching one target, the name length identifies the logger *)
Lemma uniq_matching c t :
  wf_cfg c = true -> uniq_key logger_len (named_matching c t).
Proof.
  intros Hwf x y Hx Hy Hk. apply In_named_matching in Hx, Hy.
  destruct Hx as [Hx [_ Mx]], Hy as [Hy [_ My]].
  apply (NoDup_map_inj lname (cloggers c)); try assumption; [apply wf_names; exact Hwf|].
  apply mp_same_len with t; assumption.
Qed.

Lemma uniq_cands c a t : wf_cfg c = true -> uniq_key logger_len (cands (cloggers c) a t).
Proof.
  intros Hwf x y Hx Hy. apply (uniq_matching c t Hwf); apply cands_sub with a; assumption.
Qed.

(* the model's per-appender lookup IS "the most specific logger naming a and matching t" *)
Lemma model_lookup_is_spec c a t :
  wf_cfg c = true ->
  max_by_key logger_len (cands (cloggers c) a t)
  = longest logger_len (filter (fun l => mem a (lapps l)) (named_matching c t)).
Proof.
  intros Hwf. apply max_by_key_longest; [|apply uniq_cands; exact Hwf].
  intros x. symmetry. apply In_spec_cands.
Qed.

(* ------------------------------------------------------------------ the winner loop *)
Definition pa (r : rule) : name * bool := (rprefix r, radd r).
Definition flat (rs : list (option rule)) : list rule :=
  flat_map (fun o => match o with Some r => [r] | None => [] end) rs.

Lemma winner_from_Some b rs :
  winner_from (Some (pa b)) rs = Some (pa (longest_from rule_len b (flat rs))).
Proof.
  revert b. induction rs as [|[r|] t IH]; intros b; cbn [winner_from flat flat_map app longest_from].
  - reflexivity.
  - unfold pa at 1. cbn [fst snd]. change (length (rprefix b)) with (rule_len b).
    change (length (rprefix r)) with (rule_len r).
    destruct (Nat.ltb (rule_len b) (rule_len r)); apply IH.
  - apply IH.
Qed.

Lemma winner_from_None rs :
  winner_from None rs = option_map pa (longest rule_len (flat rs)).
Proof.
  induction rs as [|[r|] t IH]; cbn [winner_from flat flat_map app longest option_map].
  - reflexivity.
  - apply (winner_from_Some r t).
  - exact IH.
Qed.

Lemma In_flat rs r : In r (flat rs) <-> In (Some r) rs.
Proof.
  unfold flat. rewrite in_flat_map. split.
  - intros [[x|] [Hin Hr]]; [|destruct Hr]. destruct Hr as [<-|[]]. exact Hin.
  - intros H. exists (Some r). split; [exact H | left; reflexivity].
Qed.

Definition model_rules (c : config) (t : name) : list (option rule) :=
  map (fun af => find_most_specific_rule (snd af) t) (actors c).

Lemma In_model_rules c t o :
  In o (model_rules c t) <->
  exists a, In a (cappenders c)
            /\ o = option_map rule_of (max_by_key logger_len (cands (cloggers c) a t)).
Proof.
  unfold model_rules, actors. rewrite map_map. cbn [snd]. rewrite in_map_iff. split.
  - intros [a [E Ha]]. exists a. split; [exact Ha|]. rewrite <- E. apply fmsr_cands.
  - intros [a [Ha E]]. exists a. split; [|exact Ha]. rewrite E. apply fmsr_cands.
Qed.

(* if the most specific matching logger names an appender, the winner loop finds exactly it *)
Lemma winner_is_overall c t :
  wf_cfg c = true -> winner_wired c t = true ->
  winner_from None (model_rules c t)
  = option_map (fun w => (lname w, ladd w)) (longest logger_len (named_matching c t)).
Proof.
  intros Hwf Hw. rewrite winner_from_None. unfold winner_wired in Hw.
  destruct (longest logger_len (named_matching c t)) as [w|] eqn:EW; cbn [option_map].
  - (* a winner exists and is wired *)
    pose proof (longest_Some _ _ _ _ EW) as [HwIn HwMax].
    destruct (lapps w) as [|a0 rest] eqn:Eapps; [discriminate|].
    assert (In a0 (lapps w)) as Ha0 by (rewrite Eapps; left; reflexivity).
    pose proof (proj1 (In_named_matching c t w) HwIn) as [HwL [HwR HwM]].
    assert (In a0 (cappenders c)) as Ha0c by (apply (wf_apps c w); assumption).
    assert (In w (cands (cloggers c) a0 t)) as HwC by (apply In_cands; tauto).
    assert (max_by_key logger_len (cands (cloggers c) a0 t) = Some w) as Ew0.
    { apply is_max_max_by_key; [apply uniq_cands; exact Hwf|]. split; [exact HwC|].
      intros y Hy. apply HwMax. apply cands_sub with a0. exact Hy. }
    assert (In (rule_of w) (flat (model_rules c t))) as Hin.
    { apply In_flat. apply In_model_rules. exists a0. split; [exact Ha0c|]. rewrite Ew0. reflexivity. }
    destruct (longest rule_len (flat (model_rules c t))) as [r|] eqn:ER.
    + cbn [option_map]. f_equal.
      pose proof (longest_Some _ _ _ _ ER) as [HrIn HrMax].
      apply In_flat, In_model_rules in HrIn. destruct HrIn as [a [Ha Er]].
      destruct (max_by_key logger_len (cands (cloggers c) a t)) as [l|] eqn:El; [|discriminate].
      cbn [option_map] in Er. inversion Er; subst r.
      apply max_by_key_Some in El. destruct El as [HlIn _].
      apply cands_sub in HlIn.
      specialize (HrMax (rule_of w) Hin). specialize (HwMax l HlIn).
      unfold rule_len, rule_of in HrMax. cbn [rprefix] in HrMax. unfold logger_len in HwMax.
      assert (l = w) as ->.
      { apply (uniq_matching c t Hwf); try assumption. unfold logger_len. lia. }
      reflexivity.
    + apply longest_None in ER. rewrite ER in Hin. destruct Hin.
  - (* no named logger matches: every per-appender lookup is None *)
    apply longest_None in EW.
    destruct (longest rule_len (flat (model_rules c t))) as [r|] eqn:ER; [|reflexivity].
    exfalso. apply longest_Some in ER. destruct ER as [HrIn _].
    apply In_flat, In_model_rules in HrIn. destruct HrIn as [a [Ha Er]].
    destruct (max_by_key logger_len (cands (cloggers c) a t)) as [l|] eqn:El; [|discriminate].
    apply max_by_key_Some in El. destruct El as [HlIn _]. apply cands_sub in HlIn.
    rewrite EW in HlIn. destruct HlIn.
Qed.

(* ------------------------------------------------------------------ process_event as a filter *)
Definition receives (c : config) (t : name) (lv : level) (a : N) : bool :=
  let f := build_filter a (cloggers c) in
  actor_receives (gate_of (winner_from None (model_rules c t))) f (find_most_specific_rule f t) lv.

Lemma combine_map_self {A B} (g : A -> B) l : combine l (map g l) = map (fun x => (x, g x)) l.
Proof. induction l as [|x t IH]; cbn [map combine]; [reflexivity | rewrite IH; reflexivity]. Qed.

Lemma process_event_filter c t lv :
  process_event c t lv = filter (receives c t lv) (cappenders c).
Proof.
  unfold process_event. fold (model_rules c t).
  unfold model_rules at 2. rewrite combine_map_self.
  unfold actors at 1. rewrite map_map, filter_map_comm, map_map. cbn [fst snd].
  rewrite map_id. reflexivity.
Qed.

Lemma In_process_event c t lv a :
  In a (process_event c t lv) <-> In a (cappenders c) /\ receives c t lv a = true.
Proof. rewrite process_event_filter. apply filter_In. Qed.

(* ------------------------------------------------------------------ the fast paths are redundant *)
Lemma receives_enabled c t lv a :
  receives c t lv a = true -> filter_enabled (build_filter a (cloggers c)) t lv = true.
Proof.
  unfold receives, actor_receives, filter_enabled. intros H. apply andb_true_iff in H. apply H.
Qed.

Lemma max_by_key_In {A} (key : A -> nat) l x : max_by_key key l = Some x -> In x l.
Proof. intros H. apply max_by_key_Some in H. apply H. Qed.

Lemma filter_enabled_max f t lv :
  filter_enabled f t lv = true -> admits (filter_max_level f) lv = true.
Proof.
  unfold filter_enabled, filter_max_level, find_most_specific_rule.
  destruct (max_by_key rule_len _) as [r|] eqn:E; intros H.
  - apply max_by_key_In in E. apply filter_In in E. destruct E as [E _].
    apply admits_mono with (rlevel r); [|exact H].
    apply fold_fmax_ge_in. apply in_map. exact E.
  - apply admits_mono with (fdefault f); [|exact H]. apply fold_fmax_ge_init.
Qed.

Lemma process_event_prefilters c t lv a :
  In a (process_event c t lv) ->
  admits (proc_max_level c) lv = true /\ event_enabled c t lv = true.
Proof.
  intros H. apply In_process_event in H. destruct H as [Ha Hr]. apply receives_enabled in Hr.
  assert (In (a, build_filter a (cloggers c)) (actors c)) as Hact
    by (unfold actors; apply in_map_iff; exists a; split; [reflexivity | exact Ha]).
  split.
  - unfold proc_max_level.
    apply admits_mono with (filter_max_level (build_filter a (cloggers c)));
      [|apply filter_enabled_max with t; exact Hr].
    apply fold_fmax_ge_in. apply in_map_iff. exists (a, build_filter a (cloggers c)).
    split; [reflexivity | exact Hact].
  - unfold event_enabled. apply existsb_exists. exists (a, build_filter a (cloggers c)).
    split; [exact Hact | exact Hr].
Qed.

(* log and tracing entry points select the same appenders: the level hints and
   Layer::enabled never reject an event that process_event would deliver *)
Theorem emit_is_process_event c v t lv : emit c v t lv = process_event c t lv.
Proof.
  assert (forall b : bool, (forall a, In a (process_event c t lv) -> b = true) ->
          (if b then process_event c t lv else []) = process_event c t lv) as K.
  { intros [|] Hb; [reflexivity|]. destruct (process_event c t lv) as [|a r]; [reflexivity|].
    specialize (Hb a (or_introl eq_refl)). discriminate. }
  destruct v; cbn [emit]; apply K; intros a Ha; apply process_event_prefilters in Ha.
  - apply Ha.
  - apply andb_true_iff. exact Ha.
Qed.

Theorem log_eq_tracing c t lv a :
  model_delivers c ViaLog t lv a = model_delivers c ViaTracing t lv a.
Proof. unfold model_delivers. rewrite !emit_is_process_event. reflexivity. Qed.

(* ------------------------------------------------------------------ exactly once *)
Theorem emit_NoDup c v t lv : NoDup (cappenders c) -> NoDup (emit c v t lv).
Proof.
  intros H. rewrite emit_is_process_event, process_event_filter. apply NoDup_filter. exact H.
Qed.

Theorem emit_exactly_once c v t lv a :
  NoDup (cappenders c) ->
  count_occ N.eq_dec (emit c v t lv) a = (if model_delivers c v t lv a then 1 else 0)%nat.
Proof.
  intros H. pose proof (emit_NoDup c v t lv H) as Hnd. unfold model_delivers.
  destruct (mem a (emit c v t lv)) eqn:E.
  - apply mem_In in E. apply NoDup_count_occ'; assumption.
  - apply mem_false_In in E. apply count_occ_not_In. exact E.
Qed.

(* ------------------------------------------------------------------ model = spec *)
Lemma default_is_root_fallback ls a lv :
  admits (fdefault (build_filter a ls)) lv
  = match (match find_root ls with
           | Some r => if mem a (lapps r) then Some r else None
           | None => None
           end) with
    | Some l => admits (llevel l) lv
    | None => false
    end.
Proof.
  unfold build_filter. cbn [fdefault]. destruct (find_root ls) as [r|]; [|apply admits_OFF].
  destruct (mem a (lapps r)); [reflexivity | apply admits_OFF].
Qed.

Lemma receives_is_spec c t lv a :
  wf_cfg c = true -> winner_wired c t = true ->
  receives c t lv a = spec_delivers c t lv a.
Proof.
  intros Hwf Hw. unfold receives, actor_receives, spec_delivers, spec_logger_for, spec_overall.
  rewrite (winner_is_overall c t Hwf Hw), fmsr_cands, (model_lookup_is_spec c a t Hwf).
  set (Sa := filter (fun l => mem a (lapps l)) (named_matching c t)).
  destruct (longest logger_len (named_matching c t)) as [w|] eqn:EW; cbn [option_map gate_of].
  - pose proof (longest_Some _ _ _ _ EW) as [HwIn HwMax].
    destruct (longest logger_len Sa) as [l|] eqn:EL; cbn [option_map rule_of rprefix rlevel].
    + (* appender a has a rule: logger l *)
      pose proof (longest_Some _ _ _ _ EL) as [HlIn HlMax].
      assert (In l (named_matching c t)) as HlM by (apply filter_In in HlIn; apply HlIn).
      assert (In a (lapps l)) as Hal by (apply filter_In in HlIn; apply mem_In; apply HlIn).
      rewrite andb_comm. f_equal.
      destruct (ladd w) eqn:Eadd; cbn [gate_of orb]; [reflexivity|].
      destruct (mem a (lapps w)) eqn:Emem.
      * (* w names a: then l = w *)
        assert (In w Sa) as HwS by (apply filter_In; split; assumption).
        assert (l = w) as ->.
        { apply (uniq_matching c t Hwf); try assumption.
          specialize (HlMax w HwS). specialize (HwMax l HlM). lia. }
        apply name_eqb_refl.
      * apply name_eqb_neq. intros E.
        assert (l = w) as ->.
        { apply In_named_matching in HlM, HwIn.
          apply (NoDup_map_inj lname (cloggers c)); try tauto. apply wf_names; exact Hwf. }
        apply mem_In in Hal. congruence.
    + (* appender a has no rule for this target *)
      apply longest_None in EL.
      assert (mem a (lapps w) = false) as Emem.
      { destruct (mem a (lapps w)) eqn:E; [|reflexivity]. exfalso.
        assert (In w Sa) as HwS by (apply filter_In; split; assumption).
        rewrite EL in HwS. destruct HwS. }
      rewrite Emem, orb_false_r, default_is_root_fallback.
      destruct (ladd w); cbn [gate_of andb]; [rewrite andb_true_r; reflexivity|].
      rewrite andb_false_r. reflexivity.
  - (* no named logger matches the target: root decides *)
    apply longest_None in EW.
    assert (Sa = []) as -> by (unfold Sa; rewrite EW; reflexivity).
    cbn [longest option_map gate_of andb]. rewrite default_is_root_fallback.
    destruct (find_root (cloggers c)) as [r|]; [|reflexivity].
    destruct (mem a (lapps r)) eqn:Emem; [|reflexivity].
    rewrite orb_true_r, andb_true_r. reflexivity.
Qed.

Lemma spec_needs_appender c t lv a :
  wf_cfg c = true -> spec_delivers c t lv a = true -> In a (cappenders c).
Proof.
  intros Hwf H. unfold spec_delivers in H. apply andb_true_iff in H. destruct H as [H _].
  unfold spec_logger_for in H.
  destruct (longest logger_len (filter (fun l => mem a (lapps l)) (named_matching c t))) as [l|] eqn:EL.
  - apply longest_Some in EL. destruct EL as [HlIn _]. apply filter_In in HlIn.
    destruct HlIn as [HlM Hal]. apply In_named_matching in HlM.
    apply (wf_apps c l); [exact Hwf | apply HlM | apply mem_In; exact Hal].
  - destruct (find_root (cloggers c)) as [r|] eqn:ER; [|discriminate].
    destruct (mem a (lapps r)) eqn:Emem; [|discriminate].
    apply find_some in ER. apply (wf_apps c r); [exact Hwf | apply ER | apply mem_In; exact Emem].
Qed.

(* MAIN (per target): where the most specific matching logger names an appender, the code
   delivers exactly as the property sentence says, through either entry point *)
Theorem route_except_F25_at c v t lv a :
  wf_cfg c = true -> winner_wired c t = true ->
  model_delivers c v t lv a = spec_delivers c t lv a.
Proof.
  intros Hwf Hw. unfold model_delivers. rewrite emit_is_process_event.
  destruct (spec_delivers c t lv a) eqn:ES.
  - apply mem_In, In_process_event. split; [apply (spec_needs_appender c t lv a); assumption|].
    rewrite receives_is_spec; assumption.
  - apply mem_false_In. intros H. apply In_process_event in H. destruct H as [_ H].
    rewrite receives_is_spec in H by assumption. congruence.
Qed.

Lemma all_wired_winner c t : all_wired c = true -> winner_wired c t = true.
Proof.
  unfold all_wired, winner_wired. intros H.
  destruct (longest logger_len (named_matching c t)) as [w|] eqn:EW; [|reflexivity].
  apply longest_Some in EW. destruct EW as [HwIn _]. apply In_named_matching in HwIn.
  rewrite forallb_forall in H. destruct HwIn as [HwL [HwR _]]. specialize (H w HwL).
  rewrite HwR in H. exact H.
Qed.

(* MAIN (per configuration) *)
Theorem route_except_F25 c :
  wf_cfg c = true -> all_wired c = true ->
  forall v t lv a, model_delivers c v t lv a = spec_delivers c t lv a.
Proof.
  intros Hwf Hall v t lv a. apply route_except_F25_at; [exact Hwf | apply all_wired_winner; exact Hall].
Qed.

(* ------------------------------------------------------------------ F-25 witnesses *)
(* bytes: n=110 o=111 i=105 s=115 y=121 x=120 a=97 p=112 d=100 b=98 q=113 *)
Definition nm_noisy : name := [110; 111; 105; 115; 121].
Definition nm_app : name := [97; 112; 112].
Definition nm_app_db : name := nm_app ++ sep ++ [100; 98].

(* root -> s0 (INFO); "noisy" non-additive, no appenders *)
Definition cfg_F25 : config :=
  mkConfig [0] [mkLogger root_name (UPTO INFO) true [0]; mkLogger nm_noisy (UPTO INFO) false []].

(* root -> s0; "app" non-additive -> s1; "app::db" additive, no appenders *)
Definition cfg_F25b : config :=
  mkConfig [0; 1] [mkLogger root_name (UPTO INFO) true [0];
                   mkLogger nm_app (UPTO INFO) false [1];
                   mkLogger nm_app_db (UPTO INFO) true []].

Lemma F25_witness :
  wf_cfg cfg_F25 = true /\ nonadditive_wired cfg_F25 = false
  /\ model_delivers cfg_F25 ViaLog (nm_noisy ++ sep ++ [120]) INFO 0 = true
  /\ model_delivers cfg_F25 ViaTracing (nm_noisy ++ sep ++ [120]) INFO 0 = true
  /\ spec_delivers cfg_F25 (nm_noisy ++ sep ++ [120]) INFO 0 = false.
Proof. vm_compute. repeat split. Qed.

Lemma F25b_witness :
  wf_cfg cfg_F25b = true /\ nonadditive_wired cfg_F25b = true
  /\ model_delivers cfg_F25b ViaLog (nm_app_db ++ sep ++ [113]) INFO 0 = false
  /\ spec_delivers cfg_F25b (nm_app_db ++ sep ++ [113]) INFO 0 = true.
Proof. vm_compute. repeat split. Qed.

(* the full statement (no wiring hypothesis) is false of the code as written *)
Theorem route_refuted_F25 :
  ~ (forall c v t lv a, wf_cfg c = true -> model_delivers c v t lv a = spec_delivers c t lv a).
Proof.
  intros H. destruct F25_witness as [Hwf [_ [Hm [_ Hs]]]].
  specialize (H cfg_F25 ViaLog (nm_noisy ++ sep ++ [120]) INFO 0 Hwf). congruence.
Qed.

(* excluding only NON-ADDITIVE appender-less loggers is not enough: an additive one hides the
   logger from the winner loop too, and a less specific non-additive logger then gates *)
Theorem route_refuted_F25_additive :
  ~ (forall c v t lv a, wf_cfg c = true -> nonadditive_wired c = true ->
                        model_delivers c v t lv a = spec_delivers c t lv a).
Proof.
  intros H. destruct F25b_witness as [Hwf [Hna [Hm Hs]]].
  specialize (H cfg_F25b ViaLog (nm_app_db ++ sep ++ [113]) INFO 0 Hwf Hna). congruence.
Qed.
