(* Proofs/RvK3Queue.v — queue invariant of the K3' rendezvous model (cancel CAS under the lock):
   records are linked exactly while their owner's frame is live and its state is WAITING. *)
From Coq Require Import List NArith Arith Bool Lia.
From Fibre Require Import Common.Conc Chan.RvK3 Proofs.RvK3Base.
Import ListNotations.

(* relation of a pc to the two queues: L = the frame is registered and may be linked,
   X = the frame is registered, its owner has seen (or caused) a terminal state *)
Inductive qk := QLS | QXS | QLR | QXR | QN.
Definition qrel (p : pc) : qk :=
  match p with
  | SUnl _ SUParked | SWait | SPark => QLS
  | SFinal => QXS
  | RUnl _ RUParked | RWait | RPark | RtLoad | RtDec | CLock | CCas => QLR
  | RFinal _ | CUnl _ => QXR
  | _ => QN
  end.

Definition qok (s : st) (u : nat) : Prop :=
  match qrel (pcs s u) with
  | QLS => (In u (sq s) <-> wstate s u = W) /\ ~ In u (rq s)
  | QXS => ~ In u (sq s) /\ ~ In u (rq s) /\ wstate s u <> W
  | QLR => (In u (rq s) <-> wstate s u = W) /\ ~ In u (sq s)
  | QXR => ~ In u (rq s) /\ ~ In u (sq s) /\ wstate s u <> W
  | QN => ~ In u (sq s) /\ ~ In u (rq s)
  end.

(* a thread about to pop the head of a queue finds one *)
Definition qfront (cfg : list tcfg) (s : st) (u : nat) : Prop :=
  match pcs s u with
  | SFul _ => rq s <> []
  | RFul _ => sq s <> []
  | DDisc _ => (if is_sender cfg u then rq s else sq s) <> []
  | _ => True
  end.

Record QInv (cfg : list tcfg) (s : st) : Prop := {
  Q_nds : NoDup (sq s);
  Q_ndr : NoDup (rq s);
  Q_x : sq s = [] \/ rq s = [];
  Q_ok : forall u, qok s u;
  Q_front : forall u, qfront cfg s u
}.

Lemma QInv_init cfg : QInv cfg (init cfg).
Proof.
  split; cbn.
  - constructor.
  - constructor.
  - left. reflexivity.
  - intros u. unfold qok. cbn. tauto.
  - intros u. exact I.
Qed.

Lemma pop_facts (l : list nat) n v :
  NoDup l -> l = n :: v -> NoDup v /\ In n l /\ forall u, In u v <-> In u l /\ u <> n.
Proof.
  intros N ->. apply NoDup_cons_inv in N. destruct N as [N1 N2]. split; [exact N2|]. split; [left; reflexivity|].
  intros u. cbn [In]. split.
  - intros H. split; [right; exact H|]. intros ->. contradiction.
  - intros [[->|H] H2]; [contradiction|exact H].
Qed.

Lemma app_single_nonnil A (l : list A) t : l ++ [t] <> [].
Proof. destruct l; discriminate. Qed.

Lemma QInv_step cfg s t c s' e :
  LockInv cfg s -> QInv cfg s -> step true cfg s t c = Some (s', e) -> QInv cfg s'.
Proof.
  intros [L1 L2 L3] [N1 N2 X Qo Qf] H. pose proof (L1 t) as Lt. pose proof (Qo t) as Qt. pose proof (Qf t) as Ft.
  pose proof (L2 t) as Xt. unfold qok in Qt. unfold qfront in Ft.
  assert (Hhold : forall u, u <> t -> lock s = Some t -> holds (pcs s u) = false).
  { intros u Hu Hl. destruct (holds (pcs s u)) eqn:Eh; [|reflexivity]. apply L1 in Eh. congruence. }
  step_cases H; rewrite Epc in Lt, Qt, Ft, Xt; cbn [holds qrel xpc] in Lt, Qt, Ft, Xt; try discriminate Xt.
  (* steps that leave both queues and every state alone *)
  all: try solve [ split; fsimpl; try assumption;
    [ intros u; pose proof (Qo u) as Qu; unfold qok in *; fsimpl; split_thr u t; [cbn [qrel]|exact Qu];
      try match goal with E : wstate _ _ = _ |- _ => rewrite E in * end; intuition congruence
    | intros u; pose proof (Qf u) as Fu; unfold qfront in *; fsimpl; split_thr u t; [|exact Fu];
      unfold is_sender, is_receiver; rewrite ?Er;
      try match goal with E : sq _ = _ |- _ => rewrite E end;
      try match goal with E : rq _ = _ |- _ => rewrite E end; 
      try exact I; try discriminate ] ].
  (* a thread links its own record *)
  all: try solve [ split; fsimpl; try assumption;
    [ apply NoDup_app_single; [assumption|tauto]
    | first [ right; assumption | left; assumption ]
    | intros u; pose proof (Qo u) as Qu; unfold qok in *; fsimpl; split_thr u t;
      [ cbn [qrel]; rewrite In_app_single; intuition congruence
      | destruct (qrel (pcs s u)); rewrite In_app_single; intuition congruence ]
    | intros u; pose proof (Qf u) as Fu; unfold qfront in *; fsimpl; split_thr u t; [exact I|];
      destruct (pcs s u); try exact I; try assumption;
      try (destruct (is_sender cfg u); try assumption); apply app_single_nonnil ] ].
  (* the lock holder pops the head of a queue and publishes its terminal state *)
  all: try solve [
    assert (Hl : lock s = Some t) by (apply Lt; reflexivity);
    match goal with
    | E : rq _ = ?n :: ?v |- _ => destruct (pop_facts _ _ _ N2 E) as [Nv [Hn Hv]]; pose proof (Qo n) as Qn
    | E : sq _ = ?n :: ?v |- _ => destruct (pop_facts _ _ _ N1 E) as [Nv [Hn Hv]]; pose proof (Qo n) as Qn
    end;
    assert (X' : sq s = [] /\ True \/ rq s = [] /\ True) by tauto;
    split; fsimpl; try assumption;
    [ destruct X as [X|X]; [left|right]; try assumption;
      match goal with E : _ = _ :: _ |- _ => rewrite E in X; discriminate X end
    | intros u; pose proof (Qo u) as Qu; unfold qok in *; fsimpl;
      match goal with |- context [upd (wstate _) ?n _] =>
        split_thr u t; [ cbn [qrel]; rewrite ?Hv; split_thr t n; intuition congruence | ];
        split_thr u n; [ destruct (qrel (pcs s n)); rewrite ?Hv; intuition congruence
                       | destruct (qrel (pcs s u)); rewrite ?Hv; intuition congruence ] end
    | intros u; pose proof (Qf u) as Fu; unfold qfront in *; fsimpl; split_thr u t;
      [ unfold is_sender, is_receiver; rewrite ?Er; try exact I; discriminate
      | specialize (Hhold u ltac:(assumption) Hl); destruct (pcs s u); try exact I; discriminate Hhold ] ] ].
  (* cancel_receiver: CAS WAITING -> CANCELLED and unlink, under the lock *)
  assert (Hl : lock s = Some t) by (apply Lt; reflexivity).
  split; fsimpl; try assumption.
  - apply rem_NoDup. assumption.
  - destruct X as [X|X]; [left; assumption|right]. rewrite X. reflexivity.
  - intros u. pose proof (Qo u) as Qu. unfold qok in *. fsimpl. split_thr u t.
    + cbn [qrel]. rewrite rem_In. intuition congruence.
    + destruct (qrel (pcs s u)); rewrite rem_In; intuition congruence.
  - intros u. pose proof (Qf u) as Fu. unfold qfront in *. fsimpl. split_thr u t; [exact I|].
    specialize (Hhold u ltac:(assumption) Hl). destruct (pcs s u); try exact I; discriminate Hhold.
Qed.
