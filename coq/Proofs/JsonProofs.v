(* Proofs/JsonProofs.v — lemmas and main theorems about Log/Json.v *)
From Fibre Require Import Common.Base Log.Json.
From Coq Require Import ZifyBool ZifyNat ZifyN Sorted.
Ltac Zify.zify_post_hook ::= Z.div_mod_to_equations.
Open Scope N_scope.

(** * escape / scan_str *)
Lemma escape_app a b : escape (a ++ b) = escape a ++ escape b.
Proof.
  induction a as [|x a IH]; cbn [escape app]; [reflexivity|].
  rewrite IH, app_assoc. reflexivity.
Qed.

Lemma unhexd_hexd d : d < 16 -> unhexd (hexd d) = Some d.
Proof.
  intros H. unfold hexd, unhexd.
  destruct (N.ltb_spec d 10) as [L|L].
  - replace ((48 <=? 48 + d) && (48 + d <=? 57)) with true by lia.
    f_equal. lia.
  - replace ((48 <=? 87 + d) && (87 + d <=? 57)) with false by lia.
    replace ((97 <=? 87 + d) && (87 + d <=? 102)) with true by lia.
    f_equal. lia.
Qed.

(* one scanner step on each shape [esc_byte] can produce *)
Lemma scan_plain b r : 32 <= b -> b <> 34 -> b <> 92 ->
  scan_str (b :: r) = cons_fst b (scan_str r).
Proof.
  intros H1 H2 H3. cbn [scan_str].
  destruct (N.eqb_spec b 34) as [E|_]; [contradiction|].
  destruct (N.eqb_spec b 92) as [E|_]; [contradiction|].
  destruct (N.ltb_spec b 32) as [L|_]; [lia|]. reflexivity.
Qed.

Lemma scan_simple c x r : simple_unesc c = Some x -> c <> 117 ->
  scan_str (92 :: c :: r) = cons_fst x (scan_str r).
Proof.
  intros H1 H2. cbn [scan_str].
  change (92 =? 34) with false. change (92 =? 92) with true. cbv iota.
  destruct (N.eqb_spec c 117) as [E|_]; [contradiction|].
  rewrite H1. reflexivity.
Qed.

Lemma scan_u b r : b < 32 ->
  scan_str (92 :: 117 :: 48 :: 48 :: hexd (b / 16) :: hexd (b mod 16) :: r) = cons_fst b (scan_str r).
Proof.
  intros H. cbn [scan_str].
  change (92 =? 34) with false. change (92 =? 92) with true.
  change (117 =? 117) with true. cbv iota.
  change (unhexd 48) with (Some 0).
  rewrite (unhexd_hexd (b / 16)) by lia.
  rewrite (unhexd_hexd (b mod 16)) by lia.
  cbv iota beta.
  replace (((0 * 16 + 0) * 16 + b / 16) * 16 + b mod 16) with b by lia.
  destruct (N.ltb_spec b 128) as [_|L]; [reflexivity|lia].
Qed.

Lemma scan_esc_byte b r : scan_str (esc_byte b ++ r) = cons_fst b (scan_str r).
Proof.
  unfold esc_byte.
  destruct (N.eqb_spec b 34) as [->|N1]; [apply (scan_simple 34 34); [reflexivity|discriminate]|].
  destruct (N.eqb_spec b 92) as [->|N2]; [apply (scan_simple 92 92); [reflexivity|discriminate]|].
  destruct (N.eqb_spec b 8) as [->|N3]; [apply (scan_simple 98 8); [reflexivity|discriminate]|].
  destruct (N.eqb_spec b 9) as [->|N4]; [apply (scan_simple 116 9); [reflexivity|discriminate]|].
  destruct (N.eqb_spec b 10) as [->|N5]; [apply (scan_simple 110 10); [reflexivity|discriminate]|].
  destruct (N.eqb_spec b 12) as [->|N6]; [apply (scan_simple 102 12); [reflexivity|discriminate]|].
  destruct (N.eqb_spec b 13) as [->|N7]; [apply (scan_simple 114 13); [reflexivity|discriminate]|].
  destruct (N.ltb_spec b 32) as [L|L].
  - apply scan_u. exact L.
  - apply scan_plain; assumption.
Qed.

(* (b) the literal is consumed entirely, with no early termination, whatever follows it *)
Theorem scan_escape : forall s rest, scan_str (escape s ++ 34 :: rest) = Some (s, rest).
Proof.
  induction s as [|b s IH]; intros rest.
  - reflexivity.
  - cbn [escape]. rewrite <- app_assoc, scan_esc_byte, IH. reflexivity.
Qed.

(* (a) *)
Theorem unescape_escape : forall s, unescape (escape s) = Some s.
Proof. intros s. unfold unescape. rewrite scan_escape. reflexivity. Qed.

Lemma hexd_range d : d < 16 -> 48 <= hexd d /\ hexd d <= 102.
Proof. intros H. unfold hexd. destruct (N.ltb_spec d 10); lia. Qed.

Lemma esc_byte_ge32 b x : In x (esc_byte b) -> 32 <= x /\ (b < 256 -> x < 256).
Proof.
  unfold esc_byte.
  destruct (N.eqb_spec b 34) as [->|N1]; [cbn [In]; intros H; repeat destruct H as [<-|H]; try lia; contradiction|].
  destruct (N.eqb_spec b 92) as [->|N2]; [cbn [In]; intros H; repeat destruct H as [<-|H]; try lia; contradiction|].
  destruct (N.eqb_spec b 8) as [->|N3]; [cbn [In]; intros H; repeat destruct H as [<-|H]; try lia; contradiction|].
  destruct (N.eqb_spec b 9) as [->|N4]; [cbn [In]; intros H; repeat destruct H as [<-|H]; try lia; contradiction|].
  destruct (N.eqb_spec b 10) as [->|N5]; [cbn [In]; intros H; repeat destruct H as [<-|H]; try lia; contradiction|].
  destruct (N.eqb_spec b 12) as [->|N6]; [cbn [In]; intros H; repeat destruct H as [<-|H]; try lia; contradiction|].
  destruct (N.eqb_spec b 13) as [->|N7]; [cbn [In]; intros H; repeat destruct H as [<-|H]; try lia; contradiction|].
  destruct (N.ltb_spec b 32) as [L|L]; cbn [In]; intros H.
  - pose proof (hexd_range (b / 16) ltac:(lia)). pose proof (hexd_range (b mod 16) ltac:(lia)).
    repeat destruct H as [<-|H]; try lia; contradiction.
  - destruct H as [<-|[]]. lia.
Qed.

(* (b) no raw control byte (in particular no raw newline), and bytes stay bytes *)
Theorem escape_no_control : forall s x, In x (escape s) -> 32 <= x.
Proof.
  induction s as [|b s IH]; cbn [escape]; intros x H; [contradiction|].
  apply in_app_or in H. destruct H as [H|H]; [apply (esc_byte_ge32 b x H)|apply IH, H].
Qed.

Theorem escape_bytes : forall s, Forall (fun b => b < 256) s -> Forall (fun b => b < 256) (escape s).
Proof.
  induction s as [|b s IH]; cbn [escape]; intros H; [constructor|].
  inversion H as [|? ? Hb Hs]; subst. apply Forall_app. split; [|apply IH, Hs].
  apply Forall_forall. intros x Hx. apply (esc_byte_ge32 b x Hx). exact Hb.
Qed.

Corollary escape_no_newline : forall s, ~ In 10 (escape s).
Proof. intros s H. apply escape_no_control in H. lia. Qed.

(* non-ASCII bytes (every byte of a multi-byte UTF-8 sequence) pass through untouched and the
   escaper adds only ASCII: the >= 0x80 subsequence is unchanged *)
Theorem escape_high_bytes : forall s,
  filter (fun b => 128 <=? b) (escape s) = filter (fun b => 128 <=? b) s.
Proof.
  induction s as [|b s IH]; [reflexivity|]. cbn [escape]. rewrite filter_app, IH.
  cbn [filter]. unfold esc_byte.
  destruct (N.eqb_spec b 34) as [->|N1]; [reflexivity|].
  destruct (N.eqb_spec b 92) as [->|N2]; [reflexivity|].
  destruct (N.eqb_spec b 8) as [->|N3]; [reflexivity|].
  destruct (N.eqb_spec b 9) as [->|N4]; [reflexivity|].
  destruct (N.eqb_spec b 10) as [->|N5]; [reflexivity|].
  destruct (N.eqb_spec b 12) as [->|N6]; [reflexivity|].
  destruct (N.eqb_spec b 13) as [->|N7]; [reflexivity|].
  destruct (N.ltb_spec b 32) as [L|L].
  - pose proof (hexd_range (b / 16) ltac:(lia)). pose proof (hexd_range (b mod 16) ltac:(lia)).
    cbn [filter app].
    change (128 <=? 92) with false. change (128 <=? 117) with false. change (128 <=? 48) with false.
    replace (128 <=? hexd (b / 16)) with false by lia.
    replace (128 <=? hexd (b mod 16)) with false by lia.
    replace (128 <=? b) with false by lia. reflexivity.
  - cbn [filter app]. destruct (128 <=? b); reflexivity.
Qed.

(** * the record parser reads back what the serialiser wrote *)
Definition atom_ok (a : jatom) : bool :=
  match a with
  | AStr _ => true
  | ARaw r => raw_ok r
  end.

Lemma raw_byte_not_special b : raw_byte_ok b = true ->
  is_delim b = false /\ b <> 34 /\ b <> 123 /\ 32 <= b.
Proof. unfold raw_byte_ok, is_delim. intros H. repeat split; lia. Qed.

Lemma span_raw_run t d rest : forallb raw_byte_ok t = true -> is_delim d = true ->
  span_raw (t ++ d :: rest) = (t, d :: rest).
Proof.
  intros Ht Hd. induction t as [|b t IH]; cbn [app span_raw].
  - rewrite Hd. reflexivity.
  - cbn [forallb] in Ht. apply andb_true_iff in Ht. destruct Ht as [Hb Ht].
    destruct (raw_byte_not_special b Hb) as [-> _]. rewrite (IH Ht). reflexivity.
Qed.

Lemma ser_str_app s rest : ser_str s ++ rest = 34 :: escape s ++ 34 :: rest.
Proof. unfold ser_str. cbn [app]. rewrite <- app_assoc. reflexivity. Qed.

Lemma p_atom_ser a d rest : atom_ok a = true -> is_delim d = true ->
  p_atom (ser_atom a ++ d :: rest) = Some (a, d :: rest).
Proof.
  intros Ha Hd. destruct a as [s|r]; cbn [ser_atom atom_ok] in *.
  - rewrite ser_str_app. cbn [p_atom]. change (34 =? 34) with true. cbv iota.
    rewrite scan_escape. reflexivity.
  - destruct r as [|b r]; [discriminate|]. cbn [raw_ok] in Ha.
    assert (Hb : raw_byte_ok b = true) by (cbn [forallb] in Ha; apply andb_true_iff in Ha; tauto).
    destruct (raw_byte_not_special b Hb) as (_ & N34 & _ & _).
    change ((b :: r) ++ d :: rest) with (b :: (r ++ d :: rest)).
    unfold p_atom. destruct (N.eqb_spec b 34) as [E|_]; [contradiction|].
    change (b :: (r ++ d :: rest)) with ((b :: r) ++ d :: rest).
    rewrite (span_raw_run _ _ _ Ha Hd). cbn [raw_ok]. rewrite Ha. reflexivity.
Qed.

Section MembersProofs.
  Context {V : Type}.
  Variable pv : bytes -> option (V * bytes).
  Variable sv : V -> bytes.
  Variable okv : V -> Prop.
  Hypothesis Hpv : forall v, okv v -> forall d rest, is_delim d = true ->
    pv (sv v ++ d :: rest) = Some (v, d :: rest).

  Lemma p_members_ser : forall l, l <> [] -> (forall k v, In (k, v) l -> okv v) ->
    forall fuel rest, (length l <= fuel)%nat ->
    p_members pv fuel (ser_members sv l ++ 125 :: rest) = Some (l, rest).
  Proof.
    induction l as [|[k v] t IH]; intros Hne Hok fuel rest Hf; [contradiction|].
    destruct fuel as [|f]; [cbn [length] in Hf; lia|].
    assert (Hv : okv v) by (apply (Hok k); left; reflexivity).
    destruct t as [|kv' t'].
    - cbn [ser_members]. rewrite <- app_assoc, ser_str_app. cbn [app p_members].
      change (34 =? 34) with true. cbv iota. rewrite scan_escape.
      change (58 =? 58) with true. cbv iota.
      rewrite (Hpv v Hv 125 rest eq_refl).
      change (125 =? 44) with false. change (125 =? 125) with true. reflexivity.
    - cbn [ser_members]. rewrite <- app_assoc, ser_str_app. cbn [app p_members].
      change (34 =? 34) with true. cbv iota. rewrite scan_escape.
      change (58 =? 58) with true. cbv iota.
      rewrite <- app_assoc. cbn [app].
      rewrite (Hpv v Hv 44 _ eq_refl).
      change (44 =? 44) with true. cbv iota.
      rewrite IH; [reflexivity|discriminate| |cbn [length] in *; lia].
      intros k0 v0 H0. apply (Hok k0). right. exact H0.
  Qed.

  Lemma ser_members_head : forall l, l <> [] -> exists r, ser_members sv l = 34 :: r.
  Proof.
    intros [|[k v] t] H; [contradiction|]. cbn [ser_members].
    destruct t; unfold ser_str; cbn [app]; eexists; reflexivity.
  Qed.

  Lemma p_obj_ser : forall l, (forall k v, In (k, v) l -> okv v) ->
    forall fuel rest, (length l <= fuel)%nat ->
    p_obj pv fuel (ser_obj sv l ++ rest) = Some (l, rest).
  Proof.
    intros l Hok fuel rest Hf. unfold ser_obj. cbn [app]. rewrite <- app_assoc. cbn [app].
    destruct l as [|kv t].
    - reflexivity.
    - destruct (ser_members_head (kv :: t)) as [r Hr]; [discriminate|].
      unfold p_obj. change (123 =? 123) with true. cbv iota.
      rewrite Hr. cbn [app]. change (34 =? 125) with false. cbv iota.
      change (34 :: r ++ 125 :: rest) with ((34 :: r) ++ 125 :: rest). rewrite <- Hr.
      apply p_members_ser; [discriminate|exact Hok|exact Hf].
  Qed.

End MembersProofs.

Lemma ser_members_length {V : Type} (sv : V -> bytes) : forall l : list (bytes * V), (length l <= length (ser_members sv l))%nat.
Proof.
  induction l as [|[k v] t IH]; [cbn; lia|]. cbn [ser_members].
  destruct t as [|kv' t']; unfold ser_str.
  - cbn [length app]. lia.
  - cbn [length app] in *. rewrite !app_length. cbn [length]. rewrite !app_length. cbn [length]. lia.
Qed.

Lemma ser_members_value_length {V : Type} (sv : V -> bytes) : forall (l : list (bytes * V)) k v, In (k, v) l ->
  (length (sv v) <= length (ser_members sv l))%nat.
Proof.
  induction l as [|[k0 v0] t IH]; intros k v H; [contradiction|]. cbn [ser_members].
  destruct H as [E|H].
  - inversion E; subst. destruct t; rewrite !app_length; cbn [length]; [lia|]. rewrite !app_length. lia.
  - destruct t as [|kv' t']; [contradiction|]. specialize (IH k v H).
    rewrite !app_length. cbn [length]. rewrite !app_length. cbn [length]. lia.
Qed.

Lemma ser_members_bytes {V : Type} (sv : V -> bytes) (P : N -> Prop) : P 34 -> P 58 -> P 44 ->
  (forall s x, In x (escape s) -> P x) ->
  forall l : list (bytes * V), (forall k v x, In (k, v) l -> In x (sv v) -> P x) ->
  forall x, In x (ser_members sv l) -> P x.
Proof.
  intros P34 P58 P44 Pesc. induction l as [|[k v] t IH]; intros Hv x Hx; [contradiction|].
  assert (Hstr : forall y, In y (ser_str k) -> P y).
  { unfold ser_str. intros y [<-|Hy]; [exact P34|]. apply in_app_or in Hy.
    destruct Hy as [Hy|[<-|[]]]; [apply (Pesc k y Hy)|exact P34]. }
  cbn [ser_members] in Hx. destruct t as [|kv' t'].
  - apply in_app_or in Hx. destruct Hx as [Hx|[<-|Hx]]; [apply Hstr, Hx|exact P58|].
    apply (Hv k v x); [left; reflexivity|exact Hx].
  - apply in_app_or in Hx. destruct Hx as [Hx|[<-|Hx]]; [apply Hstr, Hx|exact P58|].
    apply in_app_or in Hx. destruct Hx as [Hx|[<-|Hx]]; [apply (Hv k v x); [left; reflexivity|exact Hx]|exact P44|].
    apply IH; [|exact Hx]. intros k0 v0 x0 H0. apply (Hv k0 v0 x0). right. exact H0.
Qed.

Definition jval_ok (fuel : nat) (v : jval) : Prop :=
  match v with
  | JAtom a => atom_ok a = true
  | JObj m => (forall k a, In (k, a) m -> atom_ok a = true) /\ (length m <= fuel)%nat
  end.

Lemma ser_atom_head a : atom_ok a = true -> exists b r, ser_atom a = b :: r /\ b <> 123.
Proof.
  destruct a as [s|[|b r]]; cbn [atom_ok ser_atom raw_ok]; intros H.
  - unfold ser_str. eexists _, _. split; [reflexivity|discriminate].
  - discriminate.
  - exists b, r. split; [reflexivity|]. cbn [forallb] in H. apply andb_true_iff in H.
    destruct (raw_byte_not_special b (proj1 H)) as (_ & _ & N & _). exact N.
Qed.

Lemma p_value_ser fuel v d rest : jval_ok fuel v -> is_delim d = true ->
  p_value fuel (ser_val v ++ d :: rest) = Some (v, d :: rest).
Proof.
  intros Hv Hd. destruct v as [a|m]; cbn [jval_ok ser_val] in *.
  - destruct (ser_atom_head a Hv) as (b & r & E & N).
    unfold p_value. rewrite E at 1. cbn [app].
    destruct (N.eqb_spec b 123) as [E2|_]; [contradiction|].
    rewrite (p_atom_ser a d rest Hv Hd). reflexivity.
  - destruct Hv as [Ha Hl]. unfold p_value.
    unfold ser_obj at 1. cbn [app]. change (123 =? 123) with true. cbv iota.
    change (123 :: (ser_members ser_atom m ++ [125]) ++ d :: rest)
      with (ser_obj ser_atom m ++ d :: rest).
    rewrite (p_obj_ser p_atom ser_atom (fun a => atom_ok a = true)); [reflexivity| |exact Ha|exact Hl].
    intros a Ha' d' rest' Hd'. apply p_atom_ser; assumption.
Qed.

(* well-formed values: raw tokens are number-like; nested objects hold atoms only *)
Definition jval_wf (v : jval) : Prop :=
  match v with
  | JAtom a => atom_ok a = true
  | JObj fm => forall k a, In (k, a) fm -> atom_ok a = true
  end.

Theorem parse_line_ser : forall m,
  (forall k v, In (k, v) m -> jval_wf v) ->
  parse_line (ser_obj ser_val m ++ [10]) = Some m.
Proof.
  intros m Hm. unfold parse_line.
  set (n := length (ser_obj ser_val m ++ [10])).
  rewrite (p_obj_ser (p_value n) ser_val (jval_ok n)).
  - change (10 =? 10) with true. reflexivity.
  - intros v Hv d rest Hd. apply p_value_ser; assumption.
  - intros k v Hin. specialize (Hm k v Hin). destruct v as [a|fm]; cbn [jval_ok jval_wf] in *; [exact Hm|].
    split; [exact Hm|].
    pose proof (ser_members_value_length ser_val m k (JObj fm) Hin) as H1.
    pose proof (ser_members_length ser_atom fm) as H2.
    subst n. unfold ser_obj. cbn [ser_val] in H1. unfold ser_obj in H1.
    cbn [length app] in *. rewrite !app_length in *. cbn [length] in *. lia.
  - subst n. pose proof (ser_members_length ser_val m). unfold ser_obj.
    cbn [length app]. rewrite !app_length. cbn [length]. lia.
Qed.

(** * byte-string equality / order, BTreeMap-as-sorted-list facts *)
Lemma bytes_eqb_eq a b : bytes_eqb a b = true <-> a = b.
Proof.
  revert b. induction a as [|x a IH]; intros [|y b]; cbn [bytes_eqb]; try (split; [discriminate|discriminate]).
  - split; reflexivity.
  - rewrite andb_true_iff, IH. split.
    + intros [H1 H2]. apply N.eqb_eq in H1. subst. reflexivity.
    + intros H. inversion H. split; [apply N.eqb_refl|reflexivity].
Qed.

Lemma bytes_eqb_refl a : bytes_eqb a a = true.
Proof. apply bytes_eqb_eq. reflexivity. Qed.

Lemma bytes_eqb_neq a b : bytes_eqb a b = false <-> a <> b.
Proof.
  split.
  - intros H E. apply bytes_eqb_eq in E. rewrite E in H. discriminate.
  - intros H. destruct (bytes_eqb a b) eqn:E; [|reflexivity]. apply bytes_eqb_eq in E. contradiction.
Qed.

Lemma lex_ltb_irrefl a : lex_ltb a a = false.
Proof.
  induction a as [|x a IH]; cbn [lex_ltb]; [reflexivity|].
  destruct (N.ltb_spec x x); [lia|exact IH].
Qed.

Lemma lex_ltb_trans a b c : lex_ltb a b = true -> lex_ltb b c = true -> lex_ltb a c = true.
Proof.
  revert b c. induction a as [|x a IH]; intros [|y b] [|z c]; cbn [lex_ltb]; try discriminate; try reflexivity.
  destruct (N.ltb_spec x y) as [L1|L1].
  - intros _. destruct (N.ltb_spec y z) as [L2|L2].
    + intros _. destruct (N.ltb_spec x z); [reflexivity|lia].
    + destruct (N.ltb_spec z y) as [L3|L3]; [discriminate|]. intros _.
      destruct (N.ltb_spec x z); [reflexivity|lia].
  - destruct (N.ltb_spec y x) as [L1'|L1']; [discriminate|]. intros Hab.
    assert (x = y) by lia. subst y.
    destruct (N.ltb_spec x z) as [L2|L2]; [reflexivity|].
    destruct (N.ltb_spec z x) as [L3|L3]; [discriminate|]. apply IH. exact Hab.
Qed.

Lemma lex_total a b : bytes_eqb a b = false -> lex_ltb a b = false -> lex_ltb b a = true.
Proof.
  revert b. induction a as [|x a IH]; intros [|y b]; cbn [bytes_eqb lex_ltb]; try discriminate; try reflexivity.
  destruct (N.ltb_spec x y) as [L1|L1]; [discriminate|].
  destruct (N.ltb_spec y x) as [L2|L2]; [reflexivity|].
  assert (x = y) by lia. subst y. rewrite N.eqb_refl. cbn [andb]. apply IH.
Qed.

Definition lex_lt (a b : bytes) : Prop := lex_ltb a b = true.

Definition keys_sorted {V : Type} (m : list (bytes * V)) : Prop := Sorted lex_lt (map fst m).

Lemma bt_lookup_insert_same {V : Type} k (v : V) m : bt_lookup k (bt_insert k v m) = Some v.
Proof.
  induction m as [|[k1 v1] t IH]; cbn [bt_insert bt_lookup].
  - rewrite bytes_eqb_refl. reflexivity.
  - destruct (bytes_eqb k k1) eqn:E1.
    + cbn [bt_lookup]. rewrite bytes_eqb_refl. reflexivity.
    + destruct (lex_ltb k k1); cbn [bt_lookup].
      * rewrite bytes_eqb_refl. reflexivity.
      * rewrite E1. exact IH.
Qed.

Lemma bt_lookup_insert_other {V : Type} k k' (v : V) m : bytes_eqb k k' = false ->
  bt_lookup k (bt_insert k' v m) = bt_lookup k m.
Proof.
  intros Hne. induction m as [|[k1 v1] t IH]; cbn [bt_insert bt_lookup].
  - rewrite Hne. reflexivity.
  - destruct (bytes_eqb k' k1) eqn:E1.
    + apply bytes_eqb_eq in E1. subst k1. cbn [bt_lookup]. rewrite Hne. reflexivity.
    + destruct (lex_ltb k' k1); cbn [bt_lookup].
      * rewrite Hne. reflexivity.
      * rewrite IH. reflexivity.
Qed.

Lemma bt_insert_In {V : Type} k0 (v0 : V) m k v :
  In (k, v) (bt_insert k0 v0 m) -> (k, v) = (k0, v0) \/ In (k, v) m.
Proof.
  induction m as [|[k1 v1] t IH]; cbn [bt_insert].
  - intros [H|[]]. left. symmetry. exact H.
  - destruct (bytes_eqb k0 k1).
    + intros [H|H]; [left; symmetry; exact H|right; right; exact H].
    + destruct (lex_ltb k0 k1).
      * intros [H|H]; [left; symmetry; exact H|right; exact H].
      * intros [H|H]; [right; left; exact H|]. destruct (IH H) as [H'|H']; [left; exact H'|right; right; exact H'].
Qed.

Lemma bt_insert_sorted {V : Type} k (v : V) m : keys_sorted m -> keys_sorted (bt_insert k v m).
Proof.
  unfold keys_sorted. induction m as [|[k1 v1] t IH]; intros Hs; cbn [bt_insert map fst].
  - constructor; constructor.
  - cbn [map fst] in Hs. destruct (bytes_eqb k k1) eqn:E1.
    + apply bytes_eqb_eq in E1. subst k1. exact Hs.
    + destruct (lex_ltb k k1) eqn:E2; cbn [map fst].
      * constructor; [exact Hs|]. constructor. exact E2.
      * inversion Hs as [|? ? Hst Hhd]; subst. constructor; [apply IH, Hst|].
        destruct t as [|[k2 v2] t']; cbn [bt_insert].
        -- constructor. apply lex_total; assumption.
        -- destruct (bytes_eqb k k2); [constructor; apply lex_total; assumption|].
           destruct (lex_ltb k k2); cbn [map fst]; constructor.
           ++ apply lex_total; assumption.
           ++ inversion Hhd; subst. assumption.
Qed.

Lemma keys_sorted_NoDup {V : Type} (m : list (bytes * V)) : keys_sorted m -> NoDup (map fst m).
Proof.
  unfold keys_sorted. intros Hs. apply Sorted_StronglySorted in Hs.
  2:{ intros a b c. unfold lex_lt. apply lex_ltb_trans. }
  induction Hs as [|a l Hl IH Hall]; constructor; [|exact IH].
  intros Hin. rewrite Forall_forall in Hall. specialize (Hall a Hin).
  unfold lex_lt in Hall. rewrite lex_ltb_irrefl in Hall. discriminate.
Qed.

Lemma bt_mem_false_lookup {V : Type} k (m : list (bytes * V)) : bt_mem k m = false <-> bt_lookup k m = None.
Proof. unfold bt_mem. destruct (bt_lookup k m); split; intros H; try discriminate; reflexivity. Qed.

(** * decimal rendering yields number-like tokens *)
Lemma raw_digit n : raw_byte_ok (48 + n mod 10) = true.
Proof. unfold raw_byte_ok. lia. Qed.

Lemma dec_fuel_ok fuel : forall n acc, forallb raw_byte_ok acc = true ->
  forallb raw_byte_ok (dec_fuel fuel n acc) = true.
Proof.
  induction fuel as [|f IH]; intros n acc H; cbn [dec_fuel]; [exact H|].
  assert (H' : forallb raw_byte_ok ((48 + n mod 10) :: acc) = true)
    by (cbn [forallb]; rewrite raw_digit, H; reflexivity).
  destruct (n / 10 =? 0); [exact H'|apply IH, H'].
Qed.

Lemma dec_fuel_nonempty fuel : forall n acc, acc <> [] -> dec_fuel fuel n acc <> [].
Proof.
  induction fuel as [|f IH]; intros n acc H; cbn [dec_fuel]; [exact H|].
  destruct (n / 10 =? 0); [discriminate|apply IH; discriminate].
Qed.

Lemma dec_N_ok n : raw_ok (dec_N n) = true.
Proof.
  unfold dec_N. cbn [dec_fuel].
  assert (H : forallb raw_byte_ok [48 + n mod 10] = true) by (cbn [forallb]; rewrite raw_digit; reflexivity).
  destruct (n / 10 =? 0); [cbn [raw_ok]; exact H|].
  pose proof (dec_fuel_ok (N.size_nat n) (n / 10) _ H) as H1.
  pose proof (dec_fuel_nonempty (N.size_nat n) (n / 10) [48 + n mod 10] ltac:(discriminate)) as H2.
  unfold raw_ok. destruct (dec_fuel (N.size_nat n) (n / 10) [48 + n mod 10]); [contradiction|exact H1].
Qed.

Lemma dec_Z_ok z : raw_ok (dec_Z z) = true.
Proof.
  unfold dec_Z. pose proof (dec_N_ok (Z.abs_N z)) as H. destruct (z <? 0)%Z; [|exact H].
  unfold raw_ok in *. destruct (dec_N (Z.abs_N z)); [discriminate|].
  cbn [forallb] in *. rewrite H. reflexivity.
Qed.

Lemma atom_of_ok v : value_ok v = true -> atom_ok (atom_of v) = true.
Proof.
  destruct v as [s|z|b|j d|s]; cbn [value_ok atom_of atom_ok]; intros H; try reflexivity.
  - apply dec_Z_ok.
  - destruct b; reflexivity.
  - exact H.
Qed.

(** * the assembled record *)
Lemma lookup_ins_opt_other k k' o m : bytes_eqb k k' = false ->
  bt_lookup k (ins_opt k' o m) = bt_lookup k m.
Proof. intros H. destruct o; cbn [ins_opt]; [apply bt_lookup_insert_other, H|reflexivity]. Qed.

Lemma lookup_ins_opt_same k o m :
  bt_lookup k (ins_opt k o m) = match o with Some s => Some (jstr s) | None => bt_lookup k m end.
Proof. destruct o; cbn [ins_opt]; [apply bt_lookup_insert_same|reflexivity]. Qed.

Ltac peel :=
  repeat first [ rewrite lookup_ins_opt_other by reflexivity
               | rewrite bt_lookup_insert_other by reflexivity ].

Lemma core_timestamp ev : bt_lookup K_timestamp (core_map ev) = Some (jstr (e_ts ev)).
Proof. unfold core_map. peel. apply bt_lookup_insert_same. Qed.

Lemma core_level ev : bt_lookup K_level (core_map ev) = Some (jstr (level_str (e_level ev))).
Proof. unfold core_map. peel. apply bt_lookup_insert_same. Qed.

Lemma core_target ev : bt_lookup K_target (core_map ev) = Some (jstr (e_target ev)).
Proof. unfold core_map. peel. apply bt_lookup_insert_same. Qed.

Lemma core_name ev : bt_lookup K_name (core_map ev) = Some (jstr (e_name ev)).
Proof. unfold core_map. peel. apply bt_lookup_insert_same. Qed.

Lemma core_message ev :
  bt_lookup K_message (core_map ev) = match e_message ev with Some s => Some (jstr s) | None => None end.
Proof.
  unfold core_map. peel. rewrite lookup_ins_opt_same. destruct (e_message ev); [reflexivity|].
  peel. reflexivity.
Qed.

Lemma core_span ev :
  bt_lookup K_span_id (core_map ev) = match e_span ev with Some s => Some (jstr s) | None => None end.
Proof.
  unfold core_map. peel. rewrite lookup_ins_opt_same. destruct (e_span ev); [reflexivity|].
  peel. reflexivity.
Qed.

Lemma core_parent ev :
  bt_lookup K_parent_id (core_map ev) = match e_parent ev with Some s => Some (jstr s) | None => None end.
Proof.
  unfold core_map. peel. rewrite lookup_ins_opt_same. destruct (e_parent ev); [reflexivity|].
  peel. reflexivity.
Qed.

Lemma core_tid ev :
  bt_lookup K_thread_id (core_map ev) = match e_tid ev with Some s => Some (jstr s) | None => None end.
Proof.
  unfold core_map. peel. rewrite lookup_ins_opt_same. destruct (e_tid ev); [reflexivity|].
  peel. reflexivity.
Qed.

Lemma core_tname ev :
  bt_lookup K_thread_name (core_map ev) = match e_tname ev with Some s => Some (jstr s) | None => None end.
Proof.
  unfold core_map. rewrite lookup_ins_opt_same. destruct (e_tname ev); [reflexivity|].
  peel. reflexivity.
Qed.

Definition core_keys : list bytes :=
  [K_timestamp; K_level; K_target; K_message; K_name; K_span_id; K_parent_id; K_thread_id; K_thread_name].

Lemma core_map_only ev k : ~ In k core_keys -> bt_lookup k (core_map ev) = None.
Proof.
  intros H. unfold core_keys in H. cbn [In] in H.
  assert (E : forall k', (k' = k -> False) -> bytes_eqb k k' = false).
  { intros k' Hk. apply bytes_eqb_neq. intros E. apply Hk. symmetry. exact E. }
  unfold core_map.
  repeat first [ rewrite lookup_ins_opt_other by (apply E; tauto)
               | rewrite bt_lookup_insert_other by (apply E; tauto) ].
  reflexivity.
Qed.

Lemma ins_opt_sorted k o m : keys_sorted m -> keys_sorted (ins_opt k o m).
Proof. destruct o; cbn [ins_opt]; [apply bt_insert_sorted|exact (fun H => H)]. Qed.

Lemma core_map_sorted ev : keys_sorted (core_map ev).
Proof.
  unfold core_map. repeat first [apply ins_opt_sorted | apply bt_insert_sorted]. constructor.
Qed.

Lemma ins_opt_In k0 o m k v : In (k, v) (ins_opt k0 o m) -> (exists s, v = jstr s) \/ In (k, v) m.
Proof.
  destruct o as [s|]; cbn [ins_opt]; [|right; assumption].
  intros H. apply bt_insert_In in H. destruct H as [H|H]; [left; exists s; congruence|right; exact H].
Qed.

Lemma core_map_values ev k v : In (k, v) (core_map ev) -> exists s, v = jstr s.
Proof.
  unfold core_map. intros H.
  repeat match type of H with
         | In _ (ins_opt _ _ _) => apply ins_opt_In in H; destruct H as [H|H]; [exact H|]
         | In _ (bt_insert _ _ _) => apply bt_insert_In in H; destruct H as [H|H]; [inversion H; eexists; reflexivity|]
         end.
  contradiction.
Qed.

(** flatten mode *)
Lemma flatten_keeps : forall fs m k x, bt_lookup k m = Some x ->
  bt_lookup k (flatten_fields m fs) = Some x.
Proof.
  unfold flatten_fields. induction fs as [|[k1 v1] t IH]; intros m k x H; cbn [fold_left]; [exact H|].
  apply IH. unfold flatten_step. cbn [fst snd].
  destruct (bt_mem k1 m) eqn:E; [exact H|].
  rewrite bt_lookup_insert_other; [exact H|].
  apply bytes_eqb_neq. intros ->. apply bt_mem_false_lookup in E. congruence.
Qed.

Lemma flatten_adds : forall fs m k v, NoDup (map fst fs) -> In (k, v) fs -> bt_mem k m = false ->
  bt_lookup k (flatten_fields m fs) = Some (JAtom (atom_of v)).
Proof.
  unfold flatten_fields. induction fs as [|[k1 v1] t IH]; intros m k v Hnd Hin Hm; [contradiction|].
  cbn [fold_left]. cbn [map fst] in Hnd. inversion Hnd as [|? ? Hk1 Hnd']; subst.
  destruct Hin as [E|Hin].
  - inversion E; subst. apply (flatten_keeps t). unfold flatten_step. cbn [fst snd]. rewrite Hm.
    apply bt_lookup_insert_same.
  - apply IH; [exact Hnd'|exact Hin|].
    assert (Hne : bytes_eqb k k1 = false).
    { apply bytes_eqb_neq. intros ->. apply Hk1. apply (in_map fst) in Hin. exact Hin. }
    unfold flatten_step. cbn [fst snd]. destruct (bt_mem k1 m); [exact Hm|].
    apply bt_mem_false_lookup. rewrite bt_lookup_insert_other by exact Hne.
    apply bt_mem_false_lookup. exact Hm.
Qed.

Lemma flatten_only : forall fs m k x, bt_lookup k (flatten_fields m fs) = Some x ->
  bt_lookup k m = Some x \/ exists v, In (k, v) fs /\ x = JAtom (atom_of v).
Proof.
  unfold flatten_fields. induction fs as [|[k1 v1] t IH]; intros m k x H; cbn [fold_left] in H; [left; exact H|].
  apply IH in H. destruct H as [H|(v & Hin & ->)].
  - unfold flatten_step in H. cbn [fst snd] in H. destruct (bt_mem k1 m); [left; exact H|].
    destruct (bytes_eqb k k1) eqn:E.
    + apply bytes_eqb_eq in E. subst k1. rewrite bt_lookup_insert_same in H. inversion H; subst.
      right. exists v1. split; [left; reflexivity|reflexivity].
    + rewrite bt_lookup_insert_other in H by exact E. left. exact H.
  - right. exists v. split; [right; exact Hin|reflexivity].
Qed.

Lemma flatten_sorted : forall fs m, keys_sorted m -> keys_sorted (flatten_fields m fs).
Proof.
  unfold flatten_fields. induction fs as [|[k1 v1] t IH]; intros m H; cbn [fold_left]; [exact H|].
  apply IH. unfold flatten_step. destruct (bt_mem _ m); [exact H|apply bt_insert_sorted, H].
Qed.

Lemma flatten_values : forall fs m k x, In (k, x) (flatten_fields m fs) ->
  In (k, x) m \/ exists v, In (k, v) fs /\ x = JAtom (atom_of v).
Proof.
  unfold flatten_fields. induction fs as [|[k1 v1] t IH]; intros m k x H; cbn [fold_left] in H; [left; exact H|].
  apply IH in H. destruct H as [H|(v & Hin & ->)].
  - unfold flatten_step in H. cbn [fst snd] in H. destruct (bt_mem k1 m); [left; exact H|].
    apply bt_insert_In in H. destruct H as [H|H]; [|left; exact H].
    inversion H; subst. right. exists v1. split; [left; reflexivity|reflexivity].
  - right. exists v. split; [right; exact Hin|reflexivity].
Qed.

(** nested mode *)
Lemma nested_fold_notin : forall fs m k, ~ In k (map fst fs) ->
  bt_lookup k (fold_left nested_step fs m) = bt_lookup k m.
Proof.
  induction fs as [|[k1 v1] t IH]; intros m k H; cbn [fold_left]; [reflexivity|].
  cbn [map fst In] in H. rewrite IH by tauto. unfold nested_step. cbn [fst snd].
  apply bt_lookup_insert_other. apply bytes_eqb_neq. intros ->. tauto.
Qed.

Lemma nested_fold_in : forall fs m k v, NoDup (map fst fs) -> In (k, v) fs ->
  bt_lookup k (fold_left nested_step fs m) = Some (atom_of v).
Proof.
  induction fs as [|[k1 v1] t IH]; intros m k v Hnd Hin; [contradiction|].
  cbn [fold_left]. cbn [map fst] in Hnd. inversion Hnd as [|? ? Hk1 Hnd']; subst.
  destruct Hin as [E|Hin].
  - inversion E; subst. rewrite nested_fold_notin by exact Hk1. unfold nested_step. cbn [fst snd].
    apply bt_lookup_insert_same.
  - apply IH; assumption.
Qed.

Lemma nested_fold_only : forall fs m k a, bt_lookup k (fold_left nested_step fs m) = Some a ->
  bt_lookup k m = Some a \/ exists v, In (k, v) fs /\ a = atom_of v.
Proof.
  induction fs as [|[k1 v1] t IH]; intros m k a H; cbn [fold_left] in H; [left; exact H|].
  apply IH in H. destruct H as [H|(v & Hin & ->)].
  - unfold nested_step in H. cbn [fst snd] in H. destruct (bytes_eqb k k1) eqn:E.
    + apply bytes_eqb_eq in E. subst k1. rewrite bt_lookup_insert_same in H. inversion H; subst.
      right. exists v1. split; [left; reflexivity|reflexivity].
    + rewrite bt_lookup_insert_other in H by exact E. left. exact H.
  - right. exists v. split; [right; exact Hin|reflexivity].
Qed.

Lemma nested_fold_values : forall fs m k a, In (k, a) (fold_left nested_step fs m) ->
  In (k, a) m \/ exists v, In (k, v) fs /\ a = atom_of v.
Proof.
  induction fs as [|[k1 v1] t IH]; intros m k a H; cbn [fold_left] in H; [left; exact H|].
  apply IH in H. destruct H as [H|(v & Hin & ->)].
  - unfold nested_step in H. cbn [fst snd] in H. apply bt_insert_In in H.
    destruct H as [H|H]; [|left; exact H]. inversion H; subst.
    right. exists v1. split; [left; reflexivity|reflexivity].
  - right. exists v. split; [right; exact Hin|reflexivity].
Qed.

Lemma nested_fold_sorted : forall fs m, keys_sorted m -> keys_sorted (fold_left nested_step fs m).
Proof.
  induction fs as [|[k1 v1] t IH]; intros m H; cbn [fold_left]; [exact H|].
  apply IH. apply bt_insert_sorted, H.
Qed.

(** * main theorems about the rendered record *)
Lemma fields_value_ok ev k v : fields_ok ev -> In (k, v) (e_fields ev) -> atom_ok (atom_of v) = true.
Proof.
  intros [_ H] Hin. rewrite forallb_forall in H. apply atom_of_ok. apply (H (k, v) Hin).
Qed.

Lemma assemble_wf flat ev : fields_ok ev -> forall k v, In (k, v) (assemble flat ev) -> jval_wf v.
Proof.
  intros Hok k v H. unfold assemble in H.
  assert (Hcore : forall k v, In (k, v) (core_map ev) -> jval_wf v).
  { intros k0 v0 H0. destruct (core_map_values ev k0 v0 H0) as [s ->]. reflexivity. }
  destruct (e_fields ev) as [|kv0 fs0] eqn:Ef; [apply (Hcore k v H)|].
  rewrite <- Ef in H. destruct flat.
  - apply flatten_values in H. destruct H as [H|(v' & Hin & ->)]; [apply (Hcore k v H)|].
    cbn [jval_wf]. apply (fields_value_ok ev k v' Hok Hin).
  - apply bt_insert_In in H. destruct H as [H|H]; [|apply (Hcore k v H)].
    inversion H; subst. cbn [jval_wf]. intros k' a Ha. unfold nested_obj in Ha.
    apply nested_fold_values in Ha. destruct Ha as [[]|(v' & Hin & ->)].
    apply (fields_value_ok ev k' v' Hok Hin).
Qed.

(* (c.1) the reader gets back exactly the assembled map *)
Theorem parse_render : forall flat ev, fields_ok ev ->
  parse_line (render flat ev) = Some (assemble flat ev).
Proof. intros flat ev H. unfold render. apply parse_line_ser. apply (assemble_wf flat ev H). Qed.

(* (c.2) one line: a body without any byte < 0x20 (so no newline, no CR), then the newline *)
Theorem render_one_line : forall flat ev, fields_ok ev ->
  exists body, render flat ev = body ++ [10] /\ forall x, In x body -> 32 <= x.
Proof.
  intros flat ev Hok. exists (ser_obj ser_val (assemble flat ev)). split; [reflexivity|].
  assert (Hatom : forall a x, atom_ok a = true -> In x (ser_atom a) -> 32 <= x).
  { intros [s|r] x Ha Hx; cbn [ser_atom atom_ok] in *.
    - unfold ser_str in Hx. destruct Hx as [<-|Hx]; [lia|]. apply in_app_or in Hx.
      destruct Hx as [Hx|[<-|[]]]; [apply (escape_no_control s x Hx)|lia].
    - unfold raw_ok in Ha. destruct r; [discriminate|]. rewrite forallb_forall in Ha.
      apply (raw_byte_not_special x (Ha x Hx)). }
  intros x Hx. unfold ser_obj in Hx. destruct Hx as [<-|Hx]; [lia|].
  apply in_app_or in Hx. destruct Hx as [Hx|[<-|[]]]; [|lia].
  revert x Hx. apply (ser_members_bytes ser_val (fun x => 32 <= x)); try lia.
  - apply escape_no_control.
  - intros k v x Hin Hx. pose proof (assemble_wf flat ev Hok k v Hin) as Hwf.
    destruct v as [a|fm]; cbn [ser_val jval_wf] in *; [apply (Hatom a x Hwf Hx)|].
    unfold ser_obj in Hx. destruct Hx as [<-|Hx]; [lia|].
    apply in_app_or in Hx. destruct Hx as [Hx|[<-|[]]]; [|lia].
    revert x Hx. apply (ser_members_bytes ser_atom (fun x => 32 <= x)); try lia.
    + apply escape_no_control.
    + intros k' a x Hin' Hx. apply (Hatom a x (Hwf k' a Hin') Hx).
Qed.

(* keys are strictly increasing in byte order: no duplicate key in the object *)
Theorem assemble_sorted : forall flat ev, keys_sorted (assemble flat ev).
Proof.
  intros flat ev. unfold assemble. destruct (e_fields ev) as [|kv fs]; [apply core_map_sorted|].
  destruct flat; [apply flatten_sorted, core_map_sorted|apply bt_insert_sorted, core_map_sorted].
Qed.

Theorem nested_sorted : forall fs, keys_sorted (nested_obj fs).
Proof. intros fs. apply nested_fold_sorted. constructor. Qed.

(* core keys survive assembly in both modes *)
Lemma assemble_keeps_core flat ev k x : In k core_keys ->
  bt_lookup k (core_map ev) = Some x -> bt_lookup k (assemble flat ev) = Some x.
Proof.
  intros Hk H. unfold assemble. destruct (e_fields ev) as [|kv fs]; [exact H|].
  destruct flat; [apply flatten_keeps, H|].
  rewrite bt_lookup_insert_other; [exact H|].
  unfold core_keys in Hk. cbn [In] in Hk.
  repeat (destruct Hk as [<-|Hk]; [reflexivity|]). contradiction.
Qed.

Theorem core_roundtrip : forall flat ev, fields_ok ev ->
  exists m, parse_line (render flat ev) = Some m
    /\ get_str K_level m = Some (level_str (e_level ev))
    /\ get_str K_target m = Some (e_target ev)
    /\ get_str K_timestamp m = Some (e_ts ev)
    /\ get_str K_name m = Some (e_name ev)
    /\ (forall s, e_message ev = Some s -> get_str K_message m = Some s)
    /\ (forall s, e_span ev = Some s -> get_str K_span_id m = Some s)
    /\ (forall s, e_parent ev = Some s -> get_str K_parent_id m = Some s)
    /\ (forall s, e_tid ev = Some s -> get_str K_thread_id m = Some s)
    /\ (forall s, e_tname ev = Some s -> get_str K_thread_name m = Some s).
Proof.
  intros flat ev Hok. exists (assemble flat ev). split; [apply parse_render, Hok|].
  assert (G : forall k s, In k core_keys -> bt_lookup k (core_map ev) = Some (jstr s) ->
              get_str k (assemble flat ev) = Some s).
  { intros k s Hk H. unfold get_str. rewrite (assemble_keeps_core flat ev k _ Hk H). reflexivity. }
  unfold core_keys in G. cbn [In] in G.
  repeat split.
  - apply G; [tauto|apply core_level].
  - apply G; [tauto|apply core_target].
  - apply G; [tauto|apply core_timestamp].
  - apply G; [tauto|apply core_name].
  - intros s E. apply G; [tauto|]. rewrite core_message, E. reflexivity.
  - intros s E. apply G; [tauto|]. rewrite core_span, E. reflexivity.
  - intros s E. apply G; [tauto|]. rewrite core_parent, E. reflexivity.
  - intros s E. apply G; [tauto|]. rewrite core_tid, E. reflexivity.
  - intros s E. apply G; [tauto|]. rewrite core_tname, E. reflexivity.
Qed.

(** custom fields: the full statement, its refutation (F-27) and the part that holds *)
Definition fields_roundtrip_at (flat : bool) (ev : event) (k : bytes) (v : value) : Prop :=
  exists m, parse_line (render flat ev) = Some m /\ get_field flat k m = Some (atom_of v).

Definition fields_roundtrip_full : Prop :=
  forall flat ev, fields_ok ev -> forall k v, In (k, v) (e_fields ev) -> fields_roundtrip_at flat ev k v.

(* witness: flatten mode, one custom field named level *)
Definition f27_event : event :=
  mkEvent [50] [] Info [116] [110] (Some [104; 105]) None None None None [(K_level, VStr [120])].

Theorem fields_roundtrip_refuted : ~ fields_roundtrip_full.
Proof.
  intros H. specialize (H true f27_event).
  assert (Hok : fields_ok f27_event).
  { split; [|reflexivity]. cbn. constructor; [intros []|constructor]. }
  destruct (H Hok K_level (VStr [120])) as (m & Hp & Hg); [left; reflexivity|].
  rewrite (parse_render true f27_event Hok) in Hp. inversion Hp; subst m.
  vm_compute in Hg. discriminate.
Qed.

Theorem fields_roundtrip_nested : forall ev, fields_ok ev ->
  forall k v, In (k, v) (e_fields ev) -> fields_roundtrip_at false ev k v.
Proof.
  intros ev Hok k v Hin. exists (assemble false ev). split; [apply parse_render, Hok|].
  unfold get_field, assemble. destruct (e_fields ev) as [|kv fs] eqn:Ef; [contradiction|].
  rewrite bt_lookup_insert_same. rewrite <- Ef in *. unfold nested_obj.
  apply nested_fold_in; [apply Hok|exact Hin].
Qed.

Theorem fields_roundtrip_except_collision : forall flat ev, fields_ok ev ->
  forall k v, In (k, v) (e_fields ev) ->
  (flat = true -> bt_mem k (core_map ev) = false) ->
  fields_roundtrip_at flat ev k v.
Proof.
  intros flat ev Hok k v Hin Hc. destruct flat; [|apply fields_roundtrip_nested; assumption].
  exists (assemble true ev). split; [apply parse_render, Hok|].
  unfold get_field, assemble. destruct (e_fields ev) as [|kv fs] eqn:Ef; [contradiction|].
  rewrite <- Ef in *. rewrite (flatten_adds (e_fields ev) (core_map ev) k v); [reflexivity|apply Hok|exact Hin|].
  apply Hc. reflexivity.
Qed.

(* the collision hypothesis is implied by: k is none of the nine core key names *)
Theorem not_core_key_no_collision : forall ev k, ~ In k core_keys -> bt_mem k (core_map ev) = false.
Proof. intros ev k H. apply bt_mem_false_lookup. apply core_map_only, H. Qed.

(* what happens on a collision: the reader sees the core value, whatever the field held (F-27) *)
Theorem flatten_collision_drops : forall ev k x, bt_lookup k (core_map ev) = Some x ->
  bt_lookup k (assemble true ev) = Some x.
Proof.
  intros ev k x H. unfold assemble. destruct (e_fields ev); [exact H|apply flatten_keeps, H].
Qed.

(* nothing is invented: every top-level key of a flattened record is a core key or a field,
   every key of the nested object is a field *)
Theorem flatten_no_junk : forall ev k x, bt_lookup k (assemble true ev) = Some x ->
  bt_lookup k (core_map ev) = Some x \/ exists v, In (k, v) (e_fields ev) /\ x = JAtom (atom_of v).
Proof.
  intros ev k x H. unfold assemble in H. destruct (e_fields ev) as [|kv fs] eqn:Ef; [left; exact H|].
  rewrite <- Ef in *. apply flatten_only, H.
Qed.

Theorem nested_no_junk : forall fs k a, bt_lookup k (nested_obj fs) = Some a ->
  exists v, In (k, v) fs /\ a = atom_of v.
Proof.
  intros fs k a H. apply nested_fold_only in H. destruct H as [H|H]; [discriminate|exact H].
Qed.

(** * integers: the decimal text determines the integer *)
Definition dec_val (ds : bytes) : N := fold_left (fun a d => a * 10 + (d - 48)) ds 0.

(* the reader's side for integer tokens *)
Definition undec_Z (ds : bytes) : Z :=
  match ds with
  | [] => 0%Z
  | b :: r => if b =? 45 then (- Z.of_N (dec_val r))%Z else Z.of_N (dec_val ds)
  end.

Lemma dec_val_snoc xs d : dec_val (xs ++ [d]) = dec_val xs * 10 + (d - 48).
Proof. unfold dec_val. rewrite fold_left_app. reflexivity. Qed.

Lemma dec_fuel_acc fuel : forall n acc, dec_fuel fuel n acc = dec_fuel fuel n [] ++ acc.
Proof.
  induction fuel as [|f IH]; intros n acc; cbn [dec_fuel]; [reflexivity|].
  destruct (n / 10 =? 0); [reflexivity|].
  rewrite (IH (n / 10) ((48 + n mod 10) :: acc)), (IH (n / 10) [48 + n mod 10]).
  rewrite <- app_assoc. reflexivity.
Qed.

Lemma dec_fuel_S f n acc :
  dec_fuel (S f) n acc =
  if n / 10 =? 0 then (48 + n mod 10) :: acc else dec_fuel f (n / 10) ((48 + n mod 10) :: acc).
Proof. reflexivity. Qed.

Lemma dec_fuel_value f : forall n, n < 2 ^ N.of_nat f -> dec_val (dec_fuel (S f) n []) = n.
Proof.
  induction f as [|f IH]; intros n Hn; rewrite dec_fuel_S.
  - change (2 ^ N.of_nat 0) with 1 in Hn. assert (n = 0) by lia. subst n. reflexivity.
  - destruct (N.eqb_spec (n / 10) 0) as [E|E].
    + unfold dec_val. cbn [fold_left]. lia.
    + rewrite dec_fuel_acc, dec_val_snoc, IH; [lia|].
      rewrite Nat2N.inj_succ, N.pow_succ_r' in Hn. lia.
Qed.

Lemma size_nat_gt n : n < 2 ^ N.of_nat (N.size_nat n).
Proof.
  destruct n as [|p]; [reflexivity|]. cbn [N.size_nat].
  induction p as [p IH|p IH|]; cbn [Pos.size_nat].
  - rewrite Nat2N.inj_succ, N.pow_succ_r'. change (N.pos p~1) with (2 * N.pos p + 1). lia.
  - rewrite Nat2N.inj_succ, N.pow_succ_r'. change (N.pos p~0) with (2 * N.pos p). lia.
  - reflexivity.
Qed.

Theorem dec_N_value : forall n, dec_val (dec_N n) = n.
Proof. intros n. unfold dec_N. apply dec_fuel_value. apply size_nat_gt. Qed.

Lemma dec_fuel_digits fuel : forall n acc, Forall (fun b => 48 <= b <= 57) acc ->
  Forall (fun b => 48 <= b <= 57) (dec_fuel fuel n acc).
Proof.
  induction fuel as [|f IH]; intros n acc H; cbn [dec_fuel]; [exact H|].
  assert (H' : Forall (fun b => 48 <= b <= 57) ((48 + n mod 10) :: acc)) by (constructor; [lia|exact H]).
  destruct (n / 10 =? 0); [exact H'|apply IH, H'].
Qed.

Lemma dec_N_digits n : Forall (fun b => 48 <= b <= 57) (dec_N n).
Proof. apply dec_fuel_digits. constructor. Qed.

(* reading the decimal token gives back the integer: integer fields round-trip too *)
Theorem undec_dec_Z : forall z, undec_Z (dec_Z z) = z.
Proof.
  intros z. unfold dec_Z. destruct (Z.ltb_spec z 0) as [L|L].
  - cbn [undec_Z]. change (45 =? 45) with true. cbv iota. rewrite dec_N_value. lia.
  - pose proof (dec_N_digits (Z.abs_N z)) as Hd. pose proof (dec_N_value (Z.abs_N z)) as Hv.
    unfold undec_Z. destruct (dec_N (Z.abs_N z)) as [|b r] eqn:E.
    + unfold dec_val in Hv. cbn [fold_left] in Hv. lia.
    + inversion Hd; subst. destruct (N.eqb_spec b 45) as [->|_]; [lia|]. rewrite Hv. lia.
Qed.

Corollary dec_Z_inj : forall a b, dec_Z a = dec_Z b -> a = b.
Proof. intros a b H. rewrite <- (undec_dec_Z a), <- (undec_dec_Z b), H. reflexivity. Qed.
