(* Proofs/HRwLive.v — HybridRwLock: full invariant and the wake-owed / deadlock-freedom / list theorems. *)
From Coq Require Import List NArith Arith Bool Lia.
From Fibre Require Import Common.Conc Sync.HMutex Sync.HRwLock Proofs.HMutexBase Proofs.HRwBase Proofs.HRwGuard
     Proofs.HRwProofs Proofs.HRwQueue Proofs.HRwNode Proofs.HRwWake Proofs.HRwOwed.
Import ListNotations.

Definition RInvFull s :=
  RInv s /\ RInvP s /\ RInvN s /\ RInvC s /\ RInvDp s /\ RInvE s /\ RInvF1 s /\ RInvF2 s /\ RInvW s.

Lemma RInvFull_init progs : RInvFull (rwinit progs).
Proof.
  unfold RInvFull. split; [apply RInv_init|]. split; [|split; [|split; [|split; [|split; [|split; [|split]]]]]].
  - intros u. cbn. discriminate.
  - intros u. cbn. discriminate.
  - unfold RInvC. cbn. split; [constructor|]. split; [intros u; unfold rlinkok; cbn; tauto|intros u b []].
  - intros X. discriminate X.
  - unfold RInvE. cbn. split; [intros h b []|intros h b k []].
  - intros h k X. discriminate X.
  - intros h X. discriminate X.
  - intros _ _ X. exfalso. apply X. reflexivity.
Qed.

Lemma RInvFull_step s t c s' e : RInvFull s -> rwstep s t c = Some (s', e) -> RInvFull s'.
Proof.
  intros (R & P & N & C & Dp & E & F1 & F2 & W) H. pose proof R as (A & B & D).
  split; [eapply RInv_step; eassumption|]. split; [|split; [|split; [|split; [|split; [|split; [|split]]]]]].
  - eapply RInvP_step; eassumption.
  - eapply RInvN_step; eassumption.
  - eapply RInvC_step; eassumption.
  - eapply RInvDp_step; eassumption.
  - eapply RInvE_step; eassumption.
  - eapply RInvF1_step; eassumption.
  - eapply RInvF2_step; eassumption.
  - eapply RInvW_step; eassumption.
Qed.

Theorem RInvFull_reachable progs s : reachable (rwsys progs) s -> RInvFull s.
Proof.
  apply (invariant_lift (rwsys progs) RInvFull).
  - apply RInvFull_init.
  - intros s0 t c s' e. apply RInvFull_step.
Qed.

(* ------------------------------------------------------------------ enabledness *)
Lemma rdo_taload_some s t a : rdo_taload s t a <> None.
Proof.
  unfold rdo_taload, ta_fail, rret. destruct (rkind_a a);
    match goal with |- context [if ?b then _ else _] => destruct b end; try discriminate; destruct a; discriminate.
Qed.

Lemma rdo_llswap_some s t l : rdo_llswap s t l <> None.
Proof. unfold rdo_llswap, rret. destruct l as [[|]| | |]; cbn; destruct (rllock _); discriminate. Qed.

Lemma rdo_wait_some s t c : rdo_wait s t c <> None.
Proof. unfold rdo_wait, rret. destruct c; discriminate. Qed.

Lemma ridle_fut_steps s t c : rpcs s t = RIdle -> rfut s t <> None -> rwstep s t c <> None.
Proof.
  intros Epc Hf. unfold rwstep. rewrite Epc.
  generalize (rprog s t). intros p. revert s Epc Hf. induction p as [|o r IH]; intros s Epc Hf; cbn [rdispatch].
  - destruct (rfut s t); [apply rdo_llswap_some|congruence].
  - destruct o; destruct (rfut s t) as [[k' b]|] eqn:F; try congruence;
      try apply rdo_llswap_some; try apply rdo_taload_some; try apply rdo_wait_some.
    destruct (rw_eqb k k'); [apply rdo_taload_some|apply rdo_llswap_some].
Qed.

Definition rstuck (s : rwstate) (t : nat) : Prop :=
  rpcs s t = RIdle \/ (exists k, rpcs s t = RPark k /\ rtoken s t = false) \/ (rpcs s t = RBPark /\ rtoken s t = false).

Lemma rdisabled_stuck s t c : rwstep s t c = None -> rstuck s t.
Proof.
  unfold rwstep, rstuck. destruct (rpcs s t) eqn:Epc; intros H; auto;
    try (exfalso; revert H; first [apply rdo_taload_some | apply rdo_llswap_some | apply rdo_wait_some]);
    unfold rret, rblock_next, rdo_fix1, ta_fail, after_acq_a in H.
  all: try discriminate H.
  all: repeat (rbreak_match H; try discriminate H); eauto.
  all: try (exfalso; revert H; first [apply rdo_taload_some | apply rdo_llswap_some | apply rdo_wait_some]).
Qed.

Lemma rstuck_facts s t : rstuck s t ->
  holdsk RD (rpcs s t) = false /\ holdsk WR (rpcs s t) = false /\ rwakepre (rpcs s t) = false
  /\ rdroppre (rpcs s t) = false /\ rarmed_pre (rpcs s t) = false /\ rinlist (rpcs s t) = false
  /\ (forall h, ~ pendT (rpcs s t) h) /\ (forall h, ~ pendB (rpcs s t) h) /\ (forall h r, rpcs s t <> RWWake h r).
Proof.
  intros [H|[[k [H _]]|[H _]]]; rewrite H; cbn; repeat split; try (intros h X; exact X); discriminate.
Qed.

(* No reachable state in which nobody can step has an unfinished thread: no reader or writer (sync or
   block_on) is left parked, no future is left pending. *)
Theorem rw_deadlock_free progs s :
  reachable (rwsys progs) s -> quiescent (rwsys progs) s ->
  forall t, rpcs s t = RIdle /\ rfut s t = None.
Proof.
  intros R Q.
  destruct (RInvFull_reachable _ _ R) as ((A & B & D) & P & N & (C1 & C2 & C3) & Dp & E & F1 & F2 & W).
  assert (St : forall u, rstuck s u) by (intros u; apply (rdisabled_stuck s u RGo); apply (Q u RGo)).
  assert (Free : wl s = false /\ rd s = 0%N).
  { destruct A as (A1 & A2 & A3 & A4 & A5 & A6). split.
    - destruct (wl s) eqn:EL; [|reflexivity]. exfalso. destruct (A5 eq_refl) as [[h Hh] _].
      assert (X : holdsk WR (rpcs s h) = true) by (apply A1; rewrite Hh; left; reflexivity).
      destruct (rstuck_facts s h (St h)) as (_ & Y & _). congruence.
    - rewrite A4. destruct (rholders s) as [|h r] eqn:ER; [reflexivity|]. exfalso.
      assert (X : holdsk RD (rpcs s h) = true) by (apply A2; left; reflexivity).
      destruct (rstuck_facts s h (St h)) as (Y & _). congruence. }
  destruct Free as [HL HR].
  assert (NoWoken : forall h, (exists k, rpcs s h = RPark k) \/ rpcs s h = RBPark -> rnwk s h = true -> False).
  { intros h [[k Hp]|Hp] Hn.
    - destruct (St h) as [X|[[k' [_ Tk]]|[X _]]]; try congruence.
      destruct (F1 h k Hp Hn) as [T|[w X]]; [congruence|].
      destruct (rstuck_facts s w (St w)) as (_ & _ & _ & _ & _ & _ & Y & _). exact (Y h X).
    - destruct (St h) as [X|[[k' [X _]]|[_ Tk]]]; try congruence.
      destruct (F2 h Hp Hn) as [[w X]|[_ [T|[w [r X]]]]]; [|congruence|].
      + destruct (rstuck_facts s w (St w)) as (_ & _ & _ & _ & _ & _ & _ & Y & _). exact (Y h X).
      + destruct (rstuck_facts s w (St w)) as (_ & _ & _ & _ & _ & _ & _ & _ & Y). exact (Y h r X). }
  assert (NoPark : forall t, (exists k, rpcs s t = RPark k) \/ rpcs s t = RBPark -> False).
  { intros t Ht.
    assert (Hnw : rnwk s t = false) by (destruct (rnwk s t) eqn:EN; [exfalso; exact (NoWoken t Ht EN)|reflexivity]).
    assert (Hin : exists b, In (t, b) (rqueue s)).
    { specialize (C2 t). unfold rlinkok in C2. destruct Ht as [[k Ht]|Ht]; rewrite Ht in C2; cbn [rlk] in C2.
      - rewrite Hnw in C2. rewrite orb_true_r in C2. exact C2.
      - pose proof (P t) as Pt. rewrite Ht in Pt. destruct Pt as [k Pt]. rewrite Pt in C2. cbn [flk] in C2.
        rewrite Hnw in C2. rewrite orb_true_r in C2. exact C2. }
    assert (HQ : rqueue s <> []) by (destruct Hin as [b Hb]; intros X; rewrite X in Hb; destruct Hb).
    destruct (W HL HR HQ) as [[w Pw]|Hok].
    - destruct (rstuck_facts s w (St w)) as (_ & _ & X1 & X2 & _). unfold rprew in Pw. rewrite X1, X2 in Pw.
      destruct Pw as [X|[X _]]; discriminate X.
    - assert (Awake : forall h b, In (h, b) (rqueue s) -> rheadok s h -> False).
      { intros h b Hh [Hk|Hk]; [|destruct (rstuck_facts s h (St h)) as (_ & _ & _ & _ & X & _); congruence].
        destruct (St h) as [Si|[[k [Sp _]]|[Sp _]]].
        - destruct (C3 h b Hh) as [kk [K1 _]]. rewrite Si in K1. cbn [rckind] in K1.
          destruct (rfut s h) eqn:Fh; [|discriminate K1].
          apply (ridle_fut_steps s h RGo Si); [congruence|apply (Q h RGo)].
        - apply (NoWoken h); [left; eauto|exact Hk].
        - apply (NoWoken h); [right; exact Sp|exact Hk]. }
      unfold rtarget_ok in Hok. destruct (first_writer (rqueue s)) as [w|] eqn:FW.
      + apply (Awake w true); [apply first_writer_In; exact FW|exact Hok].
      + destruct Hok as [u [b [Hu Hk]]]. apply (Awake u b Hu). right. exact Hk. }
  intros t. destruct (St t) as [Si|[[k [Sp _]]|[Sp _]]]; [|exfalso; eauto|exfalso; eauto].
  split; [exact Si|]. destruct (rfut s t) eqn:Ft; [|reflexivity]. exfalso.
  apply (ridle_fut_steps s t RGo Si); [congruence|apply (Q t RGo)].
Qed.

Theorem rw_wake_owed progs s :
  reachable (rwsys progs) s -> quiescent (rwsys progs) s ->
  wl s = false /\ rd s = 0%N /\ rqueue s = [] /\ wholders s = [] /\ rholders s = [] /\ rllock s = None
  /\ forall t k, rpcs s t <> RPark k /\ rpcs s t <> RBPark.
Proof.
  intros R Q. pose proof (rw_deadlock_free _ _ R Q) as DF.
  destruct (RInvFull_reachable _ _ R) as (((A1 & A2 & A3 & A4 & A5 & A6) & (B1 & B2) & _) & _ & _ & (C1 & C2 & C3) & _).
  assert (HWh : wholders s = []).
  { destruct (wholders s) as [|h r] eqn:EH; [reflexivity|]. exfalso.
    assert (X : holdsk WR (rpcs s h) = true) by (apply A1; left; reflexivity).
    destruct (DF h) as [Y _]. rewrite Y in X. discriminate X. }
  assert (HRh : rholders s = []).
  { destruct (rholders s) as [|h r] eqn:EH; [reflexivity|]. exfalso.
    assert (X : holdsk RD (rpcs s h) = true) by (apply A2; left; reflexivity).
    destruct (DF h) as [Y _]. rewrite Y in X. discriminate X. }
  assert (HL : wl s = false).
  { destruct (wl s) eqn:EL; [|reflexivity]. destruct (A5 eq_refl) as [[h Hh] _]. congruence. }
  repeat split; try assumption.
  - rewrite A4, HRh. reflexivity.
  - destruct (rqueue s) as [|[h b] r] eqn:EQ; [reflexivity|]. exfalso.
    destruct (C3 h b (or_introl eq_refl)) as [kk [K1 _]]. destruct (DF h) as [Y Z]. rewrite Y, Z in K1. discriminate K1.
  - destruct (rllock s) as [h|] eqn:EL; [|reflexivity]. exfalso.
    specialize (B2 h eq_refl). destruct (DF h) as [Y _]. rewrite Y in B2. discriminate B2.
  - destruct (DF t) as [Y _]. rewrite Y. discriminate.
  - destruct (DF t) as [Y _]. rewrite Y. discriminate.
Qed.

(* ------------------------------------------------------------------ wait-list well-formedness *)
Lemma rckind_alive p f k : rckind p f = Some k -> rinsync p = true \/ f <> None.
Proof.
  intros H. destruct f as [x|]; [right; discriminate|left].
  destruct p; cbn [rckind rinsync] in *; try discriminate H; try reflexivity;
    repeat match goal with
           | x : ractx |- _ => destruct x | x : rlctx |- _ => destruct x | x : rqctx |- _ => destruct x
           | x : rfixk |- _ => destruct x
           end; cbn [rckind rinsync] in *; try discriminate H; reflexivity.
Qed.

Theorem rw_list_wf progs s :
  reachable (rwsys progs) s ->
  NoDup (map fst (rqueue s))
  /\ forall u b, In (u, b) (rqueue s) ->
       (rinsync (rpcs s u) = true \/ rfut s u <> None)
       /\ exists k, rckind (rpcs s u) (rfut s u) = Some k /\ b = is_wr k.
Proof.
  intros R. destruct (RInvFull_reachable _ _ R) as (_ & _ & _ & (C1 & C2 & C3) & _).
  split; [exact C1|]. intros u b Hu. destruct (C3 u b Hu) as [k [K1 K2]].
  split; [eapply rckind_alive; exact K1|exists k; split; assumption].
Qed.

(* ------------------------------------------------------------------ wakes in flight reach their waiter *)
(* While the lock is completely free and the list is non-empty a wake_waiters is on its way — this
   includes the drop of a future whose node was WOKEN, between its unlink and its wake_waiters —
   or the wake target is already awake. *)
Theorem rw_wake_in_flight progs s :
  reachable (rwsys progs) s -> wl s = false -> rd s = 0%N -> rqueue s <> [] ->
  (exists w, rprew s w) \/ rtarget_ok s.
Proof. intros R. destruct (RInvFull_reachable _ _ R) as (_ & _ & _ & _ & _ & _ & _ & _ & W). exact W. Qed.

(* A parked waiter whose node has been marked WOKEN has its park token, or its handle is in the
   wake list of a wake_waiters that has not fired it yet. *)
Theorem rw_woken_has_token progs s :
  reachable (rwsys progs) s ->
  (forall h k, rpcs s h = RPark k -> rnwk s h = true -> rtoken s h = true \/ exists w, pendT (rpcs s w) h)
  /\ (forall h, rpcs s h = RBPark -> rnwk s h = true ->
        (exists w, pendB (rpcs s w) h)
        \/ (rbwoken s h = true /\ (rtoken s h = true \/ exists w r, rpcs s w = RWWake h r))).
Proof. intros R. destruct (RInvFull_reachable _ _ R) as (_ & _ & _ & _ & _ & _ & F1 & F2 & _). split; assumption. Qed.

(* the dropper of a WOKEN future counts as a waker in flight from its unlink on *)
Theorem rw_cancel_is_waker s t :
  rdroppre (rpcs s t) = true -> rnwk s t = true -> rprew s t.
Proof. intros X Y. right. split; assumption. Qed.
