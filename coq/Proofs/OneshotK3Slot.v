(* Proofs/OneshotK3Slot.v — the value slot follows the state machine (K3 oneshot model): occupied
   iff SENT, or WRITING after the write, or TAKEN while the unique taker has not emptied it; emptied
   by Drop for OneShotShared at the latest.  For every cfg, N, programs and schedules. *)
From Coq Require Import List Arith Bool Lia.
From Fibre Require Import Common.Conc Chan.OneshotK3 Proofs.OneshotK3Base Proofs.OneshotK3Life.
Import ListNotations.

Section Slot.
  Variable C : cfg.
  Variable n : nat.
  Variable sprog : nat -> sop.

  Notation inr := (inr n).
  Notation LInv := (LInv n).

  (* everybody released the shared state and Drop for OneShotShared has run *)
  Definition shdone (s : st) : Prop :=
    arc s = 0 /\ rpc s <> RShLoad /\ forall t, spc s t <> SShLoad.

  Lemma arc0_rel s : LInv s -> arc s = 0 -> rrel (rpc s) = true /\ forall t, inr t -> srel (spc s t) = true.
  Proof.
    intros L A. pose proof (l_arc _ _ L) as E. rewrite A in E.
    destruct (rrel (rpc s)); [|lia]. split; [reflexivity|]. intros t Ht.
    assert (Z : cntf (fun t => negb (srel (spc s t))) n = 0) by lia.
    pose proof (cntf_zero _ _ Z t Ht) as X. cbv beta in X. destruct (srel (spc s t)); [reflexivity|discriminate].
  Qed.

  Lemma unrel_arc_s s t : LInv s -> inr t -> srel (spc s t) = false -> 1 <= arc s.
  Proof.
    intros L Ht R. pose proof (l_arc _ _ L) as E.
    assert (1 <= cntf (fun t => negb (srel (spc s t))) n).
    { apply cntf_pos with (t := t); [exact Ht|]. cbv beta. rewrite R. reflexivity. }
    lia.
  Qed.

  Lemma unrel_arc_r s : LInv s -> rrel (rpc s) = false -> 1 <= arc s.
  Proof. intros L R. pose proof (l_arc _ _ L) as E. rewrite R in E. lia. Qed.

  Lemma inr_of_pc s t : LInv s -> spc s t <> SIdle -> inr t.
  Proof.
    intros L H. destruct (le_lt_dec 1 t) as [A|A]; [destruct (le_lt_dec t n) as [B|B]|].
    - split; assumption.
    - exfalso. apply H. apply (l_rng _ _ L). unfold OneshotK3Life.inr. lia.
    - exfalso. apply H. apply (l_rng _ _ L). unfold OneshotK3Life.inr. lia.
  Qed.

  (* a thread that has released the shared state is past every protocol pc *)
  Lemma rel_not s t : LInv s -> arc s = 0 -> spc s t <> SIdle -> srel (spc s t) = true.
  Proof. intros L A H. apply (proj2 (arc0_rel s L A)). apply (inr_of_pc s t L H). Qed.

  Record SInv (s : st) : Prop := mkSInv {
    v_ec : cs s = Empty \/ cs s = Closed -> slot s = None;
    v_sent : cs s = Sent -> slot s <> None \/ shdone s;
    v_wr1 : forall t, spc s t = SSwap -> slot s = Some t;
    v_wr : cs s = Writing -> slot s = None \/ exists t, spc s t = SSwap;
    v_tk1 : rtaker (rpc s) = true -> slot s <> None;
    v_tk2 : forall t, spc s t = DLock -> slot s <> None;
    v_tk3 : cs s = Taken -> slot s <> None -> rtaker (rpc s) = true \/ exists t, spc s t = DLock;
    v_shd : shdone s -> slot s = None;
    v_unr : forall c, rpc s <> TNone c /\ rpc s <> TUnlock c None
  }.

  Lemma SInv_init rp : SInv (init n rp).
  Proof.
    constructor; cbn; intros; try discriminate; try congruence; auto.
    split; discriminate.
  Qed.

  Ltac fwd :=
    repeat match goal with
           | I : forall t, writer (spc ?s t) = true -> cs ?s = Writing, H : writer (spc ?s ?t) = true |- _ =>
               lazymatch goal with X : cs s = Writing |- _ => fail | _ => pose proof (I t H) end
           | I : forall t, spc ?s t = DLock -> cs ?s = Taken, H : spc ?s ?t = DLock |- _ =>
               lazymatch goal with X : cs s = Taken |- _ => fail | _ => pose proof (I t H) end
           | I : forall t, spc ?s t = SShLoad -> arc ?s = 0, H : spc ?s ?t = SShLoad |- _ =>
               lazymatch goal with X : arc s = 0 |- _ => fail | _ => pose proof (I t H) end
           | I : forall u, writer (spc ?s u) = true -> ?t = u, H : writer (spc ?s ?u) = true |- _ =>
               lazymatch goal with X : t = u |- _ => fail | _ => pose proof (I u H) end
           | I : forall u, spc ?s u = DLock -> ?t = u, H : spc ?s ?u = DLock |- _ =>
               lazymatch goal with X : t = u |- _ => fail | _ => pose proof (I u H) end
           | I : forall u, spc ?s u = SShLoad -> ?t = u, H : spc ?s ?u = SShLoad |- _ =>
               lazymatch goal with X : t = u |- _ => fail | _ => pose proof (I u H) end
           | I : forall t, spc ?s t = SSwap -> slot ?s = Some t, H : spc ?s ?t = SSwap |- _ =>
               lazymatch goal with X : slot s = Some t |- _ => fail | _ => pose proof (I t H) end
           | I : forall t, spc ?s t = DLock -> slot ?s <> None, H : spc ?s ?t = DLock |- _ =>
               lazymatch goal with X : slot s <> None |- _ => fail | _ => pose proof (I t H) end
           | I : forall t, spc ?s t <> DLock, H : spc ?s ?t = DLock |- _ => exfalso; exact (I t H)
           | I : forall t, spc ?s t <> SShLoad, H : spc ?s ?t = SShLoad |- _ => exfalso; exact (I t H)
           | H : spc ?s ?u = SSwap |- _ =>
               lazymatch goal with X : writer (spc s u) = true |- _ => fail
               | _ => assert (writer (spc s u) = true) by (rewrite H; reflexivity) end
           end.

  Ltac splitvars :=
    repeat match goal with
           | u : nat |- _ => lazymatch goal with
                             | |- context [upd _ ?t0 _ u] => split_thr u t0
                             | H : context [upd _ ?t0 _ u] |- _ => split_thr u t0
                             end
           end.

  Ltac relkill :=
    match goal with
    | R : forall t, spc ?s t <> SIdle -> srel (spc ?s t) = true, H : writer (spc ?s ?x) = true |- _ =>
        exfalso; let X := fresh "X" in
        assert (X : spc s x <> SIdle) by (let Y := fresh in intro Y; rewrite Y in H; discriminate H);
        specialize (R x X); destruct (spc s x); discriminate
    | R : forall t, spc ?s t <> SIdle -> srel (spc ?s t) = true, H : spc ?s ?x = DLock |- _ =>
        exfalso; let X := fresh "X" in assert (X : spc s x <> SIdle) by congruence;
        specialize (R x X); rewrite H in R; discriminate
    | R : rrel (rpc ?s) = true, H : rtaker (rpc ?s) = true |- _ => exfalso; destruct (rpc s); discriminate
    | R : forall t, spc ?s t <> SIdle -> srel (spc ?s t) = true, H : spc ?s ?x = SSwap |- _ =>
        exfalso; let X := fresh "X" in assert (X : spc s x <> SIdle) by congruence;
        specialize (R x X); rewrite H in R; discriminate
    end.

  Ltac solve1 :=
    try discriminate; try congruence; try (exfalso; congruence); eauto; try lia;
    try (left; congruence);
    try (right; repeat split; intros; splitvars;
         first [assumption | congruence | lia | solve [auto] | (intro; fwd; congruence) | (fwd; congruence)
               | (intro; repeat match goal with
                                | I : ?P -> _, H : ?P |- _ => match type of P with Prop => specialize (I H) end
                                end; congruence)]);
    try (match goal with
         | H : forall u, upd _ ?t _ u <> _ |- _ =>
             let X := fresh in pose proof (H t) as X; rewrite upd_eq in X; congruence
         end);
    try relkill;
    try (match goal with
         | |- slot ?s = None =>
             destruct (slot s) eqn:Esl; [exfalso|reflexivity];
             match goal with V : Some _ <> None -> _ |- _ => specialize (V ltac:(discriminate)) end;
             repeat match goal with
                    | H : _ \/ _ |- _ => destruct H as [H|H]
                    | H : exists _, _ |- _ => destruct H as [? H]
                    end;
             first [discriminate | congruence | relkill | (fwd; relkill)]
         end);
    try (fwd; first [congruence | lia | (exfalso; congruence) | (intro; fwd; first [congruence|lia])]);
    try (intro; fwd; first [congruence|lia]).

  Ltac unfold_shd :=
    unfold shdone in *; fsimpl.

  Ltac prep :=
    intros; fsimpl; pcsimpl; spec_refl;
    repeat match goal with
           | I : ?P -> _, H : ?P |- _ => match type of P with Prop => specialize (I H) end
           end;
    repeat match goal with
           | H : _ \/ _ |- _ => destruct H as [H|H]
           | H : exists _, _ |- _ => destruct H as [? H]
           | H : _ /\ _ |- _ => destruct H
           end.

  Lemma SInv_rstep s s' e : LInv s -> SInv s -> rstep C s = Some (s', e) -> SInv s'.
  Proof.
    intros L V H.
    assert (Hunrel : rrel (rpc s) = false -> 1 <= arc s) by (apply unrel_arc_r; exact L).
    assert (Hrel : arc s = 0 -> forall t, spc s t <> SIdle -> srel (spc s t) = true) by (intros A t; apply rel_not; assumption).
    rstep_cases H; norm; try exact V;
    destruct L as [Irng Ird Iopen Iw1 Iwu Iw3 Idcas2 Itk Itkr Itku1 Icl Itku2 Itcas Iunr Iabs Itclose Ilast Icnt Iarc Ish1a Ish1b Ish2a Ish2b];
    destruct V as [Vec Vsent Vwr1 Vwr Vtk1 Vtk2 Vtk3 Vshd Vunr];
    repeat match goal with b : bool |- _ => destruct b end;
    unfold shdone in *;
    rewrite ?Epc in *; pcsimpl; spec_refl;
    try (exfalso;
         match goal with
         | I : forall c0 : tctx, TNone ?c <> TNone c0 /\ _ |- _ => exact (proj1 (I c) eq_refl)
         | I : forall c0 : tctx, TUnlock ?c None <> TNone c0 /\ _ |- _ => exact (proj2 (I c) eq_refl)
         end).
    all: constructor; unfold shdone; prep; repeat match goal with |- _ /\ _ => split end; intros; solve1.
  Qed.

  (* the witness of an existential clause survives a step of another thread *)
  Ltac wit :=
    match goal with
    | |- _ \/ exists u, upd _ ?t _ u = ?P =>
        first [ right; exists t; rewrite upd_eq; reflexivity
              | match goal with
                | H1 : spc _ ?x = P, Ep : spc _ t = _ |- _ =>
                    right; exists x; destruct (Nat.eq_dec x t) as [->|?];
                    [ congruence | rewrite upd_neq by assumption; exact H1 ]
                end ]
    end.

  Lemma SInv_sstep s t s' e : inr t -> LInv s -> SInv s -> sstep sprog s t = Some (s', e) -> SInv s'.
  Proof.
    intros Rt L V H.
    assert (Hunrel : srel (spc s t) = false -> 1 <= arc s) by (apply unrel_arc_s; assumption).
    assert (Hrel : arc s = 0 -> forall t, spc s t <> SIdle -> srel (spc s t) = true) by (intros A u; apply rel_not; assumption).
    assert (Hrelr : arc s = 0 -> rrel (rpc s) = true) by (intros A; apply (arc0_rel s L A)).
    sstep_cases H; norm; try exact V;
    destruct L as [Irng Ird Iopen Iw1 Iwu Iw3 Idcas2 Itk Itkr Itku1 Icl Itku2 Itcas Iunr Iabs Itclose Ilast Icnt Iarc Ish1a Ish1b Ish2a Ish2b];
    destruct V as [Vec Vsent Vwr1 Vwr Vtk1 Vtk2 Vtk3 Vshd Vunr];
    repeat match goal with E : ?w = _ |- _ => is_var w; lazymatch type of w with wsite => subst w | tctx => subst w end end;
    pose proof (Iw1 t) as Iw1t;
    assert (Iwut : writer (spc s t) = true -> forall u, writer (spc s u) = true -> t = u) by (intros X u; exact (Iwu t u X));
    pose proof (Itk t) as Itkt;
    assert (Itku2t : spc s t = DLock -> forall u, spc s u = DLock -> t = u) by (intros X u; exact (Itku2 t u X));
    pose proof (Ish2a t) as Ish2at;
    assert (Ish2bt : spc s t = SShLoad -> forall u, spc s u = SShLoad -> t = u) by (intros X u; exact (Ish2b t u X));
    assert (Itku1t : rtakz (rpc s) = true -> spc s t <> DLock) by (intros X; exact (Itku1 X t));
    assert (Ish1bt : rpc s = RShLoad -> spc s t <> SShLoad) by (intros X; exact (Ish1b X t));
    assert (Hrtk : rtaker (rpc s) = true -> rtakz (rpc s) = true) by (destruct (rpc s); cbn; congruence);
    pose proof (Vwr1 t) as Vwr1t; pose proof (Vtk2 t) as Vtk2t;
    unfold shdone in *;
    cbv beta in *; rewrite Epc in *; pcsimpl; spec_refl.
    all: constructor; unfold shdone; intros; fsimpl; splitvars; rewrite ?Epc in *; try (apply Vunr);
      prep; repeat match goal with |- _ /\ _ => split end; intros; splitvars; try wit; solve1.
  Qed.

  Lemma SInv_step s t c s' e : LInv s -> SInv s -> step C n sprog s t c = Some (s', e) -> SInv s'.
  Proof.
    intros L V H. unfold step in H. destruct t as [|k].
    - exact (SInv_rstep _ _ _ L V H).
    - destruct (Nat.leb (S k) n) eqn:E; [|discriminate].
      apply Nat.leb_le in E. apply (SInv_sstep s (S k) s' e); [unfold OneshotK3Life.inr; lia|exact L|exact V|exact H].
  Qed.

  Theorem LS_reachable rp s : reachable (sys C n sprog rp) s -> LInv s /\ SInv s.
  Proof.
    apply (invariant_lift (sys C n sprog rp) (fun s => LInv s /\ SInv s)).
    - split; [apply LInv_init|apply SInv_init].
    - intros s0 t c s1 e [L V] H. split.
      + exact (LInv_step C n sprog s0 t c s1 e L H).
      + exact (SInv_step s0 t c s1 e L V H).
  Qed.
End Slot.


