(* Proofs/RvK3Count.v — handle counts of the K3' rendezvous model: sender_count / receiver_count
   equal the number of threads of that side that have not yet run the decrement of their handle
   drop; when a count reaches zero the queue of the other side is empty or being drained. *)
From Coq Require Import List NArith Arith Bool Lia.
From Fibre Require Import Common.Conc Chan.RvK3 Proofs.RvK3Base Proofs.RvK3Queue.
Import ListNotations.

(* the handle's count decrement has happened *)
Definition past_dec (p : pc) : bool :=
  match p with DDisc _ | DUnl _ | DUnpark _ | Done => true | _ => false end.
Definition dropping (p : pc) : bool :=
  match p with DLock | DDisc _ | DUnl _ | DUnpark _ | Done => true | _ => false end.
Definition alive_s (cfg : list tcfg) (s : st) (u : nat) : bool := is_sender cfg u && negb (past_dec (pcs s u)).
Definition alive_r (cfg : list tcfg) (s : st) (u : nat) : bool := is_receiver cfg u && negb (past_dec (pcs s u)).

Record KInv (cfg : list tcfg) (s : st) : Prop := {
  K_s : scount s = cnt (alive_s cfg s) (length cfg);
  K_r : rcount s = cnt (alive_r cfg s) (length cfg);
  K_cl : forall u, closed s u = true -> dropping (pcs s u) = true;
  K_sq : rcount s = 0 -> sq s = [] \/ exists t ws, pcs s t = DDisc ws /\ is_receiver cfg t = true;
  K_rq : scount s = 0 -> rq s = [] \/ exists t ws, pcs s t = DDisc ws /\ is_sender cfg t = true
}.

Lemma KInv_init cfg : KInv cfg (init cfg).
Proof.
  split; cbn.
  - apply cnt_ext. intros u _. unfold alive_s. cbn. rewrite andb_true_r. reflexivity.
  - apply cnt_ext. intros u _. unfold alive_r. cbn. rewrite andb_true_r. reflexivity.
  - intros u H. discriminate H.
  - intros _. left. reflexivity.
  - intros _. left. reflexivity.
Qed.

Lemma KInv_step cfg s t c s' e :
  LockInv cfg s -> QInv cfg s -> KInv cfg s -> step true cfg s t c = Some (s', e) -> KInv cfg s'.
Proof.
  intros LI QI [K1 K2 Kc K3 K4] H.
  pose proof (L_x LI t) as Xt. pose proof (Kc t) as Ct.
  assert (Hlt : role cfg t <> None -> t < length cfg).
  { intros Hr. destruct (role cfg t) as [b|] eqn:Er; [exact (role_lt _ _ Er)|congruence]. }
  step_cases H; rewrite Epc in Xt, Ct; cbn [xpc dropping] in Xt, Ct; try discriminate Xt;
    try (match goal with E : closed _ _ = true |- _ => specialize (Ct E); discriminate Ct end).
  all: try solve [ split; fsimpl;
    [ rewrite K1; apply cnt_ext; intros u _; unfold alive_s; fsimpl; split_thr u t; [rewrite Epc; reflexivity|reflexivity]
    | rewrite K2; apply cnt_ext; intros u _; unfold alive_r; fsimpl; split_thr u t; [rewrite Epc; reflexivity|reflexivity]
    | intros u; split_thr u t; [ try (intros _; reflexivity); try exact Ct | apply Kc ]
    | intros Hz;
      first [ solve [ match goal with E : rcount _ = S _ |- _ => rewrite E in Hz; discriminate Hz end ]
            | destruct (K3 Hz) as [Hs|[t0 [ws0 [Hp Hr]]]];
              [ left; first [ exact Hs | match goal with E : sq _ = _ :: _ |- _ => rewrite E in Hs; discriminate Hs end ]
              | right; exists t0, ws0; split; [split_thr t0 t; [rewrite Epc in Hp; discriminate Hp|exact Hp]|exact Hr] ] ]
    | intros Hz;
      first [ solve [ match goal with E : scount _ = S _ |- _ => rewrite E in Hz; discriminate Hz end ]
            | destruct (K4 Hz) as [Hs|[t0 [ws0 [Hp Hr]]]];
              [ left; first [ exact Hs | match goal with E : rq _ = _ :: _ |- _ => rewrite E in Hs; discriminate Hs end ]
              | right; exists t0, ws0; split; [split_thr t0 t; [rewrite Epc in Hp; discriminate Hp|exact Hp]|exact Hr] ] ] ] ].
  (* the remaining steps: the count decrement of a handle drop, the disconnect loop, cancel *)
  all: assert (Ht : t < length cfg) by (apply Hlt; congruence).
  all: assert (Hsr : is_sender cfg t = true /\ is_receiver cfg t = false \/ is_sender cfg t = false /\ is_receiver cfg t = true)
         by (unfold is_sender, is_receiver; rewrite Er; auto).
  all: destruct Hsr as [[Hs1 Hs2]|[Hs1 Hs2]]; try (unfold is_sender in Hs1; rewrite Er in Hs1; discriminate Hs1);
       try (unfold is_receiver in Hs2; rewrite Er in Hs2; discriminate Hs2).
  (* DLock of a sender: scount decremented *)
  1-3: assert (Hdec : cnt (alive_s cfg s) (length cfg) =
                      S (cnt (alive_s cfg (set_pc s t Done)) (length cfg)))
         by (apply cnt_dec with (t := t); [exact Ht | unfold alive_s; rewrite Hs1, Epc; reflexivity
             | unfold alive_s; fsimpl; rewrite upd_eq, andb_false_r; reflexivity
             | intros u Hu; unfold alive_s; fsimpl; rewrite upd_neq by exact Hu; reflexivity ]);
       split; fsimpl;
       [ erewrite (@cnt_ext _ (alive_s cfg (set_pc s t Done)));
           [ rewrite Hdec in K1; lia | intros u _; unfold alive_s; fsimpl; split_thr u t; reflexivity ]
       | rewrite K2; apply cnt_ext; intros u _; unfold alive_r; fsimpl; split_thr u t; [rewrite Hs2; reflexivity|reflexivity]
       | intros u; split_thr u t; [intros _; reflexivity | apply Kc]
       | intros Hz; destruct (K3 Hz) as [Hs|[t0 [ws0 [Hp Hr]]]];
         [ left; exact Hs
         | right; exists t0, ws0; split; [split_thr t0 t; [rewrite Epc in Hp; discriminate Hp|exact Hp]|exact Hr] ]
       | intros Hz; first [ discriminate Hz | left; assumption
                          | right; exists t, []; split; [rewrite upd_eq; reflexivity|exact Hs1] ] ].
  (* disconnect loop of the last sender *)
  1-2: split; fsimpl;
       [ rewrite K1; apply cnt_ext; intros u _; unfold alive_s; fsimpl; split_thr u t; [rewrite Epc; reflexivity|reflexivity]
       | rewrite K2; apply cnt_ext; intros u _; unfold alive_r; fsimpl; split_thr u t; [rewrite Epc; reflexivity|reflexivity]
       | intros u; split_thr u t; [intros _; reflexivity | apply Kc]
       | intros Hz; destruct (K3 Hz) as [Hs|[t0 [ws0 [Hp Hr]]]];
         [ left; exact Hs
         | right; exists t0, ws0; split; [split_thr t0 t; [congruence|exact Hp]|exact Hr] ]
       | intros Hz; first [ left; reflexivity
                          | right; exists t, (ws ++ [n]); split; [rewrite upd_eq; reflexivity|exact Hs1] ] ].
  (* cancel_receiver unlinks its own record *)
  1: split; fsimpl;
       [ rewrite K1; apply cnt_ext; intros u _; unfold alive_s; fsimpl; split_thr u t; [rewrite Epc; reflexivity|reflexivity]
       | rewrite K2; apply cnt_ext; intros u _; unfold alive_r; fsimpl; split_thr u t; [rewrite Epc; reflexivity|reflexivity]
       | intros u; split_thr u t; [exact Ct | apply Kc]
       | intros Hz; destruct (K3 Hz) as [Hs|[t0 [ws0 [Hp Hr]]]];
         [ left; exact Hs
         | right; exists t0, ws0; split; [split_thr t0 t; [rewrite Epc in Hp; discriminate Hp|exact Hp]|exact Hr] ]
       | intros Hz; destruct (K4 Hz) as [Hs|[t0 [ws0 [Hp Hr]]]];
         [ left; rewrite Hs; reflexivity
         | right; exists t0, ws0; split; [split_thr t0 t; [rewrite Epc in Hp; discriminate Hp|exact Hp]|exact Hr] ] ].
  (* DLock of a receiver *)
  1-3: assert (Hdec : cnt (alive_r cfg s) (length cfg) =
                      S (cnt (alive_r cfg (set_pc s t Done)) (length cfg)))
         by (apply cnt_dec with (t := t); [exact Ht | unfold alive_r; rewrite Hs2, Epc; reflexivity
             | unfold alive_r; fsimpl; rewrite upd_eq, andb_false_r; reflexivity
             | intros u Hu; unfold alive_r; fsimpl; rewrite upd_neq by exact Hu; reflexivity ]);
       split; fsimpl;
       [ rewrite K1; apply cnt_ext; intros u _; unfold alive_s; fsimpl; split_thr u t; [rewrite Hs1; reflexivity|reflexivity]
       | erewrite (@cnt_ext _ (alive_r cfg (set_pc s t Done)));
           [ rewrite Hdec in K2; lia | intros u _; unfold alive_r; fsimpl; split_thr u t; reflexivity ]
       | intros u; split_thr u t; [intros _; reflexivity | apply Kc]
       | intros Hz; first [ discriminate Hz | left; assumption
                          | right; exists t, []; split; [rewrite upd_eq; reflexivity|exact Hs2] ]
       | intros Hz; destruct (K4 Hz) as [Hs|[t0 [ws0 [Hp Hr]]]];
         [ left; exact Hs
         | right; exists t0, ws0; split; [split_thr t0 t; [rewrite Epc in Hp; discriminate Hp|exact Hp]|exact Hr] ] ].
  (* disconnect loop of the last receiver *)
  1-2: split; fsimpl;
       [ rewrite K1; apply cnt_ext; intros u _; unfold alive_s; fsimpl; split_thr u t; [rewrite Epc; reflexivity|reflexivity]
       | rewrite K2; apply cnt_ext; intros u _; unfold alive_r; fsimpl; split_thr u t; [rewrite Epc; reflexivity|reflexivity]
       | intros u; split_thr u t; [intros _; reflexivity | apply Kc]
       | intros Hz; first [ left; reflexivity
                          | right; exists t, (ws ++ [n]); split; [rewrite upd_eq; reflexivity|exact Hs2] ]
       | intros Hz; destruct (K4 Hz) as [Hs|[t0 [ws0 [Hp Hr]]]];
         [ left; exact Hs
         | right; exists t0, ws0; split; [split_thr t0 t; [congruence|exact Hp]|exact Hr] ] ].
Qed.
