(* Proofs/MpmcK3Base.v — basics for the K3' bounded-MPMC proofs: list / upd lemmas, the
   classification of program counters, the step case-analysis tactic, and the lock discipline
   (a thread is at an in-section pc iff it holds `internal`). *)
From Coq Require Import List NArith Arith Bool Lia Sorted.
From Fibre Require Import Common.Conc Chan.MpmcK3.
Import ListNotations.

Set Implicit Arguments.

(* ------------------------------------------------------------------ basics *)
Lemma upd_eq A (f : nat -> A) t v : upd f t v t = v.
Proof. unfold upd. rewrite Nat.eqb_refl. reflexivity. Qed.

Lemma upd_neq A (f : nat -> A) t v u : u <> t -> upd f t v u = f u.
Proof. intros H. unfold upd. destruct (Nat.eqb_spec u t); [contradiction|reflexivity]. Qed.

Lemma isnil_true A (l : list A) : isnil l = true <-> l = [].
Proof. destruct l; cbn; split; congruence. Qed.
Lemma isnil_false A (l : list A) : isnil l = false <-> l <> [].
Proof. destruct l; cbn; split; congruence. Qed.

(* ------------------------------------------------------------------ classification of pcs *)
(* strictly inside a critical section of `internal` *)
Definition in_sec (p : pc) : bool :=
  match p with
  | SScan _ _ | SUnpark _ _ | SUnlock _ _ | SRegUnlock _ | SUnlUnlock _
  | RScan _ _ _ | RUnpark _ _ _ | RUnlock _ _ | RRegUnlock _ _ | TCancelUnlock | RUnlUnlock _
  | DScan _ _ _ | DUnlock _ => true
  | _ => false
  end.

Ltac fsimpl :=
  cbn [lk q qlen wr ws scnt rcnt flag gen tok hcl pcs prog pseq accepted popped results owedR owedS bad discbad
       set_lk set_q set_qlen set_wr set_ws set_scnt set_rcnt set_flag set_gen set_tok set_hcl set_pc set_prog
       set_pseq set_accepted set_popped set_results set_owedR set_owedS set_bad set_discbad] in *.

Ltac break_match H :=
  match type of H with
  | context [match ?x with _ => _ end] =>
      lazymatch x with
      | context [match _ with _ => _ end] => fail
      | _ => let E := fresh "E" in destruct x eqn:E
      end
  end.

(* one goal per leaf of the step function; Epc : pcs s t = <pc> *)
Ltac step_cases H :=
  unfold step in H;
  match type of H with context [pcs ?s ?t] =>
    let Epc := fresh "Epc" in destruct (pcs s t) eqn:Epc end;
  unfold ts_enter, tr_enter, cas_entry, owe_s_done, ret, fin_disc, fin, push, is_full, cur_id in H;
  fsimpl; cbv beta iota zeta in H;
  repeat (break_match H; fsimpl; cbv beta iota zeta in H);
  try discriminate H;
  repeat match type of H with
         | (_, _) = (_, _) => inversion H; clear H
         | Some _ = Some _ => inversion H; clear H
         end;
  subst.

Ltac split_thr u t :=
  destruct (Nat.eq_dec u t) as [->|?]; [rewrite ?upd_eq in * | rewrite ?upd_neq in * by assumption].

(* ------------------------------------------------------------------ lock discipline *)
Definition InvL (s : st) : Prop :=
  (forall u, in_sec (pcs s u) = true -> lk s = Some u) /\
  (forall u, lk s = Some u -> in_sec (pcs s u) = true).

Lemma InvL_init th : InvL (init th).
Proof.
  split; cbn [init lk pcs]; intros u H; [|discriminate].
  destruct (Nat.ltb u (length th)); discriminate.
Qed.

Lemma InvL_step cap cf s t c s' e : InvL s -> step cap cf s t c = Some (s', e) -> InvL s'.
Proof.
  intros [L1 L2] H.
  pose proof (L1 t) as L1t. pose proof (L2 t) as L2t.
  step_cases H.
  all: cbn [in_sec] in L1t, L2t; unfold InvL; fsimpl.
  all: try solve [ split; intros uu; split_thr uu t; cbn [in_sec]; auto; intros X;
                   try discriminate X; try (apply L2t in X; discriminate X) ].
  all: (try (pose proof (L1t eq_refl) as HL); split; intros uu; split_thr uu t; cbn [in_sec]; intros X;
        try reflexivity; try discriminate X; try (apply L1 in X); congruence).
Qed.

(* another thread cannot be inside the section while t holds / has just found the lock free *)
Lemma other_not_in_sec s t u :
  InvL s -> u <> t -> (lk s = Some t \/ lk s = None) -> in_sec (pcs s u) = true -> False.
Proof.
  intros [L1 _] N [H|H] X; apply L1 in X; rewrite H in X; congruence.
Qed.

(* ------------------------------------------------------------------ shared tactics, list helpers *)
Ltac arith_facts := repeat match goal with
  | H : (_ <? _) = true |- _ => apply Nat.ltb_lt in H
  | H : (_ <? _) = false |- _ => apply Nat.ltb_ge in H
  | H : (_ =? _) = true |- _ => apply Nat.eqb_eq in H
  | H : (_ =? _) = false |- _ => apply Nat.eqb_neq in H
  | H : _ && _ = true |- _ => apply andb_prop in H; destruct H
  | H : negb _ = true |- _ => apply negb_true_iff in H
  end.

Ltac kill_other HL L1t X :=
  exfalso; eapply (@other_not_in_sec _ _ _ HL);
   [ eassumption | first [ left; apply L1t; reflexivity | right; assumption ] | rewrite X; reflexivity ].

(* ------------------------------------------------------------------ list helpers *)
Lemma from_prod_app p a b : from_prod p (a ++ b) = from_prod p a ++ from_prod p b.
Proof. apply filter_app. Qed.
Lemma from_prod_one_eq p n : from_prod p [(p, n)] = [(p, n)].
Proof. unfold from_prod; cbn. rewrite Nat.eqb_refl. reflexivity. Qed.
Lemma from_prod_one_neq p t n : t <> p -> from_prod p [(t, n)] = [].
Proof. intros H. unfold from_prod; cbn. destruct (Nat.eqb_spec t p); [contradiction|reflexivity]. Qed.
Lemma of_thread_app A t (a b : list (nat * A)) : of_thread t (a ++ b) = of_thread t a ++ of_thread t b.
Proof. unfold of_thread. rewrite filter_app, map_app. reflexivity. Qed.
Lemma of_thread_one_eq A t (x : A) : of_thread t [(t, x)] = [x].
Proof. unfold of_thread; cbn. rewrite Nat.eqb_refl. reflexivity. Qed.
Lemma of_thread_one_neq A t u (x : A) : u <> t -> of_thread t [(u, x)] = [].
Proof. intros H. unfold of_thread; cbn. destruct (Nat.eqb_spec u t); [contradiction|reflexivity]. Qed.

Lemma sorted_snoc l x : StronglySorted lt l -> (forall y, In y l -> y < x) -> StronglySorted lt (l ++ [x]).
Proof.
  induction 1 as [|a l Hs IH Hf]; intros Hx; cbn.
  - constructor; constructor.
  - constructor.
    + apply IH. intros y Hy. apply Hx. right. exact Hy.
    + apply Forall_app. split; [exact Hf|]. constructor; [|constructor]. apply Hx. left. reflexivity.
Qed.

