(* Proofs/RendezvousBase.v — association-list lemmas and the structural invariant WF of the
   rendezvous model (Chan/Rendezvous.v), with its preservation by every step. *)
From Fibre Require Import Common.Base Chan.Rendezvous.

Ltac deq a b := destruct (N.eqb_spec a b); subst.

(** association lists *)
Section Assoc.
Context {A : Type}.
Implicit Types (m : list (N * A)) (g : A -> A).

Lemma aget_aupd k k' g m :
  aget k' (aupd k g m) = if N.eqb k k' then option_map g (aget k' m) else aget k' m.
Proof.
  induction m as [|[k0 a] t IH]; cbn [aget aupd].
  - destruct (N.eqb k k'); reflexivity.
  - destruct (N.eqb_spec k k0) as [E1|E1]; cbn [aget];
      destruct (N.eqb_spec k' k0) as [E2|E2]; subst;
      rewrite ?N.eqb_refl; try reflexivity; try exact IH.
    + destruct (N.eqb_spec k0 k'); [congruence | reflexivity].
    + destruct (N.eqb_spec k k0); [congruence | reflexivity].
Qed.

Lemma aget_aupd_eq k g m : aget k (aupd k g m) = option_map g (aget k m).
Proof. rewrite aget_aupd, N.eqb_refl. reflexivity. Qed.

Lemma aget_aupd_neq k k' g m : k <> k' -> aget k' (aupd k g m) = aget k' m.
Proof. intros H. rewrite aget_aupd. deq k k'; [congruence | reflexivity]. Qed.

Lemma keys_aupd k g m : map fst (aupd k g m) = map fst m.
Proof.
  induction m as [|[k0 a] t IH]; cbn [aupd map fst]; [reflexivity|].
  deq k k0; cbn [map fst]; [reflexivity | rewrite IH; reflexivity].
Qed.

Lemma aget_Some_In k a m : aget k m = Some a -> In (k, a) m.
Proof.
  induction m as [|[k0 a0] t IH]; cbn [aget]; intros H; [discriminate|].
  deq k k0.
  - inversion H; subst. left. reflexivity.
  - right. apply IH. exact H.
Qed.

Lemma aget_Some_key k a m : aget k m = Some a -> In k (map fst m).
Proof. intros H. apply aget_Some_In in H. apply (in_map fst) in H. exact H. Qed.

Lemma aget_None_key k m : aget k m = None <-> ~ In k (map fst m).
Proof.
  induction m as [|[k0 a0] t IH]; cbn [aget map fst].
  - split; auto.
  - deq k k0.
    + split; [discriminate | intros H; exfalso; apply H; left; reflexivity].
    + rewrite IH. split.
      * intros H [He|Hi]; [congruence | auto].
      * intros H Hi. apply H. right. exact Hi.
Qed.

Lemma In_aget k a m : NoDup (map fst m) -> In (k, a) m -> aget k m = Some a.
Proof.
  induction m as [|[k0 a0] t IH]; cbn [aget map fst]; intros Hn Hi; [contradiction|].
  inversion Hn as [|x l Hnot Hn']; subst.
  destruct Hi as [He|Hi].
  - inversion He; subst. rewrite N.eqb_refl. reflexivity.
  - deq k k0.
    + exfalso. apply Hnot. apply (in_map fst) in Hi. exact Hi.
    + apply IH; assumption.
Qed.

Lemma ahas_true k m : ahas k m = true <-> In k (map fst m).
Proof.
  unfold ahas. destruct (aget k m) eqn:E.
  - split; [intros _; eapply aget_Some_key; eauto | reflexivity].
  - split; [discriminate | intros H; apply aget_None_key in E; contradiction].
Qed.

Lemma ahas_false k m : ahas k m = false <-> ~ In k (map fst m).
Proof.
  rewrite <- ahas_true. destruct (ahas k m); split; intros H; try congruence;
    exfalso; apply H; reflexivity.
Qed.

Lemma aget_app k m m' :
  aget k (m ++ m') = match aget k m with Some a => Some a | None => aget k m' end.
Proof.
  induction m as [|[k0 a0] t IH]; cbn [aget app]; [reflexivity|].
  deq k k0; [reflexivity | exact IH].
Qed.

Lemma aget_adel_neq k k' m : k <> k' -> aget k' (adel k m) = aget k' m.
Proof.
  intros Hn. induction m as [|[k0 a0] t IH]; cbn [aget adel]; [reflexivity|].
  deq k k0.
  - deq k' k0; [congruence | reflexivity].
  - cbn [aget]. deq k' k0; [reflexivity | exact IH].
Qed.

Lemma keys_adel_incl k m x : In x (map fst (adel k m)) -> In x (map fst m).
Proof.
  induction m as [|[k0 a0] t IH]; cbn [adel map fst]; [auto|].
  deq k k0; cbn [map fst]; intros H.
  - right. exact H.
  - destruct H as [H|H]; [left; exact H | right; apply IH; exact H].
Qed.

Lemma keys_adel_nodup k m : NoDup (map fst m) -> NoDup (map fst (adel k m)).
Proof.
  induction m as [|[k0 a0] t IH]; cbn [adel map fst]; intros Hn; [constructor|].
  inversion Hn as [|x l Hnot Hn']; subst.
  deq k k0; [exact Hn'|].
  cbn [map fst]. constructor; [|apply IH; exact Hn'].
  intros Hi. apply Hnot. eapply keys_adel_incl. exact Hi.
Qed.

Lemma aget_adel_eq k m : NoDup (map fst m) -> aget k (adel k m) = None.
Proof.
  induction m as [|[k0 a0] t IH]; cbn [adel map fst]; intros Hn; [reflexivity|].
  inversion Hn as [|x l Hnot Hn']; subst.
  deq k k0.
  - apply aget_None_key. exact Hnot.
  - cbn [aget]. deq k k0; [congruence | apply IH; exact Hn'].
Qed.

Lemma keys_adel_notin k m : NoDup (map fst m) -> ~ In k (map fst (adel k m)).
Proof. intros Hn. apply aget_None_key. apply aget_adel_eq. exact Hn. Qed.

Lemma In_adel k k' a m : k <> k' -> In (k', a) m -> In (k', a) (adel k m).
Proof.
  intros Hne. induction m as [|[k0 a0] t IH]; cbn [adel]; [auto|].
  intros [He|Hi].
  - inversion He; subst. deq k k'; [congruence | left; reflexivity].
  - deq k k0; [exact Hi | right; apply IH; exact Hi].
Qed.

Lemma In_adel_inv k k' a m : In (k', a) (adel k m) -> In (k', a) m.
Proof.
  induction m as [|[k0 a0] t IH]; cbn [adel]; [auto|].
  deq k k0; intros H; [right; exact H|].
  destruct H as [H|H]; [left; exact H | right; apply IH; exact H].
Qed.

Lemma In_aupd_inv k g k' a m : In (k', a) (aupd k g m) -> In k' (map fst m).
Proof.
  intros H. apply (in_map fst) in H. rewrite keys_aupd in H. exact H.
Qed.
End Assoc.

(* queue records: values are waker ids *)
Lemma In_qrefresh f w f' w' q :
  In (f', w') (qrefresh f w q) -> In f' (map fst q).
Proof. unfold qrefresh. apply In_aupd_inv. Qed.

Lemma qhas_true f q : qhas f q = true <-> In f (map fst q).
Proof. unfold qhas. apply ahas_true. Qed.

Lemma qhas_false f q : qhas f q = false <-> ~ In f (map fst q).
Proof. unfold qhas. apply ahas_false. Qed.

Lemma qhas_In f w (q : list (N * N)) : In (f, w) q -> qhas f q = true.
Proof. intros H. apply qhas_true. apply (in_map fst) in H. exact H. Qed.

(** disc_all *)
Lemma fut_disc_idem r : fut_disc (fut_disc r) = fut_disc r.
Proof. reflexivity. Qed.

Lemma aget_disc_all f q m :
  aget f (disc_all q m) = if qhas f q then option_map fut_disc (aget f m) else aget f m.
Proof.
  revert m. induction q as [|[g w] t IH]; intros m; cbn [disc_all].
  - reflexivity.
  - rewrite IH. rewrite aget_aupd. unfold qhas, ahas. cbn [aget].
    deq f g.
    + rewrite N.eqb_refl. destruct (aget g t); destruct (aget g m); reflexivity.
    + deq g f; [congruence | reflexivity].
Qed.

Lemma keys_disc_all q m : map fst (disc_all q m) = map fst m.
Proof.
  revert m. induction q as [|[g w] t IH]; intros m; cbn [disc_all]; [reflexivity|].
  rewrite IH. apply keys_aupd.
Qed.

(** the structural invariant (it does not mention the two counters) *)
Section WFdef.
Variables (H : list (N * handle)) (F : list (N * fut)) (SQ RQ : list (N * N)).

Definition sq_ok : Prop := forall f w, In (f, w) SQ ->
  exists r, aget f F = Some r /\ f_side r = Tx /\ f_reg r = true /\ f_st r = WAITING
            /\ f_cell r = Some (f_val r).

Definition rq_ok : Prop := forall f w, In (f, w) RQ ->
  exists r, aget f F = Some r /\ f_side r = Rx /\ f_reg r = true /\ f_st r = WAITING
            /\ f_cell r = None.

Definition fut_ok (f : N) (r : fut) : Prop :=
  match f_side r with
  | Tx => (f_cell r = None \/ f_cell r = Some (f_val r))
          /\ (f_reg r = true -> f_st r = WAITING -> qhas f SQ = true)
  | Rx => (forall v, f_cell r = Some v -> f_st r = DONE /\ f_reg r = true)
          /\ (f_reg r = true -> f_st r = DONE -> f_cell r <> None)
  end
  /\ (exists hd, aget (f_h r) H = Some hd /\ h_side hd = f_side r).

Record WFc : Prop := mkWF {
  wf_fs : NoDup (map fst F);
  wf_hs : NoDup (map fst H);
  wf_sqk : NoDup (map fst SQ);
  wf_rqk : NoDup (map fst RQ);
  wf_sq : sq_ok;
  wf_rq : rq_ok;
  wf_excl : SQ = [] \/ RQ = [];
  wf_fut : forall f r, aget f F = Some r -> fut_ok f r;
}.
End WFdef.

Definition WF (s : state) : Prop := WFc (hs s) (fs s) (sq s) (rq s).

Lemma WF_init a : WF (init a).
Proof.
  constructor; cbn.
  - constructor.
  - repeat constructor; cbn; intuition congruence.
  - constructor.
  - constructor.
  - intros f w [].
  - intros f w [].
  - left. reflexivity.
  - intros f r H. discriminate.
Qed.
