(* Proofs/PolicyRandomProofs.v — the full contract for RandomP, for every RNG
   (every state type, every choice function, every seed). *)
From Fibre Require Import Common.Base Cache.PolicySpec Cache.PolicySieve Cache.PolicyRandom
     Proofs.PolicyCommon.

Section RandomProofs.
  Variable rs : Type.
  Variable choose : rs -> list N -> nat * rs.
  Variable r0 : rs.

  Definition rnd_tr (st : rnd rs) : list kc := fst st.
  Definition rnd_inv (st : rnd rs) : Prop := NoDup (keys (fst st)).

  (* whatever the RNG answers, the victim is a current item and exactly it is removed *)
  Lemma rnd_one_some st v st' :
    rnd_inv st -> rnd_one rs choose st = Some (v, st') ->
    Permutation (rnd_tr st) (ekc v :: rnd_tr st') /\ rnd_inv st'.
  Proof.
    unfold rnd_inv, rnd_tr, rnd_one. destruct st as [items r]. cbn [fst].
    intros Hnd. destruct items as [|d t] eqn:Ei; [discriminate|]. rewrite <- Ei in *.
    destruct (choose r (keys items)) as [i r'].
    destruct (nth (Nat.modulo i (length items)) items d) as [k c] eqn:En.
    intros H. inversion H; subst v st'. cbn [fst ekc].
    assert (Hin : In (k, c) items).
    { rewrite <- En. apply nth_In. apply Nat.mod_upper_bound. rewrite Ei. cbn [length]. lia. }
    split.
    - apply Permutation_sym. apply perm_rm_cons; [exact Hnd|].
      apply NoDup_lookup; assumption.
    - apply rm_NoDup. exact Hnd.
  Qed.

  Lemma rnd_one_none st : rnd_one rs choose st = None -> rnd_tr st = [].
  Proof.
    unfold rnd_one, rnd_tr. destruct st as [items r]. cbn [fst].
    destruct items as [|d t]; [reflexivity|].
    destruct (choose r (keys (d :: t))) as [i r'].
    destruct (nth (Nat.modulo i (length (d :: t))) (d :: t) d) as [k c]. discriminate.
  Qed.

  Lemma rnd_evict_ok n st st' vs f :
    rnd_inv st ->
    evict_loop (rnd_one rs choose) (length (fst st)) n 0 st [] = (st', vs, f) ->
    evict_ok (rnd_tr st) (rnd_tr st') n vs f.
  Proof.
    intros HI H.
    destruct (evict_loop_inv (rnd_one rs choose) rnd_tr rnd_inv rnd_one_some
                _ _ _ _ _ _ _ _ HI H (le_n _)) as [V [Hv [Hf [HP [_ Hs]]]]].
    cbn [rev app] in Hv. subst vs.
    apply evict_ok_split; [exact HI | exact HP | lia |].
    intros Hn.
    assert (Hdone : n <= f \/ rnd_tr st' = []).
    { destruct Hs as [Hs|[Hs|Hs]]; [left; exact Hs | right; apply rnd_one_none; exact Hs | right; exact Hs]. }
    destruct Hdone as [Hd|Hd]; [exact Hd|].
    rewrite Hd, app_nil_r in HP. apply total_perm in HP. lia.
  Qed.

  Lemma rnd_step_ok st cl : NoDup (keys (fst st)) ->
    let '(st', o) := rnd_step rs choose st cl in
    step_ok admit_full (fst st) cl o (fst st').
  Proof.
    intros H. destruct st as [items r]. cbn [fst] in H.
    destruct cl as [k c|k c|k|n|]; cbn [rnd_step step_ok step_okG access_keep fst].
    - apply Permutation_refl.
    - unfold admit_full. apply Permutation_refl.
    - apply Permutation_refl.
    - destruct (evict_loop (rnd_one rs choose) (length items) n 0 (items, r) []) as [[st' vs] f] eqn:E.
      cbn [step_okG]. apply (rnd_evict_ok n (items, r) st' vs f H E).
    - reflexivity.
  Qed.

  Theorem random_contract : contract admit_full (RandomP rs choose r0).
  Proof.
    apply contractG_lift_nodup.
    - exact access_keep_NoDup.
    - exact admit_full_NoDup.
    - intros T T' n vs c. apply evict_ok_core.
    - constructor.
    - intros s cl Hs. exact (rnd_step_ok s cl Hs).
  Qed.
End RandomProofs.

(* the replay instance used by the D1 driver is one of the instances quantified over *)
Corollary random_replay_contract choices : contract admit_full (RandomReplayP choices).
Proof. apply random_contract. Qed.
