(* Proofs/MpmcK3Proofs.v — milestone 1 theorems of the K3' bounded-MPMC model, for EVERY capacity,
   thread count, program and schedule (Conc.invariant_lift over Inv1 = InvL /\ InvQ /\ InvA /\
   InvR1 /\ InvR2): capacity (C03), FIFO and per-producer order (C02), conservation / exactly
   once / failed operations have no effect (C01). *)
From Coq Require Import List NArith Arith Bool Lia Sorted Permutation.
From Fibre Require Import Common.Conc Chan.MpmcK3 Proofs.MpmcK3Base Proofs.MpmcK3Queue Proofs.MpmcK3Res.
Import ListNotations.

Definition Inv1 (cap : nat) (s : st) : Prop := InvL s /\ InvQ cap s /\ InvA s /\ InvR1 s /\ InvR2 s.

Lemma init_pcs th u : pcs (init th) u = Idle \/ pcs (init th) u = Done.
Proof. cbn [init pcs]. destruct (Nat.ltb u (length th)); auto. Qed.

Lemma Inv1_init cap th : Inv1 cap (init th).
Proof.
  split; [apply InvL_init|]. split; [|split; [|split]].
  - constructor; cbn [init qlen q popped accepted pcs length map app]; try reflexivity; try lia.
    + intros u k i X. destruct (init_pcs th u) as [E|E]; cbn [init pcs] in E; rewrite E in X; discriminate.
    + intros u k X. destruct (init_pcs th u) as [E|E]; cbn [init pcs] in E; rewrite E in X; discriminate.
  - constructor; cbn [init accepted pcs pseq]; try (intros; contradiction).
    + intros p U X. exact X.
    + constructor.
    + intros p. constructor.
  - constructor; cbn [init results]; intros; contradiction.
  - constructor; intros p; unfold sent_ok, got; cbn [init results accepted popped of_thread filter map flat_map from_prod app].
    + destruct (init_pcs th p) as [E|E]; rewrite E; reflexivity.
    + destruct (init_pcs th p) as [E|E]; rewrite E; reflexivity.
Qed.

Lemma Inv1_step cap cf s t c s' e : Inv1 cap s -> step cap cf s t c = Some (s', e) -> Inv1 cap s'.
Proof.
  intros (HL & HQ & HA & HR1 & HR2) H. split; [|split; [|split; [|split]]].
  - eapply InvL_step; eassumption.
  - eapply InvQ_step; eassumption.
  - eapply InvA_step; eassumption.
  - eapply InvR1_step; eassumption.
  - eapply InvR2_step; eassumption.
Qed.

Lemma Inv1_reachable cap cf th s : reachable (sys cap cf th) s -> Inv1 cap s.
Proof.
  apply (invariant_lift (sys cap cf th) (Inv1 cap)).
  - apply Inv1_init.
  - intros s0 t c s' e. apply Inv1_step.
Qed.

(* ------------------------------------------------------------------ subsequences *)
Inductive subl {A} : list A -> list A -> Prop :=
| subl_nil : subl [] []
| subl_skip x l1 l2 : subl l1 l2 -> subl l1 (x :: l2)
| subl_keep x l1 l2 : subl l1 l2 -> subl (x :: l1) (x :: l2).

Lemma subl_refl A (l : list A) : subl l l.
Proof. induction l; constructor; assumption. Qed.
Lemma subl_filter A (f : A -> bool) l : subl (filter f l) l.
Proof. induction l as [|a l IH]; cbn; [constructor|]. destruct (f a); constructor; exact IH. Qed.
Lemma subl_map A B (f : A -> B) a b : subl a b -> subl (map f a) (map f b).
Proof. induction 1; cbn; constructor; assumption. Qed.
Lemma subl_filter_mono A (f : A -> bool) a b : subl a b -> subl (filter f a) (filter f b).
Proof.
  induction 1; cbn; [constructor| |]; destruct (f x); try constructor; assumption.
Qed.
Lemma subl_app_l A (a b : list A) : subl a (a ++ b).
Proof.
  induction a as [|x a IH]; cbn.
  - induction b; constructor; assumption.
  - apply subl_keep. exact IH.
Qed.
Lemma subl_trans A (a b c : list A) : subl a b -> subl b c -> subl a c.
Proof.
  intros H1 H2. revert a H1. induction H2; intros a H1.
  - exact H1.
  - constructor. apply IHsubl. exact H1.
  - inversion H1; subst.
    + apply subl_skip. apply IHsubl. assumption.
    + apply subl_keep. apply IHsubl. assumption.
Qed.
Lemma subl_In A (a b : list A) x : subl a b -> In x a -> In x b.
Proof. induction 1; cbn; intros H1; auto. destruct H1; auto. Qed.
Lemma subl_sorted A (R : A -> A -> Prop) a b : subl a b -> StronglySorted R b -> StronglySorted R a.
Proof.
  induction 1; intros Hs.
  - constructor.
  - inversion Hs; subst. apply IHsubl. assumption.
  - inversion Hs; subst. constructor; [apply IHsubl; assumption|].
    rewrite Forall_forall in *. intros y Hy. apply H3. eapply subl_In; eassumption.
Qed.
Lemma subl_NoDup A (a b : list A) : subl a b -> NoDup b -> NoDup a.
Proof.
  induction 1; intros Hn.
  - constructor.
  - inversion Hn; subst. auto.
  - inversion Hn; subst. constructor; [|auto]. intros X. apply H2. eapply subl_In; eassumption.
Qed.

Section Theorems.
  Variables (cap : nat) (cf : cfg) (th : list tprog) (s : st).
  Hypothesis Hr : reachable (sys cap cf th) s.

  Let HI := Inv1_reachable cap cf th s Hr.

  (* ---- C03 *)
  Theorem occupancy : qlen s = length (q s) /\ length (q s) <= cap.
  Proof. destruct HI as (_ & HQ & _). split; [apply (Q_len _ _ HQ)|apply (Q_cap _ _ HQ)]. Qed.

  (* try_send / send_sync see Full only when the ring holds exactly `cap` values in that section *)
  Theorem full_is_exact : forall u k, pcs s u = SUnlock k SFull -> lk s = Some u /\ length (q s) = cap.
  Proof.
    intros u k X. destruct HI as (HL & HQ & _). split.
    - apply (proj1 HL). rewrite X. reflexivity.
    - rewrite <- (Q_len _ _ HQ). eapply (Q_full _ _ HQ); eassumption.
  Qed.

  (* ---- C02 *)
  Theorem fifo : map snd (popped s) ++ q s = accepted s.
  Proof. destruct HI as (_ & HQ & _). apply (Q_fifo _ _ HQ). Qed.

  Theorem producer_order : forall p, StronglySorted lt (map snd (from_prod p (accepted s))).
  Proof. destruct HI as (_ & _ & HA & _). apply (A_sorted _ HA). Qed.

  Lemma popped_by_sub c : subl (of_thread c (popped s)) (accepted s).
  Proof.
    rewrite <- fifo. eapply subl_trans; [|apply subl_app_l].
    unfold of_thread. apply subl_map. apply subl_filter.
  Qed.

  (* every consumer sees the values of one producer in the order that producer sent them *)
  Theorem consumer_order : forall c p, StronglySorted lt (map snd (from_prod p (of_thread c (popped s)))).
  Proof.
    intros c p. eapply subl_sorted; [|apply (producer_order p)].
    apply subl_map. unfold from_prod. apply subl_filter_mono. apply popped_by_sub.
  Qed.

  (* ---- C01 *)
  Theorem accepted_nodup : NoDup (accepted s).
  Proof. destruct HI as (_ & _ & HA & _). apply (A_nodup _ HA). Qed.

  (* exactly once: no id is popped twice (by the same or by different consumers), and no popped id
     is still in the ring *)
  Theorem popped_once : NoDup (map snd (popped s) ++ q s).
  Proof. rewrite fifo. apply accepted_nodup. Qed.

  (* what a consumer's calls returned (+ the value it holds between the pop and the return) is
     exactly what it popped *)
  Theorem consumer_account : forall c, of_thread c (popped s) = got s c ++ in_hand (pcs s c).
  Proof. destruct HI as (_ & _ & _ & _ & HR). apply (R_got _ HR). Qed.

  (* a producer's accepted ids are exactly its Ok results (+ the one whose call has not returned) *)
  Theorem producer_account :
    forall p, from_prod p (accepted s) = sent_ok s p ++ (if in_flight (pcs s p) then [(p, pseq s p)] else []).
  Proof. destruct HI as (_ & _ & _ & _ & HR). apply (R_sent _ HR). Qed.

  Theorem got_nodup : forall c, NoDup (got s c).
  Proof.
    intros c. assert (H : NoDup (of_thread c (popped s))).
    { eapply subl_NoDup; [apply popped_by_sub|apply accepted_nodup]. }
    rewrite consumer_account in H. clear - H. induction (got s c) as [|a l IH]; [constructor|].
    cbn in H. inversion H; subst. constructor; [|auto]. intros X. apply H2. apply in_app_iff. left. exact X.
  Qed.

  (* every value a consumer returned was accepted (pushed by a producer whose step said so) *)
  Theorem got_accepted : forall c v, In v (got s c) -> In v (accepted s).
  Proof.
    intros c v H. eapply subl_In; [apply (popped_by_sub c)|]. rewrite consumer_account. apply in_app_iff. left. exact H.
  Qed.

  (* failed operations have no effect: an id handed back (Full / Closed) or refused (send Err) never
     entered the ring, hence is never received *)
  Theorem failed_no_effect : forall p r v, In (p, r) (results s) -> In v (res_failed r) -> ~ In v (accepted s).
  Proof. destruct HI as (_ & _ & _ & HR & _). apply (R_failed _ HR). Qed.

  Theorem failed_never_received : forall p r v c, In (p, r) (results s) -> In v (res_failed r) -> ~ In v (got s c).
  Proof. intros p r v c H1 H2 X. eapply failed_no_effect; try eassumption. eapply got_accepted; eassumption. Qed.
End Theorems.
