(* Proofs/OneshotK3Examples.v — concrete schedules of the K3 oneshot model (vm_compute): the
   hypotheses of the theorems are satisfiable on non-trivial runs (a receiver that really parks and is
   woken; a value destroyed by the last sender after the receiver closed during WRITING). *)
From Coq Require Import List Arith Bool.
From Fibre Require Import Common.Conc Chan.OneshotK3.
Import ListNotations.

Definition cfg3 : cfg := mkCfg true true.       (* the repaired code *)

(* one sender, block_on(recv()): the receiver registers, re-checks, parks; the send wakes it *)
Definition sys_pw : system := sys cfg3 1 (fun _ => SSend) [RRecv].
Definition sch_park : list (nat * unit) := map (fun t => (t, tt)) (repeat 0 12).
Definition sch_pw : list (nat * unit) := map (fun t => (t, tt)) (repeat 0 12 ++ repeat 1 20 ++ repeat 0 20).
Definition st_park : st := fst (run sys_pw (Conc.init sys_pw) sch_park).
Definition st_pw : st := fst (run sys_pw (Conc.init sys_pw) sch_pw).

Lemma ex_parked : rpc st_park = BPark /\ token st_park = false /\ wk st_park = Some 1 /\ woken st_park = false.
Proof. vm_compute. repeat split. Qed.

Lemma ex_woken :
  rpc st_pw = RDone /\ spc st_pw 1 = SDone /\ rlog st_pw = [RFVal 1] /\ slog st_pw = [(1, SOk)] /\
  drops st_pw = [] /\ slot st_pw = None /\ cs st_pw = Taken.
Proof. vm_compute. repeat split. Qed.

(* the receiver closes while the sender is in WRITING: the send still reports Ok, the last sender
   finds SENT + receiver_dropped and destroys the value *)
Definition sys_cl : system := sys cfg3 1 (fun _ => SSend) [RClose].
Definition sch_cl : list (nat * unit) := map (fun t => (t, tt)) (repeat 1 4 ++ repeat 0 6 ++ repeat 1 20).
Definition st_cl : st := fst (run sys_cl (Conc.init sys_cl) sch_cl).

Lemma ex_sender_cleanup :
  rpc st_cl = RDone /\ spc st_cl 1 = SDone /\ rlog st_cl = [RCloseOk] /\ slog st_cl = [(1, SOk)] /\
  drops st_cl = [(1, BySender)] /\ slot st_cl = None /\ got st_cl = [].
Proof. vm_compute. repeat split. Qed.

(* three senders race: exactly one Ok, the others get their value back *)
Definition sys_race : system := sys cfg3 3 (fun _ => SSend) [RTry; RTry].
Definition sch_race : list (nat * unit) :=
  map (fun t => (t, tt)) ([1; 2; 3; 1; 2; 3; 1; 2; 3; 0] ++ repeat 2 20 ++ repeat 1 20 ++ repeat 3 20 ++ repeat 0 20).
Definition st_race : st := fst (run sys_race (Conc.init sys_race) sch_race).

Lemma ex_race :
  oks st_race = [1] /\ back st_race = [2; 3] /\ wrote st_race = [1] /\ rlog st_race = [REmpty; RVal 1] /\
  rpc st_race = RDone.
Proof. vm_compute. repeat split. Qed.
