(* Proofs/MpscBWakeThm.v — C06 for the bounded-MPSC K2 model: the receive-side invariants W1..W8
   lifted to all histories, and the receive-side theorems. *)
From Fibre Require Import Common.Base Chan.MpscB Chan.MpscBSpec Proofs.MpscBBase Proofs.MpscBInv Proofs.MpscBProofs Proofs.MpscBWake.
From Coq Require Import ZifyBool ZifyNat ZifyN.
Ltac Zify.zify_post_hook ::= Z.div_mod_to_equations.

(* ------------------------------------------------------------------ *)
(** * all histories *)

Definition GW (s : st) : Prop := W1 s /\ W2 s /\ W3 s /\ W4 s /\ W5 s /\ W6 s /\ W7 s /\ W8 s.

Lemma exec_GW s o : GS s -> GW s -> GW (fst (exec s o)).
Proof.
  intros G (V1&V2&V3&V4&V5&V6&V7&V8).
  split; [apply (exec_W1 s o V1)|].
  split; [apply (exec_W2 s o G V1 V2 V4 V5)|].
  split; [apply (exec_W3 s o G V8 V5 V3)|].
  split; [apply (exec_W4 s o G V4)|].
  split; [apply (exec_W5 s o G V8 V5)|].
  split; [apply (exec_W6 s o V6)|].
  split; [apply (exec_W7 s o V8 V7) | apply (exec_W8 s o V8)].
Qed.

Lemma init_GW a cp f3 fc : GW (init a cp f3 fc).
Proof.
  unfold GW, W1, W2, W3, W4, W5, W6, W7, W8, rpend, spend, init. cb.
  split; [intros; discriminate|].
  split; [intros f w c (fr&A&_); discriminate A|].
  split.
  { intros h w c (r&A&P). cbn [aget] in A.
    destruct (h =? 0); [inversion A; subst; discriminate P|].
    destruct (h =? 1); [inversion A; subst; discriminate P | discriminate A]. }
  split; [intros _ f1 f2 fr1 fr2 A; discriminate A|].
  split; [intros _ f fr h r A; discriminate A|].
  split; [intros; discriminate|].
  split; [intros; discriminate|].
  intros h r A. cbn [aget] in A.
  destruct (h =? 0); [inversion A; subst; cbn; split; intros; congruence|].
  destruct (h =? 1); [inversion A; subst; cbn; split; intros; congruence | discriminate A].
Qed.

Lemma reach_GW : forall s, reach s -> GW s.
Proof.
  apply (reach_ind' GW).
  - apply init_GW.
  - intros s0 o R H. rewrite step_fst. apply exec_GW; [apply (reach_GS s0 R) | exact H].
Qed.

(** C06, receive side: a pending receive future (single-consumer usage: no second receive-side
    waiter was ever outstanding) whose channel became non-empty or disconnected has been woken *)
Theorem recv_wake s f w c :
  reach s -> multi s = false -> rpend s f w c -> (q s <> [] \/ scount s = 0) -> c < wk s w.
Proof.
  intros R M P Rdy. destruct (reach_GW s R) as (V1&V2&_).
  destruct (V2 f w c P) as [_ [X|[X|X]]]; [|exact X|congruence].
  destruct (V1 _ _ X) as [A B]. destruct Rdy; contradiction.
Qed.

Theorem stream_wake s h w c :
  reach s -> multi s = false -> spend s h w c -> (q s <> [] \/ scount s = 0) -> c < wk s w.
Proof.
  intros R M P Rdy. destruct (reach_GW s R) as (V1&_&V3&_).
  destruct (V3 h w c P) as [_ [X|[X|X]]]; [|exact X|congruence].
  destruct (V1 _ _ X) as [A B]. destruct Rdy; contradiction.
Qed.

(** "would be ready" is exactly: own handle closed, or something buffered, or no sender left *)
Theorem poll_recv_pending_iff s f w fr r reg :
  aget f (fs s) = Some fr -> aget (fh fr) (hs s) = Some r -> fk fr = FRecv reg ->
  (snd (exec s (Poll f w)) = RPending <-> hclosed r = false /\ q s = [] /\ scount s <> 0).
Proof.
  intros A B K. cbn [exec]. unfold do_poll. rewrite A, B, K.
  destruct (hclosed r); [split; [discriminate | intros (X&_); discriminate]|].
  unfold poll_recv_core, deq1. destruct (q s) as [|v t] eqn:E.
  - pose proof (flush_frame s) as F. unfold deq_frame in F.
    destruct (N.eqb_spec (scount (flush s)) 0) as [Z|Z]; rewrite F in Z; cbn [scount] in Z; cb.
    + split; [discriminate | intros (_&_&X); contradiction].
    + split; auto.
  - cbn [fst snd]. split; [discriminate | intros (_&X&_); discriminate].
Qed.

(** no registration ever points at a future that is gone (or that is not registered) *)
Theorem no_dangling s f w : reach s -> rw s = Some (OF f, w) ->
  exists fr, aget f (fs s) = Some fr /\ reg_of (fk fr) = true.
Proof. intros R. destruct (reach_GW s R) as (_&_&_&_&_&V6&_). apply V6. Qed.

