(* Proofs/CacheCoreProofs.v — effect lemmas for the primitives of Cache/CacheOps.v:
   what each of them does to the shard maps ([smap]), to the sequence of
   notifications sent ([sent]) and to the scalar fields.  Everything else
   (C11, C12, C13, C16) is derived from these. *)
From Fibre Require Import Common.Base Cache.PolicySpec Cache.AMap Cache.CacheOps Cache.CacheSpec Proofs.AMapProofs.

Section Core.
  Variable P : policy.
  Variable c : cfg.

  Notation state := (state P).
  Notation shard := (shard P).

  Notation smap := (smap P).
  Notation sent := (sent P).

  Lemma find_smap s k : find P c s k = afind k (smap s (shard_of c k)).
  Proof. reflexivity. Qed.

  (** ** take_n, nseq *)
  Lemma take_n_app {A} n (l : list A) : fst (take_n n l) ++ snd (take_n n l) = l.
  Proof.
    revert n. induction l as [|x t IH]; intros n; cbn [take_n]; [reflexivity|].
    destruct (N.eqb n 0); [reflexivity|].
    specialize (IH (n - 1)). destruct (take_n (n - 1) t) as [a b]. cbn [fst snd app] in *. f_equal. exact IH.
  Qed.

  Lemma take_n_incl {A} n (l : list A) x : In x (fst (take_n n l)) -> In x l.
  Proof. intros H. rewrite <- (take_n_app n l). apply in_or_app. left. exact H. Qed.

  Lemma nseq_aux_In f i x : In x (nseq_aux f i) <-> i <= x < i + N.of_nat f.
  Proof.
    revert i. induction f as [|f IH]; intros i; cbn [nseq_aux In].
    - lia.
    - rewrite IH. lia.
  Qed.

  Lemma nseq_In n x : In x (nseq n) <-> x < n.
  Proof. unfold nseq. rewrite nseq_aux_In. lia. Qed.

  Lemma nseq_aux_NoDup f i : NoDup (nseq_aux f i).
  Proof.
    revert i. induction f as [|f IH]; intros i; cbn [nseq_aux]; constructor; [|apply IH].
    rewrite nseq_aux_In. lia.
  Qed.

  Lemma nseq_NoDup n : NoDup (nseq n).
  Proof. apply nseq_aux_NoDup. Qed.

  Lemma shard_of_lt k : 0 < c_shards c -> shard_of c k < c_shards c.
  Proof. intros H. unfold shard_of. apply N.mod_lt. lia. Qed.

  (** ** scalar/shard effects of the elementary setters *)
  Lemma smap_set_sh s i x j : smap (set_sh P s i x) j = if N.eqb j i then s_map P x else smap s j.
  Proof. unfold smap, set_sh. cbn [st_sh]. destruct (N.eqb j i); reflexivity. Qed.

  Lemma st_sh_notify s n : st_sh P (notify P c s n) = st_sh P s.
  Proof. unfold notify. destruct (c_listener c); [|reflexivity]. destruct (N.ltb _ _); reflexivity. Qed.

  Lemma smap_notify s n j : smap (notify P c s n) j = smap s j.
  Proof. unfold smap. rewrite st_sh_notify. reflexivity. Qed.

  Lemma st_cc_notify s n : st_cc P (notify P c s n) = st_cc P s.
  Proof. unfold notify. destruct (c_listener c); [|reflexivity]. destruct (N.ltb _ _); reflexivity. Qed.

  Lemma st_now_notify s n : st_now P (notify P c s n) = st_now P s.
  Proof. unfold notify. destruct (c_listener c); [|reflexivity]. destruct (N.ltb _ _); reflexivity. Qed.

  Lemma st_eid_notify s n : st_eid P (notify P c s n) = st_eid P s.
  Proof. unfold notify. destruct (c_listener c); [|reflexivity]. destruct (N.ltb _ _); reflexivity. Qed.

  (* what notify does to [sent]: appends n, or drops it (counted) *)
  Lemma sent_notify s n :
    (sent (notify P c s n) = sent s ++ [n] /\ st_ndrops P (notify P c s n) = st_ndrops P s /\ c_listener c = true)
    \/ (sent (notify P c s n) = sent s
        /\ (c_listener c = false /\ st_ndrops P (notify P c s n) = st_ndrops P s
            \/ c_listener c = true /\ st_ndrops P (notify P c s n) = st_ndrops P s + 1)).
  Proof.
    unfold notify, sent. destruct (c_listener c).
    - destruct (N.ltb _ _); cbn [st_log st_nq st_ndrops].
      + left. rewrite app_assoc. auto.
      + right. auto.
    - right. auto.
  Qed.

  Lemma smap_ev_push s i k x j : smap (ev_push P s i k x) j = smap s j.
  Proof.
    unfold ev_push. destruct (N.ltb _ _); [|reflexivity].
    rewrite smap_set_sh. destruct (N.eqb_spec j i) as [->|]; reflexivity.
  Qed.

  Lemma smap_schedule s i k d j : smap (fst (schedule P c s i k d)) j = smap s j.
  Proof.
    unfold schedule. cbn [fst]. unfold smap at 1. cbn [st_sh].
    change (s_map P (st_sh P (set_sh P s i (sh_timers P (st_sh P s i) _)) j)) with
        (smap (set_sh P s i (sh_timers P (st_sh P s i)
           (mkT (st_tid P s) k ((s_tick P (st_sh P s i) + ticks_of c d) mod c_wheel c) (ticks_of c d / c_wheel c)
            :: s_timers P (st_sh P s i)))) j).
    rewrite smap_set_sh. destruct (N.eqb_spec j i) as [->|]; reflexivity.
  Qed.

  (** ** subseq *)
  Lemma subseq_refl {A} (l : list A) : subseq l l.
  Proof. induction l; constructor; assumption. Qed.

  Lemma subseq_nil_l {A} (l : list A) : subseq [] l.
  Proof. induction l; constructor; assumption. Qed.

  Lemma subseq_app {A} (a1 a2 b1 b2 : list A) : subseq a1 b1 -> subseq a2 b2 -> subseq (a1 ++ a2) (b1 ++ b2).
  Proof.
    intros H1 H2. induction H1 as [|x l1 l2 _ IH|x l1 l2 _ IH]; cbn [app].
    - exact H2.
    - apply ss_skip. exact IH.
    - apply ss_keep. exact IH.
  Qed.

  Lemma subseq_incl {A} (a b : list A) : subseq a b -> incl a b.
  Proof.
    induction 1 as [|x l1 l2 _ IH|x l1 l2 _ IH]; intros y Hy.
    - exact Hy.
    - right. apply IH. exact Hy.
    - destruct Hy as [->|Hy]; [left; reflexivity | right; apply IH; exact Hy].
  Qed.

  Lemma subseq_map {A B} (f : A -> B) (a b : list A) : subseq a b -> subseq (map f a) (map f b).
  Proof. induction 1; cbn [map]; constructor; assumption. Qed.

  Lemma subseq_NoDup {A} (a b : list A) : subseq a b -> NoDup b -> NoDup a.
  Proof.
    induction 1 as [|x l1 l2 Hs IH|x l1 l2 Hs IH]; intros Hnd.
    - constructor.
    - inversion Hnd; subst. apply IH. assumption.
    - inversion Hnd as [|? ? Hni Hnd']; subst. constructor; [|apply IH; exact Hnd'].
      intros Hi. apply Hni. eapply subseq_incl; eauto.
  Qed.

  Lemma subseq_length_eq {A} (a b : list A) : subseq a b -> length a = length b -> a = b.
  Proof.
    induction 1 as [|x l1 l2 Hs IH|x l1 l2 Hs IH]; intros Hl.
    - reflexivity.
    - exfalso. assert (length l1 <= length l2)%nat.
      { clear -Hs. induction Hs; cbn [length]; lia. }
      cbn [length] in Hl. lia.
    - f_equal. apply IH. cbn [length] in Hl. lia.
  Qed.

  (** ** emits: the notifications attempted between two states *)
  Definition emits (s s' : state) (l : list notif) : Prop :=
    st_ndrops P s <= st_ndrops P s' /\
    exists kept, sent s' = sent s ++ kept /\ subseq kept l
                 /\ (c_listener c = true -> st_ndrops P s' = st_ndrops P s -> kept = l)
                 /\ (c_listener c = false -> kept = []).

  Lemma emits_same s s' : sent s' = sent s -> st_ndrops P s' = st_ndrops P s -> emits s s' [].
  Proof.
    intros H1 H2. split; [lia|]. exists []. rewrite app_nil_r. repeat split; auto. constructor.
  Qed.

  Lemma emits_trans s1 s2 s3 l1 l2 : emits s1 s2 l1 -> emits s2 s3 l2 -> emits s1 s3 (l1 ++ l2).
  Proof.
    intros [Hd1 [k1 [E1 [S1 [C1 N1]]]]] [Hd2 [k2 [E2 [S2 [C2 N2]]]]].
    split; [lia|]. exists (k1 ++ k2). repeat split.
    - rewrite E2, E1, app_assoc. reflexivity.
    - apply subseq_app; assumption.
    - intros Hl Hn. rewrite C1, C2; auto; lia.
    - intros Hl. rewrite N1, N2; auto.
  Qed.

  Lemma emits_notify s n : emits s (notify P c s n) [n].
  Proof.
    destruct (sent_notify s n) as [[E [D L]]|[E [[L D]|[L D]]]]; (split; [lia|]).
    - exists [n]. split; [exact E|]. split; [apply subseq_refl|]. split; [auto|]. intros Hl. congruence.
    - exists []. rewrite app_nil_r. split; [exact E|]. split; [apply subseq_nil_l|]. split; [|auto].
      intros Hl. congruence.
    - exists []. rewrite app_nil_r. split; [exact E|]. split; [apply subseq_nil_l|]. split.
      + intros _ Hx. lia.
      + intros Hl. congruence.
  Qed.

  (** ** deleting several keys, map cost *)
  Definition adel_all (ks : list N) (m : amap entry) : amap entry := fold_left (fun m k => adel k m) ks m.

  Lemma afind_adel_all k ks m : afind k (adel_all ks m) = if mem k ks then None else afind k m.
  Proof.
    unfold adel_all. revert m. induction ks as [|k' t IH]; intros m; cbn [fold_left mem existsb]; [reflexivity|].
    rewrite IH. fold (mem k t). destruct (mem k t) eqn:Em; [rewrite orb_true_r; reflexivity|].
    rewrite orb_false_r. destruct (N.eqb_spec k k') as [->|Hn].
    - apply afind_adel_same.
    - apply afind_adel_other. exact Hn.
  Qed.

  Lemma adel_all_NoDup ks m : NoDup (akeys m) -> NoDup (akeys (adel_all ks m)).
  Proof.
    unfold adel_all. revert m. induction ks as [|k t IH]; intros m H; cbn [fold_left]; [exact H|].
    apply IH. apply adel_NoDup. exact H.
  Qed.

  Lemma map_cost_adel k e m :
    NoDup (akeys m) -> afind k m = Some e -> map_cost (adel k m) = (map_cost m - Z.of_N (e_cost e))%Z.
  Proof.
    induction m as [|[k' e'] t IH]; cbn [afind adel map_cost fold_right akeys map fst snd]; intros Hnd Hf; [discriminate|].
    inversion Hnd as [|? ? Hni Hnd']; subst.
    destruct (N.eqb_spec k k') as [->|Hn].
    - inversion Hf; subst. rewrite adel_id by (apply afind_None_keys; exact Hni).
      change (fold_right _ 0%Z t) with (map_cost t). lia.
    - cbn [map_cost fold_right snd]. change (fold_right _ 0%Z (adel k t)) with (map_cost (adel k t)).
      change (fold_right _ 0%Z t) with (map_cost t). rewrite IH by assumption. lia.
  Qed.

  Lemma map_cost_adel_absent k m : afind k m = None -> map_cost (adel k m) = map_cost m.
  Proof. intros H. rewrite adel_id by exact H. reflexivity. Qed.

  Lemma map_cost_aset k e e' m :
    NoDup (akeys m) -> afind k m = Some e ->
    map_cost (aset k e' m) = (map_cost m - Z.of_N (e_cost e) + Z.of_N (e_cost e'))%Z.
  Proof.
    induction m as [|[k' e2] t IH]; cbn [afind aset map_cost fold_right akeys map fst snd]; intros Hnd Hf; [discriminate|].
    inversion Hnd as [|? ? Hni Hnd']; subst.
    destruct (N.eqb_spec k k') as [->|Hn].
    - inversion Hf; subst. cbn [map_cost fold_right snd].
      assert (Hid : aset k' e' t = t).
      { clear -Hni. induction t as [|[k2 e2] t IH]; cbn [aset]; [reflexivity|].
        destruct (N.eqb_spec k' k2) as [->|Hn]; [exfalso; apply Hni; left; reflexivity|].
        f_equal. apply IH. intros Hi. apply Hni. right. exact Hi. }
      rewrite Hid. change (fold_right _ 0%Z t) with (map_cost t). lia.
    - cbn [map_cost fold_right snd]. change (fold_right _ 0%Z (aset k e' t)) with (map_cost (aset k e' t)).
      change (fold_right _ 0%Z t) with (map_cost t). rewrite IH by assumption. lia.
  Qed.

  Lemma map_cost_aput k e' m :
    NoDup (akeys m) ->
    map_cost (aput k e' m)
    = (map_cost m - match afind k m with Some e => Z.of_N (e_cost e) | None => 0 end + Z.of_N (e_cost e'))%Z.
  Proof.
    intros Hnd. unfold aput, ahas. destruct (afind k m) as [e|] eqn:E.
    - apply map_cost_aset; assumption.
    - cbn [map_cost fold_right snd]. change (fold_right _ 0%Z m) with (map_cost m). lia.
  Qed.

  (** ** single-shard effects *)
  (* s' differs from s by: shard i's map is m', current_cost moved by dcc,
     the notifications l were attempted; clock and incarnation counter unchanged *)
  Definition eff (s s' : state) (i : N) (m' : amap entry) (dcc : Z) (l : list notif) : Prop :=
    (forall j, smap s' j = if N.eqb j i then m' else smap s j)
    /\ st_cc P s' = (st_cc P s + dcc)%Z
    /\ st_now P s' = st_now P s
    /\ st_eid P s' = st_eid P s
    /\ emits s s' l.

  Ltac eff_split := unfold eff; split; [|split; [|split; [|split]]].

  Lemma eff_trans s s1 s2 i m1 m2 d1 d2 l1 l2 :
    eff s s1 i m1 d1 l1 -> eff s1 s2 i m2 d2 l2 -> eff s s2 i m2 (d1 + d2) (l1 ++ l2).
  Proof.
    intros [M1 [C1 [N1 [E1 X1]]]] [M2 [C2 [N2 [E2 X2]]]]. eff_split.
    - intros j. rewrite M2, M1. destruct (N.eqb j i); reflexivity.
    - rewrite C2, C1. lia.
    - congruence.
    - congruence.
    - eapply emits_trans; eassumption.
  Qed.

  Lemma eff_same_map s s' i :
    (forall j, smap s' j = smap s j) -> st_cc P s' = st_cc P s -> st_now P s' = st_now P s ->
    st_eid P s' = st_eid P s -> sent s' = sent s -> st_ndrops P s' = st_ndrops P s ->
    eff s s' i (smap s i) 0 [].
  Proof.
    intros M C N E S D. eff_split; auto.
    - intros j. rewrite M. destruct (N.eqb_spec j i) as [->|]; reflexivity.
    - lia.
    - apply emits_same; assumption.
  Qed.

  Lemma perform_eff i lim ord s : eff s (perform P c i lim ord s) i (smap s i) 0 [].
  Proof.
    apply eff_same_map; unfold perform; destruct (take_n lim (s_evq P (st_sh P s i))) as [w r]; try reflexivity.
    intros j. rewrite smap_set_sh. destruct (N.eqb_spec j i) as [->|]; reflexivity.
  Qed.

  Definition note (rsn : reason) (ke : N * entry) : notif :=
    mkNt (fst ke) (e_val (snd ke)) rsn (e_id (snd ke)).

  Lemma drop_entry_eff rsn cancel i s ke :
    eff s (drop_entry P c rsn cancel i s ke) i (adel (fst ke) (smap s i))
        (- Z.of_N (e_cost (snd ke))) [note rsn ke].
  Proof.
    destruct ke as [k e]. unfold drop_entry, note. cbn [fst snd].
    set (sh' := mkSh P _ _ _ _ _ _).
    set (s1 := add_cc P (set_sh P s i sh') _).
    assert (H1 : eff s s1 i (adel k (smap s i)) (- Z.of_N (e_cost e)) []).
    { eff_split; try reflexivity.
      - intros j. unfold s1, add_cc, set_cc, smap. cbn [st_sh set_sh]. destruct (N.eqb j i); reflexivity.
      - apply emits_same; reflexivity. }
    replace (- Z.of_N (e_cost e))%Z with (- Z.of_N (e_cost e) + 0)%Z by lia.
    change [mkNt k (e_val e) rsn (e_id e)] with ([] ++ [mkNt k (e_val e) rsn (e_id e)]).
    eapply eff_trans; [exact H1|].
    eff_split.
    - intros j. rewrite smap_notify. destruct H1 as [M _]. rewrite M. destruct (N.eqb j i); reflexivity.
    - rewrite st_cc_notify. lia.
    - apply st_now_notify.
    - apply st_eid_notify.
    - apply emits_notify.
  Qed.

  Lemma drop_all_eff rsn cancel i vs : forall s,
    eff s (fold_left (drop_entry P c rsn cancel i) vs s) i (adel_all (map fst vs) (smap s i))
        (- fold_right (fun ke z => Z.of_N (e_cost (snd ke)) + z) 0 vs)%Z (map (note rsn) vs).
  Proof.
    induction vs as [|ke t IH]; intros s; cbn [fold_left map fold_right].
    - replace (- 0)%Z with 0%Z by lia. apply eff_same_map; reflexivity.
    - pose proof (drop_entry_eff rsn cancel i s ke) as H1.
      specialize (IH (drop_entry P c rsn cancel i s ke)).
      assert (Hm : smap (drop_entry P c rsn cancel i s ke) i = adel (fst ke) (smap s i)).
      { destruct H1 as [M _]. rewrite M, N.eqb_refl. reflexivity. }
      rewrite Hm in IH.
      replace (- (Z.of_N (e_cost (snd ke)) + fold_right (fun ke z => Z.of_N (e_cost (snd ke)) + z) 0 t))%Z
        with (- Z.of_N (e_cost (snd ke)) + - fold_right (fun ke z => Z.of_N (e_cost (snd ke)) + z) 0 t)%Z by lia.
      change (note rsn ke :: map (note rsn) t) with ([note rsn ke] ++ map (note rsn) t).
      eapply eff_trans; [exact H1 | exact IH].
  Qed.

  Definition cost_sum (vs : list (N * entry)) : Z :=
    fold_right (fun ke z => Z.of_N (e_cost (snd ke)) + z)%Z 0%Z vs.

  Lemma filter_false {A} (l : list A) : [] = filter (fun _ => false) l.
  Proof. induction l; cbn [filter]; auto. Qed.

  (** ** expiry cleanup *)
  Lemma cleanup_ttl_eff i s :
    exists vs f,
      vs = filter f (smap s i)
      /\ (forall ke, In ke vs -> fix_f16 (c_fix c) = true -> expired c (st_now P s) (snd ke) = true)
      /\ eff s (cleanup_ttl P c i s) i (adel_all (map fst vs) (smap s i)) (- cost_sum vs) (map (note Expired) vs).
  Proof.
    unfold cleanup_ttl. destruct (has_wheel c).
    2:{ exists [], (fun _ => false). split; [|split].
        - apply filter_false.
        - intros ke [].
        - cbn [map cost_sum fold_right adel_all fold_left]. replace (- 0)%Z with 0%Z by lia.
          apply eff_same_map; reflexivity. }
    destruct (wheel_advance P c (st_sh P s i)) as [fired sh1] eqn:Ew.
    assert (Hm1 : s_map P sh1 = smap s i).
    { unfold wheel_advance in Ew. inversion Ew. reflexivity. }
    set (s1 := set_sh P s i sh1).
    assert (H1 : eff s s1 i (smap s i) 0 []).
    { apply eff_same_map; try reflexivity. intros j. unfold s1. rewrite smap_set_sh.
      destruct (N.eqb_spec j i) as [->|]; [exact Hm1 | reflexivity]. }
    destruct fired as [|f0 fr].
    - exists [], (fun _ => false). split; [|split].
      + apply filter_false.
      + intros ke [].
      + cbn [map cost_sum fold_right adel_all fold_left]. replace (- 0)%Z with 0%Z by lia. exact H1.
    - set (f := fun ke : N * entry => mem (fst ke) (f0 :: fr)
                   && (negb (fix_f16 (c_fix c)) || expired c (st_now P s) (snd ke))).
      exists (filter f (smap s i)), f. split; [reflexivity|]. split.
      + intros ke Hin Hfix. apply filter_In in Hin. destruct Hin as [_ Hf]. unfold f in Hf.
        rewrite Hfix in Hf. cbn [negb orb] in Hf. apply andb_true_iff in Hf. tauto.
      + rewrite Hm1.
        pose proof (drop_all_eff Expired false i (filter f (smap s i)) s1) as H2.
        assert (Hs1 : smap s1 i = smap s i).
        { destruct H1 as [M _]. rewrite M, N.eqb_refl. reflexivity. }
        rewrite Hs1 in H2.
        replace (- cost_sum (filter f (smap s i)))%Z with (0 + - cost_sum (filter f (smap s i)))%Z by lia.
        change (map (note Expired) (filter f (smap s i))) with ([] ++ map (note Expired) (filter f (smap s i))).
        eapply eff_trans; [exact H1 | exact H2].
  Qed.

  Lemma cleanup_tti_eff i s :
    exists vs,
      (forall ke, In ke vs -> In ke (smap s i) /\ expired c (st_now P s) (snd ke) = true)
      /\ (exists f, vs = filter f (fst (take_n SAMPLE (smap s i))))
      /\ eff s (cleanup_tti P c i s) i (adel_all (map fst vs) (smap s i)) (- cost_sum vs) (map (note Expired) vs).
  Proof.
    unfold cleanup_tti. destruct (c_tti c) as [d|].
    2:{ exists []. split; [intros ke []|]. split; [exists (fun _ => false); apply filter_false|].
        cbn [map cost_sum fold_right adel_all fold_left]. replace (- 0)%Z with 0%Z by lia.
        apply eff_same_map; reflexivity. }
    set (f := fun ke : N * entry => expired c (st_now P s) (snd ke)).
    exists (filter f (fst (take_n SAMPLE (smap s i)))). split; [|split].
    - intros ke Hin. apply filter_In in Hin. destruct Hin as [Hi Hf]. split; [|exact Hf].
      eapply take_n_incl. exact Hi.
    - exists f. reflexivity.
    - apply drop_all_eff.
  Qed.

  (** ** capacity cleanup *)
  Lemma evict_victims_eff i vs : forall s f0 s2 f2,
    fold_left (evict_victim P c i) vs (s, f0) = (s2, f2) ->
    exists removed,
      NoDup (map fst removed)
      /\ (forall k e, In (k, e) removed -> afind k (smap s i) = Some e /\ In k vs)
      /\ (forall k, In k vs -> afind k (adel_all (map fst removed) (smap s i)) = None)
      /\ f2 = f0 + Z.to_N (cost_sum removed)
      /\ eff s s2 i (adel_all (map fst removed) (smap s i)) 0 (map (note Capacity) removed).
  Proof.
    induction vs as [|k t IH]; intros s f0 s2 f2 H; cbn [fold_left] in H.
    - inversion H; subst. exists []. split; [constructor|]. split; [intros ? ? []|]. split; [intros ? []|].
      split; [cbn [cost_sum fold_right]; rewrite N.add_0_r; reflexivity|].
      cbn [map adel_all fold_left]. apply eff_same_map; reflexivity.
    - unfold evict_victim at 2 in H. fold (smap s i) in H.
      change (s_map P (st_sh P s i)) with (smap s i) in H.
      destruct (afind k (smap s i)) as [e|] eqn:Ef.
      + set (s1 := notify P c _ _) in H.
        assert (H1 : eff s s1 i (adel k (smap s i)) 0 [note Capacity (k, e)]).
        { unfold s1. eff_split.
          - intros j. rewrite smap_notify, smap_set_sh. destruct (N.eqb j i); reflexivity.
          - rewrite st_cc_notify. cbn [st_cc set_sh]. lia.
          - rewrite st_now_notify. reflexivity.
          - rewrite st_eid_notify. reflexivity.
          - replace [note Capacity (k, e)] with ([] ++ [note Capacity (k, e)]) by reflexivity.
            eapply emits_trans; [|apply emits_notify]. apply emits_same; reflexivity. }
        assert (Hm1 : smap s1 i = adel k (smap s i)).
        { destruct H1 as [M _]. rewrite M, N.eqb_refl. reflexivity. }
        destruct (IH s1 (f0 + e_cost e) s2 f2 H) as [rem [Hnd [Hin [Hgone [Hf Heff]]]]].
        rewrite Hm1 in Hin, Hgone, Heff.
        exists ((k, e) :: rem). split; [|split; [|split; [|split]]].
        * cbn [map fst]. constructor; [|exact Hnd]. intros Hi. apply in_map_iff in Hi.
          destruct Hi as [[k' e'] [Hk Hi]]. cbn [fst] in Hk. subst k'.
          apply Hin in Hi. destruct Hi as [Hi _]. rewrite afind_adel_same in Hi. discriminate.
        * intros k' e' [He|Hi].
          -- inversion He; subst. split; [exact Ef | left; reflexivity].
          -- apply Hin in Hi. destruct Hi as [Hi Hv]. apply afind_adel_Some in Hi. split; [tauto | right; exact Hv].
        * intros k' [->|Hv]; cbn [map fst adel_all fold_left].
          -- change (fold_left (fun m k => adel k m) (map fst rem) (adel k' (smap s i)))
               with (adel_all (map fst rem) (adel k' (smap s i))).
             rewrite afind_adel_all. destruct (mem k' (map fst rem)); [reflexivity | apply afind_adel_same].
          -- apply Hgone. exact Hv.
        * rewrite Hf. cbn [cost_sum fold_right snd]. fold (cost_sum rem).
          assert (0 <= cost_sum rem)%Z.
          { clear. induction rem as [|x r IHr]; cbn [cost_sum fold_right]; [lia|]. fold (cost_sum r). lia. }
          lia.
        * cbn [map fst]. change (adel_all (k :: map fst rem) (smap s i)) with (adel_all (map fst rem) (adel k (smap s i))).
          change (note Capacity (k, e) :: map (note Capacity) rem) with ([note Capacity (k, e)] ++ map (note Capacity) rem).
          replace 0%Z with (0 + 0)%Z by lia. eapply eff_trans; [exact H1 | exact Heff].
      + destruct (IH s f0 s2 f2 H) as [rem [Hnd [Hin [Hgone [Hf Heff]]]]].
        exists rem. split; [exact Hnd|]. split; [|split; [|split; [exact Hf | exact Heff]]].
        * intros k' e' Hi. apply Hin in Hi. split; [tauto | right; tauto].
        * intros k' [->|Hv]; [|apply Hgone; exact Hv].
          rewrite afind_adel_all. destruct (mem k' (map fst rem)); [reflexivity | exact Ef].
  Qed.

  (** ** removal steps: the common shape of maintenance and of remove() *)
  Record drop := mkDrop { d_sh : N; d_rsn : reason; d_key : N; d_ent : entry }.
  Definition dnote (d : drop) : notif := mkNt (d_key d) (e_val (d_ent d)) (d_rsn d) (e_id (d_ent d)).
  Definition dkeys (j : N) (D : list drop) : list N := map d_key (filter (fun d => N.eqb (d_sh d) j) D).
  Definition dcost (D : list drop) : Z := fold_right (fun d z => Z.of_N (e_cost (d_ent d)) + z)%Z 0%Z D.

  (* s' is s with exactly the entries D removed (each was resident in s), the
     notifications of D attempted in that order, current_cost moved by dcc *)
  Definition mstep (s s' : state) (D : list drop) (dcc : Z) : Prop :=
    (forall j, smap s' j = adel_all (dkeys j D) (smap s j))
    /\ st_cc P s' = (st_cc P s + dcc)%Z
    /\ st_now P s' = st_now P s
    /\ st_eid P s' = st_eid P s
    /\ emits s s' (map dnote D)
    /\ (forall j, NoDup (dkeys j D))
    /\ (forall d, In d D -> afind (d_key d) (smap s (d_sh d)) = Some (d_ent d)).

  Ltac mstep_split := unfold mstep; split; [|split; [|split; [|split; [|split; [|split]]]]].

  Lemma NoDup_app_intro {A} (a b : list A) :
    NoDup a -> NoDup b -> (forall x, In x a -> In x b -> False) -> NoDup (a ++ b).
  Proof.
    induction a as [|x t IH]; cbn [app]; intros Ha Hb Hd; [exact Hb|].
    inversion Ha as [|? ? Hni Ht]; subst. constructor.
    - intros Hi. apply in_app_or in Hi. destruct Hi as [Hi|Hi]; [contradiction|].
      apply (Hd x); [left; reflexivity | exact Hi].
    - apply IH; [exact Ht | exact Hb |]. intros y Hy. apply Hd. right. exact Hy.
  Qed.

  Lemma adel_all_app a b m : adel_all (a ++ b) m = adel_all b (adel_all a m).
  Proof. unfold adel_all. apply fold_left_app. Qed.

  Lemma dkeys_app j D1 D2 : dkeys j (D1 ++ D2) = dkeys j D1 ++ dkeys j D2.
  Proof. unfold dkeys. rewrite filter_app, map_app. reflexivity. Qed.

  Lemma In_dkeys j D k : In k (dkeys j D) <-> exists d, In d D /\ d_sh d = j /\ d_key d = k.
  Proof.
    unfold dkeys. rewrite in_map_iff. split.
    - intros [d [Hk Hi]]. apply filter_In in Hi. destruct Hi as [Hi Hs]. apply N.eqb_eq in Hs. eauto.
    - intros [d [Hi [Hs Hk]]]. exists d. split; [exact Hk|]. apply filter_In. split; [exact Hi|].
      apply N.eqb_eq. exact Hs.
  Qed.

  Lemma mstep_refl s s' :
    (forall j, smap s' j = smap s j) -> st_cc P s' = st_cc P s -> st_now P s' = st_now P s ->
    st_eid P s' = st_eid P s -> sent s' = sent s -> st_ndrops P s' = st_ndrops P s ->
    mstep s s' [] 0.
  Proof.
    intros M C N E S Dr. mstep_split; auto.
    - lia.
    - apply emits_same; assumption.
    - intros j. constructor.
    - intros d [].
  Qed.

  Lemma mstep_trans s s1 s2 D1 D2 d1 d2 :
    mstep s s1 D1 d1 -> mstep s1 s2 D2 d2 -> mstep s s2 (D1 ++ D2) (d1 + d2).
  Proof.
    intros [M1 [C1 [N1 [E1 [X1 [U1 F1]]]]]] [M2 [C2 [N2 [E2 [X2 [U2 F2]]]]]]. mstep_split.
    - intros j. rewrite M2, M1, dkeys_app, adel_all_app. reflexivity.
    - rewrite C2, C1. lia.
    - congruence.
    - congruence.
    - rewrite map_app. eapply emits_trans; eassumption.
    - intros j. rewrite dkeys_app. apply NoDup_app_intro; [apply U1 | apply U2 |].
      intros k H1 H2. apply In_dkeys in H2. destruct H2 as [d [Hd [Hs Hk]]].
      specialize (F2 d Hd). rewrite Hs, Hk, M1, afind_adel_all in F2.
      apply mem_In in H1. rewrite H1 in F2. discriminate.
    - intros d Hd. apply in_app_or in Hd. destruct Hd as [Hd|Hd]; [apply F1; exact Hd|].
      specialize (F2 d Hd). rewrite M1, afind_adel_all in F2.
      destruct (mem (d_key d) (dkeys (d_sh d) D1)); [discriminate | exact F2].
  Qed.

  (* what else is known of each dropped entry *)
  Definition dok (s : state) (d : drop) : Prop :=
    d_sh d < c_shards c /\
    match d_rsn d with
    | Expired => fix_f16 (c_fix c) = true -> expired c (st_now P s) (d_ent d) = true
    | Capacity => c_cap c < U64_MAX
    | Invalidated => True
    end.

  (* when capacity cleanup's accounting is exact: with the F-18 patch, or when it never runs *)
  Definition exact_cost : Prop := fix_f18 (c_fix c) = true \/ c_cap c = U64_MAX.

  Definition mstepx (s s' : state) (D : list drop) (dcc : Z) : Prop :=
    mstep s s' D dcc /\ Forall (dok s) D /\ (exact_cost -> dcc = (- dcost D)%Z).

  Lemma dcost_app a b : dcost (a ++ b) = (dcost a + dcost b)%Z.
  Proof.
    induction a as [|d t IH].
    - change (dcost []) with 0%Z. cbn [app]. lia.
    - change (dcost ((d :: t) ++ b)) with (Z.of_N (e_cost (d_ent d)) + dcost (t ++ b))%Z.
      change (dcost (d :: t)) with (Z.of_N (e_cost (d_ent d)) + dcost t)%Z. lia.
  Qed.

  Lemma mstepx_trans s s1 s2 D1 D2 d1 d2 :
    mstepx s s1 D1 d1 -> mstepx s1 s2 D2 d2 -> mstepx s s2 (D1 ++ D2) (d1 + d2).
  Proof.
    intros [M1 [O1 X1]] [M2 [O2 X2]]. split; [eapply mstep_trans; eassumption|]. split.
    - apply Forall_app. split; [exact O1|].
      assert (Hn : st_now P s1 = st_now P s) by (destruct M1 as [_ [_ [Hn _]]]; exact Hn).
      eapply Forall_impl; [|exact O2]. intros d [Hs Hd]. split; [exact Hs|]. rewrite <- Hn. exact Hd.
    - intros Hf. rewrite dcost_app, X1, X2 by exact Hf. lia.
  Qed.

  Lemma mstepx_refl s s' :
    (forall j, smap s' j = smap s j) -> st_cc P s' = st_cc P s -> st_now P s' = st_now P s ->
    st_eid P s' = st_eid P s -> sent s' = sent s -> st_ndrops P s' = st_ndrops P s ->
    mstepx s s' [] 0.
  Proof.
    intros. split; [apply mstep_refl; assumption|]. split; [constructor|]. intros _. reflexivity.
  Qed.

  (* a single-shard effect that deletes the listed resident entries is a removal step *)
  Definition drops_of (i : N) (rsn : reason) (vs : list (N * entry)) : list drop :=
    map (fun ke => mkDrop i rsn (fst ke) (snd ke)) vs.

  Lemma dkeys_drops_of i rsn vs j : dkeys j (drops_of i rsn vs) = if N.eqb i j then map fst vs else [].
  Proof.
    unfold dkeys, drops_of. induction vs as [|ke t IH]; cbn [map filter d_sh].
    - destruct (N.eqb i j); reflexivity.
    - destruct (N.eqb i j); cbn [map d_key]; [f_equal|]; exact IH.
  Qed.

  Lemma dcost_drops_of i rsn vs : dcost (drops_of i rsn vs) = cost_sum vs.
  Proof. induction vs as [|ke t IH]; cbn [drops_of map dcost cost_sum fold_right d_ent]; [reflexivity|]. f_equal. exact IH. Qed.

  Lemma eff_mstep s s' i rsn vs dcc :
    eff s s' i (adel_all (map fst vs) (smap s i)) dcc (map (note rsn) vs) ->
    NoDup (map fst vs) ->
    (forall ke, In ke vs -> afind (fst ke) (smap s i) = Some (snd ke)) ->
    mstep s s' (drops_of i rsn vs) dcc.
  Proof.
    intros [M [C [N [E X]]]] Hnd Hin. mstep_split; auto.
    - intros j. rewrite M, dkeys_drops_of. rewrite (N.eqb_sym i j).
      destruct (N.eqb_spec j i) as [->|]; reflexivity.
    - unfold drops_of. rewrite map_map. exact X.
    - intros j. rewrite dkeys_drops_of. destruct (N.eqb i j); [exact Hnd | constructor].
    - intros d Hd. unfold drops_of in Hd. apply in_map_iff in Hd. destruct Hd as [ke [<- Hi]].
      cbn [d_key d_sh d_ent]. apply Hin. exact Hi.
  Qed.

  (* sub-lists of a duplicate-free map *)
  Lemma filter_keys_NoDup (f : N * entry -> bool) (m : amap entry) :
    NoDup (akeys m) -> NoDup (map fst (filter f m)).
  Proof.
    induction m as [|[k e] t IH]; cbn [filter akeys map fst]; intros H; [constructor|].
    inversion H as [|? ? Hni Hnd]; subst. destruct (f (k, e)); [|apply IH; exact Hnd].
    cbn [map fst]. constructor; [|apply IH; exact Hnd].
    intros Hi. apply Hni. apply in_map_iff in Hi. destruct Hi as [[k' e'] [Hk Hi]]. cbn [fst] in Hk. subst k'.
    apply filter_In in Hi. destruct Hi as [Hi _]. unfold akeys. apply in_map_iff. exists (k, e'). auto.
  Qed.

  Lemma take_n_keys_NoDup n (m : amap entry) : NoDup (akeys m) -> NoDup (akeys (fst (take_n n m))).
  Proof.
    revert n. induction m as [|[k e] t IH]; intros n H; cbn [take_n]; [constructor|].
    destruct (N.eqb n 0); [constructor|].
    inversion H as [|? ? Hni Hnd]; subst. specialize (IH (n - 1) Hnd).
    pose proof (take_n_incl (n - 1) t) as Hinc.
    destruct (take_n (n - 1) t) as [a b]. cbn [fst] in *. cbn [akeys map fst]. constructor; [|exact IH].
    intros Hi. apply Hni. unfold akeys in *. apply in_map_iff in Hi. destruct Hi as [x [Hk Hi]].
    apply in_map_iff. exists x. split; [exact Hk | apply Hinc; exact Hi].
  Qed.

  Lemma Forall_drops_of (Q : drop -> Prop) i rsn vs :
    (forall ke, In ke vs -> Q (mkDrop i rsn (fst ke) (snd ke))) -> Forall Q (drops_of i rsn vs).
  Proof.
    intros H. apply Forall_forall. intros d Hd. unfold drops_of in Hd. apply in_map_iff in Hd.
    destruct Hd as [ke [<- Hi]]. apply H. exact Hi.
  Qed.

  Lemma cleanup_ttl_mstepx i s :
    NoDup (akeys (smap s i)) -> i < c_shards c ->
    exists D, mstepx s (cleanup_ttl P c i s) D (- dcost D)
              /\ Forall (fun d => d_sh d = i /\ d_rsn d = Expired) D.
  Proof.
    intros Hnd Hi. destruct (cleanup_ttl_eff i s) as [vs [f [Hvs [Hex Heff]]]].
    exists (drops_of i Expired vs). rewrite dcost_drops_of. split; [split; [|split]|].
    - apply eff_mstep; [exact Heff | subst vs; apply filter_keys_NoDup; exact Hnd |].
      intros [k e] Hin. cbn [fst snd]. subst vs. eapply afind_filter_Some; eassumption.
    - apply Forall_drops_of. intros ke Hin. split; [exact Hi|]. cbn [d_rsn d_ent]. intros Hf. apply Hex; assumption.
    - intros _. rewrite dcost_drops_of. reflexivity.
    - apply Forall_drops_of. intros ke _. cbn [d_sh d_rsn]. auto.
  Qed.

  Lemma cleanup_tti_mstepx i s :
    NoDup (akeys (smap s i)) -> i < c_shards c ->
    exists D, mstepx s (cleanup_tti P c i s) D (- dcost D)
              /\ Forall (fun d => d_sh d = i /\ d_rsn d = Expired /\ expired c (st_now P s) (d_ent d) = true) D.
  Proof.
    intros Hnd Hi. destruct (cleanup_tti_eff i s) as [vs [Hex [[f Hvs] Heff]]].
    exists (drops_of i Expired vs). rewrite dcost_drops_of. split; [split; [|split]|].
    - apply eff_mstep; [exact Heff | |].
      + subst vs. apply filter_keys_NoDup. apply take_n_keys_NoDup. exact Hnd.
      + intros [k e] Hin. cbn [fst snd]. apply In_afind; [exact Hnd|]. apply Hex. exact Hin.
    - apply Forall_drops_of. intros ke Hin. split; [exact Hi|]. cbn [d_rsn d_ent]. intros _. apply Hex. exact Hin.
    - intros _. rewrite dcost_drops_of. reflexivity.
    - apply Forall_drops_of. intros ke Hin. cbn [d_sh d_rsn d_ent]. split; [reflexivity|]. split; [reflexivity|].
      apply Hex. exact Hin.
  Qed.

  Lemma cc_obs_lt s : cc_obs P s < U64.
  Proof.
    unfold cc_obs. assert (0 <= st_cc P s mod Z.of_N U64 < Z.of_N U64)%Z by (apply Z.mod_pos_bound; reflexivity).
    lia.
  Qed.

  Lemma cleanup_cap_mstepx i s :
    i < c_shards c ->
    exists D dcc, mstepx s (cleanup_cap P c i s) D dcc
                  /\ Forall (fun d => d_sh d = i /\ d_rsn d = Capacity) D
                  /\ (cc_obs P s <= c_cap c -> cleanup_cap P c i s = s).
  Proof.
    intros Hi. unfold cleanup_cap. destruct (N.leb_spec (cc_obs P s) (c_cap c)) as [Hle|Hgt].
    { exists [], 0%Z. split; [apply mstepx_refl; reflexivity|]. split; [constructor | reflexivity]. }
    assert (Hcap : c_cap c < U64_MAX).
    { pose proof (cc_obs_lt s). unfold U64, U64_MAX in *. lia. }
    destruct (pstep P (s_pol P (st_sh P s i)) (Evict (cc_obs P s - c_cap c))) as [p' o].
    set (s1 := set_sh P s i (sh_pol P (st_sh P s i) p')).
    assert (H1 : mstepx s s1 [] 0).
    { apply mstepx_refl; try reflexivity. intros j. unfold s1. rewrite smap_set_sh.
      destruct (N.eqb_spec j i) as [->|]; reflexivity. }
    assert (Hdone : exists D dcc, mstepx s s1 D dcc /\ Forall (fun d => d_sh d = i /\ d_rsn d = Capacity) D).
    { exists [], 0%Z. split; [exact H1 | constructor]. }
    destruct o as [| | |vs0|vs rel];
      try (destruct Hdone as [D [dcc [Ha Hb]]]; exists D, dcc; split; [exact Ha|]; split; [exact Hb | intros; lia]).
    destruct vs as [|v0 vt];
      try (destruct Hdone as [D [dcc [Ha Hb]]]; exists D, dcc; split; [exact Ha|]; split; [exact Hb | intros; lia]).
    destruct (fold_left (evict_victim P c i) (v0 :: vt) (s1, 0)) as [s2 freed] eqn:Ef.
    destruct (evict_victims_eff i (v0 :: vt) s1 0 s2 freed Ef) as [rem [Hnd [Hin [_ [Hfr Heff]]]]].
    assert (Hm1 : smap s1 i = smap s i).
    { unfold s1. rewrite smap_set_sh, N.eqb_refl. reflexivity. }
    rewrite Hm1 in Hin, Heff.
    set (dcc := (- Z.of_N (if fix_f18 (c_fix c) then freed else rel))%Z).
    exists (drops_of i Capacity rem), dcc. split; [|split; [|intros; lia]].
    - assert (H2 : mstep s1 (add_cc P s2 dcc) (drops_of i Capacity rem) dcc).
      { assert (H2a : mstep s1 s2 (drops_of i Capacity rem) 0).
        { apply eff_mstep; [rewrite Hm1; exact Heff | exact Hnd |].
          intros [k e] Hk. cbn [fst snd]. rewrite Hm1. apply Hin. exact Hk. }
        destruct H2a as [M [C [N [E [X [U F]]]]]]. mstep_split; auto.
        cbn [add_cc set_cc st_cc]. rewrite C. lia. }
      replace dcc with (0 + dcc)%Z by lia. change (drops_of i Capacity rem) with ([] ++ drops_of i Capacity rem).
      eapply mstepx_trans; [exact H1|]. split; [exact H2|]. split.
      + apply Forall_drops_of. intros ke _. split; [exact Hi | exact Hcap].
      + intros [Hf|Hf]; [|unfold U64_MAX in *; lia]. unfold dcc. rewrite Hf, dcost_drops_of, Hfr.
        assert (0 <= cost_sum rem)%Z.
        { clear. induction rem as [|x r IHr]; cbn [cost_sum fold_right]; [lia|]. fold (cost_sum r). lia. }
        lia.
    - apply Forall_drops_of. intros ke _. cbn [d_sh d_rsn]. auto.
  Qed.

  (** ** well-formedness: no duplicate key in a shard map, keys live in their shard *)
  Definition placed (s : state) : Prop :=
    forall j k, In k (akeys (smap s j)) -> shard_of c k = j.
  Definition wfp (s : state) : Prop := wf P s /\ placed s.

  Lemma akeys_adel_all_subset ks m x : In x (akeys (adel_all ks m)) -> In x (akeys m).
  Proof.
    unfold adel_all. revert m. induction ks as [|k t IH]; intros m H; cbn [fold_left] in H; [exact H|].
    apply IH in H. apply akeys_adel_subset in H. tauto.
  Qed.

  Lemma mstep_wfp s s' D dcc : mstep s s' D dcc -> wfp s -> wfp s'.
  Proof.
    intros [M _] [Hw Hp]. split.
    - intros j. rewrite M. apply adel_all_NoDup. apply Hw.
    - intros j k Hk. rewrite M in Hk. apply akeys_adel_all_subset in Hk. apply Hp. exact Hk.
  Qed.

  Lemma perform_mstepx i lim ord s : mstepx s (perform P c i lim ord s) [] 0.
  Proof.
    destruct (perform_eff i lim ord s) as [M [C [N [E X]]]].
    split; [|split; [constructor | reflexivity]].
    mstep_split; auto.
    - intros j. rewrite M. cbn [dkeys filter map adel_all fold_left]. destruct (N.eqb_spec j i) as [->|]; reflexivity.
    - intros j. constructor.
    - intros d [].
  Qed.

  Definition not_inval (d : drop) : Prop := d_rsn d <> Invalidated.

  Lemma maint_tail_mstepx i s :
    wfp s -> i < c_shards c ->
    exists D dcc, mstepx s (cleanup_cap P c i (cleanup_tti P c i (cleanup_ttl P c i s))) D dcc
                  /\ Forall not_inval D.
  Proof.
    intros Hw Hi.
    destruct (cleanup_ttl_mstepx i s (proj1 Hw i) Hi) as [D1 [H1 R1]].
    assert (Hw1 : wfp (cleanup_ttl P c i s)) by (eapply mstep_wfp; [apply H1 | exact Hw]).
    destruct (cleanup_tti_mstepx i _ (proj1 Hw1 i) Hi) as [D2 [H2 R2]].
    destruct (cleanup_cap_mstepx i (cleanup_tti P c i (cleanup_ttl P c i s)) Hi) as [D3 [d3 [H3 [R3 _]]]].
    exists ((D1 ++ D2) ++ D3), ((- dcost D1 + - dcost D2) + d3)%Z. split.
    - eapply mstepx_trans; [eapply mstepx_trans; eassumption | exact H3].
    - apply Forall_app. split; [apply Forall_app; split|].
      + eapply Forall_impl; [|exact R1]. intros d [_ Hr]. unfold not_inval. congruence.
      + eapply Forall_impl; [|exact R2]. intros d [_ [Hr _]]. unfold not_inval. congruence.
      + eapply Forall_impl; [|exact R3]. intros d [_ Hr]. unfold not_inval. congruence.
  Qed.

  Lemma maint_shard_mstepx ord s i :
    wfp s -> i < c_shards c ->
    exists D dcc, mstepx s (maint_shard P c ord s i) D dcc /\ Forall not_inval D.
  Proof.
    intros Hw Hi. unfold maint_shard.
    pose proof (perform_mstepx i COOP_LIMIT ord s) as H0.
    assert (Hw0 : wfp (perform P c i COOP_LIMIT ord s)) by (eapply mstep_wfp; [apply H0 | exact Hw]).
    destruct (maint_tail_mstepx i _ Hw0 Hi) as [D [dcc [H1 R1]]].
    exists ([] ++ D), (0 + dcc)%Z. split; [eapply mstepx_trans; eassumption | exact R1].
  Qed.

  Lemma run_maintenance_mstepx_gen ord (l : list N) : forall s,
    wfp s -> (forall i, In i l -> i < c_shards c) ->
    exists D dcc, mstepx s (fold_left (maint_shard P c ord) l s) D dcc /\ Forall not_inval D.
  Proof.
    induction l as [|i t IH]; intros s Hw Hl; cbn [fold_left].
    - exists [], 0%Z. split; [apply mstepx_refl; reflexivity | constructor].
    - destruct (maint_shard_mstepx ord s i Hw (Hl i (or_introl eq_refl))) as [D1 [d1 [H1 R1]]].
      assert (Hw1 : wfp (maint_shard P c ord s i)) by (eapply mstep_wfp; [apply H1 | exact Hw]).
      destruct (IH _ Hw1 (fun j Hj => Hl j (or_intror Hj))) as [D2 [d2 [H2 R2]]].
      exists (D1 ++ D2), (d1 + d2)%Z. split; [eapply mstepx_trans; eassumption|].
      apply Forall_app. split; assumption.
  Qed.

  Lemma run_maintenance_mstepx ord s :
    wfp s -> exists D dcc, mstepx s (run_maintenance P c ord s) D dcc /\ Forall not_inval D.
  Proof.
    intros Hw. apply run_maintenance_mstepx_gen; [exact Hw|]. intros i Hi. apply nseq_In. exact Hi.
  Qed.

  Lemma janitor_tick_mstepx i ord s :
    wfp s -> exists D dcc, mstepx s (janitor_tick P c i ord s) D dcc /\ Forall not_inval D.
  Proof.
    intros Hw. unfold janitor_tick. destruct (N.ltb_spec i (c_shards c)) as [Hi|Hi].
    - pose proof (perform_mstepx i JAN_LIMIT ord s) as H0.
      assert (Hw0 : wfp (perform P c i JAN_LIMIT ord s)) by (eapply mstep_wfp; [apply H0 | exact Hw]).
      destruct (maint_tail_mstepx i _ Hw0 Hi) as [D [dcc [H1 R1]]].
      exists ([] ++ D), (0 + dcc)%Z. split; [eapply mstepx_trans; eassumption | exact R1].
    - exists [], 0%Z. split; [apply mstepx_refl; reflexivity | constructor].
  Qed.

  Lemma janitor_signal_mstepx i ord s :
    wfp s -> exists D dcc, mstepx s (janitor_signal P c i ord s) D dcc /\ Forall not_inval D.
  Proof.
    intros Hw. unfold janitor_signal. destruct (N.ltb_spec i (c_shards c)) as [Hi|Hi].
    - pose proof (perform_mstepx i JAN_LIMIT ord s) as H0.
      destruct (cleanup_cap_mstepx i (perform P c i JAN_LIMIT ord s) Hi) as [D3 [d3 [H3 [R3 _]]]].
      exists ([] ++ D3), (0 + d3)%Z. split; [eapply mstepx_trans; eassumption|].
      eapply Forall_impl; [|exact R3]. intros d [_ Hr]. unfold not_inval. congruence.
    - exists [], 0%Z. split; [apply mstepx_refl; reflexivity | constructor].
  Qed.

  (** ** field projections through the elementary setters *)
  Lemma smap_add_cc s z j : smap (add_cc P s z) j = smap s j. Proof. reflexivity. Qed.
  Lemma smap_set_cc s z j : smap (set_cc P s z) j = smap s j. Proof. reflexivity. Qed.
  Lemma smap_bump_eid s j : smap (bump_eid P s) j = smap s j. Proof. reflexivity. Qed.
  Lemma st_cc_add_cc s z : st_cc P (add_cc P s z) = (st_cc P s + z)%Z. Proof. reflexivity. Qed.
  Lemma st_cc_set_sh s i x : st_cc P (set_sh P s i x) = st_cc P s. Proof. reflexivity. Qed.
  Lemma st_cc_bump_eid s : st_cc P (bump_eid P s) = st_cc P s. Proof. reflexivity. Qed.
  Lemma st_cc_ev_push s i k x : st_cc P (ev_push P s i k x) = st_cc P s.
  Proof. unfold ev_push. destruct (N.ltb _ _); reflexivity. Qed.
  Lemma st_now_add_cc s z : st_now P (add_cc P s z) = st_now P s. Proof. reflexivity. Qed.
  Lemma st_now_set_sh s i x : st_now P (set_sh P s i x) = st_now P s. Proof. reflexivity. Qed.
  Lemma st_now_bump_eid s : st_now P (bump_eid P s) = st_now P s. Proof. reflexivity. Qed.
  Lemma st_now_ev_push s i k x : st_now P (ev_push P s i k x) = st_now P s.
  Proof. unfold ev_push. destruct (N.ltb _ _); reflexivity. Qed.
  Lemma st_eid_add_cc s z : st_eid P (add_cc P s z) = st_eid P s. Proof. reflexivity. Qed.
  Lemma st_eid_set_sh s i x : st_eid P (set_sh P s i x) = st_eid P s. Proof. reflexivity. Qed.
  Lemma st_eid_bump_eid s : st_eid P (bump_eid P s) = st_eid P s + 1. Proof. reflexivity. Qed.
  Lemma st_eid_ev_push s i k x : st_eid P (ev_push P s i k x) = st_eid P s.
  Proof. unfold ev_push. destruct (N.ltb _ _); reflexivity. Qed.
  Lemma sent_add_cc s z : sent (add_cc P s z) = sent s. Proof. reflexivity. Qed.
  Lemma sent_set_sh s i x : sent (set_sh P s i x) = sent s. Proof. reflexivity. Qed.
  Lemma sent_bump_eid s : sent (bump_eid P s) = sent s. Proof. reflexivity. Qed.
  Lemma sent_ev_push s i k x : sent (ev_push P s i k x) = sent s.
  Proof. unfold ev_push. destruct (N.ltb _ _); reflexivity. Qed.
  Lemma nd_add_cc s z : st_ndrops P (add_cc P s z) = st_ndrops P s. Proof. reflexivity. Qed.
  Lemma nd_set_sh s i x : st_ndrops P (set_sh P s i x) = st_ndrops P s. Proof. reflexivity. Qed.
  Lemma nd_bump_eid s : st_ndrops P (bump_eid P s) = st_ndrops P s. Proof. reflexivity. Qed.
  Lemma nd_ev_push s i k x : st_ndrops P (ev_push P s i k x) = st_ndrops P s.
  Proof. unfold ev_push. destruct (N.ltb _ _); reflexivity. Qed.

  Ltac csimp :=
    repeat (rewrite ?smap_add_cc, ?smap_set_cc, ?smap_bump_eid, ?smap_ev_push, ?smap_set_sh, ?smap_notify,
            ?st_cc_add_cc, ?st_cc_set_sh, ?st_cc_bump_eid, ?st_cc_ev_push, ?st_cc_notify,
            ?st_now_add_cc, ?st_now_set_sh, ?st_now_bump_eid, ?st_now_ev_push, ?st_now_notify,
            ?st_eid_add_cc, ?st_eid_set_sh, ?st_eid_bump_eid, ?st_eid_ev_push, ?st_eid_notify,
            ?sent_add_cc, ?sent_set_sh, ?sent_bump_eid, ?sent_ev_push,
            ?nd_add_cc, ?nd_set_sh, ?nd_bump_eid, ?nd_ev_push; cbn [s_map sh_map sh_timers sh_pol];
            repeat match goal with
                   | |- context [s_map P (st_sh P ?x ?j)] => change (s_map P (st_sh P x j)) with (smap x j)
                   end).

  (** ** writes and reads: single-shard effects that may allocate incarnations *)
  Definition ueff (s s' : state) (i : N) (m' : amap entry) (dcc : Z) (de : N) : Prop :=
    (forall j, smap s' j = if N.eqb j i then m' else smap s j)
    /\ st_cc P s' = (st_cc P s + dcc)%Z
    /\ st_now P s' = st_now P s
    /\ st_eid P s' = st_eid P s + de
    /\ sent s' = sent s /\ st_ndrops P s' = st_ndrops P s.

  Ltac ueff_split := unfold ueff; split; [|split; [|split; [|split; [|split]]]].

  Lemma ueff_id s i : ueff s s i (smap s i) 0 0.
  Proof.
    ueff_split; try reflexivity; try lia.
    intros j. destruct (N.eqb_spec j i) as [->|]; reflexivity.
  Qed.

  Lemma ueff_trans s s1 s2 i m1 m2 d1 d2 e1 e2 :
    ueff s s1 i m1 d1 e1 -> ueff s1 s2 i m2 d2 e2 -> ueff s s2 i m2 (d1 + d2) (e1 + e2).
  Proof.
    intros [M1 [C1 [N1 [E1 [S1 D1]]]]] [M2 [C2 [N2 [E2 [S2 D2]]]]]. ueff_split.
    - intros j. rewrite M2, M1. destruct (N.eqb j i); reflexivity.
    - rewrite C2, C1. lia.
    - congruence.
    - rewrite E2, E1. lia.
    - congruence.
    - congruence.
  Qed.

  Lemma perform_ueff i lim ord s j : ueff s (perform P c i lim ord s) j (smap s j) 0 0.
  Proof.
    destruct (perform_eff i lim ord s) as [M [C [N [E X]]]].
    unfold perform in *. destruct (take_n lim (s_evq P (st_sh P s i))) as [w r].
    ueff_split; try reflexivity; try lia.
    intros j'. rewrite M. destruct (N.eqb_spec j' i); destruct (N.eqb_spec j' j); subst; reflexivity.
  Qed.

  (* the shape shared by Cache::insert, insert_with_ttl, multi_insert items and VacantEntry::insert *)
  Lemma insert_core_ueff s k v cost exp sched :
    exists h,
      let i := shard_of c k in
      let e := mkE v cost exp (match c_tti c with Some _ => st_now P s | None => 0 end) h (st_eid P s) in
      ueff s (insert_core P c s k v cost exp sched) i (aput k e (smap s i))
           (Z.of_N cost - match afind k (smap s i) with Some o => Z.of_N (e_cost o) | None => 0 end) 1.
  Proof.
    unfold insert_core.
    set (i := shard_of c k).
    destruct (match sched with
              | Some d => if has_wheel c then let '(s', id) := schedule P c s i k d in (s', Some id) else (s, None)
              | None => (s, None)
              end) as [s1 h] eqn:Es.
    exists h. cbn zeta.
    assert (H1 : (forall j, smap s1 j = smap s j) /\ st_cc P s1 = st_cc P s /\ st_now P s1 = st_now P s
                 /\ st_eid P s1 = st_eid P s /\ sent s1 = sent s /\ st_ndrops P s1 = st_ndrops P s).
    { destruct sched as [d|]; [destruct (has_wheel c)|]; try (inversion Es; subst; repeat split; reflexivity).
      pose proof (smap_schedule s i k d) as Hs. unfold schedule in *. cbn [fst] in Hs.
      inversion Es; subst. repeat split; try reflexivity. exact Hs. }
    destruct H1 as [M1 [C1 [N1 [E1 [S1 D1]]]]].
    change (s_map P (st_sh P s1 i)) with (smap s1 i). rewrite M1.
    set (e := mkE v cost exp _ h (st_eid P s)).
    destruct (afind k (smap s i)) as [o|] eqn:Ef; ueff_split; csimp; try (rewrite ?C1, ?E1; first [reflexivity | lia | assumption]).
    - intros j. csimp. destruct (N.eqb_spec j i) as [->|]; csimp; rewrite ?N.eqb_refl, ?M1; reflexivity.
    - intros j. csimp. destruct (N.eqb_spec j i) as [->|]; csimp; rewrite ?N.eqb_refl, ?M1; reflexivity.
  Qed.

  Lemma vacant_insert_ueff s k v cost :
    let i := shard_of c k in
    let e := mkE v cost (ttl_exp c (st_now P s)) (match c_tti c with Some _ => st_now P s | None => 0 end)
                 None (st_eid P s) in
    ueff s (vacant_insert P c s k v cost) i (aput k e (smap s i))
         (Z.of_N cost - match afind k (smap s i) with Some o => Z.of_N (e_cost o) | None => 0 end) 1.
  Proof.
    cbn zeta. unfold vacant_insert. set (i := shard_of c k).
    change (s_map P (st_sh P s i)) with (smap s i).
    destruct (afind k (smap s i)) as [o|] eqn:Ef; ueff_split; csimp; try first [reflexivity | lia].
    - intros j. csimp. destruct (N.eqb_spec j i) as [->|]; csimp; rewrite ?N.eqb_refl; reflexivity.
    - intros j. csimp. destruct (N.eqb_spec j i) as [->|]; csimp; rewrite ?N.eqb_refl; reflexivity.
  Qed.

  Definition refreshed (s : state) (e : entry) : entry :=
    match c_tti c with
    | Some _ => mkE (e_val e) (e_cost e) (e_exp e) (st_now P s) (e_timer e) (e_id e)
    | None => e
    end.

  Lemma aset_same_id k (e : entry) m : afind k m = Some e -> NoDup (akeys m) -> aset k e m = m.
  Proof.
    induction m as [|[k' e'] t IH]; cbn [afind aset akeys map fst]; intros Hf Hnd; [reflexivity|].
    inversion Hnd as [|? ? Hni Hnd']; subst.
    destruct (N.eqb_spec k k') as [->|Hn].
    - inversion Hf; subst. f_equal.
      clear -Hni. induction t as [|[k2 e2] t IH]; cbn [aset]; [reflexivity|].
      destruct (N.eqb_spec k' k2) as [->|Hn]; [exfalso; apply Hni; left; reflexivity|].
      f_equal. apply IH. intros Hi. apply Hni. right. exact Hi.
    - f_equal. apply IH; assumption.
  Qed.

  Lemma on_hit_ueff s k e :
    let i := shard_of c k in
    ueff s (on_hit P c s k e) i
         (match c_tti c with Some _ => aset k (refreshed s e) (smap s i) | None => smap s i end) 0 0.
  Proof.
    cbn zeta. unfold on_hit, refreshed. set (i := shard_of c k).
    ueff_split; csimp; try first [reflexivity | lia].
    intros j. csimp. destruct (N.eqb_spec j i) as [->|]; [|reflexivity].
    destruct (c_tti c); reflexivity.
  Qed.

  Lemma on_hit_direct_ueff s k e :
    let i := shard_of c k in
    ueff s (on_hit_direct P c s k e) i
         (match c_tti c with Some _ => aset k (refreshed s e) (smap s i) | None => smap s i end) 0 0.
  Proof.
    cbn zeta. unfold on_hit_direct, refreshed. set (i := shard_of c k).
    ueff_split; csimp; try first [reflexivity | lia].
    intros j. csimp. destruct (N.eqb_spec j i) as [->|]; [|reflexivity].
    destruct (c_tti c); reflexivity.
  Qed.

  Lemma do_compute_ueff s k f :
    let i := shard_of c k in
    match computable P c s k with
    | Some e => ueff s (fst (do_compute P c s k f)) i
                     (aset k (mkE (capply f (e_val e)) (e_cost e) (e_exp e) (e_la e) (e_timer e) (e_id e)) (smap s i)) 0 0
                /\ snd (do_compute P c s k f) = Some (e_val e) /\ find P c s k = Some e
    | None => do_compute P c s k f = (s, None)
    end.
  Proof.
    cbn zeta. unfold do_compute. destruct (computable P c s k) as [e|] eqn:Ec; [|reflexivity].
    cbn [fst snd]. split; [|split; [reflexivity|]].
    - set (i := shard_of c k). ueff_split; csimp; try first [reflexivity | lia].
      intros j. csimp. destruct (N.eqb_spec j i) as [->|]; reflexivity.
    - unfold computable in Ec. destruct (find P c s k) as [e'|]; [|discriminate].
      destruct (fix_f33 (c_fix c) && expired c (st_now P s) e'); [discriminate | exact Ec].
  Qed.

  (** ** remove *)
  Lemma do_remove_mstepx s k :
    0 < c_shards c ->
    match find P c s k with
    | Some e => mstepx s (fst (do_remove P c s k)) [mkDrop (shard_of c k) Invalidated k e] (- Z.of_N (e_cost e))
                /\ snd (do_remove P c s k) = Some (e_val e)
    | None => do_remove P c s k = (s, None)
    end.
  Proof.
    intros Hn. unfold do_remove, find. set (i := shard_of c k).
    change (s_map P (st_sh P s i)) with (smap s i).
    destruct (afind k (smap s i)) as [e|] eqn:Ef; [|reflexivity].
    cbn [fst snd]. split; [|reflexivity].
    set (sh' := mkSh P _ _ _ _ _ _).
    set (s1 := add_cc P (set_sh P s i sh') _).
    assert (H1 : eff s s1 i (adel k (smap s i)) (- Z.of_N (e_cost e)) []).
    { unfold eff. split; [|split; [|split; [|split]]]; try reflexivity.
      - intros j. unfold s1. csimp. destruct (N.eqb j i); reflexivity.
      - apply emits_same; reflexivity. }
    assert (H2 : eff s (notify P c s1 (mkNt k (e_val e) Invalidated (e_id e))) i
                     (adel_all (map fst [(k, e)]) (smap s i)) (- Z.of_N (e_cost e))
                     (map (note Invalidated) [(k, e)])).
    { replace (- Z.of_N (e_cost e))%Z with (- Z.of_N (e_cost e) + 0)%Z by lia.
      change (map (note Invalidated) [(k, e)]) with ([] ++ [mkNt k (e_val e) Invalidated (e_id e)]).
      eapply eff_trans; [exact H1|].
      unfold eff. split; [|split; [|split; [|split]]].
      - intros j. rewrite smap_notify. destruct H1 as [M _]. rewrite M.
        cbn [map fst adel_all fold_left]. destruct (N.eqb j i); reflexivity.
      - rewrite st_cc_notify. lia.
      - apply st_now_notify.
      - apply st_eid_notify.
      - apply emits_notify. }
    split; [|split].
    - apply (eff_mstep s _ i Invalidated [(k, e)]); [exact H2 | |].
      + constructor; [intros [] | constructor].
      + intros ke [<-|[]]. exact Ef.
    - constructor; [|constructor]. split; [apply shard_of_lt; exact Hn | exact I].
    - intros _. cbn [dcost fold_right d_ent]. lia.
  Qed.
End Core.

Ltac eff_split := unfold eff; split; [|split; [|split; [|split]]].
Ltac mstep_split := unfold mstep; split; [|split; [|split; [|split; [|split; [|split]]]]].
Ltac ueff_split := unfold ueff; split; [|split; [|split; [|split; [|split]]]].
