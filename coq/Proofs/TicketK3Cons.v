(* Proofs/TicketK3Cons.v — SInv is preserved by every consumer step. *)
From Fibre Require Import Common.Base Common.Conc Chan.TicketK3 Proofs.TicketK3Base Proofs.TicketK3Frame
  Proofs.TicketK3Prod.
From Coq Require Import ZifyBool ZifyNat ZifyN Arith.

Lemma dataof_not_cursor tkf pcf sq tak hp hp' t :
  t <> hp -> dataof tkf pcf sq tak hp t = dataof tkf pcf sq false hp' t.
Proof.
  intros H. unfold dataof. destruct (tkf t); try reflexivity.
  destruct (N.eqb_spec t hp); [contradiction|]. rewrite Bool.andb_false_r. reflexivity.
Qed.

Section Cons.
Variables cap cc n kk : N.
Hypothesis Hcc : 0 < cc.
Hypothesis Hn : 0 < n.

(* the slot under the cursor, when the consumer has found its chunk resident *)
Lemma cursor_slot s :
  SInv cap cc n s -> ids s (ent n (hcid s)) = hcid s -> hidx s < cc ->
  sstate s (hslot cc n s) = code (tk s (hpos s)) /\
  sdata s (hslot cc n s) = dataof (tk s) (ppc s) (pseq s) (taken (cpc s)) (hpos s) (hpos s).
Proof.
  intros I Hr Hi.
  pose proof (E_slot _ _ _ _ I (ent n (hcid s)) (hidx s) (ent_lt cc n Hcc Hn _) Hi) as E. cbv zeta in E.
  rewrite Hr, <- (A_pos _ _ _ _ I) in E.
  destruct (N.ltb_spec (hpos s) (hpos s)) as [L|_]; [lia|]. exact E.
Qed.

(* any other table slot holds another ticket *)
Lemma other_slot s j i :
  SInv cap cc n s -> ids s (ent n (hcid s)) = hcid s -> hidx s < cc -> j < n -> i < cc ->
  j * cc + i <> hslot cc n s -> ids s j * cc + i <> hpos s.
Proof.
  intros I Hr Hi Hj Hi' Hk X. apply Hk. unfold hslot, slot_at.
  apply (same_ticket_same_key cap cc n Hcc s j i (ent n (hcid s)) (hidx s) I Hj Hi' (ent_lt cc n Hcc Hn _) Hi).
  rewrite Hr, <- (A_pos _ _ _ _ I). exact X.
Qed.

(* ------------------------------------------------------------ D2: consumer_retired.store(cid + 1) *)
Lemma SInv_retire s d :
  SInv cap cc n s -> cpc s = CD2 d ->
  SInv cap cc n (set_cpc (set_hidx (set_hcid (set_retired s (hcid s + 1)) (hcid s + 1)) 0) (CD1 d)).
Proof.
  intros I Epc. pose proof I as [A1 A2 A3 A4 A5 A6 B1 B2 B3 P D T E R C Bd].
  rewrite Epc in C. cbn [CInv] in C. destruct C as [C1 C2].
  constructor; st_goal; try assumption; try reflexivity.
  - nia.
  - lia.
  - intros th. specialize (P th).
    destruct (ppc s th); cbn [PInv] in *; try assumption. destruct P as [P1 P2]. split; [exact P1 | lia].
  - rewrite Epc in E. exact E.
Qed.

(* ------------------------------------------------------------ D4: the payload take *)
Lemma SInv_take s d :
  SInv cap cc n s -> cpc s = CD4 d ->
  exists v, sdata s (hslot cc n s) = Some v /\ tk s (hpos s) = TSet v /\
  SInv cap cc n (set_cpc (set_chand (set_received (set_sdata s (updN (sdata s) (hslot cc n s) None))
                                                  (received s ++ [v])) (chand s ++ [v])) (CD5 d true)).
Proof.
  intros I Epc. pose proof I as [A1 A2 A3 A4 A5 A6 B1 B2 B3 P D T E R C Bd].
  rewrite Epc in C. cbn [CInv] in C. destruct C as [C1 [C2 C3]].
  destruct (cursor_slot s I C1 C2) as [S1 S2]. fold (hslot cc n s) in C3. rewrite C3 in S1.
  destruct (tk s (hpos s)) as [| |v|] eqn:Etk; try discriminate S1.
  exists v. unfold dataof in S2. rewrite Etk, Epc in S2. cbn [taken andb] in S2.
  split; [exact S2|]. split; [reflexivity|].
  constructor; st_goal; try assumption.
  - intros j i Hj Hi. cbv zeta. specialize (E j i Hj Hi). cbv zeta in E. destruct E as [E1 E2].
    split; [exact E1|]. cbn [taken].
    destruct (N.eqb_spec (j * cc + i) (hslot cc n s)) as [Ek|Ek].
    + rewrite Ek, updN_eq.
      assert (Et : ids s j * cc + i = hpos s).
      { unfold hslot, slot_at in Ek. destruct (geo_key_inj cc Hcc _ _ _ _ Hi C2 Ek) as [-> ->]. rewrite C1. lia. }
      rewrite Et. destruct (N.ltb_spec (hpos s) (hpos s)) as [L|_]; [lia|].
      unfold dataof. rewrite Etk, N.eqb_refl. reflexivity.
    + rewrite updN_neq by exact Ek. rewrite E2.
      destruct (N.ltb_spec (ids s j * cc + i) (hpos s)) as [_|L]; [reflexivity|].
      pose proof (other_slot s j i I C1 C2 Hj Hi Ek) as Hne.
      rewrite Epc. cbn [taken].
      rewrite (dataof_not_cursor _ _ _ true (hpos s) (hpos s)) by assumption. reflexivity.
  - cbn [CInv]. repeat split; assumption.
Qed.

(* ------------------------------------------------------------ D5: state.store(EMPTY), cursor advance *)
Lemma SInv_advance s d b u p :
  SInv cap cc n s -> cpc s = CD5 d b -> taken p = false ->
  CInv cc n (ids s) (updN (sstate s) (hslot cc n s) sEMPTY) (hcid s) (hidx s + 1) p ->
  SInv cap cc n (set_cpc (set_unpub (set_hpos (set_hidx (set_sstate s (updN (sstate s) (hslot cc n s) sEMPTY))
                                                        (hidx s + 1)) (hpos s + 1)) u) p).
Proof.
  intros I Epc Htk Hp. pose proof I as [A1 A2 A3 A4 A5 A6 B1 B2 B3 P D T E R C Bd].
  rewrite Epc in C.
  assert (C' : ids s (ent n (hcid s)) = hcid s /\ hidx s < cc /\ sstate s (hslot cc n s) = (if b then sSET else sSKIP)).
  { destruct b; cbn [CInv] in C; exact C. }
  clear C. destruct C' as [C1 [C2 C3]].
  destruct (cursor_slot s I C1 C2) as [S1 S2]. rewrite C3 in S1.
  assert (Hw : code (tk s (hpos s)) <> sEMPTY) by (rewrite <- S1; destruct b; discriminate).
  assert (Hlt : hpos s < gtail s).
  { destruct (N.lt_ge_cases (hpos s) (gtail s)) as [L|L]; [exact L|]. apply B1 in L. rewrite L in Hw. exfalso. apply Hw. reflexivity. }
  assert (Hd : sdata s (hslot cc n s) = None).
  { rewrite S2. unfold dataof. rewrite Epc. destruct (tk s (hpos s)) as [| |v|] eqn:Etk; try reflexivity.
    - exfalso. apply Hw. reflexivity.
    - destruct b; [cbn [taken andb]; rewrite N.eqb_refl; reflexivity | discriminate S1]. }
  constructor; st_goal; try assumption.
  - lia.
  - lia.
  - lia.
  - lia.
  - lia.
  - intros t L. destruct (N.eq_dec t (hpos s)) as [->|Hne]; [exact Hw | apply B2; lia].
  - intros th. specialize (P th).
    destruct (ppc s th); cbn [PInv] in *; unfold RInv in *; try assumption; intuition lia.
  - intros t v Ht L. specialize (D t v Ht). lia.
  - intros j i Hj Hi. cbv zeta. specialize (E j i Hj Hi). cbv zeta in E. destruct E as [E1 E2].
    rewrite Htk.
    destruct (N.eqb_spec (j * cc + i) (hslot cc n s)) as [Ek|Ek].
    + rewrite Ek, updN_eq.
      assert (Et : ids s j * cc + i = hpos s).
      { unfold hslot, slot_at in Ek. destruct (geo_key_inj cc Hcc _ _ _ _ Hi C2 Ek) as [-> ->]. rewrite C1. lia. }
      rewrite Et. destruct (N.ltb_spec (hpos s) (hpos s + 1)) as [_|L]; [|lia]. split; [reflexivity | exact Hd].
    + rewrite updN_neq by exact Ek.
      pose proof (other_slot s j i I C1 C2 Hj Hi Ek) as Hne.
      destruct (N.ltb_spec (ids s j * cc + i) (hpos s)) as [L|L];
        destruct (N.ltb_spec (ids s j * cc + i) (hpos s + 1)) as [L'|L']; try lia.
      * split; assumption.
      * split; [exact E1|]. rewrite E2. apply dataof_not_cursor; assumption.
  - intros t L. apply R. lia.
Qed.

(* ------------------------------------------------------------ every consumer step *)
Ltac pure_c I Epc :=
  eapply SInv_c_pure;
  [ exact I | constructor; reflexivity
  | st_goal; first [apply (A_prog _ _ _ _ I) | apply N.le_refl]
  | st_goal; first [apply (A_drn _ _ _ _ I) | apply N.le_refl]
  | reflexivity | reflexivity | reflexivity | rewrite Epc; reflexivity
  | let C := fresh "C" in
    pose proof (C_inv _ _ _ _ I) as C; rewrite Epc in C; cbn [CInv] in C |- * ].

Lemma SInv_cstep s c s' e :
  SInv cap cc n s -> cstep cc n kk s c = Some (s', e) -> SInv cap cc n s'.
Proof.
  intros I Hs. unfold cstep in Hs. destruct (cpc s) eqn:Epc.
  - (* CIdle *) destruct (cprog s) as [|[|mx] r]; inv_step Hs; unf_steps; pure_c I Epc; exact Logic.I.
  - (* CLock *) unfold c_lock in Hs. inv_step Hs; [exact I|]. pure_c I Epc. exact Logic.I.
  - (* CD1 *) inv_step Hs. unf_steps.
    destruct (N.eqb_spec (ids s (ent n (hcid s))) (hcid s)) as [Er|Er]; cbn [negb]; [|split_goal; pure_c I Epc; exact Logic.I].
    destruct (N.eqb_spec (hidx s) cc) as [Ei|Ei]; pure_c I Epc.
    + split; assumption.
    + split; [assumption|]. pose proof (A_idx _ _ _ _ I). lia.
  - (* CD2 *) inv_step Hs. apply SInv_retire; assumption.
  - (* CD3 *) inv_step Hs. unf_steps.
    destruct (N.eqb_spec (sstate s (hslot cc n s)) sSET) as [Ea|Ea].
    + pure_c I Epc. destruct C as [C1 C2]. repeat split; assumption.
    + destruct (N.eqb_spec (sstate s (hslot cc n s)) sSKIP) as [Eb|Eb]; [|split_goal]; pure_c I Epc; try exact Logic.I.
      destruct C as [C1 C2]. repeat split; assumption.
  - (* CD4 *) destruct (SInv_take s d I Epc) as [v [Hd [_ Hi]]]. rewrite Hd in Hs. inv_step Hs. exact Hi.
  - (* CD5 *) inv_step Hs. unf_steps. split_goal; (eapply SInv_advance; [exact I | exact Epc | |]);
      cbn [taken CInv]; trivial.
  - (* CD6 *) inv_step Hs; split_goal; pure_c I Epc; exact Logic.I.
  - (* CM1 *) inv_step Hs; pure_c I Epc; exact Logic.I.
  - (* CM2 *) inv_step Hs; split_goal; pure_c I Epc; exact Logic.I.
  - (* CUnl *) inv_step Hs; unf_steps; split_goal; pure_c I Epc; exact Logic.I.
  - (* CP1 *) inv_step Hs; pure_c I Epc; exact Logic.I.
  - (* CP2 *) inv_step Hs; pure_c I Epc; exact Logic.I.
  - (* CP3 *) inv_step Hs; pure_c I Epc; exact Logic.I.
  - (* CP4 *) inv_step Hs; pure_c I Epc; exact Logic.I.
  - (* CP5 *) inv_step Hs; unf_steps; split_goal; pure_c I Epc; exact Logic.I.
  - (* CSa *) inv_step Hs; unf_steps; split_goal; pure_c I Epc; exact Logic.I.
  - (* CFl *) unfold c_lock in Hs. inv_step Hs; [exact I|]. split_goal; pure_c I Epc; exact Logic.I.
  - (* CFu *) inv_step Hs; unf_steps; split_goal; pure_c I Epc; exact Logic.I.
  - (* CDropSt *) inv_step Hs; pure_c I Epc; exact Logic.I.
  - (* CWk *) unfold c_lock in Hs. destruct k; inv_step Hs; try exact I; pure_c I Epc; exact Logic.I.
  - discriminate Hs.
Qed.

End Cons.
