(* Proofs/MpmcK3Wake3.v — milestone 3 (wake protocol), part 3: after the last sender / receiver has
   closed, a WAITING record of the other side exists only while that closer is still scanning
   (InvC); every signalled thread is on its way to the retry it owes (InvO: the ghost lists owedR /
   owedS only hold threads at "active" program points; with the F-08 repair a receiver signalled
   CLOSED re-drains, so it stays active until its next try_recv_core). *)
From Coq Require Import List NArith Arith Bool Lia Sorted.
From Fibre Require Import Common.Conc Chan.MpmcK3 Proofs.MpmcK3Base Proofs.MpmcK3Queue Proofs.MpmcK3Life Proofs.MpmcK3Wake1 Proofs.MpmcK3Wake2.
Import ListNotations.

(* some linked record is still WAITING *)
Definition has_w (f : nat -> fl) (l : list (nat * nat)) : Prop := exists u g, In (u, g) l /\ f u = FWaiting.

Lemma has_w_sub f l l' : (forall x, In x l' -> In x l) -> has_w f l' -> has_w f l.
Proof. intros H (u & g & Hin & F). exists u, g. split; [apply H; exact Hin|exact F]. Qed.

Lemma has_w_upd f l n v : v <> FWaiting -> has_w (upd f n v) l -> has_w f l.
Proof.
  intros Hv (u & g & Hin & F). exists u, g. split; [exact Hin|].
  unfold upd in F. destruct (Nat.eqb u n); [contradiction|exact F].
Qed.

Lemma has_w_remove f i l : has_w f (remove_nth i l) -> has_w f l.
Proof. apply has_w_sub. intros x. apply remove_nth_In. Qed.
Lemma has_w_unlink f t g l : has_w f (unlink t g l) -> has_w f l.
Proof. apply has_w_sub. intros x Hx. apply unlink_In in Hx. tauto. Qed.
Lemma has_w_upd_notin f l n v : (forall g, ~ In (n, g) l) -> has_w (upd f n v) l -> has_w f l.
Proof.
  intros Hn (u & g & Hin & F). exists u, g. split; [exact Hin|].
  unfold upd in F. destruct (Nat.eqb_spec u n); [subst; exfalso; eapply Hn; exact Hin|exact F].
Qed.
Lemma has_w_nil f : ~ has_w f [].
Proof. intros (u & g & [] & _). Qed.

(* all records of a completely scanned list are non-WAITING *)
Lemma scanned_all f l i u g :
  passed f l i -> nth_error l i = Some (u, g) -> f u <> FWaiting -> (S i <? length l) = false -> ~ has_w f l.
Proof.
  intros P N F L (u' & g' & Hin & F'). apply Nat.ltb_ge in L.
  apply In_nth_error in Hin. destruct Hin as [j Hj].
  assert (Hjl : j < length l) by (apply nth_error_Some; congruence).
  destruct (Nat.eq_dec j i) as [->|Ne].
  - rewrite N in Hj. inversion Hj; subst. contradiction.
  - apply (P j u' g'); [lia|exact Hj|exact F'].
Qed.

(* after the last sender / receiver has given its count back, a WAITING record of the other side
   exists only while that closer is still scanning the queue *)
Record InvC (s : st) : Prop := {
  C_r : scnt s = 0 -> has_w (flag s) (wr s) ->
        exists h i w, pcs s h = DScan true i w /\ is_prod (prog s h) = true;
  C_s : rcnt s = 0 -> has_w (flag s) (ws s) ->
        exists h i w, pcs s h = DScan true i w /\ is_prod (prog s h) = false }.

(* bring a has_w fact about the new state back to the old one *)
Ltac w_old W :=
  repeat first [ apply has_w_upd in W; [|discriminate]
               | apply has_w_remove in W
               | apply has_w_unlink in W ].

Ltac c_witness Cr Cs t Epc Z W :=
  let h := fresh "h" in let i := fresh "i" in let w := fresh "w" in let Hp := fresh "Hp" in let Hr := fresh "Hr" in
  let Nh := fresh "Nh" in
  first [ destruct (Cr Z W) as (h & i & w & Hp & Hr) | destruct (Cs Z W) as (h & i & w & Hp & Hr) ];
  destruct (Nat.eq_dec h t) as [->|Nh];
  [ rewrite Epc in Hp; first [ discriminate Hp | congruence ]
  | exists h, i, w; rewrite !upd_neq by exact Nh; split; assumption ].

Lemma InvC_step cap cf s t c s' e :
  InvL s -> InvE s -> InvP s -> InvC s -> step cap cf s t c = Some (s', e) -> InvC s'.
Proof.
  intros HL [Er Es Nr Ns Eb Ed Eds] [Ps Pr Pd] [Cr Cs] H.
  pose proof (proj1 HL t) as L1t. pose proof (Pd t) as Pdt.
  step_cases H; cbn [in_sec] in L1t.
  all: try solve [ entry_valid Er Es ].
  all: try match goal with E : false && _ = true |- _ => discriminate E end.
  all: constructor; fsimpl.
  all: intros Z W.
  (* registration is refused once the other side is gone *)
  all: try solve [ exfalso; arith_facts; congruence ].
  (* the generic case: an old WAITING record, the old closer is still there *)
  all: try solve [ w_old W; c_witness Cr Cs t Epc Z W ].
  (* this thread starts / continues the closing scan *)
  all: try solve [ eexists t, _, _; rewrite !upd_eq; split; [ rewrite ?Z; reflexivity | assumption ] ].
  (* the last closer found nobody linked *)
  all: try solve [ exfalso; rewrite ?Z in *; cbn [Nat.eqb andb] in *; nil_facts;
                   match goal with Hn : wr _ = [] |- _ => rewrite Hn in W | Hn : ws _ = [] |- _ => rewrite Hn in W end;
                   exact (has_w_nil _ W) ].
  (* the closing scan is complete: nobody is WAITING any more *)
  all: try solve [ exfalso;
         try match goal with E : is_prod (prog _ _) = _ |- _ => rewrite E in Pdt; cbn iota in Pdt end;
         match goal with E2 : true && (_ <? _) = false |- _ => cbn [andb] in E2 end;
         revert W; eapply scanned_all;
         [ first [ apply passed_upd; [discriminate | eapply Pdt; reflexivity] | eapply Pdt; reflexivity ]
         | eassumption
         | first [ rewrite upd_eq; discriminate | cas_failed; assumption ]
         | assumption ] ].
  (* a registering thread's own flag: it is not linked on the other side *)
  all: try solve [ apply has_w_upd_notin in W;
         [ c_witness Cr Cs t Epc Z W
         | intros gg Hg; first [ destruct (Es _ _ Hg) as (_ & Y) | destruct (Er _ _ Hg) as (_ & Y & _) ];
           rewrite Epc in Y; discriminate Y ] ].
Qed.

Lemma remove1_In t l x : In x (remove1 t l) -> In x l.
Proof.
  induction l as [|a l IH]; cbn; [tauto|]. destruct (Nat.eqb a t); [intros H; right; exact H|].
  intros [H|H]; [left; exact H|right; apply IH; exact H].
Qed.
Lemma remove1_NoDup t l : NoDup l -> NoDup (remove1 t l).
Proof.
  induction 1 as [|a l Ha Hl IH]; cbn; [constructor|]. destruct (Nat.eqb a t); [exact Hl|].
  constructor; [|exact IH]. intros X. apply Ha. eapply remove1_In. exact X.
Qed.
Lemma remove1_not_In t l : NoDup l -> ~ In t (remove1 t l).
Proof.
  induction 1 as [|a l Ha Hl IH]; cbn; [tauto|]. destruct (Nat.eqb_spec a t); [subst; exact Ha|].
  intros [X|X]; [contradiction|]. exact (IH X).
Qed.

(* the flag has left WAITING once its owner is past the wait loop *)
Definition post_wait (p : pc) : bool :=
  match p with
  | RFinal | TFinal | TCancelLock | TCancelUnlock | RUnlLock _ | RUnlUnlock _
  | SFinal | SUnlLock _ | SUnlUnlock _ => true
  | _ => false
  end.
(* a signalled receiver is on its way to the try_recv_core it owes *)
Definition act_r (p : pc) (f : fl) : bool :=
  match p with
  | RWLoad | RWNext | TWLoad | TWNext | RFinal | TFinal => f_fin f
  | RUnlLock _ | RUnlUnlock _ | RLock _ => true
  | _ => false
  end.
(* a sender signalled SUCCESS_SPACE is on its way to the try_send_core it owes *)
Definition act_s (p : pc) (f : fl) : bool :=
  match p with
  | SWLoad | SWNext | SFinal => f_ok f
  | SUnlLock false | SUnlUnlock false | SLock KSend | SScan KSend _ => true
  | _ => false
  end.

Record InvO (s : st) : Prop := {
  O_pw : forall u, post_wait (pcs s u) = true -> flag s u <> FWaiting;
  O_r : forall u, In u (owedR s) -> act_r (pcs s u) (flag s u) = true;
  O_s : forall u, In u (owedS s) -> act_s (pcs s u) (flag s u) = true;
  O_ndr : NoDup (owedR s);
  O_nds : NoDup (owedS s) }.

Lemma target_waits_r p v : r_link p = true -> in_sec p = false -> post_wait p = false -> act_r p v = f_fin v.
Proof. destruct p; cbn; intros A B C; try discriminate; try reflexivity. Qed.
Lemma target_waits_s p v : s_link p = true -> in_sec p = false -> post_wait p = false -> act_s p v = f_ok v.
Proof. destruct p; cbn; intros A B C; try discriminate; try reflexivity. Qed.
Lemma act_r_fin p f v : act_r p f = true -> f_fin v = true -> act_r p v = true.
Proof. destruct p; cbn; congruence. Qed.
Lemma waiting_is f : f_waiting f = true -> f = FWaiting.
Proof. destruct f; cbn; congruence. Qed.

Lemma tgt_not_owed p : r_link p = true \/ s_link p = true -> in_sec p = false -> post_wait p = false ->
  act_r p FWaiting = false /\ act_s p FWaiting = false.
Proof. destruct p; cbn; intros [A|A] B C; try discriminate; split; reflexivity. Qed.
Lemma act_s_ok p f v : act_s p f = true -> f_ok v = true -> act_s p v = true.
Proof. destruct p; cbn; congruence. Qed.

(* facts about the record (n, g) the lock holder t has just CASed successfully *)
Ltac target_facts HL Er Es Opw L1t Epc :=
  match goal with
  | N : nth_error ?l ?i = Some (?n, ?g), E3 : _ && f_waiting (flag ?s ?n) = true |- _ =>
      let Hn := fresh "Hn" in let Fw := fresh "Fw" in let Pw := fresh "Pw" in let Is := fresh "Is" in
      let Lk := fresh "Lk" in
      pose proof (nth_error_In _ _ N) as Hn;
      apply andb_prop in E3; destruct E3 as [_ Fw]; apply waiting_is in Fw;
      assert (Pw : post_wait (pcs s n) = false)
        by (destruct (post_wait (pcs s n)) eqn:Q; [exfalso; exact (Opw n Q Fw)|reflexivity]);
      first [ pose proof (proj1 (proj2 (Er _ _ Hn))) as Lk | pose proof (proj2 (Es _ _ Hn)) as Lk ];
      assert (Is : in_sec (pcs s n) = false)
        by (destruct (in_sec (pcs s n)) eqn:Q; [|reflexivity]; exfalso;
            apply (proj1 HL) in Q; rewrite (L1t eq_refl) in Q; inversion Q; subst;
            rewrite Epc in Lk; cbn in Lk; discriminate Lk)
  end.

Ltac tgt_contra Or Os X :=
  match goal with Fw : flag ?s ?n = FWaiting, Pw : post_wait (pcs ?s ?n) = false, Is : in_sec (pcs ?s ?n) = false, Lk : _ (pcs ?s ?n) = true |- _ =>
    let Ar := fresh "Ar" in let As := fresh "As" in let A := fresh "A" in
    first [ destruct (tgt_not_owed _ (or_introl Lk) Is Pw) as [Ar As] | destruct (tgt_not_owed _ (or_intror Lk) Is Pw) as [Ar As] ];
    first [ pose proof (Or _ X) as A; rewrite Fw, Ar in A; discriminate A
          | pose proof (Os _ X) as A; rewrite Fw, As in A; discriminate A ]
  end.

(* the signalled target becomes active *)
Ltac tgt_active :=
  match goal with Pw : post_wait (pcs ?s ?n) = false, Is : in_sec (pcs ?s ?n) = false, Lk : _ (pcs ?s ?n) = true |- _ =>
    first [ rewrite (target_waits_r _ _ Lk Is Pw); reflexivity
          | rewrite (target_waits_s _ _ Lk Is Pw); reflexivity ]
  end.

Ltac owed_other Or Os X :=
  first [ first [ apply Or | apply Os ]; exact X
        | unfold upd at 1;
          match goal with |- ?a _ (if Nat.eqb ?x ?n then _ else _) = true =>
            destruct (Nat.eqb_spec x n);
            [ subst; exfalso; tgt_contra Or Os X | first [ apply Or | apply Os ]; exact X ] end ].

(* clause O_r / O_s for a thread uu that was owed before the step *)
Ltac tgt_active_pc t :=
  match goal with Pw : post_wait (pcs ?s ?n) = false, Is : in_sec (pcs ?s ?n) = false, Lk : _ (pcs ?s ?n) = true |- _ =>
    let Nt := fresh "Nt" in
    assert (Nt : n <> t) by (intros ->; match goal with Epc : pcs s t = _ |- _ => rewrite Epc in Is; cbn in Is; discriminate Is end);
    rewrite (upd_neq (pcs s) _ Nt); tgt_active
  end.

Ltac owed_old Or Os Ort Ost t X :=
  match goal with |- ?act (upd (pcs ?s) t ?p ?uu) ?f = true =>
    split_thr uu t;
    [ let A := fresh "A" in
      first [ pose proof (Ort X) as A | pose proof (Ost X) as A ];
      cbn [act_r act_s] in *; rewrite ?upd_eq;
      first [ exact A | reflexivity | discriminate A | rewrite A; reflexivity
            | match goal with E : f_fin (flag _ _) = true |- _ => exact E | E : f_ok (flag _ _) = true |- _ => exact E end
            | match goal with E : f_ok (flag ?s0 ?t0) = true |- f_fin (flag ?s0 ?t0) = true => destruct (flag s0 t0); cbn in *; congruence end
            | match goal with E : f_waiting (flag ?s0 ?t0) = true |- _ => destruct (flag s0 t0); cbn in *; congruence end ]
    | owed_other Or Os X ]
  end.

Lemma InvO_step cap cf s t c s' e :
  redrain_on_close cf = true ->
  InvL s -> InvE s -> InvO s -> step cap cf s t c = Some (s', e) -> InvO s'.
Proof.
  intros Hcf HL [Er Es Nr Ns Eb Ed Eds] [Opw Or Os Ndr Nds] H.
  pose proof (proj1 HL t) as L1t. pose proof (Opw t) as Opwt. pose proof (Or t) as Ort. pose proof (Os t) as Ost. pose proof (Ed t) as Edt.
  step_cases H; cbn [in_sec post_wait act_r act_s] in *.
  all: try congruence.
  all: cbn [deaf_pc deaf_ctx] in Edt; try discriminate Edt.
  all: try solve [ entry_valid Er Es ].
  all: try match goal with E : false && _ = true |- _ => discriminate E end.
  all: try target_facts HL Er Es Opw L1t Epc.
  all: constructor; fsimpl.
  (* NoDup *)
  all: try solve [ assumption | apply remove1_NoDup; assumption ].
  all: try solve [ constructor; [ intros X; tgt_contra Or Os X | assumption ] ].
  (* O_pw *)
  all: try solve [ intros uu X; split_thr uu t;
         [ cbn [post_wait] in X; try discriminate X;
           first [ discriminate | apply Opwt; reflexivity
                 | intros Q; rewrite Q in *; discriminate
                 | unfold upd; match goal with |- (if ?b then _ else _) <> _ => destruct b end;
                   first [ discriminate | apply Opwt; reflexivity | intros Q; rewrite Q in *; discriminate ] ]
         | first [ apply Opw; exact X
                 | unfold upd; match goal with |- (if ?b then _ else _) <> _ => destruct b end;
                   [ discriminate | apply Opw; exact X ] ] ] ].
  (* O_r / O_s *)
  all: try solve [ intros uu X; owed_old Or Os Ort Ost t X ].
  all: try solve [ intros uu X; destruct (Nat.eq_dec uu t) as [->|Nt];
         [ exfalso; first [ exact (remove1_not_In _ _ Ndr X) | exact (remove1_not_In _ _ Nds X) ]
         | apply remove1_In in X; rewrite (upd_neq (pcs _) _ Nt); owed_other Or Os X ] ].
  all: try solve [ intros uu X; apply in_inv in X; destruct X as [<-|X];
         [ rewrite upd_eq; tgt_active_pc t | owed_old Or Os Ort Ost t X ] ].
Qed.
