(* Proofs/PolicySieveProofs.v — contract for SieveP and ClockP. *)
From Fibre Require Import Common.Base Cache.PolicySpec Cache.PolicySieve Proofs.PolicyCommon.

Definition etr (l : list ent) : list kc := map ekc l.

Lemma etr_app a b : etr (a ++ b) = etr a ++ etr b.
Proof. apply map_app. Qed.

Lemma etr_erm k l : etr (erm k l) = rm k (etr l).
Proof.
  induction l as [|[[k' c'] f'] t IH]; cbn [erm etr map ekc rm fst ekey]; [reflexivity|].
  destruct (N.eqb k k'); [exact IH|]. cbn [etr map ekc fst]. f_equal. exact IH.
Qed.

Lemma etr_eset k l : etr (eset k l) = etr l.
Proof.
  induction l as [|[[k' c'] f'] t IH]; cbn [eset etr map ekc fst ekey]; [reflexivity|].
  destruct (N.eqb k k'); cbn [etr map ekc fst]; f_equal; exact IH.
Qed.

Lemma ehas_lookup k l : ehas k l = match lookup k (etr l) with Some _ => true | None => false end.
Proof.
  induction l as [|[[k' c'] f'] t IH]; cbn [ehas etr map ekc lookup fst ekey]; [reflexivity|].
  destruct (N.eqb k k'); [reflexivity | exact IH].
Qed.

Lemma eindex_lookup k l : (eindex k l = None) <-> lookup k (etr l) = None.
Proof.
  induction l as [|[[k' c'] f'] t IH]; cbn [eindex etr map ekc lookup fst ekey]; [tauto|].
  destruct (N.eqb k k'); [split; discriminate|].
  destruct (eindex k t) as [i|].
  - split; intros H; [discriminate|]. apply IH in H. discriminate.
  - split; intros H; [apply IH|]; reflexivity.
Qed.

Lemma scan_some l cl v rest :
  scan l = (cl, Some (v, rest)) ->
  exists fl, l = fl ++ v :: rest /\ etr cl = etr fl /\ length cl = length fl.
Proof.
  revert cl. induction l as [|e t IH]; intros cl H; cbn [scan] in H; [discriminate|].
  destruct (eflag e) eqn:Ef.
  - destruct (scan t) as [cl1 r1] eqn:E. inversion H; subst.
    destruct (IH _ eq_refl) as [fl [Hl [He Hn]]].
    exists (e :: fl). cbn [app etr map length]. repeat split.
    + rewrite Hl. reflexivity.
    + f_equal. exact He.
    + f_equal. exact Hn.
  - inversion H; subst. exists []. repeat split.
Qed.

Lemma scan_none l cl : scan l = (cl, None) -> etr cl = etr l.
Proof.
  revert cl. induction l as [|e t IH]; intros cl H; cbn [scan] in H.
  - inversion H. reflexivity.
  - destruct (eflag e).
    + destruct (scan t) as [cl1 r1] eqn:E. inversion H; subst.
      cbn [etr map]. f_equal. apply IH. reflexivity.
    + discriminate.
Qed.

Lemma firstn_skipn_etr n l : etr l = etr (firstn n l) ++ etr (skipn n l).
Proof. rewrite <- etr_app, firstn_skipn. reflexivity. Qed.

(** generic loop lemma *)
Section Loop.
  Context {St : Type} (one : St -> option (ent * St)) (tr : St -> list kc).
  Hypothesis one_some : forall s v s', one s = Some (v, s') -> Permutation (tr s) (ekc v :: tr s').
  Hypothesis one_none : forall s, one s = None -> tr s = [].

  Lemma evict_loop_spec fuel : forall want freed s acc s' vs f,
    evict_loop one fuel want freed s acc = (s', vs, f) ->
    (length (tr s) <= fuel)%nat ->
    exists V, vs = rev acc ++ keys V /\ f = freed + total V
      /\ Permutation (tr s) (V ++ tr s')
      /\ (want <= f \/ tr s' = []).
  Proof.
    induction fuel as [|fu IH]; intros want freed s acc s' vs f H Hlen; cbn [evict_loop] in H.
    - inversion H; subst. exists []. cbn [keys map app total]. repeat split.
      + rewrite app_nil_r. reflexivity.
      + lia.
      + apply Permutation_refl.
      + right. destruct (tr s'); [reflexivity | cbn [length] in Hlen; lia].
    - destruct (N.ltb_spec freed want) as [Hlt|Hge].
      + destruct (one s) as [[v s1]|] eqn:E.
        * pose proof (one_some _ _ _ E) as HP.
          assert (Hlen1 : (length (tr s1) <= fu)%nat).
          { apply Permutation_length in HP. cbn [length] in HP. lia. }
          destruct (IH _ _ _ _ _ _ _ H Hlen1) as [V [Hv [Hf [HP2 Hs]]]].
          exists (ekc v :: V). cbn [keys map fst app total]. repeat split.
          -- rewrite Hv. cbn [rev]. rewrite <- app_assoc. reflexivity.
          -- rewrite Hf. unfold ekc, ecost. destruct v as [[vk vc] vf]. cbn [fst snd]. lia.
          -- eapply Permutation_trans; [exact HP|]. constructor. exact HP2.
          -- exact Hs.
        * inversion H; subst. exists []. cbn [keys map app total]. repeat split.
          -- rewrite app_nil_r. reflexivity.
          -- lia.
          -- apply Permutation_refl.
          -- right. apply one_none. exact E.
      + inversion H; subst. exists []. cbn [keys map app total]. repeat split.
        * rewrite app_nil_r. reflexivity.
        * lia.
        * apply Permutation_refl.
        * left. lia.
  Qed.

  Lemma evict_loop_ok n s s' vs f :
    NoDup (keys (tr s)) ->
    evict_loop one (length (tr s)) n 0 s [] = (s', vs, f) ->
    evict_ok (tr s) (tr s') n vs f /\ NoDup (keys (tr s')).
  Proof.
    intros Hnd H.
    destruct (evict_loop_spec _ _ _ _ _ _ _ _ H (le_n _)) as [V [Hv [Hf [HP Hs]]]].
    cbn [rev app] in Hv. subst vs. split.
    - apply evict_ok_split; [exact Hnd | exact HP | lia |].
      intros Hn. destruct Hs as [Hs|Hs]; [exact Hs|].
      rewrite Hs, app_nil_r in HP. apply total_perm in HP. lia.
    - apply NoDup_keys_perm with (b := V ++ tr s') in Hnd; [|exact HP].
      rewrite keys_app in Hnd. apply NoDup_app_r in Hnd. exact Hnd.
  Qed.
End Loop.

(** SIEVE *)
Definition sieve_tr (s : sieve) : list kc := etr (sv_r s).

Lemma sieve_one_some s v s' :
  sieve_evict_one s = Some (v, s') -> Permutation (sieve_tr s) (ekc v :: sieve_tr s').
Proof.
  unfold sieve_evict_one, sieve_tr.
  rewrite (firstn_skipn_etr (sv_hand s) (sv_r s)).
  destruct (scan (skipn (sv_hand s) (sv_r s))) as [cl [[v1 rest]|]] eqn:E.
  - intros H. inversion H; subst. cbn [sv_r].
    destruct (scan_some _ _ _ _ E) as [fl [Hl [He _]]].
    rewrite Hl. rewrite !etr_app. cbn [etr map]. rewrite He.
    rewrite !app_assoc. apply Permutation_sym, Permutation_middle.
  - rewrite <- (scan_none _ _ E).
    destruct (firstn (sv_hand s) (sv_r s) ++ cl) as [|v1 rest] eqn:E2; [discriminate|].
    intros H. inversion H; subst. cbn [sv_r].
    rewrite <- etr_app, E2. apply Permutation_refl.
Qed.

Lemma sieve_one_none s : sieve_evict_one s = None -> sieve_tr s = [].
Proof.
  unfold sieve_evict_one, sieve_tr.
  rewrite (firstn_skipn_etr (sv_hand s) (sv_r s)).
  destruct (scan (skipn (sv_hand s) (sv_r s))) as [cl [[v1 rest]|]] eqn:E; [discriminate|].
  rewrite <- (scan_none _ _ E).
  destruct (firstn (sv_hand s) (sv_r s) ++ cl) as [|v1 rest] eqn:E2; [|discriminate].
  intros _. rewrite <- etr_app, E2. reflexivity.
Qed.

Definition sieve_inv (s : sieve) : Prop := NoDup (keys (sieve_tr s)).

Lemma sieve_admit_tr k c s : sieve_tr (sieve_admit k c s) = rm k (sieve_tr s) ++ [(k, c)].
Proof. unfold sieve_tr, sieve_admit. cbn [sv_r]. rewrite etr_app, etr_erm. reflexivity. Qed.

Lemma snoc_rm_NoDup k c l : NoDup (keys l) -> NoDup (keys (rm k l ++ [(k, c)])).
Proof.
  intros H. eapply NoDup_keys_perm.
  - apply Permutation_cons_append.
  - cbn [keys map fst]. constructor; [apply rm_not_in | apply rm_NoDup; exact H].
Qed.

Lemma sieve_step_all s cl : sieve_inv s ->
  sieve_inv (fst (sieve_step s cl)) /\
  let '(s', o) := sieve_step s cl in step_ok admit_full (sieve_tr s) cl o (sieve_tr s').
Proof.
  unfold sieve_inv. intros H. destruct cl as [k c|k c|k|n|]; cbn [sieve_step fst step_ok step_okG access_keep].
  - unfold sieve_tr. cbn [sv_r]. rewrite etr_eset. split; [exact H | apply Permutation_refl].
  - rewrite sieve_admit_tr. split; [apply snoc_rm_NoDup; exact H|].
    unfold admit_full. apply Permutation_sym, Permutation_cons_append.
  - unfold sieve_tr, sieve_remove. cbn [sv_r]. rewrite etr_erm.
    split; [apply rm_NoDup; exact H | apply Permutation_refl].
  - destruct (evict_loop sieve_evict_one (length (sv_r s)) n 0 s []) as [[s' vs] f] eqn:E.
    cbn [fst step_ok step_okG access_keep].
    assert (Hlen : length (sv_r s) = length (sieve_tr s)) by (unfold sieve_tr, etr; rewrite map_length; reflexivity).
    rewrite Hlen in E.
    destruct (evict_loop_ok sieve_evict_one sieve_tr sieve_one_some sieve_one_none _ _ _ _ _ H E) as [A B].
    split; assumption.
  - split; [constructor | reflexivity].
Qed.

Theorem sieve_contract : contract admit_full SieveP.
Proof.
  apply (contract_lift admit_full SieveP sieve_inv).
  - constructor.
  - intros s cl H. apply sieve_step_all. exact H.
  - intros s H. exact H.
  - intros s cl H. apply (sieve_step_all s cl H).
Qed.

(** CLOCK *)
Definition clock_tr (s : clock) : list kc := etr (ck_o s).

Lemma clock_one_some s v s' :
  clock_evict_one s = Some (v, s') -> Permutation (clock_tr s) (ekc v :: clock_tr s').
Proof.
  unfold clock_evict_one, clock_tr.
  set (h := if Nat.leb (length (ck_o s)) (ck_hand s) then O else ck_hand s).
  rewrite (firstn_skipn_etr h (ck_o s)).
  destruct (scan (skipn h (ck_o s))) as [cl [[v1 rest]|]] eqn:E.
  - intros H. inversion H; subst. cbn [ck_o].
    destruct (scan_some _ _ _ _ E) as [fl [Hl [He _]]].
    rewrite Hl. rewrite !etr_app. cbn [etr map]. rewrite He.
    rewrite !app_assoc. apply Permutation_sym, Permutation_middle.
  - rewrite <- (scan_none _ _ E). rewrite <- etr_app.
    destruct (scan (firstn h (ck_o s) ++ cl)) as [cl2 [[v2 rest2]|]] eqn:E2; [|discriminate].
    intros H. inversion H; subst. cbn [ck_o].
    destruct (scan_some _ _ _ _ E2) as [fl [Hl [He _]]].
    rewrite Hl. rewrite !etr_app. cbn [etr map]. rewrite He.
    apply Permutation_sym, Permutation_middle.
Qed.

Lemma scan_all_clear_finds l : l <> [] -> (forall e, In e l -> eflag e = false) ->
  exists v rest, scan l = ([], Some (v, rest)).
Proof.
  destruct l as [|e t]; [congruence|]. intros _ H. cbn [scan].
  rewrite (H e (or_introl eq_refl)). eauto.
Qed.

Lemma scan_none_cleared l cl : scan l = (cl, None) -> forall e, In e cl -> eflag e = false.
Proof.
  revert cl. induction l as [|e t IH]; intros cl H; cbn [scan] in H.
  - inversion H. intros e [].
  - destruct (eflag e); [|discriminate].
    destruct (scan t) as [cl1 r1] eqn:E. inversion H; subst.
    intros e' [He|Hi]; [subst; reflexivity | eapply IH; eauto].
Qed.

Lemma scan_none_length l cl : scan l = (cl, None) -> length cl = length l.
Proof. intros H. apply scan_none in H. unfold etr in H. apply (f_equal (@length _)) in H. rewrite !map_length in H. exact H. Qed.

Lemma scan_app_cleared a b : b <> [] -> (forall e, In e b -> eflag e = false) ->
  exists cl v rest, scan (a ++ b) = (cl, Some (v, rest)).
Proof.
  intros Hb Hc. induction a as [|e t IH]; cbn [app scan].
  - destruct (scan_all_clear_finds b Hb Hc) as [v [rest Hs]]. rewrite Hs. eauto.
  - destruct (eflag e); [|eauto].
    destruct IH as [cl [v [rest Hs]]]. rewrite Hs. eauto.
Qed.

Lemma clock_one_none s : clock_evict_one s = None -> clock_tr s = [].
Proof.
  unfold clock_evict_one, clock_tr.
  set (h := if Nat.leb (length (ck_o s)) (ck_hand s) then O else ck_hand s).
  destruct (scan (skipn h (ck_o s))) as [cl [[v1 rest]|]] eqn:E; [discriminate|].
  intros H.
  destruct (ck_o s) as [|e0 t0] eqn:Eo; [reflexivity|].
  exfalso.
  assert (Hh : (h < length (e0 :: t0))%nat).
  { subst h. destruct (Nat.leb_spec (length (e0 :: t0)) (ck_hand s)); cbn [length] in *; lia. }
  assert (Hcl : cl <> []).
  { intros ->. apply scan_none_length in E. cbn [length] in E.
    rewrite skipn_length in E. lia. }
  destruct (scan_app_cleared (firstn h (e0 :: t0)) cl Hcl (scan_none_cleared _ _ E))
    as [cl2 [v [rest Hs]]].
  rewrite Hs in H. discriminate.
Qed.

Definition clock_inv (s : clock) : Prop := NoDup (keys (clock_tr s)).

Lemma snoc_NoDup k c l : NoDup (keys l) -> lookup k l = None -> NoDup (keys (l ++ [(k, c)])).
Proof.
  intros H Hl. eapply NoDup_keys_perm; [apply Permutation_cons_append|].
  cbn [keys map fst]. constructor; [apply lookup_None; exact Hl | exact H].
Qed.

(* re-admission of a tracked key: its cost is replaced in place *)
Lemma esetcost_id k c l : ~ In k (keys (etr l)) -> esetcost k c l = l.
Proof.
  induction l as [|[[k' c'] f'] t IH]; cbn [esetcost etr map ekc keys fst ekey]; intros H; [reflexivity|].
  destruct (N.eqb_spec k k') as [->|Hn]; [exfalso; apply H; left; reflexivity|].
  f_equal. apply IH. intros Hi. apply H. right. exact Hi.
Qed.

Lemma etr_esetcost k c l c0 :
  NoDup (keys (etr l)) -> lookup k (etr l) = Some c0 ->
  Permutation (etr (esetcost k c l)) ((k, c) :: rm k (etr l)).
Proof.
  induction l as [|[[k' c'] f'] t IH];
    cbn [esetcost etr map ekc keys fst ekey lookup rm eflag snd]; intros Hnd Hl; [discriminate|].
  inversion Hnd as [|? ? Hni Hnd']; subst.
  destruct (N.eqb_spec k k') as [->|Hn].
  - cbn [etr map ekc fst]. fold (etr (esetcost k' c t)). fold (etr t).
    rewrite (esetcost_id k' c t Hni), (rm_id k' (etr t) Hni). apply Permutation_refl.
  - cbn [etr map ekc fst]. fold (etr (esetcost k c t)). fold (etr t).
    eapply Permutation_trans; [|apply perm_swap]. constructor. apply IH; assumption.
Qed.

Lemma clock_step_all s cl : clock_inv s ->
  clock_inv (fst (clock_step s cl)) /\
  let '(s', o) := clock_step s cl in step_ok admit_full (clock_tr s) cl o (clock_tr s').
Proof.
  unfold clock_inv. intros H. destruct cl as [k c|k c|k|n|]; cbn [clock_step fst step_ok step_okG access_keep].
  - unfold clock_tr. cbn [ck_o]. rewrite etr_eset. split; [exact H | apply Permutation_refl].
  - unfold clock_admit, admit_full. rewrite ehas_lookup. fold (clock_tr s).
    destruct (lookup k (clock_tr s)) eqn:E.
    + unfold clock_tr at 1 2. cbn [ck_o]. fold (clock_tr s).
      pose proof (etr_esetcost k c (ck_o s) n H E) as HP. fold (clock_tr s) in HP.
      split; [|exact HP]. eapply perm_NoDup_keys; [exact HP | apply NoDup_cons_rm; exact H].
    + unfold clock_tr at 1 2. cbn [ck_o]. rewrite etr_app. cbn [etr map ekc fst].
      fold (clock_tr s). split; [apply snoc_NoDup; assumption|].
      rewrite rm_id by (apply lookup_None; exact E).
      apply Permutation_sym, Permutation_cons_append.
  - unfold clock_remove. destruct (eindex k (ck_o s)) eqn:E.
    + unfold clock_tr. cbn [ck_o]. rewrite etr_erm.
      split; [apply rm_NoDup; exact H | apply Permutation_refl].
    + split; [exact H|]. apply eindex_lookup in E. fold (clock_tr s) in E.
      rewrite rm_id; [apply Permutation_refl | apply lookup_None; exact E].
  - destruct (evict_loop clock_evict_one (length (ck_o s)) n 0 s []) as [[s' vs] f] eqn:E.
    cbn [fst step_ok step_okG access_keep].
    assert (Hlen : length (ck_o s) = length (clock_tr s)) by (unfold clock_tr, etr; rewrite map_length; reflexivity).
    rewrite Hlen in E.
    destruct (evict_loop_ok clock_evict_one clock_tr clock_one_some clock_one_none _ _ _ _ _ H E) as [A B].
    split; assumption.
  - split; [constructor | reflexivity].
Qed.

Theorem clock_contract : contract admit_full ClockP.
Proof.
  apply (contract_lift admit_full ClockP clock_inv).
  - constructor.
  - intros s cl H. apply clock_step_all. exact H.
  - intros s H. exact H.
  - intros s cl H. apply (clock_step_all s cl H).
Qed.
