(* Proofs/PolicySlruProofs.v — contract for SlruP (and the SlruState lemmas
   reused by TinyLfu). *)
From Fibre Require Import Common.Base Cache.PolicySpec Cache.PolicyLru Cache.PolicySlru
     Proofs.PolicyCommon Proofs.PolicyLruProofs.

Lemma ll_pop_back_some l x l' : ll_pop_back l = Some (x, l') -> l = l' ++ [x].
Proof.
  unfold ll_pop_back. destruct (rev l) as [|y r] eqn:E; [discriminate|].
  intros H. inversion H; subst. rewrite <- (rev_involutive l), E. reflexivity.
Qed.

Lemma ll_pop_back_none l : ll_pop_back l = None -> l = [].
Proof.
  unfold ll_pop_back. destruct (rev l) as [|y r] eqn:E; [|discriminate].
  intros _. rewrite <- (rev_involutive l), E. reflexivity.
Qed.

Lemma ll_has_true k l : ll_has k l = true <-> In k (keys l).
Proof.
  unfold ll_has. destruct (lookup k l) eqn:E.
  - split; [intros _; eapply lookup_Some_keys; eauto | reflexivity].
  - split; [discriminate | intros H; apply lookup_None in E; contradiction].
Qed.

Lemma ll_has_false k l : ll_has k l = false <-> ~ In k (keys l).
Proof.
  unfold ll_has. destruct (lookup k l) eqn:E.
  - split; [discriminate | intros H; exfalso; apply H; eapply lookup_Some_keys; eauto].
  - split; [intros _; apply lookup_None; exact E | reflexivity].
Qed.

Lemma ll_has_lookup k l : ll_has k l = true -> exists c, lookup k l = Some c.
Proof. intros H. apply ll_has_true in H. apply In_keys_lookup. exact H. Qed.

Definition slru_inv (s : slru) : Prop := NoDup (keys (slru_tr s)).

(** maintain_capacities only moves entries between the segments *)
Lemma slru_maintain_perm fuel pcap : forall prob prot pb pt,
  NoDup (keys (prob ++ prot)) ->
  slru_maintain fuel pcap prob prot = (pb, pt) ->
  Permutation (pb ++ pt) (prob ++ prot).
Proof.
  induction fuel as [|f IH]; intros prob prot pb pt Hnd H; cbn [slru_maintain] in H.
  - inversion H; subst. apply Permutation_refl.
  - destruct (N.ltb pcap (total prot)); [|inversion H; subst; apply Permutation_refl].
    destruct (ll_pop_back prot) as [[[k c] prot']|] eqn:E; [|inversion H; subst; apply Permutation_refl].
    apply ll_pop_back_some in E. subst prot.
    assert (Hk : ~ In k (keys prob)).
    { intros Hi. rewrite keys_app in Hnd. eapply NoDup_app_disjoint; [exact Hnd | exact Hi|].
      rewrite keys_app. apply in_or_app. right. left. reflexivity. }
    unfold ll_push_front in H. rewrite (rm_id k prob Hk) in H.
    assert (HP : Permutation (((k, c) :: prob) ++ prot') (prob ++ prot' ++ [(k, c)])).
    { cbn [app]. rewrite app_assoc. apply Permutation_cons_append. }
    eapply Permutation_trans; [|exact HP].
    apply (IH _ _ _ _) in H; [exact H|].
    eapply perm_NoDup_keys; [exact HP | exact Hnd].
Qed.

(** the fuel supplied ([length prot]) suffices: on return the loop condition is false *)
Lemma slru_maintain_done fuel pcap : forall prob prot pb pt,
  (length prot <= fuel)%nat ->
  slru_maintain fuel pcap prob prot = (pb, pt) ->
  total pt <= pcap \/ pt = [].
Proof.
  induction fuel as [|f IH]; intros prob prot pb pt Hlen H; cbn [slru_maintain] in H.
  - inversion H; subst. right. destruct pt; [reflexivity | cbn [length] in Hlen; lia].
  - destruct (N.ltb_spec pcap (total prot)) as [Hlt|Hge]; [|inversion H; subst; left; exact Hge].
    destruct (ll_pop_back prot) as [[[k c] prot']|] eqn:E.
    + apply ll_pop_back_some in E. subst prot. rewrite app_length in Hlen. cbn [length] in Hlen.
      eapply IH; [|exact H]. lia.
    + inversion H; subst. right. apply ll_pop_back_none. exact E.
Qed.

Lemma slru_maintain_all_perm pcap s :
  slru_inv s -> Permutation (slru_tr (slru_maintain_all pcap s)) (slru_tr s).
Proof.
  unfold slru_inv, slru_maintain_all, slru_tr. intros H.
  destruct (slru_maintain (length (sl_prot s)) pcap (sl_prob s) (sl_prot s)) as [pb pt] eqn:E.
  cbn [sl_prob sl_prot]. eapply slru_maintain_perm; eauto.
Qed.

Lemma slru_maintain_all_done pcap s :
  total (sl_prot (slru_maintain_all pcap s)) <= pcap \/ sl_prot (slru_maintain_all pcap s) = [].
Proof.
  unfold slru_maintain_all.
  destruct (slru_maintain (length (sl_prot s)) pcap (sl_prob s) (sl_prot s)) as [pb pt] eqn:E.
  cbn [sl_prot]. eapply slru_maintain_done; [|exact E]. apply le_n.
Qed.

(** segment bookkeeping *)
Lemma tr_not_in_prob k s : slru_inv s -> In k (keys (sl_prot s)) -> ~ In k (keys (sl_prob s)).
Proof.
  unfold slru_inv, slru_tr. rewrite keys_app. intros H Hi Hp.
  eapply NoDup_app_disjoint; eauto.
Qed.

Lemma slru_lookup_prot k s : slru_inv s -> In k (keys (sl_prot s)) ->
  exists c, lookup k (slru_tr s) = Some c.
Proof.
  intros H Hi. apply In_keys_lookup. unfold slru_tr. rewrite keys_app.
  apply in_or_app. right. exact Hi.
Qed.

Lemma slru_access_ok pcap k c s : slru_inv s ->
  access_update (slru_tr s) (slru_tr (slru_access pcap k c s)) k c.
Proof.
  intros H. unfold access_update, slru_access.
  destruct (ll_has k (sl_prot s)) eqn:Ept.
  - apply ll_has_true in Ept. destruct (slru_lookup_prot _ _ H Ept) as [c0 Hl]. rewrite Hl.
    unfold slru_tr. cbn [sl_prob sl_prot]. unfold ll_push_front.
    rewrite rm_app, (rm_id k (sl_prob s)) by (apply tr_not_in_prob; assumption).
    apply Permutation_sym, Permutation_middle.
  - apply ll_has_false in Ept. destruct (ll_has k (sl_prob s)) eqn:Epb.
    + apply ll_has_true in Epb.
      assert (Hl : exists c0, lookup k (slru_tr s) = Some c0).
      { apply In_keys_lookup. unfold slru_tr. rewrite keys_app. apply in_or_app. left. exact Epb. }
      destruct Hl as [c0 Hl]. rewrite Hl.
      set (s1 := mkSlru (ll_remove k (sl_prob s)) (ll_push_front k c (sl_prot s))).
      assert (HP1 : Permutation (slru_tr s1) ((k, c) :: rm k (slru_tr s))).
      { unfold s1, slru_tr. cbn [sl_prob sl_prot]. unfold ll_push_front, ll_remove.
        rewrite rm_app. apply Permutation_sym, Permutation_middle. }
      assert (HI1 : slru_inv s1).
      { unfold slru_inv. eapply perm_NoDup_keys; [exact HP1 | apply NoDup_cons_rm; exact H]. }
      eapply Permutation_trans; [apply slru_maintain_all_perm; exact HI1 | exact HP1].
    + apply ll_has_false in Epb.
      assert (Hl : lookup k (slru_tr s) = None).
      { apply lookup_None. unfold slru_tr. rewrite keys_app. intros Hi.
        apply in_app_or in Hi. tauto. }
      rewrite Hl. apply Permutation_refl.
Qed.

Lemma slru_admit_ok k c s : slru_inv s ->
  admit_full (slru_tr s) (slru_tr (slru_admit k c s)) k c.
Proof.
  intros H. unfold admit_full, slru_admit, slru_tr. rewrite rm_app.
  destruct (ll_has k (sl_prot s)) eqn:Ept; cbn [sl_prob sl_prot]; unfold ll_push_front.
  - apply ll_has_true in Ept.
    rewrite (rm_id k (sl_prob s)) by (apply tr_not_in_prob; assumption).
    apply Permutation_sym, Permutation_middle.
  - apply ll_has_false in Ept. rewrite (rm_id k (sl_prot s) Ept). apply Permutation_refl.
Qed.

Lemma slru_remove_ok k s : slru_inv s ->
  Permutation (slru_tr (slru_remove k s)) (rm k (slru_tr s)).
Proof.
  intros H. unfold slru_remove, slru_tr. rewrite rm_app.
  destruct (ll_has k (sl_prob s)) eqn:Epb; cbn [sl_prob sl_prot]; unfold ll_remove.
  - apply ll_has_true in Epb.
    assert (Hn : ~ In k (keys (sl_prot s))).
    { intros Hi. eapply tr_not_in_prob; eauto. }
    rewrite (rm_id k (sl_prot s) Hn). apply Permutation_refl.
  - apply ll_has_false in Epb. rewrite (rm_id k (sl_prob s) Epb). apply Permutation_refl.
Qed.

Lemma seg_split_perm (R1 R2 tk1 tk2 : list kc) :
  Permutation ((rev R1 ++ rev tk1) ++ (rev R2 ++ rev tk2)) ((tk1 ++ tk2) ++ rev R1 ++ rev R2).
Proof.
  assert (A : forall R tk : list kc, Permutation (rev R ++ rev tk) (tk ++ rev R)).
  { intros R tk. eapply Permutation_trans; [apply Permutation_app_comm|].
    apply Permutation_app_tail. apply Permutation_sym, Permutation_rev. }
  eapply Permutation_trans; [apply Permutation_app; apply A|].
  rewrite <- !app_assoc. apply Permutation_app_head.
  rewrite !app_assoc. apply Permutation_app_tail. apply Permutation_app_comm.
Qed.

(* the victims V and the survivors split the tracked entries; all is taken if short *)
Lemma slru_evict_split pcap n s s' vs f : slru_inv s ->
  slru_evict pcap n s = (s', vs, f) ->
  exists V, vs = keys V /\ f = total V /\ Permutation (slru_tr s) (V ++ slru_tr s')
    /\ (n <= f \/ slru_tr s' = []).
Proof.
  intros H. unfold slru_evict.
  pose proof (slru_maintain_all_perm pcap s H) as HP1.
  set (s1 := slru_maintain_all pcap s) in *.
  destruct (pop_while n 0 (rev (sl_prob s1))) as [[vs1 f1] rest1] eqn:E1.
  destruct (pop_while n f1 (rev (sl_prot s1))) as [[vs2 f2] rest2] eqn:E2.
  intros Hr. inversion Hr; subst s' vs f. clear Hr.
  destruct (pop_while_spec _ _ _ _ _ _ E1) as [tk1 [Hr1 [Hv1 [Hf1 [Hs1 _]]]]].
  destruct (pop_while_spec _ _ _ _ _ _ E2) as [tk2 [Hr2 [Hv2 [Hf2 [Hs2 _]]]]].
  assert (Hpb : sl_prob s1 = rev rest1 ++ rev tk1).
  { rewrite <- (rev_involutive (sl_prob s1)), Hr1, rev_app_distr. reflexivity. }
  assert (Hpt : sl_prot s1 = rev rest2 ++ rev tk2).
  { rewrite <- (rev_involutive (sl_prot s1)), Hr2, rev_app_distr. reflexivity. }
  exists (tk1 ++ tk2). unfold slru_tr at 2 3. cbn [sl_prob sl_prot]. repeat split.
  - subst vs1 vs2. rewrite keys_app. reflexivity.
  - rewrite total_app. lia.
  - eapply Permutation_trans; [apply Permutation_sym; exact HP1|].
    unfold slru_tr at 1. rewrite Hpb, Hpt. apply seg_split_perm.
  - destruct Hs2 as [Hs2|Hs2]; [left; exact Hs2|].
    destruct Hs1 as [Hs1|Hs1]; [left; lia|].
    right. subst rest1 rest2. reflexivity.
Qed.

Lemma slru_evict_ok pcap n s s' vs f : slru_inv s ->
  slru_evict pcap n s = (s', vs, f) -> evict_ok (slru_tr s) (slru_tr s') n vs f.
Proof.
  intros H E. destruct (slru_evict_split _ _ _ _ _ _ H E) as [V [Hv [Hf [HP Hs]]]].
  subst vs. apply evict_ok_split; [exact H | exact HP | exact Hf|].
  intros Hn. destruct Hs as [Hs|Hs]; [exact Hs|].
  rewrite Hs, app_nil_r in HP. apply total_perm in HP. lia.
Qed.

Lemma slru_step_ok cap s cl : slru_inv s ->
  let '(s', o) := slru_step cap s cl in
  step_okG access_update admit_full evict_ok (slru_tr s) cl o (slru_tr s').
Proof.
  intros H. destruct cl as [k c|k c|k|n|]; cbn [slru_step step_okG].
  - apply slru_access_ok. exact H.
  - apply slru_admit_ok. exact H.
  - apply slru_remove_ok. exact H.
  - destruct (slru_evict (slru_prot_capacity cap) n s) as [[s' vs] f] eqn:E.
    cbn [step_okG]. eapply slru_evict_ok; eauto.
  - reflexivity.
Qed.

Theorem slru_contract cap : contractG access_update admit_full evict_ok (SlruP cap).
Proof.
  apply contractG_lift_nodup.
  - exact access_update_NoDup.
  - exact admit_full_NoDup.
  - intros T T' n vs c. apply evict_ok_core.
  - constructor.
  - intros s cl Hs. exact (slru_step_ok cap s cl Hs).
Qed.

(** when the access passes the recorded cost (what the cache does: the entry's
    cost), on_access leaves every recorded cost as it is *)
Lemma access_update_same T T' k c :
  NoDup (keys T) -> lookup k T = Some c -> access_update T T' k c -> access_keep T T' k c.
Proof.
  unfold access_update, access_keep. intros Hnd Hl. rewrite Hl. intros P.
  eapply Permutation_trans; [exact P|]. apply perm_rm_cons; assumption.
Qed.

(** Slru evicts the probationary segment first, least recent first, then the
    protected segment; and no more than needed. *)
Theorem slru_evict_order pcap n s :
  let s1 := slru_maintain_all pcap s in
  let '(s', vs, f) := slru_evict pcap n s in
  exists V1 V2, vs = keys V1 ++ keys V2 /\ f = total V1 + total V2
    /\ sl_prob s1 = sl_prob s' ++ rev V1 /\ sl_prot s1 = sl_prot s' ++ rev V2
    /\ (V2 <> [] -> sl_prob s' = [])
    /\ (n <= f \/ (sl_prob s' = [] /\ sl_prot s' = [])).
Proof.
  cbv zeta. unfold slru_evict.
  set (s1 := slru_maintain_all pcap s).
  destruct (pop_while n 0 (rev (sl_prob s1))) as [[vs1 f1] rest1] eqn:E1.
  destruct (pop_while n f1 (rev (sl_prot s1))) as [[vs2 f2] rest2] eqn:E2.
  destruct (pop_while_spec _ _ _ _ _ _ E1) as [tk1 [Hr1 [Hv1 [Hf1 [Hs1 _]]]]].
  destruct (pop_while_spec _ _ _ _ _ _ E2) as [tk2 [Hr2 [Hv2 [Hf2 [Hs2 Hmin2]]]]].
  exists tk1, tk2. cbn [sl_prob sl_prot]. repeat split.
  - subst. reflexivity.
  - lia.
  - rewrite <- (rev_involutive (sl_prob s1)), Hr1, rev_app_distr. reflexivity.
  - rewrite <- (rev_involutive (sl_prot s1)), Hr2, rev_app_distr. reflexivity.
  - intros Hne. destruct Hs1 as [Hs1|Hs1]; [|subst rest1; reflexivity].
    exfalso. destruct tk2 as [|x t] using rev_ind; [congruence|].
    specialize (Hmin2 t x eq_refl). lia.
  - destruct Hs2 as [Hs2|Hs2]; [left; exact Hs2|].
    destruct Hs1 as [Hs1|Hs1]; [left; lia|].
    right. subst. split; reflexivity.
Qed.
