(* Proofs/MpmcK3Examples.v — non-vacuity witnesses and regression witnesses for the K3' bounded-MPMC
   theorems: concrete programs and schedules evaluated with vm_compute. *)
From Coq Require Import List NArith Arith Bool.
From Fibre Require Import Common.Conc Chan.MpmcK3.
Import ListNotations.

Fixpoint rep (n : nat) (t : nat) : list (nat * choice) :=
  match n with O => [] | S m => (t, CGo) :: rep m t end.

(* ---- cap 1, one producer (thread 0), two consumers (1, 2): both consumers register and park;
   the first send signals consumer 1 (CAS WAITING -> SUCCESS_SPACE under the lock, unpark), the
   second send finds the ring full, the producer registers and parks; consumer 1 pops, signals the
   producer; ... everything terminates, the last close wakes nobody *)
Definition ex_th := [TProd [Send; Send; TrySend]; TCons [Recv; Drain]; TCons [RecvT; TryRecv]].
Definition ex_sys := sys 1 cfg_fixed ex_th.
Definition ex_s1 := fst (run ex_sys (init ex_th) (rep 40 1 ++ rep 40 2)).
Definition ex_s2 := fst (run ex_sys ex_s1 (rep 60 0)).
Definition ex_s3 := fst (run ex_sys ex_s2 (rep 60 1 ++ rep 60 0 ++ rep 60 1 ++ rep 60 2 ++ rep 60 0 ++ rep 60 1 ++ rep 60 2)).

Lemma ex_both_parked :
  parked ex_s1 1 /\ parked ex_s1 2 /\ wr ex_s1 = [(1, 1); (2, 1)] /\ lk ex_s1 = None.
Proof. vm_compute. repeat split; (left; reflexivity) || (right; left; reflexivity) || (right; right; left; reflexivity) || reflexivity. Qed.

Lemma ex_signalled_then_full :
  flag ex_s2 1 = FSuccess /\ tok ex_s2 1 = true /\ wr ex_s2 = [(2, 1)] /\ q ex_s2 = [(0, 1)] /\
  parked ex_s2 0 /\ ws ex_s2 = [(0, 1)] /\ owedR ex_s2 = [1].
Proof. vm_compute. repeat split; try reflexivity. left. reflexivity. Qed.

Lemma ex_completes :
  (forall t, pcs ex_s3 t = Done) /\ q ex_s3 = [] /\ bad ex_s3 = false /\ discbad ex_s3 = false /\
  accepted ex_s3 = [(0, 1); (0, 2)] /\ map snd (popped ex_s3) = [(0, 1); (0, 2)] /\ scnt ex_s3 = 0 /\ rcnt ex_s3 = 0.
Proof.
  split; [|vm_compute; repeat split; reflexivity].
  intros t. destruct t as [|[|[|t]]]; vm_compute; reflexivity.
Qed.

Definition ex_results := results ex_s3.

(* ---- F-08 regression witness: without the re-drain after a close wake-up a receiver is told
   Disconnected while a value is still buffered (handed to the other, not yet scheduled receiver) *)
Definition w08_th := [TProd [Send]; TCons [Recv]; TCons [Recv]].
Definition w08_sch := rep 40 1 ++ rep 40 2 ++ rep 60 0 ++ rep 40 2.
Definition w08 (cf : cfg) := fst (run (sys 1 cf w08_th) (init w08_th) w08_sch).

Lemma w08_without_redrain : discbad (w08 (mkCfg true false)) = true /\ q (w08 (mkCfg true false)) = [(0, 1)].
Proof. vm_compute. split; reflexivity. Qed.
Lemma w08_with_redrain : discbad (w08 cfg_fixed) = false.
Proof. vm_compute. reflexivity. Qed.

(* ---- F-02 regression witness: without re-arming, a timed receiver that was signalled but lost the
   item to a try_recv stays parked without a linked record: the next send wakes nobody (lost wakeup:
   quiescent state, parked receiver, non-empty ring); if instead the deadline fires while the ring
   is empty the old code hits unreachable!() *)
Definition w02_th := [TProd [Send; Send]; TCons [RecvT]; TCons [TryRecv]].
Definition w02_sch := rep 40 1 ++ rep 12 0 ++ rep 40 2 ++ rep 40 1 ++ rep 80 0.
Definition w02 (cf : cfg) := fst (run (sys 1 cf w02_th) (init w02_th) w02_sch).

Lemma w02_without_rearm :
  let s := w02 (mkCfg false true) in
  quiescent_go 1 (mkCfg false true) s /\ parked s 1 /\ q s = [(0, 2)] /\ scnt s = 0.
Proof.
  split; [|vm_compute; repeat split; try reflexivity; right; right; right; reflexivity].
  intros t. destruct t as [|[|[|t]]]; vm_compute; reflexivity.
Qed.

Lemma w02_with_rearm :
  let s := w02 cfg_fixed in
  gen s 1 = 2 /\ q s = [(0, 2)] /\ flag s 1 = FSuccess /\ tok s 1 = true /\ owedR s = [1] /\ ~ parked s 1.
Proof. vm_compute. repeat split; try reflexivity. intros [_ X]. discriminate X. Qed.

Definition w02p_th := w02_th.
Definition w02p_sch := rep 40 1 ++ rep 12 0 ++ rep 40 2 ++ rep 40 1 ++ [(1, CTimeout)] ++ rep 10 1.
Definition w02p (cf : cfg) := fst (run (sys 1 cf w02p_th) (init w02p_th) w02p_sch).
Lemma w02_panics_without_rearm : bad (w02p (mkCfg false true)) = true /\ pcs (w02p (mkCfg false true)) 1 = Panicked.
Proof. vm_compute. split; reflexivity. Qed.
