(* Proofs/MpmcK3Res.v — milestone 1, API results: ids named by a producer's results are its own and
   old or finished; failed sends never entered the ring; each producer's accepted ids = its Ok
   results (+ the one in flight); each consumer's pops = the values it returned (+ the one in hand). *)
From Coq Require Import List NArith Arith Bool Lia Sorted.
From Fibre Require Import Common.Conc Chan.MpmcK3 Proofs.MpmcK3Base Proofs.MpmcK3Queue.
Import ListNotations.

Record InvR1 (s : st) : Prop := {
  R_res : forall p r v, In (p, r) (results s) -> In v (res_ids r) ->
            fst v = p /\ (snd v < pseq s p \/ (snd v = pseq s p /\ unpushed (pcs s p) = false));
  R_failed : forall p r v, In (p, r) (results s) -> In v (res_failed r) -> ~ In v (accepted s) }.

Ltac res_old R1 t pp :=
  let F := fresh "F" in let Lt := fresh "Lt" in let Eq := fresh "Eq" in let U := fresh "U" in
  match goal with Hin : In _ (results _), Hv : In _ (res_ids _) |- _ =>
    destruct (R1 _ _ _ Hin Hv) as [F [Lt|[Eq U]]]; (split; [exact F|]);
    split_thr pp t; try (match goal with E : pcs _ t = _ |- _ => rewrite E in U end); cbn [unpushed] in *;
    first [ left; lia | right; split; [lia | first [reflexivity | assumption]] | discriminate U ]
  end.

Lemma InvR1_step cap cf s t c s' e :
  InvL s -> InvA s -> InvR1 s -> step cap cf s t c = Some (s', e) -> InvR1 s'.
Proof.
  intros HL [A1 A2 A3 A4] [R1 R2] H.
  pose proof (A2 t) as A2t.
  step_cases H; cbn [unpushed] in *.
  all: constructor; fsimpl.
  (* R_res *)
  all: try solve [ intros pp rr vv Hin Hv; res_old R1 t pp ].
  all: try solve [ intros pp rr vv Hin Hv; apply in_app_iff in Hin; destruct Hin as [Hin|[Hin|[]]];
                   [ res_old R1 t pp
                   | inversion Hin; subst; cbn in Hv;
                     first [ contradiction
                           | destruct Hv as [<-|[]]; cbn [fst snd]; rewrite ?upd_eq;
                             split; [reflexivity | right; split; reflexivity] ] ] ].
  (* R_failed *)
  all: try solve [ exact R2 ].
  all: try solve [ intros pp rr vv Hin Hv; apply in_app_iff in Hin; destruct Hin as [Hin|[Hin|[]]];
                   [ exact (R2 _ _ _ Hin Hv)
                   | inversion Hin; subst; cbn in Hv;
                     first [ contradiction
                           | destruct Hv as [<-|[]]; rewrite ?upd_eq;
                             first [ apply A2t; reflexivity | intros X; apply A1 in X; lia ] ] ] ].
  all: try solve [ intros pp rr vv Hin Hv X; apply in_app_iff in X; destruct X as [X|[X|[]]];
                   [ exact (R2 _ _ _ Hin Hv X)
                   | assert (Hv' : In vv (res_ids rr)) by (unfold res_ids; apply in_app_iff; left; exact Hv);
                     destruct (R1 _ _ _ Hin Hv') as [F [Lt|[Eq U]]]; subst vv; cbn [fst snd] in *; subst;
                     first [ lia | rewrite Epc in U; discriminate U ] ] ].
Qed.

Record InvR2 (s : st) : Prop := {
  R_sent : forall p, from_prod p (accepted s) = sent_ok s p ++ (if in_flight (pcs s p) then [(p, pseq s p)] else []);
  R_got : forall c, of_thread c (popped s) = got s c ++ in_hand (pcs s c) }.

Ltac norm_lists :=
  unfold sent_ok, got in *; fsimpl;
  rewrite ?of_thread_app, ?from_prod_app, ?flat_map_app, ?of_thread_one_eq, ?from_prod_one_eq;
  rewrite ?of_thread_one_neq, ?from_prod_one_neq by congruence;
  cbn [flat_map res_ok res_val app in_flight in_hand]; rewrite ?app_nil_r in *.

Lemma InvR2_step cap cf s t c s' e :
  InvR2 s -> step cap cf s t c = Some (s', e) -> InvR2 s'.
Proof.
  intros [R3 R4] H.
  pose proof (R3 t) as R3t. pose proof (R4 t) as R4t.
  step_cases H; cbn [in_flight in_hand] in *.
  all: constructor; fsimpl.
  all: intros pp; split_thr pp t; [ | pose proof (R3 pp) as R3p; pose proof (R4 pp) as R4p ].
  all: norm_lists.
  all: try solve [ assumption | congruence ].
  all: rewrite ?upd_neq by assumption; assumption.
Qed.
