(* Proofs/HRwQueue.v — wait-list invariants of the HybridRwLock model: RInvP (future ownership vs pc),
   RInvN (a node is WAITING inside its owner's queue section), RInvC (no owner twice; is_writer flag =
   owner's kind, hence the owner of a linked node is alive; every thread knows whether its node is
   linked), RInvDp (WRITER_PENDING exact outside an unfinished fix_flags). *)
From Coq Require Import List NArith Arith Bool Lia.
From Fibre Require Import Common.Conc Sync.HMutex Sync.HRwLock Proofs.HMutexBase Proofs.HRwBase Proofs.HRwGuard.
Import ListNotations.

(* ---- per-thread consistency of `rfut` with the program counter *)
Definition rfutok (p : rpc) (f : option (rw * bool)) : Prop :=
  match p with
  | RTALoad (RASpin _ _) | RTACas (RASpin _ _) _ _ _ | RYield _ _ | RSpinNext _ _
  | RLLSwap (RLQ (RQSync _ _)) | RLLLoad (RLQ (RQSync _ _)) | RLLSpin (RLQ (RQSync _ _))
  | RQRearm (RQSync _ _) | RQFor (RQSync _ _) | RQLoad (RQSync _ _) | RQCas (RQSync _ _) _ _ _
  | RFix1 (RFQ (RQSync _ _)) | RFix2 (RFQ (RQSync _ _)) | RQUnl (RQSync _ _) _
  | RPLoad _ | RPark _
  | RLLSwap (RLX (RQSync _ _)) | RLLLoad (RLX (RQSync _ _)) | RLLSpin (RLX (RQSync _ _))
  | RFix1 (RFX (RQSync _ _)) | RFix2 (RFX (RQSync _ _)) | RXUnl (RQSync _ _)
  | RTALoad (RALock _) | RTACas (RALock _) _ _ _ | RTALoad (RAFirst _ _) | RTACas (RAFirst _ _) _ _ _ => f = None
  | RTALoad (RAPoll k b) | RTACas (RAPoll k b) _ _ _ | RPollNext k b => f = None \/ f = Some (k, b)
  | RLLSwap (RLQ (RQFut k b)) | RLLLoad (RLQ (RQFut k b)) | RLLSpin (RLQ (RQFut k b))
  | RQRearm (RQFut k b) | RQFor (RQFut k b) | RQLoad (RQFut k b) | RQCas (RQFut k b) _ _ _
  | RFix1 (RFQ (RQFut k b)) | RFix2 (RFQ (RQFut k b)) | RQUnl (RQFut k b) _
  | RLLSwap (RLX (RQFut k b)) | RLLLoad (RLX (RQFut k b)) | RLLSpin (RLX (RQFut k b))
  | RFix1 (RFX (RQFut k b)) | RFix2 (RFX (RQFut k b)) | RXUnl (RQFut k b) => f = Some (k, b)
  | RBPark => exists k, f = Some (k, true)
  | RLLSwap RLDrop | RLLLoad RLDrop | RLLSpin RLDrop | RFix1 RFD | RFix2 RFD | RDUnl | RDLoad => exists k, f = Some (k, false)
  | RIdle | RTALoad (RATry _) | RTACas (RATry _) _ _ _ | RCS _ | RURel _
  | RLLSwap RLWake | RLLLoad RLWake | RLLSpin RLWake
  | RWSweep _ | RFix1 (RFW _) | RFix2 (RFW _) | RWUnl _ | RWWake _ _ | RWaitW => forall k, f <> Some (k, true)
  end.

Definition RInvP s := forall u, rfutok (rpcs s u) (rfut s u).

Lemma rflush_fut s t ws : rfut (rflush s t ws) = rfut s.
Proof. revert s. induction ws as [|[k h] r IH]; intros s; cbn [rflush]; [reflexivity|]. destruct k; try apply IH; reflexivity. Qed.

Lemma rflush_pc_cases s t ws : rpcs (rflush s t ws) t = RIdle \/ exists h r, rpcs (rflush s t ws) t = RWWake h r.
Proof.
  revert s. induction ws as [|[k h] r IH]; intros s; cbn [rflush].
  - left. cbn. apply upd_eq.
  - destruct k; try apply IH; right; exists h, r; cbn; apply upd_eq.
Qed.

Lemma RInvP_step s t c s' e : RInvP s -> rwstep s t c = Some (s', e) -> RInvP s'.
Proof.
  intros P H. pose proof (P t) as Pt.
  rstep_cases H; rewrite Epc in Pt; cbn [rfutok] in Pt; unfold RInvP; rsimpl; intros u.
  all: try solve [ split_thr u t; try apply P; cbn [rfutok]; rewrite ?upd_eq; auto; try congruence ].
  (* flush leaves *)
  all: try solve [
    match goal with |- context [rflush ?s0 ?tt ?ws] =>
      rewrite rflush_fut; rsimpl;
      destruct (Nat.eq_dec u tt) as [->|Hu];
      [ destruct (rflush_pc_cases s0 tt ws) as [X|[hh [rr X]]]; rewrite X; cbn [rfutok]; exact Pt
      | rewrite rflush_pcs by assumption; rsimpl; apply P ]
    end ].
  all: split_thr u t; [ | apply P ]; cbn [rfutok];
       destruct (rfut s t) as [[kk [|]]|] eqn:F; cbn [rfutok] in *;
       try (lazymatch type of Pt with ex _ => destruct Pt as [kx Pt] | _ \/ _ => destruct Pt as [Pt|Pt] end);
       try solve [exfalso; eapply Pt; reflexivity]; try congruence; eauto;
       try (right; congruence); try (left; congruence).
Qed.

(* ---- inside its own queue section after the re-arm a node is WAITING *)
Definition rarmed_sec (p : rpc) : bool :=
  match p with RQFor _ | RQLoad _ | RQCas _ _ _ _ | RQUnl _ false => true | _ => false end.

Definition RInvN s := forall u, rarmed_sec (rpcs s u) = true -> rnwk s u = false.

Lemma rarmed_inlist p : rarmed_sec p = true -> rinlist p = true.
Proof. destruct p; cbn; try discriminate; auto. Qed.

Lemma rflush_nwk s t ws : rnwk (rflush s t ws) = rnwk s.
Proof. revert s. induction ws as [|[k h] r IH]; intros s; cbn [rflush]; [reflexivity|]. destruct k; try apply IH; reflexivity. Qed.

Lemma rflush_armed s t ws : rarmed_sec (rpcs (rflush s t ws) t) = false.
Proof. destruct (rflush_pc_cases s t ws) as [X|[h [r X]]]; rewrite X; reflexivity. Qed.

Lemma RInvN_step s t c s' e : RInvB s -> RInvN s -> rwstep s t c = Some (s', e) -> RInvN s'.
Proof.
  intros [B1 B2] N H. pose proof (N t) as Nt.
  assert (HB : rinlist (rpcs s t) = true -> forall u, u <> t -> rarmed_sec (rpcs s u) = true -> False).
  { intros X u Hu Y. apply rarmed_inlist in Y. apply B1 in Y. apply B1 in X. congruence. }
  rstep_cases H; rewrite Epc in Nt, HB; cbn [rarmed_sec rinlist] in Nt, HB; unfold RInvN; rsimpl; intros u.
  all: try solve [ split_thr u t; [ cbn [rarmed_sec]; auto; try discriminate | apply N ] ].
  all: try solve [
    match goal with |- context [rflush ?s0 ?tt ?ws] =>
      rewrite rflush_nwk; rsimpl;
      destruct (Nat.eq_dec u tt) as [->|Hu];
      [ rewrite rflush_armed; discriminate | rewrite rflush_pcs by assumption; rsimpl; apply N ]
    end ].
  (* marking / sweeping another node: its owner is not inside a list section *)
  all: split_thr u t; [ cbn [rarmed_sec]; discriminate | ];
       intros Hu; match goal with |- upd _ ?h _ _ = _ => destruct (Nat.eq_dec u h) as [->|Hh] end;
       [ exfalso; eapply HB; eauto | rewrite upd_neq by assumption; apply N; exact Hu ].
Qed.

(* ---- the wait list: no owner twice; the is_writer flag of a linked node is its owner's kind (so the
   owner is alive); every thread knows whether its node is linked (readers: linked iff not WOKEN,
   because the sweep of wake_waiters unlinks what it wakes) *)
Definition flk (f : option (rw * bool)) (nw : bool) : option bool :=
  match f with None => Some false | Some (k, _) => Some (is_wr k || negb nw) end.

Definition rlk (p : rpc) (f : option (rw * bool)) (nw : bool) : option bool :=
  match p with
  | RTALoad (RASpin k l) | RTACas (RASpin k l) _ _ _ | RYield k l | RSpinNext k l
  | RLLSwap (RLQ (RQSync k l)) | RLLLoad (RLQ (RQSync k l)) | RLLSpin (RLQ (RQSync k l))
  | RQRearm (RQSync k l) => Some (l && is_wr k)
  | RLLSwap (RLQ (RQFut _ _)) | RLLLoad (RLQ (RQFut _ _)) | RLLSpin (RLQ (RQFut _ _)) | RQRearm (RQFut _ _) => None
  | RQFor _ | RQLoad _ | RQCas _ _ _ _ | RQUnl _ false => Some true
  | RPLoad k | RPark k => Some (is_wr k || negb nw)
  | RFix1 (RFQ _) | RFix2 (RFQ _) | RQUnl _ true | RFix1 (RFX _) | RFix2 (RFX _) | RXUnl _
  | RFix1 RFD | RFix2 RFD | RDUnl | RDLoad => Some false
  | RLLSwap (RLX (RQSync k _)) | RLLLoad (RLX (RQSync k _)) | RLLSpin (RLX (RQSync k _)) => Some (is_wr k)
  | _ => flk f nw
  end.

Definition rckind (p : rpc) (f : option (rw * bool)) : option rw :=
  match p with
  | RTALoad (RASpin k _) | RTACas (RASpin k _) _ _ _ | RYield k _ | RSpinNext k _
  | RLLSwap (RLQ (RQSync k _)) | RLLLoad (RLQ (RQSync k _)) | RLLSpin (RLQ (RQSync k _))
  | RQRearm (RQSync k _) | RQFor (RQSync k _) | RQLoad (RQSync k _) | RQCas (RQSync k _) _ _ _
  | RFix1 (RFQ (RQSync k _)) | RFix2 (RFQ (RQSync k _)) | RQUnl (RQSync k _) _
  | RPLoad k | RPark k
  | RLLSwap (RLX (RQSync k _)) | RLLLoad (RLX (RQSync k _)) | RLLSpin (RLX (RQSync k _))
  | RFix1 (RFX (RQSync k _)) | RFix2 (RFX (RQSync k _)) | RXUnl (RQSync k _) => Some k
  | _ => match f with Some (k, _) => Some k | None => None end
  end.

Definition rlinkok (s : rwstate) (u : nat) : Prop :=
  match rlk (rpcs s u) (rfut s u) (rnwk s u) with
  | Some true => exists b, In (u, b) (rqueue s)
  | Some false => forall b, ~ In (u, b) (rqueue s)
  | None => True
  end.

Definition RInvC s :=
  NoDup (map fst (rqueue s))
  /\ (forall u, rlinkok s u)
  /\ (forall u b, In (u, b) (rqueue s) -> exists k, rckind (rpcs s u) (rfut s u) = Some k /\ b = is_wr k).

Lemma qrem_map_NoDup t l : NoDup (map fst l) -> NoDup (map fst (qrem t l)).
Proof.
  induction l as [|[u b] r IH]; intros N; cbn; [constructor|].
  inversion N; subst. destruct (Nat.eqb u t); cbn; [apply IH; assumption|].
  constructor; [|apply IH; assumption].
  intros X. apply H1. apply in_map_iff in X. destruct X as [[u' b'] [E X]]. cbn in E. subst u'.
  apply qrem_In in X. apply in_map_iff. exists (u, b'). split; [reflexivity|tauto].
Qed.

Lemma app1_map_NoDup (t : nat) (w : bool) l : NoDup (map fst l) -> (forall b, ~ In (t, b) l) -> NoDup (map fst (l ++ [(t, w)])).
Proof.
  intros N H. rewrite map_app. cbn [map fst].
  induction (map fst l) as [|a m IH] eqn:EM in l, N, H |- *.
  - cbn. constructor; [intros []|constructor].
  - destruct l as [|[u b] r]; [discriminate|]. cbn in EM. injection EM as -> <-.
    inversion N; subst. cbn. constructor.
    + rewrite in_app_iff. cbn. intros [X|[X|[]]]; [contradiction|]. subst a. apply (H b). left. reflexivity.
    + apply (IH r); [reflexivity|assumption|]. intros b' X. apply (H b'). right. exact X.
Qed.

Lemma first_writer_In l n : first_writer l = Some n -> In (n, true) l.
Proof.
  induction l as [|[u b] r IH]; cbn; [discriminate|]. destruct b.
  - intros X. injection X as ->. left. reflexivity.
  - intros X. right. apply IH. exact X.
Qed.

Lemma first_writer_None l : first_writer l = None -> forall u, ~ In (u, true) l.
Proof.
  induction l as [|[u b] r IH]; cbn; [intros _ v []|]. destruct b; [discriminate|].
  intros X v [Y|Y]; [discriminate Y|]. exact (IH X v Y).
Qed.

(* the knowledge of a writer does not depend on its node state; a reader outside list sections
   whose node is WOKEN knows it is unlinked *)
Lemma rlk_wr_nw p f a b : rckind p f = Some WR -> rlk p f a = rlk p f b.
Proof.
  intros H. destruct p; cbn [rlk rckind flk] in *; try reflexivity;
    repeat match goal with
           | x : ractx |- _ => destruct x | x : rlctx |- _ => destruct x | x : rqctx |- _ => destruct x
           | x : rfixk |- _ => destruct x
           end; cbn [rlk rckind flk] in *; try reflexivity;
    try (injection H as ->; reflexivity);
    destruct f as [[[|] ?]|]; cbn in *; try reflexivity; try discriminate.
Qed.

Lemma rlk_rd_woken p f : rinlist p = false -> rckind p f = Some RD -> rlk p f true = Some false \/ rlk p f true = None.
Proof.
  intros HI H. destruct p; cbn [rlk rckind flk rinlist] in *; try discriminate HI;
    repeat match goal with
           | x : ractx |- _ => destruct x | x : rlctx |- _ => destruct x | x : rqctx |- _ => destruct x
           | x : rfixk |- _ => destruct x
           end; cbn [rlk rckind flk is_wr andb orb negb] in *; auto;
    try (injection H as ->; cbn; rewrite ?andb_false_r; auto);
    destruct f as [[[|] ?]|]; cbn in *; auto; try discriminate.
Qed.

Lemma rflush_queue s t ws : rqueue (rflush s t ws) = rqueue s.
Proof. destruct (rflush_frameD s t ws) as (_ & _ & X). exact X. Qed.

Ltac qmem_hyps :=
  repeat match goal with
         | E : qmem _ _ = true |- _ => apply qmem_In in E
         | E : qmem ?t ?l = false |- _ =>
             assert (forall b, ~ In (t, b) l)
               by (intros b X; assert (Y : qmem t l = true) by (apply qmem_In; exists b; exact X); congruence);
             clear E
         end.

Lemma RInvC_step s t c s' e :
  RInvB s -> RInvP s -> RInvN s -> RInvC s -> rwstep s t c = Some (s', e) -> RInvC s'.
Proof.
  intros [B1 B2] P N (C1 & C2 & C3) H.
  pose proof (P t) as Pt. pose proof (C2 t) as Ct. pose proof (N t) as Nt. unfold rlinkok in Ct.
  rstep_cases H; rewrite Epc in Pt, Ct, Nt; cbn [rfutok rlk flk rarmed_sec] in Pt, Ct, Nt; unfold RInvC, rlinkok; rsimpl.
  (* queue, node states and futures untouched; same knowledge at the new pc *)
  all: try solve [
    repeat apply conj; [ assumption | | ];
    [ intros u; split_thr u t; [ cbn [rlk flk]; rewrite ?upd_eq; auto | apply C2 ]
    | intros u b Hu; split_thr u t; [ | apply C3; exact Hu ];
      destruct (C3 t b Hu) as [kk [K1 K2]]; rewrite Epc in K1; cbn [rckind] in *; exists kk; split; assumption ] ].
  (* flush leaves *)
  all: try solve [
    match goal with |- context [rflush ?s0 ?tt ?ws] =>
      rewrite ?rflush_queue, ?rflush_fut, ?rflush_nwk; rsimpl;
      repeat apply conj; [ assumption | | ];
      [ intros u; destruct (Nat.eq_dec u tt) as [->|Hu];
        [ destruct (rflush_pc_cases s0 tt ws) as [X|[hh [rr X]]]; rewrite X; cbn [rlk]; exact Ct
        | rewrite rflush_pcs by assumption; rsimpl; apply C2 ]
      | intros u b Hu; destruct (C3 u b Hu) as [kk [K1 K2]]; exists kk; split; [|exact K2];
        destruct (Nat.eq_dec u tt) as [->|Hne];
        [ destruct (rflush_pc_cases s0 tt ws) as [X|[hh [rr X]]]; rewrite X; rewrite Epc in K1; exact K1
        | rewrite rflush_pcs by assumption; rsimpl; exact K1 ] ]
    end ].
  all: qmem_hyps.
  (* same queue / node states, thread-local reasoning *)
  all: try solve [
    repeat apply conj; [ assumption | | ];
    [ intros u; split_thr u t; [ | apply C2 ];
      cbn [rlk flk]; rewrite ?upd_eq;
      repeat match goal with x : rw |- _ => destruct x | x : bool |- _ => destruct x end;
      cbn [rlk flk is_wr andb orb negb] in *;
      try (destruct (rfut s t) as [[[|] [|]]|] eqn:F); try (destruct (rnwk s t) eqn:FN);
      cbn [rlk flk is_wr andb orb negb] in *;
      repeat match goal with X : _ \/ _ |- _ => destruct X | X : exists _, _ |- _ => destruct X end;
      try congruence; try discriminate; auto; try (specialize (Nt eq_refl); congruence)
    | intros u b Hu; split_thr u t; [ | apply C3; exact Hu ];
      destruct (C3 t b Hu) as [kk [K1 K2]]; rewrite Epc in K1; exists kk; split; [|exact K2];
      cbn [rckind] in *;
      repeat match goal with x : rw |- _ => destruct x | x : bool |- _ => destruct x end;
      try (destruct (rfut s t) as [[[|] [|]]|] eqn:F); cbn [rckind] in *;
      repeat match goal with X : _ \/ _ |- _ => destruct X | X : exists _, _ |- _ => destruct X end;
      try congruence; auto ] ].
  all: try match goal with E : rqueue _ = [] |- _ => rewrite <- E end.
  all: try match goal with E : rqueue _ = _ :: _ |- context [RQUnl] => rewrite <- E | E : rqueue _ = _ :: _ |- context [RXUnl] => rewrite <- E
                         | E : rqueue _ = _ :: _ |- context [RDUnl] => rewrite <- E | E : rqueue _ = _ :: _ |- context [RWUnl] => rewrite <- E end.
  all: try solve [
    repeat apply conj;
    [ first [ assumption | apply qrem_map_NoDup; assumption
            | apply app1_map_NoDup; [assumption|];
              repeat match goal with x : bool |- _ => destruct x end; cbn [andb is_wr] in *; assumption ]
    | intros u; split_thr u t;
      [ cbn [rlk flk]; rewrite ?upd_eq;
        repeat match goal with x : rw |- _ => destruct x | x : bool |- _ => destruct x end;
        cbn [rlk flk is_wr andb orb negb] in *;
        try (destruct (rfut s t) as [[[|] [|]]|] eqn:F); try (destruct (rnwk s t) eqn:FN);
        cbn [rlk flk is_wr andb orb negb] in *;
        repeat match goal with X : _ \/ _ |- _ => destruct X | X : exists _, _ |- _ => destruct X end;
        try congruence; try discriminate;
        first [ exact I
              | intros b0 X; apply qrem_In in X; destruct X; congruence
              | eexists; apply In_app1; right; reflexivity
              | assumption
              | eexists; eassumption
              | specialize (Nt eq_refl); congruence
              | auto ]
      | specialize (C2 u); unfold rlinkok in C2; destruct (rlk (rpcs s u) (rfut s u) (rnwk s u)) as [[|]|];
        [ destruct C2 as [b0 Hb]; exists b0;
          first [ exact Hb | apply qrem_In; split; assumption | apply In_app1; left; exact Hb ]
        | intros b0 X; apply (C2 b0);
          first [ exact X | apply qrem_In in X; tauto
                | apply In_app1 in X; destruct X as [X|X]; [exact X|injection X; intros; congruence] ]
        | exact I ] ]
    | intros u bb Hu;
      first [ apply qrem_In in Hu; destruct Hu as [Hu Hne] | apply In_app1 in Hu; destruct Hu as [Hu|Hu] | idtac ];
      [ split_thr u t; [ | apply C3; exact Hu ];
        first [ congruence |
        destruct (C3 t bb Hu) as [kk [K1 K2]]; rewrite Epc in K1; exists kk; split; [|exact K2];
        cbn [rckind] in *;
        repeat match goal with x : rw |- _ => destruct x | x : bool |- _ => destruct x end;
        cbn [rlk flk is_wr andb orb negb] in *;
        try (destruct (rfut s t) as [[[|] [|]]|] eqn:F); cbn [rckind flk is_wr andb orb negb] in *;
        repeat match goal with X : _ \/ _ |- _ => destruct X | X : exists _, _ |- _ => destruct X end;
        try congruence; auto; try solve [exfalso; eapply Ct; eauto] ]
      | .. ];
      try (injection Hu as -> ->; rewrite upd_eq; cbn [rckind rkind_q]; rewrite ?Pt; eexists; split; reflexivity) ] ].
  (* wake_waiters marks the first queued writer n (it stays linked) *)
  - match goal with E : first_writer _ = Some _ |- _ => pose proof (first_writer_In _ _ E) as Hn end.
    destruct (C3 n true Hn) as [kn [Kn1 Kn2]]. destruct kn; [discriminate Kn2|].
    repeat apply conj; [assumption| | ].
    + intros u. destruct (Nat.eq_dec u n) as [->|Hne].
      * rewrite upd_eq. destruct (Nat.eq_dec n t) as [->|Hnt].
        -- rewrite upd_eq. rewrite Epc in Kn1. cbn [rckind] in Kn1. cbn [rlk].
           destruct (rfut s t) as [[[|] ?]|]; try discriminate Kn1. cbn. exists true. exact Hn.
        -- rewrite upd_neq by assumption. rewrite (rlk_wr_nw _ _ true (rnwk s n) Kn1). apply C2.
      * rewrite (upd_neq (rnwk s)) by assumption. split_thr u t; [cbn [rlk]; exact Ct|apply C2].
    + intros u bb Hu. destruct (C3 u bb Hu) as [kk [K1 K2]]. exists kk. split; [|exact K2].
      split_thr u t; [rewrite Epc in K1; exact K1|exact K1].
  (* wake_waiters (no writer queued) unlinks and marks the head h *)
  - match goal with E : rqueue _ = _ :: _ |- _ => rename E into EQ end.
    rename n into h. rename b into b0. rewrite EQ in C1. cbn [map fst] in C1. inversion C1 as [|? ? Hnh Hnd]; subst.
    assert (Hh : In (h, b0) (rqueue s)) by (rewrite EQ; left; reflexivity).
    assert (Hb0 : b0 = false).
    { destruct b0; [|reflexivity]. exfalso.
      match goal with E : first_writer _ = None |- _ => exact (first_writer_None _ E h Hh) end. }
    subst b0. destruct (C3 h false Hh) as [kh [Kh1 Kh2]]. destruct kh; [|discriminate Kh2].
    assert (Hin : forall u b1, u <> h -> (In (u, b1) v <-> In (u, b1) (rqueue s))).
    { intros u b1 Hu. rewrite EQ. cbn [In]. split; [auto|]. intros [X|X]; [injection X; intros; congruence|exact X]. }
    assert (Hnot : forall b1, ~ In (h, b1) v).
    { intros b1 X. apply Hnh. apply in_map_iff. exists (h, b1). split; [reflexivity|exact X]. }
    repeat apply conj; [assumption| | ].
    + intros u. destruct (Nat.eq_dec u h) as [->|Hne].
      * rewrite upd_eq.
        assert (HIL : rinlist (rpcs s h) = false \/ h = t).
        { destruct (Nat.eq_dec h t); [right; assumption|left].
          destruct (rinlist (rpcs s h)) eqn:EI; [|reflexivity]. exfalso.
          apply B1 in EI. assert (L2 : rllock s = Some t) by (apply B1; rewrite Epc; reflexivity). congruence. }
        destruct HIL as [HIL| ->].
        -- assert (Hht : h <> t) by (intros ->; rewrite Epc in HIL; discriminate HIL).
           rewrite upd_neq by assumption.
           destruct (rlk_rd_woken _ _ HIL Kh1) as [X|X]; rewrite X; [exact Hnot|exact I].
        -- rewrite upd_eq. rewrite Epc in Kh1. cbn [rckind] in Kh1. cbn [rlk].
           destruct (rfut s t) as [[[|] ?]|]; try discriminate Kh1. cbn. exact Hnot.
      * rewrite (upd_neq (rnwk s)) by assumption.
        assert (X : match rlk (rpcs s u) (rfut s u) (rnwk s u) with
                    | Some true => exists b1, In (u, b1) v | Some false => forall b1, ~ In (u, b1) v | None => True end).
        { specialize (C2 u). unfold rlinkok in C2. destruct (rlk (rpcs s u) (rfut s u) (rnwk s u)) as [[|]|]; [| |exact I].
          - destruct C2 as [b1 Hb]. exists b1. apply Hin; assumption.
          - intros b1 Y. apply (C2 b1). apply Hin; assumption. }
        split_thr u t; [cbn [rlk]; rewrite Epc in X; exact X|exact X].
    + intros u bb Hu. assert (Hu' : In (u, bb) (rqueue s)) by (rewrite EQ; right; exact Hu).
      destruct (C3 u bb Hu') as [kk [K1 K2]]. exists kk. split; [|exact K2].
      split_thr u t; [rewrite Epc in K1; exact K1|exact K1].
Qed.

(* ---- WRITER_PENDING is exact outside an unfinished fix_flags: set only while a writer is linked *)
Definition RInvDp s := wp s = true -> nwriters (rqueue s) <> 0 \/ exists w f, rpcs s w = RFix1 f.

Lemma nwriters_app l t w : nwriters l <> 0 -> nwriters (l ++ [(t, w)]) <> 0.
Proof. unfold nwriters. rewrite filter_app, app_length. lia. Qed.

Lemma qrem_notin t l : (forall b, ~ In (t, b) l) -> qrem t l = l.
Proof.
  induction l as [|[u b] r IH]; intros H; cbn; [reflexivity|].
  destruct (Nat.eqb_spec u t) as [->|N]; cbn.
  - exfalso. apply (H b). left. reflexivity.
  - f_equal. apply IH. intros b' X. apply (H b'). right. exact X.
Qed.

Lemma rflush_wp s t ws : wp (rflush s t ws) = wp s.
Proof. destruct (rflush_frameD s t ws) as (X & _). exact X. Qed.

Lemma rflush_not_fix1 s t ws f : rpcs (rflush s t ws) t <> RFix1 f.
Proof. destruct (rflush_pc_cases s t ws) as [X|[h [r X]]]; rewrite X; discriminate. Qed.

Lemma RInvDp_step s t c s' e :
  RInvP s -> RInvC s -> RInvDp s -> rwstep s t c = Some (s', e) -> RInvDp s'.
Proof.
  intros P (C1 & C2 & C3) D H.
  pose proof (P t) as Pt. pose proof (C2 t) as Ct. unfold rlinkok in Ct.
  rstep_cases H; rewrite Epc in Pt, Ct; cbn [rfutok rlk flk] in Pt, Ct; unfold RInvDp; rsimpl.
  (* wp and queue untouched, t not the witness *)
  all: try solve [
    intros Hw; first [ discriminate Hw |
    destruct (D Hw) as [X|[ww [ff X]]]; [left; exact X|];
    destruct (Nat.eq_dec ww t) as [->|Hne]; [rewrite Epc in X; discriminate X|];
    right; exists ww, ff; rewrite upd_neq by assumption; exact X ] ].
  all: qmem_hyps.
  all: try match goal with E : rqueue _ = [] |- context [RFix2] => idtac | E : rqueue _ = [] |- _ => rewrite <- E end.
  all: try match goal with E : rqueue _ = _ :: _ |- context [RWSweep] => idtac | E : rqueue _ = _ :: _ |- _ => rewrite <- E end.
  (* flush leaves *)
  all: try solve [
    match goal with |- context [rflush ?s0 ?tt ?ws] =>
      rewrite rflush_wp, rflush_queue; rsimpl; intros Hw;
      destruct (D Hw) as [X|[ww [ff X]]]; [left; exact X|];
      destruct (Nat.eq_dec ww tt) as [->|Hne]; [rewrite Epc in X; discriminate X|];
      right; exists ww, ff; rewrite rflush_pcs by assumption; rsimpl; exact X
    end ].
  (* the stepping thread unlinked itself and is about to run fix_flags *)
  all: try solve [ intros _; right; eexists t, _; apply upd_eq ].
  (* frame again, after normalising the queue *)
  all: try solve [
    rewrite ?qrem_notin by assumption;
    intros Hw; first [ discriminate Hw |
    destruct (D Hw) as [X|[ww [ff X]]]; [left; first [exact X | apply nwriters_app; exact X]|];
    destruct (Nat.eq_dec ww t) as [->|Hne]; [rewrite Epc in X; discriminate X|];
    right; exists ww, ff; rewrite upd_neq by assumption; exact X ] ].
  (* a writer's fetch_or(WRITER_PENDING): it is linked as a writer *)
  1: { intros _. left. destruct Ct as [b Hb]. destruct (C3 t b Hb) as [kk [K1 K2]].
    rewrite Epc in K1. destruct q as [k l|k bl]; cbn [rkind_q rckind rfutok] in *; subst k.
    + injection K1 as <-. cbn in K2. subst b. exact (nwriters_In _ _ Hb).
    + rewrite Pt in K1. injection K1 as <-. cbn in K2. subst b. exact (nwriters_In _ _ Hb). }
  1: { intros _. left. match goal with E : nwriters _ = S _ |- _ => rewrite E end. discriminate. }
  1: { exfalso. cbn in E1. discriminate E1. }
  (* sweep: the unlinked head is not a writer *)
  intros Hw. destruct (D Hw) as [X|[ww [ff X]]].
  - left. rewrite E0 in X. destruct b.
    + exfalso. apply (first_writer_None _ E n). rewrite E0. left. reflexivity.
    + exact X.
  - destruct (Nat.eq_dec ww t) as [->|Hne]; [rewrite Epc in X; discriminate X|].
    right. exists ww, ff. rewrite upd_neq by assumption. exact X.
Qed.
