(* Proofs/RendezvousLife.v — handle life cycle of the rendezvous model (C04, parts of C03):
   the two counters equal the numbers of open handles; Disconnected / Closed are reported exactly
   when the other side has no open handle; closing one of several clones is invisible to the
   others; once the senders are gone the channel stays dead.  The shipped code breaks these through
   findings F-07 (conversion re-opens a closed handle), F-34 (clone of a closed handle is open),
   F-35 (futures ignore the handle's closed flag): refuted/except pairs. *)
From Fibre Require Import Common.Base Chan.Rendezvous Proofs.RendezvousBase Proofs.RendezvousWF
     Proofs.RendezvousProofs.

Definition hopen (sd : side) (hd : handle) : N :=
  match h_side hd, sd with
  | Tx, Tx | Rx, Rx => if h_closed hd then 0 else 1
  | _, _ => 0
  end.

Fixpoint nopen (sd : side) (H : list (N * handle)) : N :=
  match H with
  | [] => 0
  | (_, hd) :: t => hopen sd hd + nopen sd t
  end.

(* counts exact *)
Definition CE (s : state) : Prop := scnt s = nopen Tx (hs s) /\ rcnt s = nopen Rx (hs s).

Lemma nopen_app sd H x : nopen sd (H ++ [x]) = nopen sd H + hopen sd (snd x).
Proof.
  induction H as [|[k hd] t IH]; cbn [nopen app]; [destruct x; cbn; lia|]. rewrite IH. lia.
Qed.

Lemma nopen_aupd sd h g H hd :
  NoDup (map fst H) -> aget h H = Some hd ->
  nopen sd (aupd h g H) + hopen sd hd = nopen sd H + hopen sd (g hd).
Proof.
  induction H as [|[k x] t IH]; cbn [aget aupd map fst]; intros Hn Hg; [discriminate|].
  inversion Hn as [|a l Hnot Hn']; subst. deq h k.
  - inversion Hg; subst x. cbn [nopen]. lia.
  - cbn [nopen]. specialize (IH Hn' Hg). lia.
Qed.

Lemma nopen_adel sd h H hd :
  NoDup (map fst H) -> aget h H = Some hd ->
  nopen sd (adel h H) + hopen sd hd = nopen sd H.
Proof.
  induction H as [|[k x] t IH]; cbn [aget adel map fst]; intros Hn Hg; [discriminate|].
  inversion Hn as [|a l Hnot Hn']; subst. deq h k.
  - inversion Hg; subst x. cbn [nopen]. lia.
  - cbn [nopen]. specialize (IH Hn' Hg). lia.
Qed.

Lemma nopen_ge sd h H hd : aget h H = Some hd -> hopen sd hd <= nopen sd H.
Proof.
  induction H as [|[k x] t IH]; cbn [aget]; intros Hg; [discriminate|]. deq h k.
  - inversion Hg; subst x. cbn [nopen]. lia.
  - cbn [nopen]. specialize (IH Hg). lia.
Qed.

(** close under CE: exact, and never the count underflow *)
Lemma do_close_CE s h hd s' r e :
  NoDup (map fst (hs s)) -> CE s -> aget h (hs s) = Some hd ->
  do_close s h hd = (s', r, e) ->
  CE s' /\ r <> OPanic /\ map fst (hs s') = map fst (hs s)
  /\ (h_closed hd = false ->
      aget h (hs s') = Some (h_close hd) /\ forall k, k <> h -> aget k (hs s') = aget k (hs s)).
Proof.
  intros Hn [C1 C2] Hg Hs. unfold do_close in Hs.
  destruct (h_closed hd) eqn:Hcl.
  { inversion Hs; subst. repeat split; auto; try discriminate. }
  pose proof (nopen_aupd Tx h h_close (hs s) hd Hn Hg) as XT.
  pose proof (nopen_aupd Rx h h_close (hs s) hd Hn Hg) as XR.
  pose proof (nopen_ge Tx h (hs s) hd Hg) as GT.
  pose proof (nopen_ge Rx h (hs s) hd Hg) as GR.
  assert (HK : aget h (aupd h h_close (hs s)) = Some (h_close hd) /\
               forall k, k <> h -> aget k (aupd h h_close (hs s)) = aget k (hs s)).
  { split; [rewrite aget_aupd_eq, Hg; reflexivity|]. intros k Hk. apply aget_aupd_neq. congruence. }
  unfold hopen in *. cbn [h_close h_side h_closed] in *. rewrite Hcl in *.
  destruct (h_side hd) eqn:Hsd.
  - unfold core_drop_sender in Hs. cbn [scnt set_hs rq fs hs sq rcnt] in Hs.
    destruct (N.eqb_spec (scnt s) 0) as [Z|Z]; [lia|].
    destruct (N.eqb (N.pred (scnt s)) 0); inversion Hs; subst; unfold CE;
      cbn [scnt rcnt hs set_scnt set_hs]; rewrite ?keys_aupd;
      (split; [split; lia|]); (split; [discriminate|]); (split; [reflexivity|]); intros _; exact HK.
  - unfold core_drop_receiver in Hs. cbn [rcnt set_hs rq fs hs sq scnt] in Hs.
    destruct (N.eqb_spec (rcnt s) 0) as [Z|Z]; [lia|].
    destruct (N.eqb (N.pred (rcnt s)) 0); inversion Hs; subst; unfold CE;
      cbn [scnt rcnt hs set_rcnt set_hs]; rewrite ?keys_aupd;
      (split; [split; lia|]); (split; [discriminate|]); (split; [reflexivity|]); intros _; exact HK.
Qed.

(** which operations are affected by the three repairs *)
Definition conv_ok (c : cfg) (s : state) (o : op) : Prop :=
  match o with
  | Conv h => fix_conv c = true \/ handle_closed s h = false
  | _ => True
  end.

Definition op_ok (c : cfg) (s : state) (o : op) : Prop :=
  match o with
  | Conv h => fix_conv c = true \/ handle_closed s h = false
  | Clone h _ => fix_clone c = true \/ handle_closed s h = false
  | Poll f _ => fix_fut c = true \/
                (forall r, aget f (fs s) = Some r -> f_reg r = false -> handle_closed s (f_h r) = false)
  | _ => True
  end.

Fixpoint run_sat (P : cfg -> state -> op -> Prop) (c : cfg) (s : state) (ops : list op) : Prop :=
  match ops with
  | [] => True
  | o :: t => P c s o /\ run_sat P c (fst (fst (step c s o))) t
  end.

Lemma run_sat_fixed (P : cfg -> state -> op -> Prop) c s ops :
  (forall s o, P c s o) -> run_sat P c s ops.
Proof. intros H. revert s. induction ops as [|o t IH]; intros s; cbn; auto. Qed.

Lemma op_ok_conv c s o : op_ok c s o -> conv_ok c s o.
Proof. destruct o; cbn; auto. Qed.

Definition counts_same (s s' : state) : Prop :=
  hs s' = hs s /\ scnt s' = scnt s /\ rcnt s' = rcnt s.

Lemma CE_same s s' : CE s -> counts_same s s' -> CE s'.
Proof. intros [A B] [X [Y Z]]. unfold CE. rewrite X, Y, Z. split; assumption. Qed.

Lemma take_total s : WF s -> sq s <> [] -> exists s' v w, take_from_sender s = Some (s', v, w).
Proof.
  intros W Hne. unfold take_from_sender. destruct (sq s) as [|[g w] rest] eqn:Hsq; [congruence|].
  unfold WF in W. rewrite Hsq in W.
  destruct (wf_sq _ _ _ _ W g w (or_introl eq_refl)) as [rg [Hg [_ [_ [_ Hc]]]]].
  rewrite Hg, Hc. eexists. eexists. eexists. reflexivity.
Qed.

Lemma take_counts s s' v w : take_from_sender s = Some (s', v, w) -> counts_same s s'.
Proof.
  unfold take_from_sender. destruct (sq s) as [|[g w0] rest]; [discriminate|].
  destruct (aget g (fs s)) as [rg|]; [|discriminate]. destruct (f_cell rg); [|discriminate].
  intros X. inversion X; subst. repeat split; reflexivity.
Qed.

Lemma core_send_counts b s v s' r e :
  core_send b s v = (s', r, e) -> counts_same s s' /\ r <> OPanic.
Proof.
  unfold core_send. intros Hs.
  destruct (N.eqb (rcnt s) 0); [destruct b; inversion Hs; subst; (split; [repeat split; reflexivity|discriminate])|].
  destruct (rq s) as [|[g w] rest]; [destruct b|]; inversion Hs; subst;
    (split; [repeat split; reflexivity|discriminate]).
Qed.

Lemma core_recv_counts c k s s' r e :
  WF s -> core_recv c k s = (s', r, e) -> counts_same s s' /\ r <> OPanic.
Proof.
  intros W Hs. unfold core_recv in Hs. destruct (sq s) as [|p rest] eqn:Hsq.
  - destruct (N.eqb (scnt s) 0); [inversion Hs; subst; split; [repeat split; reflexivity|discriminate]|].
    destruct k; inversion Hs; subst; (split; [repeat split; reflexivity|discriminate]).
  - destruct (take_total s W) as [s1 [v [w Ht]]]; [rewrite Hsq; discriminate|].
    rewrite Ht in Hs. inversion Hs; subst. split; [eapply take_counts; eauto|discriminate].
Qed.

Lemma poll_counts c s f w r0 s' r e :
  WF s -> aget f (fs s) = Some r0 ->
  (match f_side r0 with Tx => poll_send c s f w r0 | Rx => poll_recv c s f w r0 end) = (s', r, e) ->
  counts_same s s' /\ r <> OPanic.
Proof.
  intros W Hg Hs.
  destruct (f_side r0) eqn:Hsd.
  - unfold poll_send in Hs.
    repeat match type of Hs with
           | context [if ?b then _ else _] => destruct b
           | context [match ?x with _ => _ end] => destruct x
           end; inversion Hs; subst; (split; [repeat split; reflexivity|discriminate]).
  - unfold poll_recv in Hs. destruct (f_reg r0) eqn:Hr.
    + destruct (f_st r0) eqn:Hst.
      * destruct (qhas f (rq s)); inversion Hs; subst; (split; [repeat split; reflexivity|discriminate]).
      * destruct (f_cell r0) eqn:Hc; inversion Hs; subst; [split; [repeat split; reflexivity|discriminate]|].
        exfalso. destruct (wf_fut _ _ _ _ W f r0 Hg) as [Hk _]. rewrite Hsd in Hk. destruct Hk as [_ Hk].
        exact (Hk Hr Hst Hc).
      * inversion Hs; subst; (split; [repeat split; reflexivity|discriminate]).
      * inversion Hs; subst; (split; [repeat split; reflexivity|discriminate]).
    + destruct (fix_fut c && handle_closed s (f_h r0));
        [inversion Hs; subst; split; [repeat split; reflexivity|discriminate]|].
      destruct (sq s) as [|p rest] eqn:Hsq.
      * destruct (N.eqb (scnt s) 0); inversion Hs; subst; (split; [repeat split; reflexivity|discriminate]).
      * destruct (take_total s W) as [s1 [v [w1 Ht]]]; [rewrite Hsq; discriminate|].
        rewrite Ht in Hs. inversion Hs; subst. split; [eapply take_counts; eauto|discriminate].
Qed.

(* every step keeps the counters exact and never panics -- provided no closed handle is converted
   by the unrepaired to_sync/to_async (F-07) *)
Theorem step_CE c s o s' r e :
  WF s -> CE s -> conv_ok c s o -> step c s o = (s', r, e) -> CE s' /\ r <> OPanic.
Proof.
  intros W C OK Hs. pose proof (wf_hs _ _ _ _ W) as Hn.
  assert (S0 : counts_same s s) by (repeat split; reflexivity).
  destruct o; cbn [step] in Hs.
  - destruct (h_live_side s h Tx) as [hd|]; [|inversion Hs; subst; split; [exact C|discriminate]].
    destruct (h_closed hd); [inversion Hs; subst; split; [exact C|discriminate]|].
    destruct (core_send false s v) as [[s1 r1] e1] eqn:Hc. inversion Hs; subst.
    destruct (core_send_counts _ _ _ _ _ _ Hc) as [X Y]. split; [eapply CE_same; eauto|exact Y].
  - destruct (h_live_side s h Tx) as [hd|]; [|inversion Hs; subst; split; [exact C|discriminate]].
    destruct (h_async hd); [inversion Hs; subst; split; [exact C|discriminate]|].
    destruct (h_closed hd); [inversion Hs; subst; split; [exact C|discriminate]|].
    destruct (core_send true s v) as [[s1 r1] e1] eqn:Hc. inversion Hs; subst.
    destruct (core_send_counts _ _ _ _ _ _ Hc) as [X Y]. split; [eapply CE_same; eauto|exact Y].
  - destruct (h_live_side s h Rx) as [hd|]; [|inversion Hs; subst; split; [exact C|discriminate]].
    destruct (h_closed hd); [inversion Hs; subst; split; [exact C|discriminate]|].
    destruct (core_recv_counts _ _ _ _ _ _ W Hs) as [X Y]. split; [eapply CE_same; eauto|exact Y].
  - destruct (h_live_side s h Rx) as [hd|]; [|inversion Hs; subst; split; [exact C|discriminate]].
    destruct (h_async hd); [inversion Hs; subst; split; [exact C|discriminate]|].
    destruct (h_closed hd); [inversion Hs; subst; split; [exact C|discriminate]|].
    destruct (core_recv_counts _ _ _ _ _ _ W Hs) as [X Y]. split; [eapply CE_same; eauto|exact Y].
  - destruct (h_live_side s h Rx) as [hd|]; [|inversion Hs; subst; split; [exact C|discriminate]].
    destruct (h_async hd); [inversion Hs; subst; split; [exact C|discriminate]|].
    destruct (h_closed hd); [inversion Hs; subst; split; [exact C|discriminate]|].
    destruct (core_recv_counts _ _ _ _ _ _ W Hs) as [X Y]. split; [eapply CE_same; eauto|exact Y].
  - (* Close *)
    destruct (aget h (hs s)) as [hd|] eqn:Hg; [|inversion Hs; subst; split; [exact C|discriminate]].
    destruct (do_close_CE _ _ _ _ _ _ Hn C Hg Hs) as [X [Y _]]. split; assumption.
  - (* DropH *)
    destruct (aget h (hs s)) as [hd|] eqn:Hg; [|inversion Hs; subst; split; [exact C|discriminate]].
    destruct (borrowed s h); [inversion Hs; subst; split; [exact C|discriminate]|].
    destruct (do_close s h hd) as [[s1 r1] e1] eqn:Hc. inversion Hs; subst. clear Hs.
    destruct (do_close_CE _ _ _ _ _ _ Hn C Hg Hc) as [[X1 X2] [Y [K Z]]].
    split; [|destruct r1; try discriminate; congruence].
    assert (Hn1 : NoDup (map fst (hs s1))) by (rewrite K; exact Hn).
    unfold CE. cbn [scnt rcnt hs set_hs].
    destruct (h_closed hd) eqn:Hcl.
    + unfold do_close in Hc. rewrite Hcl in Hc. inversion Hc; subst.
      pose proof (nopen_adel Tx h (hs s1) hd Hn Hg) as A1.
      pose proof (nopen_adel Rx h (hs s1) hd Hn Hg) as A2.
      unfold hopen in *. rewrite Hcl in *. destruct (h_side hd); split; lia.
    + destruct (Z eq_refl) as [Z1 _].
      pose proof (nopen_adel Tx h (hs s1) _ Hn1 Z1) as A1.
      pose proof (nopen_adel Rx h (hs s1) _ Hn1 Z1) as A2.
      unfold hopen in *. cbn [h_close h_closed h_side] in *. destruct (h_side hd); split; lia.
  - (* Clone *)
    destruct (aget h (hs s)) as [hd|] eqn:Hg; [|inversion Hs; subst; split; [exact C|discriminate]].
    destruct (ahas h' (hs s)); [inversion Hs; subst; split; [exact C|discriminate]|].
    destruct (negb _); [inversion Hs; subst; split; [exact C|discriminate]|].
    destruct C as [C1 C2].
    destruct (fix_clone c && h_closed hd) eqn:Hf; inversion Hs; subst; (split; [|discriminate]).
    + unfold CE. cbn [scnt rcnt hs set_hs]. rewrite !nopen_app. cbn [snd]. unfold hopen.
      cbn [h_side h_closed]. destruct (h_side hd); split; lia.
    + pose proof (nopen_ge Tx h (hs s) hd Hg) as GT. pose proof (nopen_ge Rx h (hs s) hd Hg) as GR.
      unfold CE. destruct (h_side hd) eqn:Hsd; cbn [scnt rcnt hs set_hs set_scnt set_rcnt];
        rewrite !nopen_app; cbn [snd]; unfold hopen; cbn [h_side h_closed]; split; lia.
  - (* Conv *)
    destruct (aget h (hs s)) as [hd|] eqn:Hg; [|inversion Hs; subst; split; [exact C|discriminate]].
    destruct (borrowed s h); inversion Hs; subst; (split; [|discriminate]); [exact C|].
    destruct C as [C1 C2]. unfold CE. cbn [scnt rcnt hs set_hs].
    set (g := fun x => mkH (h_side x) (negb (h_async x)) (if fix_conv c then h_closed x else false)).
    pose proof (nopen_aupd Tx h g (hs s) hd Hn Hg) as A1.
    pose proof (nopen_aupd Rx h g (hs s) hd Hn Hg) as A2.
    assert (E : forall sd, hopen sd (g hd) = hopen sd hd).
    { intros sd. unfold hopen, g. cbn [h_side h_closed]. cbn in OK. unfold handle_closed in OK.
      rewrite Hg in OK. destruct OK as [-> | ->]; [reflexivity|]. destruct (fix_conv c); reflexivity. }
    rewrite !E in *. split; lia.
  - destruct (aget h (hs s)); inversion Hs; subst; (split; [exact C|discriminate]).
  - destruct (h_live_side s h Tx) as [hd|]; [|inversion Hs; subst; split; [exact C|discriminate]].
    destruct (negb (h_async hd) || ahas f (fs s)); inversion Hs; subst; (split; [exact C|discriminate]).
  - destruct (h_live_side s h Rx) as [hd|]; [|inversion Hs; subst; split; [exact C|discriminate]].
    destruct (negb (h_async hd) || ahas f (fs s)); inversion Hs; subst; (split; [exact C|discriminate]).
  - destruct (aget f (fs s)) as [r0|] eqn:Hg; [|inversion Hs; subst; split; [exact C|discriminate]].
    destruct (poll_counts _ _ _ _ _ _ _ _ W Hg Hs) as [X Y]. split; [eapply CE_same; eauto|exact Y].
  - destruct (aget f (fs s)) as [r0|] eqn:Hg; [|inversion Hs; subst; split; [exact C|discriminate]].
    unfold drop_fut in Hs. inversion Hs; subst. split; [|discriminate].
    eapply CE_same; [exact C|].
    destruct (f_reg r0 && cancel_cas r0); [unfold cancel_remove; destruct (f_side r0)|];
      repeat split; reflexivity.
Qed.

Lemma CE_init a : CE (init a).
Proof. split; reflexivity. Qed.

Theorem run_CE c ops : forall s s' tr,
  WF s -> CE s -> run_sat conv_ok c s ops -> run c s ops = (s', tr) ->
  CE s' /\ (forall o r e, In (o, r, e) tr -> r <> OPanic).
Proof.
  induction ops as [|o t IH]; intros s s' tr W C OK Hr; cbn [run] in Hr.
  - inversion Hr; subst. split; [exact C|intros ? ? ? []].
  - destruct (step c s o) as [[s1 r1] e1] eqn:Hs.
    destruct (run c s1 t) as [s2 tr2] eqn:Hr2. inversion Hr; subst.
    cbn [run_sat] in OK. rewrite Hs in OK. cbn [fst] in OK. destruct OK as [OK1 OK2].
    destruct (step_CE _ _ _ _ _ _ W C OK1 Hs) as [C1 NP].
    destruct (IH s1 s' tr2 (step_WF _ _ _ _ _ _ W Hs) C1 OK2 Hr2) as [C2 NP2].
    split; [exact C2|]. intros o' r' e' [X|X]; [inversion X; subst; exact NP|eapply NP2; eauto].
Qed.

(** C04: counts = open handles, for the repaired conversion and, on the shipped code, for every
    history that never converts a closed handle *)
Definition rv_counts_exact_full (c : cfg) : Prop :=
  forall a ops s tr, run c (init a) ops = (s, tr) ->
    CE s /\ (forall o r e, In (o, r, e) tr -> r <> OPanic).

Theorem rv_counts_exact_except_F07 c a ops s tr :
  run_sat conv_ok c (init a) ops -> run c (init a) ops = (s, tr) ->
  CE s /\ (forall o r e, In (o, r, e) tr -> r <> OPanic).
Proof. intros OK Hr. eapply run_CE; eauto; [apply WF_init|apply CE_init]. Qed.

Theorem rv_counts_exact_fixed c : fix_conv c = true -> rv_counts_exact_full c.
Proof.
  intros Hf a ops s tr Hr. eapply rv_counts_exact_except_F07; eauto.
  apply run_sat_fixed. intros s0 o. destruct o; cbn; auto.
Qed.

Definition F07_witness : list op := [Close 0; Conv 0; DropH 0].

Theorem rv_counts_exact_refuted_F07 c : fix_conv c = false -> ~ rv_counts_exact_full c.
Proof.
  intros Hf H. destruct c as [m t r x ff y]. cbn in Hf. subst x.
  destruct (run (mkCfg m t r false ff y) (init false) F07_witness) as [s tr] eqn:Hr.
  destruct (H false F07_witness s tr Hr) as [_ NP].
  vm_compute in Hr. inversion Hr; subst.
  eapply NP; [right; right; left; reflexivity|reflexivity].
Qed.

(** observable consequences, in any state where WF and CE hold *)
Section Obs.
Variables (c : cfg) (s : state).
Hypothesis W : WF s.
Hypothesis C : CE s.

(* Disconnected is reported on an open receiver handle exactly when no sender handle is open and no
   send is pending; otherwise a pending send is delivered first *)
Theorem rv_disc_iff k hd h s' r e :
  h_live_side s h Rx = Some hd -> h_closed hd = false ->
  core_recv c k s = (s', r, e) ->
  (r = ODisc <-> nopen Tx (hs s) = 0 /\ sq s = []) /\
  (sq s <> [] -> exists v, r = OVal v).
Proof.
  intros Hl Hc Hs. destruct C as [C1 C2]. unfold core_recv in Hs.
  destruct (sq s) as [|p rest] eqn:Hsq.
  - split; [|congruence]. destruct (N.eqb_spec (scnt s) 0) as [Z|Z].
    + inversion Hs; subst. split; [intros _; split; [lia|reflexivity]|reflexivity].
    + destruct k; inversion Hs; subst; (split; [discriminate|intros [X _]; lia]).
  - destruct (take_total s W) as [s1 [v [w Ht]]]; [rewrite Hsq; discriminate|].
    rewrite Ht in Hs. inversion Hs; subst. split.
    + split; [discriminate|intros [_ X]; discriminate].
    + intros _. exists v. reflexivity.
Qed.

(* after the last receiver is gone every send form fails with Closed and gets its value back *)
Theorem rv_send_after_last_rx h hd v :
  h_live_side s h Tx = Some hd -> nopen Rx (hs s) = 0 ->
  step c s (TrySend h v) = (s, OClosedV v, [EIntro v; EBack v])
  /\ (h_async hd = false -> step c s (Send h v) = (s, OClosed, [EIntro v; EDropArg v])).
Proof.
  intros Hl Hz. destruct C as [C1 C2]. assert (Z : N.eqb (rcnt s) 0 = true) by (apply N.eqb_eq; lia).
  cbn [step]. rewrite Hl. unfold core_send. rewrite Z.
  split; [destruct (h_closed hd); reflexivity|]. intros ->. destruct (h_closed hd); reflexivity.
Qed.

Theorem rv_try_send_closed_iff h hd v s' r e :
  h_live_side s h Tx = Some hd -> h_closed hd = false ->
  step c s (TrySend h v) = (s', r, e) ->
  (r = OClosedV v <-> nopen Rx (hs s) = 0).
Proof.
  intros Hl Hc Hs. destruct C as [C1 C2]. cbn [step] in Hs. rewrite Hl, Hc in Hs. unfold core_send in Hs.
  destruct (N.eqb_spec (rcnt s) 0) as [Z|Z].
  - inversion Hs; subst. split; [intros _; lia|reflexivity].
  - destruct (rq s) as [|[g w] rest]; inversion Hs; subst; (split; [discriminate|intros X; lia]).
Qed.

(* closing or dropping one of several open clones is invisible to every other handle and future *)
Theorem rv_clone_isolation h hd s' r e :
  aget h (hs s) = Some hd -> h_closed hd = false -> 2 <= nopen (h_side hd) (hs s) ->
  do_close s h hd = (s', r, e) ->
  r = OOk /\ e = [] /\ fs s' = fs s /\ sq s' = sq s /\ rq s' = rq s
  /\ hs s' = aupd h h_close (hs s).
Proof.
  intros Hg Hc Hn Hs. destruct C as [C1 C2]. unfold do_close in Hs. rewrite Hc in Hs.
  destruct (h_side hd).
  - unfold core_drop_sender in Hs. cbn [scnt set_hs] in Hs.
    destruct (N.eqb_spec (scnt s) 0) as [Z|Z]; [lia|].
    destruct (N.eqb_spec (N.pred (scnt s)) 0) as [Z2|Z2]; [lia|].
    inversion Hs; subst. repeat split; reflexivity.
  - unfold core_drop_receiver in Hs. cbn [rcnt set_hs] in Hs.
    destruct (N.eqb_spec (rcnt s) 0) as [Z|Z]; [lia|].
    destruct (N.eqb_spec (N.pred (rcnt s)) 0) as [Z2|Z2]; [lia|].
    inversion Hs; subst. repeat split; reflexivity.
Qed.
End Obs.

(* every operation on a handle whose close() returned Ok fails; with the repaired futures (F-35)
   so does the poll of an unregistered future created from it *)
Theorem rv_closed_handle_fails c s h hd :
  aget h (hs s) = Some hd -> h_closed hd = true ->
  (forall v s' r e, step c s (TrySend h v) = (s', r, e) -> r = OClosedV v \/ r = ONa) /\
  (forall v s' r e, step c s (Send h v) = (s', r, e) -> r = OClosed \/ r = ONa) /\
  (forall s' r e, step c s (TryRecv h) = (s', r, e) -> r = ODisc \/ r = ONa) /\
  (forall s' r e, step c s (Recv h) = (s', r, e) -> r = ODisc \/ r = ONa) /\
  (forall s' r e, step c s (RecvTimeout0 h) = (s', r, e) -> r = ODisc \/ r = ONa) /\
  (forall s' r e, step c s (Close h) = (s', r, e) -> r = OCloseErr /\ s' = s) /\
  (fix_fut c = true -> forall f w r0 s' r e,
     aget f (fs s) = Some r0 -> f_h r0 = h -> f_reg r0 = false ->
     step c s (Poll f w) = (s', r, e) ->
     s' = s /\ match f_side r0 with
               | Tx => r = OReadyClosed \/ (f_cell r0 = None /\ r = OReadyOk)
               | Rx => r = OReadyDisc
               end).
Proof.
  intros Hg Hc. unfold step, h_live_side, do_close. rewrite Hg.
  repeat split; intros.
  - destruct (h_side hd); [rewrite Hc in H; inversion H; auto|inversion H; auto].
  - destruct (h_side hd); [|inversion H; auto]. destruct (h_async hd); [inversion H; auto|].
    rewrite Hc in H. inversion H; auto.
  - destruct (h_side hd); [inversion H; auto|]. rewrite Hc in H. inversion H; auto.
  - destruct (h_side hd); [inversion H; auto|]. destruct (h_async hd); [inversion H; auto|].
    rewrite Hc in H. inversion H; auto.
  - destruct (h_side hd); [inversion H; auto|]. destruct (h_async hd); [inversion H; auto|].
    rewrite Hc in H. inversion H; auto.
  - rewrite Hc in H. inversion H; auto.
  - rewrite Hc in H. inversion H; auto.
  - rewrite H0 in H3. unfold poll_send, poll_recv, handle_closed in H3. rewrite H1, Hg, Hc, H, H2 in H3.
    cbn [andb] in H3. destruct (f_side r0); [destruct (f_cell r0)|]; inversion H3; reflexivity.
  - rewrite H0 in H3. unfold poll_send, poll_recv, handle_closed in H3. rewrite H1, Hg, Hc, H, H2 in H3.
    cbn [andb] in H3. destruct (f_side r0); [destruct (f_cell r0)|]; inversion H3; auto.
Qed.

Definition rv_closed_future_fails_full (c : cfg) : Prop :=
  forall a ops s tr, run c (init a) ops = (s, tr) ->
  forall f w r0 hd s' r e, aget f (fs s) = Some r0 -> f_reg r0 = false -> f_cell r0 <> None \/ f_side r0 = Rx ->
    aget (f_h r0) (hs s) = Some hd -> h_closed hd = true ->
    step c s (Poll f w) = (s', r, e) -> r = OReadyClosed \/ r = OReadyDisc.

Definition F35_witness : list op := [Close 0; MkSend 10 0 100].

Theorem rv_closed_future_fails_refuted_F35 c : fix_fut c = false -> ~ rv_closed_future_fails_full c.
Proof.
  intros Hf H. destruct c as [m t r x ff y]. cbn in Hf. subst ff.
  destruct (run (mkCfg m t r x false y) (init true) F35_witness) as [s tr] eqn:Hr.
  specialize (H true F35_witness s tr Hr). vm_compute in Hr. inversion Hr; subst. clear Hr.
  specialize (H 10 0 (mkF Tx 0 (Some 100) WAITING false 100 false) (mkH Tx true true)).
  edestruct H as [X|X]; try reflexivity; [left; discriminate| |]; discriminate.
Qed.

(** once no sender handle is open and no send is pending, the channel stays that way and nothing
    is handed off any more (so: after Disconnected, never a new value) *)
Definition dead (s : state) : Prop := scnt s = 0 /\ sq s = [].

Lemma dead_tx_closed s h hd :
  CE s -> dead s -> aget h (hs s) = Some hd -> h_side hd = Tx -> h_closed hd = true.
Proof.
  intros [C1 _] [D1 _] Hg Hsd. pose proof (nopen_ge Tx h (hs s) hd Hg) as G.
  unfold hopen in G. rewrite Hsd in G. destruct (h_closed hd); [reflexivity|lia].
Qed.

Ltac nohand := let v := fresh in let X := fresh in intros v X; cbn in X; intuition discriminate.

Lemma no_hand_wakes q v : ~ In (EHand v) (wakes_of q).
Proof. induction q as [|p t IH]; cbn; [tauto|]. intros [X|X]; [discriminate|exact (IH X)]. Qed.

Theorem step_dead c s o s' r e :
  WF s -> CE s -> op_ok c s o -> dead s -> step c s o = (s', r, e) ->
  dead s' /\ (forall v, ~ In (EHand v) e) /\ (forall v, r <> OVal v).
Proof.
  intros W C OK D Hs. pose proof D as [D1 D2].
  assert (Z : N.eqb (scnt s) 0 = true) by (apply N.eqb_eq; exact D1).
  assert (K : dead s /\ (forall v : N, ~ In (EHand v) []) /\ (forall v, ONa <> OVal v))
    by (split; [exact D|split; [intros v []|discriminate]]).
  destruct o; cbn [step] in Hs.
  - destruct (h_live_side s h Tx) as [hd|] eqn:Hl; [|inversion Hs; subst; exact K].
    apply h_live_side_Some in Hl. destruct Hl as [Hg Hsd].
    rewrite (dead_tx_closed s h hd C D Hg Hsd) in Hs. inversion Hs; subst.
    split; [exact D|split; [nohand|discriminate]].
  - destruct (h_live_side s h Tx) as [hd|] eqn:Hl; [|inversion Hs; subst; exact K].
    apply h_live_side_Some in Hl. destruct Hl as [Hg Hsd].
    destruct (h_async hd); [inversion Hs; subst; exact K|].
    rewrite (dead_tx_closed s h hd C D Hg Hsd) in Hs. inversion Hs; subst.
    split; [exact D|split; [nohand|discriminate]].
  - destruct (h_live_side s h Rx) as [hd|]; [|inversion Hs; subst; exact K].
    destruct (h_closed hd); [inversion Hs; subst; split; [exact D|split; [nohand|discriminate]]|].
    unfold core_recv in Hs. rewrite D2, Z in Hs. inversion Hs; subst.
    split; [exact D|split; [nohand|discriminate]].
  - destruct (h_live_side s h Rx) as [hd|]; [|inversion Hs; subst; exact K].
    destruct (h_async hd); [inversion Hs; subst; exact K|].
    destruct (h_closed hd); [inversion Hs; subst; split; [exact D|split; [nohand|discriminate]]|].
    unfold core_recv in Hs. rewrite D2, Z in Hs. inversion Hs; subst.
    split; [exact D|split; [nohand|discriminate]].
  - destruct (h_live_side s h Rx) as [hd|]; [|inversion Hs; subst; exact K].
    destruct (h_async hd); [inversion Hs; subst; exact K|].
    destruct (h_closed hd); [inversion Hs; subst; split; [exact D|split; [nohand|discriminate]]|].
    unfold core_recv in Hs. rewrite D2, Z in Hs. inversion Hs; subst.
    split; [exact D|split; [nohand|discriminate]].
  - (* Close *)
    destruct (aget h (hs s)) as [hd|] eqn:Hg; [|inversion Hs; subst; exact K].
    unfold do_close in Hs. destruct (h_closed hd) eqn:Hcl;
      [inversion Hs; subst; split; [exact D|split; [nohand|discriminate]]|].
    destruct (h_side hd) eqn:Hsd.
    + rewrite (dead_tx_closed s h hd C D Hg Hsd) in Hcl. discriminate.
    + unfold core_drop_receiver in Hs. cbn [rcnt set_hs sq fs hs rq scnt] in Hs.
      destruct (N.eqb (rcnt s) 0); [|destruct (N.eqb (N.pred (rcnt s)) 0)]; inversion Hs; subst;
        (split; [split; [exact D1|try exact D2; reflexivity]|split; [|discriminate]]); try nohand.
      rewrite D2. nohand.
  - (* DropH *)
    destruct (aget h (hs s)) as [hd|] eqn:Hg; [|inversion Hs; subst; exact K].
    destruct (borrowed s h); [inversion Hs; subst; exact K|].
    destruct (do_close s h hd) as [[s1 r1] e1] eqn:Hc. inversion Hs; subst. clear Hs.
    unfold do_close in Hc. destruct (h_closed hd) eqn:Hcl.
    { inversion Hc; subst. split; [exact D|split; [nohand|discriminate]]. }
    destruct (h_side hd) eqn:Hsd.
    + rewrite (dead_tx_closed s h hd C D Hg Hsd) in Hcl. discriminate.
    + unfold core_drop_receiver in Hc. cbn [rcnt set_hs sq fs hs rq scnt] in Hc.
      destruct (N.eqb (rcnt s) 0); [|destruct (N.eqb (N.pred (rcnt s)) 0)]; inversion Hc; subst;
        (split; [split; [exact D1|try exact D2; reflexivity]|split; [|discriminate]]); try nohand.
      rewrite D2. nohand.
  - (* Clone *)
    destruct (aget h (hs s)) as [hd|] eqn:Hg; [|inversion Hs; subst; exact K].
    destruct (ahas h' (hs s)); [inversion Hs; subst; exact K|].
    destruct (negb _); [inversion Hs; subst; exact K|].
    destruct (fix_clone c && h_closed hd) eqn:Hf; inversion Hs; subst;
      [split; [exact D|split; [nohand|discriminate]]|].
    destruct (h_side hd) eqn:Hsd; [|split; [exact D|split; [nohand|discriminate]]].
    exfalso. pose proof (dead_tx_closed s h hd C D Hg Hsd) as Hcl. rewrite Hcl in Hf.
    cbn in OK. unfold handle_closed in OK. rewrite Hg, Hcl in OK.
    destruct OK as [X|X]; [rewrite X in Hf|]; discriminate.
  - destruct (aget h (hs s)) as [hd|]; [|inversion Hs; subst; exact K].
    destruct (borrowed s h); inversion Hs; subst; [exact K|split; [exact D|split; [nohand|discriminate]]].
  - destruct (aget h (hs s)); inversion Hs; subst; [split; [exact D|split; [nohand|discriminate]]|exact K].
  - destruct (h_live_side s h Tx) as [hd|]; [|inversion Hs; subst; exact K].
    destruct (negb (h_async hd) || ahas f (fs s)); inversion Hs; subst;
      [exact K|split; [exact D|split; [nohand|discriminate]]].
  - destruct (h_live_side s h Rx) as [hd|]; [|inversion Hs; subst; exact K].
    destruct (negb (h_async hd) || ahas f (fs s)); inversion Hs; subst;
      [exact K|split; [exact D|split; [nohand|discriminate]]].
  - (* Poll *)
    destruct (aget f (fs s)) as [r0|] eqn:Hg; [|inversion Hs; subst; exact K].
    destruct (f_side r0) eqn:Hsd.
    + unfold poll_send in Hs. destruct (f_reg r0) eqn:Hr.
      * assert (Q : qhas f (sq s) = false) by (rewrite D2; reflexivity). rewrite Q in Hs.
        destruct (f_st r0); inversion Hs; subst; (split; [exact D|split; [nohand|discriminate]]).
      * destruct (f_cell r0) eqn:Hc; [|inversion Hs; subst; split; [exact D|split; [nohand|discriminate]]].
        destruct (wf_fut _ _ _ _ W f r0 Hg) as [_ [hd [Hh Hhs]]].
        pose proof (dead_tx_closed s (f_h r0) hd C D Hh ltac:(congruence)) as Hcl.
        assert (FF : fix_fut c = true).
        { cbn in OK. destruct OK as [X|X]; [exact X|]. specialize (X r0 Hg Hr).
          unfold handle_closed in X. rewrite Hh, Hcl in X. discriminate. }
        unfold handle_closed in Hs. rewrite Hh, Hcl, FF in Hs. cbn [andb] in Hs.
        inversion Hs; subst. split; [exact D|split; [nohand|discriminate]].
    + unfold poll_recv in Hs. destruct (f_reg r0) eqn:Hr.
      * destruct (f_st r0); [destruct (qhas f (rq s))|destruct (f_cell r0)|..]; inversion Hs; subst;
          (split; [exact D|split; [nohand|discriminate]]).
      * destruct (fix_fut c && handle_closed s (f_h r0));
          [inversion Hs; subst; split; [exact D|split; [nohand|discriminate]]|].
        rewrite D2, Z in Hs. inversion Hs; subst. split; [exact D|split; [nohand|discriminate]].
  - (* DropF *)
    destruct (aget f (fs s)) as [r0|] eqn:Hg; [|inversion Hs; subst; exact K].
    unfold drop_fut in Hs. inversion Hs; subst.
    split; [|split; [|discriminate]].
    + destruct (f_reg r0 && cancel_cas r0); [unfold cancel_remove; destruct (f_side r0)|];
        cbn [scnt sq set_fs set_sq set_rq fs]; split; try exact D1; try exact D2. rewrite D2. reflexivity.
    + intros v X. unfold drop_cell_ev in X. destruct (f_cell r0); [destruct (f_side r0)|]; cbn in X; intuition discriminate.
Qed.

Theorem run_dead c ops : forall s s' tr,
  WF s -> CE s -> dead s -> run_sat op_ok c s ops -> run c s ops = (s', tr) ->
  dead s' /\ (forall v, ~ In (EHand v) (evs_of tr))
  /\ (forall o r e, In (o, r, e) tr -> forall v, r <> OVal v).
Proof.
  induction ops as [|o t IH]; intros s s' tr W C D OK Hr; cbn [run] in Hr.
  - inversion Hr; subst. split; [exact D|]. split; [intros v []|intros ? ? ? []].
  - destruct (step c s o) as [[s1 r1] e1] eqn:Hs.
    destruct (run c s1 t) as [s2 tr2] eqn:Hr2. inversion Hr; subst.
    cbn [run_sat] in OK. rewrite Hs in OK. cbn [fst] in OK. destruct OK as [OK1 OK2].
    destruct (step_dead _ _ _ _ _ _ W C OK1 D Hs) as [D1 [NH NV]].
    destruct (step_CE _ _ _ _ _ _ W C (op_ok_conv _ _ _ OK1) Hs) as [C1 _].
    destruct (IH s1 s' tr2 (step_WF _ _ _ _ _ _ W Hs) C1 D1 OK2 Hr2) as [D2 [NH2 NV2]].
    split; [exact D2|]. split.
    + intros v X. rewrite evs_of_cons in X. apply in_app_iff in X. destruct X as [X|X]; [exact (NH v X)|exact (NH2 v X)].
    + intros o' r' e' [X|X]; [inversion X; subst; exact NV|eapply NV2; eauto].
Qed.

(* the full statement: from any reachable state with no open sender and no pending send, no history
   ever hands a value over again *)
Definition rv_dead_sticky_full (c : cfg) : Prop :=
  forall a ops1 s1 tr1 ops2 s2 tr2,
    run c (init a) ops1 = (s1, tr1) -> dead s1 -> run c s1 ops2 = (s2, tr2) ->
    forall v, ~ In (EHand v) (evs_of tr2).

Theorem rv_dead_sticky_except c a ops1 s1 tr1 ops2 s2 tr2 :
  run_sat conv_ok c (init a) ops1 -> run c (init a) ops1 = (s1, tr1) -> dead s1 ->
  run_sat op_ok c s1 ops2 -> run c s1 ops2 = (s2, tr2) ->
  dead s2 /\ (forall v, ~ In (EHand v) (evs_of tr2))
  /\ (forall o r e, In (o, r, e) tr2 -> forall v, r <> OVal v).
Proof.
  intros OK1 Hr1 D OK2 Hr2.
  destruct (run_CE c ops1 _ _ _ (WF_init a) (CE_init a) OK1 Hr1) as [C1 _].
  eapply run_dead; eauto. eapply run_WF; eauto. apply WF_init.
Qed.

Theorem rv_dead_sticky_fixed c :
  fix_conv c = true -> fix_fut c = true -> fix_clone c = true -> rv_dead_sticky_full c.
Proof.
  intros F1 F2 F3 a ops1 s1 tr1 ops2 s2 tr2 Hr1 D Hr2.
  eapply rv_dead_sticky_except; eauto; apply run_sat_fixed; intros s0 o; destruct o; cbn; auto.
Qed.

Theorem rv_dead_sticky_refuted_F35 c : fix_fut c = false -> ~ rv_dead_sticky_full c.
Proof.
  intros Hf H. destruct c as [m t r x ff y]. cbn in Hf. subst ff.
  destruct (run (mkCfg m t r x false y) (init true) [Close 0]) as [s1 tr1] eqn:Hr1.
  destruct (run (mkCfg m t r x false y) s1 [MkSend 10 0 100; Poll 10 0; TryRecv 1]) as [s2 tr2] eqn:Hr2.
  pose proof (fun D => H true _ s1 tr1 _ s2 tr2 Hr1 D Hr2 100) as H'. clear H.
  vm_compute in Hr1. inversion Hr1; subst. clear Hr1.
  specialize (H' ltac:(split; reflexivity)).
  vm_compute in Hr2. inversion Hr2; subst. apply H'. cbn. tauto.
Qed.

Theorem rv_dead_sticky_refuted_F34 c :
  fix_clone c = false -> tx_clone c = true -> ~ rv_dead_sticky_full c.
Proof.
  intros Hf Ht H. destruct c as [m t r x ff y]. cbn in Hf, Ht. subst y t.
  destruct (run (mkCfg m true r x ff false) (init true) [Close 0]) as [s1 tr1] eqn:Hr1.
  destruct (run (mkCfg m true r x ff false) s1 [Clone 0 2; MkSend 10 2 100; Poll 10 0; TryRecv 1])
    as [s2 tr2] eqn:Hr2.
  pose proof (fun D => H true _ s1 tr1 _ s2 tr2 Hr1 D Hr2 100) as H'. clear H.
  vm_compute in Hr1. inversion Hr1; subst. clear Hr1.
  specialize (H' ltac:(split; reflexivity)).
  destruct ff; vm_compute in Hr2; inversion Hr2; subst; apply H'; cbn; tauto.
Qed.

(** C03 (capacity 0): try_send succeeds exactly when it pairs with a parked receive *)
Theorem rv_try_send_ok_iff c s h v :
  snd (fst (step c s (TrySend h v))) = OOk <->
  exists hd, h_live_side s h Tx = Some hd /\ h_closed hd = false /\ rcnt s <> 0 /\ rq s <> [].
Proof.
  cbn [step]. destruct (h_live_side s h Tx) as [hd|].
  - destruct (h_closed hd) eqn:Hc.
    + cbn. split; [discriminate|]. intros [hd' [X [Y _]]]. inversion X; subst. congruence.
    + unfold core_send. destruct (N.eqb_spec (rcnt s) 0) as [Z|Z].
      * cbn. split; [discriminate|]. intros [hd' [_ [_ [Y _]]]]. congruence.
      * destruct (rq s) as [|[g w] rest]; cbn.
        -- split; [discriminate|]. intros [hd' [_ [_ [_ Y]]]]. congruence.
        -- split; [|reflexivity]. intros _. exists hd. repeat split; auto. discriminate.
  - cbn. split; [discriminate|]. intros [hd' [X _]]. discriminate.
Qed.

(* a successful try_send consumes exactly the oldest parked receive and fills its dest *)
Theorem rv_try_send_pairs c s h v s' e :
  step c s (TrySend h v) = (s', OOk, e) ->
  exists g w rest, rq s = (g, w) :: rest /\ rq s' = rest /\ sq s' = sq s
                   /\ fs s' = aupd g (fut_done (Some v)) (fs s)
                   /\ e = [EIntro v; EOffer v; EHand v; EAck v; EWake w].
Proof.
  cbn [step]. destruct (h_live_side s h Tx) as [hd|]; [|discriminate].
  destruct (h_closed hd); [discriminate|]. unfold core_send.
  destruct (N.eqb (rcnt s) 0); [discriminate|].
  destruct (rq s) as [|[g w] rest]; [discriminate|]. intros X. inversion X; subst.
  exists g, w, rest. repeat split; reflexivity.
Qed.

(* len / is_empty / is_full / capacity are the constants of a channel that never buffers *)
Theorem rv_observers c s h s' b l em fu cap e :
  step c s (Obs h) = (s', OObs b l em fu cap, e) ->
  l = 0 /\ em = true /\ fu = true /\ cap = 0 /\ s' = s /\
  exists hd, aget h (hs s) = Some hd /\
             b = match h_side hd with Tx => N.eqb (rcnt s) 0 | Rx => N.eqb (scnt s) 0 end.
Proof.
  cbn [step]. destruct (aget h (hs s)) as [hd|]; [|discriminate]. intros X. inversion X; subst.
  repeat split; auto. exists hd. split; reflexivity.
Qed.

(* ... and so does the first poll of a send future: Closed, the payload stays in the future *)
Theorem rv_poll_send_after_last_rx c s f w r0 v :
  CE s -> nopen Rx (hs s) = 0 ->
  aget f (fs s) = Some r0 -> f_side r0 = Tx -> f_reg r0 = false -> f_cell r0 = Some v ->
  step c s (Poll f w) = (s, OReadyClosed, []).
Proof.
  intros [C1 C2] Hz Hg Hs Hr Hc. assert (Z : N.eqb (rcnt s) 0 = true) by (apply N.eqb_eq; lia).
  cbn [step]. rewrite Hg, Hs. unfold poll_send. rewrite Hr, Hc, Z.
  destruct (fix_fut c && handle_closed s (f_h r0)); reflexivity.
Qed.
