(* Proofs/TicketK3Prod.v — SInv is preserved by every producer step. *)
From Fibre Require Import Common.Base Common.Conc Chan.TicketK3 Proofs.TicketK3Base Proofs.TicketK3Frame.
From Coq Require Import ZifyBool ZifyNat ZifyN Arith.

Lemma dataof_tk_other tkf pcf sq tak hp t0 x t :
  t <> t0 -> dataof (updN tkf t0 x) pcf sq tak hp t = dataof tkf pcf sq tak hp t.
Proof. intros H. unfold dataof. rewrite updN_neq by exact H. reflexivity. Qed.

Lemma code_nonzero x : code x <> sEMPTY -> x = TSkip \/ exists v, x = TSet v.
Proof. destruct x; cbn; intros H; try (exfalso; apply H; reflexivity); eauto. Qed.

Section Prod.
Variables cap cc n kk : N.
Hypothesis Hcc : 0 < cc.
Hypothesis Hn : 0 < n.

(* an owned ticket is at or beyond the consumer's cursor *)
Lemma own_ge s t th : SInv cap cc n s -> tk s t = TOwn th -> hpos s <= t.
Proof.
  intros I H. destruct (N.lt_ge_cases t (hpos s)) as [L|L]; [|exact L].
  exfalso. apply (B_done _ _ _ _ I t L). rewrite H. reflexivity.
Qed.

(* ------------------------------------------------------------ S3: g_tail.fetch_add(1) *)
Lemma SInv_claim s u x :
  SInv cap cc n s -> ppc s u = PS3 x ->
  SInv cap cc n (set_ppc_at (set_tk (set_gtail s (gtail s + 1)) (updN (tk s) (gtail s) (TOwn u))) u (PS4 x (gtail s))).
Proof.
  intros I Epc. pose proof I as [A1 A2 A3 A4 A5 A6 B1 B2 B3 P D T E R C Bd].
  assert (Hg : tk s (gtail s) = TFree) by (apply B1; lia).
  unfold set_ppc_at. constructor; st_goal; try assumption.
  - lia.
  - intros t. destruct (N.eqb_spec t (gtail s)) as [->|Hne].
    + rewrite updN_eq. split; [discriminate | lia].
    + rewrite updN_neq by exact Hne. rewrite B1. lia.
  - intros t L. rewrite updN_neq by lia. apply B2. exact L.
  - intros t th. destruct (Nat.eqb_spec th u) as [->|Hth].
    + rewrite updn_eq. cbn [own_of]. destruct (N.eqb_spec t (gtail s)) as [->|Hne].
      * rewrite updN_eq. split; reflexivity.
      * rewrite updN_neq by exact Hne. rewrite B3, Epc. cbn [own_of]. split; [discriminate | intros X; inversion X; congruence].
    + rewrite updn_neq by exact Hth. destruct (N.eqb_spec t (gtail s)) as [->|Hne].
      * rewrite updN_eq. rewrite <- B3, Hg. split; [intros X; inversion X; congruence | discriminate].
      * rewrite updN_neq by exact Hne. apply B3.
  - intros th. destruct (Nat.eqb_spec th u) as [->|Hth].
    + rewrite updn_eq. exact Logic.I.
    + rewrite updn_neq by exact Hth. specialize (P th). unfold myval in *. st_goal.
      destruct (ppc s th); cbn [PInv] in *; try assumption;
        intros X; specialize (P X); (destruct (N.eqb_spec t (gtail s)) as [->|Hne]; [congruence | rewrite updN_neq by exact Hne; exact P]).
  - intros t v. destruct (N.eqb_spec t (gtail s)) as [->|Hne]; [rewrite updN_eq; discriminate|].
    rewrite updN_neq by exact Hne. apply D.
  - intros j i Hj Hi. cbv zeta. specialize (E j i Hj Hi). cbv zeta in E. destruct E as [E1 E2].
    rewrite (dataof_updn _ _ (pseq s) (pseq s)); try (intros; reflexivity); [|rewrite Epc; reflexivity].
    destruct (N.eqb_spec (ids s j * cc + i) (gtail s)) as [Et|Hne].
    + rewrite Et in *. rewrite updN_eq. rewrite Hg in E1. split; [exact E1|].
      rewrite E2. unfold dataof. rewrite updN_eq, Hg, Epc. reflexivity.
    + rewrite updN_neq by exact Hne. rewrite dataof_tk_other by exact Hne. split; assumption.
  - intros t L Hc. destruct (N.eqb_spec t (gtail s)) as [->|Hne].
    + rewrite updN_eq in Hc. exfalso. apply Hc. reflexivity.
    + rewrite updN_neq in Hc by exact Hne. apply R; assumption.
Qed.


(* ------------------------------------------------------------ slot keys *)
Lemma ent_lt c : ent n c < n.
Proof. unfold ent. apply N.mod_lt. lia. Qed.

Lemma slot_key s j i :
  SInv cap cc n s -> j < n -> i < cc -> slot_of cc n (ids s j * cc + i) = j * cc + i.
Proof.
  intros I Hj Hi. unfold slot_of, slot_at, cid_of, idx_of, ent.
  rewrite (geo_div cc Hcc _ _ Hi), (geo_mod cc Hcc _ _ Hi), (T_ids _ _ _ _ I j Hj). reflexivity.
Qed.

Lemma key_ticket s j i t :
  SInv cap cc n s -> j < n -> i < cc -> ids s (ent n (cid_of cc t)) = cid_of cc t ->
  j * cc + i = slot_of cc n t -> ids s j * cc + i = t.
Proof.
  intros I Hj Hi Hr Hk. unfold slot_of, slot_at, idx_of in Hk.
  destruct (geo_split cc Hcc t) as [Ht Hm].
  destruct (geo_key_inj cc Hcc _ _ _ _ Hi Hm Hk) as [-> ->].
  rewrite Hr. unfold cid_of. symmetry. exact Ht.
Qed.

Lemma ticket_key s j i t :
  SInv cap cc n s -> j < n -> i < cc -> ids s j * cc + i = t -> j * cc + i = slot_of cc n t.
Proof. intros I Hj Hi <-. symmetry. apply slot_key; assumption. Qed.

(* the slot of an owned, resident ticket: state byte EMPTY; payload cell empty until written *)
Lemma own_slot s u t :
  SInv cap cc n s -> tk s t = TOwn u -> ids s (ent n (cid_of cc t)) = cid_of cc t ->
  sstate s (slot_of cc n t) = sEMPTY /\ sdata s (slot_of cc n t) = (if w1_of (ppc s u) then Some (myval s u) else None).
Proof.
  intros I Ht Hr. pose proof (own_ge _ _ _ I Ht) as Hge.
  destruct (geo_split cc Hcc t) as [Hs Hm].
  pose proof (E_slot _ _ _ _ I (ent n (cid_of cc t)) (t mod cc) (ent_lt _) Hm) as E. cbv zeta in E.
  rewrite Hr in E. replace (cid_of cc t * cc + t mod cc) with t in E by (unfold cid_of; exact Hs).
  destruct (N.ltb_spec t (hpos s)) as [L|_]; [lia|].
  unfold slot_of, slot_at, idx_of. destruct E as [E1 E2]. rewrite E1, E2. unfold dataof. rewrite Ht. split; reflexivity.
Qed.

(* ------------------------------------------------------------ E3: id.compare_exchange(cur, cid) succeeds *)
Lemma SInv_install s u x t ok cur p :
  SInv cap cc n s -> ppc s u = PE3 x t ok cur -> ids s (ent n (cid_of cc t)) = cur ->
  p = (if ok then PW0 x t else PW1 x t false) ->
  SInv cap cc n (set_ppc_at (set_ids s (updN (ids s) (ent n (cid_of cc t)) (cid_of cc t))) u p).
Proof.
  intros I Epc Hcur Hp. pose proof I as [A1 A2 A3 A4 A5 A6 B1 B2 B3 P D T E R C Bd].
  set (c := cid_of cc t) in *. set (j := ent n c) in *.
  assert (Hj : j < n) by apply ent_lt.
  assert (Ht : tk s t = TOwn u) by (apply B3; rewrite Epc; reflexivity).
  pose proof (own_ge _ _ _ I Ht) as Hge.
  pose proof (P u) as Pu. rewrite Epc in Pu. cbn [PInv] in Pu. destruct Pu as [Pok Pcas].
  assert (Hc : hcid s <= c) by (apply (geo_ge cc Hcc _ (hidx s)); lia).
  assert (Hlt : cur < hcid s) by lia.
  (* no other resident-needing ticket lives in entry j *)
  assert (Hfree : forall t', hpos s <= t' -> ent n (cid_of cc t') = j -> ids s (ent n (cid_of cc t')) = cid_of cc t' -> False).
  { intros t' L Ej Er. rewrite Ej, Hcur in Er. pose proof (geo_ge cc Hcc (hcid s) (hidx s) t') as G. unfold cid_of in Er. lia. }
  assert (Hwp : w1_of p = false) by (subst p; destruct ok; reflexivity).
  unfold set_ppc_at. constructor; st_goal; try assumption.
  - intros t' th. destruct (Nat.eqb_spec th u) as [->|Hth].
    + rewrite updn_eq. rewrite B3, Epc. subst p. destruct ok; reflexivity.
    + rewrite updn_neq by exact Hth. apply B3.
  - intros th. destruct (Nat.eqb_spec th u) as [->|Hth].
    + rewrite updn_eq. subst p. destruct ok; cbn [PInv]; fold c; fold j; rewrite updN_eq; auto.
    + rewrite updn_neq by exact Hth. specialize (P th). unfold myval in *. st_goal.
      destruct (ppc s th) eqn:Eth; cbn [PInv] in *; try assumption.
      * destruct P as [P1 P2]. split; [exact P1|].
        destruct (N.eqb_spec (ent n (cid_of cc t0)) j) as [Ej|Ej]; [|rewrite updN_neq by exact Ej; exact P2].
        exfalso. apply (Hfree t0); try assumption. apply (own_ge _ _ th I). apply B3. rewrite Eth. reflexivity.
      * destruct P as [P1 P2]. split; [exact P1|].
        destruct (N.eqb_spec (ent n (cid_of cc t0)) j) as [Ej|Ej]; [|rewrite updN_neq by exact Ej; exact P2].
        exfalso. apply (Hfree t0); try assumption. apply (own_ge _ _ th I). apply B3. rewrite Eth. reflexivity.
  - intros j' Hj'. destruct (N.eqb_spec j' j) as [->|Hne].
    + rewrite updN_eq. reflexivity.
    + rewrite updN_neq by exact Hne. apply T. exact Hj'.
  - intros j' i Hj' Hi. cbv zeta.
    rewrite (dataof_updn _ _ (pseq s) (pseq s)); try (intros; reflexivity); [|rewrite Epc, Hwp; reflexivity].
    destruct (N.eqb_spec j' j) as [->|Hne]; [|rewrite updN_neq by exact Hne; apply E; assumption].
    rewrite updN_eq. specialize (E j i Hj Hi). cbv zeta in E. fold c in Hcur. rewrite Hcur in E.
    assert (L : cur * cc + i < hpos s) by (rewrite A1; apply geo_lt; assumption).
    destruct (N.ltb_spec (cur * cc + i) (hpos s)) as [_|X]; [|lia].
    destruct E as [E1 E2]. rewrite E1, E2.
    destruct (N.ltb_spec (c * cc + i) (hpos s)) as [_|G]; [split; reflexivity|].
    assert (Hcid : cid_of cc (c * cc + i) = c) by (unfold cid_of at 1; apply geo_div; assumption).
    assert (Hz : code (tk s (c * cc + i)) = sEMPTY).
    { destruct (N.eq_dec (code (tk s (c * cc + i))) sEMPTY) as [Z|Z]; [exact Z|].
      exfalso. apply (Hfree (c * cc + i) G); rewrite Hcid; [reflexivity | fold j].
      pose proof (R _ G Z) as Rr. rewrite Hcid in Rr. exact Rr. }
    split; [symmetry; exact Hz|].
    unfold dataof. destruct (tk s (c * cc + i)) as [|th|v|] eqn:Etk; try reflexivity; [|discriminate Hz].
    destruct (w1_of (ppc s th)) eqn:Ew; [|reflexivity].
    exfalso. apply (Hfree (c * cc + i) G); rewrite Hcid; [reflexivity | fold j].
    apply B3 in Etk. specialize (P th). destruct (ppc s th); try discriminate Ew.
    cbn [own_of] in Etk. inversion Etk; subst t0. cbn [PInv] in P. destruct P as [_ P]. rewrite Hcid in P. exact P.
  - intros t' L Hz. destruct (N.eqb_spec (ent n (cid_of cc t')) j) as [Ej|Ej]; [|rewrite updN_neq by exact Ej; apply R; assumption].
    exfalso. apply (Hfree t' L Ej). apply R; assumption.
  - assert (Hh : ids s (ent n (hcid s)) = hcid s -> updN (ids s) j c (ent n (hcid s)) = hcid s).
    { intros X. destruct (N.eqb_spec (ent n (hcid s)) j) as [Ej|Ej]; [|rewrite updN_neq by exact Ej; exact X].
      exfalso. rewrite Ej, Hcur in X. lia. }
    destruct (cpc s); cbn [CInv] in *; try exact Logic.I;
      try match goal with b : bool |- _ => destruct b end; intuition.
Qed.

(* two table slots holding the same ticket are the same slot *)
Lemma same_ticket_same_key s j i j' i' :
  SInv cap cc n s -> j < n -> i < cc -> j' < n -> i' < cc ->
  ids s j * cc + i = ids s j' * cc + i' -> j * cc + i = j' * cc + i'.
Proof.
  intros I Hj Hi Hj' Hi' E.
  rewrite <- (slot_key s j i I Hj Hi), <- (slot_key s j' i' I Hj' Hi'), E. reflexivity.
Qed.

(* ------------------------------------------------------------ W0: the payload write *)
Lemma SInv_wdata s u x t :
  SInv cap cc n s -> ppc s u = PW0 x t ->
  sdata s (slot_of cc n t) = None /\
  SInv cap cc n (set_ppc_at (set_sdata s (updN (sdata s) (slot_of cc n t) (Some (myval s u)))) u (PW1 x t true)).
Proof.
  intros I Epc. pose proof I as [A1 A2 A3 A4 A5 A6 B1 B2 B3 P D T E R C Bd].
  assert (Ht : tk s t = TOwn u) by (apply B3; rewrite Epc; reflexivity).
  pose proof (own_ge _ _ _ I Ht) as Hge.
  pose proof (P u) as Pu. rewrite Epc in Pu. cbn [PInv] in Pu. destruct Pu as [Pcap Pres].
  destruct (own_slot s u t I Ht Pres) as [Hst Hsd]. rewrite Epc in Hsd. cbn [w1_of] in Hsd.
  split; [exact Hsd|].
  unfold set_ppc_at. constructor; st_goal; try assumption.
  - intros t' th. destruct (Nat.eqb_spec th u) as [->|Hth].
    + rewrite updn_eq. rewrite B3, Epc. reflexivity.
    + rewrite updn_neq by exact Hth. apply B3.
  - intros th. destruct (Nat.eqb_spec th u) as [->|Hth].
    + rewrite updn_eq. cbn [PInv]. split; [intros _; exact Pcap | exact Pres].
    + rewrite updn_neq by exact Hth. apply P.
  - intros j i Hj Hi. cbv zeta. specialize (E j i Hj Hi). cbv zeta in E. destruct E as [E1 E2].
    split; [exact E1|].
    destruct (N.eqb_spec (j * cc + i) (slot_of cc n t)) as [Ek|Ek].
    + rewrite Ek, updN_eq. rewrite (key_ticket s j i t I Hj Hi Pres Ek).
      destruct (N.ltb_spec t (hpos s)) as [L|_]; [lia|].
      unfold dataof. rewrite Ht, updn_eq. reflexivity.
    + rewrite updN_neq by exact Ek. rewrite E2.
      destruct (N.ltb_spec (ids s j * cc + i) (hpos s)) as [_|L]; [reflexivity|].
      unfold dataof. destruct (tk s (ids s j * cc + i)) as [|th|v|] eqn:Etk; try reflexivity.
      destruct (Nat.eqb_spec th u) as [->|Hth]; [|rewrite updn_neq by exact Hth; reflexivity].
      exfalso. apply Ek. apply (ticket_key s j i t I Hj Hi).
      apply B3 in Etk. rewrite Epc in Etk. cbn [own_of] in Etk. congruence.
Qed.

(* ------------------------------------------------------------ W1: state.store(SET | SKIP) *)
Lemma SInv_publish s u x t ok :
  SInv cap cc n s -> ppc s u = PW1 x t ok ->
  sstate s (slot_of cc n t) = sEMPTY /\
  SInv cap cc n (set_ppc_at (set_tk (set_sstate s (updN (sstate s) (slot_of cc n t) (if ok then sSET else sSKIP)))
                                    (updN (tk s) t (if ok then TSet (myval s u) else TSkip))) u (PN1 x t ok)).
Proof.
  intros I Epc. pose proof I as [A1 A2 A3 A4 A5 A6 B1 B2 B3 P D T E R C Bd].
  assert (Ht : tk s t = TOwn u) by (apply B3; rewrite Epc; reflexivity).
  pose proof (own_ge _ _ _ I Ht) as Hge.
  pose proof (P u) as Pu. rewrite Epc in Pu. cbn [PInv] in Pu. destruct Pu as [Pcap Pres].
  destruct (own_slot s u t I Ht Pres) as [Hst Hsd]. rewrite Epc in Hsd.
  split; [exact Hst|].
  set (x' := if ok then TSet (myval s u) else TSkip).
  assert (Hx' : code x' = (if ok then sSET else sSKIP)) by (subst x'; destruct ok; reflexivity).
  assert (Hnf : forall th, x' <> TOwn th) by (subst x'; destruct ok; discriminate).
  unfold set_ppc_at. constructor; st_goal; try assumption.
  - intros t'. destruct (N.eqb_spec t' t) as [->|Hne].
    + rewrite updN_eq. split; [subst x'; destruct ok; discriminate|].
      intros L. apply B1 in L. congruence.
    + rewrite updN_neq by exact Hne. apply B1.
  - intros t' L. rewrite updN_neq by lia. apply B2. exact L.
  - intros t' th. destruct (Nat.eqb_spec th u) as [->|Hth].
    + rewrite updn_eq. cbn [own_of]. split; [|discriminate].
      destruct (N.eqb_spec t' t) as [->|Hne]; [rewrite updN_eq; intros X; destruct (Hnf _ X)|].
      rewrite updN_neq by exact Hne. rewrite B3, Epc. cbn [own_of]. congruence.
    + rewrite updn_neq by exact Hth. destruct (N.eqb_spec t' t) as [->|Hne].
      * rewrite updN_eq. rewrite <- B3, Ht. split; [intros X; destruct (Hnf _ X) | congruence].
      * rewrite updN_neq by exact Hne. apply B3.
  - intros th. destruct (Nat.eqb_spec th u) as [->|Hth].
    + rewrite updn_eq. cbn [PInv]. intros ->. rewrite updN_eq. reflexivity.
    + rewrite updn_neq by exact Hth. specialize (P th). unfold myval in *. st_goal.
      destruct (ppc s th); cbn [PInv] in *; try assumption;
        intros X; specialize (P X); (destruct (N.eqb_spec t0 t) as [->|Hne]; [congruence | rewrite updN_neq by exact Hne; exact P]).
  - intros t' v. destruct (N.eqb_spec t' t) as [->|Hne].
    + rewrite updN_eq. intros X _. apply Pcap. subst x'. destruct ok; [reflexivity | discriminate X].
    + rewrite updN_neq by exact Hne. apply D.
  - (* the consumer has not taken the payload of t: t is not a SET ticket yet *)
    assert (Hnt : taken (cpc s) && N.eqb t (hpos s) = false).
    { destruct (taken (cpc s)) eqn:Etk; [|reflexivity]. destruct (N.eqb_spec t (hpos s)) as [Eh|]; [|reflexivity].
      exfalso. destruct (cpc s); try discriminate Etk. destruct set; try discriminate Etk.
      cbn [CInv] in C. destruct C as [C1 [C2 C3]].
      pose proof (E (ent n (hcid s)) (hidx s) (ent_lt _) C2) as [E1 _]. cbv zeta in E1.
      rewrite C1, <- A1 in E1. unfold slot_at in C3. rewrite C3 in E1.
      destruct (N.ltb_spec (hpos s) (hpos s)) as [L|_]; [lia|]. rewrite <- Eh, Ht in E1. discriminate E1. }
    intros j i Hj Hi. cbv zeta. specialize (E j i Hj Hi). cbv zeta in E. destruct E as [E1 E2].
    destruct (N.eqb_spec (j * cc + i) (slot_of cc n t)) as [Ek|Ek].
    + rewrite Ek, updN_eq. rewrite Ek in E2. rewrite (key_ticket s j i t I Hj Hi Pres Ek) in *.
      destruct (N.ltb_spec t (hpos s)) as [L|_]; [lia|].
      rewrite updN_eq. split; [symmetry; exact Hx'|].
      rewrite Hsd. unfold dataof. rewrite updN_eq. subst x'. destruct ok; cbn [w1_of]; [rewrite Hnt|]; reflexivity.
    + rewrite updN_neq by exact Ek.
      assert (Hne : ids s j * cc + i <> t) by (intros X; apply Ek; apply (ticket_key s j i t I Hj Hi X)).
      rewrite updN_neq by exact Hne. split; [exact E1|]. rewrite E2.
      destruct (N.ltb_spec (ids s j * cc + i) (hpos s)) as [_|L]; [reflexivity|].
      unfold dataof. rewrite updN_neq by exact Hne.
      destruct (tk s (ids s j * cc + i)) as [|th|v|] eqn:Etk; try reflexivity.
      destruct (Nat.eqb_spec th u) as [->|Hth]; [|rewrite updn_neq by exact Hth; reflexivity].
      exfalso. apply Hne. apply B3 in Etk. rewrite Epc in Etk. cbn [own_of] in Etk. congruence.
  - intros t' L. destruct (N.eqb_spec t' t) as [->|Hne]; [intros _; exact Pres|].
    rewrite updN_neq by exact Hne. apply R. exact L.
  - assert (Hh : forall v, v <> sEMPTY -> sstate s (slot_at cc n (hcid s) (hidx s)) = v ->
                 updN (sstate s) (slot_of cc n t) (if ok then sSET else sSKIP) (slot_at cc n (hcid s) (hidx s)) = v).
    { intros v Hv X. destruct (N.eqb_spec (slot_at cc n (hcid s) (hidx s)) (slot_of cc n t)) as [Ej|Ej];
        [|rewrite updN_neq by exact Ej; exact X].
      exfalso. rewrite Ej, Hst in X. congruence. }
    destruct (cpc s); cbn [CInv] in *; try exact Logic.I; try assumption.
    + destruct C as [C1 [C2 C3]]. repeat split; try assumption. apply Hh; [discriminate | exact C3].
    + destruct set; destruct C as [C1 [C2 C3]]; repeat split; try assumption; (apply Hh; [discriminate | exact C3]).
Qed.

(* ------------------------------------------------------------ every producer step *)
Ltac pure_p I Epc :=
  eapply SInv_p_pure;
  [ exact I | constructor; reflexivity | st_goal; apply (A_prog _ _ _ _ I) | st_goal; apply (A_drn _ _ _ _ I)
  | reflexivity | st_goal; reflexivity
  | intros; st_goal; first [reflexivity | apply updn_neq; assumption]
  | let X := fresh in intros X; st_goal; first [reflexivity | discriminate X]
  | rewrite Epc; reflexivity | rewrite Epc; reflexivity
  | let Pu := fresh "Pu" in
    pose proof (P_inv _ _ _ _ I) as Pu; match type of Epc with ppc _ ?u = _ => specialize (Pu u) end;
    rewrite Epc in Pu; cbn [PInv] in Pu |- *; unfold myval in *; st_goal ].

Lemma SInv_pstep s u c s' e :
  SInv cap cc n s -> pstep cap cc n s u c = Some (s', e) -> SInv cap cc n s'.
Proof.
  intros I Hs. unfold pstep in Hs. destruct (ppc s u) eqn:Epc.
  - (* PIdle *) destruct (pprog s u) as [|[] r]; inv_step Hs; unf_steps; pure_p I Epc; exact Logic.I.
  - (* PRd *) inv_step Hs; unf_steps; split_goal; pure_p I Epc; exact Logic.I.
  - (* PS1 *) inv_step Hs; unf_steps; pure_p I Epc; exact Logic.I.
  - (* PS2 *) inv_step Hs; unf_steps; split_goal; pure_p I Epc; exact Logic.I.
  - (* PS3 *) inv_step Hs. apply SInv_claim; assumption.
  - (* PS4 *) inv_step Hs; unf_steps; pure_p I Epc.
    pose proof (A_prog _ _ _ _ I). pose proof (A_drn _ _ _ _ I).
    unfold win, cnt. destruct (is_cold x); lia.
  - (* PE1 *) inv_step Hs; unf_steps. destruct (N.eqb_spec (ids s (ent n (cid_of cc t))) (cid_of cc t)) as [Er|Er].
    + destruct ok; pure_p I Epc.
      * split; [auto | exact Er].
      * split; [discriminate | exact Er].
    + pure_p I Epc. exact Pu.
  - (* PE2 *) inv_step Hs; unf_steps. destruct (N.ltb_spec (retired s) (cur + 1)) as [L|L]; pure_p I Epc; [exact Pu|].
    split; [exact Pu | exact L].
  - (* PEs *) inv_step Hs; unf_steps; pure_p I Epc. exact Pu.
  - (* PE3 *) inv_step Hs; unf_steps. destruct (N.eqb_spec (ids s (ent n (cid_of cc t))) cur) as [Er|Er].
    + eapply SInv_install; [exact I | exact Epc | exact Er | reflexivity].
    + pure_p I Epc. apply Pu.
  - (* PW0 *) destruct (SInv_wdata s u x t I Epc) as [Hd Hi]. rewrite Hd in Hs. inv_step Hs. exact Hi.
  - (* PW1 *) destruct (SInv_publish s u x t ok I Epc) as [Hd Hi]. rewrite Hd in Hs.
    change (N.eqb sEMPTY sEMPTY) with true in Hs. cbv iota in Hs. inv_step Hs. exact Hi.
  - (* PN1 *) inv_step Hs; unf_steps; pure_p I Epc. exact Pu.
  - (* PN2 *) inv_step Hs; unf_steps; pure_p I Epc. exact Pu.
  - (* PN3 *) inv_step Hs; unf_steps; split_goal; pure_p I Epc; exact Logic.I.
  - (* PDropSub *) inv_step Hs; unf_steps; split_goal; pure_p I Epc; exact Logic.I.
  - (* PWk *) unfold p_lock in Hs. destruct k; inv_step Hs; unf_steps; split_goal; try exact I; pure_p I Epc; exact Logic.I.
  - discriminate Hs.
Qed.

End Prod.
