(* Proofs/TicketK3Prod.v — SInv is preserved by every producer step. *)
From Fibre Require Import Common.Base Common.Conc Chan.TicketK3 Proofs.TicketK3Base Proofs.TicketK3Frame.
From Coq Require Import ZifyBool ZifyNat ZifyN Arith.

Lemma dataof_tk_other tkf pcf sq tak hp t0 x t :
  t <> t0 -> dataof (updN tkf t0 x) pcf sq tak hp t = dataof tkf pcf sq tak hp t.
Proof. intros H. unfold dataof. rewrite updN_neq by exact H. reflexivity. Qed.

Lemma code_nonzero x : code x <> sEMPTY -> x = TSkip \/ exists v, x = TSet v.
Proof. destruct x; cbn; intros H; try (exfalso; apply H; reflexivity); eauto. Qed.

Lemma claim_in f t0 m th x : t0 <= x < t0 + m -> claim f t0 m th x = TOwn th.
Proof. intros H. unfold claim. destruct (N.leb_spec t0 x); destruct (N.ltb_spec x (t0 + m)); try lia. reflexivity. Qed.
Lemma claim_out f t0 m th x : x < t0 \/ t0 + m <= x -> claim f t0 m th x = f x.
Proof. intros H. unfold claim. destruct (N.leb_spec t0 x); destruct (N.ltb_spec x (t0 + m)); try lia; reflexivity. Qed.

Section Prod.
Variables cap cc n kk : N.
Hypothesis Hcc : 0 < cc.
Hypothesis Hn : 0 < n.

(* an owned ticket is at or beyond the consumer's cursor *)
Lemma own_ge s t th : SInv cap cc n s -> tk s t = TOwn th -> hpos s <= t.
Proof.
  intros I H. destruct (N.lt_ge_cases t (hpos s)) as [L|L]; [|exact L].
  exfalso. apply (B_done _ _ _ _ I t L). rewrite H. reflexivity.
Qed.

(* ------------------------------------------------------------ S3 / C3: g_tail.fetch_add(m) *)
Lemma SInv_claim s u m p :
  SInv cap cc n s -> (forall t, ~ owns (ppc s u) t) -> wval_of (ppc s u) = None ->
  0 < m -> own_lo p = gtail s -> own_hi p = gtail s + m -> wval_of p = None ->
  PInv cap cc n (hpos s) (retired s) (ids s) p ->
  SInv cap cc n (set_ppc_at (set_tk (set_gtail s (gtail s + m)) (claim (tk s) (gtail s) m u)) u p).
Proof.
  intros I Hno Hw0 Hm Hlo Hhi Hw Hp. pose proof I as [A1 A2 A3 A4 A5 A6 B1 B2 B3 P D T E R C Bd].
  set (g := gtail s) in *.
  assert (Hg : forall t, g <= t -> tk s t = TFree) by (intros t L; apply B1; exact L).
  unfold set_ppc_at. constructor; st_goal; try assumption.
  - lia.
  - intros t. destruct (N.lt_ge_cases t g) as [L|L]; [|destruct (N.lt_ge_cases t (g + m)) as [L'|L']].
    + rewrite claim_out by lia. rewrite B1. fold g. lia.
    + rewrite claim_in by lia. split; [discriminate | lia].
    + rewrite claim_out by lia. rewrite B1. fold g. lia.
  - intros t L. rewrite claim_out by lia. apply B2. exact L.
  - intros t th. destruct (Nat.eqb_spec th u) as [->|Hth].
    + rewrite updn_eq. unfold owns. rewrite Hlo, Hhi.
      destruct (N.lt_ge_cases t g) as [L|L]; [|destruct (N.lt_ge_cases t (g + m)) as [L'|L']].
      * rewrite claim_out by lia. rewrite B3. split; [intros X; destruct (Hno _ X) | lia].
      * rewrite claim_in by lia. split; [lia | reflexivity].
      * rewrite claim_out by lia. rewrite B3. split; [intros X; destruct (Hno _ X) | lia].
    + rewrite updn_neq by exact Hth.
      destruct (N.lt_ge_cases t g) as [L|L]; [|destruct (N.lt_ge_cases t (g + m)) as [L'|L']].
      * rewrite claim_out by lia. apply B3.
      * rewrite claim_in by lia. rewrite <- B3, (Hg t L). split; [intros X; inversion X; congruence | discriminate].
      * rewrite claim_out by lia. apply B3.
  - intros th. destruct (Nat.eqb_spec th u) as [->|Hth].
    + rewrite updn_eq. exact Hp.
    + rewrite updn_neq by exact Hth. apply P.
  - intros t v. destruct (N.lt_ge_cases t g) as [L|L]; [|destruct (N.lt_ge_cases t (g + m)) as [L'|L']].
    + rewrite claim_out by lia. apply D.
    + rewrite claim_in by lia. discriminate.
    + rewrite claim_out by lia. apply D.
  - intros j i Hj Hi. cbv zeta. specialize (E j i Hj Hi). cbv zeta in E. destruct E as [E1 E2].
    rewrite (dataof_updn _ _ (pseq s) (pseq s)); try (intros; reflexivity); [|rewrite Hw, Hw0; reflexivity].
    set (t := ids s j * cc + i) in *.
    destruct (N.lt_ge_cases t g) as [L|L]; [|destruct (N.lt_ge_cases t (g + m)) as [L'|L']].
    + rewrite claim_out by lia. unfold dataof in *. rewrite claim_out by lia. split; assumption.
    + rewrite claim_in by lia. rewrite (Hg t L) in E1. split; [exact E1|].
      rewrite E2. unfold dataof. rewrite claim_in by lia. rewrite (Hg t L), Hw0. reflexivity.
    + rewrite claim_out by lia. unfold dataof in *. rewrite claim_out by lia. split; assumption.
  - intros t L Hc. destruct (N.lt_ge_cases t g) as [L1|L1]; [|destruct (N.lt_ge_cases t (g + m)) as [L'|L']].
    + rewrite claim_out in Hc by lia. apply R; assumption.
    + rewrite claim_in in Hc by lia. exfalso. apply Hc. reflexivity.
    + rewrite claim_out in Hc by lia. apply R; assumption.
Qed.

(* ------------------------------------------------------------ slot keys *)
Lemma ent_lt c : ent n c < n.
Proof. unfold ent. apply N.mod_lt. lia. Qed.

Lemma slot_key s j i :
  SInv cap cc n s -> j < n -> i < cc -> slot_of cc n (ids s j * cc + i) = j * cc + i.
Proof.
  intros I Hj Hi. unfold slot_of, slot_at, cid_of, idx_of, ent.
  rewrite (geo_div cc Hcc _ _ Hi), (geo_mod cc Hcc _ _ Hi), (T_ids _ _ _ _ I j Hj). reflexivity.
Qed.

Lemma key_ticket s j i t :
  SInv cap cc n s -> j < n -> i < cc -> ids s (ent n (cid_of cc t)) = cid_of cc t ->
  j * cc + i = slot_of cc n t -> ids s j * cc + i = t.
Proof.
  intros I Hj Hi Hr Hk. unfold slot_of, slot_at, idx_of in Hk.
  destruct (geo_split cc Hcc t) as [Ht Hm].
  destruct (geo_key_inj cc Hcc _ _ _ _ Hi Hm Hk) as [-> ->].
  rewrite Hr. unfold cid_of. symmetry. exact Ht.
Qed.

Lemma ticket_key s j i t :
  SInv cap cc n s -> j < n -> i < cc -> ids s j * cc + i = t -> j * cc + i = slot_of cc n t.
Proof. intros I Hj Hi <-. symmetry. apply slot_key; assumption. Qed.

(* two table slots holding the same ticket are the same slot *)
Lemma same_ticket_same_key s j i j' i' :
  SInv cap cc n s -> j < n -> i < cc -> j' < n -> i' < cc ->
  ids s j * cc + i = ids s j' * cc + i' -> j * cc + i = j' * cc + i'.
Proof.
  intros I Hj Hi Hj' Hi' E.
  rewrite <- (slot_key s j i I Hj Hi), <- (slot_key s j' i' I Hj' Hi'), E. reflexivity.
Qed.

(* the slot of an owned, resident ticket: state byte EMPTY; payload cell empty until written *)
Lemma own_slot s u t :
  SInv cap cc n s -> tk s t = TOwn u -> ids s (ent n (cid_of cc t)) = cid_of cc t ->
  sstate s (slot_of cc n t) = sEMPTY /\
  sdata s (slot_of cc n t) = match wval_of (ppc s u) with
                             | Some (t0, i) => if N.eqb t t0 then Some (u, pseq s u + 1 + i) else None
                             | None => None
                             end.
Proof.
  intros I Ht Hr. pose proof (own_ge _ _ _ I Ht) as Hge.
  destruct (geo_split cc Hcc t) as [Hs Hm].
  pose proof (E_slot _ _ _ _ I (ent n (cid_of cc t)) (t mod cc) (ent_lt _) Hm) as E. cbv zeta in E.
  rewrite Hr in E. replace (cid_of cc t * cc + t mod cc) with t in E by (unfold cid_of; exact Hs).
  destruct (N.ltb_spec t (hpos s)) as [L|_]; [lia|].
  unfold slot_of, slot_at, idx_of. destruct E as [E1 E2]. rewrite E1, E2. unfold dataof. rewrite Ht. split; reflexivity.
Qed.

(* ------------------------------------------------------------ E3: id.compare_exchange(cur, cid) succeeds *)
Lemma SInv_install s u k r cur p :
  SInv cap cc n s -> ppc s u = PE3 k r cur -> ids s (ent n (cid_of cc (rcur r))) = cur ->
  p = (if rset r then PW0 k r else PW1 k r) ->
  SInv cap cc n (set_ppc_at (set_ids s (updN (ids s) (ent n (cid_of cc (rcur r))) (cid_of cc (rcur r)))) u p).
Proof.
  intros I Epc Hcur Hp. pose proof I as [A1 A2 A3 A4 A5 A6 B1 B2 B3 P D T E R C Bd].
  set (t := rcur r) in *. set (c := cid_of cc t) in *. set (j := ent n c) in *.
  assert (Hj : j < n) by apply ent_lt.
  pose proof (P u) as Pu. rewrite Epc in Pu. cbn [PInv] in Pu. destruct Pu as [[Pw [Pv [Pc Pb]]] Pcas].
  assert (Ht : tk s t = TOwn u).
  { apply B3. rewrite Epc. unfold owns. cbn [own_lo own_hi]. unfold t, rcur. lia. }
  pose proof (own_ge _ _ _ I Ht) as Hge.
  assert (Hc : hcid s <= c) by (apply (geo_ge cc Hcc _ (hidx s)); lia).
  assert (Hlt : cur < hcid s) by lia.
  (* no other resident-needing ticket lives in entry j *)
  assert (Hfree : forall t', hpos s <= t' -> ent n (cid_of cc t') = j -> ids s (ent n (cid_of cc t')) = cid_of cc t' -> False).
  { intros t' L Ej Er. rewrite Ej, Hcur in Er. pose proof (geo_ge cc Hcc (hcid s) (hidx s) t') as G. unfold cid_of in Er. lia. }
  assert (Hwp : wval_of p = None).
  { subst p. destruct (rset r) eqn:X; cbn [wval_of]; [reflexivity | rewrite X; reflexivity]. }
  unfold set_ppc_at. constructor; st_goal; try assumption.
  - intros t' th. destruct (Nat.eqb_spec th u) as [->|Hth].
    + rewrite updn_eq. rewrite B3, Epc. subst p. unfold owns. destruct (rset r); reflexivity.
    + rewrite updn_neq by exact Hth. apply B3.
  - intros th. destruct (Nat.eqb_spec th u) as [->|Hth].
    + rewrite updn_eq. subst p. destruct (rset r) eqn:Ers; cbn [PInv]; unfold RInv, resident; fold t; fold c; fold j;
        rewrite updN_eq; repeat split; auto.
      unfold rset in Ers. apply N.ltb_lt in Ers. exact Ers.
    + rewrite updn_neq by exact Hth. specialize (P th).
      assert (Hres : forall t0, tk s t0 = TOwn th -> resident cc n (ids s) t0 -> resident cc n (updN (ids s) j c) t0).
      { intros t0 Ho Hr0. unfold resident in *.
        destruct (N.eqb_spec (ent n (cid_of cc t0)) j) as [Ej|Ej]; [|rewrite updN_neq by exact Ej; exact Hr0].
        exfalso. apply (Hfree t0); try assumption. apply (own_ge _ _ th I). exact Ho. }
      destruct (ppc s th) eqn:Eth; cbn [PInv] in *; try assumption.
      * destruct P as [P1 [P2 P3]]. refine (conj P1 (conj P2 _)). apply Hres; [|exact P3].
        apply B3. rewrite Eth. unfold owns, RInv in *. cbn [own_lo own_hi]. unfold rcur. lia.
      * destruct P as [P1 P3]. refine (conj P1 _). apply Hres; [|exact P3].
        apply B3. rewrite Eth. unfold owns, RInv in *. cbn [own_lo own_hi]. unfold rcur. lia.
  - intros j' Hj'. destruct (N.eqb_spec j' j) as [->|Hne].
    + rewrite updN_eq. reflexivity.
    + rewrite updN_neq by exact Hne. apply T. exact Hj'.
  - intros j' i Hj' Hi. cbv zeta.
    rewrite (dataof_updn _ _ (pseq s) (pseq s)); try (intros; reflexivity);
      [|rewrite Epc, Hwp; reflexivity].
    destruct (N.eqb_spec j' j) as [->|Hne]; [|rewrite updN_neq by exact Hne; apply E; assumption].
    rewrite updN_eq. specialize (E j i Hj Hi). cbv zeta in E. fold c in Hcur. rewrite Hcur in E.
    assert (L : cur * cc + i < hpos s) by (rewrite A1; apply geo_lt; assumption).
    destruct (N.ltb_spec (cur * cc + i) (hpos s)) as [_|X]; [|lia].
    destruct E as [E1 E2]. rewrite E1, E2.
    destruct (N.ltb_spec (c * cc + i) (hpos s)) as [_|G]; [split; reflexivity|].
    assert (Hcid : cid_of cc (c * cc + i) = c) by (unfold cid_of at 1; apply geo_div; assumption).
    assert (Hz : code (tk s (c * cc + i)) = sEMPTY).
    { destruct (N.eq_dec (code (tk s (c * cc + i))) sEMPTY) as [Z|Z]; [exact Z|].
      exfalso. apply (Hfree (c * cc + i) G); rewrite Hcid; [reflexivity | fold j].
      pose proof (R _ G Z) as Rr. rewrite Hcid in Rr. exact Rr. }
    split; [symmetry; exact Hz|].
    unfold dataof. destruct (tk s (c * cc + i)) as [|th|v|] eqn:Etk; try reflexivity; [|discriminate Hz].
    destruct (wval_of (ppc s th)) as [[t0 i0]|] eqn:Ew; [|reflexivity].
    destruct (N.eqb_spec (c * cc + i) t0) as [Et0|]; [|reflexivity].
    exfalso. apply (Hfree (c * cc + i) G); rewrite Hcid; [reflexivity | fold j].
    specialize (P th). destruct (ppc s th); try discriminate Ew.
    cbn [wval_of] in Ew. destruct (rset r0); [|discriminate Ew]. injection Ew as Ew1 Ew2.
    cbn [PInv] in P. destruct P as [_ P]. unfold resident in P. rewrite Ew1, <- Et0, Hcid in P. exact P.
  - intros t' L Hz. destruct (N.eqb_spec (ent n (cid_of cc t')) j) as [Ej|Ej]; [|rewrite updN_neq by exact Ej; apply R; assumption].
    exfalso. apply (Hfree t' L Ej). apply R; assumption.
  - assert (Hh : ids s (ent n (hcid s)) = hcid s -> updN (ids s) j c (ent n (hcid s)) = hcid s).
    { intros X. destruct (N.eqb_spec (ent n (hcid s)) j) as [Ej|Ej]; [|rewrite updN_neq by exact Ej; exact X].
      exfalso. rewrite Ej, Hcur in X. lia. }
    destruct (cpc s); cbn [CInv] in *; try exact Logic.I;
      try match goal with b : bool |- _ => destruct b end; intuition.
Qed.

(* ------------------------------------------------------------ W0: the payload write *)
Lemma SInv_wdata s u k r :
  SInv cap cc n s -> ppc s u = PW0 k r ->
  sdata s (slot_of cc n (rcur r)) = None /\
  SInv cap cc n (set_ppc_at (set_sdata s (updN (sdata s) (slot_of cc n (rcur r)) (Some (itemval s u (kitem k + rw r))))) u (PW1 k r)).
Proof.
  intros I Epc. pose proof I as [A1 A2 A3 A4 A5 A6 B1 B2 B3 P D T E R C Bd].
  set (t := rcur r) in *.
  pose proof (P u) as Pu. rewrite Epc in Pu. cbn [PInv] in Pu. destruct Pu as [[Pw [Pv [Pc Pb]]] [Pset Pres]].
  unfold resident in Pres. fold t in Pres.
  assert (Ht : tk s t = TOwn u).
  { apply B3. rewrite Epc. unfold owns. cbn [own_lo own_hi]. unfold t, rcur. lia. }
  pose proof (own_ge _ _ _ I Ht) as Hge.
  destruct (own_slot s u t I Ht Pres) as [Hst Hsd]. rewrite Epc in Hsd. cbn [wval_of] in Hsd.
  split; [exact Hsd|].
  assert (Hrs : rset r = true) by (unfold rset; apply N.ltb_lt; exact Pset).
  unfold set_ppc_at. constructor; st_goal; try assumption.
  - intros t' th. destruct (Nat.eqb_spec th u) as [->|Hth].
    + rewrite updn_eq. rewrite B3, Epc. reflexivity.
    + rewrite updn_neq by exact Hth. apply B3.
  - intros th. destruct (Nat.eqb_spec th u) as [->|Hth].
    + rewrite updn_eq. cbn [PInv]. unfold RInv, resident. fold t. repeat split; assumption.
    + rewrite updn_neq by exact Hth. apply P.
  - intros j i Hj Hi. cbv zeta. specialize (E j i Hj Hi). cbv zeta in E. destruct E as [E1 E2].
    split; [exact E1|].
    destruct (N.eqb_spec (j * cc + i) (slot_of cc n t)) as [Ek|Ek].
    + rewrite Ek, updN_eq. rewrite (key_ticket s j i t I Hj Hi Pres Ek).
      destruct (N.ltb_spec t (hpos s)) as [L|_]; [lia|].
      unfold dataof. rewrite Ht, updn_eq. cbn [wval_of]. rewrite Hrs. fold t. rewrite N.eqb_refl. reflexivity.
    + rewrite updN_neq by exact Ek. rewrite E2.
      destruct (N.ltb_spec (ids s j * cc + i) (hpos s)) as [_|L]; [reflexivity|].
      unfold dataof. destruct (tk s (ids s j * cc + i)) as [|th|v|] eqn:Etk; try reflexivity.
      destruct (Nat.eqb_spec th u) as [->|Hth]; [|rewrite updn_neq by exact Hth; reflexivity].
      rewrite updn_eq, Epc. cbn [wval_of]. rewrite Hrs. fold t.
      destruct (N.eqb_spec (ids s j * cc + i) t) as [Et|]; [|reflexivity].
      exfalso. apply Ek. apply (ticket_key s j i t I Hj Hi Et).
Qed.

(* ------------------------------------------------------------ W1: state.store(SET | SKIP) *)
Lemma SInv_publish s u k r p' :
  SInv cap cc n s -> ppc s u = PW1 k r ->
  (forall t, owns p' t <-> rcur r < t < rt r + rm r) -> wval_of p' = None ->
  PInv cap cc n (hpos s) (retired s) (ids s) p' ->
  sstate s (slot_of cc n (rcur r)) = sEMPTY /\
  SInv cap cc n (set_ppc_at (set_tk (set_sstate s (updN (sstate s) (slot_of cc n (rcur r)) (if rset r then sSET else sSKIP)))
                                    (updN (tk s) (rcur r) (if rset r then TSet (itemval s u (kitem k + rw r)) else TSkip))) u p').
Proof.
  intros I Epc Hown Hwp Hp'. pose proof I as [A1 A2 A3 A4 A5 A6 B1 B2 B3 P D T E R C Bd].
  set (t := rcur r) in *.
  pose proof (P u) as Pu. rewrite Epc in Pu. cbn [PInv] in Pu. destruct Pu as [[Pw [Pv [Pc Pb]]] Pres].
  unfold resident in Pres. fold t in Pres.
  assert (Ht : tk s t = TOwn u).
  { apply B3. rewrite Epc. unfold owns. cbn [own_lo own_hi]. unfold t, rcur. lia. }
  pose proof (own_ge _ _ _ I Ht) as Hge.
  destruct (own_slot s u t I Ht Pres) as [Hst Hsd]. rewrite Epc in Hsd. cbn [wval_of] in Hsd. fold t in Hsd.
  split; [exact Hst|].
  set (x' := if rset r then TSet (itemval s u (kitem k + rw r)) else TSkip).
  assert (Hx' : code x' = (if rset r then sSET else sSKIP)) by (subst x'; destruct (rset r); reflexivity).
  assert (Hnf : forall th, x' <> TOwn th) by (subst x'; destruct (rset r); discriminate).
  unfold set_ppc_at. constructor; st_goal; try assumption.
  - intros t'. destruct (N.eqb_spec t' t) as [->|Hne].
    + rewrite updN_eq. split; [subst x'; destruct (rset r); discriminate|].
      intros L. apply B1 in L. congruence.
    + rewrite updN_neq by exact Hne. apply B1.
  - intros t' L. rewrite updN_neq by lia. apply B2. exact L.
  - intros t' th. destruct (Nat.eqb_spec th u) as [->|Hth].
    + rewrite updn_eq. rewrite Hown. destruct (N.eqb_spec t' t) as [->|Hne].
      * rewrite updN_eq. split; [intros X; destruct (Hnf _ X) | unfold t; lia].
      * rewrite updN_neq by exact Hne. rewrite B3, Epc. unfold owns. cbn [own_lo own_hi]. fold (rcur r). fold t. lia.
    + rewrite updn_neq by exact Hth. destruct (N.eqb_spec t' t) as [->|Hne].
      * rewrite updN_eq. rewrite <- B3, Ht. split; [intros X; destruct (Hnf _ X) | congruence].
      * rewrite updN_neq by exact Hne. apply B3.
  - intros th. destruct (Nat.eqb_spec th u) as [->|Hth].
    + rewrite updn_eq. exact Hp'.
    + rewrite updn_neq by exact Hth. apply P.
  - intros t' v. destruct (N.eqb_spec t' t) as [->|Hne].
    + rewrite updN_eq. intros X _. subst x'. destruct (rset r) eqn:Ers; [|discriminate X].
      unfold rset in Ers. apply N.ltb_lt in Ers. unfold t, rcur. lia.
    + rewrite updN_neq by exact Hne. apply D.
  - (* the consumer has not taken the payload of t: t is not a SET ticket yet *)
    assert (Hnt : taken (cpc s) && N.eqb t (hpos s) = false).
    { destruct (taken (cpc s)) eqn:Etk; [|reflexivity]. destruct (N.eqb_spec t (hpos s)) as [Eh|]; [|reflexivity].
      exfalso. destruct (cpc s); try discriminate Etk. destruct set; try discriminate Etk.
      cbn [CInv] in C. destruct C as [C1 [C2 C3]].
      pose proof (E (ent n (hcid s)) (hidx s) (ent_lt _) C2) as [E1 _]. cbv zeta in E1.
      rewrite C1, <- A1 in E1. unfold slot_at in C3. rewrite C3 in E1.
      destruct (N.ltb_spec (hpos s) (hpos s)) as [L|_]; [lia|]. rewrite <- Eh, Ht in E1. discriminate E1. }
    intros j i Hj Hi. cbv zeta. specialize (E j i Hj Hi). cbv zeta in E. destruct E as [E1 E2].
    destruct (N.eqb_spec (j * cc + i) (slot_of cc n t)) as [Ek|Ek].
    + rewrite Ek, updN_eq. rewrite Ek in E2. rewrite (key_ticket s j i t I Hj Hi Pres Ek) in *.
      destruct (N.ltb_spec t (hpos s)) as [L|_]; [lia|].
      rewrite updN_eq. split; [symmetry; exact Hx'|].
      rewrite Hsd. unfold dataof. rewrite updN_eq. subst x'. unfold itemval.
      destruct (rset r); [rewrite Hnt, N.eqb_refl|]; reflexivity.
    + rewrite updN_neq by exact Ek.
      assert (Hne : ids s j * cc + i <> t) by (intros X; apply Ek; apply (ticket_key s j i t I Hj Hi X)).
      rewrite updN_neq by exact Hne. split; [exact E1|]. rewrite E2.
      destruct (N.ltb_spec (ids s j * cc + i) (hpos s)) as [_|L]; [reflexivity|].
      unfold dataof. rewrite updN_neq by exact Hne.
      destruct (tk s (ids s j * cc + i)) as [|th|v|] eqn:Etk; try reflexivity.
      destruct (Nat.eqb_spec th u) as [->|Hth]; [|rewrite updn_neq by exact Hth; reflexivity].
      rewrite updn_eq, Epc, Hwp. cbn [wval_of]. destruct (rset r); [|reflexivity].
      fold t. destruct (N.eqb_spec (ids s j * cc + i) t); [contradiction | reflexivity].
  - intros t' L. destruct (N.eqb_spec t' t) as [->|Hne]; [intros _; exact Pres|].
    rewrite updN_neq by exact Hne. apply R. exact L.
  - assert (Hh : forall v, v <> sEMPTY -> sstate s (slot_at cc n (hcid s) (hidx s)) = v ->
                 updN (sstate s) (slot_of cc n t) (if rset r then sSET else sSKIP) (slot_at cc n (hcid s) (hidx s)) = v).
    { intros v Hv X. destruct (N.eqb_spec (slot_at cc n (hcid s) (hidx s)) (slot_of cc n t)) as [Ej|Ej];
        [|rewrite updN_neq by exact Ej; exact X].
      exfalso. rewrite Ej, Hst in X. congruence. }
    destruct (cpc s); cbn [CInv] in *; try exact Logic.I; try assumption.
    + destruct C as [C1 [C2 C3]]. repeat split; try assumption. apply Hh; [discriminate | exact C3].
    + destruct set; destruct C as [C1 [C2 C3]]; repeat split; try assumption; (apply Hh; [discriminate | exact C3]).
Qed.

(* the next ticket of a run stays resident unless it starts a new chunk *)
Lemma resident_succ idf t :
  N.eqb (idx_of cc (t + 1)) 0 = false -> resident cc n idf t -> resident cc n idf (t + 1).
Proof.
  intros H R. unfold resident, cid_of, idx_of in *. apply N.eqb_neq in H.
  rewrite (geo_succ cc Hcc t H). exact R.
Qed.

(* ------------------------------------------------------------ every producer step *)
Ltac pure_p I Epc :=
  eapply SInv_p_pure;
  [ exact I | constructor; reflexivity | st_goal; apply (A_prog _ _ _ _ I) | st_goal; apply (A_drn _ _ _ _ I)
  | reflexivity | st_goal; reflexivity
  | intros; st_goal; first [reflexivity | apply updn_neq; assumption]
  | let X := fresh in intros X; st_goal; first [reflexivity | exfalso; apply X; reflexivity]
  | rewrite Epc; cbn [own_lo own_hi rt rv rm rw]; try reflexivity; lia
  | rewrite Epc; cbn [own_lo own_hi rt rv rm rw]; try reflexivity; lia
  | first [ rewrite Epc; reflexivity
          | rewrite Epc; cbn [wval_of]; match goal with H : rset _ = _ |- _ => rewrite H; reflexivity end ]
  | let Pu := fresh "Pu" in
    pose proof (P_inv _ _ _ _ I) as Pu; match type of Epc with ppc _ ?u = _ => specialize (Pu u) end;
    rewrite Epc in Pu; cbn [PInv] in Pu |- *; unfold RInv, rset, rcur in *;
    cbn [rt rv rm rw bsent btotal bcold] in * ].

Lemma SInv_pstep s u c s' e :
  SInv cap cc n s -> pstep cap cc n kk s u c = Some (s', e) -> SInv cap cc n s'.
Proof.
  intros I Hs. unfold pstep in Hs. destruct (ppc s u) eqn:Epc.
  - (* PIdle *) destruct (pprog s u) as [|[|k] r]; inv_step Hs; unf_steps; pure_p I Epc; try exact Logic.I. lia.
  - (* PRd *) inv_step Hs; unf_steps; split_goal; pure_p I Epc; exact Logic.I.
  - (* PS1 *) inv_step Hs; unf_steps; pure_p I Epc; exact Logic.I.
  - (* PS2 *) inv_step Hs; unf_steps; split_goal; pure_p I Epc; exact Logic.I.
  - (* PS3 *) inv_step Hs. apply SInv_claim; try reflexivity; try exact I; try exact Logic.I; try lia.
    all: rewrite Epc; try reflexivity; intros t; unfold owns; cbn [own_lo own_hi]; lia.
  - (* PS4 *) inv_step Hs; unf_steps; pure_p I Epc.
    pose proof (A_prog _ _ _ _ I). pose proof (A_drn _ _ _ _ I).
    unfold win, cnt, b2n. destruct (is_cold x); destruct (_ && _) eqn:Ew; repeat split; try lia; right; lia.
  - (* PE1 *) inv_step Hs; unf_steps.
    destruct (N.eqb_spec (ids s (ent n (cid_of cc (rcur r)))) (cid_of cc (rcur r))) as [Er|Er].
    + destruct (rset r) eqn:Ers; pure_p I Epc; unfold resident.
      * rewrite N.ltb_lt in Ers. tauto.
      * tauto.
    + pure_p I Epc. exact Pu.
  - (* PE2 *) inv_step Hs; unf_steps. destruct (N.ltb_spec (retired s) (cur + 1)) as [L|L]; pure_p I Epc; [exact Pu|].
    split; [exact Pu | exact L].
  - (* PEs *) inv_step Hs; unf_steps; pure_p I Epc. exact Pu.
  - (* PE3 *) inv_step Hs; unf_steps. destruct (N.eqb_spec (ids s (ent n (cid_of cc (rcur r)))) cur) as [Er|Er].
    + eapply SInv_install; [exact I | exact Epc | exact Er | reflexivity].
    + pure_p I Epc. apply Pu.
  - (* PW0 *) destruct (SInv_wdata s u k r I Epc) as [Hd Hi]. rewrite Hd in Hs. inv_step Hs. exact Hi.
  - (* PW1 *)
    pose proof (P_inv _ _ _ _ I u) as Pu. rewrite Epc in Pu. cbn [PInv] in Pu. destruct Pu as [[Pw [Pv [Pc Pb]]] Pres].
    set (r' := {| rt := rt r; rv := rv r; rm := rm r; rw := rw r + 1 |}) in *.
    match type of Hs with Some (set_ppc_at _ _ ?p, _) = _ =>
      assert (Hp : (forall t, owns p t <-> rcur r < t < rt r + rm r) /\ wval_of p = None /\
                   PInv cap cc n (hpos s) (retired s) (ids s) p) end.
    { assert (Hr' : rcur r' = rcur r + 1) by (unfold rcur, r'; cbn [rt rw]; lia).
      destruct (N.eqb_spec (rw r') (rm r)) as [E1|E1];
        [|destruct (N.eqb (rw r') (rv r) || N.eqb (idx_of cc (rcur r')) 0) eqn:E2; [|destruct (rset r') eqn:E3]];
        unfold r', rset, rcur in *; cbn [rt rv rm rw] in *.
      - split; [intros t; unfold owns; cbn [own_lo own_hi]; lia|]. split; [reflexivity|].
        cbn [PInv rw rm rv]. repeat split; try assumption; lia.
      - split; [intros t; unfold owns; cbn [own_lo own_hi rt rw rm]; lia|]. split; [reflexivity|].
        cbn [PInv]. unfold RInv. cbn [rw rm rv rt]. repeat split; try assumption; lia.
      - split; [intros t; unfold owns; cbn [own_lo own_hi rt rw rm]; lia|]. split; [reflexivity|].
        cbn [PInv]. unfold RInv, rcur. cbn [rw rm rv rt]. apply N.ltb_lt in E3.
        apply Bool.orb_false_iff in E2. destruct E2 as [_ E2].
        repeat split; try assumption; try lia.
        rewrite Hr' in *. apply resident_succ; assumption.
      - split; [intros t; unfold owns; cbn [own_lo own_hi rt rw rm]; lia|].
        split; [cbn [wval_of]; unfold rset; cbn [rw rv]; rewrite E3; reflexivity|].
        cbn [PInv]. unfold RInv, rcur. cbn [rw rm rv rt].
        apply Bool.orb_false_iff in E2. destruct E2 as [_ E2].
        repeat split; try assumption; try lia.
        rewrite Hr' in *. apply resident_succ; assumption. }
    destruct Hp as [Hp1 [Hp2 Hp3]].
    destruct (SInv_publish s u k r _ I Epc Hp1 Hp2 Hp3) as [Hd Hi]. rewrite Hd in Hs.
    change (N.eqb sEMPTY sEMPTY) with true in Hs. cbv iota in Hs. inv_step Hs. exact Hi.
  - (* PN1 *) inv_step Hs; unf_steps; pure_p I Epc. exact Pu.
  - (* PN2 *) inv_step Hs; unf_steps; pure_p I Epc. exact Pu.
  - (* PN3 *) inv_step Hs; unf_steps; destruct k as [x|b]; split_goal; pure_p I Epc; try exact Logic.I; lia.
  - (* PB1 *) inv_step Hs; unf_steps; split_goal; pure_p I Epc; try exact Logic.I; lia.
  - (* PL1 *) inv_step Hs; unf_steps; split_goal; pure_p I Epc; try exact Logic.I; lia.
  - (* PC0 *) inv_step Hs; unf_steps; pure_p I Epc. exact Pu.
  - (* PC1 *) inv_step Hs; unf_steps; pure_p I Epc. exact Pu.
  - (* PC2 *) inv_step Hs; unf_steps; split_goal; pure_p I Epc; try exact Logic.I; try lia.
    all: rewrite N.eqb_neq in *; split; lia.
  - (* PC3 *) inv_step Hs.
    pose proof (P_inv _ _ _ _ I u) as Pu. rewrite Epc in Pu. cbn [PInv] in Pu.
    apply SInv_claim; try reflexivity; try exact I; try exact Pu; try tauto.
    all: rewrite Epc; try reflexivity; intros t; unfold owns; cbn [own_lo own_hi]; lia.
  - (* PC4 *) inv_step Hs; unf_steps; pure_p I Epc.
    pose proof (A_prog _ _ _ _ I). pose proof (A_drn _ _ _ _ I).
    unfold cnt. destruct (bcold b); cbn [is_cold]; repeat split; try lia.
  - (* PDropSub *) inv_step Hs; unf_steps; split_goal; pure_p I Epc; exact Logic.I.
  - (* PWk *) unfold p_lock in Hs. destruct k; inv_step Hs; unf_steps; split_goal; try exact I; pure_p I Epc; exact Logic.I.
  - discriminate Hs.
Qed.

End Prod.
