(* Proofs/MpmcBProofs.v — property-level theorems of the bounded-MPMC K2 model (C01–C04, C06, C09),
   derived from the invariant of Proofs/MpmcBInv.v (preserved by every step: Proofs/MpmcBStep.v). *)
From Fibre Require Import Common.Base Chan.MpmcB Proofs.MpmcBBase Proofs.MpmcBInv Proofs.MpmcBStep.
From Coq Require Import ZifyBool ZifyNat ZifyN.

(** * the configuration (capacity, repair switches) never changes; taints are never cleared *)
Definition cfg (s s' : st) : Prop := fx s' = fx s /\ cap s' = cap s /\ tle (tn s) (tn s').

Ltac tle_any :=
  first [ apply tle_refl | intros; apply tle_set_t03 | intros; apply tle_set_t03f | intros; apply tle_set_t06
        | intros; apply tle_set_t07 | intros; apply tle_set_t08 | intros; apply tle_set_t12 | intros; apply tle_set_t33 ].
Ltac cfg_eq := split; [reflexivity | split; [reflexivity | tle_any]].

Lemma cfg_refl s : cfg s s. Proof. cfg_eq. Qed.
Lemma cfg_trans a b c : cfg a b -> cfg b c -> cfg a c.
Proof. intros (A & B & T1) (C & D & T2). split; [congruence | split; [congruence | eapply tle_trans; eauto]]. Qed.

Lemma cfg_mark_bad b s : cfg s (mark_bad b s).
Proof. unfold mark_bad. destruct b; cfg_eq. Qed.
Lemma cfg_taint g b s : (forall t, tle t (g t)) -> cfg s (taint g b s).
Proof. intros Hg. unfold taint. destruct b; [|cfg_eq]. split; [reflexivity | split; [reflexivity | apply Hg]]. Qed.

Lemma cfg_wake_one_recv s : cfg s (wake_one_recv s).
Proof.
  destruct (wake_one_recv_frame s) as (A & B & _ & _ & _ & _ & _ & _ & _ & _ & _ & _ & _ & T & _).
  split; [assumption | split; [assumption | rewrite T; apply tle_refl]].
Qed.
Lemma cfg_wake_one_send s : cfg s (wake_one_send s).
Proof.
  destruct (wake_one_send_frame s) as (A & B & _ & _ & _ & _ & _ & _ & _ & _ & _ & _ & _ & T & _).
  split; [assumption | split; [assumption | rewrite T; apply tle_refl]].
Qed.

Lemma cfg_mark_all new l : forall s, cfg s (mark_all new l s).
Proof.
  induction l as [|[f w] t IH]; intros s; cbn [mark_all]; [apply cfg_refl|].
  destruct (getF f s) as [x|]; [|apply IH].
  destruct (is_waiting (f_state x)); [|apply IH].
  eapply cfg_trans; [|apply IH]. eapply cfg_trans; [|apply cfg_mark_bad]. cfg_eq.
Qed.

Lemma cfg_try_send_core v s : cfg s (fst (try_send_core v s)).
Proof.
  unfold try_send_core. destruct (rc s =? 0); [apply cfg_refl|]. destruct (is_full s); [apply cfg_refl|].
  cbn [fst]. eapply cfg_trans; [apply cfg_wake_one_recv|]. cfg_eq.
Qed.

Lemma cfg_try_recv_core s : cfg s (fst (try_recv_core s)).
Proof.
  unfold try_recv_core. destruct (q s) as [|v t]; [destruct (sc s =? 0); apply cfg_refl|].
  cbn [fst]. eapply cfg_trans; [|apply cfg_wake_one_send]. cfg_eq.
Qed.

Lemma cfg_do_close h x s : cfg s (fst (do_close h x s)).
Proof.
  unfold do_close. destruct (h_closed x); [apply cfg_refl|].
  destruct (h_tx x).
  - unfold close_tx. cbn [sc setH with_hs]. destruct (sc s =? 0); [cfg_eq|].
    cbn [fst]. destruct (sc (with_sc (sc s - 1) (setH h (set_closed true x) s)) =? 0).
    + eapply cfg_trans; [|apply cfg_mark_all]. cfg_eq.
    + cfg_eq.
  - unfold close_rx. cbn [rc setH with_hs]. destruct (rc s =? 0); [cfg_eq|].
    cbn [fst]. destruct (rc (with_rc (rc s - 1) (setH h (set_closed true x) s)) =? 0).
    + eapply cfg_trans; [|apply cfg_mark_all]. cfg_eq.
    + destruct (asq (with_rc (rc s - 1) (setH h (set_closed true x) s))) as [|[f w] t]; [cfg_eq|].
      destruct (getF f (with_rc (rc s - 1) (setH h (set_closed true x) s))) as [y|]; [|cfg_eq].
      destruct (is_waiting (f_state y)); [|cfg_eq].
      eapply cfg_trans; [|apply cfg_mark_bad]. cfg_eq.
Qed.

Lemma cfg_cancel_reg f x s : cfg s (cancel_reg f x s).
Proof.
  unfold cancel_reg. destruct (f_reg x); [|apply cfg_refl].
  destruct (f_recv x); destruct (is_success (f_state x)); try (cfg_eq).
  - match goal with |- context [fx12 ?a] => destruct (fx12 a) end; [|cfg_eq].
    match goal with |- context [match q ?a with _ => _ end] => destruct (q a) end; [cfg_eq|].
    eapply cfg_trans; [|apply cfg_wake_one_recv]. cfg_eq.
  - match goal with |- context [fx12 ?a] => destruct (fx12 a) end; [|cfg_eq].
    match goal with |- context [is_full ?a] => destruct (is_full a) end; [cfg_eq|].
    eapply cfg_trans; [|apply cfg_wake_one_send]. cfg_eq.
Qed.

Lemma cfg_send_try f w x s : cfg s (fst (send_try f w x s)).
Proof.
  unfold send_try. destruct (f_item x) as [v|]; [|cfg_eq].
  pose proof (cfg_try_send_core v (setF f (set_item None x) s)) as C.
  destruct (try_send_core v (setF f (set_item None x) s)) as [s1 [| |]]; cbn [fst] in *;
    (eapply cfg_trans; [|eapply cfg_trans; [exact C|]]; cfg_eq).
Qed.

Lemma cfg_poll_send f w x s : cfg s (fst (poll_send f w x s)).
Proof.
  unfold poll_send. destruct (f_reg x); [|apply cfg_send_try].
  destruct (f_state x).
  - destruct (queued f (asq s)); cfg_eq.
  - cfg_eq.
  - eapply cfg_trans; [|apply cfg_send_try]. cfg_eq.
  - destruct (queued f (asq s)); cfg_eq.
Qed.

Lemma cfg_recv_try f w b x s : cfg s (fst (recv_try f w b x s)).
Proof.
  unfold recv_try.
  pose proof (cfg_try_recv_core s) as C.
  destruct (try_recv_core s) as [s1 [v| |]]; cbn [fst] in *.
  - eapply cfg_trans; [exact C|]. destruct b; [|cfg_eq].
    cbn [fx setF with_fs]. destruct (fx06 (fx s1)); [cfg_eq|].
    eapply cfg_trans; [|apply (cfg_taint set_t06); tle_any]. cfg_eq.
  - eapply cfg_trans; [exact C|]. destruct (queued f (arq s1)); cfg_eq.
  - eapply cfg_trans; [exact C|]. destruct b; [|cfg_eq].
    cbn [fx setF with_fs]. destruct (fx06 (fx s1)); [cfg_eq|].
    eapply cfg_trans; [|apply (cfg_taint set_t06); tle_any]. cfg_eq.
Qed.

Lemma cfg_poll_recv f w x s : cfg s (fst (poll_recv f w x s)).
Proof.
  unfold poll_recv. destruct (f_reg x); [|apply cfg_recv_try].
  destruct (f_state x); try apply cfg_recv_try.
  cbn [fx with_arq]. destruct (fx08 (fx s)).
  - eapply cfg_trans; [|apply cfg_recv_try]. cfg_eq.
  - cbn [fst]. eapply cfg_trans; [|cfg_eq]. eapply cfg_trans; [|apply (cfg_taint set_t08); tle_any]. cfg_eq.
Qed.

Lemma cfg_hand_one_recv s : cfg s (hand_one_recv s).
Proof. unfold hand_one_recv. eapply cfg_trans; [|apply cfg_wake_one_recv]. cfg_eq. Qed.

Lemma cfg_send_loop vs : forall s, cfg s (fst (send_loop vs s)).
Proof.
  induction vs as [|v r IH]; intros s; cbn [send_loop]; [apply cfg_refl|].
  destruct (is_full s); [apply cfg_refl|].
  eapply cfg_trans; [|apply IH]. eapply cfg_trans; [apply cfg_hand_one_recv|]. cfg_eq.
Qed.

Lemma cfg_wake_senders n : forall s, cfg s (wake_senders n s).
Proof.
  induction n as [|n IH]; intros s; cbn [wake_senders]; [apply cfg_refl|].
  eapply cfg_trans; [apply cfg_wake_one_send | apply IH].
Qed.

Lemma cfg_step s o : cfg s (fst (step s o)).
Proof.
  unfold step. set (s1 := with_bad false (with_dk [] (with_wk [] s))).
  assert (C1 : cfg s s1) by (cfg_eq). clearbody s1.
  destruct o.
  - (* TrySend *)
    destruct (getH h s1) as [x|]; [|exact C1]. destruct (h_live x); cbn [negb]; [|exact C1].
    destruct (h_tx x); cbn [negb]; [|exact C1]. unfold fresh. cbn [fst snd].
    destruct (h_closed x); [eapply cfg_trans; [exact C1|]; cfg_eq|].
    pose proof (cfg_try_send_core (next s1) (with_next (next s1 + 1) s1)) as C.
    destruct (try_send_core (next s1) (with_next (next s1 + 1) s1)) as [s2 [| |]]; cbn [fst ret] in *;
      (eapply cfg_trans; [exact C1|]; eapply cfg_trans; [|eapply cfg_trans; [exact C|]]; cfg_eq).
  - (* TryRecv *)
    destruct (getH h s1) as [x|]; [|exact C1]. destruct (h_live x); cbn [negb]; [|exact C1].
    destruct (h_tx x); [exact C1|]. destruct (h_closed x); [exact C1|].
    pose proof (cfg_try_recv_core s1) as C.
    destruct (try_recv_core s1) as [s2 [v| |]]; cbn [fst ret] in *; eapply cfg_trans; eauto.
  - (* Send *)
    destruct (getH h s1) as [x|]; [|exact C1]. destruct (h_live x); cbn [negb]; [|exact C1].
    destruct (negb (h_tx x) || h_async x); [exact C1|].
    destruct (negb (rc s1 =? 0) && is_full s1); [exact C1|]. unfold fresh. cbn [fst snd].
    destruct (h_closed x); [eapply cfg_trans; [exact C1|]; cfg_eq|].
    pose proof (cfg_try_send_core (next s1) (with_next (next s1 + 1) s1)) as C.
    destruct (try_send_core (next s1) (with_next (next s1 + 1) s1)) as [s2 [| |]]; cbn [fst ret] in *;
      (eapply cfg_trans; [exact C1|]; eapply cfg_trans; [|eapply cfg_trans; [exact C|]]; cfg_eq).
  - (* Recv *)
    destruct (getH h s1) as [x|]; [|exact C1]. destruct (h_live x); cbn [negb]; [|exact C1].
    destruct (h_tx x || h_async x); [exact C1|].
    match goal with |- context [if ?c then ret s1 RWouldBlock else _] => destruct c end; [exact C1|].
    destruct (h_closed x); [exact C1|].
    pose proof (cfg_try_recv_core s1) as C.
    destruct (try_recv_core s1) as [s2 [v| |]]; cbn [fst ret] in *; eapply cfg_trans; eauto.
  - (* RecvTimeout *)
    destruct (getH h s1) as [x|]; [|exact C1]. destruct (h_live x); cbn [negb]; [|exact C1].
    destruct (h_tx x || h_async x); [exact C1|].
    destruct (h_closed x && fx03 (fx s1)); [exact C1|].
    pose proof (cfg_try_recv_core (taint set_t03 (h_closed x) s1)) as C.
    destruct (try_recv_core (taint set_t03 (h_closed x) s1)) as [s2 [v| |]]; cbn [fst ret] in *;
      (eapply cfg_trans; [exact C1|]; eapply cfg_trans; [apply (cfg_taint set_t03); tle_any | exact C]).
  - (* Clone *)
    destruct (getH h s1) as [x|]; [|exact C1]. destruct (h_live x); cbn [negb]; [|exact C1].
    destruct (getH h2 s1); [exact C1|].
    destruct (h_closed x && fx33 (fx s1)); cbn [ret fst]; [eapply cfg_trans; [exact C1|]; cfg_eq|].
    eapply cfg_trans; [exact C1|]. eapply cfg_trans; [apply (cfg_taint set_t33 (h_closed x)); tle_any|].
    destruct (h_tx x); cfg_eq.
  - (* Close *)
    destruct (getH h s1) as [x|]; [|exact C1]. destruct (h_live x); cbn [negb]; [|exact C1].
    pose proof (cfg_do_close h x s1) as C. destruct (do_close h x s1) as [s2 r]. cbn [fst ret] in *.
    eapply cfg_trans; eauto.
  - (* DropH *)
    destruct (getH h s1) as [x|]; [|exact C1]. destruct (h_live x); cbn [negb]; [|exact C1].
    destruct (borrowed h s1); [exact C1|].
    pose proof (cfg_do_close h x s1) as C. destruct (do_close h x s1) as [s2 r]. cbn [fst ret] in *.
    eapply cfg_trans; [exact C1|]. eapply cfg_trans; [exact C|].
    unfold maybe_free. match goal with |- context [any_live ?a] => destruct (any_live a) end; cfg_eq.
  - (* Convert *)
    destruct (getH h s1) as [x|]; [|exact C1]. destruct (h_live x); cbn [negb]; [|exact C1].
    destruct (getH h2 s1); [exact C1|]. destruct (borrowed h s1); [exact C1|]. cbn [ret fst].
    eapply cfg_trans; [exact C1|].
    eapply cfg_trans; [apply (cfg_taint set_t07 (h_closed x && negb (fx07 (fx s1)))); tle_any|]. cfg_eq.
  - (* Observe *)
    destruct (getH h s1) as [x|]; [|exact C1]. destruct (h_live x); exact C1.
  - (* MkSend *)
    destruct (getH h s1) as [x|]; [|exact C1]. destruct (h_live x); cbn [negb]; [|exact C1].
    destruct (negb (h_tx x && h_async x)); [exact C1|]. destruct (getF f s1); [exact C1|].
    eapply cfg_trans; [exact C1|]. cfg_eq.
  - (* MkRecv *)
    destruct (getH h s1) as [x|]; [|exact C1]. destruct (h_live x); cbn [negb]; [|exact C1].
    destruct (negb (negb (h_tx x) && h_async x)); [exact C1|]. destruct (getF f s1); [exact C1|].
    eapply cfg_trans; [exact C1|]. cfg_eq.
  - (* Poll *)
    destruct (getF f s1) as [x|]; [|exact C1]. destruct (f_live x); cbn [negb]; [|exact C1].
    destruct (f_done x); [exact C1|].
    destruct (handle_closed (f_h x) s1 && fx03f (fx s1)).
    + cbn [ret fst]. eapply cfg_trans; [exact C1|]. eapply cfg_trans; [apply (cfg_cancel_reg f x)|]. cfg_eq.
    + destruct (f_recv x).
      * pose proof (cfg_poll_recv f w x (taint set_t03f (handle_closed (f_h x) s1) s1)) as C.
        destruct (poll_recv f w x (taint set_t03f (handle_closed (f_h x) s1) s1)) as [s2 r]. cbn [fst ret] in *.
        eapply cfg_trans; [exact C1|]. eapply cfg_trans; [apply (cfg_taint set_t03f); tle_any | exact C].
      * pose proof (cfg_poll_send f w x (taint set_t03f (handle_closed (f_h x) s1) s1)) as C.
        destruct (poll_send f w x (taint set_t03f (handle_closed (f_h x) s1) s1)) as [s2 r]. cbn [fst ret] in *.
        eapply cfg_trans; [exact C1|]. eapply cfg_trans; [apply (cfg_taint set_t03f); tle_any | exact C].
  - (* DropF *)
    destruct (getF f s1) as [x|]; [|exact C1]. destruct (f_live x); cbn [negb]; [|exact C1].
    cbn [ret fst]. eapply cfg_trans; [exact C1|]. eapply cfg_trans; [apply (cfg_cancel_reg f x)|].
    destruct (f_item x); cfg_eq.
  - (* TrySendBatch *)
    destruct (getH h s1) as [x|]; [|exact C1]. destruct (h_live x); cbn [negb]; [|exact C1].
    destruct (h_tx x); cbn [negb]; [|exact C1].
    set (s2 := with_next (next s1 + n) s1). assert (C2 : cfg s s2) by (eapply cfg_trans; [exact C1 | cfg_eq]).
    assert (Hfail : forall cl sent un s3, cfg s s3 ->
              cfg s (fst (let s4 := with_back (back s3 ++ un) s3 in
                          if inplace then (if cl && (sent =? 0) then ret s4 (RMClosed un) else ret s4 (RMOk sent un))
                          else ret s4 (RBErr sent cl un)))).
    { intros cl sent un s3 C3. cbv zeta. destruct inplace; [destruct (cl && (sent =? 0))|]; cbn [ret fst];
        (eapply cfg_trans; [exact C3 | cfg_eq]). }
    destruct (n =? 0); [destruct inplace; exact C2|].
    destruct (h_closed x); [apply Hfail; exact C2|].
    change (rc s2) with (rc s1). destruct (rc s1 =? 0); [apply Hfail; exact C2|].
    pose proof (cfg_send_loop (seqN (next s1) (N.to_nat n)) s2) as C3.
    destruct (send_loop (seqN (next s1) (N.to_nat n)) s2) as [s3 un]. cbn [fst] in C3.
    destruct un; [destruct inplace; cbn [ret fst]; eapply cfg_trans; eauto|].
    apply Hfail. eapply cfg_trans; eauto.
  - (* TryRecvBatch *)
    destruct (getH h s1) as [x|]; [|exact C1]. destruct (h_live x); cbn [negb]; [|exact C1].
    destruct (h_tx x); [exact C1|]. destruct (m =? 0); [destruct inplace; exact C1|].
    destruct (h_closed x); [exact C1|].
    destruct (Nat.min (N.to_nat m) (length (q s1))) as [|k']; [destruct (sc s1 =? 0); exact C1|].
    cbn [ret fst]. eapply cfg_trans; [exact C1|]. eapply cfg_trans; [|apply cfg_wake_senders]. cfg_eq.
Qed.

Lemma cfg_run os : forall s, cfg s (fst (run s os)).
Proof.
  induction os as [|o r IH]; intros s; cbn [run]; [apply cfg_refl|].
  pose proof (cfg_step s o) as C. destruct (step s o) as [s1 x]. cbn [fst] in C.
  specialize (IH s1). destruct (run s1 r) as [s2 xs]. cbn [fst] in *. eapply cfg_trans; eauto.
Qed.

Lemma fx_after c a f os : fx (state_after c a f os) = f.
Proof. unfold state_after. destruct (cfg_run os (init c a f)) as (A & _ & _). exact A. Qed.

Lemma cap_after c a f os : cap (state_after c a f os) = c.
Proof. unfold state_after. destruct (cfg_run os (init c a f)) as (_ & A & _). exact A. Qed.

(** * C01: conservation (every payload id is in exactly one place), no duplicate, no phantom *)
Definition ids (n : N) : list N := map N.of_nat (seq 0 (N.to_nat n)).

(* ids held by live futures (SendFuture.item) *)
Definition cell_ids (s : st) : list N :=
  flat_map (fun e => if f_live (snd e) then match f_item (snd e) with Some v => [v] | None => [] end else []) (fs s).

Lemma occ_cell_ids s v : occ v (cell_ids s) = cells s v.
Proof.
  unfold cell_ids, cells. induction (fs s) as [|[k x] t IH]; cbn [flat_map cnt snd]; [reflexivity|].
  rewrite occ_app, IH. unfold cellp. destruct (f_live x); cbn [andb]; [|reflexivity].
  destruct (f_item x) as [u|]; cbn [occ]; [|reflexivity]. destruct (v =? u); reflexivity.
Qed.

Lemma occ_seq v a n : occ v (map N.of_nat (seq a n)) = if (N.of_nat a <=? v) && (v <? N.of_nat (a + n)) then 1%nat else 0%nat.
Proof.
  revert a. induction n as [|n IH]; intros a; cbn [seq map occ].
  - destruct (N.leb_spec (N.of_nat a) v), (N.ltb_spec v (N.of_nat (a + 0))); cbn [andb]; try reflexivity. lia.
  - rewrite IH.
    destruct (N.eqb_spec v (N.of_nat a)), (N.leb_spec (N.of_nat (S a)) v), (N.ltb_spec v (N.of_nat (S a + n))),
             (N.leb_spec (N.of_nat a) v), (N.ltb_spec v (N.of_nat (a + S n))); cbn [andb]; try reflexivity; lia.
Qed.

Lemma occ_ids v n : occ v (ids n) = if v <? n then 1%nat else 0%nat.
Proof.
  unfold ids. rewrite occ_seq. cbn [N.of_nat Nat.add].
  destruct (N.leb_spec 0 v), (N.ltb_spec v (N.of_nat (N.to_nat n))), (N.ltb_spec v n); cbn [andb]; try reflexivity; lia.
Qed.

Definition conservation (s : st) : Prop :=
  Permutation (recvd s ++ q s ++ cell_ids s ++ back s ++ dropped s) (ids (next s))
  /\ NoDup (recvd s) /\ NoDup (acc s) /\ incl (recvd s) (acc s).

Lemma Inv_conservation s : Inv s -> conservation s.
Proof.
  intros [HD _]. destruct HD as [A B C].
  assert (Hle : forall v l, (occ v l <= tot s v + occ v [])%nat -> (occ v l <= 1)%nat).
  { intros v l H. rewrite (C v) in H. destruct (v <? next s); lia. }
  split; [|split; [|split]].
  - apply occ_perm. intros v. rewrite !occ_app, occ_cell_ids, occ_ids. specialize (C v). unfold tot in C. cbn [occ] in C. lia.
  - apply occ_NoDup. intros v. apply (Hle v). unfold tot. lia.
  - rewrite B. apply occ_NoDup. intros v. apply (Hle v). rewrite occ_app. unfold tot. lia.
  - rewrite B. intros v Hv. apply in_or_app. left. exact Hv.
Qed.

Theorem mpmcb_conservation c a f os : conservation (state_after c a f os).
Proof. apply Inv_conservation, Inv_reachable. Qed.

(** * C02: the channel is a FIFO queue: accepted = received ++ buffered, in order *)
Theorem mpmcb_fifo c a f os : let s := state_after c a f os in acc s = recvd s ++ q s.
Proof. cbv zeta. apply (d_fifo _ _ (proj1 (Inv_reachable c a f os))). Qed.

(** * C03: capacity *)
Theorem mpmcb_capacity c a f os : let s := state_after c a f os in (length (q s) <= N.to_nat c)%nat.
Proof.
  cbv zeta. pose proof (d_cap _ _ (proj1 (Inv_reachable c a f os))) as H. unfold nq, ncap in H.
  rewrite cap_after in H. exact H.
Qed.

(** * what each value-moving call does to the queue and the ghost lists, by result *)
Definition unchanged_data (s s' : st) : Prop :=
  q s' = q s /\ acc s' = acc s /\ recvd s' = recvd s.

Lemma reset_data s : unchanged_data s (reset s) /\ next (reset s) = next s /\ back (reset s) = back s
                     /\ dropped (reset s) = dropped s /\ rc (reset s) = rc s /\ sc (reset s) = sc s
                     /\ hs (reset s) = hs s /\ fs (reset s) = fs s /\ cap (reset s) = cap s /\ tn (reset s) = tn s
                     /\ arq (reset s) = arq s /\ asq (reset s) = asq s /\ fx (reset s) = fx s.
Proof. unfold unchanged_data, reset. st_simpl. repeat split. Qed.

(* try_send / send *)
Definition send_spec (blocking : bool) (s : st) (h : N) (s' : st) (o : out) : Prop :=
  forall x, getH h s = Some x -> h_live x = true -> h_tx x = true -> (blocking = true -> h_async x = false) ->
  match o_res o with
  | ROk => h_closed x = false /\ rc s <> 0 /\ (length (q s) < N.to_nat (cap s))%nat
           /\ q s' = q s ++ [next s] /\ acc s' = acc s ++ [next s] /\ recvd s' = recvd s
  | RFull v => blocking = false /\ v = next s /\ h_closed x = false /\ rc s <> 0 /\ length (q s) = N.to_nat (cap s)
               /\ unchanged_data s s' /\ back s' = back s ++ [v]
  | RClosedV v => blocking = false /\ v = next s /\ (h_closed x = true \/ rc s = 0)
                  /\ unchanged_data s s' /\ back s' = back s ++ [v]
  | RClosed => blocking = true /\ (h_closed x = true \/ rc s = 0)
               /\ unchanged_data s s' /\ dropped s' = dropped s ++ [next s]
  | RWouldBlock => blocking = true /\ rc s <> 0 /\ length (q s) = N.to_nat (cap s) /\ unchanged_data s s'
  | _ => False
  end.

Lemma try_send_spec s h : Inv s -> send_spec false s h (fst (step s (TrySend h))) (snd (step s (TrySend h))).
Proof.
  intros H0. pose proof (Inv_reset s H0) as H1. destruct (reset_data s) as (Rd & Rn & Rb & Rdr & Rrc & Rsc & Rhs & Rfs & Rcap & _).
  unfold step. fold (reset s). set (s1 := reset s) in *.
  unfold send_spec. intros x Hg Hl Htx _. unfold getH in Hg. rewrite <- Rhs in Hg. fold (getH h s1) in Hg.
  rewrite Hg, Hl, Htx. cbn [negb]. unfold fresh. cbn [fst snd].
  destruct (InvH_fresh s1 H1) as [Hf _]. unfold fresh in Hf. cbn [snd] in Hf.
  set (s2 := with_next (next s1 + 1) s1) in *.
  destruct Rd as (Rq & Ra & Rr).
  destruct (h_closed x) eqn:Hc.
  - cbn [ret o_res snd fst]. unfold unchanged_data, give_back. st_simpl.
    rewrite ?Rn, ?Rq, ?Ra, ?Rr, ?Rb. repeat split; auto.
  - pose proof (try_send_core_spec (next s1) s2 Hf) as Hs.
    destruct (try_send_core (next s1) s2) as [s3 [| |]]; cbn [ret o_res snd fst].
    + destruct Hs as (_ & Hrc & Hlt & Hq & Hacc & _ & _ & Hrecvd & _).
      unfold nq, ncap in Hlt. change (rc s2) with (rc s1) in Hrc. change (q s2) with (q s1) in *.
      change (cap s2) with (cap s1) in Hlt. change (acc s2) with (acc s1) in Hacc. change (recvd s2) with (recvd s1) in Hrecvd.
      rewrite Rrc in Hrc. rewrite Rq, Rcap in Hlt. rewrite Hq, Hacc, Hrecvd, ?Rq, ?Ra, ?Rr, ?Rn. repeat split; auto.
    + destruct Hs as (-> & Hrc & Hfull). unfold nq, ncap in Hfull.
      change (rc s2) with (rc s1) in Hrc. change (q s2) with (q s1) in Hfull. change (cap s2) with (cap s1) in Hfull.
      rewrite Rrc in Hrc. rewrite Rq, Rcap in Hfull.
      unfold unchanged_data, give_back. st_simpl. rewrite ?Rn, ?Rq, ?Ra, ?Rr, ?Rb. repeat split; auto.
    + destruct Hs as (-> & Hrc). change (rc s2) with (rc s1) in Hrc. rewrite Rrc in Hrc.
      unfold unchanged_data, give_back. st_simpl. rewrite ?Rn, ?Rq, ?Ra, ?Rr, ?Rb. repeat split; auto.
Qed.

Lemma send_blocking_spec s h : Inv s -> send_spec true s h (fst (step s (Send h))) (snd (step s (Send h))).
Proof.
  intros H0. pose proof (Inv_reset s H0) as H1. destruct (reset_data s) as (Rd & Rn & Rb & Rdr & Rrc & Rsc & Rhs & Rfs & Rcap & _).
  unfold step. fold (reset s). set (s1 := reset s) in *.
  unfold send_spec. intros x Hg Hl Htx Has. specialize (Has eq_refl). unfold getH in Hg. rewrite <- Rhs in Hg. fold (getH h s1) in Hg.
  rewrite Hg, Hl, Htx, Has. cbn [negb orb].
  destruct Rd as (Rq & Ra & Rr).
  pose proof (d_cap _ _ (proj1 H1)) as Hcap.
  destruct (negb (rc s1 =? 0) && is_full s1) eqn:Eb.
  - cbn [ret o_res snd fst]. apply andb_prop in Eb. destruct Eb as [E1 E2].
    apply negb_true_iff in E1. apply N.eqb_neq in E1. apply (is_full_spec s1 Hcap) in E2. unfold nq, ncap in E2.
    rewrite Rrc in E1. rewrite Rq, Rcap in E2. unfold unchanged_data. repeat split; auto.
  - unfold fresh. cbn [fst snd].
    destruct (InvH_fresh s1 H1) as [Hf _]. unfold fresh in Hf. cbn [snd] in Hf.
    set (s2 := with_next (next s1 + 1) s1) in *.
    destruct (h_closed x) eqn:Hc.
    + cbn [ret o_res snd fst]. unfold unchanged_data, destroy. st_simpl.
      rewrite ?Rn, ?Rq, ?Ra, ?Rr, ?Rdr. repeat split; auto.
    + pose proof (try_send_core_spec (next s1) s2 Hf) as Hs.
      destruct (try_send_core (next s1) s2) as [s3 [| |]]; cbn [ret o_res snd fst].
      * destruct Hs as (_ & Hrc & Hlt & Hq & Hacc & _ & _ & Hrecvd & _).
        unfold nq, ncap in Hlt. change (rc s2) with (rc s1) in Hrc. change (q s2) with (q s1) in *.
        change (cap s2) with (cap s1) in Hlt. change (acc s2) with (acc s1) in Hacc. change (recvd s2) with (recvd s1) in Hrecvd.
        rewrite Rrc in Hrc. rewrite Rq, Rcap in Hlt. rewrite Hq, Hacc, Hrecvd, ?Rq, ?Ra, ?Rr, ?Rn. repeat split; auto.
      * destruct Hs as (-> & Hrc & Hfull). exfalso.
        change (rc s2) with (rc s1) in Hrc. apply N.eqb_neq in Hrc. rewrite Hrc in Eb. cbn [negb andb] in Eb.
        assert (is_full s1 = true) by (apply (is_full_spec s1 Hcap); exact Hfull). congruence.
      * destruct Hs as (-> & Hrc). change (rc s2) with (rc s1) in Hrc. rewrite Rrc in Hrc.
        unfold unchanged_data, destroy. st_simpl. rewrite ?Rn, ?Rq, ?Ra, ?Rr, ?Rdr. repeat split; auto.
Qed.

(* try_recv / recv / recv_timeout *)
Inductive rkind := KTry | KBlock | KTimed.

Definition recv_spec (k : rkind) (s : st) (h : N) (s' : st) (o : out) : Prop :=
  forall x, getH h s = Some x -> h_live x = true -> h_tx x = false -> (k <> KTry -> h_async x = false) ->
  match o_res o with
  | RVal v => q s = v :: q s' /\ recvd s' = recvd s ++ [v] /\ acc s' = acc s
              /\ (h_closed x = false \/ (k = KTimed /\ fx03 (fx s) = false /\ t03 (tn s') = true))
  | REmpty => k = KTry /\ h_closed x = false /\ q s = [] /\ sc s <> 0 /\ unchanged_data s s'
  | RTimeout => k = KTimed /\ q s = [] /\ sc s <> 0 /\ unchanged_data s s'
                /\ (h_closed x = false \/ (fx03 (fx s) = false /\ t03 (tn s') = true))
  | RDisc => unchanged_data s s' /\ (h_closed x = true \/ (q s = [] /\ sc s = 0))
  | RWouldBlock => k = KBlock /\ q s = [] /\ unchanged_data s s'
  | _ => False
  end.

Lemma unchanged_refl s : unchanged_data s s.
Proof. unfold unchanged_data. auto. Qed.

Lemma try_recv_spec s h : Inv s -> recv_spec KTry s h (fst (step s (TryRecv h))) (snd (step s (TryRecv h))).
Proof.
  intros H0. pose proof (Inv_reset s H0) as H1.
  unfold step. fold (reset s). set (s1 := reset s) in *.
  unfold recv_spec. intros x Hg Hl Htx _. change (getH h s1 = Some x) in Hg.
  rewrite Hg, Hl, Htx. cbn [negb].
  destruct (h_closed x) eqn:Hc.
  - cbn [ret o_res snd fst]. split; [(unfold unchanged_data; repeat split; reflexivity) | auto].
  - pose proof (try_recv_core_spec [] s1 H1) as Hs.
    destruct (try_recv_core s1) as [s3 [v| |]]; cbn [ret o_res snd fst].
    + destruct Hs as (_ & Hq & Hr & _ & _ & Ha & _). repeat split; auto.
    + destruct Hs as (-> & Hq & Hsc). repeat split; auto.
    + destruct Hs as (-> & Hq & Hsc). split; [(unfold unchanged_data; repeat split; reflexivity) | auto].
Qed.

Lemma recv_blocking_spec s h : Inv s -> recv_spec KBlock s h (fst (step s (Recv h))) (snd (step s (Recv h))).
Proof.
  intros H0. pose proof (Inv_reset s H0) as H1.
  unfold step. fold (reset s). set (s1 := reset s) in *.
  unfold recv_spec. intros x Hg Hl Htx Has. assert (Ha : h_async x = false) by (apply Has; discriminate).
  change (getH h s1 = Some x) in Hg. rewrite Hg, Hl, Htx, Ha. cbn [negb orb].
  match goal with |- context [if ?c then ret s1 RWouldBlock else _] => destruct c eqn:Eb end.
  - cbn [ret o_res snd fst]. apply andb_prop in Eb. destruct Eb as [E1 _]. apply (lenq0 s1) in E1.
    split; [reflexivity|]. split; [exact E1 | (unfold unchanged_data; repeat split; reflexivity)].
  - destruct (h_closed x) eqn:Hc.
    + cbn [ret o_res snd fst]. split; [(unfold unchanged_data; repeat split; reflexivity) | auto].
    + pose proof (try_recv_core_spec [] s1 H1) as Hs.
      destruct (try_recv_core s1) as [s3 [v| |]]; cbn [ret o_res snd fst].
      * destruct Hs as (_ & Hq & Hr & _ & _ & Hac & _). repeat split; auto.
      * destruct Hs as (-> & Hq & Hsc). split; [reflexivity|]. split; [exact Hq | (unfold unchanged_data; repeat split; reflexivity)].
      * destruct Hs as (-> & Hq & Hsc). split; [(unfold unchanged_data; repeat split; reflexivity) | auto].
Qed.

Lemma tn_taint_t03 b s : t03 (tn (taint set_t03 b s)) = b || t03 (tn s).
Proof. unfold taint. destruct b; reflexivity. Qed.

Lemma recv_timeout_spec s h : Inv s -> recv_spec KTimed s h (fst (step s (RecvTimeout h))) (snd (step s (RecvTimeout h))).
Proof.
  intros H0. pose proof (Inv_reset s H0) as H1.
  unfold step. fold (reset s). set (s1 := reset s) in *.
  unfold recv_spec. intros x Hg Hl Htx Has. assert (Ha : h_async x = false) by (apply Has; discriminate).
  change (getH h s1 = Some x) in Hg. rewrite Hg, Hl, Htx, Ha. cbn [negb orb].
  change (fx s1) with (fx s).
  destruct (h_closed x && fx03 (fx s)) eqn:Ec.
  - cbn [ret o_res snd fst]. apply andb_prop in Ec. split; [(unfold unchanged_data; repeat split; reflexivity) | tauto].
  - assert (Ht : InvH [] (taint set_t03 (h_closed x) s1)).
    { apply InvH_taint; [exact H1 | apply tle_set_t03 |].
      intros E. apply ok_set_t03; [apply (w_taint s1 (proj1 (proj2 H1)))|]. rewrite E in Ec. exact Ec. }
    set (s2 := taint set_t03 (h_closed x) s1) in *.
    assert (E2 : q s2 = q s /\ recvd s2 = recvd s /\ acc s2 = acc s /\ sc s2 = sc s).
    { subst s2. unfold taint. destruct (h_closed x); auto. }
    destruct E2 as (Eq & Er & Ea & Esc).
    assert (Hcl : h_closed x = false \/ (fx03 (fx s) = false /\ t03 (tn s2) = true)).
    { destruct (h_closed x) eqn:Hc; [right|left; reflexivity]. cbn [andb] in Ec. split; [exact Ec|].
      subst s2. rewrite tn_taint_t03. reflexivity. }
    pose proof (try_recv_core_spec [] s2 Ht) as Hs.
    destruct (try_recv_core s2) as [s3 [v| |]]; cbn [ret o_res snd fst].
    + destruct Hs as (_ & Hq & Hr & Fr & _ & Hac & _).
      destruct Fr as (_ & _ & _ & _ & _ & _ & _ & _ & _ & Ftn & _).
      rewrite Eq in Hq. rewrite Er in Hr. rewrite Ea in Hac. rewrite Ftn.
      split; [exact Hq|]. split; [exact Hr|]. split; [exact Hac|]. destruct Hcl as [C|[C1 C2]]; [left; exact C | right; auto].
    + destruct Hs as (-> & Hq & Hsc). rewrite Eq in Hq. rewrite Esc in Hsc.
      split; [reflexivity|]. split; [exact Hq|]. split; [exact Hsc|]. split; [|exact Hcl].
      unfold unchanged_data. auto.
    + destruct Hs as (-> & Hq & Hsc). rewrite Eq in Hq. rewrite Esc in Hsc.
      split; [unfold unchanged_data; auto | right; auto].
Qed.

(** * structural facts: which steps can push, pop, or raise the sender count *)
(* no push, sender count does not grow *)
Definition np (s s' : st) : Prop :=
  sc s' <= sc s /\ (q s' = q s \/ exists v, q s = v :: q s' /\ recvd s' = recvd s ++ [v]) /\
  (q s' = q s -> recvd s' = recvd s).

Lemma np_refl s : np s s.
Proof. unfold np. split; [lia|]. auto. Qed.

Lemma np_same s s' : sc s' = sc s -> q s' = q s -> recvd s' = recvd s -> np s s'.
Proof. intros A B C. unfold np. rewrite A, B, C. split; [lia|]. auto. Qed.

(* composition when the first part does not touch the queue *)
Lemma np_trans_l a b c : sc b <= sc a -> q b = q a -> recvd b = recvd a -> np b c -> np a c.
Proof. intros A B C (D & E & F). unfold np. rewrite <- B, <- C. split; [lia|]. auto. Qed.

Lemma np_trans_r a b c : np a b -> sc c <= sc b -> q c = q b -> recvd c = recvd b -> np a c.
Proof. intros (D & E & F) A B C. unfold np. rewrite B, C. split; [lia|]. auto. Qed.

Lemma same_mark_bad b s : sc (mark_bad b s) = sc s /\ q (mark_bad b s) = q s /\ recvd (mark_bad b s) = recvd s.
Proof. unfold mark_bad. destruct b; auto. Qed.
Lemma same_taint g b s : sc (taint g b s) = sc s /\ q (taint g b s) = q s /\ recvd (taint g b s) = recvd s.
Proof. unfold taint. destruct b; auto. Qed.
Lemma same_wake_one_recv s : sc (wake_one_recv s) = sc s /\ q (wake_one_recv s) = q s /\ recvd (wake_one_recv s) = recvd s.
Proof. destruct (wake_one_recv_frame s) as (_&_&A&B&_&_&_&_&_&C&_). auto. Qed.
Lemma same_wake_one_send s : sc (wake_one_send s) = sc s /\ q (wake_one_send s) = q s /\ recvd (wake_one_send s) = recvd s.
Proof. destruct (wake_one_send_frame s) as (_&_&A&B&_&_&_&_&_&C&_). auto. Qed.

Lemma same_mark_all new l : forall s, sc (mark_all new l s) = sc s /\ q (mark_all new l s) = q s /\ recvd (mark_all new l s) = recvd s.
Proof.
  induction l as [|[f w] t IH]; intros s; cbn [mark_all]; [auto|].
  destruct (getF f s) as [x|]; [|apply IH]. destruct (is_waiting (f_state x)); [|apply IH].
  destruct (IH (mark_bad (negb (f_live x)) (wake w (setF f (set_state new x) s)))) as (A & B & C).
  destruct (same_mark_bad (negb (f_live x)) (wake w (setF f (set_state new x) s))) as (A1 & B1 & C1).
  rewrite A, B, C, A1, B1, C1. auto.
Qed.

Lemma np_try_recv_core s : np s (fst (try_recv_core s)).
Proof.
  unfold try_recv_core. destruct (q s) as [|v t] eqn:E; [destruct (sc s =? 0); apply np_refl|].
  cbn [fst]. destruct (same_wake_one_send (with_recvd (recvd s ++ [v]) (with_q t s))) as (A & B & C).
  unfold np. rewrite A, B, C. st_simpl. rewrite E. split; [lia|]. split.
  - right. exists v. auto.
  - intros Hq. exfalso. apply (f_equal (@length N)) in Hq. cbn [length] in Hq. clear - Hq. lia.
Qed.

Lemma np_do_close h x s : np s (fst (do_close h x s)).
Proof.
  unfold do_close. destruct (h_closed x); [apply np_refl|].
  destruct (h_tx x).
  - unfold close_tx. cbn [sc setH with_hs]. destruct (sc s =? 0); [apply np_same; reflexivity|].
    cbn [fst]. destruct (sc (with_sc (sc s - 1) (setH h (set_closed true x) s)) =? 0).
    + destruct (same_mark_all WClosed (arq (with_sc (sc s - 1) (setH h (set_closed true x) s))) (with_sc (sc s - 1) (setH h (set_closed true x) s))) as (A & B & C).
      unfold np. rewrite A, B, C. st_simpl. split; [lia|]. auto.
    + unfold np. st_simpl. split; [lia|]. auto.
  - unfold close_rx. cbn [rc setH with_hs]. destruct (rc s =? 0); [apply np_same; reflexivity|].
    cbn [fst]. destruct (rc (with_rc (rc s - 1) (setH h (set_closed true x) s)) =? 0).
    + destruct (same_mark_all WClosed (asq (with_rc (rc s - 1) (setH h (set_closed true x) s))) (with_rc (rc s - 1) (setH h (set_closed true x) s))) as (A & B & C).
      apply np_same; [rewrite A | rewrite B | rewrite C]; reflexivity.
    + destruct (asq (with_rc (rc s - 1) (setH h (set_closed true x) s))) as [|[f w] t]; [apply np_same; reflexivity|].
      destruct (getF f (with_rc (rc s - 1) (setH h (set_closed true x) s))) as [y|]; [|apply np_same; reflexivity].
      destruct (is_waiting (f_state y)); [|apply np_same; reflexivity].
      destruct (same_mark_bad (negb (f_live y)) (wake w (setF f (set_state Success y) (with_rc (rc s - 1) (setH h (set_closed true x) s))))) as (A & B & C).
      apply np_same; [rewrite A | rewrite B | rewrite C]; reflexivity.
Qed.

Lemma same_cancel_reg f x s : sc (cancel_reg f x s) = sc s /\ q (cancel_reg f x s) = q s /\ recvd (cancel_reg f x s) = recvd s.
Proof.
  unfold cancel_reg. destruct (f_reg x); [|auto].
  destruct (f_recv x); destruct (is_success (f_state x)); try (repeat split; reflexivity).
  - match goal with |- context [fx12 ?a] => destruct (fx12 a) end; [|repeat split; reflexivity].
    match goal with |- context [match q ?a with _ => _ end] => destruct (q a) eqn:E end; [repeat split; reflexivity|].
    match goal with |- context [wake_one_recv ?a] => destruct (same_wake_one_recv a) as (A & B & C) end.
    rewrite A, B, C. repeat split; reflexivity.
  - match goal with |- context [fx12 ?a] => destruct (fx12 a) end; [|repeat split; reflexivity].
    match goal with |- context [is_full ?a] => destruct (is_full a) end; [repeat split; reflexivity|].
    match goal with |- context [wake_one_send ?a] => destruct (same_wake_one_send a) as (A & B & C) end.
    rewrite A, B, C. repeat split; reflexivity.
Qed.

Lemma same_finish f (b : bool) x s1 :
  let s2 := (let s := setF f (set_done (set_reg false x)) s1 in
             if b then if fx06 (fx s) then with_arq (unlink f (arq s)) s else taint set_t06 (queued f (arq s)) s
             else s) in
  sc s2 = sc s1 /\ q s2 = q s1 /\ recvd s2 = recvd s1.
Proof.
  cbv zeta. destruct b; [|repeat split; reflexivity].
  cbn [fx setF with_fs]. destruct (fx06 (fx s1)); [repeat split; reflexivity|].
  match goal with |- context [taint ?g ?c ?a] => destruct (same_taint g c a) as (A1 & B1 & C1) end.
  rewrite A1, B1, C1. repeat split; reflexivity.
Qed.

Lemma np_recv_try f w b x s : np s (fst (recv_try f w b x s)).
Proof.
  unfold recv_try. pose proof (np_try_recv_core s) as C.
  destruct (try_recv_core s) as [s1 [v| |]]; cbn [fst] in *.
  - destruct (same_finish f b x s1) as (A1 & B1 & C1). cbv zeta in A1, B1, C1.
    eapply np_trans_r; [exact C | rewrite A1; lia | exact B1 | exact C1].
  - eapply np_trans_r; [exact C|..]; destruct (queued f (arq s1)); try reflexivity; st_simpl; lia.
  - destruct (same_finish f b x s1) as (A1 & B1 & C1). cbv zeta in A1, B1, C1.
    eapply np_trans_r; [exact C | rewrite A1; lia | exact B1 | exact C1].
Qed.

Lemma np_poll_recv f w x s : np s (fst (poll_recv f w x s)).
Proof.
  unfold poll_recv. destruct (f_reg x); [|apply np_recv_try].
  destruct (f_state x); try apply np_recv_try.
  cbn [fx with_arq]. destruct (fx08 (fx s)).
  - eapply np_trans_l; [| | |apply np_recv_try]; try reflexivity; st_simpl; lia.
  - cbn [fst].
    match goal with |- context [taint ?g ?c ?a] => destruct (same_taint g c a) as (A1 & B1 & C1) end.
    apply np_same; st_simpl; [rewrite A1 | rewrite B1 | rewrite C1]; reflexivity.
Qed.

Definition pushing (o : op) : bool :=
  match o with
  | TrySend _ | Send _ | Poll _ _ | Clone _ _ | TrySendBatch _ _ _ | TryRecvBatch _ _ _ => true
  | _ => false
  end.

Lemma np_step s o : pushing o = false -> np s (fst (step s o)).
Proof.
  intros Hp. unfold step. set (s1 := with_bad false (with_dk [] (with_wk [] s))).
  assert (C1 : np s s1) by (apply np_same; reflexivity).
  assert (E1 : sc s1 <= sc s /\ q s1 = q s /\ recvd s1 = recvd s) by (repeat split; try reflexivity; cbn; lia).
  destruct E1 as (Ea & Eb & Ec). clearbody s1.
  destruct o; try discriminate Hp.
  - (* TryRecv *)
    destruct (getH h s1) as [x|]; [|exact C1]. destruct (h_live x); cbn [negb]; [|exact C1].
    destruct (h_tx x); [exact C1|]. destruct (h_closed x); [exact C1|].
    pose proof (np_try_recv_core s1) as C.
    destruct (try_recv_core s1) as [s2 [v| |]]; cbn [fst ret] in *; eapply np_trans_l; eauto.
  - (* Recv *)
    destruct (getH h s1) as [x|]; [|exact C1]. destruct (h_live x); cbn [negb]; [|exact C1].
    destruct (h_tx x || h_async x); [exact C1|].
    match goal with |- context [if ?c then ret s1 RWouldBlock else _] => destruct c end; [exact C1|].
    destruct (h_closed x); [exact C1|].
    pose proof (np_try_recv_core s1) as C.
    destruct (try_recv_core s1) as [s2 [v| |]]; cbn [fst ret] in *; eapply np_trans_l; eauto.
  - (* RecvTimeout *)
    destruct (getH h s1) as [x|]; [|exact C1]. destruct (h_live x); cbn [negb]; [|exact C1].
    destruct (h_tx x || h_async x); [exact C1|].
    destruct (h_closed x && fx03 (fx s1)); [exact C1|].
    destruct (same_taint set_t03 (h_closed x) s1) as (A1 & B1 & D1).
    pose proof (np_try_recv_core (taint set_t03 (h_closed x) s1)) as C.
    destruct (try_recv_core (taint set_t03 (h_closed x) s1)) as [s2 [v| |]]; cbn [fst ret] in *;
      (eapply np_trans_l; [| | |exact C]; [rewrite A1; exact Ea | rewrite B1; exact Eb | rewrite D1; exact Ec]).
  - (* Close *)
    destruct (getH h s1) as [x|]; [|exact C1]. destruct (h_live x); cbn [negb]; [|exact C1].
    pose proof (np_do_close h x s1) as C. destruct (do_close h x s1) as [s2 r]. cbn [fst ret] in *.
    eapply np_trans_l; eauto.
  - (* DropH *)
    destruct (getH h s1) as [x|]; [|exact C1]. destruct (h_live x); cbn [negb]; [|exact C1].
    destruct (borrowed h s1); [exact C1|].
    pose proof (np_do_close h x s1) as C. destruct (do_close h x s1) as [s2 r]. cbn [fst ret] in *.
    eapply np_trans_l; [exact Ea | exact Eb | exact Ec |].
    eapply np_trans_r; [exact C|..]; unfold maybe_free;
      match goal with |- context [any_live ?a] => destruct (any_live a) end; st_simpl; try reflexivity; lia.
  - (* Convert *)
    destruct (getH h s1) as [x|]; [|exact C1]. destruct (h_live x); cbn [negb]; [|exact C1].
    destruct (getH h2 s1); [exact C1|]. destruct (borrowed h s1); [exact C1|]. cbn [ret fst].
    destruct (same_taint set_t07 (h_closed x && negb (fx07 (fx s1))) s1) as (A1 & B1 & D1).
    eapply np_trans_l; [exact Ea | exact Eb | exact Ec |].
    apply np_same; st_simpl; [exact A1 | exact B1 | exact D1].
  - (* Observe *)
    destruct (getH h s1) as [x|]; [|exact C1]. destruct (h_live x); exact C1.
  - (* MkSend *)
    destruct (getH h s1) as [x|]; [|exact C1]. destruct (h_live x); cbn [negb]; [|exact C1].
    destruct (negb (h_tx x && h_async x)); [exact C1|]. destruct (getF f s1); [exact C1|].
    cbn [ret fst fresh snd]. eapply np_trans_l; [exact Ea | exact Eb | exact Ec |]. apply np_same; reflexivity.
  - (* MkRecv *)
    destruct (getH h s1) as [x|]; [|exact C1]. destruct (h_live x); cbn [negb]; [|exact C1].
    destruct (negb (negb (h_tx x) && h_async x)); [exact C1|]. destruct (getF f s1); [exact C1|].
    cbn [ret fst]. eapply np_trans_l; [exact Ea | exact Eb | exact Ec |]. apply np_same; reflexivity.
  - (* DropF *)
    destruct (getF f s1) as [x|]; [|exact C1]. destruct (f_live x); cbn [negb]; [|exact C1].
    cbn [ret fst]. destruct (same_cancel_reg f x s1) as (A1 & B1 & D1).
    eapply np_trans_l; [exact Ea | exact Eb | exact Ec |].
    destruct (f_item x); apply np_same; st_simpl; unfold destroy; st_simpl; assumption.
Qed.

(* the pushing steps, structurally *)
Lemma push_try_send_core v s :
  let r := try_send_core v s in
  sc (fst r) = sc s /\ recvd (fst r) = recvd s /\
  match snd r with TsOk => q (fst r) = q s ++ [v] | _ => q (fst r) = q s end.
Proof.
  cbv zeta. unfold try_send_core. destruct (rc s =? 0); [cbn; auto|]. destruct (is_full s); [cbn; auto|].
  cbn [fst snd]. destruct (same_wake_one_recv s) as (A & B & C). unfold push. st_simpl. rewrite A, B, C. auto.
Qed.

Definition send_push (s : st) (h : N) (s' : st) : Prop :=
  sc s' = sc s /\ recvd s' = recvd s /\
  (q s' = q s \/ exists x, getH h s = Some x /\ h_live x = true /\ h_tx x = true /\ h_closed x = false
                           /\ q s' = q s ++ [next s]).

Lemma send_push_try s h : send_push s h (fst (step s (TrySend h))).
Proof.
  unfold step. set (s1 := with_bad false (with_dk [] (with_wk [] s))).
  change (getH h s1) with (getH h s). unfold send_push.
  destruct (getH h s) as [x|] eqn:Hg; [|cbn; auto].
  destruct (h_live x) eqn:Hl; cbn [negb]; [|cbn; auto].
  destruct (h_tx x) eqn:Htx; cbn [negb]; [|cbn; auto].
  unfold fresh. cbn [fst snd]. destruct (h_closed x) eqn:Hc; [cbn; auto|].
  pose proof (push_try_send_core (next s1) (with_next (next s1 + 1) s1)) as P. cbv zeta in P.
  destruct (try_send_core (next s1) (with_next (next s1 + 1) s1)) as [s2 r]. cbn [fst snd] in P.
  destruct P as (A & B & C). destruct r; cbn [ret fst]; unfold give_back; st_simpl; rewrite ?A, ?B, ?C.
  - split; [reflexivity|]. split; [reflexivity|]. right. exists x. repeat split; auto.
  - cbn. auto.
  - cbn. auto.
Qed.

Lemma send_push_block s h : send_push s h (fst (step s (Send h))).
Proof.
  unfold step. set (s1 := with_bad false (with_dk [] (with_wk [] s))).
  change (getH h s1) with (getH h s). unfold send_push.
  destruct (getH h s) as [x|] eqn:Hg; [|cbn; auto].
  destruct (h_live x) eqn:Hl; cbn [negb]; [|cbn; auto].
  destruct (negb (h_tx x) || h_async x) eqn:Ek; [cbn; auto|].
  assert (Htx : h_tx x = true) by (destruct (h_tx x); [reflexivity | discriminate]).
  destruct (negb (rc s1 =? 0) && is_full s1); [cbn; auto|].
  unfold fresh. cbn [fst snd]. destruct (h_closed x) eqn:Hc; [cbn; auto|].
  pose proof (push_try_send_core (next s1) (with_next (next s1 + 1) s1)) as P. cbv zeta in P.
  destruct (try_send_core (next s1) (with_next (next s1 + 1) s1)) as [s2 r]. cbn [fst snd] in P.
  destruct P as (A & B & C). destruct r; cbn [ret fst]; unfold destroy; st_simpl; rewrite ?A, ?B, ?C.
  - split; [reflexivity|]. split; [reflexivity|]. right. exists x. repeat split; auto.
  - cbn. auto.
  - cbn. auto.
Qed.

Definition clone_eff (s : st) (h : N) (s' : st) : Prop :=
  q s' = q s /\ recvd s' = recvd s /\
  (sc s' = sc s \/ exists x, getH h s = Some x /\ h_live x = true /\ h_tx x = true
                             /\ (h_closed x = true -> fx33 (fx s) = false /\ t33 (tn s') = true)).

Lemma clone_structural s h h2 : clone_eff s h (fst (step s (Clone h h2))).
Proof.
  unfold step. set (s1 := with_bad false (with_dk [] (with_wk [] s))).
  change (getH h s1) with (getH h s). change (getH h2 s1) with (getH h2 s). change (fx s1) with (fx s).
  unfold clone_eff.
  destruct (getH h s) as [x|] eqn:Hg; [|cbn; auto].
  destruct (h_live x) eqn:Hl; cbn [negb]; [|cbn; auto].
  destruct (getH h2 s); [cbn; auto|].
  destruct (h_closed x && fx33 (fx s)) eqn:Ec; [cbn; auto|].
  cbn [ret fst].
  destruct (same_taint set_t33 (h_closed x) s1) as (A & B & C).
  destruct (h_tx x) eqn:Htx; st_simpl; rewrite ?A, ?B, ?C.
  - split; [reflexivity|]. split; [reflexivity|]. right. exists x. repeat split; auto.
    + match goal with E : h_closed x = true |- _ => rewrite E in Ec end. exact Ec.
    + match goal with E : h_closed x = true |- _ => rewrite E end. reflexivity.
  - cbn. auto.
Qed.

Definition poll_eff (s : st) (f : N) (s' : st) : Prop :=
  sc s' <= sc s /\
  ((q s' = q s /\ recvd s' = recvd s) \/ (exists v, q s = v :: q s' /\ recvd s' = recvd s ++ [v]) \/
   (exists x v, getF f s = Some x /\ f_recv x = false /\ f_live x = true /\ recvd s' = recvd s /\ q s' = q s ++ [v]
                /\ (handle_closed (f_h x) s = true -> fx03f (fx s) = false /\ t03f (tn s') = true))).

Lemma push_send_try f w x s :
  let r := send_try f w x s in
  sc (fst r) = sc s /\ recvd (fst r) = recvd s /\ (q (fst r) = q s \/ exists v, q (fst r) = q s ++ [v]).
Proof.
  cbv zeta. unfold send_try. destruct (f_item x) as [v|]; [|cbn; auto].
  pose proof (push_try_send_core v (setF f (set_item None x) s)) as P. cbv zeta in P.
  destruct (try_send_core v (setF f (set_item None x) s)) as [s1 r]. cbn [fst snd] in P. destruct P as (A & B & C).
  destruct r; cbn [fst]; st_simpl; rewrite ?A, ?B, ?C; st_simpl; eauto.
Qed.

Lemma push_poll_send f w x s :
  let r := poll_send f w x s in
  sc (fst r) = sc s /\ recvd (fst r) = recvd s /\ (q (fst r) = q s \/ exists v, q (fst r) = q s ++ [v]).
Proof.
  cbv zeta. unfold poll_send. destruct (f_reg x); [|apply push_send_try].
  destruct (f_state x).
  - destruct (queued f (asq s)); cbn; auto.
  - cbn. auto.
  - pose proof (push_send_try f w (set_reg false x) (with_asq (remove_first f (asq s)) s)) as P. cbv zeta in P. exact P.
  - destruct (queued f (asq s)); cbn; auto.
Qed.

Lemma tn_taint_t03f b s : t03f (tn (taint set_t03f b s)) = b || t03f (tn s).
Proof. unfold taint. destruct b; reflexivity. Qed.

Lemma poll_structural s f w : poll_eff s f (fst (step s (Poll f w))).
Proof.
  unfold step. set (s1 := with_bad false (with_dk [] (with_wk [] s))).
  change (getF f s1) with (getF f s). change (fx s1) with (fx s). unfold poll_eff.
  assert (Hrefl : sc s1 <= sc s) by (cbn; lia).
  destruct (getF f s) as [x|] eqn:Hg; [|cbn [ret fst]; split; [exact Hrefl | left; split; reflexivity]].
  destruct (f_live x) eqn:Hl; cbn [negb]; [|cbn [ret fst]; split; [exact Hrefl | left; split; reflexivity]].
  destruct (f_done x); [cbn [ret fst]; split; [exact Hrefl | left; split; reflexivity]|].
  change (handle_closed (f_h x) s1) with (handle_closed (f_h x) s).
  destruct (handle_closed (f_h x) s && fx03f (fx s)) eqn:Ec.
  - cbn [ret fst]. destruct (same_cancel_reg f x s1) as (A & B & C).
    split; [st_simpl; rewrite A; exact Hrefl|]. left. st_simpl. rewrite B, C. split; reflexivity.
  - set (s2 := taint set_t03f (handle_closed (f_h x) s) s1).
    destruct (same_taint set_t03f (handle_closed (f_h x) s) s1) as (A & B & C). fold s2 in A, B, C.
    destruct (f_recv x) eqn:Hrv.
    + pose proof (np_poll_recv f w x s2) as P.
      destruct (poll_recv f w x s2) as [s3 r]. cbn [fst ret] in *. destruct P as (P1 & P2 & P3).
      split; [rewrite A in P1; lia|].
      destruct P2 as [E|[v [E1 E2]]].
      * left. split; [rewrite E; exact B | rewrite (P3 E); exact C].
      * right. left. exists v. rewrite B in E1. rewrite C in E2. auto.
    + pose proof (push_poll_send f w x s2) as P. cbv zeta in P.
      pose proof (cfg_poll_send f w x s2) as (_ & _ & T).
      destruct (poll_send f w x s2) as [s3 r]. cbn [fst ret] in *. destruct P as (P1 & P2 & P3).
      split; [rewrite P1, A; exact Hrefl|].
      destruct P3 as [E|[v E]].
      * left. split; [rewrite E; exact B | rewrite P2; exact C].
      * right. right. exists x, v. rewrite B in E. rewrite C in P2. repeat split; auto.
        -- match goal with Eh : handle_closed (f_h x) s = true |- _ => rewrite Eh in Ec end. exact Ec.
        -- destruct T as (_ & T & _).
           destruct (t03f (tn s3)) eqn:E3; [reflexivity|]. specialize (T eq_refl).
           subst s2. rewrite tn_taint_t03f in T.
           match goal with Eh : handle_closed (f_h x) s = true |- _ => rewrite Eh in T end. discriminate.
Qed.

(* the batch forms, structurally *)
Lemma same_hand_one_recv s : sc (hand_one_recv s) = sc s /\ q (hand_one_recv s) = q s /\ recvd (hand_one_recv s) = recvd s.
Proof.
  unfold hand_one_recv.
  destruct (same_wake_one_recv (with_arq (skip_nw (fun f => getF f s) (arq s)) s)) as (A & B & C).
  rewrite A, B, C. auto.
Qed.

Lemma push_send_loop vs : forall s,
  sc (fst (send_loop vs s)) = sc s /\ recvd (fst (send_loop vs s)) = recvd s /\
  exists sent, vs = sent ++ snd (send_loop vs s) /\ q (fst (send_loop vs s)) = q s ++ sent.
Proof.
  induction vs as [|v r IH]; intros s; cbn [send_loop].
  - cbn [fst snd]. split; [reflexivity|]. split; [reflexivity|]. exists []. split; [reflexivity | symmetry; apply app_nil_r].
  - destruct (is_full s).
    + cbn [fst snd]. split; [reflexivity|]. split; [reflexivity|]. exists []. split; [reflexivity | symmetry; apply app_nil_r].
    + destruct (IH (push v (hand_one_recv s))) as (A & B & sent & E1 & E2).
      destruct (same_hand_one_recv s) as (A1 & B1 & C1).
      change (sc (push v (hand_one_recv s))) with (sc (hand_one_recv s)) in A.
      change (recvd (push v (hand_one_recv s))) with (recvd (hand_one_recv s)) in B.
      change (q (push v (hand_one_recv s))) with (q (hand_one_recv s) ++ [v]) in E2.
      split; [congruence|]. split; [congruence|]. exists (v :: sent). split; [cbn [app]; f_equal; exact E1|].
      rewrite E2, B1, <- app_assoc. reflexivity.
Qed.

Lemma batch_send_structural s b h n :
  let s' := fst (step s (TrySendBatch b h n)) in
  sc s' = sc s /\ recvd s' = recvd s /\
  (q s' = q s \/ exists x, getH h s = Some x /\ h_live x = true /\ h_tx x = true /\ h_closed x = false).
Proof.
  cbv zeta. unfold step. set (s1 := with_bad false (with_dk [] (with_wk [] s))).
  change (getH h s1) with (getH h s).
  destruct (getH h s) as [x|] eqn:Hg; [|cbn; auto].
  destruct (h_live x) eqn:Hl; cbn [negb]; [|cbn; auto].
  destruct (h_tx x) eqn:Htx; cbn [negb]; [|cbn; auto].
  set (s2 := with_next (next s1 + n) s1).
  assert (Hfail : forall cl sent un,
            let r := (let s4 := with_back (back s2 ++ un) s2 in
                      if b then (if cl && (sent =? 0) then ret s4 (RMClosed un) else ret s4 (RMOk sent un))
                      else ret s4 (RBErr sent cl un)) in
            sc (fst r) = sc s /\ recvd (fst r) = recvd s /\ q (fst r) = q s).
  { intros cl sent un. cbv zeta. destruct b; [destruct (cl && (sent =? 0))|]; cbn; auto. }
  destruct (n =? 0); [destruct b; cbn; auto|].
  destruct (h_closed x) eqn:Hc.
  { destruct (Hfail true 0 (seqN (next s1) (N.to_nat n))) as (A & B & C). cbv zeta in A, B, C. rewrite A, B, C. auto. }
  change (rc s2) with (rc s1). destruct (rc s1 =? 0).
  { destruct (Hfail true 0 (seqN (next s1) (N.to_nat n))) as (A & B & C). cbv zeta in A, B, C. rewrite A, B, C. auto. }
  destruct (push_send_loop (seqN (next s1) (N.to_nat n)) s2) as (A & B & sent & E1 & E2).
  destruct (send_loop (seqN (next s1) (N.to_nat n)) s2) as [s3 un]. cbn [fst snd] in *.
  assert (Hopen : exists x0, Some x = Some x0 /\ h_live x0 = true /\ h_tx x0 = true /\ h_closed x0 = false) by (exists x; auto).
  destruct un as [|u un'].
  - destruct b; cbn [ret fst]; (split; [exact A|]; split; [exact B|]; right; exact Hopen).
  - destruct b; [destruct (false && (n - N.of_nat (length (u :: un')) =? 0))|]; cbn [ret fst]; st_simpl;
      (split; [exact A|]; split; [exact B|]; right; exact Hopen).
Qed.

Lemma same_wake_senders n : forall s,
  sc (wake_senders n s) = sc s /\ q (wake_senders n s) = q s /\ recvd (wake_senders n s) = recvd s.
Proof.
  induction n as [|n IH]; intros s; cbn [wake_senders]; [auto|].
  destruct (IH (wake_one_send s)) as (A & B & C). destruct (same_wake_one_send s) as (A1 & B1 & C1).
  rewrite A, B, C. auto.
Qed.

Lemma batch_recv_structural s b h m :
  let s' := fst (step s (TryRecvBatch b h m)) in
  sc s' = sc s /\ exists vs, q s = vs ++ q s' /\ recvd s' = recvd s ++ vs.
Proof.
  cbv zeta. unfold step. set (s1 := with_bad false (with_dk [] (with_wk [] s))).
  change (getH h s1) with (getH h s).
  assert (Hsame : sc s1 = sc s /\ exists vs, q s = vs ++ q s1 /\ recvd s1 = recvd s ++ vs).
  { split; [reflexivity|]. exists []. split; [reflexivity | symmetry; apply app_nil_r]. }
  destruct (getH h s) as [x|]; [|exact Hsame].
  destruct (h_live x); cbn [negb]; [|exact Hsame].
  destruct (h_tx x); [exact Hsame|]. destruct (m =? 0); [destruct b; exact Hsame|].
  destruct (h_closed x); [exact Hsame|].
  change (q s1) with (q s). change (sc s1) with (sc s).
  destruct (Nat.min (N.to_nat m) (length (q s))) as [|k']; [destruct (sc s =? 0); exact Hsame|].
  cbn [ret fst].
  destruct (same_wake_senders (N.to_nat m) (drain (S k') s1)) as (A & B & C).
  assert (E : fst (ret (wake_senders (N.to_nat m) (drain (S k') s1)) (if b then RNVals (firstn (S k') (q s)) else RVals (firstn (S k') (q s))))
              = wake_senders (N.to_nat m) (drain (S k') s1)) by reflexivity.
  rewrite A, B, C. unfold drain. st_simpl. split; [reflexivity|].
  exists (firstn (S k') (q s)). split; [symmetry; apply firstn_skipn | reflexivity].
Qed.

(** * C04: the disconnect protocol *)
Lemma no_open_tx s :
  Inv s -> t07 (tn s) = false -> sc s = 0 ->
  forall h x, getH h s = Some x -> h_live x = true -> h_tx x = true -> h_closed x = true.
Proof.
  intros [_ [HW HK]] T Hsc h x Hg Hl Htx. destruct (k_cnt s HK T) as [A _].
  assert (Hz : cnt open_tx (hs s) = 0%nat) by (rewrite Hsc in A; lia).
  pose proof (proj1 (cnt_zero open_tx (hs s)) Hz h x (aget_In h x (hs s) Hg)) as Ho.
  unfold open_tx in Ho. rewrite Hl, Htx in Ho. destruct (h_closed x); [reflexivity | discriminate].
Qed.

Lemma no_open_rx s :
  Inv s -> t07 (tn s) = false -> rc s = 0 ->
  forall h x, getH h s = Some x -> h_live x = true -> h_tx x = false -> h_closed x = true.
Proof.
  intros [_ [HW HK]] T Hrc h x Hg Hl Htx. destruct (k_cnt s HK T) as [_ A].
  assert (Hz : cnt open_rx (hs s) = 0%nat) by (rewrite Hrc in A; lia).
  pose proof (proj1 (cnt_zero open_rx (hs s)) Hz h x (aget_In h x (hs s) Hg)) as Ho.
  unfold open_rx in Ho. rewrite Hl, Htx in Ho. destruct (h_closed x); [reflexivity | discriminate].
Qed.

(* while another handle of the side is open the count is not 0 (closing/dropping a clone disconnects nothing) *)
Lemma open_tx_alive s h x :
  Inv s -> t07 (tn s) = false -> getH h s = Some x -> h_live x = true -> h_tx x = true -> h_closed x = false ->
  sc s <> 0.
Proof.
  intros H T Hg Hl Htx Hc E. pose proof (no_open_tx s H T E h x Hg Hl Htx). congruence.
Qed.

Lemma open_rx_alive s h x :
  Inv s -> t07 (tn s) = false -> getH h s = Some x -> h_live x = true -> h_tx x = false -> h_closed x = false ->
  rc s <> 0.
Proof.
  intros H T Hg Hl Htx Hc E. pose proof (no_open_rx s H T E h x Hg Hl Htx). congruence.
Qed.

(* Disconnected, once true (no sender, buffer drained), stays true and nothing is received any more —
   unless one of the recorded events F-07 / F-33 / F-03f occurs *)
Theorem disc_final s o :
  Inv s -> sc s = 0 -> q s = [] ->
  let s' := fst (step s o) in
  t07 (tn s') = false -> t33 (tn s') = false -> t03f (tn s') = false ->
  sc s' = 0 /\ q s' = [] /\ recvd s' = recvd s.
Proof.
  intros H Hsc Hq. cbv zeta. intros T7 T33 T3f.
  destruct (cfg_step s o) as (_ & _ & TL). destruct TL as (_ & _ & _ & L7 & _ & _ & _).
  specialize (L7 T7).
  destruct (pushing o) eqn:Hp.
  2:{ destruct (np_step s o Hp) as (A & B & C). split; [lia|].
      destruct B as [E|[v [E _]]]; [|rewrite Hq in E; discriminate].
      split; [congruence | apply C; exact E]. }
  destruct o; try discriminate Hp.
  - (* TrySend *)
    destruct (send_push_try s h) as (A & B & C). split; [congruence|]. split; [|exact B].
    destruct C as [E|[x (Hg & Hl & Htx & Hc & _)]]; [congruence|].
    exfalso. apply (open_tx_alive s h x H L7 Hg Hl Htx Hc). exact Hsc.
  - (* Send *)
    destruct (send_push_block s h) as (A & B & C). split; [congruence|]. split; [|exact B].
    destruct C as [E|[x (Hg & Hl & Htx & Hc & _)]]; [congruence|].
    exfalso. apply (open_tx_alive s h x H L7 Hg Hl Htx Hc). exact Hsc.
  - (* Clone *)
    destruct (clone_structural s h h2) as (A & B & C). split; [|split; [congruence | exact B]].
    destruct C as [E|[x (Hg & Hl & Htx & Hcl)]]; [congruence|].
    pose proof (no_open_tx s H L7 Hsc h x Hg Hl Htx) as Hc. destruct (Hcl Hc) as [_ T]. congruence.
  - (* Poll *)
    destruct (poll_structural s f w) as (A & B). split; [lia|].
    destruct B as [[E1 E2]|[[v [E _]]|[x [v (Hg & Hrv & Hl & _ & _ & Hcl)]]]].
    + split; congruence.
    + rewrite Hq in E. discriminate.
    + exfalso. destruct H as [HD [HW HK]].
      destruct (w_fh s HW f x Hg Hl) as [hh [Hh (Hlh & Htxh & _)]]. rewrite Hrv in Htxh. cbn in Htxh.
      pose proof (no_open_tx s (conj HD (conj HW HK)) L7 Hsc (f_h x) hh Hh Hlh Htxh) as Hc.
      assert (Ehc : handle_closed (f_h x) s = true) by (unfold handle_closed; rewrite Hh; exact Hc).
      destruct (Hcl Ehc) as [_ T]. congruence.
  - (* TrySendBatch *)
    destruct (batch_send_structural s inplace h n) as (A & B & C). cbv zeta in A, B, C.
    split; [congruence|]. split; [|exact B].
    destruct C as [E|[x (Hg & Hl & Htx & Hc)]]; [congruence|].
    exfalso. apply (open_tx_alive s h x H L7 Hg Hl Htx Hc). exact Hsc.
  - (* TryRecvBatch *)
    destruct (batch_recv_structural s inplace h m) as (A & vs & E1 & E2). cbv zeta in A, E1, E2.
    split; [congruence|]. rewrite Hq in E1. symmetry in E1. apply app_eq_nil in E1. destruct E1 as [-> E1].
    split; [exact E1 | rewrite E2; apply app_nil_r].
Qed.

(* close(): first call Ok, any later call CloseError; a panic (count underflow) only after F-07 *)
Definition close_spec (s : st) (h : N) (s' : st) (o : out) : Prop :=
  forall x, getH h s = Some x -> h_live x = true ->
  (h_closed x = true -> o_res o = RCloseErr /\ unchanged_data s s' /\ sc s' = sc s /\ rc s' = rc s) /\
  (h_closed x = false ->
     (o_res o = ROk \/ (o_res o = RPanic /\ t07 (tn s) = true)) /\ unchanged_data s s'
     /\ exists y, getH h s' = Some y /\ h_closed y = true).

Lemma close_step_spec s h : Inv s -> close_spec s h (fst (step s (Close h))) (snd (step s (Close h))).
Proof.
  intros H0. pose proof (Inv_reset s H0) as H1.
  unfold step. fold (reset s). set (s1 := reset s) in *.
  unfold close_spec. intros x Hg Hl. change (getH h s1 = Some x) in Hg. rewrite Hg, Hl. cbn [negb].
  destruct (do_close_inv h x s1 H1 Hg Hl) as [_ (Sf & Ho & [y (Hy & Hly & Hcy & _)] & Eq & _ & Er & Ea & _)].
  split.
  - intros Hc. unfold do_close. rewrite Hc. cbn [ret fst snd o_res]. unfold unchanged_data. repeat split; reflexivity.
  - intros Hc. split; [|split].
    + unfold do_close. rewrite Hc.
      destruct (if h_tx x then close_tx (setH h (set_closed true x) s1) else close_rx (setH h (set_closed true x) s1)) eqn:E;
        cbn [ret fst snd o_res]; [left; reflexivity|].
      right. split; [reflexivity|].
      destruct (t07 (tn s)) eqn:T; [reflexivity|]. exfalso.
      destruct H1 as [_ [HW1 HK1]]. destruct (k_cnt s1 HK1 T) as [A B].
      destruct (h_tx x) eqn:Htx.
      * unfold close_tx in E. change (sc (setH h (set_closed true x) s1)) with (sc s1) in E.
        destruct (N.eqb_spec (sc s1) 0) as [E0|]; [|discriminate].
        assert (0 < cnt open_tx (hs s1))%nat.
        { apply cnt_pos with h x; [apply aget_In; exact Hg|]. unfold open_tx. rewrite Hl, Hc, Htx. reflexivity. }
        clear - A E0 H. lia.
      * unfold close_rx in E. change (rc (setH h (set_closed true x) s1)) with (rc s1) in E.
        destruct (N.eqb_spec (rc s1) 0) as [E0|]; [|discriminate].
        assert (0 < cnt open_rx (hs s1))%nat.
        { apply cnt_pos with h x; [apply aget_In; exact Hg|]. unfold open_rx. rewrite Hl, Hc, Htx. reflexivity. }
        clear - B E0 H. lia.
    + destruct (do_close h x s1) as [s2 r]. cbn [fst ret] in *. unfold unchanged_data. auto.
    + destruct (do_close h x s1) as [s2 r]. cbn [fst ret] in *. exists y. auto.
Qed.

(** * C06: wake accounting and registrations, as consequences of the invariant *)
Definition wake_ok (s : st) : Prop :=
  (* receive side: some receiver parked-unwoken and the buffer non-empty => a woken receiver is on its way *)
  (t06 (tn s) = false -> t12 (tn s) = false ->
     (0 < cnt pw_r (fs s))%nat -> q s <> [] -> (0 < cnt pi_r (fs s))%nat) /\
  (* send side: some sender parked-unwoken and a free slot => a woken sender is on its way *)
  (t12 (tn s) = false ->
     (0 < cnt pw_s (fs s))%nat -> (length (q s) < N.to_nat (cap s))%nat -> (0 < cnt pi_s (fs s))%nat) /\
  (* disconnection wakes everybody *)
  (sc s = 0 -> cnt pw_r (fs s) = 0%nat) /\ (rc s = 0 -> cnt pw_s (fs s) = 0%nat).

Lemma Inv_wake_ok s : Inv s -> wake_ok s.
Proof.
  intros [HD [HW HK]]. destruct HK as [_ K2 K3]. unfold nq, ncap in *.
  split; [|split; [|split]].
  - intros T1 T2 Hp Hq. specialize (K2 T1 T2). destruct (q s); [congruence|]. cbn [length] in K2. lia.
  - intros T Hp Hl. specialize (K3 T). lia.
  - intros E. apply no_waiting_r; [exact HW | apply (w_sc0 s HW E)].
  - intros E. apply no_waiting_s; [exact HW | apply (w_rc0 s HW E)].
Qed.

(* no registration points at a future that is gone or completed *)
Definition no_dangling (s : st) : Prop :=
  (forall f w, In (f, w) (asq s) -> exists x, getF f s = Some x /\ f_live x = true /\ f_done x = false /\ f_reg x = true) /\
  (t06 (tn s) = false ->
   forall f w, In (f, w) (arq s) -> exists x, getF f s = Some x /\ f_live x = true /\ f_done x = false /\ f_reg x = true).

Lemma Inv_no_dangling s : Inv s -> no_dangling s.
Proof.
  intros [_ [HW _]]. split.
  - intros f w Hi. destruct (w_asq_k s HW f w Hi) as [x [Hg [_ Hr]]]. destruct (w_reg s HW f x Hg Hr). eauto 6.
  - intros T f w Hi. destruct (w_arq_reg s HW T f w Hi) as [x [Hg Hr]]. destruct (w_reg s HW f x Hg Hr). eauto 6.
Qed.

(* a registered, still-WAITING future always has its waiter queued (it cannot be forgotten) *)
Lemma Inv_registered_queued s f x :
  Inv s -> getF f s = Some x -> f_reg x = true -> is_waiting (f_state x) = true ->
  In f (akeys (if f_recv x then arq s else asq s)).
Proof. intros [_ [HW _]]. apply (w_wq s HW). Qed.

(** * C09: every id ends Returned or Dropped, exactly once *)
Definition all_gone (s : st) : Prop := forall h x, getH h s = Some x -> h_live x = false.

Lemma Inv_teardown s :
  Inv s -> all_gone s ->
  freed s = true /\
  forall v, (occ v (recvd s) + occ v (back s) + occ v (dropped s) + occ v (q s))%nat
            = if v <? next s then 1%nat else 0%nat.
Proof.
  intros [HD [HW _]] Hg. split.
  - rewrite (w_freed s HW). unfold any_live.
    destruct (existsb (fun e : N * handle => h_live (snd e)) (hs s)) eqn:E; [|reflexivity].
    apply (live_exists (hs s) (w_hnd s HW)) in E. destruct E as [h [x [Hx Hl]]].
    rewrite (Hg h x Hx) in Hl. discriminate.
  - intros v. pose proof (d_cons _ _ HD v) as C. unfold tot in C. cbn [occ] in C.
    assert (Hc : cells s v = 0%nat).
    { unfold cells. apply cnt_zero. intros f x Hi. unfold cellp.
      destruct (f_live x) eqn:Hl; [|reflexivity]. exfalso.
      assert (Hf : getF f s = Some x) by (apply In_aget; [apply (w_fnd s HW) | exact Hi]).
      destruct (w_fh s HW f x Hf Hl) as [h [Hh (Hlh & _)]]. rewrite (Hg _ _ Hh) in Hlh. discriminate. }
    rewrite Hc in C. lia.
Qed.

(** * with every repair switched on no recorded event can happen *)
Lemma all_fixed_no_taint s : Inv s -> fx s = all_fixes ->
  t03 (tn s) = false /\ t03f (tn s) = false /\ t06 (tn s) = false /\ t07 (tn s) = false /\
  t08 (tn s) = false /\ t12 (tn s) = false /\ t33 (tn s) = false.
Proof.
  intros [_ [HW _]] E. pose proof (w_taint s HW) as T. rewrite E in T. unfold taint_ok, all_fixes in T. cbn in T.
  destruct T as (A&B&C&D&F&G&I). repeat split; auto.
Qed.

(** * polls: what the result says about the queue *)
Lemma try_recv_core_out s :
  match snd (try_recv_core s) with
  | TrVal v => q s = v :: q (fst (try_recv_core s)) /\ recvd (fst (try_recv_core s)) = recvd s ++ [v]
  | TrEmpty => fst (try_recv_core s) = s /\ q s = [] /\ sc s <> 0
  | TrDisc => fst (try_recv_core s) = s /\ q s = [] /\ sc s = 0
  end.
Proof.
  unfold try_recv_core. destruct (q s) as [|v t] eqn:E.
  - destruct (N.eqb_spec (sc s) 0); cbn; auto.
  - cbn [fst snd]. destruct (same_wake_one_send (with_recvd (recvd s ++ [v]) (with_q t s))) as (_ & B & C).
    rewrite B, C. st_simpl. auto.
Qed.

Lemma recv_try_out f w b x s :
  let r := recv_try f w b x s in
  match snd r with
  | RReadyVal v => q s = v :: q (fst r) /\ recvd (fst r) = recvd s ++ [v]
  | RReadyDisc => q (fst r) = q s /\ recvd (fst r) = recvd s /\ q s = [] /\ sc s = 0
  | RPending => q (fst r) = q s /\ recvd (fst r) = recvd s /\ q s = [] /\ sc s <> 0
  | _ => False
  end.
Proof.
  cbv zeta. unfold recv_try. pose proof (try_recv_core_out s) as P.
  destruct (try_recv_core s) as [s1 [v| |]]; cbn [fst snd] in *.
  - destruct (same_finish f b x s1) as (_ & B1 & C1). cbv zeta in B1, C1. destruct P as [P1 P2].
    rewrite B1, C1. auto.
  - destruct P as (-> & P2 & P3). destruct (queued f (arq s)); cbn [fst snd]; st_simpl; auto.
  - destruct P as (-> & P2 & P3). destruct (same_finish f b x s) as (_ & B1 & C1). cbv zeta in B1, C1.
    rewrite B1, C1. auto.
Qed.

(* RecvFuture::poll: a value is the head of the queue; Disconnected means drained and senderless,
   or the CLOSED-woken shortcut (F-08, tainting t08 exactly when the buffer was not empty) *)
Lemma poll_recv_out f w x s :
  let r := poll_recv f w x s in
  match snd r with
  | RReadyVal v => q s = v :: q (fst r) /\ recvd (fst r) = recvd s ++ [v]
  | RReadyDisc => q (fst r) = q s /\ recvd (fst r) = recvd s /\
                  ((q s = [] /\ sc s = 0) \/ (fx08 (fx s) = false /\ (q s <> [] -> t08 (tn (fst r)) = true)))
  | RPending => q (fst r) = q s /\ recvd (fst r) = recvd s /\ q s = [] /\ sc s <> 0
  | _ => False
  end.
Proof.
  cbv zeta. unfold poll_recv.
  assert (Hgen : forall b y s0, q s0 = q s -> recvd s0 = recvd s -> sc s0 = sc s ->
            match snd (recv_try f w b y s0) with
            | RReadyVal v => q s = v :: q (fst (recv_try f w b y s0)) /\ recvd (fst (recv_try f w b y s0)) = recvd s ++ [v]
            | RReadyDisc => q (fst (recv_try f w b y s0)) = q s /\ recvd (fst (recv_try f w b y s0)) = recvd s /\
                            ((q s = [] /\ sc s = 0) \/ (fx08 (fx s) = false /\ (q s <> [] -> t08 (tn (fst (recv_try f w b y s0))) = true)))
            | RPending => q (fst (recv_try f w b y s0)) = q s /\ recvd (fst (recv_try f w b y s0)) = recvd s /\ q s = [] /\ sc s <> 0
            | _ => False
            end).
  { intros b y s0 E1 E2 E3. pose proof (recv_try_out f w b y s0) as P. cbv zeta in P.
    destruct (snd (recv_try f w b y s0)); try exact P; rewrite ?E1, ?E2, ?E3 in P; try exact P.
    destruct P as (A & B & C & D). auto. }
  destruct (f_reg x); [|apply Hgen; reflexivity].
  destruct (f_state x); try (apply Hgen; reflexivity).
  cbn [fx with_arq]. destruct (fx08 (fx s)) eqn:E8; [apply Hgen; reflexivity|].
  cbn [fst snd]. st_simpl.
  destruct (same_taint set_t08 (negb (lenq (with_arq (unlink f (arq s)) s) =? 0)) (with_arq (unlink f (arq s)) s)) as (_ & B & C).
  rewrite B, C. st_simpl. split; [reflexivity|]. split; [reflexivity|]. right. split; [reflexivity|].
  intros Hne. unfold taint. change (lenq (with_arq (unlink f (arq s)) s)) with (lenq s).
  destruct (lenq s =? 0) eqn:E0; [apply (lenq0 s) in E0; contradiction|]. reflexivity.
Qed.

(* a poll on a closed handle: rejected if repaired, otherwise the F-03f event is recorded *)
Lemma poll_closed_handle s f w x :
  getF f s = Some x -> f_live x = true -> f_done x = false -> handle_closed (f_h x) s = true ->
  (fx03f (fx s) = true ->
     o_res (snd (step s (Poll f w))) = (if f_recv x then RReadyDisc else RReadyClosed)
     /\ q (fst (step s (Poll f w))) = q s /\ recvd (fst (step s (Poll f w))) = recvd s) /\
  (fx03f (fx s) = false -> t03f (tn (fst (step s (Poll f w)))) = true).
Proof.
  intros Hg Hl Hd Hc. unfold step. set (s1 := with_bad false (with_dk [] (with_wk [] s))).
  change (getF f s1) with (getF f s). change (fx s1) with (fx s). rewrite Hg.
  change (handle_closed (f_h x) s1) with (handle_closed (f_h x) s).
  rewrite Hl, Hd, Hc. cbn [negb andb]. split; intros E; rewrite E.
  - cbn [ret fst snd o_res]. destruct (same_cancel_reg f x s1) as (_ & B & C). st_simpl. rewrite B, C. auto.
  - set (s2 := taint set_t03f true s1).
    destruct (f_recv x).
    + pose proof (cfg_poll_recv f w x s2) as (_ & _ & T). destruct (poll_recv f w x s2) as [s3 r]. cbn [fst ret] in *.
      destruct T as (_ & T & _). destruct (t03f (tn s3)) eqn:E3; [reflexivity|]. specialize (T eq_refl). discriminate.
    + pose proof (cfg_poll_send f w x s2) as (_ & _ & T). destruct (poll_send f w x s2) as [s3 r]. cbn [fst ret] in *.
      destruct T as (_ & T & _). destruct (t03f (tn s3)) eqn:E3; [reflexivity|]. specialize (T eq_refl). discriminate.
Qed.

(** * statements over all histories (pinned in Props/C0x_mpmcb.v) *)
Section Pinned.
  Variables (c : N) (a : bool) (f : fixes) (os : list op).
  Let s := state_after c a f os.

  Lemma Hinv : Inv s.
  Proof. apply Inv_reachable. Qed.

  (* C03: try_send succeeds exactly when the handle is open, a receiver is counted, and there is room *)
  Lemma P_try_send_exact h x :
    getH h s = Some x -> h_live x = true -> h_tx x = true ->
    (o_res (snd (step s (TrySend h))) = ROk <->
     h_closed x = false /\ rc s <> 0 /\ (length (q s) < N.to_nat c)%nat).
  Proof.
    intros Hg Hl Htx. pose proof (try_send_spec s h Hinv x Hg Hl Htx (fun E => match Bool.diff_false_true E with end)) as P.
    assert (Ec : cap s = c) by apply cap_after. rewrite Ec in P.
    split.
    - intros E. rewrite E in P. tauto.
    - intros (A & B & C). destruct (o_res (snd (step s (TrySend h)))); try contradiction; try reflexivity.
      + destruct P as (_ & _ & _ & _ & P & _). lia.
      + destruct P as (_ & _ & [P|P] & _); congruence.
      + destruct P as (P & _). discriminate.
      + destruct P as (P & _). discriminate.
  Qed.

  (* C04: counts = open handles, unless F-07 *)
  Lemma P_counts : t07 (tn s) = false ->
    sc s = N.of_nat (cnt open_tx (hs s)) /\ rc s = N.of_nat (cnt open_rx (hs s)).
  Proof. intros T. apply (k_cnt s (proj2 (proj2 Hinv)) T). Qed.

  Lemma P_taint_ok : taint_ok f (tn s).
  Proof. pose proof (w_taint s (proj1 (proj2 Hinv))) as T. unfold s in T at 1. rewrite fx_after in T. exact T. Qed.

  (* C04: a poll that reports Disconnected on an open handle has drained the buffer, unless F-08 *)
  Lemma P_poll_disc fid w x :
    getF fid s = Some x -> f_live x = true -> f_done x = false -> f_recv x = true ->
    handle_closed (f_h x) s = false ->
    o_res (snd (step s (Poll fid w))) = RReadyDisc ->
    q s = [] \/ (fx08 f = false /\ t08 (tn (fst (step s (Poll fid w)))) = true).
  Proof.
    intros Hg Hl Hd Hrv Hc. unfold step. set (s1 := with_bad false (with_dk [] (with_wk [] s))).
    change (getF fid s1) with (getF fid s). rewrite Hg.
    change (handle_closed (f_h x) s1) with (handle_closed (f_h x) s).
    rewrite Hl, Hd, Hc, Hrv. cbn [negb andb]. unfold taint.
    pose proof (poll_recv_out fid w x s1) as P. cbv zeta in P.
    destruct (poll_recv fid w x s1) as [s2 r]. cbn [fst snd ret o_res] in *. intros ->.
    destruct P as (_ & _ & [[P _]|[P1 P2]]); [left; exact P|].
    destruct (q s) eqn:E; [left; reflexivity|]. right.
    change (fx s1) with (fx s) in P1. unfold s in P1 at 1. rewrite fx_after in P1. split; [exact P1|].
    apply P2. change (q s1) with (q s). rewrite E. discriminate.
  Qed.

  (* C06: after drop(future) the future is gone and, by no_dangling, so is its registration *)
  Lemma P_dropf_unlinked fid x :
    getF fid s = Some x -> f_live x = true ->
    let s' := fst (step s (DropF fid)) in
    ~ In fid (akeys (asq s')) /\ (t06 (tn s') = false -> ~ In fid (akeys (arq s'))).
  Proof.
    intros Hg Hl. cbv zeta.
    assert (Hdead : exists y, getF fid (fst (step s (DropF fid))) = Some y /\ f_live y = false).
    { unfold step. set (s1 := with_bad false (with_dk [] (with_wk [] s))).
      change (getF fid s1) with (getF fid s). rewrite Hg, Hl. cbn [negb ret fst].
      destruct (getF fid (cancel_reg fid x s1)) as [y|];
        destruct (f_item x); unfold destroy; st_simpl;
        (eexists; split; [change (aget fid (aset fid ?X ?L)) with (aget fid (aset fid X L)); apply aget_aset_same | reflexivity]). }
    destruct Hdead as [y [Hy Hly]].
    pose proof (Inv_step s (DropF fid) Hinv) as H'. destruct (Inv_no_dangling _ H') as [A B].
    split.
    - intros Hi. destruct (akeys_In _ _ Hi) as [w Hw]. destruct (A fid w Hw) as [z [Hz [Hlz _]]]. congruence.
    - intros T Hi. destruct (akeys_In _ _ Hi) as [w Hw]. destruct (B T fid w Hw) as [z [Hz [Hlz _]]]. congruence.
  Qed.
End Pinned.

(** * the recorded deviations: full clause refuted on the faithful model ([no_fixes]), the clause
    holds outside the recorded event (taint), and holds outright once the repair is switched on *)

(* --- F-07: to_sync/to_async reset the closed flag, so the counts drift from the open handles --- *)
Definition counts_exact (f : fixes) : Prop :=
  forall c a os, let s := state_after c a f os in
  sc s = N.of_nat (cnt open_tx (hs s)) /\ rc s = N.of_nat (cnt open_rx (hs s)).

Lemma counts_refuted_F07 : ~ counts_exact no_fixes.
Proof.
  intros H. specialize (H 2 false [Clone 0 2; Close 0; Convert 0 3; DropH 3]). vm_compute in H.
  destruct H as [H _]. discriminate.
Qed.

Lemma counts_fixed f : fx07 f = true -> counts_exact f.
Proof.
  intros E c a os. cbv zeta. apply P_counts. destruct (P_taint_ok c a f os) as (_&_&_&T&_). auto.
Qed.

(* close()/drop never panic outside F-07 *)
Lemma no_panic_close c a f os h x :
  let s := state_after c a f os in
  getH h s = Some x -> h_live x = true -> t07 (tn s) = false -> o_res (snd (step s (Close h))) <> RPanic.
Proof.
  cbv zeta. intros Hg Hl T E.
  destruct (close_step_spec _ h (Inv_reachable c a f os) x Hg Hl) as [A B].
  destruct (h_closed x) eqn:Hc.
  - destruct (A eq_refl) as [A1 _]. congruence.
  - destruct (B eq_refl) as [[B1|[_ B1]] _]; congruence.
Qed.

(* --- F-03: recv_timeout does not test the handle's own closed flag --- *)
Definition rt_closed_rejects (f : fixes) : Prop :=
  forall c a os h x, let s := state_after c a f os in
  getH h s = Some x -> h_live x = true -> h_tx x = false -> h_async x = false -> h_closed x = true ->
  o_res (snd (step s (RecvTimeout h))) = RDisc.

Lemma rt_closed_refuted_F03 : ~ rt_closed_rejects no_fixes.
Proof.
  intros H. specialize (H 2 false [TrySend 0; Close 1] 1 (mkH false false true true)).
  vm_compute in H. specialize (H eq_refl eq_refl eq_refl eq_refl eq_refl). discriminate.
Qed.

Lemma rt_closed_except_F03 c a f os h x :
  let s := state_after c a f os in
  getH h s = Some x -> h_live x = true -> h_tx x = false -> h_async x = false -> h_closed x = true ->
  o_res (snd (step s (RecvTimeout h))) = RDisc \/ t03 (tn (fst (step s (RecvTimeout h)))) = true.
Proof.
  cbv zeta. intros Hg Hl Htx Ha Hc.
  pose proof (recv_timeout_spec _ h (Inv_reachable c a f os) x Hg Hl Htx (fun _ => Ha)) as P.
  destruct (o_res (snd (step (state_after c a f os) (RecvTimeout h)))); try contradiction; auto.
  - destruct P as (_ & _ & _ & [P|(_ & _ & P)]); [congruence | right; exact P].
  - destruct P as (P & _). discriminate.
  - destruct P as (_ & _ & _ & _ & [P|(_ & P)]); [congruence | right; exact P].
  - destruct P as (P & _). discriminate.
Qed.

Lemma rt_closed_fixed f : fx03 f = true -> rt_closed_rejects f.
Proof.
  intros E c a os h x. cbv zeta. intros Hg Hl Htx Ha Hc.
  destruct (rt_closed_except_F03 c a f os h x Hg Hl Htx Ha Hc) as [P|P]; [exact P|].
  pose proof (Inv_step _ (RecvTimeout h) (Inv_reachable c a f os)) as H'.
  pose proof (w_taint _ (proj1 (proj2 H'))) as T.
  destruct (cfg_step (state_after c a f os) (RecvTimeout h)) as (Ef & _). rewrite Ef, fx_after in T.
  destruct T as (T & _). rewrite (T E) in P. discriminate.
Qed.

(* --- F-03f: a future's poll does not test the closed flag of the handle it borrows --- *)
Definition poll_closed_rejects (f : fixes) : Prop :=
  forall c a os fid w x, let s := state_after c a f os in
  getF fid s = Some x -> f_live x = true -> f_done x = false -> handle_closed (f_h x) s = true ->
  o_res (snd (step s (Poll fid w))) = (if f_recv x then RReadyDisc else RReadyClosed).

Lemma poll_closed_refuted_F03f : ~ poll_closed_rejects no_fixes.
Proof.
  intros H. specialize (H 2 true [Close 0; MkSend 10 0] 10 100 (mkF false 0 (Some 0) Waiting false true false)).
  vm_compute in H. specialize (H eq_refl eq_refl eq_refl eq_refl). discriminate.
Qed.

Lemma poll_closed_except_F03f c a f os fid w x :
  let s := state_after c a f os in
  getF fid s = Some x -> f_live x = true -> f_done x = false -> handle_closed (f_h x) s = true ->
  o_res (snd (step s (Poll fid w))) = (if f_recv x then RReadyDisc else RReadyClosed)
  \/ t03f (tn (fst (step s (Poll fid w)))) = true.
Proof.
  cbv zeta. intros Hg Hl Hd Hc. destruct (poll_closed_handle _ fid w x Hg Hl Hd Hc) as [A B].
  destruct (fx03f (fx (state_after c a f os))); [left; apply A; reflexivity | right; apply B; reflexivity].
Qed.

Lemma poll_closed_fixed f : fx03f f = true -> poll_closed_rejects f.
Proof.
  intros E c a os fid w x. cbv zeta. intros Hg Hl Hd Hc.
  destruct (poll_closed_handle _ fid w x Hg Hl Hd Hc) as [A _]. apply A. rewrite fx_after. exact E.
Qed.

(* --- F-33 (and F-07, F-03f): Disconnected is final --- *)
Definition disc_is_final (f : fixes) : Prop :=
  forall c a os o, let s := state_after c a f os in
  sc s = 0 -> q s = [] ->
  let s' := fst (step s o) in sc s' = 0 /\ q s' = [] /\ recvd s' = recvd s.

Lemma disc_final_refuted_F33 : ~ disc_is_final no_fixes.
Proof.
  intros H. specialize (H 2 false [Close 0] (Clone 0 2)). vm_compute in H.
  destruct (H eq_refl eq_refl) as [H1 _]. discriminate.
Qed.

Lemma disc_final_refuted_F03f : ~ disc_is_final no_fixes.
Proof.
  intros H. specialize (H 2 true [Close 0; MkSend 10 0] (Poll 10 100)). vm_compute in H.
  destruct (H eq_refl eq_refl) as (_ & H1 & _). discriminate.
Qed.

Lemma disc_final_refuted_F07 : ~ disc_is_final no_fixes.
Proof.
  intros H. specialize (H 2 false [Close 0; Convert 0 2] (TrySend 2)). vm_compute in H.
  destruct (H eq_refl eq_refl) as (_ & H1 & _). discriminate.
Qed.

Lemma disc_final_except c a f os o :
  let s := state_after c a f os in
  sc s = 0 -> q s = [] ->
  let s' := fst (step s o) in
  t07 (tn s') = false -> t33 (tn s') = false -> t03f (tn s') = false ->
  sc s' = 0 /\ q s' = [] /\ recvd s' = recvd s.
Proof. cbv zeta. apply disc_final. apply Inv_reachable. Qed.

Lemma disc_final_fixed f : fx07 f = true -> fx33 f = true -> fx03f f = true -> disc_is_final f.
Proof.
  intros E1 E2 E3 c a os o. cbv zeta. intros Hsc Hq.
  pose proof (Inv_step _ o (Inv_reachable c a f os)) as H'.
  pose proof (w_taint _ (proj1 (proj2 H'))) as T.
  destruct (cfg_step (state_after c a f os) o) as (Ef & _). rewrite Ef, fx_after in T.
  destruct T as (_ & T3 & _ & T7 & _ & _ & T33).
  apply disc_final_except; auto.
Qed.

(* --- F-08: a RecvFuture woken CLOSED reports Disconnected without re-draining --- *)
Definition future_disc_drained (f : fixes) : Prop :=
  forall c a os fid w x, let s := state_after c a f os in
  getF fid s = Some x -> f_live x = true -> f_done x = false -> f_recv x = true ->
  handle_closed (f_h x) s = false ->
  o_res (snd (step s (Poll fid w))) = RReadyDisc -> q s = [].

Lemma future_disc_refuted_F08 : ~ future_disc_drained no_fixes.
Proof.
  intros H.
  specialize (H 2 true [Clone 1 2; MkRecv 10 1; MkRecv 11 2; Poll 10 100; Poll 11 101; TrySend 0; Close 0]
                11 101 (mkF true 2 None WClosed true true false)).
  vm_compute in H. specialize (H eq_refl eq_refl eq_refl eq_refl eq_refl eq_refl). discriminate.
Qed.

Lemma future_disc_except_F08 c a f os fid w x :
  let s := state_after c a f os in
  getF fid s = Some x -> f_live x = true -> f_done x = false -> f_recv x = true ->
  handle_closed (f_h x) s = false ->
  o_res (snd (step s (Poll fid w))) = RReadyDisc ->
  q s = [] \/ (fx08 f = false /\ t08 (tn (fst (step s (Poll fid w)))) = true).
Proof. cbv zeta. apply P_poll_disc. Qed.

Lemma future_disc_fixed f : fx08 f = true -> future_disc_drained f.
Proof.
  intros E c a os fid w x. cbv zeta. intros Hg Hl Hd Hr Hc Ho.
  destruct (P_poll_disc c a f os fid w x Hg Hl Hd Hr Hc Ho) as [P|[P _]]; [exact P | congruence].
Qed.

(* --- F-06: a registered RecvFuture that completes leaves its waiter entry queued --- *)
Definition no_dangling_full (f : fixes) : Prop :=
  forall c a os, let s := state_after c a f os in
  forall fid w, In (fid, w) (arq s) ->
  exists x, getF fid s = Some x /\ f_live x = true /\ f_done x = false /\ f_reg x = true.

Lemma no_dangling_refuted_F06 : ~ no_dangling_full no_fixes.
Proof.
  intros H.
  specialize (H 2 true [Clone 1 2; MkRecv 10 1; MkRecv 11 2; Poll 10 100; Poll 11 101; TrySend 0; Poll 11 101; DropF 11] 11 101).
  vm_compute in H. destruct (H (or_introl eq_refl)) as [x [Hx [Hl _]]].
  inversion Hx; subst x. discriminate.
Qed.

(* ... and the next send then writes into the dropped future's cell *)
Lemma bad_write_witness_F06 :
  o_bad (snd (step (state_after 2 true no_fixes
                      [Clone 1 2; MkRecv 10 1; MkRecv 11 2; Poll 10 100; Poll 11 101; TrySend 0; Poll 11 101; DropF 11])
                   (TrySend 0))) = true.
Proof. vm_compute. reflexivity. Qed.

Lemma no_dangling_except c a f os : no_dangling (state_after c a f os).
Proof. apply Inv_no_dangling, Inv_reachable. Qed.

Lemma no_dangling_fixed f : fx06 f = true -> no_dangling_full f.
Proof.
  intros E c a os. cbv zeta. destruct (no_dangling_except c a f os) as [_ B].
  apply B. destruct (P_taint_ok c a f os) as (_&_&T&_). auto.
Qed.

(* --- F-12 (and F-06): wake accounting --- *)
Definition wake_full (f : fixes) : Prop :=
  forall c a os, let s := state_after c a f os in
  ((0 < cnt pw_r (fs s))%nat -> q s <> [] -> (0 < cnt pi_r (fs s))%nat) /\
  ((0 < cnt pw_s (fs s))%nat -> (length (q s) < N.to_nat (cap s))%nat -> (0 < cnt pi_s (fs s))%nat).

Lemma wake_refuted_F12 : ~ wake_full no_fixes.
Proof.
  intros H.
  specialize (H 1 true [TrySend 0; Clone 0 2; MkSend 10 0; MkSend 11 2; Poll 10 100; Poll 11 101; TryRecv 1; DropF 10]).
  vm_compute in H. destruct H as [_ H]. specialize (H (le_n 1) (le_n 1)). inversion H.
Qed.

Lemma wake_refuted_F06 : ~ wake_full no_fixes.
Proof.
  intros H.
  specialize (H 2 true [Clone 1 2; MkRecv 10 1; MkRecv 11 2; MkRecv 12 2; Poll 10 100; Poll 11 101; Poll 12 102;
                        TrySend 0; Poll 11 101; Poll 10 100; TrySend 0]).
  vm_compute in H. destruct H as [H _]. assert (Hq : [1] <> @nil N) by discriminate.
  specialize (H (le_S _ _ (le_n 1)) Hq). inversion H.
Qed.

Lemma wake_except c a f os : wake_ok (state_after c a f os).
Proof. apply Inv_wake_ok, Inv_reachable. Qed.

Lemma wake_fixed f : fx06 f = true -> fx12 f = true -> wake_full f.
Proof.
  intros E1 E2 c a os. cbv zeta. destruct (wake_except c a f os) as (A & B & _).
  destruct (P_taint_ok c a f os) as (_&_&T6&_&_&T12&_). split; [apply A | apply B]; auto.
Qed.

(* with every repair on, nothing is tainted in any history *)
Lemma all_fixed_clean c a os :
  let s := state_after c a all_fixes os in
  t03 (tn s) = false /\ t03f (tn s) = false /\ t06 (tn s) = false /\ t07 (tn s) = false /\
  t08 (tn s) = false /\ t12 (tn s) = false /\ t33 (tn s) = false.
Proof. cbv zeta. apply all_fixed_no_taint; [apply Inv_reachable | apply fx_after]. Qed.

(** * batch forms: results *)
Ltac nilne :=
  first [ solve [intros E0; contradiction]
        | solve [exfalso; match goal with H : ?a <> ?a |- _ => apply H; reflexivity end] ].
Lemma length_seqN a n : length (seqN a n) = n.
Proof. revert a. induction n as [|n IH]; intros a; cbn [seqN length]; [reflexivity | rewrite IH; reflexivity]. Qed.

Definition batch_send_spec (b : bool) (s : st) (h n : N) (s' : st) (o : out) : Prop :=
  forall x, getH h s = Some x -> h_live x = true -> h_tx x = true ->
  exists sent un,
    seqN (next s) (N.to_nat n) = sent ++ un /\ q s' = q s ++ sent /\ acc s' = acc s ++ sent
    /\ recvd s' = recvd s /\ back s' = back s ++ un /\ next s' = next s + n
    /\ (sent <> [] -> h_closed x = false /\ rc s <> 0)
    /\ match o_res o with
       | RBOk k => b = false /\ un = [] /\ k = n
       | RBErr k cl u => b = false /\ u = un /\ un <> [] /\ k = N.of_nat (length sent)
                         /\ (if cl then sent = [] /\ (h_closed x = true \/ rc s = 0)
                             else length (q s') = N.to_nat (cap s))
       | RMOk k u => b = true /\ u = un /\ k = N.of_nat (length sent)
                     /\ (un <> [] -> length (q s') = N.to_nat (cap s))
       | RMClosed u => b = true /\ u = un /\ sent = [] /\ un <> [] /\ (h_closed x = true \/ rc s = 0)
       | _ => False
       end.

Lemma try_send_batch_spec s b h n :
  Inv s -> batch_send_spec b s h n (fst (step s (TrySendBatch b h n))) (snd (step s (TrySendBatch b h n))).
Proof.
  intros H0. pose proof (Inv_reset s H0) as H1.
  unfold step. fold (reset s). set (s1 := reset s) in *.
  unfold batch_send_spec. intros x Hg Hl Htx. change (getH h s1 = Some x) in Hg.
  rewrite Hg, Hl, Htx. cbn [negb].
  change (next s1) with (next s). change (rc s1) with (rc s).
  pose proof (InvH_fresh_n (N.to_nat n) s1 H1) as Hf. rewrite N2Nat.id in Hf. change (next s1) with (next s) in Hf.
  set (vs := seqN (next s) (N.to_nat n)) in *. set (s2 := with_next (next s + n) s1) in *.
  assert (Hlen : length vs = N.to_nat n) by apply length_seqN.
  destruct (N.eqb_spec n 0) as [En|En].
  - subst n. cbn in vs. exists [], []. destruct b; cbn [ret fst snd o_res]; st_simpl; rewrite ?app_nil_r, ?N.add_0_r;
      repeat split; auto; try nilne; try congruence;
      try (subst s2; cbn [next with_next]; apply N.add_0_r).
  - assert (Hne : vs <> []) by (intros E; rewrite E in Hlen; cbn in Hlen; lia).
    assert (Hfail : (h_closed x = true \/ rc s = 0) ->
              exists sent un, vs = sent ++ un /\ q (with_back (back s2 ++ vs) s2) = q s ++ sent
                /\ acc (with_back (back s2 ++ vs) s2) = acc s ++ sent /\ recvd (with_back (back s2 ++ vs) s2) = recvd s
                /\ back (with_back (back s2 ++ vs) s2) = back s ++ un /\ next (with_back (back s2 ++ vs) s2) = next s + n
                /\ (sent <> [] -> h_closed x = false /\ rc s <> 0)
                /\ sent = [] /\ un = vs).
    { intros _. exists [], vs. st_simpl. rewrite !app_nil_r. repeat split; auto; try nilne. }
    destruct (h_closed x) eqn:Hc.
    { destruct (Hfail (or_introl eq_refl)) as (sent & un & E1 & E2 & E3 & E4 & E5 & E6 & E7 & E8 & E9). subst sent un.
      exists [], vs. destruct b; cbn [andb N.eqb ret fst snd o_res]; repeat split; auto; try nilne. }
    change (rc s2) with (rc s).
    destruct (N.eqb_spec (rc s) 0) as [Er|Er].
    { destruct (Hfail (or_intror Er)) as (sent & un & E1 & E2 & E3 & E4 & E5 & E6 & E7 & E8 & E9). subst sent un.
      exists [], vs. destruct b; cbn [andb N.eqb ret fst snd o_res]; repeat split; auto; try nilne. }
    destruct (send_loop_inv vs s2 Hf) as [A (sent & E1 & E2 & E3 & E4 & Fr & E6 & E7)].
    destruct (send_loop vs s2) as [s3 un]. cbn [fst snd] in *.
    destruct Fr as (Fcap & Ffx & Fsc & Frc & Fhs & Fnext & Fback & Fdropped & Ffreed & Ftn & Fdk).
    change (q s2) with (q s) in E2. change (acc s2) with (acc s) in E3. change (recvd s2) with (recvd s) in E4.
    change (next s2) with (next s + n) in Fnext. change (back s2) with (back s) in Fback. change (cap s2) with (cap s) in Fcap.
    assert (Hk : n - N.of_nat (length un) = N.of_nat (length sent)).
    { rewrite E1, app_length in Hlen. lia. }
    exists sent, un. destruct un as [|u un'].
    + rewrite app_nil_r in E1. destruct b; cbn [ret fst snd o_res]; rewrite ?app_nil_r;
        repeat split; auto; try nilne; try (cbn [length] in Hk; rewrite N.sub_0_r in Hk; congruence).
    + assert (Hfull : length (q s3) = N.to_nat (cap s)).
      { assert (Hx : u :: un' <> []) by discriminate. specialize (E7 Hx). unfold nq, ncap in E7. rewrite Fcap in E7. exact E7. }
      destruct b; cbn [andb ret fst snd o_res]; st_simpl; rewrite ?Fback, ?Fnext, ?Hk;
        repeat split; auto; try discriminate.
Qed.

Definition batch_recv_spec (b : bool) (s : st) (h m : N) (s' : st) (o : out) : Prop :=
  forall x, getH h s = Some x -> h_live x = true -> h_tx x = false ->
  let P (l : list N) :=
    q s = l ++ q s' /\ recvd s' = recvd s ++ l /\ acc s' = acc s
    /\ ((m = 0 /\ l = []) \/
        (m <> 0 /\ h_closed x = false /\ l <> [] /\ length l = Nat.min (N.to_nat m) (length (q s)))) in
  match o_res o with
  | RVals l => b = false /\ P l
  | RNVals l => b = true /\ P l
  | REmpty => m <> 0 /\ h_closed x = false /\ q s = [] /\ sc s <> 0 /\ unchanged_data s s'
  | RDisc => m <> 0 /\ unchanged_data s s' /\ (h_closed x = true \/ (q s = [] /\ sc s = 0))
  | _ => False
  end.

Lemma acc_wake_senders n : forall s, acc (wake_senders n s) = acc s.
Proof.
  induction n as [|n IH]; intros s; cbn [wake_senders]; [reflexivity|].
  rewrite IH. destruct (wake_one_send_frame s) as (_&_&_&_&_&_&_&_&A&_). exact A.
Qed.

Lemma try_recv_batch_spec s b h m :
  batch_recv_spec b s h m (fst (step s (TryRecvBatch b h m))) (snd (step s (TryRecvBatch b h m))).
Proof.
  unfold step. set (s1 := with_bad false (with_dk [] (with_wk [] s))).
  unfold batch_recv_spec. intros x Hg Hl Htx. change (getH h s1 = Some x) in Hg.
  rewrite Hg, Hl, Htx. cbn [negb]. cbv zeta.
  change (q s1) with (q s). change (sc s1) with (sc s).
  destruct (N.eqb_spec m 0) as [Em|Em].
  - destruct b; cbn [ret fst snd o_res]; (split; [reflexivity|]);
      (split; [reflexivity|]; split; [symmetry; apply app_nil_r|]; split; [reflexivity|]; left; auto).
  - destruct (h_closed x) eqn:Hc.
    + cbn [ret fst snd o_res]. split; [exact Em|]. split; [unfold unchanged_data; repeat split|]. auto.
    + destruct (Nat.min (N.to_nat m) (length (q s))) as [|k'] eqn:Ek.
      * assert (Hq : q s = []).
        { destruct (q s) as [|v t]; [reflexivity|]. cbn [length] in Ek. lia. }
        destruct (N.eqb_spec (sc s) 0) as [Es|Es]; cbn [ret fst snd o_res].
        -- split; [exact Em|]. split; [unfold unchanged_data; repeat split|]. auto.
        -- repeat split; auto.
      * destruct (same_wake_senders (N.to_nat m) (drain (S k') s1)) as (A & B & C).
        pose proof (acc_wake_senders (N.to_nat m) (drain (S k') s1)) as D.
        assert (Hl2 : firstn (S k') (q s) <> []).
        { destruct (q s) as [|v t]; [cbn [length] in Ek; lia | cbn; discriminate]. }
        assert (Hlen : length (firstn (S k') (q s)) = S k').
        { rewrite firstn_length. lia. }
        destruct b; cbn [ret fst snd o_res]; (split; [reflexivity|]);
          rewrite B, C, D; unfold drain; st_simpl;
          (split; [symmetry; apply firstn_skipn|]; split; [reflexivity|]; split; [reflexivity|]; right; auto).
Qed.
