(* Proofs/TicketK3Theorems.v — C01 / C02 theorems of the K3 ticket model, for every capacity, chunk
   size, table size, cadence, number of producers, programs and schedule. *)
From Fibre Require Import Common.Base Common.Conc Chan.TicketK3 Proofs.TicketK3Base Proofs.TicketK3Frame
  Proofs.TicketK3Prod Proofs.TicketK3Cons Proofs.TicketK3Safety Proofs.TicketK3Values Proofs.TicketK3ValSteps.
From Coq Require Import ZifyBool ZifyNat ZifyN Arith.

(* ---------------------------------------------------------------- order / NoDup of ticket-ordered lists *)
Lemma flat_vals_order (f : N -> tstat) k : forall a l1 v1 l2 v2 l3,
  flat_map (fun t => tk_val (f t)) (nrange a k) = l1 ++ v1 :: l2 ++ v2 :: l3 ->
  exists t1 t2, a <= t1 /\ t1 < t2 /\ t2 < a + N.of_nat k /\ f t1 = TSet v1 /\ f t2 = TSet v2.
Proof.
  induction k as [|k IH]; intros a l1 v1 l2 v2 l3 H; cbn [nrange flat_map] in H.
  - destruct l1; discriminate H.
  - assert (Hrec : flat_map (fun t => tk_val (f t)) (nrange (a + 1) k) = l1 ++ v1 :: l2 ++ v2 :: l3 ->
                   exists t1 t2, a <= t1 /\ t1 < t2 /\ t2 < a + N.of_nat (S k) /\ f t1 = TSet v1 /\ f t2 = TSet v2).
    { intros X. destruct (IH _ _ _ _ _ _ X) as [t1 [t2 [A [B [C [D E]]]]]]. exists t1, t2. repeat split; try assumption; lia. }
    destruct (f a) as [| |v|] eqn:Ea; cbn [tk_val app] in H; try (apply Hrec; exact H).
    destruct l1 as [|x l1]; cbn [app] in H; inversion H as [[Hv Hr]].
    + subst v1. assert (Hin : In v2 (flat_map (fun t => tk_val (f t)) (nrange (a + 1) k))).
      { rewrite Hr. apply in_or_app. right. left. reflexivity. }
      apply in_flat_map in Hin. destruct Hin as [t2 [Ht2 Hv2]]. apply in_nrange in Ht2.
      exists a, t2. repeat split; try lia; try assumption.
      destruct (f t2); cbn [tk_val In] in Hv2; try contradiction. destruct Hv2 as [->|[]]. reflexivity.
    + destruct (IH _ _ _ _ _ _ Hr) as [t1 [t2 [A [B [C [D E]]]]]]. exists t1, t2. repeat split; try assumption; lia.
Qed.

Lemma flat_vals_nodup (f : N -> tstat) :
  (forall t1 t2 v, f t1 = TSet v -> f t2 = TSet v -> t1 = t2) ->
  forall k a, NoDup (flat_map (fun t => tk_val (f t)) (nrange a k)).
Proof.
  intros Hinj. induction k as [|k IH]; intros a; cbn [nrange flat_map]; [constructor|].
  destruct (f a) as [| |v|] eqn:Ea; cbn [tk_val app]; try apply IH.
  constructor; [|apply IH]. intros Hin. apply in_flat_map in Hin. destruct Hin as [t2 [Ht2 Hv2]].
  apply in_nrange in Ht2. destruct (f t2) eqn:E2; cbn [tk_val In] in Hv2; try contradiction.
  destruct Hv2 as [->|[]]. pose proof (Hinj _ _ _ Ea E2). lia.
Qed.

Section Theorems.
Variables cap cc n kk : N.
Variable np : nat.
Hypothesis Hcc : 0 < cc.
Hypothesis Hn : 0 < n.
Variable pp0 : nat -> list pop.
Variable cp0 : list cop.

Notation S := (sys cap cc n kk np pp0 cp0).

(* the cursor as seen by `received`: one past pos while a taken payload waits for its EMPTY store *)
Definition rpos (s : st) : N := hpos s + (if taken (cpc s) then 1 else 0).

Lemma distinct_tickets_distinct_values s t1 t2 v :
  VInv s -> tk s t1 = TSet v -> tk s t2 = TSet v -> t1 = t2.
Proof.
  intros V H1 H2. destruct v as [th k].
  destruct (N.lt_trichotomy t1 t2) as [L|[E|L]]; [|exact E|].
  - pose proof (V_ord _ V _ _ _ _ _ H1 H2 L). lia.
  - pose proof (V_ord _ V _ _ _ _ _ H2 H1 L). lia.
Qed.

Lemma rpos_le_tail s : reachable S s -> rpos s <= gtail s.
Proof.
  intros Hr. destruct (Inv_reachable cap cc n kk np Hcc Hn pp0 cp0 s Hr) as [I V]. unfold rpos.
  pose proof (A_tail _ _ _ _ I). destruct (taken (cpc s)) eqn:Et; [|lia].
  destruct (taken_set cap cc n Hcc Hn s I Et) as [v Hv].
  destruct (N.lt_ge_cases (hpos s) (gtail s)) as [L|L]; [lia|]. apply (B_free _ _ _ _ I) in L. congruence.
Qed.

(* what the consumer has taken = the SET payloads of the tickets below the cursor, in ticket order *)
Theorem received_by_ticket s : reachable S s -> received s = vals_in s 0 (rpos s).
Proof.
  intros Hr. destruct (Inv_reachable cap cc n kk np Hcc Hn pp0 cp0 s Hr) as [I V].
  rewrite (V_recv _ V), vals_in_valsf. unfold rpos. destruct (taken (cpc s)).
  - rewrite valsf_snoc by lia. reflexivity.
  - rewrite N.add_0_r, app_nil_r. reflexivity.
Qed.

(* conservation + delivery in ticket order: the accepted payloads (SET tickets, in ticket order) are
   the received ones followed by the still buffered ones *)
Theorem accepted_is_received_then_buffered s :
  reachable S s -> accepted s = received s ++ vals_in s (rpos s) (gtail s).
Proof.
  intros Hr. rewrite (received_by_ticket s Hr). unfold accepted.
  apply vals_in_split; [lia | apply rpos_le_tail; exact Hr].
Qed.

Theorem accepted_nodup s : reachable S s -> NoDup (accepted s).
Proof.
  intros Hr. destruct (Inv_reachable cap cc n kk np Hcc Hn pp0 cp0 s Hr) as [I V].
  unfold accepted, vals_in. apply flat_vals_nodup. intros t1 t2 v. apply distinct_tickets_distinct_values. exact V.
Qed.

(* exactly once: no payload is taken twice *)
Theorem received_nodup s : reachable S s -> NoDup (received s).
Proof.
  intros Hr. destruct (Inv_reachable cap cc n kk np Hcc Hn pp0 cp0 s Hr) as [I V].
  rewrite (received_by_ticket s Hr). unfold vals_in. apply flat_vals_nodup.
  intros t1 t2 v. apply distinct_tickets_distinct_values. exact V.
Qed.

(* per-producer FIFO: payloads of one producer are accepted (ticket order) and received in the
   order of its calls *)
Theorem accepted_per_producer_fifo s l1 th k1 l2 k2 l3 :
  reachable S s -> accepted s = l1 ++ (th, k1) :: l2 ++ (th, k2) :: l3 -> k1 < k2.
Proof.
  intros Hr H. destruct (Inv_reachable cap cc n kk np Hcc Hn pp0 cp0 s Hr) as [I V].
  unfold accepted, vals_in in H. destruct (flat_vals_order _ _ _ _ _ _ _ _ H) as [t1 [t2 [_ [L [_ [H1 H2]]]]]].
  apply (V_ord _ V _ _ _ _ _ H1 H2 L).
Qed.

Theorem received_per_producer_fifo s l1 th k1 l2 k2 l3 :
  reachable S s -> received s = l1 ++ (th, k1) :: l2 ++ (th, k2) :: l3 -> k1 < k2.
Proof.
  intros Hr H. destruct (Inv_reachable cap cc n kk np Hcc Hn pp0 cp0 s Hr) as [I V].
  rewrite (received_by_ticket s Hr) in H. unfold vals_in in H.
  destruct (flat_vals_order _ _ _ _ _ _ _ _ H) as [t1 [t2 [_ [L [_ [H1 H2]]]]]].
  apply (V_ord _ V _ _ _ _ _ H1 H2 L).
Qed.

(* a thread's successive tickets increase: everything it has SET lies below what it owns now, and
   its SET tickets carry its op numbers in increasing order *)
Theorem producer_tickets_increase s th :
  reachable S s ->
  (forall t t2 k, tk s t = TSet (th, k) -> owns (ppc s th) t2 -> t < t2) /\
  (forall t1 t2 k1 k2, tk s t1 = TSet (th, k1) -> tk s t2 = TSet (th, k2) -> t1 < t2 -> k1 < k2).
Proof.
  intros Hr. destruct (Inv_reachable cap cc n kk np Hcc Hn pp0 cp0 s Hr) as [I V]. split.
  - intros t t2 k H1 H2. apply (B_own _ _ _ _ I) in H2. apply (V_own _ V _ _ _ _ H1 H2).
  - intros t1 t2 k1 k2. apply (V_ord _ V).
Qed.

(* API results vs. the channel: values returned by try_recv (+ the one in hand) = received *)
Theorem got_is_received s : reachable S s -> got s ++ chand s = received s.
Proof. intros Hr. apply (V_got _ (proj2 (Inv_reachable cap cc n kk np Hcc Hn pp0 cp0 s Hr))). Qed.

Lemma in_accepted s v : reachable S s -> (In v (accepted s) <-> exists t, tk s t = TSet v).
Proof.
  intros Hr. destruct (Inv_reachable cap cc n kk np Hcc Hn pp0 cp0 s Hr) as [I V].
  unfold accepted. rewrite in_vals_in. split.
  - intros [t [_ H]]. exists t. exact H.
  - intros [t H]. exists t. split; [|exact H]. split; [lia|].
    destruct (N.lt_ge_cases t (gtail s)) as [L|L]; [exact L|]. apply (B_free _ _ _ _ I) in L. congruence.
Qed.

(* a try_send that returned Ok put its payload into the channel *)
Theorem sent_ok_is_accepted s th v :
  reachable S s -> In v (sent_ok s th) -> In v (accepted s).
Proof.
  intros Hr Hin. destruct (Inv_reachable cap cc n kk np Hcc Hn pp0 cp0 s Hr) as [I V].
  unfold sent_ok in Hin. apply in_flat_map in Hin. destruct Hin as [r [Hr1 Hr2]].
  destruct r; cbn [pres_ok In] in Hr2; try contradiction. destruct Hr2 as [->|[]].
  destruct (V_res _ V _ _ Hr1) as [k [_ [[E [t Ht]]|[[E|E] _]]]]; try discriminate E.
  inversion E; subst. apply (in_accepted s _ Hr). exists t. exact Ht.
Qed.

(* nothing else is in the channel: an accepted payload belongs to a call that returned Ok for it, or
   is one of the `done_of` items of the call in progress whose SET store is already done *)
Theorem accepted_is_sent_or_in_flight s th k :
  reachable S s -> In (th, k) (accepted s) ->
  In (th, k) (sent_ok s th) \/ (pseq s th < k <= pseq s th + done_of (ppc s th)).
Proof.
  intros Hr Hin. destruct (Inv_reachable cap cc n kk np Hcc Hn pp0 cp0 s Hr) as [I V].
  apply (in_accepted s _ Hr) in Hin. destruct Hin as [t Ht].
  destruct (V_set _ V _ _ _ Ht) as [_ [Y Z]].
  destruct (N.le_gt_cases k (pseq s th)) as [L|L].
  - left. unfold sent_ok. apply in_flat_map. exists (POk (th, k)). split; [apply Z; exact L | left; reflexivity].
  - right. lia.
Qed.

(* .. and conversely every item the call in progress has completed is in the channel *)
Theorem in_flight_is_accepted s th i :
  reachable S s -> i < done_of (ppc s th) -> In (th, pseq s th + 1 + i) (accepted s).
Proof.
  intros Hr Hi. destruct (Inv_reachable cap cc n kk np Hcc Hn pp0 cp0 s Hr) as [I V].
  apply (in_accepted s _ Hr). apply (V_fly _ V _ _ Hi).
Qed.

(* a try_send that returned Full or Closed handed its value back and left no SET in the channel *)
Theorem failed_send_no_effect s th v :
  reachable S s -> In v (failed s th) -> ~ In v (accepted s).
Proof.
  intros Hr Hin Hacc. destruct (Inv_reachable cap cc n kk np Hcc Hn pp0 cp0 s Hr) as [I V].
  unfold failed in Hin. apply in_flat_map in Hin. destruct Hin as [r [Hr1 Hr2]].
  apply (in_accepted s _ Hr) in Hacc. destruct Hacc as [t Ht].
  destruct (V_res _ V _ _ Hr1) as [k [_ [[E _]|[E Hno]]]].
  - subst r. cbn [pres_fail In] in Hr2. contradiction.
  - destruct E as [E|E]; subst r; cbn [pres_fail In] in Hr2; destruct Hr2 as [<-|[]]; apply (Hno t Ht).
Qed.

(* the results of one producer are its op numbers 1 .. pseq (each call returns once) *)
Theorem results_are_own_ops s th r :
  reachable S s -> In r (presl s th) ->
  exists k, 1 <= k <= pseq s th /\ (r = POk (th, k) \/ r = PFull (th, k) \/ r = PClosed (th, k)).
Proof.
  intros Hr Hin. destruct (Inv_reachable cap cc n kk np Hcc Hn pp0 cp0 s Hr) as [I V].
  destruct (V_res _ V _ _ Hin) as [k [Hk [[E _]|[[E|E] _]]]]; exists k; auto.
Qed.

(* a SKIP tombstone never carries a payload *)
Theorem skip_has_no_payload s j i :
  reachable S s -> j < n -> i < cc -> sstate s (j * cc + i) = sSKIP -> sdata s (j * cc + i) = None.
Proof.
  intros Hr Hj Hi Hs. destruct (Inv_reachable cap cc n kk np Hcc Hn pp0 cp0 s Hr) as [I V].
  pose proof (E_slot _ _ _ _ I j i Hj Hi) as E. cbv zeta in E. destruct E as [E1 E2].
  rewrite E2. rewrite Hs in E1. destruct (N.ltb (ids s j * cc + i) (hpos s)); [reflexivity|].
  unfold dataof. destruct (tk s (ids s j * cc + i)); try reflexivity; discriminate E1.
Qed.

End Theorems.
