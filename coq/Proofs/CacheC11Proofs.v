(* Proofs/CacheC11Proofs.v — C11: the cache refines the per-key register that may forget. *)
From Fibre Require Import Common.Base Cache.PolicySpec Cache.AMap Cache.CacheOps Cache.CacheSpec
     Proofs.AMapProofs Proofs.CacheCoreProofs Proofs.CacheStepProofs.

Section C11.
  Set Default Proof Using "All".
  Variable P : policy.
  Variable c : cfg.
  Hypothesis Hn : 0 < c_shards c.

  Notation state := (state P).
  Notation find := (find P c).
  Notation wfp := (wfp P c).

  (* what the cache holds is what the register holds *)
  Definition inv11 (s : state) (r : reg) : Prop :=
    forall k e, find s k = Some e -> r k = Some (e_val e).

  Lemma inv11_sub s s' r :
    (forall k e', find s' k = Some e' -> exists e, find s k = Some e /\ e_val e = e_val e') ->
    inv11 s r -> inv11 s' r.
  Proof. intros H I k e' Hf. destruct (H k e' Hf) as [e [Hf0 <-]]. apply I. exact Hf0. Qed.

  Lemma inv11_refr s s' r : refr P c s s' -> inv11 s r -> inv11 s' r.
  Proof.
    intros Hr. apply inv11_sub. intros k e' Hf.
    destruct (refr_find_back P c Hn s s' k e' Hr Hf) as [e [H1 [H2 _]]]. eauto.
  Qed.

  Lemma inv11_mstep s s' D dcc r : mstep P c s s' D dcc -> inv11 s r -> inv11 s' r.
  Proof.
    intros Hm. apply inv11_sub. intros k e' Hf. rewrite (find_mstep P c Hn _ _ _ _ k Hm) in Hf.
    destruct (mem k (dkeys (shard_of c k) D)); [discriminate | eauto].
  Qed.

  Lemma inv11_same s s' r : (forall j, smap P s' j = smap P s j) -> inv11 s r -> inv11 s' r.
  Proof. intros M. apply inv11_sub. intros k e' Hf. rewrite !find_smap, M in *. eauto. Qed.

  Lemma inv11_write s s' r k e dcc de :
    ueff P s s' (shard_of c k) (aput k e (smap P s (shard_of c k))) dcc de ->
    inv11 s r -> inv11 s' (rset r k (Some (e_val e))).
  Proof.
    intros H I k' e' Hf. rewrite (find_ueff_aput P c Hn _ _ _ _ _ _ k' H) in Hf. unfold rset.
    destruct (N.eqb_spec k' k) as [->|Hne]; [inversion Hf; subst; reflexivity | apply I; exact Hf].
  Qed.

  Lemma rset_fold_notin ks : forall (r : reg) k, ~ In k ks -> fold_left (fun r k => rset r k None) ks r k = r k.
  Proof.
    induction ks as [|k0 t IH]; intros r k Hni; cbn [fold_left]; [reflexivity|].
    rewrite IH by (intros Hi; apply Hni; right; exact Hi). unfold rset.
    destruct (N.eqb_spec k k0) as [->|]; [exfalso; apply Hni; left; reflexivity | reflexivity].
  Qed.

  Lemma c11_multi_insert items : forall s r,
    wfp s -> inv11 s r ->
    inv11 (do_multi_insert P c s items)
          (fold_left (fun r it => rset r (fst (fst it)) (Some (snd (fst it)))) items r).
  Proof.
    unfold do_multi_insert. induction items as [|[[k v] cost] t IH]; intros s r Hw HI; cbn [fold_left fst snd]; [exact HI|].
    destruct (insert_core_ueff P c s k v cost (ttl_exp c (st_now P s)) (c_ttl c)) as [h H]. cbn zeta in H.
    apply IH.
    - eapply ueff_aput_wfp; eassumption.
    - apply (inv11_write _ _ _ _ _ _ _ H HI).
  Qed.

  Lemma c11_read hit s r k :
    inv11 s r ->
    reads_ok r k (snd (do_read P c hit s k)) /\ inv11 (fst (do_read P c hit s k)) r.
  Proof.
    intros HI. pose proof (do_read_spec P c Hn hit s k) as H.
    destruct (find s k) as [e|] eqn:Ef; [destruct (expired c (st_now P s) e)|].
    - rewrite H. cbn [fst snd reads_ok]. auto.
    - destruct H as [Hv Hr]. rewrite Hv. cbn [reads_ok]. split; [apply HI; exact Ef | eapply inv11_refr; eassumption].
    - rewrite H. cbn [fst snd reads_ok]. auto.
  Qed.

  Lemma c11_remove s r k :
    inv11 s r ->
    reads_ok r k (snd (do_remove P c s k))
    /\ (snd (do_remove P c s k) <> None -> r k <> None)
    /\ inv11 (fst (do_remove P c s k)) (rset r k None).
  Proof.
    intros HI. pose proof (do_remove_mstepx P c s k Hn) as H. destruct (find s k) as [e|] eqn:Ef.
    - destruct (do_remove P c s k) as [s' o]. cbn [fst snd] in *. destruct H as [[H _] ->]. cbn [reads_ok].
      split; [apply HI; exact Ef|]. split; [intros _; rewrite (HI k e Ef); discriminate|].
      intros k' e' Hf'. rewrite (find_mstep P c Hn _ _ _ _ k' H) in Hf'.
      cbn [dkeys filter d_sh map d_key] in Hf'. unfold rset. destruct (N.eqb_spec k' k) as [->|Hne].
      + rewrite N.eqb_refl in Hf'. cbn [map d_key mem existsb] in Hf'. rewrite N.eqb_refl in Hf'. discriminate.
      + apply HI. destruct (mem k' _); [discriminate | exact Hf'].
    - rewrite H. cbn [fst snd reads_ok]. split; [exact I|]. split; [intros Hx; congruence|].
      intros k' e' Hf'. unfold rset. destruct (N.eqb_spec k' k) as [->|]; [congruence | apply HI; exact Hf'].
  Qed.

  Lemma c11_compute s r k f :
    inv11 s r ->
    match snd (do_compute P c s k f) with
    | Some old => r k = Some old /\ inv11 (fst (do_compute P c s k f)) (rset r k (Some (capply f old)))
    | None => fst (do_compute P c s k f) = s
    end.
  Proof.
    intros HI. pose proof (do_compute_ueff P c s k f) as H. cbn zeta in H.
    destruct (computable P c s k) as [e|].
    - destruct (do_compute P c s k f) as [s' o]. cbn [fst snd] in *. destruct H as [H [-> Hf]].
      split; [apply HI; exact Hf|].
      intros k' e' Hf'. rewrite (find_ueff_aset P c Hn _ _ _ _ _ _ k' H) in Hf'. unfold rset.
      destruct (N.eqb_spec k' k) as [->|]; [rewrite Hf in Hf'; inversion Hf'; reflexivity | apply HI; exact Hf'].
    - rewrite H. reflexivity.
  Qed.

  Lemma c11_multiget rd s r ks :
    rd_ok P c rd -> inv11 s r ->
    pairs_ok r ks (snd (do_multiget_gen P rd s ks [])) /\ inv11 (fst (do_multiget_gen P rd s ks [])) r.
  Proof.
    intros Hrd HI. destruct (do_multiget_gen P rd s ks []) as [s' l] eqn:E. cbn [fst snd].
    destruct (multiget_gen_spec P c Hn _ Hrd ks s [] s' l E) as [Hr [Hin _]].
    split; [|eapply inv11_refr; eassumption].
    intros k v Hi. destruct (Hin k v Hi) as [[]|[Hk [e [Hf [_ <-]]]]]. split; [exact Hk | apply HI; exact Hf].
  Qed.

  Lemma c11_multi_remove s r ks :
    inv11 s r ->
    pairs_ok r ks (snd (do_multi_remove P c s ks []))
    /\ inv11 (fst (do_multi_remove P c s ks [])) (fold_left (fun r k => rset r k None) ks r).
  Proof.
    intros HI. destruct (do_multi_remove P c s ks []) as [s' l] eqn:E. cbn [fst snd].
    destruct (do_multi_remove_spec P c Hn ks s [] s' l E) as [D [dcc [[H _] [_ [Hinv [Hks [-> Hgone]]]]]]].
    split.
    - intros k v Hi. cbn [rev app] in Hi. apply in_map_iff in Hi. destruct Hi as [d [Hd Hi]]. inversion Hd; subst.
      unfold inval_of in Hinv. rewrite Forall_forall in Hks, Hinv. split; [apply Hks; exact Hi|].
      apply HI. destruct H as [_ [_ [_ [_ [_ [_ F]]]]]]. specialize (F d Hi).
      rewrite find_smap. destruct (Hinv d Hi) as [_ <-]. exact F.
    - intros k' e' Hf'. assert (Hni : ~ In k' ks) by (intros Hi; rewrite (Hgone k' Hi) in Hf'; discriminate).
      rewrite rset_fold_notin by exact Hni. apply HI.
      rewrite (find_mstep P c Hn _ _ _ _ k' H) in Hf'. destruct (mem k' _); [discriminate | exact Hf'].
  Qed.

  Lemma c11_step s r o :
    wfp s -> inv11 s r ->
    let '(s', x) := step P c s o in
    let '(r', ok) := reg_step r o x in
    ok /\ inv11 s' r'.
  Proof.
    intros Hw HI. destruct o; cbn [step reg_step].
    - destruct (do_insert_ueff P c Hn s k v c0) as [h H]. cbn zeta in H. split; [reflexivity|].
      apply (inv11_write _ _ _ _ _ _ _ H HI).
    - destruct (do_insert_ttl_ueff P c Hn s k v c0 d) as [h H]. cbn zeta in H. split; [reflexivity|].
      apply (inv11_write _ _ _ _ _ _ _ H HI).
    - pose proof (c11_read true s r k HI) as H. destruct (do_read P c true s k). exact H.
    - pose proof (c11_read true s r k HI) as H. destruct (do_read P c true s k). exact H.
    - pose proof (c11_read false s r k HI) as H. destruct (do_read P c false s k). exact H.
    - (* or_insert *)
      unfold do_or_insert. pose proof (occupied_spec P c Hn s k) as Ho.
      destruct (occupied P c s k) as [e|].
      + destruct Ho as [Hf _]. rewrite (HI k e Hf), N.eqb_refl. split; [exact I | exact HI].
      + pose proof (vacant_insert_ueff' P c Hn s k v c0) as H. cbn zeta in H.
        pose proof (inv11_write _ _ _ _ _ _ _ H HI) as HI'. cbn [e_val] in HI'.
        destruct (r k) as [w|] eqn:Er; [destruct (N.eqb_spec w v) as [->|Hne]|].
        * split; [exact I|]. intros k' e' Hf. specialize (HI' k' e' Hf). unfold rset in HI'.
          destruct (N.eqb_spec k' k) as [->|]; congruence.
        * split; [reflexivity | exact HI'].
        * split; [reflexivity | exact HI'].
    - pose proof (occupied_spec P c Hn s k) as Ho. destruct (occupied P c s k) as [e|]; cbn [reads_ok].
      + split; [apply HI; apply Ho | exact HI].
      + split; [exact I | exact HI].
    - pose proof (c11_compute s r k f HI) as H. destruct (do_compute P c s k f) as [s' [old|]]; cbn [fst snd] in H.
      + destruct H as [Hr H]. rewrite Hr. cbn [option_map]. split; [discriminate | exact H].
      + subst s'. split; [exact I | exact HI].
    - pose proof (c11_compute s r k f HI) as H. destruct (do_compute P c s k f) as [s' [old|]]; cbn [fst snd] in H.
      + destruct H as [Hr H]. split; [exact Hr | exact H].
      + subst s'. split; [exact I | exact HI].
    - pose proof (c11_remove s r k HI) as H. destruct (do_remove P c s k) as [s' o]. cbn [fst snd] in H. tauto.
    - pose proof (c11_remove s r k HI) as H. destruct (do_remove P c s k) as [s' o]. cbn [fst snd] in H.
      destruct H as [_ [H1 H2]]. split; [|exact H2]. intros Hb. apply H1. destruct o; [discriminate | discriminate Hb].
    - split; [reflexivity|]. intros k e Hf. rewrite (do_clear_find P c Hn) in Hf. discriminate.
    - pose proof (c11_multiget _ s r ks (do_read_rd_ok P c Hn true) HI) as H.
      destruct (do_multiget_gen P (do_read P c true) s ks []). exact H.
    - pose proof (c11_multiget _ s r ks (do_read_direct_rd_ok P c Hn) HI) as H.
      destruct (do_multiget_gen P (do_read_direct P c) s ks []). exact H.
    - split; [reflexivity | apply c11_multi_insert; assumption].
    - pose proof (c11_multi_remove s r ks HI) as H. destruct (do_multi_remove P c s ks []). exact H.
    - pose proof (c11_multi_remove s r ks HI) as H. destruct (do_multi_remove P c s ks []). cbn [fst snd] in *.
      split; [reflexivity | apply H].
    - destruct (run_maintenance_mstepx P c ord s Hw) as [D [dcc [[H _] _]]].
      split; [reflexivity | eapply inv11_mstep; eassumption].
    - destruct (janitor_tick_mstepx P c i ord s Hw) as [D [dcc [[H _] _]]].
      split; [reflexivity | eapply inv11_mstep; eassumption].
    - destruct (janitor_signal_mstepx P c i ord s Hw) as [D [dcc [[H _] _]]].
      split; [reflexivity | eapply inv11_mstep; eassumption].
    - split; [reflexivity|]. eapply inv11_same; [|exact HI]. intros j. reflexivity.
    - split; [exact I|]. eapply inv11_same; [|exact HI]. apply (flush_intro_spec P c Hn).
    - split; [reflexivity|]. eapply inv11_same; [|exact HI]. apply (do_deliver_spec P c Hn).
  Qed.

  Theorem c11_accepts ops : forall s r,
    wfp s -> inv11 s r -> accepts r (combine ops (snd (run P c s ops))).
  Proof.
    induction ops as [|o t IH]; intros s r Hw HI; cbn [run]; [exact I|].
    pose proof (c11_step s r o Hw HI) as H1. pose proof (step_wfp P c Hn s o Hw) as Hw1.
    destruct (step P c s o) as [s1 x]. cbn [fst] in Hw1.
    specialize (IH s1). destruct (run P c s1 t) as [s2 xs] eqn:Er. cbn [snd combine accepts] in *.
    destruct (reg_step r o x) as [r' ok]. destruct H1 as [Hok HI1]. split; [exact Hok|].
    apply IH; assumption.
  Qed.

  Theorem c11_seq now0 ops :
    accepts (fun _ => None) (combine ops (snd (run P c (init P now0) ops))).
  Proof.
    apply c11_accepts; [apply init_wfp; exact Hn|]. intros k e Hf. discriminate.
  Qed.

  (* compute / try_compute(_val): read-modify-write of one key on one state *)
  Lemma c11_compute_rmw s k f :
    match snd (do_compute P c s k f) with
    | Some old =>
        exists e, find s k = Some e /\ e_val e = old
                  /\ find (fst (do_compute P c s k f)) k
                     = Some (mkE (capply f old) (e_cost e) (e_exp e) (e_la e) (e_timer e) (e_id e))
                  /\ forall k', k' <> k -> find (fst (do_compute P c s k f)) k' = find s k'
    | None => fst (do_compute P c s k f) = s
    end.
  Proof.
    pose proof (do_compute_ueff P c s k f) as H. cbn zeta in H.
    destruct (computable P c s k) as [e|].
    - destruct (do_compute P c s k f) as [s' o]. cbn [fst snd] in *. destruct H as [H [-> Hf]].
      exists e. split; [exact Hf|]. split; [reflexivity|]. split.
      + rewrite (find_ueff_aset P c Hn _ _ _ _ _ _ k H), N.eqb_refl, Hf. reflexivity.
      + intros k' Hne. rewrite (find_ueff_aset P c Hn _ _ _ _ _ _ k' H).
        destruct (N.eqb_spec k' k); [contradiction | reflexivity].
    - rewrite H. reflexivity.
  Qed.

  (* or_insert: an entry that a read would return is never overwritten, the state is untouched *)
  Lemma c11_or_insert_once s k v cost hit old :
    snd (do_read P c hit s k) = Some old ->
    do_or_insert P c s k v cost = (s, RVal old).
  Proof.
    intros Hr. unfold do_or_insert, occupied. unfold do_read in Hr.
    destruct (find s k) as [e|]; [|discriminate].
    destruct (expired c (st_now P s) e); [discriminate|]. rewrite andb_false_r.
    cbn [snd] in Hr. inversion Hr; subst. reflexivity.
  Qed.
End C11.
