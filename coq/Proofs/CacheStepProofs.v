(* Proofs/CacheStepProofs.v — what each operation of Cache/CacheOps.v does, in
   terms of the effect shapes of CacheCoreProofs.v (ueff / mstepx / refr);
   well-formedness is preserved by every operation. *)
From Fibre Require Import Common.Base Cache.PolicySpec Cache.AMap Cache.CacheOps Cache.CacheSpec
     Proofs.AMapProofs Proofs.CacheCoreProofs.

Section Steps.
  Set Default Proof Using "All".
  Variable P : policy.
  Variable c : cfg.
  Hypothesis Hn : 0 < c_shards c.

  Notation state := (state P).
  Notation smap := (smap P).
  Notation sent := (sent P).
  Notation find := (find P c).
  Notation ueff := (ueff P).
  Notation mstep := (mstep P c).
  Notation mstepx := (mstepx P c).
  Notation wfp := (wfp P c).

  (** ** find after an effect *)
  Lemma find_ueff s s' i m' dcc de k :
    ueff s s' i m' dcc de -> find s' k = if N.eqb (shard_of c k) i then afind k m' else find s k.
  Proof.
    intros [M _]. rewrite !find_smap, M. destruct (N.eqb (shard_of c k) i); reflexivity.
  Qed.

  Lemma find_ueff_aput s s' k0 e dcc de k :
    ueff s s' (shard_of c k0) (aput k0 e (smap s (shard_of c k0))) dcc de ->
    find s' k = if N.eqb k k0 then Some e else find s k.
  Proof.
    intros H. rewrite (find_ueff _ _ _ _ _ _ k H).
    destruct (N.eqb_spec k k0) as [->|Hne].
    - rewrite N.eqb_refl. apply afind_aput_same.
    - destruct (N.eqb_spec (shard_of c k) (shard_of c k0)) as [He|]; [|reflexivity].
      rewrite afind_aput_other by exact Hne. rewrite find_smap, He. reflexivity.
  Qed.

  Lemma find_ueff_aset s s' k0 e dcc de k :
    ueff s s' (shard_of c k0) (aset k0 e (smap s (shard_of c k0))) dcc de ->
    find s' k = if N.eqb k k0 then match find s k0 with Some _ => Some e | None => None end else find s k.
  Proof.
    intros H. rewrite (find_ueff _ _ _ _ _ _ k H).
    destruct (N.eqb_spec k k0) as [->|Hne].
    - rewrite N.eqb_refl. rewrite afind_aset_same. reflexivity.
    - destruct (N.eqb_spec (shard_of c k) (shard_of c k0)) as [He|]; [|reflexivity].
      rewrite afind_aset_other by exact Hne. rewrite find_smap, He. reflexivity.
  Qed.

  Lemma find_ueff_same s s' i dcc de k : ueff s s' i (smap s i) dcc de -> find s' k = find s k.
  Proof.
    intros H. rewrite (find_ueff _ _ _ _ _ _ k H).
    destruct (N.eqb_spec (shard_of c k) i) as [<-|]; reflexivity.
  Qed.

  Lemma find_mstep s s' D dcc k :
    mstep s s' D dcc -> find s' k = if mem k (dkeys (shard_of c k) D) then None else find s k.
  Proof. intros [M _]. rewrite !find_smap, M. apply afind_adel_all. Qed.

  (** ** well-formedness *)
  Lemma ueff_wfp s s' i m' dcc de :
    ueff s s' i m' dcc de -> NoDup (akeys m') -> (forall k, In k (akeys m') -> shard_of c k = i) ->
    wfp s -> wfp s'.
  Proof.
    intros [M _] Hnd Hpl [Hw Hp]. split.
    - intros j. rewrite M. destruct (N.eqb j i); [exact Hnd | apply Hw].
    - intros j k Hk. rewrite M in Hk. destruct (N.eqb_spec j i) as [->|]; [apply Hpl; exact Hk | apply Hp; exact Hk].
  Qed.

  Lemma ueff_aput_wfp s s' k e dcc de :
    ueff s s' (shard_of c k) (aput k e (smap s (shard_of c k))) dcc de -> wfp s -> wfp s'.
  Proof.
    intros H Hw. eapply ueff_wfp; [exact H | apply aput_NoDup; apply Hw | | exact Hw].
    intros k' Hk. unfold aput in Hk. destruct (ahas k (smap s (shard_of c k))).
    - rewrite akeys_aset in Hk. apply (proj2 Hw). exact Hk.
    - destruct Hk as [<-|Hk]; [reflexivity | apply (proj2 Hw); exact Hk].
  Qed.

  Lemma ueff_aset_wfp s s' i k e dcc de :
    ueff s s' i (aset k e (smap s i)) dcc de -> wfp s -> wfp s'.
  Proof.
    intros H Hw. eapply ueff_wfp; [exact H | apply aset_NoDup; apply Hw | | exact Hw].
    intros k' Hk. rewrite akeys_aset in Hk. apply (proj2 Hw). exact Hk.
  Qed.

  Lemma ueff_same_wfp s s' i dcc de : ueff s s' i (smap s i) dcc de -> wfp s -> wfp s'.
  Proof.
    intros H Hw. eapply ueff_wfp; [exact H | apply Hw | | exact Hw]. intros k Hk. apply (proj2 Hw). exact Hk.
  Qed.

  Lemma init_wfp now0 : wfp (init P now0).
  Proof. split; [intros j; constructor | intros j k []]. Qed.

  (** ** inserts *)
  Lemma ueff_then_perform s s1 i m d e j lim ord :
    ueff s s1 i m d e -> ueff s (perform P c j lim ord s1) i m d e.
  Proof.
    intros H. pose proof (perform_ueff P c j lim ord s1 i) as H2.
    assert (Hm : smap s1 i = m) by (destruct H as [M _]; rewrite M, N.eqb_refl; reflexivity).
    rewrite Hm in H2. replace d with (d + 0)%Z by lia. replace e with (e + 0) by lia.
    eapply ueff_trans; eassumption.
  Qed.

  Definition old_cost (s : state) (k : N) : Z :=
    match find s k with Some o => Z.of_N (e_cost o) | None => 0%Z end.

  Definition la0 (s : state) : N := match c_tti c with Some _ => st_now P s | None => 0 end.

  Lemma do_insert_ueff s k v cost :
    exists h, let e := mkE v cost (ttl_exp c (st_now P s)) (la0 s) h (st_eid P s) in
    ueff s (do_insert P c s k v cost) (shard_of c k) (aput k e (smap s (shard_of c k)))
         (Z.of_N cost - old_cost s k) 1.
  Proof.
    unfold do_insert, opportunistic.
    destruct (insert_core_ueff P c s k v cost (ttl_exp c (st_now P s)) (c_ttl c)) as [h H]. exists h. cbn zeta in *.
    destruct (c_opp c); [apply ueff_then_perform|]; exact H.
  Qed.

  Lemma do_insert_ttl_ueff s k v cost d :
    exists h, let e := mkE v cost (st_now P s + d) (la0 s) h (st_eid P s) in
    ueff s (do_insert_ttl P c s k v cost d) (shard_of c k) (aput k e (smap s (shard_of c k)))
         (Z.of_N cost - old_cost s k) 1.
  Proof.
    unfold do_insert_ttl, opportunistic.
    destruct (insert_core_ueff P c s k v cost (st_now P s + d) (Some d)) as [h H]. exists h. cbn zeta in *.
    destruct (c_opp c); [apply ueff_then_perform|]; exact H.
  Qed.

  (** ** reads only refresh *)
  Definition rel_entry (s : state) (o o' : option entry) : Prop :=
    match o, o' with
    | None, None => True
    | Some e, Some e' => e' = e \/ (e' = refreshed P c s e /\ expired c (st_now P s) e = false)
    | _, _ => False
    end.

  Definition refr (s s' : state) : Prop :=
    (forall j, akeys (smap s' j) = akeys (smap s j))
    /\ (forall j k, rel_entry s (afind k (smap s j)) (afind k (smap s' j)))
    /\ st_cc P s' = st_cc P s /\ st_now P s' = st_now P s /\ st_eid P s' = st_eid P s
    /\ sent s' = sent s /\ st_ndrops P s' = st_ndrops P s.

  Lemma rel_entry_refl s o : rel_entry s o o.
  Proof. destruct o; cbn; auto. Qed.

  Lemma refr_refl s : refr s s.
  Proof. repeat split; auto. intros j k. apply rel_entry_refl. Qed.

  Lemma refreshed_idem s s1 e : st_now P s1 = st_now P s -> refreshed P c s1 (refreshed P c s e) = refreshed P c s e.
  Proof. intros Hn'. unfold refreshed. destruct (c_tti c); [cbn; rewrite Hn'|]; reflexivity. Qed.

  Lemma refreshed_now s s1 e : st_now P s1 = st_now P s -> refreshed P c s1 e = refreshed P c s e.
  Proof. intros Hn'. unfold refreshed. rewrite Hn'. reflexivity. Qed.

  Lemma refr_trans s s1 s2 : refr s s1 -> refr s1 s2 -> refr s s2.
  Proof.
    intros [K1 [R1 [C1 [N1 [E1 [S1 D1]]]]]] [K2 [R2 [C2 [N2 [E2 [S2 D2]]]]]].
    split; [intros j; rewrite K2; apply K1|]. split; [|repeat split; congruence].
    intros j k. specialize (R1 j k). specialize (R2 j k). unfold rel_entry in *.
    destruct (afind k (smap s j)) as [e|], (afind k (smap s1 j)) as [e1|], (afind k (smap s2 j)) as [e2|];
      try contradiction; auto.
    destruct R1 as [->|[-> Hx]], R2 as [->|[-> Hy]]; auto.
    - right. rewrite (refreshed_now s s1) by exact N1. rewrite N1 in Hy. auto.
    - right. rewrite refreshed_idem by exact N1. auto.
  Qed.

  Lemma refr_wfp s s' : refr s s' -> wfp s -> wfp s'.
  Proof.
    intros [K _] [Hw Hp]. split.
    - intros j. rewrite K. apply Hw.
    - intros j k Hk. rewrite K in Hk. apply Hp. exact Hk.
  Qed.

  Lemma ueff_refresh_refr s s' k e :
    find s k = Some e -> expired c (st_now P s) e = false ->
    ueff s s' (shard_of c k)
         (match c_tti c with Some _ => aset k (refreshed P c s e) (smap s (shard_of c k)) | None => smap s (shard_of c k) end) 0 0 ->
    refr s s'.
  Proof.
    intros Hf Hx [M [C [N [E [S D]]]]]. split; [|split].
    - intros j. rewrite M. destruct (N.eqb_spec j (shard_of c k)) as [->|]; [|reflexivity].
      destruct (c_tti c); [apply akeys_aset | reflexivity].
    - intros j k'. rewrite M. destruct (N.eqb_spec j (shard_of c k)) as [->|]; [|apply rel_entry_refl].
      destruct (c_tti c) eqn:Et; [|apply rel_entry_refl].
      destruct (N.eq_dec k' k) as [->|Hne].
      + rewrite afind_aset_same. rewrite find_smap in Hf. rewrite Hf. cbn. right. auto.
      + rewrite afind_aset_other by exact Hne. apply rel_entry_refl.
    - repeat split; try assumption; lia.
  Qed.

  Lemma do_read_spec hit s k :
    match find s k with
    | Some e => if expired c (st_now P s) e then do_read P c hit s k = (s, None)
                else snd (do_read P c hit s k) = Some (e_val e) /\ refr s (fst (do_read P c hit s k))
    | None => do_read P c hit s k = (s, None)
    end.
  Proof.
    unfold do_read. destruct (find s k) as [e|] eqn:Ef; [|reflexivity].
    destruct (expired c (st_now P s) e) eqn:Ex; [reflexivity|]. cbn [fst snd]. split; [reflexivity|].
    destruct hit; [|apply refr_refl].
    eapply ueff_refresh_refr; [exact Ef | exact Ex | apply on_hit_ueff].
  Qed.

  Lemma do_read_direct_spec s k :
    match find s k with
    | Some e => if expired c (st_now P s) e then do_read_direct P c s k = (s, None)
                else snd (do_read_direct P c s k) = Some (e_val e) /\ refr s (fst (do_read_direct P c s k))
    | None => do_read_direct P c s k = (s, None)
    end.
  Proof.
    unfold do_read_direct. destruct (find s k) as [e|] eqn:Ef; [|reflexivity].
    destruct (expired c (st_now P s) e) eqn:Ex; [reflexivity|]. cbn [fst snd]. split; [reflexivity|].
    eapply ueff_refresh_refr; [exact Ef | exact Ex | apply on_hit_direct_ueff].
  Qed.

  (* a read primitive: get/fetch's hit path, or the async multiget's *)
  Definition rd_ok (rd : state -> N -> state * option N) : Prop :=
    forall s k,
      (forall k', k' <> k -> find (fst (rd s k)) k' = find s k')
      /\ match find s k with
         | Some e => if expired c (st_now P s) e then rd s k = (s, None)
                     else snd (rd s k) = Some (e_val e) /\ refr s (fst (rd s k))
         | None => rd s k = (s, None)
         end.

  Lemma on_hit_frame s k e k' : k' <> k -> find (on_hit P c s k e) k' = find s k'.
  Proof.
    intros Hne. pose proof (on_hit_ueff P c s k e) as H. cbn zeta in H.
    destruct (c_tti c).
    - rewrite (find_ueff_aset _ _ _ _ _ _ k' H). destruct (N.eqb_spec k' k); [contradiction | reflexivity].
    - apply (find_ueff_same _ _ _ _ _ k' H).
  Qed.

  Lemma on_hit_direct_frame s k e k' : k' <> k -> find (on_hit_direct P c s k e) k' = find s k'.
  Proof.
    intros Hne. pose proof (on_hit_direct_ueff P c s k e) as H. cbn zeta in H.
    destruct (c_tti c).
    - rewrite (find_ueff_aset _ _ _ _ _ _ k' H). destruct (N.eqb_spec k' k); [contradiction | reflexivity].
    - apply (find_ueff_same _ _ _ _ _ k' H).
  Qed.

  Lemma do_read_rd_ok hit : rd_ok (do_read P c hit).
  Proof.
    intros s k. split; [|apply do_read_spec].
    intros k' Hne. unfold do_read. destruct (find s k) as [e|]; [|reflexivity].
    destruct (expired c (st_now P s) e); [reflexivity|]. cbn [fst].
    destruct hit; [apply on_hit_frame; exact Hne | reflexivity].
  Qed.

  Lemma do_read_direct_rd_ok : rd_ok (do_read_direct P c).
  Proof.
    intros s k. split; [|apply do_read_direct_spec].
    intros k' Hne. unfold do_read_direct. destruct (find s k) as [e|]; [|reflexivity].
    destruct (expired c (st_now P s) e); [reflexivity|]. cbn [fst]. apply on_hit_direct_frame. exact Hne.
  Qed.

  (* what a refreshing step keeps of an entry *)
  Lemma refr_find_back s s1 k e1 :
    refr s s1 -> find s1 k = Some e1 ->
    exists e, find s k = Some e /\ e_val e = e_val e1 /\ e_id e = e_id e1 /\ e_cost e = e_cost e1 /\ e_exp e = e_exp e1
              /\ (expired c (st_now P s) e1 = false -> expired c (st_now P s) e = false).
  Proof.
    intros [_ [R _]] Hf. specialize (R (shard_of c k) k). rewrite !find_smap in *. rewrite Hf in R.
    unfold rel_entry in R. destruct (afind k (smap s (shard_of c k))) as [e|]; [|contradiction].
    exists e. split; [reflexivity|]. destruct R as [->|[-> Hx]]; [repeat split; auto|].
    unfold refreshed. destruct (c_tti c); cbn; repeat split; auto.
  Qed.

  Lemma multiget_gen_spec rd : rd_ok rd -> forall ks s acc s' l,
    do_multiget_gen P rd s ks acc = (s', l) ->
    refr s s'
    /\ (forall k v, In (k, v) l ->
                    In (k, v) acc \/ (In k ks /\ exists e, find s k = Some e /\ expired c (st_now P s) e = false /\ e_val e = v))
    /\ (forall k e, In k ks -> find s k = Some e -> expired c (st_now P s) e = false -> In k (map fst l))
    /\ (forall k, In k (map fst acc) -> In k (map fst l)).
  Proof.
    intros Hrd. induction ks as [|k0 t IH]; intros s acc s' l H; cbn [do_multiget_gen] in H.
    - inversion H; subst. split; [apply refr_refl|]. split; [|split].
      + intros k v Hi. left. apply in_rev. exact Hi.
      + intros k e [].
      + intros k Hi. rewrite map_rev. apply -> in_rev. exact Hi.
    - destruct (Hrd s k0) as [Hfr Hsp].
      destruct (rd s k0) as [s1 o] eqn:Er. cbn [fst snd] in *.
      assert (Hs1 : refr s s1 /\ st_now P s1 = st_now P s
                    /\ match o with
                       | Some v => exists e, find s k0 = Some e /\ expired c (st_now P s) e = false /\ e_val e = v
                       | None => forall e, find s k0 = Some e -> expired c (st_now P s) e = true
                       end).
      { destruct (find s k0) as [e|] eqn:Ef.
        - destruct (expired c (st_now P s) e) eqn:Ex.
          + inversion Hsp; subst. split; [apply refr_refl|]. split; [reflexivity|]. intros e' He'. congruence.
          + destruct Hsp as [-> Hr]. split; [exact Hr|]. split; [apply Hr|]. exists e. auto.
        - inversion Hsp; subst. split; [apply refr_refl|]. split; [reflexivity|]. intros e' He'. discriminate. }
      destruct Hs1 as [Hr1 [Hn1 Ho]].
      assert (Hback : forall k v, (exists e, find s1 k = Some e /\ expired c (st_now P s1) e = false /\ e_val e = v) ->
                                  exists e, find s k = Some e /\ expired c (st_now P s) e = false /\ e_val e = v).
      { intros k v [e1 [Hf1 [Hx1 Hv1]]]. destruct (refr_find_back s s1 k e1 Hr1 Hf1) as [e [Hf [Hv [_ [_ [_ Hx]]]]]].
        exists e. split; [exact Hf|]. split; [apply Hx; rewrite <- Hn1; exact Hx1 | congruence]. }
      destruct o as [v0|].
      + specialize (IH s1 _ s' l H). destruct IH as [Hr2 [Hin [Hcomp Hacc]]].
        split; [eapply refr_trans; eassumption|]. split; [|split].
        * intros k v Hi. apply Hin in Hi. destruct Hi as [Hi|[Hk He]].
          -- destruct (mem k0 (map fst acc)); [left; exact Hi|]. destruct Hi as [Hi|Hi]; [|left; exact Hi].
             inversion Hi; subst. right. split; [left; reflexivity | exact Ho].
          -- right. split; [right; exact Hk | apply Hback; exact He].
        * intros k e [<-|Hk] Hf Hx.
          -- apply Hacc. destruct (mem k0 (map fst acc)) eqn:Em; [apply mem_In; exact Em | left; reflexivity].
          -- destruct (N.eq_dec k k0) as [->|Hne].
             ++ apply Hacc. destruct (mem k0 (map fst acc)) eqn:Em; [apply mem_In; exact Em | left; reflexivity].
             ++ apply (Hcomp k e Hk); [rewrite Hfr by exact Hne; exact Hf | rewrite Hn1; exact Hx].
        * intros k Hi. apply Hacc. destruct (mem k0 (map fst acc)); [exact Hi | right; exact Hi].
      + specialize (IH s1 _ s' l H). destruct IH as [Hr2 [Hin [Hcomp Hacc]]].
        split; [eapply refr_trans; eassumption|]. split; [|split; [|exact Hacc]].
        * intros k v Hi. apply Hin in Hi. destruct Hi as [Hi|[Hk He]]; [left; exact Hi|].
          right. split; [right; exact Hk | apply Hback; exact He].
        * intros k e [<-|Hk] Hf Hx.
          -- rewrite (Ho e Hf) in Hx. discriminate.
          -- destruct (N.eq_dec k k0) as [->|Hne]; [rewrite (Ho e Hf) in Hx; discriminate|].
             apply (Hcomp k e Hk); [rewrite Hfr by exact Hne; exact Hf | rewrite Hn1; exact Hx].
  Qed.

  (** ** entry API *)
  Lemma vacant_insert_ueff' s k v cost :
    let e := mkE v cost (ttl_exp c (st_now P s)) (la0 s) None (st_eid P s) in
    ueff s (vacant_insert P c s k v cost) (shard_of c k) (aput k e (smap s (shard_of c k)))
         (Z.of_N cost - old_cost s k) 1.
  Proof. apply vacant_insert_ueff. Qed.

  Lemma occupied_spec s k :
    match occupied P c s k with
    | Some e => find s k = Some e /\ (fix_f15 (c_fix c) = true -> expired c (st_now P s) e = false)
    | None => find s k = None
              \/ exists e, find s k = Some e /\ fix_f15 (c_fix c) = true /\ expired c (st_now P s) e = true
    end.
  Proof.
    unfold occupied. destruct (find s k) as [e|]; [|left; reflexivity].
    destruct (fix_f15 (c_fix c)); cbn [andb].
    - destruct (expired c (st_now P s) e) eqn:Ex; [right; exists e; auto | split; auto].
    - split; [reflexivity | discriminate].
  Qed.

  (** ** clear *)
  Lemma clear_shards_spec (l : list N) : forall s,
    let s' := fold_left (clear_shard P) l s in
    (forall j, smap s' j = if mem j l then [] else smap s j)
    /\ st_cc P s' = st_cc P s /\ st_now P s' = st_now P s /\ st_eid P s' = st_eid P s
    /\ sent s' = sent s /\ st_ndrops P s' = st_ndrops P s.
  Proof.
    induction l as [|i t IH]; intros s; cbn [fold_left mem existsb].
    - repeat split; reflexivity.
    - specialize (IH (clear_shard P s i)). cbn zeta in IH. destruct IH as [M [C [N [E [S D]]]]].
      split; [|repeat split; assumption].
      intros j. rewrite M. fold (mem j t). unfold clear_shard. rewrite smap_set_sh. cbn [s_map].
      destruct (mem j t); [rewrite orb_true_r; reflexivity|]. rewrite orb_false_r. reflexivity.
  Qed.

  Lemma do_clear_spec s :
    let s' := do_clear P c s in
    (forall j, smap s' j = if N.ltb j (c_shards c) then [] else smap s j)
    /\ st_cc P s' = 0%Z /\ st_now P s' = st_now P s /\ st_eid P s' = st_eid P s
    /\ sent s' = sent s /\ st_ndrops P s' = st_ndrops P s.
  Proof.
    cbn zeta. unfold do_clear. destruct (clear_shards_spec (nseq (c_shards c)) s) as [M [C [N [E [S D]]]]].
    split; [|repeat split; assumption].
    intros j. change (smap (set_cc P ?x 0%Z) j) with (smap x j). rewrite M.
    destruct (N.ltb_spec j (c_shards c)) as [Hl|Hl].
    - assert (Hm : mem j (nseq (c_shards c)) = true) by (apply mem_In, nseq_In; exact Hl). rewrite Hm. reflexivity.
    - assert (Hm : mem j (nseq (c_shards c)) = false) by (apply mem_false_In; rewrite nseq_In; lia). rewrite Hm. reflexivity.
  Qed.

  Lemma do_clear_find s k : find (do_clear P c s) k = None.
  Proof.
    destruct (do_clear_spec s) as [M _]. rewrite find_smap, M.
    assert (H : shard_of c k <? c_shards c = true) by (apply N.ltb_lt, shard_of_lt; exact Hn). rewrite H. reflexivity.
  Qed.

  Lemma do_clear_wfp s : wfp s -> wfp (do_clear P c s).
  Proof.
    intros [Hw Hp]. destruct (do_clear_spec s) as [M _]. split.
    - intros j. rewrite M. destruct (N.ltb j (c_shards c)); [constructor | apply Hw].
    - intros j k Hk. rewrite M in Hk. destruct (N.ltb j (c_shards c)); [destruct Hk | apply Hp; exact Hk].
  Qed.

  (** ** multi_remove *)
  Definition inval_of (D : list (drop)) : Prop :=
    Forall (fun d => d_rsn d = Invalidated /\ d_sh d = shard_of c (d_key d)) D.

  Lemma do_multi_remove_spec ks : forall s acc s' l,
    do_multi_remove P c s ks acc = (s', l) ->
    exists D dcc, mstepx s s' D dcc /\ dcc = (- dcost D)%Z /\ inval_of D
                  /\ Forall (fun d => In (d_key d) ks) D
                  /\ l = rev acc ++ map (fun d => (d_key d, e_val (d_ent d))) D
                  /\ (forall k, In k ks -> find s' k = None).
  Proof.
    induction ks as [|k t IH]; intros s acc s' l H; cbn [do_multi_remove] in H.
    - inversion H; subst. exists [], 0%Z. split; [apply mstepx_refl; reflexivity|]. split; [reflexivity|].
      split; [constructor|]. split; [constructor|]. split; [rewrite app_nil_r; reflexivity | intros k []].
    - pose proof (do_remove_mstepx P c s k Hn) as Hr.
      destruct (do_remove P c s k) as [s1 o] eqn:Er.
      destruct (find s k) as [e|] eqn:Ef.
      + cbn [fst snd] in Hr. destruct Hr as [H1 ->].
        destruct (IH s1 _ s' l H) as [D [dcc [H2 [X2 [I2 [K2 [L2 G2]]]]]]].
        exists ([mkDrop (shard_of c k) Invalidated k e] ++ D), (- Z.of_N (e_cost e) + dcc)%Z.
        split; [eapply mstepx_trans; eassumption|].
        split; [rewrite X2; cbn [app]; change (dcost (?d :: D)) with (Z.of_N (e_cost (d_ent d)) + dcost D)%Z; cbn [d_ent]; lia|].
        split; [|split; [|split]].
        * constructor; [cbn; auto | exact I2].
        * constructor; [left; reflexivity|]. eapply Forall_impl; [|exact K2]. intros d Hd. right. exact Hd.
        * rewrite L2. cbn [rev app map d_key d_ent]. rewrite <- app_assoc. reflexivity.
        * intros k' [<-|Hk]; [|apply G2; exact Hk].
          destruct H2 as [H2 _]. rewrite (find_mstep _ _ _ _ k H2).
          destruct (mem k (dkeys (shard_of c k) D)); [reflexivity|].
          destruct H1 as [H1 _]. rewrite (find_mstep _ _ _ _ k H1).
          cbn [dkeys filter d_sh map d_key]. rewrite N.eqb_refl. cbn [map d_key mem existsb]. rewrite N.eqb_refl. reflexivity.
      + inversion Hr; subst.
        destruct (IH s acc s' l H) as [D [dcc [H2 [X2 [I2 [K2 [L2 G2]]]]]]].
        exists D, dcc. split; [exact H2|]. split; [exact X2|]. split; [exact I2|]. split; [|split; [exact L2|]].
        * eapply Forall_impl; [|exact K2]. intros d Hd. right. exact Hd.
        * intros k' [<-|Hk]; [|apply G2; exact Hk].
          destruct H2 as [H2 _]. rewrite (find_mstep _ _ _ _ k H2), Ef.
          destruct (mem k (dkeys (shard_of c k) D)); reflexivity.
  Qed.

  (** ** the rest *)
  Lemma flush_intro_spec s :
    let s' := flush_intro P c s in
    (forall j, smap s' j = smap s j) /\ st_cc P s' = st_cc P s /\ st_now P s' = st_now P s
    /\ st_eid P s' = st_eid P s /\ sent s' = sent s /\ st_ndrops P s' = st_ndrops P s.
  Proof.
    cbn zeta. unfold flush_intro. destruct (c_intro c); [|repeat split; reflexivity].
    generalize (nseq (c_shards c)). intros l. revert s. induction l as [|i t IH]; intros s; cbn [fold_left].
    - repeat split; reflexivity.
    - destruct (IH (perform P c i U64 [] s)) as [M [C [N [E [S D]]]]].
      destruct (perform_ueff P c i U64 [] s i) as [M1 [C1 [N1 [E1 [S1 D1]]]]].
      split; [|repeat split; try congruence; try lia].
      intros j. rewrite M, M1. destruct (N.eqb_spec j i) as [->|]; reflexivity.
  Qed.

  Lemma do_deliver_spec s n :
    let s' := do_deliver P s n in
    (forall j, smap s' j = smap s j) /\ st_cc P s' = st_cc P s /\ st_now P s' = st_now P s
    /\ st_eid P s' = st_eid P s /\ sent s' = sent s /\ st_ndrops P s' = st_ndrops P s.
  Proof.
    cbn zeta. unfold do_deliver. pose proof (take_n_app n (st_nq P s)) as Ht.
    destruct (take_n n (st_nq P s)) as [a b]. cbn [fst snd] in Ht.
    repeat split; try reflexivity. unfold CacheSpec.sent. cbn [st_log st_nq]. rewrite <- app_assoc, Ht. reflexivity.
  Qed.

  (** ** every operation preserves well-formedness *)
  Lemma same_maps_wfp s s' : (forall j, smap s' j = smap s j) -> wfp s -> wfp s'.
  Proof.
    intros M [Hw Hp]. split.
    - intros j. rewrite M. apply Hw.
    - intros j k Hk. rewrite M in Hk. apply Hp. exact Hk.
  Qed.

  Lemma do_multi_insert_wfp items : forall s, wfp s -> wfp (do_multi_insert P c s items).
  Proof.
    unfold do_multi_insert. induction items as [|[[k v] cost] t IH]; intros s Hw; cbn [fold_left]; [exact Hw|].
    apply IH. destruct (insert_core_ueff P c s k v cost (ttl_exp c (st_now P s)) (c_ttl c)) as [h H].
    eapply ueff_aput_wfp; [exact H | exact Hw].
  Qed.

  Lemma step_wfp s o : wfp s -> wfp (fst (step P c s o)).
  Proof.
    intros Hw. destruct o; cbn [step fst].
    - destruct (do_insert_ueff s k v c0) as [h H]. eapply ueff_aput_wfp; [exact H | exact Hw].
    - destruct (do_insert_ttl_ueff s k v c0 d) as [h H]. eapply ueff_aput_wfp; [exact H | exact Hw].
    - pose proof (do_read_spec true s k) as H. destruct (do_read P c true s k) as [s' r]. cbn [fst snd] in *.
      destruct (find s k) as [e|]; [destruct (expired c (st_now P s) e)|];
        try (inversion H; subst; exact Hw). eapply refr_wfp; [apply H | exact Hw].
    - pose proof (do_read_spec true s k) as H. destruct (do_read P c true s k) as [s' r]. cbn [fst snd] in *.
      destruct (find s k) as [e|]; [destruct (expired c (st_now P s) e)|];
        try (inversion H; subst; exact Hw). eapply refr_wfp; [apply H | exact Hw].
    - pose proof (do_read_spec false s k) as H. destruct (do_read P c false s k) as [s' r]. cbn [fst snd] in *.
      destruct (find s k) as [e|]; [destruct (expired c (st_now P s) e)|];
        try (inversion H; subst; exact Hw). eapply refr_wfp; [apply H | exact Hw].
    - unfold do_or_insert. destruct (occupied P c s k); cbn [fst]; [exact Hw|].
      eapply ueff_aput_wfp; [apply vacant_insert_ueff' | exact Hw].
    - exact Hw.
    - pose proof (do_compute_ueff P c s k f) as H. cbn zeta in H.
      destruct (computable P c s k); [|rewrite H; exact Hw].
      destruct (do_compute P c s k f) as [s' r]. cbn [fst snd] in *.
      eapply ueff_aset_wfp; [apply H | exact Hw].
    - pose proof (do_compute_ueff P c s k f) as H. cbn zeta in H.
      destruct (computable P c s k); [|rewrite H; exact Hw].
      destruct (do_compute P c s k f) as [s' r]. cbn [fst snd] in *.
      eapply ueff_aset_wfp; [apply H | exact Hw].
    - pose proof (do_remove_mstepx P c s k Hn) as H. destruct (find s k); [|rewrite H; exact Hw].
      destruct (do_remove P c s k) as [s' r]. cbn [fst snd] in *. eapply mstep_wfp; [apply H | exact Hw].
    - pose proof (do_remove_mstepx P c s k Hn) as H. destruct (find s k); [|rewrite H; exact Hw].
      destruct (do_remove P c s k) as [s' r]. cbn [fst snd] in *. eapply mstep_wfp; [apply H | exact Hw].
    - apply do_clear_wfp. exact Hw.
    - destruct (do_multiget_gen P (do_read P c true) s ks []) as [s' l] eqn:E. cbn [fst].
      eapply refr_wfp; [|exact Hw]. eapply (multiget_gen_spec _ (do_read_rd_ok true)). exact E.
    - destruct (do_multiget_gen P (do_read_direct P c) s ks []) as [s' l] eqn:E. cbn [fst].
      eapply refr_wfp; [|exact Hw]. eapply (multiget_gen_spec _ do_read_direct_rd_ok). exact E.
    - apply do_multi_insert_wfp. exact Hw.
    - destruct (do_multi_remove P c s ks []) as [s' l] eqn:E. cbn [fst].
      destruct (do_multi_remove_spec ks s [] s' l E) as [D [dcc [H _]]]. eapply mstep_wfp; [apply H | exact Hw].
    - destruct (do_multi_remove P c s ks []) as [s' l] eqn:E. cbn [fst].
      destruct (do_multi_remove_spec ks s [] s' l E) as [D [dcc [H _]]]. eapply mstep_wfp; [apply H | exact Hw].
    - destruct (run_maintenance_mstepx P c ord s Hw) as [D [dcc [H _]]]. eapply mstep_wfp; [apply H | exact Hw].
    - destruct (janitor_tick_mstepx P c i ord s Hw) as [D [dcc [H _]]]. eapply mstep_wfp; [apply H | exact Hw].
    - destruct (janitor_signal_mstepx P c i ord s Hw) as [D [dcc [H _]]]. eapply mstep_wfp; [apply H | exact Hw].
    - eapply same_maps_wfp; [|exact Hw]. intros j. reflexivity.
    - eapply same_maps_wfp; [|exact Hw]. apply flush_intro_spec.
    - eapply same_maps_wfp; [|exact Hw]. apply do_deliver_spec.
  Qed.

  (** ** classification of the transitions *)
  Definition reason_ok (o : op) (d : drop) : Prop :=
    match d_rsn d with
    | Invalidated => removes o (d_key d) = true
    | _ => is_maint o = true
    end.

  Inductive kind (s : state) (o : op) (s' : state) : Prop :=
  | K_write k e dcc :
      ueff s s' (shard_of c k) (aput k e (smap s (shard_of c k))) dcc 1 ->
      e_id e = st_eid P s -> silent o k = true -> kind s o s'
  | K_refr : refr s s' -> kind s o s'
  | K_aset k e e' :
      find s k = Some e -> ueff s s' (shard_of c k) (aset k e' (smap s (shard_of c k))) 0 0 ->
      e_id e' = e_id e -> e_cost e' = e_cost e -> kind s o s'
  | K_mstep D dcc : mstepx s s' D dcc -> Forall (reason_ok o) D -> kind s o s'
  | K_clear : o = OClear -> s' = do_clear P c s -> kind s o s'
  | K_multi items : o = OMultiInsert items -> s' = do_multi_insert P c s items -> kind s o s'
  | K_same :
      (forall j, smap s' j = smap s j) -> st_eid P s' = st_eid P s -> sent s' = sent s ->
      st_ndrops P s' = st_ndrops P s -> st_cc P s' = st_cc P s -> kind s o s'.

  Lemma step_kind s o : wfp s -> kind s o (fst (step P c s o)).
  Proof.
    intros Hw.
    assert (Hread : forall hit k, kind s o (fst (do_read P c hit s k))).
    { intros hit k. pose proof (do_read_spec hit s k) as H.
      destruct (find s k) as [e|]; [destruct (expired c (st_now P s) e)|]; try (rewrite H; apply K_refr, refr_refl).
      apply K_refr. apply H. }
    assert (Hcomp : forall k f, kind s o (fst (do_compute P c s k f))).
    { intros k f. pose proof (do_compute_ueff P c s k f) as H. cbn zeta in H.
      destruct (computable P c s k) as [e|]; [|rewrite H; apply K_refr, refr_refl].
      destruct H as [H [_ Hf]]. eapply K_aset; [exact Hf | exact H | reflexivity | reflexivity]. }
    assert (Hsame : kind s o s) by (apply K_refr, refr_refl).
    destruct o; cbn [step fst].
    - destruct (do_insert_ueff s k v c0) as [h H]. cbn zeta in H.
      eapply K_write; [exact H | reflexivity | cbn; apply N.eqb_refl].
    - destruct (do_insert_ttl_ueff s k v c0 d) as [h H]. cbn zeta in H.
      eapply K_write; [exact H | reflexivity | cbn; apply N.eqb_refl].
    - specialize (Hread true k). destruct (do_read P c true s k). exact Hread.
    - specialize (Hread true k). destruct (do_read P c true s k). exact Hread.
    - specialize (Hread false k). destruct (do_read P c false s k). exact Hread.
    - unfold do_or_insert. destruct (occupied P c s k); cbn [fst]; [exact Hsame|].
      eapply K_write; [apply vacant_insert_ueff' | reflexivity | cbn; apply N.eqb_refl].
    - exact Hsame.
    - specialize (Hcomp k f). destruct (do_compute P c s k f). exact Hcomp.
    - specialize (Hcomp k f). destruct (do_compute P c s k f). exact Hcomp.
    - pose proof (do_remove_mstepx P c s k Hn) as H. destruct (find s k) as [e|]; [|rewrite H; exact Hsame].
      destruct (do_remove P c s k) as [s' r]. cbn [fst snd] in *. destruct H as [H _].
      eapply K_mstep; [exact H|]. constructor; [|constructor]. unfold reason_ok. cbn. apply N.eqb_refl.
    - pose proof (do_remove_mstepx P c s k Hn) as H. destruct (find s k) as [e|]; [|rewrite H; exact Hsame].
      destruct (do_remove P c s k) as [s' r]. cbn [fst snd] in *. destruct H as [H _].
      eapply K_mstep; [exact H|]. constructor; [|constructor]. unfold reason_ok. cbn. apply N.eqb_refl.
    - apply K_clear; reflexivity.
    - destruct (do_multiget_gen P (do_read P c true) s ks []) as [s' l] eqn:E. cbn [fst].
      apply K_refr. eapply (multiget_gen_spec _ (do_read_rd_ok true)). exact E.
    - destruct (do_multiget_gen P (do_read_direct P c) s ks []) as [s' l] eqn:E. cbn [fst].
      apply K_refr. eapply (multiget_gen_spec _ do_read_direct_rd_ok). exact E.
    - eapply K_multi; reflexivity.
    - destruct (do_multi_remove P c s ks []) as [s' l] eqn:E. cbn [fst].
      destruct (do_multi_remove_spec ks s [] s' l E) as [D [dcc [H [_ [Hi [Hk _]]]]]].
      eapply K_mstep; [exact H|]. unfold inval_of in Hi. rewrite Forall_forall in *. intros d Hd.
      unfold reason_ok. rewrite (proj1 (Hi d Hd)). cbn. apply mem_In. apply Hk. exact Hd.
    - destruct (do_multi_remove P c s ks []) as [s' l] eqn:E. cbn [fst].
      destruct (do_multi_remove_spec ks s [] s' l E) as [D [dcc [H [_ [Hi [Hk _]]]]]].
      eapply K_mstep; [exact H|]. unfold inval_of in Hi. rewrite Forall_forall in *. intros d Hd.
      unfold reason_ok. rewrite (proj1 (Hi d Hd)). cbn. apply mem_In. apply Hk. exact Hd.
    - destruct (run_maintenance_mstepx P c ord s Hw) as [D [dcc [H Hni]]].
      eapply K_mstep; [exact H|]. eapply Forall_impl; [|exact Hni]. intros d Hd. unfold reason_ok, not_inval in *.
      destruct (d_rsn d); [reflexivity | reflexivity | contradiction].
    - destruct (janitor_tick_mstepx P c i ord s Hw) as [D [dcc [H Hni]]].
      eapply K_mstep; [exact H|]. eapply Forall_impl; [|exact Hni]. intros d Hd. unfold reason_ok, not_inval in *.
      destruct (d_rsn d); [reflexivity | reflexivity | contradiction].
    - destruct (janitor_signal_mstepx P c i ord s Hw) as [D [dcc [H Hni]]].
      eapply K_mstep; [exact H|]. eapply Forall_impl; [|exact Hni]. intros d Hd. unfold reason_ok, not_inval in *.
      destruct (d_rsn d); [reflexivity | reflexivity | contradiction].
    - apply K_same; reflexivity.
    - destruct (flush_intro_spec s) as [M [C [N [E [S D]]]]]. apply K_same; assumption.
    - destruct (do_deliver_spec s n) as [M [C [N [E [S D]]]]]. apply K_same; assumption.
  Qed.

  Lemma run_wfp ops : forall s, wfp s -> wfp (fst (run P c s ops)).
  Proof.
    induction ops as [|o t IH]; intros s Hw; cbn [run fst]; [exact Hw|].
    pose proof (step_wfp s o Hw) as H1. destruct (step P c s o) as [s1 x]. cbn [fst] in H1.
    specialize (IH s1 H1). destruct (run P c s1 t) as [s2 xs]. exact IH.
  Qed.

  Lemma reachable_wfp s : reachable P c s -> wfp s.
  Proof. intros [now0 [ops ->]]. apply run_wfp. apply init_wfp. Qed.
End Steps.
