(* Proofs/OneshotOpsProofs.v — invariant of the K2 oneshot model for ALL op histories, every cfg. *)
From Coq Require Import List Arith ZArith Bool Lia Permutation.
From Fibre Require Import Chan.OneshotOps.
Import ListNotations.
Open Scope nat_scope.

Arguments Nat.ltb : simpl never.
Arguments Nat.leb : simpl never.
Arguments Nat.eqb : simpl never.
Arguments Nat.add : simpl never.
Arguments Z.eqb : simpl never.
Arguments Z.sub : simpl never.
Arguments Z.add : simpl never.
Arguments Z.of_nat : simpl never.

Definition ocnt (x : nat) (l : list nat) : nat := count_occ Nat.eq_dec l x.
Arguments ocnt : simpl never.
Lemma ocnt_nil x : ocnt x [] = 0. Proof. reflexivity. Qed.
Lemma ocnt_cons x y l : ocnt x (y :: l) = (if y =? x then 1 else 0) + ocnt x l.
Proof.
  unfold ocnt. cbn [count_occ]. destruct (Nat.eq_dec y x) as [E|E].
  - subst. rewrite Nat.eqb_refl. reflexivity.
  - apply Nat.eqb_neq in E. rewrite E. reflexivity.
Qed.
Lemma ocnt_app x a b : ocnt x (a ++ b) = ocnt x a + ocnt x b.
Proof. unfold ocnt. apply count_occ_app. Qed.
Lemma ocnt_seq x n : ocnt x (seq 0 n) = if x <? n then 1 else 0.
Proof.
  induction n as [|n IH].
  - cbn. destruct (Nat.ltb_spec x 0); [lia|reflexivity].
  - rewrite seq_S, Nat.add_0_l, ocnt_app, IH, ocnt_cons, ocnt_nil.
    destruct (Nat.ltb_spec x n), (Nat.eqb_spec n x), (Nat.ltb_spec x (S n)); cbn; lia.
Qed.

(* open sender handles *)
Fixpoint opens (l : list (nat * bool)) : nat :=
  match l with [] => 0 | (_, c) :: t => (if c then 0 else 1) + opens t end.
Definition opencnt (l : list (nat * bool)) : Z := Z.of_nat (opens l).
Definition wf_h (n : nat) (l : list (nat * bool)) : Prop := NoDup (map fst l) /\ forall h, In h (map fst l) -> h < n.

Lemma find_h_in h l c : find_h h l = Some c -> In h (map fst l).
Proof.
  induction l as [|[h' c'] t IH]; cbn; [discriminate|].
  destruct (h' =? h) eqn:E; [apply Nat.eqb_eq in E; auto | auto].
Qed.
Lemma find_h_notin h l : ~ In h (map fst l) -> find_h h l = None.
Proof.
  induction l as [|[h' c'] t IH]; cbn; [reflexivity|]. intros H.
  destruct (h' =? h) eqn:E; [apply Nat.eqb_eq in E; subst; exfalso; auto | auto].
Qed.
Lemma remove_h_notin h l : ~ In h (map fst l) -> remove_h h l = l.
Proof.
  induction l as [|[h' c'] t IH]; cbn; [reflexivity|]. intros H.
  destruct (h' =? h) eqn:E; [apply Nat.eqb_eq in E; subst; exfalso; auto | f_equal; auto].
Qed.
Lemma set_closed_notin h l : ~ In h (map fst l) -> set_closed_h h l = l.
Proof.
  induction l as [|[h' c'] t IH]; cbn; [reflexivity|]. intros H.
  destruct (h' =? h) eqn:E; [apply Nat.eqb_eq in E; subst; exfalso; auto | f_equal; auto].
Qed.
Lemma remove_h_fst h l x : In x (map fst (remove_h h l)) -> In x (map fst l) /\ x <> h.
Proof.
  induction l as [|[h' c'] t IH]; cbn; [tauto|].
  destruct (h' =? h) eqn:E.
  - intros H. destruct (IH H). auto.
  - apply Nat.eqb_neq in E. cbn. intros [H|H]; [subst; auto | destruct (IH H); auto].
Qed.
Lemma set_closed_fst h l : map fst (set_closed_h h l) = map fst l.
Proof.
  induction l as [|[h' c'] t IH]; cbn; [reflexivity|].
  destruct (h' =? h); cbn; f_equal; auto.
Qed.
Lemma remove_h_nodup h l : NoDup (map fst l) -> NoDup (map fst (remove_h h l)).
Proof.
  induction l as [|[h' c'] t IH]; cbn; intros H; [constructor|]. inversion H; subst.
  destruct (h' =? h); cbn; auto. constructor; auto. intros Hin. apply remove_h_fst in Hin. tauto.
Qed.

Lemma opens_remove h l c : NoDup (map fst l) -> find_h h l = Some c ->
  opens (remove_h h l) + (if c then 0 else 1) = opens l.
Proof.
  induction l as [|[h' c'] t IH]; cbn; [discriminate|]. intros Hn Hf. inversion Hn; subst.
  destruct (h' =? h) eqn:E.
  - apply Nat.eqb_eq in E. subst. inversion Hf; subst. rewrite remove_h_notin by assumption. lia.
  - specialize (IH H2 Hf). cbn. lia.
Qed.
Lemma opencnt_remove h l c : NoDup (map fst l) -> find_h h l = Some c ->
  opencnt (remove_h h l) = (opencnt l - (if c then 0 else 1))%Z.
Proof. intros A B. unfold opencnt. pose proof (opens_remove h l c A B). destruct c; lia. Qed.
Lemma opens_close h l : NoDup (map fst l) -> find_h h l = Some false ->
  opens (set_closed_h h l) + 1 = opens l.
Proof.
  induction l as [|[h' c'] t IH]; cbn; [discriminate|]. intros Hn Hf. inversion Hn; subst.
  destruct (h' =? h) eqn:E.
  - apply Nat.eqb_eq in E. subst. inversion Hf; subst. rewrite set_closed_notin by assumption. cbn. lia.
  - specialize (IH H2 Hf). cbn. lia.
Qed.
Lemma opencnt_close h l : NoDup (map fst l) -> find_h h l = Some false ->
  opencnt (set_closed_h h l) = (opencnt l - 1)%Z.
Proof. intros A B. unfold opencnt. pose proof (opens_close h l A B). lia. Qed.
Lemma opens_app l n : opens (l ++ [(n, false)]) = opens l + 1.
Proof. induction l as [|[h c] t IH]; cbn; [reflexivity|]. rewrite IH. lia. Qed.
Lemma opencnt_app l n : opencnt (l ++ [(n, false)]) = (opencnt l + 1)%Z.
Proof. unfold opencnt. rewrite opens_app. lia. Qed.
Lemma opencnt_nonneg l : (0 <= opencnt l)%Z.
Proof. unfold opencnt. lia. Qed.
Lemma opencnt_find_open h l : find_h h l = Some false -> (1 <= opencnt l)%Z.
Proof.
  unfold opencnt. induction l as [|[h' c'] t IH]; cbn; [discriminate|].
  destruct (h' =? h) eqn:E.
  - intros H. inversion H; subst. lia.
  - intros H. specialize (IH H). lia.
Qed.
Lemma opencnt_nil : opencnt [] = 0%Z.
Proof. reflexivity. Qed.

Lemma NoDup_app_tail (l : list nat) x : NoDup l -> ~ In x l -> NoDup (l ++ [x]).
Proof.
  induction l as [|y l IH]; cbn; intros Hn Hx; [constructor; [intros []|constructor]|].
  inversion Hn; subst. constructor.
  - intros Hin. apply in_app_or in Hin. destruct Hin as [Hin|[E|[]]]; [auto | subst; apply Hx; left; reflexivity].
  - apply IH; auto.
Qed.

Lemma wf_remove n h l : wf_h n l -> wf_h n (remove_h h l).
Proof.
  intros [A B]. split; [apply remove_h_nodup, A|]. intros x Hx. apply remove_h_fst in Hx. apply B. tauto.
Qed.
Lemma wf_close n h l : wf_h n l -> wf_h n (set_closed_h h l).
Proof. intros [A B]. unfold wf_h. rewrite set_closed_fst. auto. Qed.
Lemma wf_app n l : wf_h n l -> wf_h (S n) (l ++ [(n, false)]).
Proof.
  intros [A B]. unfold wf_h. rewrite map_app. cbn. split.
  - apply NoDup_app_tail; [exact A | intros Hx; specialize (B _ Hx); lia].
  - intros h Hh. apply in_app_or in Hh. destruct Hh as [Hh|[E|[]]]; [specialize (B _ Hh); lia | subst; lia].
Qed.

Definition rcv_closed (r : orcv) : bool := match r with RcvGone => true | RcvLive c => c end.

Record OInv (cf : ocfg) (s : ost) : Prop := {
  i_cons : forall x, ocnt x (orecv s) + ocnt x (sent_val (ostate s)) + ocnt x (oret s) + ocnt x (odrop s)
                     = if x <? onext s then 1 else 0;
  i_wf : wf_h (nexth s) (snd_h s);
  i_cnt : ocount s = opencnt (snd_h s);
  i_rdrop : rdrop s = rcv_closed (rcv s);
  i_rd_state : rdrop s = true -> ostate s = OTaken \/ ostate s = OClosed;
  i_zero : ocount s = 0%Z -> ostate s <> OEmpty;
  i_acc_len : length (oacc s) <= 1;
  i_empty : ostate s = OEmpty -> oacc s = [];
  i_closed : ostate s = OClosed -> oacc s = [];
  i_sent : forall v, ostate s = OSent v -> oacc s = [v] /\ orecv s = [];
  i_recv : orecv s = [] \/ orecv s = oacc s;
  i_taken : ostate s = OTaken -> rdrop s = false -> orecv s = oacc s;
  i_futs : futs s <> [] -> exists c, rcv s = RcvLive c;
  i_pend : forall f w, o_pend s = Some (f, w) -> mem_f f (futs s) = true;
  i_wake : forall f w, o_pend s = Some (f, w) -> o_woken s = false -> rcv s = RcvLive false ->
           wk s = Some w /\
           ((ostate s = OEmpty /\ ocount s <> 0%Z) \/
            (ostate s = OTaken /\ (fix_taken_wake cf = true -> ocount s <> 0%Z)));
  i_disc : o_disc s = true -> rcv_closed (rcv s) = true \/ ostate s = OTaken \/ ostate s = OClosed
}.

Ltac ob2p :=
  repeat match goal with
         | H : (_ =? _) = true |- _ => apply Nat.eqb_eq in H
         | H : (_ =? _) = false |- _ => apply Nat.eqb_neq in H
         | H : (_ =? _)%Z = true |- _ => apply Z.eqb_eq in H
         | H : (_ =? _)%Z = false |- _ => apply Z.eqb_neq in H
         | H : (_ <? _) = true |- _ => apply Nat.ltb_lt in H
         | H : (_ <? _) = false |- _ => apply Nat.ltb_ge in H
         | H : _ || _ = false |- _ => apply orb_false_iff in H; destruct H
         | H : negb _ = true |- _ => apply negb_true_iff in H
         | H : negb _ = false |- _ => apply negb_false_iff in H
         end.

Ltac osplit1 :=
  match goal with
  | |- context [match ?x with _ => _ end] =>
      match x with
      | context [match _ with _ => _ end] => fail 1
      | _ => destruct x eqn:?
      end
  end.
Ltac ohyp_ifs :=
  repeat match goal with
         | H : context [if ?b then _ else _] |- _ => destruct b eqn:?
         | H : context [match ?x with _ => _ end] |- _ =>
             match x with context [match _ with _ => _ end] => fail 1 | _ => destruct x eqn:? end
         end.

Ltac ounf :=
  unfold do_osend, do_oclose_s, do_oclone, do_odrop_s, do_oobs_s, do_otry_recv, core_try_recv, do_oclose_r,
    do_odrop_r, do_oobs_r, do_omk, do_opoll, do_odropfut, fut_done, dec_senders, oshared_drop_if, close_int_rcv,
    owake, oback, odestroy, rcv_closed in *.

Lemma mem_remove_other f g l : mem_f f (remove_f g l) = true -> mem_f f l = true.
Proof.
  induction l as [|x t IH]; cbn; [auto|]. destruct (x =? g) eqn:E; cbn.
  - intros H. rewrite (IH H). apply orb_true_r.
  - intros H. apply orb_true_iff in H. apply orb_true_iff. destruct H; auto.
Qed.
Lemma mem_remove_neq f g l : f <> g -> mem_f f l = true -> mem_f f (remove_f g l) = true.
Proof.
  intros Hn. induction l as [|x t IH]; cbn; [auto|]. intros H. apply orb_true_iff in H.
  destruct (x =? g) eqn:E; cbn.
  - apply Nat.eqb_eq in E. subst. destruct H as [H|H]; [apply Nat.eqb_eq in H; congruence | auto].
  - apply orb_true_iff. destruct H; auto.
Qed.
Lemma mem_app f l g : mem_f f l = true -> mem_f f (l ++ [g]) = true.
Proof. induction l as [|x t IH]; cbn; [discriminate|]. intros H. apply orb_true_iff in H. apply orb_true_iff. destruct H; auto. Qed.
Lemma remove_nonnil_rcv f (l : list nat) : remove_f f l <> [] -> l <> [].
Proof. destruct l; cbn; [auto | discriminate]. Qed.

Arguments opencnt : simpl never.
Ltac oifs :=
  repeat match goal with
         | |- context [if ?b then _ else _] => destruct b eqn:?
         | H : context [if ?b then _ else _] |- _ => destruct b eqn:?
         end.

Ltac ofacts Hwf :=
  pose proof (opencnt_nonneg) as Hnn;
  try match goal with H : find_h ?h ?l = Some ?c |- _ =>
        pose proof (opencnt_remove h l c (proj1 Hwf) H);
        pose proof (wf_remove _ h l Hwf);
        pose proof (wf_close _ h l Hwf);
        pose proof (wf_app _ l Hwf);
        pose proof (opencnt_app l);
        try (pose proof (opencnt_close h l (proj1 Hwf) H));
        try (pose proof (opencnt_find_open h l H))
      end;
  repeat match goal with H : remove_h _ _ = _ |- _ => rewrite H in * end;
  rewrite ?opencnt_nil in *.

Ltac orefl :=
  repeat match goal with
         | H : ?a = ?a -> _ |- _ => specialize (H eq_refl)
         | H : forall v : nat, OSent ?x = OSent v -> _ |- _ => specialize (H _ eq_refl)
         end.
Ltac oinv :=
  repeat match goal with
         | H : OSent _ = OSent _ |- _ => inversion H; clear H; subst
         | H : RcvLive _ = RcvLive _ |- _ => inversion H; clear H; subst
         | H : Some _ = Some _ |- _ => inversion H; clear H; subst
         | H : (_, _) = (_, _) |- _ => inversion H; clear H; subst
         end.
Ltac osat :=
  repeat match goal with
         | Hx : forall f w : nat, ?p = Some (f, w) -> _, H : ?p = Some (_, _) |- _ => specialize (Hx _ _ H)
         | Hx : forall f w : nat, Some (?a, ?b) = Some (f, w) -> _ |- _ => specialize (Hx _ _ eq_refl)
         end.
Ltac odest :=
  repeat match goal with
         | H : _ /\ _ |- _ => destruct H
         | H : _ \/ _ |- _ => destruct H
         | H : exists _, _ |- _ => destruct H
         end.
Ltac osolve :=
  intros; orefl; osat; ohyp_ifs; ob2p; oinv; subst; cbn in *; rewrite ?app_nil_r, ?opencnt_nil in *;
  orefl; osat; orefl; odest; oinv; subst; cbn in *; orefl; odest;
  repeat match goal with
         | H : context [opencnt ?l] |- _ =>
             lazymatch goal with
             | _ : (0 <= opencnt l)%Z |- _ => fail
             | _ => pose proof (opencnt_nonneg l)
             end
         end;
  try discriminate; try congruence; try lia; eauto;
  try solve [repeat split; intros; try discriminate; try congruence; try lia; eauto];
  try solve [left; repeat split; intros; try discriminate; try congruence; try lia; eauto];
  try solve [right; repeat split; intros; try discriminate; try congruence; try lia; eauto];
  try solve [right; left; reflexivity]; try solve [right; right; reflexivity];
  try solve [split; [reflexivity|];
             first [left; split; [reflexivity | lia]
                   | right; split; [reflexivity | intros; first [congruence | lia]]]];
  try solve [intro; subst; orefl; odest; try discriminate; try congruence; try lia];
  try solve [apply mem_app; assumption];
  try solve [apply mem_remove_neq; [congruence | assumption]];
  try solve [exfalso; match goal with H : ?x <> ?x |- _ => apply H; reflexivity end];
  try solve [exfalso; match goal with H : remove_f _ [] <> [] |- _ => apply H; reflexivity end];
  try solve [match goal with Hf : ?l <> [] -> _, H : remove_f _ ?l <> [] |- _ => apply Hf; apply (remove_nonnil_rcv _ _ H) end].

Lemma oinv_exec cf s o : OInv cf s -> OInv cf (fst (oexec cf s o)).
Proof.
  intros [Hc Hwf Hcnt Hrd Hrs Hz Hal He Hcl Hs Hr Ht Hf Hp Hw Hd].
  destruct s; cbn in *.
  destruct o; cbn [oexec]; ounf; cbn in *.
  all: repeat (osplit1; cbn in * ).
  all: try (constructor; cbn; assumption).
  all: ofacts Hwf.
  all: constructor; cbn;
    [ intros x; specialize (Hc x); rewrite ?ocnt_app, ?ocnt_cons, ?ocnt_nil in *; cbn in *; oifs; ob2p; try lia
    | osolve | osolve | osolve | osolve | osolve | osolve | osolve | osolve | osolve | osolve | osolve | osolve
    | osolve | osolve | osolve ].
Qed.

