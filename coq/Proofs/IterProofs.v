(* Proofs/IterProofs.v — the cursor iteration of iter.rs enumerates the live
   entries exactly once, for every per-shard enumeration order, every batch
   size >= 1 and every (monotone) clock. *)
From Fibre Require Import Common.Base Cache.Iter.
From Coq Require Import ZifyBool ZifyNat ZifyN.

(* ------------------------------------------------------------------------ *)
(** list helpers *)

Lemma filter_length_le {A} (f : A -> bool) (l : list A) : (length (filter f l) <= length l)%nat.
Proof. induction l as [|a t IH]; cbn [filter length]; [lia|]. destruct (f a); cbn [length]; lia. Qed.

Lemma concat_skipn_nth {A} : forall (i : nat) (l : list (list A)),
  concat (skipn i l) = nth i l [] ++ concat (skipn (S i) l).
Proof.
  intros i l. revert i. induction l as [|a t IH]; intros i.
  - rewrite !skipn_nil. destruct i; reflexivity.
  - destruct i as [|j].
    + cbn [skipn nth concat]. reflexivity.
    + cbn [nth]. rewrite !skipn_cons. apply IH.
Qed.

Lemma firstn_skipn_len {A} : forall (n : nat) (l : list A),
  firstn n l ++ skipn (length (firstn n l)) l = l.
Proof.
  induction n as [|n IH]; intros l; [reflexivity|].
  destruct l as [|a t]; [reflexivity|].
  cbn [firstn length skipn app]. f_equal. apply IH.
Qed.

Lemma skipn_add {A} : forall (a b : nat) (l : list A), skipn a (skipn b l) = skipn (b + a) l.
Proof.
  intros a b. revert a. induction b as [|b IH]; intros a l; [reflexivity|].
  destruct l as [|x t].
  - rewrite !skipn_nil. reflexivity.
  - cbn [Nat.add]. rewrite !skipn_cons. apply IH.
Qed.

(* ------------------------------------------------------------------------ *)
(** expiry is monotone in time (nothing in Iter touches last_accessed) *)

Lemma expired_mono tti t t' e : t <= t' -> is_expired tti t e = true -> is_expired tti t' e = true.
Proof. unfold is_expired. intros Hle H. destruct tti as [d|]; lia. Qed.

Lemma live_anti tti t t' e : t <= t' -> live tti t' e = true -> live tti t e = true.
Proof.
  unfold live. intros Hle H. destruct (is_expired tti t e) eqn:E; [|reflexivity].
  rewrite (expired_mono tti t t' e Hle E) in H. discriminate.
Qed.

Section Sandwich.
  Variable tti : option N.

  (** [sandwich lo hi l o]: o enumerates l in order, keeping every entry still
      live at time hi, dropping every entry already expired at time lo; entries
      that expire in between may go either way. *)
  Inductive sandwich (lo hi : N) : list entry -> list item -> Prop :=
  | sw_nil : sandwich lo hi [] []
  | sw_keep e l o : live tti lo e = true -> sandwich lo hi l o -> sandwich lo hi (e :: l) (item_of e :: o)
  | sw_drop e l o : live tti hi e = false -> sandwich lo hi l o -> sandwich lo hi (e :: l) o.

  Lemma sandwich_filter lo hi t l :
    lo <= t -> t <= hi -> sandwich lo hi l (map item_of (filter (live tti t) l)).
  Proof.
    intros H1 H2. induction l as [|e r IH]; cbn [filter map]; [constructor|].
    destruct (live tti t e) eqn:E; cbn [map].
    - apply sw_keep; [eapply live_anti; eauto | exact IH].
    - apply sw_drop; [|exact IH].
      destruct (live tti hi e) eqn:E2; [|reflexivity].
      rewrite (live_anti tti t hi e H2 E2) in E. discriminate.
  Qed.

  Lemma sandwich_app lo hi l1 o1 l2 o2 :
    sandwich lo hi l1 o1 -> sandwich lo hi l2 o2 -> sandwich lo hi (l1 ++ l2) (o1 ++ o2).
  Proof.
    intros H1 H2. induction H1 as [|e l o Hl _ IH|e l o Hl _ IH]; cbn [app].
    - exact H2.
    - apply sw_keep; assumption.
    - apply sw_drop; assumption.
  Qed.

  Lemma sandwich_weaken lo hi lo' hi' l o :
    lo' <= lo -> hi <= hi' -> sandwich lo hi l o -> sandwich lo' hi' l o.
  Proof.
    intros H1 H2 H. induction H as [|e l o Hl _ IH|e l o Hl _ IH].
    - constructor.
    - apply sw_keep; [eapply live_anti; eauto | exact IH].
    - apply sw_drop; [|exact IH].
      destruct (live tti hi' e) eqn:E2; [|reflexivity].
      rewrite (live_anti tti hi hi' e H2 E2) in Hl. discriminate.
  Qed.

  Lemma sandwich_eq t l o : sandwich t t l o -> o = map item_of (filter (live tti t) l).
  Proof.
    induction 1 as [|e l o Hl _ IH|e l o Hl _ IH]; cbn [filter map]; [reflexivity| |].
    - rewrite Hl. cbn [map]. f_equal. exact IH.
    - rewrite Hl. exact IH.
  Qed.

  Lemma sandwich_sound lo hi l o : sandwich lo hi l o ->
    forall x, In x o -> exists e, In e l /\ x = item_of e /\ live tti lo e = true.
  Proof.
    induction 1 as [|e l o Hl _ IH|e l o Hl _ IH]; intros x Hx.
    - contradiction.
    - destruct Hx as [<-|Hx].
      + exists e. split; [left; reflexivity|]. split; [reflexivity|exact Hl].
      + destruct (IH x Hx) as [e' [Hi He]]. exists e'. split; [right; exact Hi|exact He].
    - destruct (IH x Hx) as [e' [Hi He]]. exists e'. split; [right; exact Hi|exact He].
  Qed.

  Lemma sandwich_complete lo hi l o : sandwich lo hi l o ->
    forall e, In e l -> live tti hi e = true -> In (item_of e) o.
  Proof.
    induction 1 as [|e l o Hl _ IH|e l o Hl _ IH]; intros e' Hi Hlive.
    - contradiction.
    - destruct Hi as [<-|Hi]; [left; reflexivity | right; apply IH; assumption].
    - destruct Hi as [<-|Hi]; [rewrite Hl in Hlive; discriminate | apply IH; assumption].
  Qed.

  Lemma sandwich_NoDup lo hi l o : sandwich lo hi l o ->
    NoDup (map ekey l) -> NoDup (map fst o).
  Proof.
    induction 1 as [|e l o Hl Hs IH|e l o Hl Hs IH]; cbn [map]; intros Hnd.
    - constructor.
    - inversion Hnd as [|? ? Hni Hnd']; subst. constructor; [|apply IH; exact Hnd'].
      intros Hin. apply Hni. apply in_map_iff in Hin. destruct Hin as [x [Hx Hxo]].
      destruct (sandwich_sound _ _ _ _ Hs x Hxo) as [e' [Hi [He _]]].
      apply in_map_iff. exists e'. split; [|exact Hi]. subst x. cbn [item_of fst] in Hx. exact Hx.
    - inversion Hnd; subst. apply IH. assumption.
  Qed.
End Sandwich.

(* ------------------------------------------------------------------------ *)
(** the refill loop *)

Section IterProofs.
  Variable shards : list (list entry).
  Variable tti : option N.
  Variable batch : nat.
  Hypothesis batch_pos : (1 <= batch)%nat.

  (* what the cursor has not scanned yet *)
  Definition rest (cur : cursor) : list entry :=
    skipn (c_seen cur) (nth (c_shard cur) shards []) ++ concat (skipn (S (c_shard cur)) shards).

  Lemma rest_start : rest (mkCur 0 0) = concat shards.
  Proof. unfold rest. cbn [c_seen c_shard]. rewrite skipn_O. symmetry. apply (concat_skipn_nth 0 shards). Qed.

  Lemma rest_end cur : (length shards <= c_shard cur)%nat -> rest cur = [].
  Proof.
    intros H. unfold rest. rewrite (nth_overflow shards [] H). rewrite skipn_nil.
    rewrite skipn_all2 by lia. reflexivity.
  Qed.

  Lemma rest_skip si seen :
    (length (nth si shards []) <= seen)%nat -> rest (mkCur si seen) = rest (mkCur (S si) 0).
  Proof.
    intros H. unfold rest. cbn [c_seen c_shard]. rewrite (skipn_all2 _ H). rewrite skipn_O.
    cbn [app]. apply concat_skipn_nth.
  Qed.

  Lemma rest_le cur : (length (rest cur) <= length (concat shards))%nat.
  Proof.
    unfold rest. rewrite <- (firstn_skipn (c_shard cur) shards) at 3.
    rewrite concat_app, (concat_skipn_nth (c_shard cur) shards).
    rewrite <- (firstn_skipn (c_seen cur) (nth (c_shard cur) shards [])) at 2.
    rewrite !app_length. lia.
  Qed.

  Definition mu (cur : cursor) : nat := (length shards - c_shard cur + length (rest cur))%nat.

  Lemma refill_spec : forall fuel now cur buf,
    (mu cur < fuel)%nat ->
    exists cur' seg,
      refill shards tti batch fuel now cur buf
        = (cur', buf ++ map item_of (filter (live tti now) seg), true)
      /\ rest cur = seg ++ rest cur'
      /\ ((length shards <= c_shard cur')%nat
          \/ (batch <= length (buf ++ map item_of (filter (live tti now) seg)))%nat).
  Proof.
    induction fuel as [|f IH]; intros now [si seen] buf Hmu; [lia|].
    cbn [refill c_shard c_seen].
    destruct (Nat.ltb_spec si (length shards)) as [Hsi|Hsi]; cbn [andb].
    2:{ exists (mkCur si seen), []. cbn [filter map]. rewrite app_nil_r.
        split; [reflexivity|]. split; [reflexivity|]. left. cbn [c_shard]. exact Hsi. }
    destruct (Nat.ltb_spec (length buf) batch) as [Hb|Hb].
    2:{ exists (mkCur si seen), []. cbn [filter map]. rewrite app_nil_r.
        split; [reflexivity|]. split; [reflexivity|]. right. exact Hb. }
    destruct (Nat.leb_spec (length (nth si shards [])) seen) as [Hs|Hs].
    - (* shard exhausted: move on *)
      assert (Hr := rest_skip si seen Hs).
      destruct (IH now (mkCur (S si) 0) buf) as [cur' [seg [E [R X]]]].
      { unfold mu in *. cbn [c_shard] in *. rewrite <- Hr. lia. }
      exists cur', seg. split; [exact E|]. split; [rewrite Hr; exact R | exact X].
    - (* take a chunk *)
      set (sh := nth si shards []) in *.
      set (chunk := firstn (batch - length buf) (skipn seen sh)).
      assert (Hlen : (1 <= length chunk)%nat).
      { unfold chunk. rewrite firstn_length, skipn_length. lia. }
      assert (Hr : rest (mkCur si seen) = chunk ++ rest (mkCur si (seen + length chunk))).
      { unfold rest. cbn [c_shard c_seen]. fold sh. rewrite app_assoc. f_equal.
        rewrite <- skipn_add. unfold chunk. symmetry. apply firstn_skipn_len. }
      destruct (IH now (mkCur si (seen + length chunk))
                   (buf ++ map item_of (filter (live tti now) chunk))) as [cur' [seg [E [R X]]]].
      { unfold mu in *. cbn [c_shard] in *. rewrite Hr, app_length in Hmu. lia. }
      exists cur', (chunk ++ seg).
      rewrite filter_app, map_app, app_assoc.
      split; [exact E|]. split; [rewrite Hr, R, app_assoc; reflexivity | exact X].
  Qed.

  Lemma refill_fuel_ok cur : (mu cur < refill_fuel shards)%nat.
  Proof. unfold mu, refill_fuel. pose proof (rest_le cur). lia. Qed.

  (* ---------------------------------------------------------------------- *)
  (** calling next until None *)

  Variable clk : nat -> N.
  Hypothesis clk_mono : forall a b, (a <= b)%nat -> clk a <= clk b.

  Definition src (st : iter_st) : list entry := if it_fin st then [] else rest (it_cur st).

  Lemma drain_spec : forall fuel c st,
    (length (it_buf st) + length (src st) < fuel)%nat ->
    exists o', drain shards tti batch fuel clk c st = (it_buf st ++ o', true)
      /\ sandwich tti (clk c) (clk (c + length (it_buf st ++ o'))) (src st) o'.
  Proof.
    induction fuel as [|f IH]; intros c [buf cur fin] Hf; [lia|].
    cbn [it_buf it_cur it_fin] in *. cbn [drain]. unfold iter_next. cbn [it_buf it_cur it_fin].
    destruct buf as [|x b].
    - destruct fin.
      + exists []. split; [reflexivity|]. unfold src. cbn [it_fin]. constructor.
      + unfold src in Hf |- *. cbn [it_fin it_cur length Nat.add] in Hf |- *.
        destruct (refill_spec (refill_fuel shards) (clk c) cur [] (refill_fuel_ok cur))
          as [cur' [seg [E [R X]]]].
        rewrite E. cbn [app] in *.
        assert (Hseg : sandwich tti (clk c) (clk c) seg (map item_of (filter (live tti (clk c)) seg)))
          by (apply sandwich_filter; lia).
        assert (Hlen : (length (map item_of (filter (live tti (clk c)) seg)) <= length seg)%nat)
          by (rewrite map_length; apply filter_length_le).
        destruct (map item_of (filter (live tti (clk c)) seg)) as [|x b] eqn:Eb.
        * (* nothing left: the cursor is past the last shard *)
          exists []. split; [reflexivity|]. cbn [length] in X.
          destruct X as [X|X]; [|lia].
          rewrite R, (rest_end cur' X), app_nil_r.
          eapply sandwich_weaken; [| |exact Hseg]; [lia|apply clk_mono; lia].
        * set (fin' := (length shards <=? c_shard cur')%nat).
          assert (Hsrc : src (mkIt b cur' fin') = rest cur').
          { unfold src, fin'. cbn [it_fin it_cur].
            destruct (Nat.leb_spec (length shards) (c_shard cur')) as [Hx|Hx]; [|reflexivity].
            symmetry. apply rest_end. exact Hx. }
          destruct (IH (S c) (mkIt b cur' fin')) as [o2 [E2 S2]].
          { rewrite Hsrc. cbn [it_buf]. rewrite R, app_length in Hf. cbn [length] in Hlen. lia. }
          cbn [it_buf] in E2, S2. rewrite E2. cbn [andb].
          exists (x :: b ++ o2). split; [reflexivity|].
          rewrite R. change (x :: b ++ o2) with ((x :: b) ++ o2).
          apply sandwich_app.
          -- eapply sandwich_weaken; [| |exact Hseg]; [lia|apply clk_mono; lia].
          -- rewrite Hsrc in S2. eapply sandwich_weaken; [| |exact S2].
             ++ apply clk_mono. lia.
             ++ apply clk_mono. cbn [length app]. lia.
    - destruct (IH (S c) (mkIt b cur fin)) as [o2 [E2 S2]].
      { cbn [it_buf length] in *. unfold src in *. cbn [it_fin it_cur] in *. lia. }
      cbn [it_buf] in E2, S2. rewrite E2. cbn [andb].
      exists o2. split; [reflexivity|].
      unfold src in *. cbn [it_fin it_cur] in *.
      eapply sandwich_weaken; [| |exact S2].
      + apply clk_mono. lia.
      + apply clk_mono. cbn [length app]. lia.
  Qed.

  Theorem iterate_clk_spec :
    exists out, iterate_clk shards tti batch clk = (out, true)
      /\ sandwich tti (clk 0%nat) (clk (length out)) (concat shards) out.
  Proof.
    unfold iterate_clk.
    destruct (drain_spec (drain_fuel shards) 0%nat iter_init) as [o [E S]].
    { unfold iter_init, src, drain_fuel. cbn [it_buf it_fin it_cur length]. rewrite rest_start. lia. }
    cbn [iter_init it_buf app Nat.add] in E, S. exists o. split; [exact E|].
    unfold src, iter_init in S. cbn [it_fin it_cur] in S. rewrite rest_start in S. exact S.
  Qed.
End IterProofs.

(* ------------------------------------------------------------------------ *)
(** main statements *)

(* quiescence: the clock does not move during the iteration *)
Theorem iterate_exact shards tti batch now :
  (1 <= batch)%nat ->
  iterate shards tti batch now = (map item_of (filter (live tti now) (concat shards)), true).
Proof.
  intros Hb. unfold iterate.
  destruct (iterate_clk_spec shards tti batch Hb (fun _ => now)) as [out [E S]]; [intros; lia|].
  rewrite E. f_equal. apply (sandwich_eq tti now). exact S.
Qed.

(* the clock may advance between calls of next *)
Theorem iterate_clock shards tti batch (clk : nat -> N) :
  (1 <= batch)%nat -> (forall a b, (a <= b)%nat -> clk a <= clk b) ->
  NoDup (map ekey (concat shards)) ->
  exists out, iterate_clk shards tti batch clk = (out, true)
    /\ NoDup (map fst out)
    /\ (forall x, In x out ->
          exists e, In e (concat shards) /\ x = item_of e /\ live tti (clk 0%nat) e = true)
    /\ (forall e, In e (concat shards) -> live tti (clk (length out)) e = true -> In (item_of e) out).
Proof.
  intros Hb Hm Hnd.
  destruct (iterate_clk_spec shards tti batch Hb clk Hm) as [out [E S]].
  exists out. split; [exact E|]. split; [eapply sandwich_NoDup; eauto|].
  split; [eapply sandwich_sound; eauto | eapply sandwich_complete; eauto].
Qed.

Lemma adv_mono now d K : forall a b : nat, (a <= b)%nat ->
  now + N.of_nat (Nat.min a K) * d <= now + N.of_nat (Nat.min b K) * d.
Proof. intros a b H. nia. Qed.

(* ------------------------------------------------------------------------ *)
(** iter_snapshot *)

Lemma set_nth_length {A} (i : nat) (x : A) l : length (set_nth i x l) = length l.
Proof. revert i. induction l as [|h t IH]; intros [|j]; cbn [set_nth length]; try reflexivity. f_equal. apply IH. Qed.

Lemma nth_set_nth_eq {A} (i : nat) (x d : A) l : (i < length l)%nat -> nth i (set_nth i x l) d = x.
Proof.
  revert i. induction l as [|h t IH]; intros [|j] H; cbn [length] in H; try lia; cbn [set_nth nth]; [reflexivity|].
  apply IH. lia.
Qed.

Lemma nth_set_nth_neq {A} (i j : nat) (x d : A) l : i <> j -> nth j (set_nth i x l) d = nth j l d.
Proof.
  revert i j. induction l as [|h t IH]; intros [|i] [|j] H; cbn [set_nth nth]; try reflexivity; try lia.
  apply IH. lia.
Qed.

Lemma set_nth_same {A} (i : nat) (d : A) l : set_nth i (nth i l d) l = l.
Proof. revert i. induction l as [|h t IH]; intros [|j]; cbn [set_nth nth]; try reflexivity. f_equal. apply IH. Qed.

Lemma set_nth_twice {A} (i : nat) (x y : A) l : set_nth i x (set_nth i y l) = set_nth i x l.
Proof. revert i. induction l as [|h t IH]; intros [|j]; cbn [set_nth]; try reflexivity. f_equal. apply IH. Qed.

Lemma skipn_set_nth {A} (i : nat) (x : A) l : skipn (S i) (set_nth i x l) = skipn (S i) l.
Proof.
  revert i. induction l as [|h t IH]; intros [|j]; cbn [set_nth]; try reflexivity.
  rewrite !skipn_cons. apply IH.
Qed.

Section SnapIter.
  Variable tti : option N.
  Variable now : N.

  (* what a fetch leaves behind *)
  Definition touchl (e : entry) : entry := if is_expired tti now e then e else touch tti now e.

  Lemma touch_key e : ekey (touch tti now e) = ekey e.
  Proof. unfold touch. destruct tti; reflexivity. Qed.

  Lemma touchl_key e : ekey (touchl e) = ekey e.
  Proof. unfold touchl. destruct (is_expired tti now e); [reflexivity|apply touch_key]. Qed.

  Lemma fetch_in_skip k done r :
    (forall e, In e done -> ekey e <> k) ->
    fetch_in tti now k (done ++ r) = (fst (fetch_in tti now k r), done ++ snd (fetch_in tti now k r)).
  Proof.
    induction done as [|e t IH]; intros H; cbn [app fetch_in].
    - destruct (fetch_in tti now k r); reflexivity.
    - destruct (N.eqb_spec (ekey e) k) as [Hk|Hk]; [exfalso; apply (H e); [left; reflexivity|exact Hk]|].
      rewrite IH by (intros e' He'; apply H; right; exact He'). reflexivity.
  Qed.

  Lemma snap_pass_own : forall todo done shards i,
    (i < length shards)%nat ->
    nth i shards [] = done ++ todo ->
    NoDup (map ekey (done ++ todo)) ->
    (forall e, In e todo -> shard_idx (length shards) (ekey e) = i) ->
    snap_pass tti now (map ekey todo) shards
    = (map item_of (filter (live tti now) todo), set_nth i (done ++ map touchl todo) shards).
  Proof.
    induction todo as [|e t IH]; intros done shards i Hi Hn Hnd Hidx.
    - cbn [map snap_pass filter]. rewrite app_nil_r in *. rewrite <- Hn, set_nth_same. reflexivity.
    - cbn [map snap_pass]. unfold fetch.
      rewrite (Hidx e (or_introl eq_refl)), Hn.
      rewrite fetch_in_skip.
      2:{ intros e' He' Hk. rewrite map_app in Hnd. cbn [map] in Hnd.
          apply NoDup_remove_2 in Hnd. apply Hnd. apply in_or_app. left.
          apply in_map_iff. exists e'. split; [exact Hk|exact He']. }
      cbn [fetch_in]. rewrite N.eqb_refl.
      assert (Hstep : forall e', ekey e' = ekey e ->
        snap_pass tti now (map ekey t) (set_nth i (done ++ e' :: t) shards)
        = (map item_of (filter (live tti now) t),
           set_nth i (done ++ e' :: map touchl t) shards)).
      { intros e' Hk.
        rewrite (IH (done ++ [e']) (set_nth i (done ++ e' :: t) shards) i).
        - rewrite set_nth_twice, <- app_assoc. reflexivity.
        - rewrite set_nth_length. exact Hi.
        - rewrite nth_set_nth_eq by exact Hi. rewrite <- app_assoc. reflexivity.
        - rewrite <- app_assoc. cbn [app]. rewrite map_app in *. cbn [map] in *. rewrite Hk. exact Hnd.
        - intros e2 He2. rewrite set_nth_length. apply Hidx. right. exact He2. }
      assert (Hl : live tti now e = negb (is_expired tti now e)) by reflexivity.
      assert (Ht : touchl e = if is_expired tti now e then e else touch tti now e) by reflexivity.
      cbn [filter map]. rewrite Hl, Ht.
      destruct (is_expired tti now e) eqn:Ex; cbn [fst snd negb].
      + rewrite (Hstep e eq_refl). reflexivity.
      + rewrite (Hstep (touch tti now e) (touch_key e)). reflexivity.
  Qed.

  (* every key sits in the shard its hash selects, no key twice in a shard *)
  Definition wf_from (i : nat) (shards : list (list entry)) : Prop :=
    forall j, (i <= j < length shards)%nat ->
      NoDup (map ekey (nth j shards []))
      /\ forall e, In e (nth j shards []) -> shard_idx (length shards) (ekey e) = j.

  Lemma snap_from_spec : forall todo i shards,
    (i + todo = length shards)%nat -> wf_from i shards ->
    fst (snap_from tti now todo i shards)
    = map item_of (filter (live tti now) (concat (skipn i shards))).
  Proof.
    induction todo as [|t IH]; intros i shards Hlen Hwf.
    - cbn [snap_from fst]. rewrite skipn_all2 by lia. reflexivity.
    - cbn [snap_from].
      destruct (Hwf i) as [Hnd Hidx]; [lia|].
      rewrite (snap_pass_own (nth i shards []) [] shards i); [|lia|reflexivity|exact Hnd|exact Hidx].
      cbn [app].
      set (s1 := set_nth i (map touchl (nth i shards [])) shards).
      specialize (IH (S i) s1).
      destruct (snap_from tti now t (S i) s1) as [o2 s2]. cbn [fst] in *.
      rewrite IH.
      + unfold s1. rewrite skipn_set_nth. rewrite (concat_skipn_nth i shards).
        rewrite filter_app, map_app. reflexivity.
      + unfold s1. rewrite set_nth_length. lia.
      + intros j Hj. unfold s1 in *. rewrite set_nth_length in *.
        rewrite nth_set_nth_neq by lia. apply Hwf. lia.
  Qed.

  Theorem snap_iterate_exact shards :
    wf_from 0 shards ->
    fst (snap_iterate tti now shards) = map item_of (filter (live tti now) (concat shards)).
  Proof.
    intros Hwf. unfold snap_iterate. rewrite snap_from_spec; [reflexivity|lia|exact Hwf].
  Qed.
End SnapIter.

(* the quiescent enumeration, as a statement about membership *)
Theorem iterate_each_once shards tti batch now :
  (1 <= batch)%nat -> NoDup (map ekey (concat shards)) ->
  let out := fst (iterate shards tti batch now) in
  snd (iterate shards tti batch now) = true
  /\ NoDup (map fst out)
  /\ Permutation out (map item_of (filter (live tti now) (concat shards)))
  /\ forall k v, In (k, v) out <->
       exists e, In e (concat shards) /\ live tti now e = true /\ ekey e = k /\ eval e = v.
Proof.
  intros Hb Hnd. cbv zeta. rewrite (iterate_exact shards tti batch now Hb). cbn [fst snd].
  split; [reflexivity|]. split.
  - rewrite map_map. cbn [item_of fst].
    assert (H : forall (p : entry -> bool) l, NoDup (map ekey l) -> NoDup (map (fun x => ekey x) (filter p l))).
    { intros p l. induction l as [|h t IH]; cbn [map filter]; intros H; [constructor|].
      inversion H as [|? ? Hni Ht]; subst. destruct (p h); cbn [map]; [|apply IH; exact Ht].
      constructor; [|apply IH; exact Ht]. intros Hin. apply Hni.
      apply in_map_iff in Hin. destruct Hin as [x [Hx Hxi]]. apply filter_In in Hxi.
      apply in_map_iff. exists x. split; [exact Hx|apply Hxi]. }
    apply H. exact Hnd.
  - split; [apply Permutation_refl|].
    intros k v. rewrite in_map_iff. split.
    + intros [e [He Hi]]. apply filter_In in Hi. inversion He; subst. exists e. tauto.
    + intros [e [Hi [Hl [<- <-]]]]. exists e. split; [reflexivity|]. apply filter_In. tauto.
Qed.
