(* Proofs/TopicC06Proofs.v — C06 for the topic flavour: a pending RecvFuture whose registration was not overwritten
   by another future of the same receiver is woken when its poll becomes Ready (all histories). *)
From Fibre Require Import Common.Base Chan.TopicOps Chan.TopicSpec Chan.TopicSpec06 Proofs.TopicLemmas Proofs.TopicInv
     Proofs.TopicInvSub Proofs.TopicInvRx Proofs.TopicInvPub Proofs.TopicInvTx Proofs.TopicOpsProofs Proofs.TopicC04Inv.

Definition idle_reg (y : rxh) (w : N) : Prop :=
  r_live y = true /\ m_waiter (r_mb y) = Some w /\ m_buf (r_mb y) = [] /\ m_disc (r_mb y) = false.

Record Inv6 (s : state) (g : list gfut) : Prop := {
  k_futs : map (fun x => (g_id x, g_rx x)) g = futs s;
  k_nd : NoDup (map g_id g);
  k_reg : forall x w, In x g -> g_pend x = Some w -> g_woken x = false -> g_over x = false ->
          exists y, find_rx (g_rx x) (rxs s) = Some y /\ idle_reg y w
}.

Lemma inv6_init a cap : Inv6 (init a cap) [].
Proof. constructor; [reflexivity | constructor | intros x w []]. Qed.

(* no complaint about a future whose registration was not overwritten *)
Lemma missed_ok s g f b : Inv6 s g -> In (V6Missed f b) (missed s g) -> b = true.
Proof.
  intros K H. unfold missed in H. apply in_flat_map in H. destruct H as [x [Hx Hv]].
  destruct (is_pending x && rx_ready (g_rx x) s) eqn:E; [|destruct Hv]. destruct Hv as [Hv|[]].
  injection Hv as _ <-. destruct (g_over x) eqn:Eo; [reflexivity|]. exfalso.
  apply andb_true_iff in E. destruct E as [E1 E2]. unfold is_pending in E1.
  destruct (g_pend x) as [w|] eqn:Ep; [|discriminate]. apply negb_true_iff in E1.
  destruct (k_reg _ _ K x w Hx Ep E1 Eo) as [y [Hy [L [_ [B D]]]]].
  unfold rx_ready in E2. rewrite Hy, L, B, D in E2. discriminate.
Qed.

(** what a step may do to a mailbox that has a future: leave its idle registration alone, or wake the waker *)
Definition mb_trans (s s1 : state) (wk : list N) : Prop :=
  forall f r y w, In (f, r) (futs s) -> find_rx r (rxs s) = Some y -> idle_reg y w ->
    (exists y1, find_rx r (rxs s1) = Some y1 /\ idle_reg y1 w) \/ In w wk.

Lemma mark_woken_ids wk g : map (fun x => (g_id x, g_rx x)) (mark_woken wk g) = map (fun x => (g_id x, g_rx x)) g.
Proof.
  unfold mark_woken. rewrite map_map. apply map_ext. intros x.
  destruct (g_pend x); [destruct (mem n wk)|]; reflexivity.
Qed.

Lemma mark_woken_gid wk g : map g_id (mark_woken wk g) = map g_id g.
Proof.
  unfold mark_woken. rewrite map_map. apply map_ext. intros x.
  destruct (g_pend x); [destruct (mem n wk)|]; reflexivity.
Qed.

Lemma mark_woken_nil g : mark_woken [] g = g.
Proof.
  unfold mark_woken. rewrite <- (map_id g) at 2. apply map_ext. intros x. destruct (g_pend x); reflexivity.
Qed.

Lemma In_mark_woken wk g x' : In x' (mark_woken wk g) ->
  exists x, In x g /\ g_id x' = g_id x /\ g_rx x' = g_rx x /\ g_pend x' = g_pend x /\ g_over x' = g_over x /\
            (g_woken x' = false -> g_woken x = false /\ forall w, g_pend x = Some w -> mem w wk = false).
Proof.
  unfold mark_woken. intros H. apply in_map_iff in H. destruct H as [x [E Hx]]. exists x. split; [exact Hx|].
  destruct (g_pend x) as [w|] eqn:Ep.
  - destruct (mem w wk) eqn:Em; subst x'.
    + cbn. repeat split; auto; discriminate.
    + repeat split; auto. intros w0 E0. injection E0 as <-. exact Em.
  - subst x'. repeat split; auto. intros w0 E0. discriminate.
Qed.

Lemma futs_In s g x : Inv6 s g -> In x g -> In (g_id x, g_rx x) (futs s).
Proof. intros K H. rewrite <- (k_futs _ _ K). apply (in_map (fun x0 => (g_id x0, g_rx x0))). exact H. Qed.

Lemma inv6_trans s g s1 wk :
  Inv6 s g -> futs s1 = futs s -> mb_trans s s1 wk -> Inv6 s1 (mark_woken wk g).
Proof.
  intros K Ef Ht. constructor.
  - rewrite mark_woken_ids, Ef. apply (k_futs _ _ K).
  - rewrite mark_woken_gid. apply (k_nd _ _ K).
  - intros x' w Hx' Ep Ew Eo. destruct (In_mark_woken _ _ _ Hx') as [x [Hx [E1 [E2 [E3 [E4 E5]]]]]].
    destruct (E5 Ew) as [Ew0 Hm]. rewrite E3 in Ep. rewrite E4 in Eo. rewrite E2.
    destruct (k_reg _ _ K x w Hx Ep Ew0 Eo) as [y [Hy Hi]].
    destruct (Ht (g_id x) (g_rx x) y w (futs_In _ _ _ K Hx) Hy Hi) as [[y1 [A B]]|Hin]; [eauto|].
    apply mem_In in Hin. rewrite (Hm w Ep) in Hin. discriminate.
Qed.

(* receivers keep liveness and mailbox *)
Definition rx_mbl (x : rxh) := (r_id x, r_live x, r_mb x).

Lemma find_mbl r l1 l y : map rx_mbl l1 = map rx_mbl l -> find_rx r l = Some y ->
  exists y1, find_rx r l1 = Some y1 /\ r_live y1 = r_live y /\ r_mb y1 = r_mb y.
Proof.
  unfold find_rx. revert l1. induction l as [|a l IH]; intros l1 E H; [discriminate|].
  destruct l1 as [|a1 l1]; [discriminate|]. cbn [map] in E. apply cons_eq_inv in E. destruct E as [E1 E2].
  assert (Eid : r_id a1 = r_id a /\ r_live a1 = r_live a /\ r_mb a1 = r_mb a) by (unfold rx_mbl in E1; split; [|split]; congruence).
  destruct Eid as [I1 [I2 I3]]. cbn [find] in *. rewrite I1. destruct (N.eqb (r_id a) r).
  - injection H as <-. eauto.
  - apply IH; assumption.
Qed.

Lemma mb_trans_same s s1 wk : map rx_mbl (rxs s1) = map rx_mbl (rxs s) -> mb_trans s s1 wk.
Proof.
  intros E f r y w _ Hy [A [B [C D]]]. left. destruct (find_mbl _ _ _ _ E Hy) as [y1 [H1 [H2 H3]]].
  exists y1. split; [exact H1|]. unfold idle_reg. rewrite H2, H3. auto.
Qed.

Lemma core_mbl l1 l : map rx_core l1 = map rx_core l -> map rx_mbl l1 = map rx_mbl l.
Proof.
  revert l1. induction l as [|a l IH]; intros l1 E; destruct l1 as [|a1 l1]; try discriminate; [reflexivity|].
  cbn [map] in *. apply cons_eq_inv in E. destruct E as [E1 E2]. rewrite (IH _ E2). f_equal.
  unfold rx_core in E1. unfold rx_mbl. congruence.
Qed.

Lemma mbl_upd r f rs : (forall z, rx_mbl (f z) = rx_mbl z) -> map rx_mbl (upd_rx r f rs) = map rx_mbl rs.
Proof.
  intros H. unfold upd_rx. rewrite map_map. apply map_ext. intros a. destruct (N.eqb (r_id a) r); [apply H | reflexivity].
Qed.

Lemma mb_trans_frame s s2 s3 wk :
  mb_trans s s2 wk -> map rx_mbl (rxs s3) = map rx_mbl (rxs s2) -> mb_trans s s3 wk.
Proof.
  intros H E f r y w Hf Hy Hi. destruct (H f r y w Hf Hy Hi) as [[y2 [A [B1 [B2 [B3 B4]]]]]|Hin]; [|right; exact Hin].
  left. destruct (find_mbl _ _ _ _ E A) as [y3 [H1 [H2 H3]]]. exists y3. split; [exact H1|].
  unfold idle_reg. rewrite H2, H3. auto.
Qed.

Lemma find_rx_map r F rs : (forall x, r_id (F x) = r_id x) ->
  find_rx r (map F rs) = match find_rx r rs with Some x => Some (F x) | None => None end.
Proof.
  intros Hid. unfold find_rx. induction rs as [|a l IH]; cbn [map find]; [reflexivity|].
  rewrite Hid. destruct (N.eqb (r_id a) r); [reflexivity | exact IH].
Qed.

Definition step6_ok_for (c : cfg) (o : op) : Prop :=
  forall s sp g s1 rs wk, Inv c s sp -> Inv6 s g -> step c s o = (s1, (rs, wk)) -> Inv6 s1 (g_step g o rs wk).

(* steps that leave liveness and mailboxes of all receivers alone *)
Lemma ok6_same s g s1 wk :
  Inv6 s g -> futs s1 = futs s -> map rx_mbl (rxs s1) = map rx_mbl (rxs s) -> Inv6 s1 (mark_woken wk g).
Proof. intros K Ef E. apply (inv6_trans s); [exact K | exact Ef | apply mb_trans_same; exact E]. Qed.

Lemma ok6_simple c o :
  match o with IsClosedS _ | IsClosedR _ | IsEmptyR _ | CapR _ | ConvS _ | CloneS _ _ | Subscribe _ _ | Unsubscribe _ _
             | ConvR _ | CloseR _ => True | _ => False end -> step6_ok_for c o.
Proof.
  intros Ho s sp g s1 rs wk I K Hs. destruct o; try contradiction; cbn [step g_step] in *.
  - (* CloneS *)
    destruct (live_tx s0 s) as [x|]; [|injection Hs as <- <- <-; apply (ok6_same s); auto].
    destruct (find_tx s' (txs s)); [injection Hs as <- <- <-; apply (ok6_same s); auto|].
    destruct (t_async x); [injection Hs as <- <- <-; apply (ok6_same s); auto|].
    injection Hs as <- <- <-. apply (ok6_same s); auto.
    + destruct (fix04 c && negb (fix04 c && t_closed x)); reflexivity.
    + destruct (fix04 c && negb (fix04 c && t_closed x)); reflexivity.
  - (* ConvS *)
    destruct (live_tx s0 s); injection Hs as <- <- <-; apply (ok6_same s); auto.
  - destruct (live_tx s0 s); injection Hs as <- <- <-; apply (ok6_same s); auto.
  - (* Subscribe *)
    destruct (live_rx r s); injection Hs as <- <- <-; [|apply (ok6_same s); auto].
    destruct (subscribe_core_frame r t s) as [A1 [A2 [A3 [A4 A5]]]]. apply (ok6_same s); [exact K | exact A4 | apply core_mbl; exact A5].
  - destruct (live_rx r s); injection Hs as <- <- <-; [|apply (ok6_same s); auto].
    destruct (unsubscribe_core_frame r t s) as [A1 [A2 [A3 [A4 A5]]]]. apply (ok6_same s); [exact K | exact A4 | apply core_mbl; exact A5].
  - (* CloseR *)
    destruct (live_rx r s) as [x|]; [|injection Hs as <- <- <-; apply (ok6_same s); auto].
    destruct (r_closed x); injection Hs as <- <- <-; [apply (ok6_same s); auto|].
    destruct (close_internal_frame c r (st_set_rxs s (upd_rx r (fun y => rx_set_closed y true) (rxs s))))
      as [A1 [A2 [A3 [A4 A5]]]]. cbv zeta in *.
    apply (ok6_same s); [exact K | exact A3 |].
    rewrite (core_mbl _ _ A4). cbn [rxs st_set_rxs]. apply mbl_upd. reflexivity.
  - (* ConvR *)
    destruct (live_rx r s) as [x|]; [|injection Hs as <- <- <-; apply (ok6_same s); auto].
    destruct (rx_busy r s); injection Hs as <- <- <-; apply (ok6_same s); auto.
    cbn [rxs st_set_rxs]. apply mbl_upd. reflexivity.
  - destruct (live_rx r s); injection Hs as <- <- <-; apply (ok6_same s); auto.
  - destruct (live_rx r s); injection Hs as <- <- <-; apply (ok6_same s); auto.
  - destruct (live_rx r s); injection Hs as <- <- <-; apply (ok6_same s); auto.
Qed.

Lemma ok6_CloneR c r r' : step6_ok_for c (CloneR r r').
Proof.
  intros s sp g s1 rs wk I K Hs. cbn [step g_step] in *.
  destruct (live_rx r s) as [x|]; [|injection Hs as <- <- <-; apply (ok6_same s); auto].
  destruct (find_rx r' (rxs s)) eqn:Hf'; [injection Hs as <- <- <-; apply (ok6_same s); auto|].
  assert (Happ : forall xn s2, rxs s2 = rxs s ++ [xn] -> mb_trans s s2 []).
  { intros xn s2 E f r0 y w _ Hy Hi. left. exists y. split; [|exact Hi]. rewrite E, find_rx_app, Hy. reflexivity. }
  destruct (disp_alive s).
  - injection Hs as <- <- <-.
    set (s2 := st_set_rxs (st_set_rcount s (rcount s + 1)%Z)
                 (rxs s ++ [new_rx r' (r_async x) false (m_cap (r_mb x)) (fix05 c && fix04 c && Z.eqb (scount s) 0)])).
    destruct (fold_frame (fun t a => subscribe_core r' t a) (r_subs x) (fun t s0 => subscribe_core_frame r' t s0) s2)
      as [A1 [A2 [A3 [A4 A5]]]]. cbv zeta in *.
    apply (inv6_trans s); [exact K | rewrite A4; reflexivity|].
    eapply mb_trans_frame; [eapply (Happ _ s2); reflexivity | apply core_mbl; exact A5].
  - injection Hs as <- <- <-. apply (inv6_trans s); [exact K | reflexivity | eapply Happ; reflexivity].
Qed.

Lemma not_busy_neq s r f r0 : rx_busy r s = false -> In (f, r0) (futs s) -> r0 <> r.
Proof.
  intros Hb Hin ->. unfold rx_busy in Hb.
  assert (existsb (fun p => N.eqb (snd p) r) (futs s) = true).
  { apply existsb_exists. exists (f, r). split; [exact Hin | cbn; apply N.eqb_refl]. }
  congruence.
Qed.

Lemma ok6_DropR c r : step6_ok_for c (DropR r).
Proof.
  intros s sp g s1 rs wk I K Hs. cbn [step g_step] in *.
  destruct (live_rx r s) as [x|]; [|injection Hs as <- <- <-; apply (ok6_same s); auto].
  destruct (rx_busy r s) eqn:Hb; [injection Hs as <- <- <-; apply (ok6_same s); auto|].
  injection Hs as <- <- <-.
  set (sA := st_set_rxs s (upd_rx r (fun y0 => rx_set_closed y0 true) (rxs s))).
  set (s2 := if (if r_async x && negb (fix07 c) then true else negb (r_closed x)) then rx_close_internal c r sA else sA).
  assert (Hs2 : futs s2 = futs s /\ map rx_mbl (rxs s2) = map rx_mbl (rxs s)).
  { assert (EA : map rx_mbl (rxs sA) = map rx_mbl (rxs s)) by (apply mbl_upd; reflexivity).
    unfold s2. destruct (if r_async x && negb (fix07 c) then true else negb (r_closed x)); [|auto].
    destruct (close_internal_frame c r sA) as [A1 [A2 [A3 [A4 A5]]]]. cbv zeta in *.
    split; [exact A3 | rewrite (core_mbl _ _ A4); exact EA]. }
  destruct Hs2 as [B1 B2].
  apply (inv6_trans s); [exact K | exact B1|].
  intros f r0 y w Hf Hy Hi. left. pose proof (not_busy_neq _ _ _ _ Hb Hf) as Hne.
  destruct (find_mbl _ _ _ _ B2 Hy) as [y2 [H1 [H2 H3]]].
  exists y2. split.
  - cbn [rxs st_set_rxs]. rewrite find_rx_upd by reflexivity. rewrite H1.
    destruct (N.eqb_spec r0 r); [contradiction | reflexivity].
  - unfold idle_reg. rewrite H2, H3. exact Hi.
Qed.

(** wakes produced by delivering / disconnecting *)
Lemma deliver_list_wakes m : forall l rs x w,
  NoDup (map r_id rs) -> In x rs -> r_live x = true -> In (r_id x) l ->
  In w (snd (mb_deliver (r_mb x) m)) -> In w (snd (deliver_list l m rs)).
Proof.
  induction l as [|a l IH]; intros rs x w Hnd Hx Hl Hin Hw; [destruct Hin|].
  cbn [deliver_list].
  pose proof (deliver_one_spec a m rs Hnd) as H1.
  destruct (deliver_one a m rs) as [rs1 w1] eqn:E1. cbn [fst] in H1.
  destruct (deliver_list l m rs1) as [rs2 w2] eqn:E2. cbn [snd]. apply in_or_app.
  destruct (N.eq_dec (r_id x) a) as [Ea|Ea].
  - left. unfold deliver_one in E1. rewrite (find_rx_NoDup _ _ _ Hnd Hx Ea), Hl in E1.
    destruct (mb_deliver (r_mb x) m) as [mb' w']. injection E1 as _ <-. exact Hw.
  - right. destruct Hin as [Hin|Hin]; [congruence|].
    assert (Hx1 : In x rs1).
    { rewrite H1. apply in_map_iff. exists x. split; [|exact Hx]. unfold deliver_fn, mem. cbn [existsb].
      destruct (N.eqb_spec (r_id x) a); [contradiction|]. rewrite orb_false_r, andb_false_r. reflexivity. }
    assert (Hnd1 : NoDup (map r_id rs1)).
    { rewrite H1, map_map. erewrite map_ext; [exact Hnd|]. intros z. unfold deliver_fn.
      destruct (r_live z && mem (r_id z) [a]); reflexivity. }
    pose proof (IH rs1 x w Hnd1 Hx1 Hl Hin Hw) as P. rewrite E2 in P. exact P.
Qed.

Lemma map_wakes_snd f rs x w : In x rs -> In w (snd (f x)) -> In w (snd (map_wakes f rs)).
Proof.
  induction rs as [|a rs IH]; intros Hx Hw; [destruct Hx|]. cbn [map_wakes].
  destruct (f a) as [a' wa] eqn:Ea. destruct (map_wakes f rs) as [rs' w'] eqn:Er. cbn [snd] in *.
  apply in_or_app. destruct Hx as [->|Hx]; [left; rewrite Ea in Hw; exact Hw | right; apply IH; assumption].
Qed.

Lemma tx_close_internal_wakes c s x w :
  tx_ran c s = true -> In x (rxs s) -> r_live x = true -> (fix05 c || in_lists (r_id x) (lists s)) = true ->
  m_disc (r_mb x) = false -> m_waiter (r_mb x) = Some w -> In w (snd (tx_close_internal c s)).
Proof.
  intros Hr Hx Hl Hi Hd Hw.
  assert (P : forall s', rxs s' = rxs s -> lists s' = lists s -> In w (snd (disconnect_all c s'))).
  { intros s' E1 E2. unfold disconnect_all. rewrite E1, E2.
    pose proof (map_wakes_snd (fun x0 => if r_live x0 && (fix05 c || in_lists (r_id x0) (lists s))
        then let '(m', w0) := mb_disconnect (r_mb x0) in (rx_set_mb x0 m', w0) else (x0, [])) (rxs s) x w Hx) as Q.
    destruct (map_wakes _ (rxs s)) as [rs' w']. cbn [snd] in *. apply Q.
    rewrite Hl, Hi. cbn [andb]. unfold mb_disconnect. rewrite Hd, Hw. cbn. left. reflexivity. }
  unfold tx_close_internal. unfold tx_ran in Hr. destruct (fix04 c); cbn [negb orb] in Hr.
  - rewrite Hr. apply P; reflexivity.
  - apply P; reflexivity.
Qed.

Lemma snd_tx_close_internal_txs c s t : snd (tx_close_internal c (st_set_txs s t)) = snd (tx_close_internal c s).
Proof. unfold tx_close_internal, disconnect_all. cbn [scount rxs lists st_set_txs st_set_scount].
  destruct (fix04 c); [destruct (Z.eqb (scount s) 1)|];
  repeat match goal with |- context [map_wakes ?f ?l] => destruct (map_wakes f l) end; reflexivity.
Qed.

(* close_internal of a sender: every mailbox with an idle registration stays so or its waker is woken *)
Lemma tx_close_trans c s sp : Inv c s sp ->
  forall s1 wk, fst (tx_close_internal c s) = s1 -> snd (tx_close_internal c s) = wk -> mb_trans s s1 wk.
Proof.
  intros I s1 wk E1 E2 f r y w Hf Hy [L [W [B D]]].
  pose proof (find_rx_In _ _ _ Hy) as [Hin Hid].
  rewrite tx_close_internal_fst in E1. subst s1. cbn [rxs st_set_rxs st_set_scount].
  destruct (tx_ran c s) eqn:Hr.
  - rewrite find_rx_map.
    2:{ intros z. unfold disc_fn. destruct (r_live z && (fix05 c || in_lists (r_id z) (lists s))); reflexivity. }
    rewrite Hy. unfold disc_fn. rewrite L. cbn [andb].
    destruct (fix05 c || in_lists (r_id y) (lists s)) eqn:Ei.
    + right. subst wk. eapply tx_close_internal_wakes; eauto.
    + left. exists y. split; [reflexivity|]. repeat split; assumption.
  - left. exists y. split; [exact Hy|]. repeat split; assumption.
Qed.

Lemma ok6_CloseS c h : step6_ok_for c (CloseS h).
Proof.
  intros s sp g s1 rs wk I K Hs. cbn [step g_step] in *.
  destruct (live_tx h s) as [x|]; [|injection Hs as <- <- <-; apply (ok6_same s); auto].
  destruct (t_closed x); [injection Hs as <- <- <-; apply (ok6_same s); auto|].
  pose proof (tx_close_internal_txs c s (upd_tx h (fun y0 => tx_set y0 (t_live y0) (t_async y0) true) (txs s))) as E.
  pose proof (snd_tx_close_internal_txs c s (upd_tx h (fun y0 => tx_set y0 (t_live y0) (t_async y0) true) (txs s))) as E'.
  destruct (tx_close_internal c (st_set_txs s (upd_tx h (fun y0 => tx_set y0 (t_live y0) (t_async y0) true) (txs s))))
    as [s2 w2]. cbn [fst snd] in E, E'. injection Hs as <- <- <-.
  apply (inv6_trans s); [exact K | rewrite E, tx_close_internal_fst; reflexivity|].
  rewrite E, E'. eapply mb_trans_frame; [eapply tx_close_trans; eauto | reflexivity].
Qed.

Lemma ok6_DropS c h : step6_ok_for c (DropS h).
Proof.
  intros s sp g s1 rs wk I K Hs. cbn [step g_step] in *.
  destruct (live_tx h s) as [x|]; [|injection Hs as <- <- <-; apply (ok6_same s); auto].
  destruct (t_closed x).
  - injection Hs as <- <- <-. apply (ok6_same s); auto.
  - destruct (tx_close_internal c s) as [s2 w2] eqn:Ecl. injection Hs as <- <- <-.
    assert (E1 : fst (tx_close_internal c s) = s2) by (rewrite Ecl; reflexivity).
    assert (E2 : snd (tx_close_internal c s) = w2) by (rewrite Ecl; reflexivity).
    apply (inv6_trans s); [exact K | rewrite <- E1, tx_close_internal_fst; reflexivity|].
    eapply mb_trans_frame; [eapply tx_close_trans; eauto | reflexivity].
Qed.

Lemma ok6_Publish c h t v : step6_ok_for c (Publish h t v).
Proof.
  intros s sp g s1 rs wk I K Hs. cbn [step g_step] in *.
  destruct (live_tx h s) as [x|]; [|injection Hs as <- <- <-; apply (ok6_same s); auto].
  destruct (t_closed x || Z.eqb (rcount s) 0); [injection Hs as <- <- <-; apply (ok6_same s); auto|].
  destruct (get_list t (lists s)) as [l|] eqn:El; [|injection Hs as <- <- <-; apply (ok6_same s); auto].
  pose proof (deliver_list_spec (t, v) l (rxs s) (i_lnd _ _ _ I _ _ El) (i_rnd _ _ _ I)) as Hd.
  destruct (deliver_list l (t, v) (rxs s)) as [rs' w'] eqn:Edl. cbn [fst] in Hd. subst rs'.
  injection Hs as <- <- <-.
  apply (inv6_trans s); [exact K | reflexivity|].
  intros f r y w Hf Hy [L [W [B D]]]. pose proof (find_rx_In _ _ _ Hy) as [Hin Hid].
  cbn [rxs st_set_rxs]. rewrite find_rx_map.
  2:{ intros z. unfold deliver_fn. destruct (r_live z && mem (r_id z) l); reflexivity. }
  rewrite Hy. unfold deliver_fn. rewrite L. cbn [andb].
  destruct (mem (r_id y) l) eqn:Em; [|left; exists y; split; [reflexivity | repeat split; assumption]].
  unfold mb_deliver. rewrite B. cbn [length]. destruct (N.leb (m_cap (r_mb y)) (N.of_nat 0)) eqn:Ec.
  - left. eexists. split; [reflexivity|]. cbn. repeat split; assumption.
  - right. apply mem_In in Em.
    pose proof (deliver_list_wakes (t, v) l (rxs s) y w (i_rnd _ _ _ I) Hin L Em) as P. rewrite Edl in P. apply P.
    unfold mb_deliver. rewrite B. cbn [length]. rewrite Ec, W. cbn. left. reflexivity.
Qed.

(** receive forms that are not future polls *)
Lemma recv_core_trans s r x none reg s1 rs w :
  live_rx r s = Some x -> (reg <> None -> rx_busy r s = false) ->
  recv_core r x none reg s = (s1, (rs, w)) ->
  futs s1 = futs s /\ w = [] /\ mb_trans s s1 [].
Proof.
  intros Hl Hreg Hrc. apply live_rx_spec in Hl. destruct Hl as [Hx Hlive].
  unfold recv_core, mb_pop in Hrc.
  destruct (m_buf (r_mb x)) as [|[t v] b] eqn:Eb.
  - destruct (m_disc (r_mb x)) eqn:Ed.
    + injection Hrc as <- <- <-. split; [reflexivity|]. split; [reflexivity|]. apply mb_trans_same. reflexivity.
    + destruct reg as [wk|].
      * injection Hrc as <- <- <-. split; [reflexivity|]. split; [reflexivity|].
        intros f r0 y w0 Hf Hy Hi. left. pose proof (not_busy_neq _ _ _ _ (Hreg ltac:(discriminate)) Hf) as Hne.
        exists y. split; [|exact Hi]. cbn [rxs st_set_rxs]. rewrite find_rx_upd by reflexivity. rewrite Hy.
        destruct (N.eqb_spec r0 r); [contradiction | reflexivity].
      * injection Hrc as <- <- <-. split; [reflexivity|]. split; [reflexivity|]. apply mb_trans_same. reflexivity.
  - injection Hrc as <- <- <-. split; [reflexivity|]. split; [reflexivity|].
    intros f r0 y w0 Hf Hy [L [W [B D]]]. left.
    destruct (N.eq_dec r0 r) as [->|Hne].
    + assert (y = x) by congruence. subst y. congruence.
    + exists y. split; [|repeat split; assumption]. cbn [rxs st_set_rxs]. rewrite find_rx_upd by reflexivity. rewrite Hy.
      destruct (N.eqb_spec r0 r); [contradiction | reflexivity].
Qed.

Lemma ok6_recv c o :
  match o with TryRecv _ | RecvTimeout0 _ | PollNext _ _ => True | _ => False end -> step6_ok_for c o.
Proof.
  intros Ho s sp g s1 rs wk I K Hs. destruct o; try contradiction; cbn [step g_step] in *.
  - destruct (live_rx r s) as [x|] eqn:Hl; [|injection Hs as <- <- <-; apply (ok6_same s); auto].
    destruct (recv_core_trans s r x REmpty None s1 rs wk Hl ltac:(congruence) Hs) as [A [-> B]].
    apply (inv6_trans s); assumption.
  - destruct (live_rx r s) as [x|] eqn:Hl; [|injection Hs as <- <- <-; apply (ok6_same s); auto].
    destruct (r_async x); [injection Hs as <- <- <-; apply (ok6_same s); auto|].
    destruct (r_closed x).
    + destruct (recv_core_trans s r x RDisc None s1 rs wk Hl ltac:(congruence) Hs) as [A [-> B]].
      apply (inv6_trans s); assumption.
    + destruct (recv_core_trans s r x RTimeout None s1 rs wk Hl ltac:(congruence) Hs) as [A [-> B]].
      apply (inv6_trans s); assumption.
  - destruct (live_rx r s) as [x|] eqn:Hl; [|injection Hs as <- <- <-; apply (ok6_same s); auto].
    destruct (negb (r_async x)); [injection Hs as <- <- <-; apply (ok6_same s); auto|].
    destruct (rx_busy r s) eqn:Hb; [injection Hs as <- <- <-; apply (ok6_same s); auto|].
    destruct (recv_core_trans s r x RPending (Some w) s1 rs wk Hl (fun _ => Hb) Hs) as [A [-> B]].
    apply (inv6_trans s); assumption.
Qed.

(** futures: create / drop / poll *)
Lemma ok6_MkRecv c f r : step6_ok_for c (MkRecv f r).
Proof.
  intros s sp g s1 rs wk I K Hs. cbn [step g_step] in *.
  destruct (live_rx r s) as [x|] eqn:Hl; [|injection Hs as <- <- <-; apply (ok6_same s); auto].
  destruct (negb (r_async x)); [injection Hs as <- <- <-; apply (ok6_same s); auto|].
  destruct (existsb (fun p => N.eqb (fst p) f) (futs s)) eqn:Ex; [injection Hs as <- <- <-; apply (ok6_same s); auto|].
  injection Hs as <- <- <-. rewrite mark_woken_nil. constructor.
  - rewrite map_app. cbn. rewrite (k_futs _ _ K). reflexivity.
  - rewrite map_app. cbn [map g_id]. apply NoDup_snoc; [apply (k_nd _ _ K)|].
    intros Hin. apply in_map_iff in Hin. destruct Hin as [e [Ee He]].
    assert (existsb (fun p => N.eqb (fst p) f) (futs s) = true).
    { apply existsb_exists. exists (g_id e, g_rx e). split; [apply (futs_In _ _ _ K He) | cbn; rewrite Ee; apply N.eqb_refl]. }
    congruence.
  - intros e w Hin Ep Ew Eo. apply in_app_or in Hin. destruct Hin as [Hin|[<-|[]]]; [|discriminate].
    apply (k_reg _ _ K e w Hin Ep Ew Eo).
Qed.

Lemma map_filter_fut f g :
  map (fun x => (g_id x, g_rx x)) (filter (fun x => negb (N.eqb (g_id x) f)) g) =
  filter (fun p => negb (N.eqb (fst p) f)) (map (fun x => (g_id x, g_rx x)) g).
Proof.
  induction g as [|a g IH]; cbn [map filter fst]; [reflexivity|].
  destruct (negb (N.eqb (g_id a) f)); cbn [map]; rewrite IH; reflexivity.
Qed.

Lemma NoDup_map_filter {A B} (f : A -> B) (P : A -> bool) l : NoDup (map f l) -> NoDup (map f (filter P l)).
Proof.
  induction l as [|a l IH]; cbn [map filter]; intros H; [constructor|].
  inversion H as [|? ? Hni Hnd]; subst. destruct (P a); [|apply IH; exact Hnd].
  cbn [map]. constructor; [|apply IH; exact Hnd].
  intros Hin. apply Hni. apply in_map_iff in Hin. destruct Hin as [e [Ee He]]. apply filter_In in He.
  apply in_map_iff. exists e. tauto.
Qed.

Lemma ok6_DropF c f : step6_ok_for c (DropF f).
Proof.
  intros s sp g s1 rs wk I K Hs. cbn [step g_step] in *.
  destruct (find (fun p => N.eqb (fst p) f) (futs s)); [|injection Hs as <- <- <-; apply (ok6_same s); auto].
  injection Hs as <- <- <-. rewrite mark_woken_nil. constructor.
  - rewrite map_filter_fut, (k_futs _ _ K). reflexivity.
  - apply NoDup_map_filter. apply (k_nd _ _ K).
  - intros e w Hin Ep Ew Eo. apply filter_In in Hin. destruct Hin as [Hin _]. apply (k_reg _ _ K e w Hin Ep Ew Eo).
Qed.

Lemma find_fut_ghost f g :
  find (fun p => N.eqb (fst p) f) (map (fun x => (g_id x, g_rx x)) g) =
  match find_gf f g with Some e => Some (g_id e, g_rx e) | None => None end.
Proof.
  unfold find_gf. induction g as [|a g IH]; cbn [map find fst]; [reflexivity|].
  destruct (N.eqb (g_id a) f); [reflexivity | exact IH].
Qed.

Lemma find_gf_In f g e : find_gf f g = Some e -> In e g /\ g_id e = f.
Proof. unfold find_gf. intros H. apply find_some in H. destruct H as [A B]. apply N.eqb_eq in B. auto. Qed.

Lemma gf_unique g e x : NoDup (map g_id g) -> In e g -> In x g -> g_id x = g_id e -> x = e.
Proof.
  induction g as [|a g IH]; intros Hnd He Hx E; [destruct He|].
  cbn [map] in Hnd. inversion Hnd as [|? ? Hni Hnd']; subst.
  destruct He as [->|He], Hx as [->|Hx]; auto.
  - exfalso. apply Hni. rewrite <- E. apply in_map. exact Hx.
  - exfalso. apply Hni. rewrite E. apply in_map. exact He.
Qed.

Lemma ok6_Poll c f w0 : step6_ok_for c (Poll f w0).
Proof.
  intros s sp g s1 rs wk I K Hs. cbn [step] in Hs.
  pose proof (find_fut_ghost f g) as Hfg. rewrite (k_futs _ _ K) in Hfg.
  destruct (find (fun p => N.eqb (fst p) f) (futs s)) as [[f' r0]|] eqn:Hf.
  2:{ injection Hs as <- <- <-. cbn [g_step]. apply (ok6_same s); auto. }
  destruct (find_gf f g) as [e|] eqn:He; [|discriminate]. injection Hfg as -> ->.
  destruct (find_gf_In _ _ _ He) as [Hein Heid].
  destruct (live_rx (g_rx e) s) as [x|] eqn:Hl.
  2:{ injection Hs as <- <- <-. cbn [g_step]. apply (ok6_same s); auto. }
  apply live_rx_spec in Hl. destruct Hl as [Hx Hlive].
  unfold recv_core, mb_pop in Hs.
  (* the ghost after a poll that returned Ready *)
  assert (Hready : forall s1', (forall x0 y w, In x0 g -> g_id x0 <> f -> find_rx (g_rx x0) (rxs s) = Some y -> idle_reg y w ->
                      exists y1, find_rx (g_rx x0) (rxs s1') = Some y1 /\ idle_reg y1 w) -> futs s1' = futs s ->
            Inv6 s1' (map (fun x0 => if N.eqb (g_id x0) f then gf_set x0 None false false else x0) g)).
  { intros s1' Hkeep Ef. constructor.
    - rewrite map_map, Ef, <- (k_futs _ _ K). apply map_ext. intros a. destruct (N.eqb (g_id a) f); reflexivity.
    - rewrite map_map. erewrite map_ext; [apply (k_nd _ _ K)|]. intros a. destruct (N.eqb (g_id a) f); reflexivity.
    - intros x' w Hx' Ep Ew Eo. apply in_map_iff in Hx'. destruct Hx' as [x0 [E Hx0]].
      destruct (N.eqb_spec (g_id x0) f) as [Eid|Eid]; subst x'; [discriminate|].
      destruct (k_reg _ _ K x0 w Hx0 Ep Ew Eo) as [y [Hy Hi]]. eapply Hkeep; eauto. }
  destruct (m_buf (r_mb x)) as [|[t v] b] eqn:Eb.
  - destruct (m_disc (r_mb x)) eqn:Ed.
    + injection Hs as <- <- <-. cbn [g_step]. rewrite mark_woken_nil. apply Hready; [|reflexivity]. eauto.
    + injection Hs as <- <- <-. cbn [g_step]. rewrite mark_woken_nil, He. constructor.
      * rewrite map_map. cbn [futs st_set_rxs]. rewrite <- (k_futs _ _ K). apply map_ext. intros a.
        destruct (N.eqb (g_id a) f); [reflexivity|]. destruct (N.eqb (g_rx a) (g_rx e) && is_pending a); reflexivity.
      * rewrite map_map. erewrite map_ext; [apply (k_nd _ _ K)|]. intros a.
        destruct (N.eqb (g_id a) f); [reflexivity|]. destruct (N.eqb (g_rx a) (g_rx e) && is_pending a); reflexivity.
      * intros x' w Hx' Ep Ew Eo. apply in_map_iff in Hx'. destruct Hx' as [x0 [E Hx0]].
        cbn [rxs st_set_rxs]. destruct (N.eqb_spec (g_id x0) f) as [Eid|Eid].
        -- subst x'. cbn in Ep. injection Ep as <-. cbn [g_rx gf_set].
           assert (x0 = e) by (eapply gf_unique; eauto; [apply (k_nd _ _ K) | congruence]). subst x0.
           rewrite find_rx_upd by reflexivity. rewrite Hx, N.eqb_refl. eexists. split; [reflexivity|].
           unfold idle_reg. cbn. auto.
        -- destruct (N.eqb (g_rx x0) (g_rx e) && is_pending x0) eqn:Eb2; subst x'; [discriminate|].
           assert (Hp : is_pending x0 = true) by (unfold is_pending; rewrite Ep, Ew; reflexivity).
           rewrite Hp, andb_true_r in Eb2. apply N.eqb_neq in Eb2.
           destruct (k_reg _ _ K x0 w Hx0 Ep Ew Eo) as [y [Hy Hi]]. exists y. split; [|exact Hi].
           rewrite find_rx_upd by reflexivity. rewrite Hy. destruct (N.eqb_spec (g_rx x0) (g_rx e)); [contradiction | reflexivity].
  - injection Hs as <- <- <-. cbn [g_step]. rewrite mark_woken_nil. apply Hready; [|reflexivity].
    intros x0 y w Hx0 Hne Hy [L [W [B D]]]. cbn [rxs st_set_rxs]. rewrite find_rx_upd by reflexivity. rewrite Hy.
    destruct (N.eqb_spec (g_rx x0) (g_rx e)) as [E|E].
    + rewrite E in Hy. assert (y = x) by congruence. subst y. congruence.
    + exists y. split; [reflexivity | repeat split; assumption].
Qed.

Theorem step6_ok c o : step6_ok_for c o.
Proof.
  destruct o.
  - apply ok6_Publish.
  - apply ok6_simple. exact Logic.I.
  - apply ok6_CloseS.
  - apply ok6_DropS.
  - apply ok6_simple. exact Logic.I.
  - apply ok6_simple. exact Logic.I.
  - apply ok6_simple. exact Logic.I.
  - apply ok6_simple. exact Logic.I.
  - apply ok6_CloneR.
  - apply ok6_simple. exact Logic.I.
  - apply ok6_DropR.
  - apply ok6_simple. exact Logic.I.
  - apply ok6_recv. exact Logic.I.
  - apply ok6_recv. exact Logic.I.
  - apply ok6_MkRecv.
  - apply ok6_Poll.
  - apply ok6_DropF.
  - apply ok6_recv. exact Logic.I.
  - apply ok6_simple. exact Logic.I.
  - apply ok6_simple. exact Logic.I.
  - apply ok6_simple. exact Logic.I.
Qed.

Lemma check6_sound c : forall h s sp g, Inv c s sp -> Inv6 s g ->
  forall f b, In (V6Missed f b) (check6_from c s g h) -> b = true.
Proof.
  induction h as [|o h IH]; intros s sp g I K f b Hv; [destruct Hv|].
  cbn [check6_from] in Hv. destruct (step c s o) as [s1 [rs wk]] eqn:Es.
  pose proof (step6_ok c o s sp g s1 rs wk I K Es) as K1.
  destruct (sp_step sp o rs) as [sp1 vs0] eqn:Ep0.
  destruct (step_ok c o s sp s1 rs wk sp1 vs0 I Es Ep0) as [I1 _].
  apply in_app_or in Hv. destruct Hv as [Hv|Hv].
  - eapply missed_ok; eauto.
  - eapply IH; eauto.
Qed.

(** C06 for topic futures.  Full statement: no future that is pending, un-woken and ready. *)
Definition C06_topic_full (c : cfg) : Prop := forall a cap h, violations6 c a cap h = [].

Definition w_two_futures : list op :=
  [Subscribe 0 0; MkRecv 0 0; MkRecv 1 0; Poll 0 0; Poll 1 1; Publish 0 0 1; Publish 0 0 2; Poll 1 1].

Theorem c06_refuted_two_futures : ~ C06_topic_full pre_fix /\ ~ C06_topic_full post_fix.
Proof. split; intros H; specialize (H true 2 w_two_futures); vm_compute in H; discriminate. Qed.

Lemma witness_two_futures :
  violations6 pre_fix true 2 w_two_futures = [V6Missed 0 true; V6Missed 0 true; V6Missed 0 true].
Proof. vm_compute. reflexivity. Qed.

(* every missed wake-up concerns a future whose registration was overwritten by a later Pending poll of
   another future of the same receiver handle *)
Theorem c06_except_overwritten c a cap h f b : In (V6Missed f b) (violations6 c a cap h) -> b = true.
Proof.
  intros Hv. unfold violations6 in Hv. eapply check6_sound; eauto; [apply inv_init | apply inv6_init].
Qed.

(* cancellation: dropping a future touches nothing but the set of futures *)
Theorem c06_drop_future_harmless c s f s1 rs wk :
  step c s (DropF f) = (s1, (rs, wk)) ->
  rxs s1 = rxs s /\ txs s1 = txs s /\ lists s1 = lists s /\ rcount s1 = rcount s /\ wk = [] /\
  forall f' r, In (f', r) (futs s1) -> f' <> f /\ In (f', r) (futs s).
Proof.
  cbn [step]. destruct (find (fun p => N.eqb (fst p) f) (futs s)) eqn:E; intros H; injection H as <- <- <-.
  - repeat split; auto.
    + cbn in H. apply filter_In in H. destruct H as [_ H]. cbn in H. intros ->. rewrite N.eqb_refl in H. discriminate.
    + cbn in H. apply filter_In in H. tauto.
  - repeat split; auto. intros ->.
    assert (Hn := find_none _ _ E (f, r) H). cbn in Hn. rewrite N.eqb_refl in Hn. discriminate.
Qed.
