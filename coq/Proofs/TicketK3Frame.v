(* Proofs/TicketK3Frame.v — frame lemmas for SInv: steps that change only a pc (plus fields the
   invariant does not mention), only `drained`, only `progress`. *)
From Fibre Require Import Common.Base Common.Conc Chan.TicketK3 Proofs.TicketK3Base.
From Coq Require Import ZifyBool ZifyNat ZifyN Arith.

(* the fields SInv reads, except the pcs, pseq, and the two published counters (about which SInv
   only says that they are behind the cursor) *)
Record same_core (s s' : st) : Prop := {
  sc_gtail : gtail s' = gtail s;
  sc_retired : retired s' = retired s;
  sc_ids : ids s' = ids s;
  sc_sstate : sstate s' = sstate s;
  sc_sdata : sdata s' = sdata s;
  sc_hcid : hcid s' = hcid s;
  sc_hidx : hidx s' = hidx s;
  sc_hpos : hpos s' = hpos s;
  sc_tk : tk s' = tk s;
  sc_bad : bad s' = bad s
}.

Lemma dataof_updn tkf pcf sq sq' tak hp u p t :
  wval_of p = wval_of (pcf u) ->
  (forall th, th <> u -> sq' th = sq th) ->
  (wval_of p <> None -> sq' u = sq u) ->
  dataof tkf (updn pcf u p) sq' tak hp t = dataof tkf pcf sq tak hp t.
Proof.
  intros Hw Hs Hu. unfold dataof. destruct (tkf t) as [|th|v|]; try reflexivity.
  destruct (Nat.eqb_spec th u) as [->|Hne].
  - rewrite updn_eq, <- Hw. destruct (wval_of p) as [[t0 i]|]; [rewrite Hu by discriminate; reflexivity | reflexivity].
  - rewrite updn_neq by exact Hne. rewrite Hs by exact Hne. reflexivity.
Qed.

Section Frame.
Variables cap cc n kk : N.

(* a producer step that changes only its own pc (and possibly its op counter) *)
Lemma SInv_p_pure s s' u p :
  SInv cap cc n s -> same_core s s' -> progress s' <= hpos s -> drained s' <= hpos s -> cpc s' = cpc s ->
  ppc s' = updn (ppc s) u p ->
  (forall th, th <> u -> pseq s' th = pseq s th) ->
  (wval_of p <> None -> pseq s' u = pseq s u) ->
  own_lo p = own_lo (ppc s u) -> own_hi p = own_hi (ppc s u) -> wval_of p = wval_of (ppc s u) ->
  PInv cap cc n (hpos s) (retired s) (ids s) p ->
  SInv cap cc n s'.
Proof.
  intros [A1 A2 A3 A4 A5 A6 B1 B2 B3 P D T E R C Bd] [e1 e4 e5 e6 e7 e8 e9 e10 e11 e12] Hpr Hdr Ec Ep Hs Hu Hl Hh Hw Hp.
  constructor; rewrite ?e1, ?e4, ?e5, ?e6, ?e7, ?e8, ?e9, ?e10, ?e11, ?e12, ?Ec, ?Ep; try assumption.
  - intros t th. destruct (Nat.eqb_spec th u) as [->|Hne].
    + rewrite updn_eq. unfold owns. rewrite Hl, Hh. apply B3.
    + rewrite updn_neq by exact Hne. apply B3.
  - intros th. destruct (Nat.eqb_spec th u) as [->|Hne].
    + rewrite updn_eq. exact Hp.
    + rewrite updn_neq by exact Hne. apply P.
  - intros j i Hj Hi. cbv zeta. rewrite (dataof_updn _ _ (pseq s) (pseq s')) by assumption. apply E; assumption.
Qed.

(* a consumer step that changes only its pc *)
Lemma SInv_c_pure s s' p :
  SInv cap cc n s -> same_core s s' -> progress s' <= hpos s -> drained s' <= hpos s ->
  cpc s' = p -> ppc s' = ppc s -> pseq s' = pseq s ->
  taken p = taken (cpc s) ->
  CInv cc n (ids s) (sstate s) (hcid s) (hidx s) p ->
  SInv cap cc n s'.
Proof.
  intros [A1 A2 A3 A4 A5 A6 B1 B2 B3 P D T E R C Bd] [e1 e4 e5 e6 e7 e8 e9 e10 e11 e12] Hpr Hdr Ec Ep Es Ht Hc.
  constructor; rewrite ?e1, ?e4, ?e5, ?e6, ?e7, ?e8, ?e9, ?e10, ?e11, ?e12, ?Ec, ?Ep, ?Es, ?Ht; assumption.
Qed.
End Frame.
