(* Proofs/HRwBase.v — basics for the HybridRwLock proofs: list lemmas, classification of program
   counters, inversion of `rdispatch`, step case-analysis tactic. *)
From Coq Require Import List NArith Arith Bool Lia.
From Fibre Require Import Common.Conc Sync.HMutex Sync.HRwLock Proofs.HMutexBase.
Import ListNotations.

Lemma qmem_In t l : qmem t l = true <-> exists b, In (t, b) l.
Proof.
  unfold qmem. rewrite existsb_exists. split.
  - intros [[u b] [Hx E]]. cbn in E. apply Nat.eqb_eq in E. subst. exists b. exact Hx.
  - intros [b H]. exists (t, b). split; [exact H|]. cbn. apply Nat.eqb_refl.
Qed.

Lemma qrem_In u b t l : In (u, b) (qrem t l) <-> In (u, b) l /\ u <> t.
Proof.
  unfold qrem. rewrite filter_In. cbn. split; intros [H1 H2]; split; auto.
  - intros ->. rewrite Nat.eqb_refl in H2. discriminate.
  - destruct (Nat.eqb_spec u t); [contradiction|reflexivity].
Qed.

Lemma nwriters_In u l : In (u, true) l -> nwriters l <> 0.
Proof.
  unfold nwriters. intros H. assert (X : In (u, true) (filter snd l)) by (apply filter_In; split; [exact H|reflexivity]).
  destruct (filter snd l); [destruct X|discriminate].
Qed.

Lemma In_app1 {A} (x y : A) l : In x (l ++ [y]) <-> In x l \/ x = y.
Proof. rewrite in_app_iff. cbn. intuition. Qed.

(* which guard a thread holds at a pc *)
Definition holdsk (k : rw) (p : rpc) : bool :=
  match p with
  | RCS k' | RURel k' => rw_eqb k k'
  | RLLSwap (RLX q) | RLLLoad (RLX q) | RLLSpin (RLX q) | RFix1 (RFX q) | RFix2 (RFX q) | RXUnl q
  | RFix1 (RFQ q) | RFix2 (RFQ q) | RQUnl q true => rw_eqb k (rkind_q q)
  | _ => false
  end.

Definition rinlist (p : rpc) : bool :=
  match p with
  | RQRearm _ | RQFor _ | RQLoad _ | RQCas _ _ _ _ | RFix1 _ | RFix2 _ | RQUnl _ _ | RXUnl _
  | RWSweep _ | RWUnl _ | RDUnl => true
  | _ => false
  end.

Definition rstart_actx (f : option (rw * bool)) (a : ractx) : Prop :=
  match f with
  | None => (exists k, a = RALock k) \/ (exists k, a = RAFirst k true) \/ (exists k, a = RATry k)
            \/ (exists k, a = RAFirst k false)
  | Some (k', _) => (exists k, a = RATry k) \/ a = RAPoll k' false
  end.

Lemma rw_eqb_eq a b : rw_eqb a b = true -> a = b.
Proof. destruct a, b; cbn; congruence. Qed.

Lemma rdispatch_inv s t c p s' e :
  rdispatch s t c p = Some (s', e) ->
  exists p',
    ((rfut s t <> None /\ rdo_llswap (rs_prog s t p') t RLDrop = Some (s', e)) \/
     (rfut s t <> None /\ rdo_wait (rs_prog s t p') t c = Some (s', e))) \/
    (exists a, rstart_actx (rfut s t) a /\ rdo_taload (rs_prog s t p') t a = Some (s', e)).
Proof.
  revert s. induction p as [|o r IH]; intros s H; cbn [rdispatch] in H.
  - destruct (rfut s t) eqn:F; [|discriminate]. exists []. left. left. split; [congruence|exact H].
  - destruct o.
    + destruct (rfut s t) eqn:F.
      * exists (ROLock k :: r). left. left. split; [congruence|exact H].
      * exists r. right. exists (RALock k). split; [cbn; eauto|exact H].
    + exists r. right. exists (RATry k). split; [|exact H]. destruct (rfut s t) as [[k' b]|]; cbn; eauto.
    + destruct (rfut s t) eqn:F.
      * exists (ROAsync k :: r). left. left. split; [congruence|exact H].
      * exists r. right. exists (RAFirst k true). split; [cbn; eauto|exact H].
    + destruct (rfut s t) as [[k' b]|] eqn:F.
      * destruct (rw_eqb k k') eqn:EK.
        -- apply rw_eqb_eq in EK. subst k'. exists r. right. exists (RAPoll k false). split; [cbn; auto|exact H].
        -- exists (ROPoll k :: r). left. left. split; [congruence|exact H].
      * exists r. right. exists (RAFirst k false). split; [cbn; eauto 6|exact H].
    + destruct (rfut s t) eqn:F.
      * exists r. left. left. split; [congruence|exact H].
      * apply IH in H. rewrite F in H. exact H.
    + destruct (rfut s t) eqn:F.
      * exists r. left. right. split; [congruence|exact H].
      * apply IH in H. rewrite F in H. exact H.
Qed.

Ltac rsimpl :=
  cbn [wl wp hq rd rllock rqueue rnarm rnwk rtoken rbwoken rprog rpcs rfut wholders rholders rresults
       rs_word rs_wl rs_wp rs_hq rs_rd rs_llock rs_queue rs_narm rs_nwk rs_token rs_bwoken rs_prog rs_pc
       rs_fut rs_wholders rs_rholders rlog] in *.

(* rflush ends in RIdle or RWWake and only sets block_on flags *)
Lemma rflush_pcs s t ws u : u <> t -> rpcs (rflush s t ws) u = rpcs s u.
Proof.
  revert s. induction ws as [|[k h] r IH]; intros s Hu; cbn [rflush].
  - cbn. apply upd_neq. exact Hu.
  - destruct k.
    + cbn. apply upd_neq. exact Hu.
    + cbn. apply upd_neq. exact Hu.
    + apply IH. exact Hu.
Qed.

Ltac rbreak_match H :=
  match type of H with
  | context [match ?x with _ => _ end] =>
      lazymatch x with
      | context [match _ with _ => _ end] => fail
      | _ => let y := fresh "v" in let E := fresh "E" in
             remember x as y eqn:E in H; symmetry in E; destruct y
      end
  end.

(* case analysis of one step; the wake list of RWUnl / RWWake stays symbolic (rflush) *)
Ltac rstep_cases H :=
  unfold rwstep in H;
  match type of H with context [rpcs ?s ?t] =>
    let y := fresh "v" in remember (rpcs s t) as y eqn:Epc in H; symmetry in Epc; destruct y end;
  [ apply rdispatch_inv in H;
    let p' := fresh "p'" in let a := fresh "a" in let Ha := fresh "Ha" in let Hf := fresh "Hf" in
    destruct H as [p' [[[Hf H]|[Hf H]]|[a [Ha H]]]];
    [ | | unfold rstart_actx in Ha;
          match type of Ha with context [rfut ?s ?t] =>
            let y := fresh "v" in remember (rfut s t) as y eqn:Ef in Ha; symmetry in Ef;
            destruct y as [[? ?]|] end;
          repeat match type of Ha with _ \/ _ => destruct Ha as [Ha|Ha] end;
          lazymatch type of Ha with ex _ => destruct Ha as [? Ha] | _ => idtac end; subst a ]
  | .. ];
  unfold rdo_taload, ta_fail, rdo_llswap, rdo_wait, rafter_llock, rblock_next, rdo_fix1, after_acq_a, rret in H;
  rsimpl; cbv beta iota zeta in H;
  repeat (rbreak_match H; rsimpl; cbv beta iota zeta in H);
  try discriminate H;
  match type of H with Some (?a, ?b) = Some (?s', ?e) => inversion H; subst s' e; clear H end;
  repeat match goal with
         | E : ?x = _ |- _ =>
             is_var x;
             lazymatch type of x with
             | ractx => subst x | rqctx => subst x | rlctx => subst x | bool => subst x | rfixk => subst x
             | option _ => subst x | wk => subst x | rpc => subst x | rw => subst x | prod _ _ => subst x
             end
         end.

Lemma rstep_probe s t c s' e : rwstep s t c = Some (s', e) -> True.
Proof.
  intros H. rstep_cases H.
  all: exact I.
Qed.
