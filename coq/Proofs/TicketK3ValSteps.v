(* Proofs/TicketK3ValSteps.v — VInv is preserved by every step (given SInv of the pre-state); the
   combined invariant holds in every reachable state. *)
From Fibre Require Import Common.Base Common.Conc Chan.TicketK3 Proofs.TicketK3Base Proofs.TicketK3Frame
  Proofs.TicketK3Prod Proofs.TicketK3Cons Proofs.TicketK3Safety Proofs.TicketK3Values.
From Coq Require Import ZifyBool ZifyNat ZifyN Arith.

Section ValSteps.
Variables cap cc n kk : N.
Variable np : nat.
Hypothesis Hcc : 0 < cc.
Hypothesis Hn : 0 < n.

(* ------------------------------------------------------------ D4 *)
Lemma VInv_take s d v X :
  VInv s -> cpc s = CD4 d -> tk s (hpos s) = TSet v ->
  VInv (set_cpc (set_chand (set_received (set_sdata s X) (received s ++ [v])) v) (CD5 d true)).
Proof.
  intros [V1 V2 V3 V4 V5 V6] Epc Hv. unfold hand_c in V6. rewrite Epc in V1, V6. cbn [taken hand] in V1, V6.
  rewrite app_nil_r in V1, V6.
  constructor; unfold got, hand_c in *; st_goal; try assumption.
  - cbn [taken]. rewrite Hv. cbn [tk_val]. rewrite V1. reflexivity.
  - cbn [hand]. rewrite V6. reflexivity.
Qed.

(* ------------------------------------------------------------ D5 *)
Lemma VInv_advance s d b u p X :
  SInv cap cc n s -> VInv s -> cpc s = CD5 d b -> taken p = false -> hand p = b ->
  VInv (set_cpc (set_unpub (set_hpos (set_hidx (set_sstate s X) (hidx s + 1)) (hpos s + 1)) u) p).
Proof.
  intros I [V1 V2 V3 V4 V5 V6] Epc Ht Hh. unfold hand_c in V6. rewrite Epc in V1, V6.
  (* the ticket under the cursor *)
  assert (Hs : b = false -> tk_val (tk s (hpos s)) = []).
  { intros ->. pose proof (C_inv _ _ _ _ I) as C. rewrite Epc in C. cbn [CInv] in C. destruct C as [C1 [C2 C3]].
    destruct (cursor_slot cap cc n Hcc Hn s I C1 C2) as [S1 _]. unfold hslot in S1. rewrite C3 in S1.
    destruct (tk s (hpos s)); try discriminate S1. reflexivity. }
  constructor; unfold got, hand_c in *; st_goal; try assumption.
  - rewrite Ht, app_nil_r. rewrite valsf_snoc by lia. rewrite V1. f_equal.
    destruct b; cbn [taken]; [reflexivity | symmetry; apply Hs; reflexivity].
  - rewrite Hh. destruct b; exact V6.
Qed.

(* ------------------------------------------------------------ completion of a try_recv *)
Lemma VInv_c_done s r :
  VInv s -> taken (cpc s) = false ->
  (r = RVal (chand s) /\ hand (cpc s) = true) \/ (cres_val r = [] /\ hand (cpc s) = false) ->
  VInv (c_done s r).
Proof.
  intros [V1 V2 V3 V4 V5 V6] Ht Hr. unfold c_done. unfold hand_c in V6.
  constructor; unfold got, hand_c in *; st_goal; try assumption.
  - cbn [taken]. rewrite Ht in V1. exact V1.
  - cbn [hand]. rewrite got_app, app_nil_r. destruct Hr as [[-> Hh]|[Hr Hh]]; rewrite Hh in V6.
    + exact V6.
    + rewrite Hr, app_nil_r. rewrite app_nil_r in V6. exact V6.
Qed.

Lemma VInv_hlock s b : VInv s -> VInv (set_hlock s b).
Proof. intros V. apply (VInv_c_pure s _ (cpc s)); try reflexivity; [exact V | constructor; reflexivity]. Qed.

(* ------------------------------------------------------------ every producer step *)
Ltac vpure_p V Epc :=
  eapply VInv_p_pure; [exact V | constructor; reflexivity | reflexivity | st_goal; reflexivity | rewrite Epc; reflexivity].

Lemma VInv_pstep s u c s' e :
  SInv cap cc n s -> VInv s -> pstep cap cc n s u c = Some (s', e) -> VInv s'.
Proof.
  intros I V Hs. unfold pstep in Hs. destruct (ppc s u) eqn:Epc.
  - (* PIdle *) destruct (pprog s u) as [|[] r]; inv_step Hs; unf_steps; vpure_p V Epc.
  - (* PRd *) inv_step Hs; split_goal; [|unf_steps; vpure_p V Epc].
    apply (VInv_p_done cap cc n kk Hcc Hn); [exact I | exact V | rewrite Epc; reflexivity |].
    right. rewrite Epc. split; [right; reflexivity | reflexivity].
  - (* PS1 *) inv_step Hs; unf_steps; vpure_p V Epc.
  - (* PS2 *) inv_step Hs; split_goal; try (unf_steps; vpure_p V Epc).
    apply (VInv_p_done cap cc n kk Hcc Hn); [exact I | exact V | rewrite Epc; reflexivity |].
    right. rewrite Epc. split; [left; reflexivity | reflexivity].
  - (* PS3 *) inv_step Hs. apply (VInv_claim cap cc n kk Hcc Hn); assumption.
  - (* PS4 *) inv_step Hs; unf_steps; vpure_p V Epc.
  - (* PE1 *) inv_step Hs; unf_steps; split_goal; vpure_p V Epc.
  - (* PE2 *) inv_step Hs; unf_steps; split_goal; vpure_p V Epc.
  - (* PEs *) inv_step Hs; unf_steps; vpure_p V Epc.
  - (* PE3 *) inv_step Hs; unf_steps; split_goal; vpure_p V Epc.
  - (* PW0 *) inv_step Hs; unf_steps; split_goal; vpure_p V Epc.
  - (* PW1 *) destruct (SInv_publish cap cc n Hcc Hn s u x t ok I Epc) as [Hd _]. rewrite Hd in Hs.
    change (N.eqb sEMPTY sEMPTY) with true in Hs. cbv iota in Hs. inv_step Hs.
    apply (VInv_publish cap cc n Hcc Hn); assumption.
  - (* PN1 *) inv_step Hs; unf_steps; vpure_p V Epc.
  - (* PN2 *) inv_step Hs; unf_steps; vpure_p V Epc.
  - (* PN3 *) inv_step Hs. destruct ok.
    + apply (VInv_p_done cap cc n kk Hcc Hn); [exact I | exact V | rewrite Epc; reflexivity |].
      left. rewrite Epc. split; [reflexivity | exists t; reflexivity].
    + unf_steps; vpure_p V Epc.
  - (* PDropSub *) inv_step Hs; unf_steps; split_goal; vpure_p V Epc.
  - (* PWk *) unfold p_lock in Hs. destruct k; inv_step Hs; unf_steps; try exact V; vpure_p V Epc.
  - discriminate Hs.
Qed.

(* ------------------------------------------------------------ every consumer step *)
Ltac vpure_c V Epc :=
  eapply VInv_c_pure; [exact V | constructor; reflexivity | reflexivity | reflexivity
                      | rewrite Epc; reflexivity | rewrite Epc; reflexivity].

Lemma VInv_cstep s c s' e :
  SInv cap cc n s -> VInv s -> cstep cc n kk s c = Some (s', e) -> VInv s'.
Proof.
  intros I V Hs. unfold cstep in Hs. destruct (cpc s) eqn:Epc.
  - (* CIdle *) destruct (cprog s) as [|[] r]; inv_step Hs; vpure_c V Epc.
  - (* CLock *) unfold c_lock in Hs. inv_step Hs; [exact V|]. vpure_c V Epc.
  - (* CD1 *) inv_step Hs. split_goal; vpure_c V Epc.
  - (* CD2 *) inv_step Hs. vpure_c V Epc.
  - (* CD3 *) inv_step Hs. split_goal; vpure_c V Epc.
  - (* CD4 *) destruct (SInv_take cap cc n kk Hcc Hn s d I Epc) as [v [Hd [Hv _]]]. rewrite Hd in Hs. inv_step Hs.
    apply VInv_take; assumption.
  - (* CD5 *) inv_step Hs. apply VInv_advance with (d := d) (b := set); [exact I | exact V | exact Epc | |];
      split_goal; reflexivity.
  - (* CD6 *) inv_step Hs; vpure_c V Epc.
  - (* CM1 *) inv_step Hs; vpure_c V Epc.
  - (* CM2 *) inv_step Hs; split_goal; vpure_c V Epc.
  - (* CUnl *) inv_step Hs. destruct r.
    + apply VInv_c_done; [apply VInv_hlock; exact V | st_goal; rewrite Epc; reflexivity
                         | left; st_goal; rewrite Epc; split; reflexivity].
    + destruct d; vpure_c V Epc.
    + destruct d; vpure_c V Epc.
  - (* CP1 *) inv_step Hs; vpure_c V Epc.
  - (* CP2 *) inv_step Hs; vpure_c V Epc.
  - (* CP3 *) inv_step Hs; vpure_c V Epc.
  - (* CP4 *) inv_step Hs; vpure_c V Epc.
  - (* CP5 *) inv_step Hs; unf_steps; destruct u; vpure_c V Epc.
  - (* CSa *) inv_step Hs; split_goal; vpure_c V Epc.
  - (* CFl *) unfold c_lock in Hs. inv_step Hs; [exact V|]. split_goal; vpure_c V Epc.
  - (* CFu *) inv_step Hs.
    apply VInv_c_done; [apply VInv_hlock; exact V | st_goal; rewrite Epc; reflexivity
                       | right; st_goal; rewrite Epc; destruct f; split; reflexivity].
  - (* CDropSt *) inv_step Hs; vpure_c V Epc.
  - (* CWk *) unfold c_lock in Hs. destruct k; inv_step Hs; try exact V; vpure_c V Epc.
  - discriminate Hs.
Qed.

(* ------------------------------------------------------------ the combined invariant *)
Definition Inv (s : st) : Prop := SInv cap cc n s /\ VInv s.

Lemma VInv_init pp0 cp0 : VInv (init np pp0 cp0).
Proof.
  constructor; unfold got, hand_c; cbn [init received tk hpos cpc taken hand presl cresl pseq ppc flat_map app]; try reflexivity.
  - intros t th k H. discriminate H.
  - intros t1 t2 th k1 k2 H. discriminate H.
  - intros t t2 th k H. discriminate H.
  - intros th r [].
Qed.

Theorem Inv_reachable pp0 cp0 s :
  reachable (sys cap cc n kk np pp0 cp0) s -> Inv s.
Proof.
  apply (invariant_lift (sys cap cc n kk np pp0 cp0) Inv).
  - split; [exact (SInv_init cap cc n np Hcc Hn pp0 cp0) | apply VInv_init].
  - intros s0 t c s' e [I V] Hs. split; [exact (SInv_step cap cc n kk np Hcc Hn s0 t c s' e I Hs)|].
    destruct t as [|i]; cbn [step Conc.step sys] in Hs.
    + exact (VInv_cstep s0 c s' e I V Hs).
    + destruct (Nat.ltb i np); [|discriminate Hs]. exact (VInv_pstep s0 i c s' e I V Hs).
Qed.

End ValSteps.
