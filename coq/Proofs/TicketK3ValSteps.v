(* Proofs/TicketK3ValSteps.v — VInv is preserved by every step (given SInv of the pre-state); the
   combined invariant holds in every reachable state. *)
From Fibre Require Import Common.Base Common.Conc Chan.TicketK3 Proofs.TicketK3Base Proofs.TicketK3Frame
  Proofs.TicketK3Prod Proofs.TicketK3Cons Proofs.TicketK3Safety Proofs.TicketK3Values.
From Coq Require Import ZifyBool ZifyNat ZifyN Arith.

Lemma flat_vals_map l : flat_map cres_val (map RVal l) = l.
Proof. induction l as [|v l IH]; cbn [map flat_map cres_val app]; [reflexivity | rewrite IH; reflexivity]. Qed.

(* membership in the result list of a batch call *)
Lemma in_batch_res s u b fail r :
  bsent b <= btotal b ->
  (In r (batch_res s u b fail) <->
   (exists i, i < bsent b /\ r = POk (itemval s u i)) \/
   (exists i, bsent b <= i < btotal b /\ r = fail (itemval s u i))).
Proof.
  intros Hle. unfold batch_res. rewrite in_app_iff, !in_map_iff. split.
  - intros [[i [<- Hi]]|[i [<- Hi]]]; apply in_nrange in Hi; [left | right]; exists i; (split; [lia | reflexivity]).
  - intros [[i [Hi ->]]|[i [Hi ->]]]; [left | right]; exists i; (split; [reflexivity | apply in_nrange; lia]).
Qed.

Section ValSteps.
Variables cap cc n kk : N.
Variable np : nat.
Hypothesis Hcc : 0 < cc.
Hypothesis Hn : 0 < n.

(* ------------------------------------------------------------ D4 *)
Lemma VInv_take s d v X :
  VInv s -> cpc s = CD4 d -> tk s (hpos s) = TSet v ->
  VInv (set_cpc (set_chand (set_received (set_sdata s X) (received s ++ [v])) (chand s ++ [v])) (CD5 d true)).
Proof.
  intros [V1 V2 V3 V4 V5 V6 V7 V8] Epc Hv. rewrite Epc in V1. cbn [taken] in V1. rewrite app_nil_r in V1.
  constructor; unfold got in *; st_goal; try assumption.
  - cbn [taken]. rewrite Hv. cbn [tk_val]. rewrite V1. reflexivity.
  - rewrite app_assoc, V7. reflexivity.
  - cbn [quiet]. rewrite Bool.andb_false_r. discriminate.
Qed.

(* ------------------------------------------------------------ D5 *)
Lemma VInv_advance s d b u p X :
  SInv cap cc n s -> VInv s -> cpc s = CD5 d b -> taken p = false ->
  (quiet p = true -> quiet (CD5 d b) = true) ->
  VInv (set_cpc (set_unpub (set_hpos (set_hidx (set_sstate s X) (hidx s + 1)) (hpos s + 1)) u) p).
Proof.
  intros I [V1 V2 V3 V4 V5 V6 V7 V8] Epc Ht Hq. rewrite Epc in V1, V8.
  (* the ticket under the cursor *)
  assert (Hs : b = false -> tk_val (tk s (hpos s)) = []).
  { intros ->. pose proof (C_inv _ _ _ _ I) as C. rewrite Epc in C. cbn [CInv] in C. destruct C as [C1 [C2 C3]].
    destruct (cursor_slot cap cc n Hcc Hn s I C1 C2) as [S1 _]. unfold hslot in S1. rewrite C3 in S1.
    destruct (tk s (hpos s)); try discriminate S1. reflexivity. }
  constructor; unfold got in *; st_goal; try assumption.
  - rewrite Ht, app_nil_r. rewrite valsf_snoc by lia. rewrite V1. f_equal.
    destruct b; cbn [taken]; [reflexivity | symmetry; apply Hs; reflexivity].
  - intros Y. apply V8. apply Hq. exact Y.
Qed.

(* ------------------------------------------------------------ completion of a consumer call *)
Lemma VInv_c_done_l s rs :
  VInv s -> taken (cpc s) = false -> flat_map cres_val rs = chand s -> VInv (c_done_l s rs).
Proof.
  intros [V1 V2 V3 V4 V5 V6 V7 V8] Ht Hr. unfold c_done_l.
  constructor; unfold got in *; st_goal; try assumption.
  - cbn [taken]. rewrite Ht in V1. exact V1.
  - rewrite got_app, app_nil_r, Hr. exact V7.
  - reflexivity.
Qed.

Lemma VInv_hlock s b : VInv s -> VInv (set_hlock s b).
Proof. intros V. apply (VInv_c_pure s _ (cpc s)); try reflexivity; [exact V | constructor; reflexivity | tauto]. Qed.

(* ------------------------------------------------------------ completion of a producer call *)
Lemma VInv_p_done s u r :
  SInv cap cc n s -> VInv s ->
  (r = POk (myval s u) /\ done_of (ppc s u) = 1) \/
  ((r = PFull (myval s u) \/ r = PClosed (myval s u)) /\ done_of (ppc s u) = 0) ->
  VInv (p_done s u r).
Proof.
  intros I V Hr. unfold p_done. apply (VInv_p_done_n cap cc n); try assumption.
  - destruct Hr as [[_ ->]|[_ ->]]; lia.
  - intros i Hi. destruct Hr as [[-> Hd]|[_ Hd]]; rewrite Hd in Hi; [|lia].
    assert (i = 0) by lia. subst i. left. reflexivity.
  - intros r' [<-|[]]. exists 0. split; [lia|]. unfold myval in Hr. destruct Hr as [[-> ->]|[Hr ->]].
    + left. split; [reflexivity | lia].
    + right. split; [exact Hr | lia].
Qed.

Lemma VInv_p_done_batch s u b fail :
  SInv cap cc n s -> VInv s -> done_of (ppc s u) = bsent b -> bsent b <= btotal b ->
  fail = PFull \/ fail = PClosed ->
  VInv (p_done_batch s u b fail).
Proof.
  intros I V Hd Hle Hf. unfold p_done_batch. apply (VInv_p_done_n cap cc n); try assumption.
  - rewrite Hd. exact Hle.
  - intros i Hi. rewrite Hd in Hi. apply (in_batch_res s u b fail _ Hle). left. exists i. split; [exact Hi | reflexivity].
  - intros r Hr. apply (in_batch_res s u b fail _ Hle) in Hr. rewrite Hd.
    destruct Hr as [[i [Hi ->]]|[i [Hi ->]]]; exists i; (split; [lia|]).
    + left. split; [reflexivity | exact Hi].
    + right. split; [destruct Hf as [->| ->]; [left | right]; reflexivity | lia].
Qed.

(* ------------------------------------------------------------ every producer step *)
Ltac vpure_p V Epc :=
  eapply VInv_p_pure; [exact V | constructor; reflexivity | reflexivity | st_goal; reflexivity
                      | rewrite Epc; cbn [done_of kitem rw rv bsent]; try reflexivity; lia].

Ltac pn_facts I u Epc :=
  let Pu := fresh "Pu" in
  pose proof (P_inv _ _ _ _ I u) as Pu; rewrite Epc in Pu; cbn [PInv] in Pu; unfold RInv in Pu.

Lemma VInv_pstep s u c s' e :
  SInv cap cc n s -> VInv s -> pstep cap cc n kk s u c = Some (s', e) -> VInv s'.
Proof.
  intros I V Hs. unfold pstep in Hs. destruct (ppc s u) eqn:Epc.
  - (* PIdle *) destruct (pprog s u) as [|[|k] r]; inv_step Hs; unf_steps; vpure_p V Epc.
  - (* PRd *) inv_step Hs; split_goal; [|unf_steps; vpure_p V Epc].
    apply VInv_p_done; [exact I | exact V |]. right. rewrite Epc. split; [right; reflexivity | reflexivity].
  - (* PS1 *) inv_step Hs; unf_steps; vpure_p V Epc.
  - (* PS2 *) inv_step Hs; split_goal; try (unf_steps; vpure_p V Epc).
    apply VInv_p_done; [exact I | exact V |]. right. rewrite Epc. split; [left; reflexivity | reflexivity].
  - (* PS3 *) inv_step Hs. apply (VInv_claim cap cc n Hcc Hn); try assumption; rewrite Epc; [|reflexivity].
    intros t. unfold owns. cbn [own_lo own_hi]. lia.
  - (* PS4 *) inv_step Hs; unf_steps; vpure_p V Epc.
  - (* PE1 *) inv_step Hs; unf_steps; split_goal; vpure_p V Epc.
  - (* PE2 *) inv_step Hs; unf_steps; split_goal; vpure_p V Epc.
  - (* PEs *) inv_step Hs; unf_steps; vpure_p V Epc.
  - (* PE3 *) inv_step Hs; unf_steps; split_goal; vpure_p V Epc.
  - (* PW0 *) inv_step Hs; unf_steps; split_goal; vpure_p V Epc.
  - (* PW1 *)
    assert (Hd : sstate s (slot_of cc n (rcur r)) = sEMPTY).
    { pn_facts I u Epc. destruct Pu as [[Pw _] Pres].
      assert (Ht : tk s (rcur r) = TOwn u).
      { apply (B_own _ _ _ _ I). rewrite Epc. unfold owns. cbn [own_lo own_hi]. unfold rcur. lia. }
      apply (own_slot cap cc n Hcc Hn s u (rcur r) I Ht Pres). }
    rewrite Hd in Hs. change (N.eqb sEMPTY sEMPTY) with true in Hs. cbv iota in Hs. inv_step Hs.
    apply (VInv_publish cap cc n Hcc Hn) with (k := k) (r := r); try assumption.
    split_goal; cbn [done_of rw rv kitem]; unfold rset in *; cbn [rw rv] in *;
      repeat match goal with H : (_ <? _) = _ |- _ => first [apply N.ltb_lt in H | apply N.ltb_ge in H] end; lia.
  - (* PN1 *) inv_step Hs; unf_steps; vpure_p V Epc.
  - (* PN2 *) inv_step Hs; unf_steps; vpure_p V Epc.
  - (* PN3 *) inv_step Hs. pn_facts I u Epc. destruct Pu as [Pw [Pv Pk]]. destruct k as [x|b].
    + destruct (N.eqb_spec (rv r) 1) as [E1|E1].
      * apply VInv_p_done; [exact I | exact V |]. left. rewrite Epc. cbn [done_of kitem]. split; [reflexivity | lia].
      * unf_steps. vpure_p V Epc.
    + unfold p_closed_window, p_loop. cbn [bsent btotal bcold].
      assert (Hd : done_of (ppc s u) = bsent b + rv r) by (rewrite Epc; cbn [done_of kitem]; lia).
      split_goal; try (apply VInv_p_done_batch; [exact I | exact V | cbn [bsent]; exact Hd | cbn [bsent btotal]; lia | left; reflexivity]).
      all: unf_steps; vpure_p V Epc.
  - (* PB1 *) inv_step Hs. pn_facts I u Epc. unfold p_loop. split_goal.
    all: try (apply VInv_p_done_batch; [exact I | exact V | rewrite Epc; reflexivity | exact Pu | tauto]).
    all: unf_steps; vpure_p V Epc.
  - (* PL1 *) inv_step Hs. pn_facts I u Epc. split_goal.
    all: try (apply VInv_p_done_batch; [exact I | exact V | rewrite Epc; reflexivity | exact Pu | tauto]).
    all: unf_steps; vpure_p V Epc.
  - (* PC0 *) inv_step Hs; unf_steps; vpure_p V Epc.
  - (* PC1 *) inv_step Hs; unf_steps; vpure_p V Epc.
  - (* PC2 *) inv_step Hs. pn_facts I u Epc. unfold p_closed_window, p_loop. cbn [bsent btotal bcold]. split_goal.
    all: try (apply VInv_p_done_batch; [exact I | exact V | rewrite Epc; reflexivity | cbn [bsent btotal]; exact Pu | tauto]).
    all: unf_steps; vpure_p V Epc.
  - (* PC3 *) inv_step Hs. apply (VInv_claim cap cc n Hcc Hn); try assumption; rewrite Epc; [|reflexivity].
    intros t. unfold owns. cbn [own_lo own_hi]. lia.
  - (* PC4 *) inv_step Hs; unf_steps; vpure_p V Epc.
  - (* PDropSub *) inv_step Hs; unf_steps; split_goal; vpure_p V Epc.
  - (* PWk *) unfold p_lock in Hs. destruct k; inv_step Hs; unf_steps; try exact V; vpure_p V Epc.
  - discriminate Hs.
Qed.

(* ------------------------------------------------------------ every consumer step *)
Ltac vpure_c V Epc :=
  eapply VInv_c_pure; [exact V | constructor; reflexivity | reflexivity | reflexivity
                      | rewrite Epc; reflexivity
                      | rewrite Epc; st_goal; repeat match goal with d : dctx |- _ => destruct d end;
                        cbn [quiet dgot0 fquiet negb andb is_run] in *; rewrite ?Bool.andb_true_r, ?Bool.andb_false_r;
                        try tauto; try discriminate ].

Lemma VInv_cstep s c s' e :
  SInv cap cc n s -> VInv s -> cstep cc n kk s c = Some (s', e) -> VInv s'.
Proof.
  intros I V Hs. unfold cstep in Hs. destruct (cpc s) eqn:Epc.
  - (* CIdle *) destruct (cprog s) as [|[|mx] r]; inv_step Hs; vpure_c V Epc.
  - (* CLock *) unfold c_lock in Hs. inv_step Hs; [exact V|]. vpure_c V Epc.
  - (* CD1 *) inv_step Hs. unf_steps. split_goal; vpure_c V Epc.
  - (* CD2 *) inv_step Hs. vpure_c V Epc.
  - (* CD3 *) inv_step Hs. unf_steps. split_goal; vpure_c V Epc.
    all: rewrite ?Bool.andb_true_r; tauto.
  - (* CD4 *) destruct (SInv_take cap cc n kk Hcc Hn s d I Epc) as [v [Hd [Hv _]]]. rewrite Hd in Hs. inv_step Hs.
    apply VInv_take; assumption.
  - (* CD5 *) inv_step Hs. destruct d as [| |site mx got]; destruct set; unf_steps; split_goal;
      (eapply VInv_advance; [exact I | exact V | exact Epc | reflexivity |]);
      cbn [quiet dgot0 negb andb]; rewrite ?Bool.andb_true_r, ?Bool.andb_false_r; try tauto; try discriminate.
    all: repeat match goal with |- context [N.eqb (?g + 1) 0] => destruct (N.eqb_spec (g + 1) 0); [lia|] end; try discriminate; try tauto.
  - (* CD6 *) inv_step Hs; split_goal; vpure_c V Epc.
  - (* CM1 *) inv_step Hs; vpure_c V Epc.
  - (* CM2 *) inv_step Hs; split_goal; vpure_c V Epc.
  - (* CUnl *) inv_step Hs. unf_steps. fold (c_done_l (set_hlock s false)). split_goal.
    all: try (apply VInv_c_done_l;
              [apply VInv_hlock; exact V | st_goal; rewrite Epc; reflexivity
              | st_goal; first [apply flat_vals_map
                               | cbn [flat_map cres_val app]; symmetry; apply (V_quiet _ V); rewrite Epc; cbn [quiet]; assumption]]).
    all: vpure_c V Epc.
  - (* CP1 *) inv_step Hs; vpure_c V Epc.
  - (* CP2 *) inv_step Hs; vpure_c V Epc.
  - (* CP3 *) inv_step Hs; vpure_c V Epc.
  - (* CP4 *) inv_step Hs; vpure_c V Epc.
  - (* CP5 *) inv_step Hs; unf_steps; split_goal; vpure_c V Epc.
    all: rewrite ?Bool.andb_true_r, ?Bool.andb_false_r in *; try tauto; try discriminate.
  - (* CSa *) inv_step Hs. unf_steps. fold (c_done_l s). split_goal.
    all: try (apply VInv_c_done_l; [exact V | rewrite Epc; reflexivity
              | cbn [flat_map cres_val app]; symmetry; apply (V_quiet _ V); rewrite Epc; reflexivity]).
    all: vpure_c V Epc.
  - (* CFl *) unfold c_lock in Hs. inv_step Hs; [exact V|]. split_goal; vpure_c V Epc.
  - (* CFu *) inv_step Hs. unf_steps. fold (c_done_l (set_hlock s false)). split_goal.
    all: try (apply VInv_c_done_l;
              [apply VInv_hlock; exact V | st_goal; rewrite Epc; reflexivity
              | st_goal; first [apply flat_vals_map
                               | cbn [flat_map cres_val app]; symmetry; apply (V_quiet _ V); rewrite Epc; reflexivity]]).
    all: vpure_c V Epc.
  - (* CDropSt *) inv_step Hs; vpure_c V Epc.
  - (* CWk *) unfold c_lock in Hs. destruct k; inv_step Hs; try exact V; vpure_c V Epc.
  - discriminate Hs.
Qed.

(* ------------------------------------------------------------ the combined invariant *)
Definition Inv (s : st) : Prop := SInv cap cc n s /\ VInv s.

Lemma VInv_init pp0 cp0 : VInv (init np pp0 cp0).
Proof.
  constructor; unfold got; cbn [init received tk hpos cpc taken presl cresl pseq ppc chand flat_map app quiet done_of]; try reflexivity.
  - intros t th k H. discriminate H.
  - intros th i H. lia.
  - intros t1 t2 th k1 k2 H. discriminate H.
  - intros t t2 th k H. discriminate H.
  - intros th r [].
Qed.

Theorem Inv_reachable pp0 cp0 s :
  reachable (sys cap cc n kk np pp0 cp0) s -> Inv s.
Proof.
  apply (invariant_lift (sys cap cc n kk np pp0 cp0) Inv).
  - split; [exact (SInv_init cap cc n np Hcc Hn pp0 cp0) | apply VInv_init].
  - intros s0 t c s' e [I V] Hs. split; [exact (SInv_step cap cc n kk np Hcc Hn s0 t c s' e I Hs)|].
    destruct t as [|i]; cbn [step Conc.step sys] in Hs.
    + exact (VInv_cstep s0 c s' e I V Hs).
    + destruct (Nat.ltb i np); [|discriminate Hs]. exact (VInv_pstep s0 i c s' e I V Hs).
Qed.

End ValSteps.
