(* Proofs/HRwWake.v — HybridRwLock: wake invariants RInvF1 / RInvF2 (a WOKEN node whose owner is parked has
   its token or its handle is in a wake list still to be fired). *)
From Coq Require Import List NArith Arith Bool Lia.
From Fibre Require Import Common.Conc Sync.HMutex Sync.HRwLock Proofs.HMutexBase Proofs.HRwBase Proofs.HRwGuard Proofs.HRwQueue Proofs.HRwNode.
Import ListNotations.

(* ---- wakes in flight: the handles collected by wake_waiters and not yet fired *)
Definition pendT (p : rpc) (h : nat) : Prop :=
  match p with
  | RWSweep ws | RFix1 (RFW ws) | RFix2 (RFW ws) | RWUnl ws => In (WThread, h) ws
  | RWWake h' rest => h' = h \/ In (WThread, h) rest
  | _ => False
  end.

Definition pendB (p : rpc) (h : nat) : Prop :=
  match p with
  | RWSweep ws | RFix1 (RFW ws) | RFix2 (RFW ws) | RWUnl ws => In (WBlock, h) ws
  | RWWake _ rest => In (WBlock, h) rest
  | _ => False
  end.

Definition RInvF1 s :=
  forall h k, rpcs s h = RPark k -> rnwk s h = true -> rtoken s h = true \/ exists w, pendT (rpcs s w) h.

Definition RInvF2 s :=
  forall h, rpcs s h = RBPark -> rnwk s h = true ->
    (exists w, pendB (rpcs s w) h)
    \/ (rbwoken s h = true /\ (rtoken s h = true \/ exists w r, rpcs s w = RWWake h r)).

Lemma rflush_token s t ws : rtoken (rflush s t ws) = rtoken s.
Proof. revert s. induction ws as [|[k h] r IH]; intros s; cbn [rflush]; [reflexivity|]. destruct k; try apply IH; reflexivity. Qed.

Lemma rflush_bwoken_mono s t ws u : rbwoken s u = true -> rbwoken (rflush s t ws) u = true.
Proof.
  revert s. induction ws as [|[k h] r IH]; intros s H; cbn [rflush]; [exact H|].
  destruct k; try (apply IH; exact H); cbn; [exact H|].
  unfold upd. destruct (Nat.eqb u h); [reflexivity|exact H].
Qed.

Lemma flushT s t ws h : In (WThread, h) ws -> pendT (rpcs (rflush s t ws) t) h.
Proof.
  revert s. induction ws as [|[k h'] r IH]; intros s H; [destruct H|]. cbn [rflush].
  destruct k.
  - cbn. rewrite upd_eq. cbn. destruct H as [X|X]; [injection X as ->; left; reflexivity|right; exact X].
  - cbn. rewrite upd_eq. cbn. destruct H as [X|X]; [discriminate X|right; exact X].
  - apply IH. destruct H as [X|X]; [discriminate X|exact X].
Qed.

Lemma flushB s t ws h : In (WBlock, h) ws ->
  pendB (rpcs (rflush s t ws) t) h \/ (rbwoken (rflush s t ws) h = true /\ exists r, rpcs (rflush s t ws) t = RWWake h r).
Proof.
  revert s. induction ws as [|[k h'] r IH]; intros s H; [destruct H|]. cbn [rflush].
  destruct k.
  - cbn. rewrite upd_eq. cbn. destruct H as [X|X]; [discriminate X|left; exact X].
  - destruct H as [X|X].
    + injection X as ->. right. cbn. rewrite !upd_eq. split; [reflexivity|eexists; reflexivity].
    + left. cbn. rewrite upd_eq. cbn. exact X.
  - apply IH. destruct H as [X|X]; [discriminate X|exact X].
Qed.

Lemma F1_frame s s' t :
  (forall u, u <> t -> rpcs s' u = rpcs s u) ->
  (forall u, u <> t -> rtoken s u = true -> rtoken s' u = true) ->
  (forall h, h <> t -> pendT (rpcs s t) h -> pendT (rpcs s' t) h \/ rtoken s' h = true) ->
  (forall h k, h <> t -> rpcs s h = RPark k -> rnwk s' h = true -> rnwk s h = true \/ pendT (rpcs s' t) h) ->
  (forall k, rpcs s' t = RPark k -> rnwk s' t = true -> False) ->
  RInvF1 s -> RInvF1 s'.
Proof.
  intros HP HT HW HN HS F h k Hp Hn.
  destruct (Nat.eq_dec h t) as [->|Hne]; [exfalso; eapply HS; eassumption|].
  rewrite (HP h Hne) in Hp. destruct (HN h k Hne Hp Hn) as [Hn'|X]; [|right; exists t; exact X].
  destruct (F h k Hp Hn') as [T|[w W]]; [left; apply HT; assumption|].
  destruct (Nat.eq_dec w t) as [->|Hw].
  - destruct (HW h Hne W) as [X|X]; [right; exists t; exact X|left; exact X].
  - right. exists w. rewrite (HP w Hw). exact W.
Qed.

Ltac rtok_goal := rewrite ?rflush_token; rsimpl; rewrite ?upd_neq by assumption; unfold upd; repeat (destruct (Nat.eqb _ _)); auto.

Lemma RInvF1_step s t c s' e :
  RInvP s -> RInvC s -> RInvE s -> RInvF1 s -> rwstep s t c = Some (s', e) -> RInvF1 s'.
Proof.
  intros P (C1 & C2 & C3) [E1 E2] F H.
  rstep_cases H; apply (F1_frame s _ t); rsimpl; try assumption.
  (* 1: other threads' pcs *)
  all: try solve [ intros u Hu; first [ apply upd_neq; assumption | rewrite rflush_pcs by assumption; rsimpl; reflexivity ] ].
  (* 2: other threads' tokens *)
  all: try solve [ intros u Hu T; rtok_goal ].
  (* 5: the stepping thread is not parked-and-woken afterwards *)
  all: try solve [ intros kk X; rewrite ?upd_eq in X; try discriminate X; intros Hn; congruence ].
  all: try solve [ intros kk X;
                   match type of X with context [rflush ?s0 ?tt ?ws] =>
                     destruct (rflush_pc_cases s0 tt ws) as [Y|[hh [rr Y]]]; rewrite Y in X; discriminate X end ].
  (* 3: wakes held by the stepping thread *)
  all: try solve [ intros hh Hh W; rewrite Epc in W; cbn [pendT] in W; try contradiction;
                   try (match goal with f : rfixk |- _ => destruct f; try contradiction end);
                   first [ left; rewrite upd_eq; cbn [pendT]; first [ exact W | apply in_or_app; left; exact W ]
                         | left; apply flushT; exact W
                         | destruct W as [W|W]; [ right; subst; rewrite rflush_token; rsimpl; apply upd_eq | left; apply flushT; exact W ] ] ].
  (* 4: node states of parked threads *)
  all: try solve [ intros hh kk Hh Hp Hn; rewrite ?rflush_nwk in Hn; rsimpl; try rewrite upd_neq in Hn by assumption; left; exact Hn ].
  (* mark / sweep of a parked sync waiter: its thread handle goes to the wake list *)
  all: intros hh kk Hh Hp Hn; destruct (Nat.eq_dec hh n) as [->|Hne];
       [ | rewrite upd_neq in Hn by assumption; left; exact Hn ];
       assert (Hin : exists b0, In (n, b0) (rqueue s))
         by (first [ match goal with E : first_writer _ = Some _ |- _ => exists true; exact (first_writer_In _ _ E) end
                   | match goal with E : rqueue _ = (_, ?b1) :: _ |- _ => exists b1; rewrite E; left; reflexivity end ]);
       destruct Hin as [b0 Hin];
       destruct (rnarm s n) as [k'|] eqn:EN;
       [ right; rewrite upd_eq; cbn [pendT]; apply in_or_app; right; unfold wake_of; rewrite EN;
         pose proof (E2 n b0 k' Hin EN) as K; pose proof (P n) as Pn; rewrite Hp in K, Pn; cbn [rfutok] in Pn;
         destruct k'; cbn [rkindok] in K; [ left; reflexivity | destruct K; congruence | destruct K; congruence ]
       | left; exact (E1 n b0 Hin EN) ].
Qed.

Lemma F2_frame s s' t :
  (forall u, u <> t -> rpcs s' u = rpcs s u) ->
  (forall u, u <> t -> rtoken s u = true -> rtoken s' u = true) ->
  (forall u, u <> t -> rbwoken s u = true -> rbwoken s' u = true) ->
  (forall h, h <> t -> pendB (rpcs s t) h ->
     pendB (rpcs s' t) h \/ (rbwoken s' h = true /\ exists r, rpcs s' t = RWWake h r)) ->
  (forall h r, h <> t -> rpcs s t = RWWake h r -> rtoken s' h = true \/ exists r', rpcs s' t = RWWake h r') ->
  (forall h, h <> t -> rpcs s h = RBPark -> rnwk s' h = true -> rnwk s h = true \/ pendB (rpcs s' t) h) ->
  (rpcs s' t = RBPark -> rnwk s' t = true -> exists w, w <> t /\ pendB (rpcs s w) t) ->
  RInvF2 s -> RInvF2 s'.
Proof.
  intros HP HT HB HW HK HN HS F h Hp Hn.
  destruct (Nat.eq_dec h t) as [->|Hne].
  { destruct (HS Hp Hn) as [w [Hw W]]. left. exists w. rewrite (HP w Hw). exact W. }
  rewrite (HP h Hne) in Hp. destruct (HN h Hne Hp Hn) as [Hn'|X]; [|left; exists t; exact X].
  destruct (F h Hp Hn') as [[w W]|[Bw [T|[w [r W]]]]].
  - destruct (Nat.eq_dec w t) as [->|Hw].
    + destruct (HW h Hne W) as [X|[X [r Y]]]; [left; exists t; exact X|].
      right. split; [exact X|]. right. exists t, r. exact Y.
    + left. exists w. rewrite (HP w Hw). exact W.
  - right. split; [apply HB; assumption|]. left. apply HT; assumption.
  - right. split; [apply HB; assumption|].
    destruct (Nat.eq_dec w t) as [->|Hw].
    + destruct (HK h r Hne W) as [X|[r' X]]; [left; exact X|right; exists t, r'; exact X].
    + right. exists w, r. rewrite (HP w Hw). exact W.
Qed.

Lemma RInvF2_step s t c s' e :
  RInvB s -> RInvP s -> RInvN s -> RInvC s -> RInvE s -> RInvF2 s -> rwstep s t c = Some (s', e) -> RInvF2 s'.
Proof.
  intros [B1 B2] P N (C1 & C2 & C3) [E1 E2] F H.
  pose proof (N t) as Nt.
  rstep_cases H; rewrite Epc in Nt; cbn [rarmed_sec] in Nt; apply (F2_frame s _ t); rsimpl; try assumption.
  all: try solve [ intros u Hu; first [ apply upd_neq; assumption | rewrite rflush_pcs by assumption; rsimpl; reflexivity ] ].
  all: try solve [ intros u Hu T; rtok_goal ].
  all: try solve [ intros u Hu T; first [ apply rflush_bwoken_mono; rsimpl | idtac ]; rewrite ?upd_neq by assumption; unfold upd; repeat (destruct (Nat.eqb _ _)); auto ].
  (* own BPark afterwards *)
  all: try solve [ intros X; rewrite ?upd_eq in X; discriminate X ].
  all: try solve [ intros X;
                   match type of X with context [rflush ?s0 ?tt ?ws] =>
                     destruct (rflush_pc_cases s0 tt ws) as [Y|[hh [rr Y]]]; rewrite Y in X; discriminate X end ].
  (* wakes held by the stepping thread *)
  all: try solve [ intros hh Hh W; rewrite Epc in W; cbn [pendB] in W; try contradiction;
                   try (match goal with f : rfixk |- _ => destruct f; try contradiction end);
                   first [ left; rewrite upd_eq; cbn [pendB]; first [ exact W | apply in_or_app; left; exact W ]
                         | apply flushB; exact W ] ].
  all: try solve [ intros hh rr Hh W; rewrite Epc in W; try discriminate W;
                   injection W as -> ->; left; rewrite rflush_token; rsimpl; apply upd_eq ].
  all: try solve [ intros hh Hh Hp Hn; rewrite ?rflush_nwk in Hn; rsimpl; try rewrite upd_neq in Hn by assumption; left; exact Hn ].
  1: { intros _ X. rewrite (Nt eq_refl) in X. discriminate X. }
  1: { intros _ Hn. destruct (F t Epc Hn) as [[w W]|[Bw _]]; [|congruence].
       exists w. split; [|exact W]. intros ->. rewrite Epc in W. exact W. }
  all: intros hh Hh Hp Hn; destruct (Nat.eq_dec hh n) as [->|Hne];
       [ | rewrite upd_neq in Hn by assumption; left; exact Hn ];
       assert (Hin : exists b0, In (n, b0) (rqueue s))
         by (first [ match goal with E : first_writer _ = Some _ |- _ => exists true; exact (first_writer_In _ _ E) end
                   | match goal with E : rqueue _ = (_, ?b1) :: _ |- _ => exists b1; rewrite E; left; reflexivity end ]);
       destruct Hin as [b0 Hin];
       destruct (rnarm s n) as [k'|] eqn:EN;
       [ right; rewrite upd_eq; cbn [pendB]; apply in_or_app; right; unfold wake_of; rewrite EN;
         pose proof (E2 n b0 k' Hin EN) as K; pose proof (P n) as Pn; rewrite Hp in K, Pn; cbn [rfutok] in Pn;
         destruct Pn as [kx Pn];
         destruct k'; cbn [rkindok rinsync] in K; [ discriminate K | left; reflexivity | destruct K; congruence ]
       | left; exact (E1 n b0 Hin EN) ].
Qed.
