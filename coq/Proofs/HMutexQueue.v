(* Proofs/HMutexQueue.v — wait-list invariants of the HybridMutex model:
   InvP (future ownership vs pc), InvC (NoDup list, every thread knows whether its node is linked:
   no dangling node), InvD (HAS_QUEUED over-approximates the list), InvE (node states / waiter handles). *)
From Coq Require Import List NArith Arith Bool Lia.
From Fibre Require Import Common.Conc Sync.HMutex Proofs.HMutexBase Proofs.HMutexGuard.
Import ListNotations.

(* ---- per-thread consistency of `fut` (does the thread own a future node, block_on or not)
   with its program counter *)
Definition futok (p : pc) (f : option bool) : Prop :=
  match p with
  | TALoad (ASpin _) | TACas (ASpin _) _ | Yield _ | SpinNext _
  | LLSwap (LQ (QSync _)) | LLLoad (LQ (QSync _)) | LLSpin (LQ (QSync _))
  | QRearm (QSync _) | QFor (QSync _) | QLoad (QSync _) | QCas (QSync _) _ | QFix (QSync _) | QUnl (QSync _) _
  | PLoad | Park
  | LLSwap (LX (QSync _)) | LLLoad (LX (QSync _)) | LLSpin (LX (QSync _)) | XFix (QSync _) | XUnl (QSync _)
  | TALoad ALock | TACas ALock _ | TALoad (AFirst _) | TACas (AFirst _) _ => f = None
  | TALoad (APoll b) | TACas (APoll b) _ | PollNext b => f = None \/ f = Some b
  | LLSwap (LQ (QFut b)) | LLLoad (LQ (QFut b)) | LLSpin (LQ (QFut b))
  | QRearm (QFut b) | QFor (QFut b) | QLoad (QFut b) | QCas (QFut b) _ | QFix (QFut b) | QUnl (QFut b) _
  | LLSwap (LX (QFut b)) | LLLoad (LX (QFut b)) | LLSpin (LX (QFut b)) | XFix (QFut b) | XUnl (QFut b) => f = Some b
  | BPark => f = Some true
  | LLSwap LDrop | LLLoad LDrop | LLSpin LDrop | DFix | DUnl | DLoad => f = Some false
  | Idle | TALoad ATry | TACas ATry _ | CS | UFand | LLSwap LWake | LLLoad LWake | LLSpin LWake
  | WMark | WUnl _ | WWake _ | WaitW => f <> Some true
  end.

Definition InvP s := forall u, futok (pcs s u) (fut s u).

Lemma InvP_step s t c s' e : InvP s -> mstep s t c = Some (s', e) -> InvP s'.
Proof.
  intros P H. pose proof (P t) as Pt.
  step_cases H; rewrite Epc in Pt; cbn [futok] in Pt; unfold InvP; fsimpl; intros u; split_thr u t;
    try apply P; cbn [futok]; rewrite ?upd_eq; auto; try congruence.
  all: try (destruct Pt as [Pt|Pt]); destruct (fut s t) as [[|]|]; auto; congruence.
Qed.

(* ---- what a thread knows about the linkage of its own node *)
Definition fl (f : option bool) : option bool := match f with Some _ => Some true | None => Some false end.

Definition lk (p : pc) (f : option bool) : option bool :=
  match p with
  | TALoad (ASpin l) | TACas (ASpin l) _ | Yield l | SpinNext l => Some l
  | LLSwap (LQ (QSync l)) | LLLoad (LQ (QSync l)) | LLSpin (LQ (QSync l)) | QRearm (QSync l) => Some l
  | LLSwap (LQ (QFut _)) | LLLoad (LQ (QFut _)) | LLSpin (LQ (QFut _)) | QRearm (QFut _) => None
  | LLSwap (LX _) | LLLoad (LX _) | LLSpin (LX _) => Some true
  | LLSwap LDrop | LLLoad LDrop | LLSpin LDrop => Some true
  | QFor _ | QLoad _ | QCas _ _ | QUnl _ false | PLoad | Park | BPark => Some true
  | QFix _ | QUnl _ true | XFix _ | XUnl _ | DFix | DUnl | DLoad => Some false
  | _ => fl f
  end.

Definition linkok (s : mstate) (u : nat) : Prop :=
  match lk (pcs s u) (fut s u) with
  | Some true => In u (queue s)
  | Some false => ~ In u (queue s)
  | None => True
  end.

Definition InvC s := NoDup (queue s) /\ forall u, linkok s u.

Lemma In_app_single (u t : nat) l : In u (l ++ [t]) <-> In u l \/ u = t.
Proof. rewrite in_app_iff. cbn. intuition. Qed.

Lemma NoDup_app_single (t : nat) l : NoDup l -> ~ In t l -> NoDup (l ++ [t]).
Proof.
  induction l as [|a l IH]; intros N H; cbn.
  - constructor; [intros []|constructor].
  - inversion N; subst. constructor.
    + rewrite In_app_single. intros [X|X]; [contradiction|]. apply H. left. auto.
    + apply IH; [assumption|]. intros X. apply H. right. exact X.
Qed.

Ltac mem_hyps :=
  repeat match goal with
         | E : mem _ _ = true |- _ => apply mem_In in E
         | E : mem _ _ = false |- _ => apply mem_false in E
         end.

Lemma InvC_step s t c s' e : InvP s -> InvC s -> mstep s t c = Some (s', e) -> InvC s'.
Proof.
  intros P [C1 C2] H. pose proof (P t) as Pt. pose proof (C2 t) as Ct. unfold linkok in Ct.
  step_cases H; rewrite Epc in Pt, Ct; cbn [futok lk fl] in Pt, Ct; unfold InvC, linkok; fsimpl.
  all: try solve [ split; [ assumption | intros u; split_thr u t; [ cbn [lk fl]; rewrite ?upd_eq; auto | apply C2 ] ] ].
  all: mem_hyps.
  all: split;
    [ try assumption; try (apply rem_NoDup; assumption);
      try (apply NoDup_app_single; [assumption|]; destruct (fut s t) as [[|]|]; cbn [fl] in *; tauto)
    | intros u; split_thr u t;
      [ cbn [lk fl]; rewrite ?upd_eq; destruct (fut s t) as [[|]|]; cbn [fl] in *;
        rewrite ?rem_In, ?In_app_single; try tauto; try congruence; intuition congruence
      | specialize (C2 u); unfold linkok in C2; destruct (lk (pcs s u) (fut s u)) as [[|]|];
        rewrite ?rem_In, ?In_app_single; tauto ] ].
Qed.

(* ---- HAS_QUEUED over-approximates list contents, except while the only queued node's
   owner is between its link and its fetch_or *)
Definition InvD s :=
  hasq s = false -> forall u, In u (queue s) -> queue s = [u] /\ exists q, pcs s u = QFor q.

Lemma InvD_step s t c s' e : InvB s -> InvC s -> InvD s -> mstep s t c = Some (s', e) -> InvD s'.
Proof.
  intros [B1 B2] [C1 C2] D H. pose proof (C2 t) as Ct. unfold linkok in Ct.
  step_cases H; rewrite Epc in Ct; cbn [lk fl] in Ct; unfold InvD; fsimpl.
  (* hasq and queue untouched: a queued u with hasq = false is at QFor, so u is not the stepping thread *)
  all: try solve [ intros Hq u Hu; destruct (D Hq u Hu) as [Q1 [qq Q2]]; split_thr u t;
                   [ rewrite Epc in Q2; discriminate Q2 | split; [assumption | exists qq; assumption] ] ].
  all: try solve [ intros Hq; discriminate Hq ].
  (* fix_flags on an empty list *)
  all: try solve [ intros _ u Hu; match goal with E : queue _ = [] |- _ => rewrite E in Hu end; destruct Hu ].
  (* the stepping thread unlinks itself: it was not the QFor thread *)
  all: try solve [ intros Hq u Hu; apply rem_In in Hu; destruct Hu as [Hu Hne];
                   destruct (D Hq u Hu) as [Q1 [qq Q2]]; rewrite Q1; cbn [rem filter];
                   destruct (Nat.eqb_spec u t); [contradiction|]; cbn [negb];
                   split; [reflexivity | rewrite upd_neq by assumption; exists qq; assumption] ].
  (* the stepping thread links itself: with hasq = false the list was empty *)
  all: intros Hq u Hu;
       assert (HE : queue s = []) by
         (destruct (queue s) as [|x l] eqn:EQ; [reflexivity|]; exfalso;
          assert (Hx : In x (queue s)) by (rewrite EQ; left; reflexivity);
          destruct (D Hq x Hx) as [_ [qq Q2]];
          assert (L1 : llock s = Some x) by (apply B1; rewrite Q2; reflexivity);
          assert (L2 : llock s = Some t) by (apply B1; rewrite Epc; reflexivity);
          assert (x = t) by congruence; subst x; rewrite Epc in Q2; discriminate Q2);
       rewrite HE in *; cbn [app] in *; destruct Hu as [<-|[]];
       split; [reflexivity | rewrite upd_eq; eexists; reflexivity].
Qed.

(* ---- waiter nodes: a linked node without a waiter handle has been marked WOKEN; the handle
   registered in a linked node is the one of its owner; inside its own queue section after the
   re-arm the owner's node is WAITING *)
Definition kindok (k : wk) (p : pc) (f : option bool) : Prop :=
  match k with
  | WThread => insync p = true
  | WBlock => f = Some true
  | WCount => f = Some false
  end.

Definition armed_sec (p : pc) : bool :=
  match p with QFor _ | QLoad _ | QCas _ _ | QUnl _ false => true | _ => false end.

Definition InvE s :=
  (forall h, In h (queue s) -> narm s h = None -> nwk s h = true)
  /\ (forall h k, In h (queue s) -> narm s h = Some k -> kindok k (pcs s h) (fut s h))
  /\ (forall u, armed_sec (pcs s u) = true -> nwk s u = false).

Lemma InvE1_step s t c s' e :
  InvB s -> InvC s -> InvP s -> InvE s -> mstep s t c = Some (s', e) ->
  forall h, In h (queue s') -> narm s' h = None -> nwk s' h = true.
Proof.
  intros [B1 B2] [C1 C2] P [E1 [E2 E3]] H.
  step_cases H; fsimpl.
  all: try solve [ exact E1 ].
  all: try solve [ intros h Hin; apply rem_In in Hin; destruct Hin as [Hin _]; apply E1; exact Hin ].
  1-4: (intros h Hin; split_thr h t; [ discriminate | try (apply In_app_single in Hin; destruct Hin as [Hin|Hin]; [|contradiction]); apply E1; exact Hin ]).
  all: (intros h Hin; match goal with |- upd _ ?n _ _ = _ -> _ => split_thr h n end; [ reflexivity | apply E1; exact Hin ]).
Qed.

Lemma armed_inlist p : armed_sec p = true -> inlist p = true.
Proof. destruct p; cbn; try discriminate; auto. Qed.

Lemma InvE3_step s t c s' e :
  InvB s -> InvC s -> InvP s -> InvE s -> mstep s t c = Some (s', e) ->
  forall u, armed_sec (pcs s' u) = true -> nwk s' u = false.
Proof.
  intros [B1 B2] [C1 C2] P [E1 [E2 E3]] H. pose proof (E3 t) as E3t.
  step_cases H; rewrite Epc in E3t; cbn [armed_sec] in E3t; fsimpl.
  all: try solve [ intros u; split_thr u t; [ cbn [armed_sec]; auto; try discriminate | apply E3 ] ].
  all: intros u; split_thr u t; [ cbn [armed_sec]; discriminate | ];
       intros Hu; destruct (Nat.eq_dec u n) as [->|Hn]; [ | rewrite upd_neq by assumption; apply E3; exact Hu ];
       exfalso; apply armed_inlist in Hu; apply B1 in Hu;
       assert (L2 : llock s = Some t) by (apply B1; rewrite Epc; reflexivity); congruence.
Qed.

Lemma InvE2_step s t c s' e :
  InvB s -> InvC s -> InvP s -> InvE s -> mstep s t c = Some (s', e) ->
  forall h k, In h (queue s') -> narm s' h = Some k -> kindok k (pcs s' h) (fut s' h).
Proof.
  intros [B1 B2] [C1 C2] P [E1 [E2 E3]] H.
  pose proof (E2 t) as E2t. pose proof (C2 t) as Ct. pose proof (P t) as Pt. unfold linkok in Ct.
  step_cases H; rewrite Epc in E2t, Ct, Pt; cbn [lk fl futok] in Ct, Pt; fsimpl.
  all: intros hh kk Hin Hk.
  all: try (apply rem_In in Hin; destruct Hin as [Hin Hne]).
  all: try solve [ split_thr hh t; [ try contradiction;
                     specialize (E2t kk Hin Hk); destruct kk; cbn [kindok insync] in *; auto; try congruence
                   | apply E2; assumption ] ].
  1-2: (split_thr hh t;
        [ destruct Pt as [Pt|Pt]; rewrite Pt in *; cbn [fl] in Ct; [contradiction|];
          specialize (E2t kk Hin Hk); destruct kk; cbn [kindok insync] in *; congruence
        | apply E2; assumption ]).
  1-4: (try (apply In_app_single in Hin); revert Hk; split_thr hh t; intros Hk;
        [ injection Hk as <-; try (destruct blk); cbn [kindok insync]; auto
        | apply E2; [tauto | assumption] ]).
  all: (revert Hk; match goal with |- upd _ ?n _ _ = _ -> _ => destruct (Nat.eq_dec hh n) as [->|Hn] end;
        [ rewrite upd_eq; discriminate | rewrite upd_neq by assumption; intros Hk ];
        split_thr hh t; [ specialize (E2t kk Hin Hk); destruct kk; cbn [kindok insync] in *; auto; discriminate
                        | apply E2; assumption ]).
Qed.

Lemma InvE_step s t c s' e :
  InvB s -> InvC s -> InvP s -> InvE s -> mstep s t c = Some (s', e) -> InvE s'.
Proof.
  intros B C P E H. split; [|split].
  - eapply InvE1_step; eassumption.
  - eapply InvE2_step; eassumption.
  - eapply InvE3_step; eassumption.
Qed.
