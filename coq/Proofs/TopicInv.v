(* Proofs/TopicInv.v — the invariant relating the topic model (Chan/TopicOps.v) to the reference
   (Chan/TopicSpec.v), for every choice of the fix switches. *)
From Fibre Require Import Common.Base Chan.TopicOps Chan.TopicSpec Proofs.TopicLemmas.

Definition single (sp : spec) : bool := Nat.eqb (length (sp_tx sp)) 1.
(* disconnect-soundness is available when senders are counted (fix04) or never cloned *)
Definition sg (c : cfg) (sp : spec) : bool := fix04 c || single sp.
(* receivers whose mailbox is exactly the ideal one: all of them with fix14, otherwise the never-closed ones *)
Definition good (c : cfg) (y : srx) : bool := fix14 c || negb (s_closed y).

Record rel_tx (c : cfg) (x : txh) (y : stx) : Prop := {
  rt_id : t_id x = x_id y;
  rt_live : t_live x = x_live y;
  rt_cl1 : t_live x = true -> t_closed x = true -> x_closed y = true;
  rt_cl2 : t_live x = true -> fix04 c = true -> t_closed x = x_closed y
}.

Record rel_rx (c : cfg) (ls : list (N * list N)) (da ao sgb : bool) (x : rxh) (y : srx) : Prop := {
  rr_id : r_id x = s_id y;
  rr_live : r_live x = s_live y;
  rr_nd : NoDup (r_subs x);
  rr_subs : r_live x = true -> da = true -> r_subs x = s_subs y /\ m_cap (r_mb x) = s_cap y;
  rr_buf : r_live x = true -> good c y = true -> m_buf (r_mb x) = s_q y /\ m_dropped (r_mb x) = s_full y;
  rr_reg1 : r_live x = true -> da = true -> forall t, In t (r_subs x) ->
            exists l, get_list t ls = Some l /\ In (r_id x) l;
  rr_reg2 : r_live x = true -> da = true -> good c y = true -> forall t l,
            get_list t ls = Some l -> In (r_id x) l -> In t (r_subs x);
  rr_dsound : r_live x = true -> m_disc (r_mb x) = true -> sgb = true -> ao = false;
  rr_dcompl : r_live x = true -> fix04 c = true -> fix05 c = true -> ao = false -> m_disc (r_mb x) = true;
  rr_reach : r_live x = true -> s_reach y = true -> m_disc (r_mb x) = true;
  rr_cdead : r_live x = true -> r_closed x = true -> s_closed y = false -> da = false
}.

Record Inv (c : cfg) (s : state) (sp : spec) : Prop := {
  i_tx : Forall2 (rel_tx c) (txs s) (sp_tx sp);
  i_rx : Forall2 (rel_rx c (lists s) (disp_alive s) (any_open sp) (sg c sp)) (rxs s) (sp_rx sp);
  i_rnd : NoDup (map r_id (rxs s));
  i_tnd : NoDup (map t_id (txs s));
  i_futs : futs s = sp_futs sp;
  i_flive : forall f r, In (f, r) (futs s) -> rx_alive r (rxs s) = true;
  i_lnd : forall t l, get_list t (lists s) = Some l -> NoDup l;
  i_lknown : forall t l m, get_list t (lists s) = Some l -> In m l -> In m (map r_id (rxs s));
  i_cnt : fix04 c = true -> scount s = Z.of_nat (length (filter x_open (sp_tx sp)))
}.

(* what a complaint of the reference may be, given the state it was raised in *)
Definition v_ok (c : cfg) (sp : spec) (v : clause) : Prop :=
  match v with
  | VRouting r => exists y, find_srx r (sp_rx sp) = Some y /\ good c y = false
  | VDiscLive r => sg c sp = false
  | VNoDisc r => fix04 c && fix05 c = false /\ exists y, find_srx r (sp_rx sp) = Some y /\ s_reach y = false
  end.
Definition vs_ok (c : cfg) (sp : spec) (vs : list clause) : Prop := forall v, In v vs -> v_ok c sp v.

Lemma vs_ok_nil c sp : vs_ok c sp [].
Proof. intros v []. Qed.

(** initial state *)
Lemma inv_init c a cap : Inv c (init a cap) (sp_init cap).
Proof.
  constructor; cbn.
  - constructor; [|constructor]. constructor; cbn; auto; intros; discriminate.
  - constructor; [|constructor]. constructor; cbn; auto; try (intros; discriminate); try (intros; contradiction).
    constructor.
  - constructor; [intros []|constructor].
  - constructor; [intros []|constructor].
  - reflexivity.
  - intros f r [].
  - intros t l H. discriminate.
  - intros t l m H. discriminate.
  - intros _. reflexivity.
Qed.

(** liveness facts shared by model and reference *)
Lemma tx_live_eq c ts ss : Forall2 (rel_tx c) ts ss -> existsb t_live ts = existsb x_live ss.
Proof.
  induction 1 as [|x y ts ss Hxy HF IH]; cbn [existsb]; [reflexivity|].
  rewrite (rt_live _ _ _ Hxy), IH. reflexivity.
Qed.

Lemma any_open_live sp : any_open sp = true -> existsb x_live (sp_tx sp) = true.
Proof.
  unfold any_open. rewrite !existsb_exists. intros [x [H1 H2]]. exists x. split; [exact H1|].
  unfold x_open in H2. apply andb_true_iff in H2. tauto.
Qed.

Lemma da_false_ao c s sp : Inv c s sp -> disp_alive s = false -> any_open sp = false.
Proof.
  intros I H. destruct (any_open sp) eqn:E; [|reflexivity].
  apply any_open_live in E. unfold disp_alive in H. rewrite (tx_live_eq _ _ _ (i_tx _ _ _ I)) in H. congruence.
Qed.

Lemma live_tx_da s h x : live_tx h s = Some x -> disp_alive s = true.
Proof.
  unfold live_tx, disp_alive. destruct (find_tx h (txs s)) as [y|] eqn:E; [|discriminate].
  destruct (t_live y) eqn:L; [|discriminate]. intros _.
  apply find_tx_In in E. apply existsb_exists. exists y. tauto.
Qed.

Lemma live_rx_spec s r x : live_rx r s = Some x -> find_rx r (rxs s) = Some x /\ r_live x = true.
Proof.
  unfold live_rx. destruct (find_rx r (rxs s)) as [y|]; [|discriminate].
  destruct (r_live y) eqn:L; [|discriminate]. intros H. inversion H; subst. auto.
Qed.

Lemma live_tx_spec s r x : live_tx r s = Some x -> find_tx r (txs s) = Some x /\ t_live x = true.
Proof.
  unfold live_tx. destruct (find_tx r (txs s)) as [y|]; [|discriminate].
  destruct (t_live y) eqn:L; [|discriminate]. intros H. inversion H; subst. auto.
Qed.

Lemma rel_rx_id c ls da ao sgb x y : rel_rx c ls da ao sgb x y -> r_id x = s_id y.
Proof. apply rr_id. Qed.

Lemma rel_tx_id c x y : rel_tx c x y -> t_id x = x_id y.
Proof. apply rt_id. Qed.

(* the reference has a record for r exactly when the model has one *)
Lemma pair_rx c s sp r x :
  Inv c s sp -> find_rx r (rxs s) = Some x ->
  exists y, find_srx r (sp_rx sp) = Some y /\ In x (rxs s) /\ In y (sp_rx sp) /\
            rel_rx c (lists s) (disp_alive s) (any_open sp) (sg c sp) x y.
Proof.
  intros I H. pose proof (find_pair_rx _ _ _ r (i_rx _ _ _ I) (rel_rx_id _ _ _ _ _)) as P.
  rewrite H in P. destruct (find_srx r (sp_rx sp)) as [y|]; [|contradiction].
  exists y. tauto.
Qed.

Lemma pair_tx c s sp r x :
  Inv c s sp -> find_tx r (txs s) = Some x ->
  exists y, find_stx r (sp_tx sp) = Some y /\ In x (txs s) /\ In y (sp_tx sp) /\ rel_tx c x y.
Proof.
  intros I H. pose proof (find_pair_tx _ _ _ r (i_tx _ _ _ I) (rel_tx_id _)) as P.
  rewrite H in P. destruct (find_stx r (sp_tx sp)) as [y|]; [|contradiction].
  exists y. tauto.
Qed.

(* updating the record of one receiver on both sides *)
Lemma upd_pair (R R' : rxh -> srx -> Prop) r f g rs ss :
  Forall2 R rs ss -> (forall x y, R x y -> r_id x = s_id y) ->
  (forall x y, In x rs -> In y ss -> R x y -> r_id x = r -> R' (f x) (g y)) ->
  (forall x y, In x rs -> In y ss -> R x y -> r_id x <> r -> R' x y) ->
  Forall2 R' (upd_rx r f rs) (upd_srx r g ss).
Proof.
  intros HF Hid H1 H2. unfold upd_rx, upd_srx. eapply Forall2_map2; [exact HF|].
  intros x y Hx Hy HR. rewrite <- (Hid _ _ HR).
  destruct (N.eqb_spec (r_id x) r) as [E|E]; [apply H1 | apply H2]; assumption.
Qed.

(* the only record with id r *)
Lemma unique_rx rs r x x' : NoDup (map r_id rs) -> find_rx r rs = Some x -> In x' rs -> r_id x' = r -> x' = x.
Proof.
  intros Hnd Hf Hin Hid. pose proof (find_rx_NoDup _ _ _ Hnd Hin Hid) as H. congruence.
Qed.

(** ids on both sides *)
Lemma ids_eq c ls da ao sgb rs ss : Forall2 (rel_rx c ls da ao sgb) rs ss -> map r_id rs = map s_id ss.
Proof.
  induction 1 as [|x y rs ss Hxy HF IH]; cbn [map]; [reflexivity|].
  rewrite (rr_id _ _ _ _ _ _ _ Hxy), IH. reflexivity.
Qed.

Lemma find_srx_NoDup r ss y : NoDup (map s_id ss) -> In y ss -> s_id y = r -> find_srx r ss = Some y.
Proof.
  unfold find_srx. induction ss as [|a ss IH]; cbn [map find]; intros Hnd Hin Hid; [contradiction|].
  inversion Hnd as [|? ? Hni Hnd']; subst.
  destruct Hin as [->|Hin].
  - rewrite N.eqb_refl. reflexivity.
  - destruct (N.eqb_spec (s_id a) (s_id y)) as [E|E].
    + exfalso. apply Hni. rewrite E. apply in_map. exact Hin.
    + apply IH; auto.
Qed.

Lemma unique_pair c s sp r x y x0 y0 :
  Inv c s sp -> find_rx r (rxs s) = Some x -> find_srx r (sp_rx sp) = Some y ->
  In x0 (rxs s) -> In y0 (sp_rx sp) -> r_id x0 = r -> s_id y0 = r -> x0 = x /\ y0 = y.
Proof.
  intros I Hx Hy Hx0 Hy0 E1 E2. split.
  - eapply unique_rx; eauto. apply (i_rnd _ _ _ I).
  - assert (Hnd : NoDup (map s_id (sp_rx sp))).
    { rewrite <- (ids_eq _ _ _ _ _ _ _ (i_rx _ _ _ I)). apply (i_rnd _ _ _ I). }
    pose proof (find_srx_NoDup _ _ _ Hnd Hy0 E2) as H. congruence.
Qed.

Lemma upd_srx_id r ss : upd_srx r (fun y => y) ss = ss.
Proof.
  unfold upd_srx. rewrite <- (map_id ss) at 2. apply map_ext. intros a. destruct (N.eqb (s_id a) r); reflexivity.
Qed.

Lemma rx_alive_upd m r f rs :
  (forall x, r_id (f x) = r_id x) -> (forall x, r_live (f x) = r_live x) ->
  rx_alive m (upd_rx r f rs) = rx_alive m rs.
Proof.
  intros H1 H2. unfold rx_alive. rewrite find_rx_upd by exact H1.
  destruct (find_rx m rs) as [x|]; [|reflexivity]. destruct (N.eqb m r); [apply H2 | reflexivity].
Qed.

(* change the record of receiver r only (handle flags / mailbox), dispatcher and senders untouched *)
Lemma inv_upd_rx c s sp r x y f g :
  Inv c s sp -> find_rx r (rxs s) = Some x -> find_srx r (sp_rx sp) = Some y ->
  (forall x0, r_id (f x0) = r_id x0) -> (forall x0, r_live (f x0) = r_live x0) ->
  rel_rx c (lists s) (disp_alive s) (any_open sp) (sg c sp) (f x) (g y) ->
  Inv c (st_set_rxs s (upd_rx r f (rxs s))) (sp_set_rx sp (upd_srx r g (sp_rx sp))).
Proof.
  intros I Hx Hy Hid Hlive Hrel. constructor; cbn [txs rxs lists futs scount st_set_rxs sp_rx sp_tx sp_futs sp_set_rx].
  - apply (i_tx _ _ _ I).
  - change (disp_alive (st_set_rxs s (upd_rx r f (rxs s)))) with (disp_alive s).
    change (any_open (sp_set_rx sp (upd_srx r g (sp_rx sp)))) with (any_open sp).
    change (sg c (sp_set_rx sp (upd_srx r g (sp_rx sp)))) with (sg c sp).
    eapply upd_pair; [apply (i_rx _ _ _ I) | apply rel_rx_id | |].
    + intros x0 y0 Hx0 Hy0 HR E.
      assert (E2 : s_id y0 = r) by (rewrite <- (rr_id _ _ _ _ _ _ _ HR); exact E).
      destruct (unique_pair _ _ _ _ _ _ _ _ I Hx Hy Hx0 Hy0 E E2) as [-> ->]. exact Hrel.
    + intros x0 y0 _ _ HR _. exact HR.
  - rewrite map_r_id_upd by exact Hid. apply (i_rnd _ _ _ I).
  - apply (i_tnd _ _ _ I).
  - apply (i_futs _ _ _ I).
  - intros f0 r0 Hin. rewrite rx_alive_upd by assumption. eapply (i_flive _ _ _ I); eauto.
  - apply (i_lnd _ _ _ I).
  - intros t l m H1 H2. rewrite map_r_id_upd by exact Hid. eapply (i_lknown _ _ _ I); eauto.
  - apply (i_cnt _ _ _ I).
Qed.

Definition step_ok_for (c : cfg) (o : op) : Prop :=
  forall s sp s1 rs w sp1 vs, Inv c s sp -> step c s o = (s1, (rs, w)) -> sp_step sp o rs = (sp1, vs) ->
  Inv c s1 sp1 /\ vs_ok c sp vs.

Ltac frame I := first [ apply (i_tx _ _ _ I) | apply (i_rx _ _ _ I) | apply (i_rnd _ _ _ I) | apply (i_tnd _ _ _ I)
  | apply (i_futs _ _ _ I) | apply (i_flive _ _ _ I) | apply (i_lnd _ _ _ I) | apply (i_lknown _ _ _ I)
  | apply (i_cnt _ _ _ I) ].
