(* Proofs/TopicLemmas.v — list / lookup lemmas used by the topic proofs. *)
From Fibre Require Import Common.Base Chan.TopicOps Chan.TopicSpec.

(** Forall2 helpers *)
Lemma Forall2_map2 {A B A' B'} (R : A -> B -> Prop) (R' : A' -> B' -> Prop) (f : A -> A') (g : B -> B') l1 l2 :
  Forall2 R l1 l2 ->
  (forall x y, In x l1 -> In y l2 -> R x y -> R' (f x) (g y)) ->
  Forall2 R' (map f l1) (map g l2).
Proof.
  induction 1 as [|x y l1 l2 Hxy HF IH]; intros H; cbn [map]; constructor.
  - apply H; [left; reflexivity | left; reflexivity | exact Hxy].
  - apply IH. intros a b Ha Hb. apply H; right; assumption.
Qed.

Lemma Forall2_impl2 {A B} (R R' : A -> B -> Prop) l1 l2 :
  Forall2 R l1 l2 ->
  (forall x y, In x l1 -> In y l2 -> R x y -> R' x y) ->
  Forall2 R' l1 l2.
Proof.
  induction 1 as [|x y l1 l2 Hxy HF IH]; intros H; constructor.
  - apply H; [left; reflexivity | left; reflexivity | exact Hxy].
  - apply IH. intros a b Ha Hb. apply H; right; assumption.
Qed.

Lemma Forall2_snoc {A B} (R : A -> B -> Prop) l1 l2 x y :
  Forall2 R l1 l2 -> R x y -> Forall2 R (l1 ++ [x]) (l2 ++ [y]).
Proof. intros H1 H2. apply Forall2_app; [exact H1 | constructor; [exact H2 | constructor]]. Qed.

Lemma Forall2_In_l {A B} (R : A -> B -> Prop) l1 l2 x :
  Forall2 R l1 l2 -> In x l1 -> exists y, In y l2 /\ R x y.
Proof.
  induction 1 as [|a b l1 l2 Hab HF IH]; intros Hin; [contradiction|].
  destruct Hin as [->|Hin].
  - exists b. split; [left; reflexivity | exact Hab].
  - destruct (IH Hin) as [y [Hy HR]]. exists y. split; [right; exact Hy | exact HR].
Qed.

Lemma Forall2_In_r {A B} (R : A -> B -> Prop) l1 l2 y :
  Forall2 R l1 l2 -> In y l2 -> exists x, In x l1 /\ R x y.
Proof.
  induction 1 as [|a b l1 l2 Hab HF IH]; intros Hin; [contradiction|].
  destruct Hin as [->|Hin].
  - exists a. split; [left; reflexivity | exact Hab].
  - destruct (IH Hin) as [x [Hx HR]]. exists x. split; [right; exact Hx | exact HR].
Qed.

(** find / upd on receiver handles *)
Lemma find_rx_In r rs x : find_rx r rs = Some x -> In x rs /\ r_id x = r.
Proof.
  unfold find_rx. intros H. apply find_some in H. destruct H as [H1 H2].
  apply N.eqb_eq in H2. auto.
Qed.

Lemma find_rx_NoDup r rs x : NoDup (map r_id rs) -> In x rs -> r_id x = r -> find_rx r rs = Some x.
Proof.
  unfold find_rx. induction rs as [|a rs IH]; cbn [map find]; intros Hnd Hin Hid; [contradiction|].
  inversion Hnd as [|? ? Hni Hnd']; subst.
  destruct Hin as [->|Hin].
  - rewrite N.eqb_refl. reflexivity.
  - destruct (N.eqb_spec (r_id a) (r_id x)) as [E|E].
    + exfalso. apply Hni. rewrite E. apply in_map. exact Hin.
    + apply IH; auto.
Qed.

Lemma find_rx_None r rs : find_rx r rs = None <-> ~ In r (map r_id rs).
Proof.
  unfold find_rx. induction rs as [|a rs IH]; cbn [map find In].
  - split; auto.
  - destruct (N.eqb_spec (r_id a) r) as [E|E].
    + split; [discriminate | intros H; exfalso; apply H; left; exact E].
    + rewrite IH. split; [intros H [H1|H1]; auto | intros H H1; apply H; right; exact H1].
Qed.

Lemma find_rx_upd r r' f rs :
  (forall x, r_id (f x) = r_id x) ->
  find_rx r (upd_rx r' f rs) =
  match find_rx r rs with
  | Some x => Some (if N.eqb r r' then f x else x)
  | None => None
  end.
Proof.
  intros Hf. unfold find_rx, upd_rx. induction rs as [|a rs IH]; cbn [map find]; [reflexivity|].
  destruct (N.eqb_spec (r_id a) r') as [E|E].
  - rewrite Hf. destruct (N.eqb_spec (r_id a) r) as [E2|E2].
    + subst. rewrite N.eqb_refl. reflexivity.
    + exact IH.
  - destruct (N.eqb_spec (r_id a) r) as [E2|E2].
    + subst. destruct (N.eqb_spec (r_id a) r'); [contradiction | reflexivity].
    + exact IH.
Qed.

Lemma find_rx_app r rs x :
  find_rx r (rs ++ [x]) =
  match find_rx r rs with
  | Some y => Some y
  | None => if N.eqb (r_id x) r then Some x else None
  end.
Proof.
  unfold find_rx. induction rs as [|a rs IH]; cbn [app find]; [reflexivity|].
  destruct (N.eqb (r_id a) r); [reflexivity | exact IH].
Qed.

Lemma map_r_id_upd r f rs : (forall x, r_id (f x) = r_id x) -> map r_id (upd_rx r f rs) = map r_id rs.
Proof.
  intros Hf. unfold upd_rx. rewrite map_map. apply map_ext. intros a.
  destruct (N.eqb (r_id a) r); [apply Hf | reflexivity].
Qed.

Lemma In_upd_rx r f rs x' : In x' (upd_rx r f rs) ->
  exists x, In x rs /\ x' = (if N.eqb (r_id x) r then f x else x).
Proof. unfold upd_rx. intros H. apply in_map_iff in H. destruct H as [x [H1 H2]]. exists x. auto. Qed.

(** same for sender handles *)
Lemma find_tx_In r rs x : find_tx r rs = Some x -> In x rs /\ t_id x = r.
Proof.
  unfold find_tx. intros H. apply find_some in H. destruct H as [H1 H2].
  apply N.eqb_eq in H2. auto.
Qed.

Lemma find_tx_NoDup r rs x : NoDup (map t_id rs) -> In x rs -> t_id x = r -> find_tx r rs = Some x.
Proof.
  unfold find_tx. induction rs as [|a rs IH]; cbn [map find]; intros Hnd Hin Hid; [contradiction|].
  inversion Hnd as [|? ? Hni Hnd']; subst.
  destruct Hin as [->|Hin].
  - rewrite N.eqb_refl. reflexivity.
  - destruct (N.eqb_spec (t_id a) (t_id x)) as [E|E].
    + exfalso. apply Hni. rewrite E. apply in_map. exact Hin.
    + apply IH; auto.
Qed.

Lemma find_tx_None r rs : find_tx r rs = None <-> ~ In r (map t_id rs).
Proof.
  unfold find_tx. induction rs as [|a rs IH]; cbn [map find In].
  - split; auto.
  - destruct (N.eqb_spec (t_id a) r) as [E|E].
    + split; [discriminate | intros H; exfalso; apply H; left; exact E].
    + rewrite IH. split; [intros H [H1|H1]; auto | intros H H1; apply H; right; exact H1].
Qed.

Lemma map_t_id_upd r f rs : (forall x, t_id (f x) = t_id x) -> map t_id (upd_tx r f rs) = map t_id rs.
Proof.
  intros Hf. unfold upd_tx. rewrite map_map. apply map_ext. intros a.
  destruct (N.eqb (t_id a) r); [apply Hf | reflexivity].
Qed.

(** spec-side lookups through a Forall2 that relates ids *)
Lemma find_pair_rx (R : rxh -> srx -> Prop) rs ss r :
  Forall2 R rs ss -> (forall x y, R x y -> r_id x = s_id y) ->
  match find_rx r rs, find_srx r ss with
  | Some x, Some y => R x y /\ In x rs /\ In y ss
  | None, None => True
  | _, _ => False
  end.
Proof.
  intros HF Hid. unfold find_rx, find_srx.
  induction HF as [|x y rs ss Hxy HF IH]; cbn [find]; [exact I|].
  rewrite <- (Hid _ _ Hxy). destruct (N.eqb (r_id x) r).
  - split; [exact Hxy | split; left; reflexivity].
  - destruct (find (fun x0 => N.eqb (r_id x0) r) rs), (find (fun x0 => N.eqb (s_id x0) r) ss);
      try exact IH. destruct IH as [A [B C]]. split; [exact A | split; right; assumption].
Qed.

Lemma find_pair_tx (R : txh -> stx -> Prop) rs ss r :
  Forall2 R rs ss -> (forall x y, R x y -> t_id x = x_id y) ->
  match find_tx r rs, find_stx r ss with
  | Some x, Some y => R x y /\ In x rs /\ In y ss
  | None, None => True
  | _, _ => False
  end.
Proof.
  intros HF Hid. unfold find_tx, find_stx.
  induction HF as [|x y rs ss Hxy HF IH]; cbn [find]; [exact I|].
  rewrite <- (Hid _ _ Hxy). destruct (N.eqb (t_id x) r).
  - split; [exact Hxy | split; left; reflexivity].
  - destruct (find (fun x0 => N.eqb (t_id x0) r) rs), (find (fun x0 => N.eqb (x_id x0) r) ss);
      try exact IH. destruct IH as [A [B C]]. split; [exact A | split; right; assumption].
Qed.

(** dispatcher map *)
Lemma get_set_eq t l ls : get_list t (set_list t l ls) = Some l.
Proof.
  induction ls as [|[t' l'] ls IH]; cbn [set_list get_list].
  - rewrite N.eqb_refl. reflexivity.
  - destruct (N.eqb_spec t' t) as [E|E]; cbn [get_list].
    + subst. rewrite N.eqb_refl. reflexivity.
    + destruct (N.eqb_spec t' t); [contradiction | exact IH].
Qed.

Lemma get_set_neq t u l ls : u <> t -> get_list u (set_list t l ls) = get_list u ls.
Proof.
  intros Hne. induction ls as [|[t' l'] ls IH]; cbn [set_list get_list].
  - destruct (N.eqb_spec t u); [congruence | reflexivity].
  - destruct (N.eqb_spec t' t) as [E|E]; cbn [get_list].
    + subst. destruct (N.eqb_spec t u); [congruence | reflexivity].
    + destruct (N.eqb_spec t' u); [reflexivity | exact IH].
Qed.

Lemma in_lists_spec m ls : in_lists m ls = true <-> exists t l, In (t, l) ls /\ In m l.
Proof.
  unfold in_lists. rewrite existsb_exists. split.
  - intros [[t l] [H1 H2]]. cbn [snd] in H2. apply mem_In in H2. eauto.
  - intros [t [l [H1 H2]]]. exists (t, l). split; [exact H1 | cbn [snd]; apply mem_In; exact H2].
Qed.

Lemma get_list_In t l ls : get_list t ls = Some l -> In (t, l) ls.
Proof.
  induction ls as [|[t' l'] ls IH]; cbn [get_list]; intros H; [discriminate|].
  destruct (N.eqb_spec t' t) as [E|E].
  - inversion H; subst. left. reflexivity.
  - right. apply IH. exact H.
Qed.

Lemma filter_NoDup {A} (f : A -> bool) l : NoDup l -> NoDup (filter f l).
Proof.
  induction 1 as [|a l Hni Hnd IH]; cbn [filter]; [constructor|].
  destruct (f a); [constructor; [|exact IH] | exact IH].
  intros H. apply filter_In in H. destruct H. contradiction.
Qed.

Lemma NoDup_snoc {A} (a : A) l : NoDup l -> ~ In a l -> NoDup (l ++ [a]).
Proof.
  intros H1 H2. induction H1 as [|b l Hni Hnd IH]; cbn [app].
  - constructor; [intros []|constructor].
  - constructor.
    + intros H. apply in_app_or in H. destruct H as [H|[H|[]]]; [contradiction|].
      subst. apply H2. left. reflexivity.
    + apply IH. intros H. apply H2. right. exact H.
Qed.

Lemma mem_filter_neq t l : mem t (filter (fun u => negb (N.eqb u t)) l) = false.
Proof.
  apply mem_false_In. intros H. apply filter_In in H. destruct H as [_ H].
  rewrite N.eqb_refl in H. discriminate.
Qed.
