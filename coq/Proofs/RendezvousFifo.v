(* Proofs/RendezvousFifo.v — C02 for the rendezvous model: values cross the channel in the order in
   which their sends were offered to it.  A parked sender is never overtaken: a direct handoff
   happens only when no sender is parked, parked senders are served oldest first, cancelling or
   disconnecting only deletes offers. *)
From Fibre Require Import Common.Base Chan.Rendezvous Proofs.RendezvousBase Proofs.RendezvousWF
     Proofs.RendezvousProofs.

Inductive subseq {A} : list A -> list A -> Prop :=
| ss_nil : subseq [] []
| ss_skip x l l' : subseq l l' -> subseq l (x :: l')
| ss_take x l l' : subseq l l' -> subseq (x :: l) (x :: l').

Lemma subseq_refl {A} (l : list A) : subseq l l.
Proof. induction l; constructor; assumption. Qed.

Lemma subseq_nil {A} (l : list A) : subseq [] l.
Proof. induction l; constructor; assumption. Qed.

Lemma subseq_trans {A} (a b c : list A) : subseq a b -> subseq b c -> subseq a c.
Proof.
  intros H1 H2. revert a H1. induction H2; intros a H1.
  - exact H1.
  - constructor. apply IHsubseq. exact H1.
  - inversion H1; subst.
    + constructor. apply IHsubseq. assumption.
    + apply ss_take. apply IHsubseq. assumption.
Qed.

Lemma subseq_app {A} (a b c d : list A) : subseq a b -> subseq c d -> subseq (a ++ c) (b ++ d).
Proof.
  intros H1 H2. induction H1; cbn.
  - exact H2.
  - constructor. exact IHsubseq.
  - apply ss_take. exact IHsubseq.
Qed.

Lemma subseq_app_l {A} (a b : list A) : subseq a (a ++ b).
Proof. rewrite <- (app_nil_r a) at 1. apply subseq_app; [apply subseq_refl|apply subseq_nil]. Qed.

(** the value a parked send carries *)
Definition valof (F : list (N * fut)) (f : N) : N :=
  match aget f F with Some r => f_val r | None => 0 end.

Definition pend (F : list (N * fut)) (q : list (N * N)) : list N := map (valof F) (map fst q).

Definition ev_hand (e : ev) : list N := match e with EHand v => [v] | _ => [] end.
Definition ev_offer (e : ev) : list N := match e with EOffer v => [v] | _ => [] end.
Definition hand_of (es : list ev) : list N := flat_map ev_hand es.
Definition offer_of (es : list ev) : list N := flat_map ev_offer es.

Lemma hand_of_app e e' : hand_of (e ++ e') = hand_of e ++ hand_of e'.
Proof. apply flat_map_app. Qed.
Lemma offer_of_app e e' : offer_of (e ++ e') = offer_of e ++ offer_of e'.
Proof. apply flat_map_app. Qed.

Lemma valof_aupd k g F f : (forall r, f_val (g r) = f_val r) -> valof (aupd k g F) f = valof F f.
Proof.
  intros Hg. unfold valof. rewrite aget_aupd. deq k f; [|reflexivity].
  destruct (aget f F); cbn; [apply Hg|reflexivity].
Qed.

Lemma pend_aupd k g F q : (forall r, f_val (g r) = f_val r) -> pend (aupd k g F) q = pend F q.
Proof. intros Hg. unfold pend. apply map_ext. intros p. apply valof_aupd. exact Hg. Qed.

Lemma pend_keys F q q' : map fst q' = map fst q -> pend F q' = pend F q.
Proof. intros H. unfold pend. rewrite H. reflexivity. Qed.

Lemma valof_disc_all q F f : valof (disc_all q F) f = valof F f.
Proof.
  unfold valof. rewrite aget_disc_all. destruct (qhas f q); [|reflexivity].
  destruct (aget f F); reflexivity.
Qed.

Lemma pend_ext F F' q :
  (forall f, In f (map fst q) -> valof F' f = valof F f) -> pend F' q = pend F q.
Proof. intros H. unfold pend. apply map_ext_in. exact H. Qed.

Lemma subseq_pend_qdel F f q : subseq (pend F (qdel f q)) (pend F q).
Proof.
  unfold pend, qdel. induction q as [|[k x] t IH]; cbn [adel map fst]; [constructor|].
  deq f k; [constructor; apply subseq_refl|]. cbn [map fst]. apply ss_take. exact IH.
Qed.

(** the invariant: the line "already handed ++ still parked" only loses elements from its parked
    part and only grows at its end, together with the offers *)
Definition FF (F : list (N * fut)) (SQ : list (N * N)) (E : list ev) : Prop :=
  subseq (hand_of E ++ pend F SQ) (offer_of E).

Lemma FF_frame F F' SQ E e :
  FF F SQ E -> hand_of e = [] -> offer_of e = [] -> pend F' SQ = pend F SQ -> FF F' SQ (E ++ e).
Proof.
  unfold FF. intros H A B C. rewrite hand_of_app, offer_of_app, A, B, !app_nil_r, C. exact H.
Qed.

Lemma FF_nochange F SQ E e :
  FF F SQ E -> hand_of e = [] -> offer_of e = [] -> FF F SQ (E ++ e).
Proof. intros H A B. eapply FF_frame; eauto. Qed.

Lemma FF_shrink F F' SQ SQ' E e :
  FF F SQ E -> hand_of e = [] -> offer_of e = [] -> subseq (pend F' SQ') (pend F SQ) -> FF F' SQ' (E ++ e).
Proof.
  unfold FF. intros H A B C. rewrite hand_of_app, offer_of_app, A, B, !app_nil_r.
  eapply subseq_trans; [|exact H]. apply subseq_app; [apply subseq_refl|exact C].
Qed.

Lemma FF_direct F F' E e v :
  FF F [] E -> hand_of e = [v] -> offer_of e = [v] -> FF F' [] (E ++ e).
Proof.
  unfold FF, pend. cbn [map]. intros H A B. rewrite hand_of_app, offer_of_app, A, B, !app_nil_r in *.
  apply subseq_app; [exact H|apply subseq_refl].
Qed.

Lemma wakes_hand_offer q : hand_of (wakes_of q) = [] /\ offer_of (wakes_of q) = [].
Proof. induction q as [|p t IH]; cbn; [split; reflexivity|exact IH]. Qed.

Lemma adel_aupd_get_f f f' (F : list (N * fut)) :
  NoDup (map fst F) -> aget f' (adel f (aupd f fut_cancelled F)) = aget f' (adel f F).
Proof.
  intros Hn. deq f f'.
  - rewrite !aget_adel_eq; [reflexivity|exact Hn|rewrite keys_aupd; exact Hn].
  - rewrite !aget_adel_neq by assumption. apply aget_aupd_neq. assumption.
Qed.

Ltac nho := cbn [hand_of offer_of flat_map ev_hand ev_offer app]; try reflexivity.

Lemma core_send_FF b s v s' r e E pre :
  WF s -> FF (fs s) (sq s) E -> core_send b s v = (s', r, e) ->
  hand_of pre = [] -> offer_of pre = [] ->
  FF (fs s') (sq s') (E ++ pre ++ e).
Proof.
  intros W H Hs P1 P2. unfold core_send in Hs.
  assert (FR : forall e0, hand_of e0 = [] -> offer_of e0 = [] -> FF (fs s) (sq s) (E ++ pre ++ e0)).
  { intros e0 A B. apply (FF_frame (fs s) (fs s)); [exact H| | |reflexivity].
    - rewrite hand_of_app, P1, A. reflexivity.
    - rewrite offer_of_app, P2, B. reflexivity. }
  destruct (N.eqb (rcnt s) 0); [destruct b; inversion Hs; subst; apply FR; nho|].
  destruct (rq s) as [|[g w] rest] eqn:Hrq; [destruct b; inversion Hs; subst; apply FR; nho|].
  inversion Hs; subst. cbn [fs sq handoff_to_receiver].
  assert (Hsq : sq s = []).
  { destruct (wf_excl _ _ _ _ W) as [X|X]; [exact X|]. rewrite Hrq in X. discriminate. }
  rewrite Hsq in *. eapply FF_direct; [exact H| |].
  - rewrite hand_of_app, P1. nho.
  - rewrite offer_of_app, P2. nho.
Qed.

Lemma take_FF s s' v w E e :
  WF s -> FF (fs s) (sq s) E -> take_from_sender s = Some (s', v, w) ->
  hand_of e = [v] -> offer_of e = [] -> FF (fs s') (sq s') (E ++ e).
Proof.
  intros W H Ht A B. unfold take_from_sender in Ht.
  destruct (sq s) as [|[g w0] rest] eqn:Hsq; [discriminate|].
  destruct (aget g (fs s)) as [rg|] eqn:Hg; [|discriminate].
  destruct (f_cell rg) as [v0|] eqn:Hc; [|discriminate].
  inversion Ht; subst. cbn [fs sq].
  unfold WF in W. rewrite Hsq in W.
  destruct (wf_sq _ _ _ _ W g w (or_introl eq_refl)) as [rg' [Hg' [_ [_ [_ Hcg]]]]].
  rewrite Hg in Hg'. inversion Hg'; subst rg'.
  assert (Hv : valof (fs s) g = v) by (unfold valof; rewrite Hg; congruence).
  unfold FF in *. rewrite hand_of_app, offer_of_app, A, B, app_nil_r.
  rewrite pend_aupd by reflexivity. unfold pend in *. cbn [map fst] in H. rewrite Hv in H.
  rewrite <- app_assoc. exact H.
Qed.

Lemma core_recv_FF c k s s' r e E :
  WF s -> FF (fs s) (sq s) E -> core_recv c k s = (s', r, e) -> FF (fs s') (sq s') (E ++ e).
Proof.
  intros W H Hs. unfold core_recv in Hs. destruct (sq s) as [|p rest] eqn:Hsq.
  - assert (FR : FF (fs s) [] (E ++ [])) by (apply FF_nochange; auto).
    destruct (N.eqb (scnt s) 0); [inversion Hs; subst; rewrite Hsq; exact FR|].
    destruct k; inversion Hs; subst; cbn [fs sq set_rq]; rewrite ?Hsq; exact FR.
  - destruct (take_from_sender s) as [[[s1 v] w]|] eqn:Ht; inversion Hs; subst.
    + eapply take_FF; [exact W|rewrite Hsq; exact H|exact Ht|nho|nho].
    + rewrite Hsq. apply FF_nochange; auto.
Qed.

Lemma do_close_FF s h hd s' r e E :
  FF (fs s) (sq s) E -> do_close s h hd = (s', r, e) -> FF (fs s') (sq s') (E ++ e).
Proof.
  intros H Hs. unfold do_close, core_drop_sender, core_drop_receiver in Hs.
  destruct (h_closed hd); [inversion Hs; subst; apply FF_nochange; auto|].
  destruct (h_side hd); cbn [scnt rcnt fs rq sq set_hs hs] in Hs.
  - destruct (N.eqb (scnt s) 0); [|destruct (N.eqb (N.pred (scnt s)) 0)]; inversion Hs; subst;
      cbn [fs sq set_scnt set_hs]; try solve [apply FF_nochange; auto].
    destruct (wakes_hand_offer (rq s)) as [A B].
    eapply FF_frame; [exact H|auto|auto|]. apply pend_ext. intros f _. apply valof_disc_all.
  - destruct (N.eqb (rcnt s) 0); [|destruct (N.eqb (N.pred (rcnt s)) 0)]; inversion Hs; subst;
      cbn [fs sq set_rcnt set_hs]; try solve [apply FF_nochange; auto].
    destruct (wakes_hand_offer (sq s)) as [A B].
    eapply FF_shrink; eauto. apply subseq_nil.
Qed.

Lemma poll_send_FF c s f w r0 s' r e E :
  WF s -> FF (fs s) (sq s) E -> aget f (fs s) = Some r0 -> f_side r0 = Tx ->
  poll_send c s f w r0 = (s', r, e) -> FF (fs s') (sq s') (E ++ e).
Proof.
  intros W H Hg0 Hs0 Hs. unfold poll_send in Hs.
  assert (U : forall x e0, hand_of e0 = [] -> offer_of e0 = [] ->
                FF (aupd f (fut_unreg x) (fs s)) (sq s) (E ++ e0)).
  { intros x e0 A B. eapply FF_frame; [exact H|auto|auto|]. apply pend_aupd. reflexivity. }
  destruct (f_reg r0) eqn:Hr0.
  - destruct (f_st r0).
    + destruct (qhas f (sq s)); inversion Hs; subst; cbn [fs sq set_fs].
      * eapply FF_shrink; [exact H|auto|auto|]. rewrite pend_aupd by reflexivity.
        rewrite (pend_keys (fs s) (sq s) (qrefresh f w (sq s))); [apply subseq_refl|].
        unfold qrefresh. apply keys_aupd.
      * apply U; nho.
    + inversion Hs; subst; cbn [fs sq set_fs]. apply U; nho.
    + inversion Hs; subst; cbn [fs sq set_fs]. apply U; nho.
    + inversion Hs; subst; cbn [fs sq set_fs]. apply U; nho.
  - destruct (f_cell r0) as [v|] eqn:Hc0; [|inversion Hs; subst; apply FF_nochange; auto].
    destruct (fix_fut c && handle_closed s (f_h r0)); [inversion Hs; subst; apply FF_nochange; auto|].
    destruct (N.eqb (rcnt s) 0); [inversion Hs; subst; apply FF_nochange; auto|].
    assert (Hv : f_val r0 = v).
    { destruct (wf_fut _ _ _ _ W f r0 Hg0) as [Hk _]. rewrite Hs0 in Hk.
      destruct Hk as [[Hk|Hk] _]; congruence. }
    destruct (rq s) as [|[g w'] rest] eqn:Hrq; inversion Hs; subst; cbn [fs sq].
    + unfold FF in *. rewrite hand_of_app, offer_of_app. nho. rewrite app_nil_r.
      unfold pend. rewrite map_app, map_app. cbn [map fst].
      assert (X : map (valof (aupd f fut_park (fs s))) (map fst (sq s)) = map (valof (fs s)) (map fst (sq s))).
      { apply map_ext. intros p. apply valof_aupd. reflexivity. }
      rewrite X. unfold valof at 2. rewrite aget_aupd_eq, Hg0. cbn [option_map fut_park f_val].
      rewrite app_assoc. apply subseq_app; [exact H|apply subseq_refl].
    + assert (Hsq : sq s = []).
      { destruct (wf_excl _ _ _ _ W) as [X|X]; [exact X|]. rewrite Hrq in X. discriminate. }
      rewrite Hsq in *. eapply FF_direct; [exact H|nho|nho].
Qed.

Lemma poll_recv_FF c s f w r0 s' r e E :
  WF s -> FF (fs s) (sq s) E -> aget f (fs s) = Some r0 -> f_side r0 = Rx ->
  poll_recv c s f w r0 = (s', r, e) -> FF (fs s') (sq s') (E ++ e).
Proof.
  intros W H Hg0 Hs0 Hs. unfold poll_recv in Hs.
  assert (U : forall g e0, (forall x, f_val (g x) = f_val x) -> hand_of e0 = [] -> offer_of e0 = [] ->
                FF (aupd f g (fs s)) (sq s) (E ++ e0)).
  { intros g e0 Hgv A B. eapply FF_frame; [exact H|auto|auto|]. apply pend_aupd. exact Hgv. }
  destruct (f_reg r0) eqn:Hr0.
  - destruct (f_st r0).
    + destruct (qhas f (rq s)); inversion Hs; subst; cbn [fs sq set_fs]; apply U; nho.
    + destruct (f_cell r0); inversion Hs; subst; cbn [fs sq set_fs]; [apply U; nho|apply FF_nochange; auto].
    + inversion Hs; subst; cbn [fs sq set_fs]. apply U; nho.
    + inversion Hs; subst; cbn [fs sq set_fs]. apply U; nho.
  - destruct (fix_fut c && handle_closed s (f_h r0)); [inversion Hs; subst; apply FF_nochange; auto|].
    destruct (sq s) as [|p rest] eqn:Hsq.
    + destruct (N.eqb (scnt s) 0); inversion Hs; subst; cbn [fs sq]; rewrite ?Hsq.
      * apply FF_nochange; auto.
      * apply U; nho.
    + destruct (take_from_sender s) as [[[s1 v] w1]|] eqn:Ht; inversion Hs; subst.
      * eapply take_FF; [exact W|rewrite Hsq; exact H|exact Ht|nho|nho].
      * rewrite Hsq. apply FF_nochange; auto.
Qed.

Lemma drop_fut_FF s f r0 s' r e E :
  WF s -> FF (fs s) (sq s) E -> aget f (fs s) = Some r0 -> drop_fut s f r0 = (s', r, e) ->
  FF (fs s') (sq s') (E ++ e).
Proof.
  intros W H Hg0 Hs. unfold drop_fut in Hs. inversion Hs; subst; clear Hs.
  pose proof (wf_fs _ _ _ _ W) as Hn.
  assert (D : hand_of (drop_cell_ev r0) = [] /\ offer_of (drop_cell_ev r0) = []).
  { unfold drop_cell_ev. destruct (f_cell r0); [destruct (f_side r0)|]; split; reflexivity. }
  destruct D as [D1 D2].
  assert (V : forall F', (forall f', aget f' F' = aget f' (adel f (fs s))) ->
                forall q, ~ In f (map fst q) -> pend F' q = pend (fs s) q).
  { intros F' HF q Hq. apply pend_ext. intros f' Hi. unfold valof. rewrite HF.
    rewrite aget_adel_neq; [reflexivity|]. intros ->. exact (Hq Hi). }
  destruct (f_reg r0 && cancel_cas r0) eqn:Hc.
  - unfold cancel_remove. destruct (f_side r0) eqn:Hs0; cbn [fs sq set_fs set_sq set_rq].
    + eapply FF_shrink; eauto.
      rewrite (V _ (fun f' => adel_aupd_get_f f f' (fs s) Hn) (qdel f (sq s))).
      * apply subseq_pend_qdel.
      * apply keys_adel_notin. exact (wf_sqk _ _ _ _ W).
    + eapply FF_frame; [exact H|auto|auto|]. apply V; [intros f'; apply adel_aupd_get_f; exact Hn|].
      apply qhas_false. eapply not_in_sq; [exact W|exact Hg0|right; right; exact Hs0].
  - cbn [fs sq set_fs]. eapply FF_frame; [exact H|auto|auto|]. apply V; [reflexivity|].
    apply qhas_false. eapply not_in_sq; [exact W|exact Hg0|].
    apply andb_false_iff in Hc. destruct Hc as [Hc|Hc]; [left; exact Hc|].
    right. left. unfold cancel_cas in Hc. destruct (f_st r0); [discriminate|congruence..].
Qed.

Theorem step_FF c s o s' r e E :
  WF s -> FF (fs s) (sq s) E -> step c s o = (s', r, e) -> FF (fs s') (sq s') (E ++ e).
Proof.
  intros W H Hs.
  assert (K : forall e0, hand_of e0 = [] -> offer_of e0 = [] -> FF (fs s) (sq s) (E ++ e0))
    by (intros; apply FF_nochange; auto).
  destruct o; cbn [step] in Hs.
  - destruct (h_live_side s h Tx) as [hd|]; [|inversion Hs; subst; apply K; nho].
    destruct (h_closed hd); [inversion Hs; subst; apply K; nho|].
    destruct (core_send false s v) as [[s1 r1] e1] eqn:Hc. inversion Hs; subst.
    change (EIntro v :: e1) with ([EIntro v] ++ e1). eapply core_send_FF; eauto.
  - destruct (h_live_side s h Tx) as [hd|]; [|inversion Hs; subst; apply K; nho].
    destruct (h_async hd); [inversion Hs; subst; apply K; nho|].
    destruct (h_closed hd); [inversion Hs; subst; apply K; nho|].
    destruct (core_send true s v) as [[s1 r1] e1] eqn:Hc. inversion Hs; subst.
    assert (X : FF (fs s') (sq s') (E ++ [EIntro v] ++ e1)) by (eapply core_send_FF; eauto).
    destruct r; try exact X.
    unfold core_send in Hc. destruct (N.eqb (rcnt s) 0); [inversion Hc|].
    destruct (rq s) as [|[g w] rest]; inversion Hc; subst. apply K; nho.
  - destruct (h_live_side s h Rx) as [hd|]; [|inversion Hs; subst; apply K; nho].
    destruct (h_closed hd); [inversion Hs; subst; apply K; nho|]. eapply core_recv_FF; eauto.
  - destruct (h_live_side s h Rx) as [hd|]; [|inversion Hs; subst; apply K; nho].
    destruct (h_async hd); [inversion Hs; subst; apply K; nho|].
    destruct (h_closed hd); [inversion Hs; subst; apply K; nho|]. eapply core_recv_FF; eauto.
  - destruct (h_live_side s h Rx) as [hd|]; [|inversion Hs; subst; apply K; nho].
    destruct (h_async hd); [inversion Hs; subst; apply K; nho|].
    destruct (h_closed hd); [inversion Hs; subst; apply K; nho|]. eapply core_recv_FF; eauto.
  - destruct (aget h (hs s)) as [hd|]; [|inversion Hs; subst; apply K; nho]. eapply do_close_FF; eauto.
  - destruct (aget h (hs s)) as [hd|]; [|inversion Hs; subst; apply K; nho].
    destruct (borrowed s h); [inversion Hs; subst; apply K; nho|].
    destruct (do_close s h hd) as [[s1 r1] e1] eqn:Hc. inversion Hs; subst. cbn [fs sq set_hs].
    eapply do_close_FF; eauto.
  - destruct (aget h (hs s)) as [hd|]; [|inversion Hs; subst; apply K; nho].
    destruct (ahas h' (hs s)); [inversion Hs; subst; apply K; nho|].
    destruct (negb _); [inversion Hs; subst; apply K; nho|].
    destruct (fix_clone c && h_closed hd); inversion Hs; subst; [apply K; nho|].
    destruct (h_side hd); apply K; nho.
  - destruct (aget h (hs s)) as [hd|]; [|inversion Hs; subst; apply K; nho].
    destruct (borrowed s h); inversion Hs; subst; apply K; nho.
  - destruct (aget h (hs s)); inversion Hs; subst; apply K; nho.
  - destruct (h_live_side s h Tx) as [hd|]; [|inversion Hs; subst; apply K; nho].
    destruct (negb (h_async hd) || ahas f (fs s)) eqn:Hc; inversion Hs; subst; [apply K; nho|].
    cbn [fs sq set_fs]. eapply FF_frame; [exact H|nho|nho|].
    apply pend_ext. intros f' Hi. unfold valof. rewrite aget_app.
    apply qhas_true in Hi. destruct (sq_member _ _ _ _ W f' Hi) as [r1 [Hg1 _]]. rewrite Hg1. reflexivity.
  - destruct (h_live_side s h Rx) as [hd|]; [|inversion Hs; subst; apply K; nho].
    destruct (negb (h_async hd) || ahas f (fs s)) eqn:Hc; inversion Hs; subst; [apply K; nho|].
    cbn [fs sq set_fs]. eapply FF_frame; [exact H|nho|nho|].
    apply pend_ext. intros f' Hi. unfold valof. rewrite aget_app.
    apply qhas_true in Hi. destruct (sq_member _ _ _ _ W f' Hi) as [r1 [Hg1 _]]. rewrite Hg1. reflexivity.
  - destruct (aget f (fs s)) as [r0|] eqn:Hg; [|inversion Hs; subst; apply K; nho].
    destruct (f_side r0) eqn:Hsd; [eapply poll_send_FF|eapply poll_recv_FF]; eauto.
  - destruct (aget f (fs s)) as [r0|] eqn:Hg; [|inversion Hs; subst; apply K; nho].
    eapply drop_fut_FF; eauto.
Qed.

Theorem run_FF c ops : forall s s' tr E,
  WF s -> FF (fs s) (sq s) E -> run c s ops = (s', tr) -> FF (fs s') (sq s') (E ++ evs_of tr).
Proof.
  induction ops as [|o t IH]; intros s s' tr E W H Hr; cbn [run] in Hr.
  - inversion Hr; subst. cbn. rewrite app_nil_r. exact H.
  - destruct (step c s o) as [[s1 r1] e1] eqn:Hs.
    destruct (run c s1 t) as [s2 tr2] eqn:Hr2. inversion Hr; subst.
    rewrite evs_of_cons, app_assoc. eapply IH; [| |exact Hr2]; [eapply step_WF|eapply step_FF]; eauto.
Qed.

(* C02: for every configuration and history, the sequence of values that crossed the channel is a
   subsequence of the sequence of offers (sends that became visible to the channel: parked, or met a
   parked receiver), in the same order -- no overtaking, no reordering; cancelled and disconnected
   offers simply drop out.  The still-parked senders follow in registration order. *)
Theorem rv_fifo c a ops s tr :
  run c (init a) ops = (s, tr) ->
  subseq (hand_of (evs_of tr) ++ pend (fs s) (sq s)) (offer_of (evs_of tr))
  /\ subseq (hand_of (evs_of tr)) (offer_of (evs_of tr)).
Proof.
  intros Hr. assert (H0 : FF (fs (init a)) (sq (init a)) []) by (unfold FF; cbn; constructor).
  pose proof (run_FF c ops _ _ _ [] (WF_init a) H0 Hr) as H. cbn [app] in H. unfold FF in H.
  split; [exact H|]. eapply subseq_trans; [apply subseq_app_l|exact H].
Qed.

(* every receive form that takes a value takes it from the OLDEST parked sender *)
Theorem rv_recv_takes_oldest c k s s' v e :
  WF s -> core_recv c k s = (s', OVal v, e) ->
  exists g w rest, sq s = (g, w) :: rest /\ valof (fs s) g = v /\ sq s' = rest /\ rq s' = rq s
                   /\ e = [EHand v; ERecv v; EWake w].
Proof.
  intros W Hs. unfold core_recv in Hs. destruct (sq s) as [|[g w] rest] eqn:Hsq.
  - destruct (N.eqb (scnt s) 0); [discriminate|]. destruct k; discriminate.
  - unfold take_from_sender in Hs. rewrite Hsq in Hs.
    unfold WF in W. rewrite Hsq in W.
    destruct (wf_sq _ _ _ _ W g w (or_introl eq_refl)) as [rg [Hg [_ [_ [_ Hc]]]]].
    rewrite Hg, Hc in Hs. inversion Hs; subst. exists g, w, rest. unfold valof. rewrite Hg.
    repeat split; reflexivity.
Qed.

(* a direct handoff (try_send / send / first poll of a send future meeting a parked receiver)
   happens only while no sender is parked; receivers are served oldest first *)
Theorem rv_direct_handoff_only_when_no_sender_parked c a ops s tr :
  run c (init a) ops = (s, tr) -> sq s = [] \/ rq s = [].
Proof. intros Hr. exact (wf_excl _ _ _ _ (run_WF c ops _ _ _ (WF_init a) Hr)). Qed.
