(* Proofs/RendezvousAck.v — acknowledged sends are delivered (C01/C06), except finding F-31:
   a receive future that was handed a value and is dropped before it is polled destroys the value. *)
From Fibre Require Import Common.Base Chan.Rendezvous Proofs.RendezvousBase Proofs.RendezvousWF
     Proofs.RendezvousProofs.

Definition in_dest (F : list (N * fut)) (v : N) : Prop :=
  exists f r, aget f F = Some r /\ f_side r = Rx /\ f_cell r = Some v.

(* v reached the receiving side: returned to a receiver, or sitting in the dest of a live receive
   future, or destroyed inside a dropped receive future (F-31) *)
Definition delivered (F : list (N * fut)) (E : list ev) (v : N) : Prop :=
  In (ERecv v) E \/ in_dest F v \/ In (EDropDest v) E.

Definition AK (F : list (N * fut)) (E : list ev) : Prop :=
  (forall v, In (EAck v) E -> delivered F E v) /\
  (forall f r, aget f F = Some r -> f_side r = Tx -> (f_cell r = None \/ f_st r = DONE) ->
               delivered F E (f_val r)).

(** in_dest under the transformers *)
Lemma in_dest_aupd_keep k g F v :
  (forall r, f_side r = Rx -> f_side (g r) = Rx /\ f_cell (g r) = f_cell r) ->
  in_dest F v -> in_dest (aupd k g F) v.
Proof.
  intros Hg [f [r [Hf [Hs Hc]]]]. deq k f.
  - exists f, (g r). rewrite aget_aupd_eq, Hf. destruct (Hg r Hs) as [A B].
    split; [reflexivity|]. split; [exact A|congruence].
  - exists f, r. rewrite aget_aupd_neq by assumption. auto.
Qed.

Lemma in_dest_aupd_tx k g F rk v :
  aget k F = Some rk -> f_side rk = Tx -> in_dest F v -> in_dest (aupd k g F) v.
Proof.
  intros Hk Hsk [f [r [Hf [Hs Hc]]]]. deq k f; [congruence|].
  exists f, r. rewrite aget_aupd_neq by assumption. auto.
Qed.

Lemma in_dest_fill g F rg v :
  aget g F = Some rg -> f_side rg = Rx -> in_dest (aupd g (fut_done (Some v)) F) v.
Proof.
  intros Hg Hs. exists g, (fut_done (Some v) rg). rewrite aget_aupd_eq, Hg.
  split; [reflexivity|]. split; [exact Hs|reflexivity].
Qed.

Lemma in_dest_fill_other g F rg v v' :
  aget g F = Some rg -> f_cell rg = None -> in_dest F v' -> in_dest (aupd g (fut_done (Some v)) F) v'.
Proof.
  intros Hg Hc [f [r [Hf [Hs Hc']]]]. deq g f; [congruence|].
  exists f, r. rewrite aget_aupd_neq by assumption. auto.
Qed.

Lemma in_dest_disc_all q F v : in_dest F v -> in_dest (disc_all q F) v.
Proof.
  intros [f [r [Hf [Hs Hc]]]]. unfold in_dest. destruct (qhas f q) eqn:Hq.
  - exists f, (fut_disc r). rewrite aget_disc_all, Hq, Hf. split; [reflexivity|]. split; [exact Hs|exact Hc].
  - exists f, r. rewrite aget_disc_all, Hq. auto.
Qed.

Lemma in_dest_app F x v : in_dest F v -> in_dest (F ++ [x]) v.
Proof.
  intros [f [r [Hf [Hs Hc]]]]. exists f, r. rewrite aget_app, Hf. auto.
Qed.

Lemma in_dest_adel k F v :
  in_dest F v ->
  in_dest (adel k F) v \/ (exists rk, aget k F = Some rk /\ f_side rk = Rx /\ f_cell rk = Some v).
Proof.
  intros [f [r [Hf [Hs Hc]]]]. deq k f.
  - right. exists r. auto.
  - left. exists f, r. rewrite aget_adel_neq by assumption. auto.
Qed.

Lemma delivered_mono F F' E e v :
  (in_dest F v -> in_dest F' v \/ In (ERecv v) e \/ In (EDropDest v) e) ->
  delivered F E v -> delivered F' (E ++ e) v.
Proof.
  intros Hd [H|[H|H]].
  - left. apply in_or_app. left. exact H.
  - destruct (Hd H) as [X|[X|X]].
    + right. left. exact X.
    + left. apply in_or_app. right. exact X.
    + right. right. apply in_or_app. right. exact X.
  - right. right. apply in_or_app. left. exact H.
Qed.

(* a step that keeps every dest and every (Tx, cell/st) pair, and acknowledges nothing *)
Lemma AK_frame F F' E e :
  AK F E ->
  (forall v, in_dest F v -> in_dest F' v) ->
  (forall v, ~ In (EAck v) e) ->
  (forall f r', aget f F' = Some r' -> f_side r' = Tx -> (f_cell r' = None \/ f_st r' = DONE) ->
     exists r, aget f F = Some r /\ f_side r = Tx /\ (f_cell r = None \/ f_st r = DONE) /\ f_val r = f_val r') ->
  AK F' (E ++ e).
Proof.
  intros [A B] Hd Hn Hf. split.
  - intros v Hi. apply in_app_iff in Hi. destruct Hi as [Hi|Hi]; [|exfalso; exact (Hn v Hi)].
    eapply delivered_mono; [|exact (A v Hi)]. intros X. left. apply Hd. exact X.
  - intros f r' Hg Hs Hp. destruct (Hf f r' Hg Hs Hp) as [r [Hg0 [Hs0 [Hp0 Hv]]]].
    rewrite <- Hv. eapply delivered_mono; [|exact (B f r Hg0 Hs0 Hp0)]. intros X. left. apply Hd. exact X.
Qed.

Lemma no_ack_wakes q v : ~ In (EAck v) (wakes_of q).
Proof. induction q as [|p t IH]; cbn; [tauto|]. intros [X|X]; [discriminate|exact (IH X)]. Qed.

Lemma AK_same F E e : AK F E -> (forall v, ~ In (EAck v) e) -> AK F (E ++ e).
Proof.
  intros A Hn. eapply AK_frame; [exact A|auto|exact Hn|].
  intros f r' Hg Hs Hp. exists r'. auto.
Qed.

Lemma AK_handoff F E g rg v e :
  AK F E -> aget g F = Some rg -> f_side rg = Rx -> f_cell rg = None ->
  (forall x, In (EAck x) e -> x = v) ->
  AK (aupd g (fut_done (Some v)) F) (E ++ e).
Proof.
  intros [A B] Hg Hs Hc He. split.
  - intros x Hi. apply in_app_iff in Hi. destruct Hi as [Hi|Hi].
    + eapply delivered_mono; [|exact (A x Hi)]. intros X. left. eapply in_dest_fill_other; eauto.
    + rewrite (He x Hi). right. left. eapply in_dest_fill; eauto.
  - intros f r' Hf Hsf Hp. rewrite aget_aupd in Hf. deq g f.
    + rewrite Hg in Hf. cbn in Hf. inversion Hf; subst r'. cbn in Hsf. congruence.
    + eapply delivered_mono; [|exact (B f r' Hf Hsf Hp)]. intros X. left. eapply in_dest_fill_other; eauto.
Qed.

Lemma AK_take F E g rg v e :
  AK F E -> aget g F = Some rg -> f_side rg = Tx -> f_val rg = v ->
  In (ERecv v) e -> (forall x, ~ In (EAck x) e) ->
  AK (aupd g (fut_done None) F) (E ++ e).
Proof.
  intros [A B] Hg Hs Hv Hr Hn. split.
  - intros x Hi. apply in_app_iff in Hi. destruct Hi as [Hi|Hi]; [|exfalso; exact (Hn x Hi)].
    eapply delivered_mono; [|exact (A x Hi)]. intros X. left. eapply in_dest_aupd_tx; eauto.
  - intros f r' Hf Hsf Hp. rewrite aget_aupd in Hf. deq g f.
    + rewrite Hg in Hf. cbn in Hf. inversion Hf; subst r'. cbn [fut_done f_val].
      left. apply in_or_app. right. exact Hr.
    + eapply delivered_mono; [|exact (B f r' Hf Hsf Hp)]. intros X. left. eapply in_dest_aupd_tx; eauto.
Qed.

Lemma AK_disc_all F E q : AK F E -> AK (disc_all q F) (E ++ wakes_of q).
Proof.
  intros A. eapply AK_frame; [exact A| | |].
  - intros v. apply in_dest_disc_all.
  - intros v. apply no_ack_wakes.
  - intros f r' Hg Hs Hp. rewrite aget_disc_all in Hg. destruct (qhas f q).
    + destruct (aget f F) as [r|] eqn:Hg0; [|discriminate]. cbn in Hg. inversion Hg; subst r'.
      exists r. cbn in *. repeat split; auto. destruct Hp as [Hp|Hp]; [left; exact Hp|discriminate].
    + exists r'. auto.
Qed.

Lemma AK_aupd_plain F E k g rk e :
  AK F E -> aget k F = Some rk ->
  (f_side (g rk) = f_side rk /\ f_cell (g rk) = f_cell rk /\ f_val (g rk) = f_val rk
   /\ (f_st (g rk) = DONE -> f_st rk = DONE)) ->
  (forall v, ~ In (EAck v) e) ->
  AK (aupd k g F) (E ++ e).
Proof.
  intros A Hk Hg Hn. destruct Hg as [a [b [c d]]]. eapply AK_frame; [exact A| |exact Hn|].
  - intros v [f [r [Hf [Hs Hc]]]]. deq k f.
    + rewrite Hk in Hf. inversion Hf; subst r. exists f, (g rk). rewrite aget_aupd_eq, Hk.
      split; [reflexivity|]. split; congruence.
    + exists f, r. rewrite aget_aupd_neq by assumption. auto.
  - intros f r' Hf Hs Hp. rewrite aget_aupd in Hf. deq k f.
    + rewrite Hk in Hf. cbn in Hf. inversion Hf; subst r'.
      exists rk. repeat split; try congruence.
      destruct Hp as [Hp|Hp]; [left; congruence|right; auto].
    + exists r'. auto.
Qed.

Lemma AK_app F E x e :
  AK F E -> aget (fst x) F = None ->
  (f_side (snd x) = Tx -> f_cell (snd x) <> None /\ f_st (snd x) <> DONE) ->
  (forall v, ~ In (EAck v) e) ->
  AK (F ++ [x]) (E ++ e).
Proof.
  intros A Hx Hnew Hn. destruct x as [fx rx]. cbn [fst snd] in *.
  eapply AK_frame; [exact A| |exact Hn|].
  - intros v. apply in_dest_app.
  - intros f r' Hf Hs Hp. rewrite aget_app in Hf. destruct (aget f F) as [r|] eqn:Hg0.
    + inversion Hf; subst r'. exists r. auto.
    + cbn [aget] in Hf. deq f fx; [|discriminate]. inversion Hf; subst r'.
      destruct (Hnew Hs) as [a b]. destruct Hp; congruence.
Qed.

Lemma AK_adel F E f r0 :
  AK F E -> NoDup (map fst F) -> aget f F = Some r0 ->
  AK (adel f F) (E ++ drop_cell_ev r0).
Proof.
  intros [A B] Hn Hg.
  assert (M : forall v, delivered F E v -> delivered (adel f F) (E ++ drop_cell_ev r0) v).
  { intros v. apply delivered_mono. intros X. destruct (in_dest_adel f F v X) as [Y|[rk [Hk [Hs Hc]]]].
    - left. exact Y.
    - right. right. rewrite Hg in Hk. inversion Hk; subst rk. unfold drop_cell_ev. rewrite Hc, Hs.
      left. reflexivity. }
  split.
  - intros v Hi. apply in_app_iff in Hi. destruct Hi as [Hi|Hi]; [exact (M v (A v Hi))|].
    exfalso. unfold drop_cell_ev in Hi. destruct (f_cell r0); [destruct (f_side r0)|]; cbn in Hi;
      intuition discriminate.
  - intros f' r' Hf Hs Hp. deq f f'.
    + rewrite aget_adel_eq in Hf by exact Hn. discriminate.
    + rewrite aget_adel_neq in Hf by assumption. exact (M _ (B f' r' Hf Hs Hp)).
Qed.

Lemma AK_cancelled F E f r0 : AK F E -> aget f F = Some r0 -> AK (aupd f fut_cancelled F) E.
Proof.
  intros A Hg. rewrite <- (app_nil_r E). eapply AK_aupd_plain; [exact A|exact Hg| |intros v []].
  cbn. repeat split; auto. intros X; discriminate.
Qed.

(** every step preserves AK *)
Ltac noack := let v := fresh in let X := fresh in intros v X; cbn in X; intuition discriminate.

Lemma core_send_AK b s v s' r e E pre :
  WF s -> AK (fs s) E -> core_send b s v = (s', r, e) ->
  (forall x, ~ In (EAck x) pre) ->
  AK (fs s') (E ++ pre ++ e).
Proof.
  intros W A Hs Hp. unfold core_send in Hs.
  assert (Q : forall e0, (forall x, ~ In (EAck x) e0) -> forall x, ~ In (EAck x) (pre ++ e0)).
  { intros e0 H0 x X. apply in_app_iff in X. destruct X as [X|X]; [exact (Hp x X)|exact (H0 x X)]. }
  destruct (N.eqb (rcnt s) 0).
  - destruct b; inversion Hs; subst; apply AK_same; auto; apply Q; noack.
  - destruct (rq s) as [|[g w] rest] eqn:Hrq.
    + destruct b; inversion Hs; subst; apply AK_same; auto; apply Q; noack.
    + inversion Hs; subst. cbn [fs handoff_to_receiver].
      unfold WF in W. rewrite Hrq in W.
      destruct (wf_rq _ _ _ _ W g w (or_introl eq_refl)) as [rg [Hg [Hsg [_ [_ Hcg]]]]].
      eapply AK_handoff; eauto. intros x X. apply in_app_iff in X.
      destruct X as [X|X]; [exfalso; exact (Hp x X)|].
      cbn in X. intuition (try discriminate). congruence.
Qed.

Lemma take_AK s s' v w E e :
  WF s -> AK (fs s) E -> take_from_sender s = Some (s', v, w) ->
  In (ERecv v) e -> (forall x, ~ In (EAck x) e) ->
  AK (fs s') (E ++ e).
Proof.
  intros W A Ht Hr Hn. unfold take_from_sender in Ht.
  destruct (sq s) as [|[g w0] rest] eqn:Hsq; [discriminate|].
  destruct (aget g (fs s)) as [rg|] eqn:Hg; [|discriminate].
  destruct (f_cell rg) as [v0|] eqn:Hc; [|discriminate].
  inversion Ht; subst. cbn [fs].
  unfold WF in W. rewrite Hsq in W.
  destruct (wf_sq _ _ _ _ W g w (or_introl eq_refl)) as [rg' [Hg' [Hsg [_ [_ Hcg]]]]].
  rewrite Hg in Hg'. inversion Hg'; subst rg'.
  eapply AK_take; eauto. congruence.
Qed.

Lemma core_recv_AK c k s s' r e E :
  WF s -> AK (fs s) E -> core_recv c k s = (s', r, e) -> AK (fs s') (E ++ e).
Proof.
  intros W A Hs. unfold core_recv in Hs.
  destruct (sq s) as [|p rest] eqn:Hsq.
  - destruct (N.eqb (scnt s) 0); [inversion Hs; subst; apply AK_same; [exact A|noack]|].
    destruct k; inversion Hs; subst; cbn [fs set_rq]; apply AK_same; try exact A; noack.
  - destruct (take_from_sender s) as [[[s1 v] w]|] eqn:Ht; inversion Hs; subst.
    + eapply take_AK; eauto; [right; left; reflexivity|noack].
    + apply AK_same; [exact A|noack].
Qed.

Lemma do_close_AK s h hd s' r e E :
  AK (fs s) E -> do_close s h hd = (s', r, e) -> AK (fs s') (E ++ e).
Proof.
  intros A Hs. unfold do_close, core_drop_sender, core_drop_receiver in Hs.
  destruct (h_closed hd); [inversion Hs; subst; apply AK_same; [exact A|noack]|].
  destruct (h_side hd); cbn [scnt rcnt fs rq sq set_hs hs] in Hs.
  - destruct (N.eqb (scnt s) 0); [|destruct (N.eqb (N.pred (scnt s)) 0)]; inversion Hs; subst;
      cbn [fs set_scnt set_hs]; try (apply AK_same; [exact A|noack]). apply AK_disc_all. exact A.
  - destruct (N.eqb (rcnt s) 0); [|destruct (N.eqb (N.pred (rcnt s)) 0)]; inversion Hs; subst;
      cbn [fs set_rcnt set_hs]; try (apply AK_same; [exact A|noack]). apply AK_disc_all. exact A.
Qed.

Lemma poll_send_AK c s f w r0 s' r e E :
  WF s -> AK (fs s) E -> aget f (fs s) = Some r0 -> f_side r0 = Tx ->
  poll_send c s f w r0 = (s', r, e) -> AK (fs s') (E ++ e).
Proof.
  intros W A Hg0 Hs0 Hs. unfold poll_send in Hs.
  assert (U : forall e0, (forall x, ~ In (EAck x) e0) ->
                AK (aupd f (fut_unreg (f_cell r0)) (fs s)) (E ++ e0)).
  { intros e0 Hn. eapply AK_aupd_plain; [exact A|exact Hg0| |exact Hn]. cbn. repeat split; auto. }
  destruct (f_reg r0) eqn:Hr0.
  - destruct (f_st r0) eqn:Hst.
    + destruct (qhas f (sq s)); inversion Hs; subst; cbn [fs set_fs].
      * eapply AK_aupd_plain; [exact A|exact Hg0| |noack]. cbn. repeat split; auto.
      * apply U. noack.
    + inversion Hs; subst; cbn [fs set_fs].
      (* registered and DONE: the acknowledged value was delivered when the sender was fulfilled *)
      destruct A as [A1 A2].
      assert (D : delivered (fs s) E (f_val r0)) by (apply (A2 f r0 Hg0 Hs0); right; exact Hst).
      pose proof (U [] ltac:(intros v [])) as [B1 B2]. rewrite app_nil_r in B1, B2.
      split.
      * intros v Hi. apply in_app_iff in Hi. destruct Hi as [Hi|[Hi|[]]].
        -- destruct (B1 v Hi) as [X|[X|X]]; [left; apply in_or_app; left; exact X|right; left; exact X|
                                              right; right; apply in_or_app; left; exact X].
        -- inversion Hi; subst v.
           assert (D' : delivered (aupd f (fut_unreg (f_cell r0)) (fs s)) E (f_val r0)).
           { destruct D as [X|[X|X]]; [left; exact X| |right; right; exact X].
             right. left. eapply in_dest_aupd_tx; eauto. }
           destruct D' as [X|[X|X]]; [left; apply in_or_app; left; exact X|right; left; exact X|
                                       right; right; apply in_or_app; left; exact X].
      * intros f' r' Hf Hsf Hp. destruct (B2 f' r' Hf Hsf Hp) as [X|[X|X]];
          [left; apply in_or_app; left; exact X|right; left; exact X|right; right; apply in_or_app; left; exact X].
    + inversion Hs; subst; cbn [fs set_fs]. apply U. noack.
    + inversion Hs; subst; cbn [fs set_fs]. apply U. noack.
  - destruct (f_cell r0) as [v|] eqn:Hc0; [|inversion Hs; subst; apply AK_same; [exact A|noack]].
    destruct (fix_fut c && handle_closed s (f_h r0)); [inversion Hs; subst; apply AK_same; [exact A|noack]|].
    destruct (N.eqb (rcnt s) 0); [inversion Hs; subst; apply AK_same; [exact A|noack]|].
    destruct (rq s) as [|[g w'] rest] eqn:Hrq; inversion Hs; subst; cbn [fs].
    + eapply AK_aupd_plain; [exact A|exact Hg0| |noack]. cbn. repeat split; auto. intros X; discriminate.
    + unfold WF in W. rewrite Hrq in W.
      destruct (wf_rq _ _ _ _ W g w' (or_introl eq_refl)) as [rg [Hgg [Hsg [_ [_ Hcg]]]]].
      assert (Hne : f <> g) by (intros ->; congruence).
      assert (Hv : f_val r0 = v).
      { destruct (wf_fut _ _ _ _ W f r0 Hg0) as [Hk _]. rewrite Hs0 in Hk.
        destruct Hk as [[Hk|Hk] _]; congruence. }
      (* first the slot is emptied, then the parked receiver is filled *)
      destruct A as [A1 A2]. split.
      * intros x Hi. apply in_app_iff in Hi. destruct Hi as [Hi|Hi].
        -- eapply delivered_mono; [|exact (A1 x Hi)]. intros X. left.
           eapply in_dest_fill_other; [rewrite aget_aupd_neq by exact Hne; exact Hgg|exact Hcg|].
           eapply in_dest_aupd_tx; eauto.
        -- cbn in Hi. destruct Hi as [Hi|[Hi|[Hi|[Hi|[]]]]]; try discriminate. inversion Hi; subst x.
           right. left. eapply in_dest_fill; [rewrite aget_aupd_neq by exact Hne; exact Hgg|exact Hsg].
      * intros f' r' Hf Hsf Hp. rewrite aget_aupd in Hf. deq g f'.
        { rewrite aget_aupd_neq in Hf by exact Hne. rewrite Hgg in Hf. cbn in Hf.
          inversion Hf; subst r'. cbn in Hsf. congruence. }
        rewrite aget_aupd in Hf. deq f f'.
        { rewrite Hg0 in Hf. cbn in Hf. inversion Hf; subst r'. cbn [fut_sent f_val]. try rewrite Hv.
          right. left. eapply in_dest_fill; [rewrite aget_aupd_neq by exact Hne; exact Hgg|exact Hsg]. }
        eapply delivered_mono; [|exact (A2 f' r' Hf Hsf Hp)]. intros X. left.
        eapply in_dest_fill_other; [rewrite aget_aupd_neq by exact Hne; exact Hgg|exact Hcg|].
        eapply in_dest_aupd_tx; eauto.
Qed.

Lemma poll_recv_AK c s f w r0 s' r e E :
  WF s -> AK (fs s) E -> aget f (fs s) = Some r0 -> f_side r0 = Rx ->
  poll_recv c s f w r0 = (s', r, e) -> AK (fs s') (E ++ e).
Proof.
  intros W A Hg0 Hs0 Hs. unfold poll_recv in Hs.
  assert (U : forall e0, (forall x, ~ In (EAck x) e0) ->
                AK (aupd f (fut_unreg (f_cell r0)) (fs s)) (E ++ e0)).
  { intros e0 Hn. eapply AK_aupd_plain; [exact A|exact Hg0| |exact Hn]. cbn. repeat split; auto. }
  destruct (f_reg r0) eqn:Hr0.
  - destruct (f_st r0) eqn:Hst.
    + destruct (qhas f (rq s)); inversion Hs; subst; cbn [fs set_fs].
      * eapply AK_aupd_plain; [exact A|exact Hg0| |noack]. cbn. repeat split; auto.
      * apply U. noack.
    + destruct (f_cell r0) as [v|] eqn:Hc0; inversion Hs; subst; cbn [fs set_fs];
        [|apply AK_same; [exact A|noack]].
      (* the value leaves the dest and is returned: ERecv v *)
      destruct A as [A1 A2].
      assert (M : forall x, delivered (fs s) E x ->
                    delivered (aupd f (fut_unreg None) (fs s)) (E ++ [ERecv v]) x).
      { intros x. apply delivered_mono. intros [f' [r' [Hf [Hsf Hcf]]]]. deq f f'.
        - rewrite Hg0 in Hf. inversion Hf; subst r'. right. left. left. congruence.
        - left. exists f', r'. rewrite aget_aupd_neq by assumption. auto. }
      split.
      * intros x Hi. apply in_app_iff in Hi. destruct Hi as [Hi|[Hi|[]]]; [|discriminate].
        exact (M x (A1 x Hi)).
      * intros f' r' Hf Hsf Hp. rewrite aget_aupd in Hf. deq f f'.
        { rewrite Hg0 in Hf. cbn in Hf. inversion Hf; subst r'. cbn in Hsf. congruence. }
        exact (M _ (A2 f' r' Hf Hsf Hp)).
    + inversion Hs; subst; cbn [fs set_fs]. apply U. noack.
    + inversion Hs; subst; cbn [fs set_fs]. apply U. noack.
  - destruct (fix_fut c && handle_closed s (f_h r0)); [inversion Hs; subst; apply AK_same; [exact A|noack]|].
    destruct (sq s) as [|p rest] eqn:Hsq.
    + destruct (N.eqb (scnt s) 0); inversion Hs; subst; cbn [fs]; [apply AK_same; [exact A|noack]|].
      eapply AK_aupd_plain; [exact A|exact Hg0| |noack]. cbn. repeat split; auto. intros X; discriminate.
    + destruct (take_from_sender s) as [[[s1 v] w1]|] eqn:Ht; inversion Hs; subst.
      * eapply take_AK; eauto; [right; left; reflexivity|noack].
      * apply AK_same; [exact A|noack].
Qed.

Lemma drop_fut_AK s f r0 s' r e E :
  WF s -> AK (fs s) E -> aget f (fs s) = Some r0 -> drop_fut s f r0 = (s', r, e) ->
  AK (fs s') (E ++ e).
Proof.
  intros W A Hg0 Hs. unfold drop_fut in Hs. inversion Hs; subst; clear Hs.
  pose proof (wf_fs _ _ _ _ W) as Hn.
  destruct (f_reg r0 && cancel_cas r0).
  - assert (X : AK (adel f (aupd f fut_cancelled (fs s))) (E ++ drop_cell_ev (fut_cancelled r0))).
    { apply AK_adel; [eapply AK_cancelled; eauto|rewrite keys_aupd; exact Hn|].
      rewrite aget_aupd_eq, Hg0. reflexivity. }
    unfold cancel_remove. destruct (f_side r0) eqn:Hs0; cbn [fs set_fs set_sq set_rq]; exact X.
  - cbn [fs set_fs]. apply AK_adel; assumption.
Qed.

Theorem step_AK c s o s' r e E :
  WF s -> AK (fs s) E -> step c s o = (s', r, e) -> AK (fs s') (E ++ e).
Proof.
  intros W A Hs. destruct o; cbn [step] in Hs.
  - destruct (h_live_side s h Tx) as [hd|]; [|inversion Hs; subst; apply AK_same; [exact A|noack]].
    destruct (h_closed hd); [inversion Hs; subst; apply AK_same; [exact A|noack]|].
    destruct (core_send false s v) as [[s1 r1] e1] eqn:Hc. inversion Hs; subst.
    change (EIntro v :: e1) with ([EIntro v] ++ e1). eapply core_send_AK; eauto. noack.
  - destruct (h_live_side s h Tx) as [hd|]; [|inversion Hs; subst; apply AK_same; [exact A|noack]].
    destruct (h_async hd); [inversion Hs; subst; apply AK_same; [exact A|noack]|].
    destruct (h_closed hd); [inversion Hs; subst; apply AK_same; [exact A|noack]|].
    destruct (core_send true s v) as [[s1 r1] e1] eqn:Hc. inversion Hs; subst.
    assert (X : AK (fs s') (E ++ [EIntro v] ++ e1)) by (eapply core_send_AK; eauto; noack).
    destruct r; try exact X.
    (* OBlock: state unchanged, no events *)
    unfold core_send in Hc. destruct (N.eqb (rcnt s) 0); [inversion Hc|].
    destruct (rq s) as [|[g w] rest]; inversion Hc; subst. apply AK_same; [exact A|noack].
  - destruct (h_live_side s h Rx) as [hd|]; [|inversion Hs; subst; apply AK_same; [exact A|noack]].
    destruct (h_closed hd); [inversion Hs; subst; apply AK_same; [exact A|noack]|].
    eapply core_recv_AK; eauto.
  - destruct (h_live_side s h Rx) as [hd|]; [|inversion Hs; subst; apply AK_same; [exact A|noack]].
    destruct (h_async hd); [inversion Hs; subst; apply AK_same; [exact A|noack]|].
    destruct (h_closed hd); [inversion Hs; subst; apply AK_same; [exact A|noack]|].
    eapply core_recv_AK; eauto.
  - destruct (h_live_side s h Rx) as [hd|]; [|inversion Hs; subst; apply AK_same; [exact A|noack]].
    destruct (h_async hd); [inversion Hs; subst; apply AK_same; [exact A|noack]|].
    destruct (h_closed hd); [inversion Hs; subst; apply AK_same; [exact A|noack]|].
    eapply core_recv_AK; eauto.
  - destruct (aget h (hs s)) as [hd|]; [|inversion Hs; subst; apply AK_same; [exact A|noack]].
    eapply do_close_AK; eauto.
  - destruct (aget h (hs s)) as [hd|]; [|inversion Hs; subst; apply AK_same; [exact A|noack]].
    destruct (borrowed s h); [inversion Hs; subst; apply AK_same; [exact A|noack]|].
    destruct (do_close s h hd) as [[s1 r1] e1] eqn:Hc. inversion Hs; subst. cbn [fs set_hs].
    eapply do_close_AK; eauto.
  - destruct (aget h (hs s)) as [hd|]; [|inversion Hs; subst; apply AK_same; [exact A|noack]].
    destruct (ahas h' (hs s)); [inversion Hs; subst; apply AK_same; [exact A|noack]|].
    destruct (negb _); [inversion Hs; subst; apply AK_same; [exact A|noack]|].
    destruct (fix_clone c && h_closed hd); inversion Hs; subst; [apply AK_same; [exact A|noack]|].
    destruct (h_side hd); apply AK_same; try exact A; noack.
  - destruct (aget h (hs s)) as [hd|]; [|inversion Hs; subst; apply AK_same; [exact A|noack]].
    destruct (borrowed s h); inversion Hs; subst; apply AK_same; try exact A; noack.
  - destruct (aget h (hs s)); inversion Hs; subst; apply AK_same; try exact A; noack.
  - destruct (h_live_side s h Tx) as [hd|]; [|inversion Hs; subst; apply AK_same; [exact A|noack]].
    destruct (negb (h_async hd) || ahas f (fs s)) eqn:Hc; inversion Hs; subst; [apply AK_same; [exact A|noack]|].
    cbn [fs set_fs]. apply orb_false_iff in Hc. destruct Hc as [_ Hc].
    apply AK_app; [exact A| | |noack].
    + cbn. unfold ahas in Hc. destruct (aget f (fs s)); [discriminate|reflexivity].
    + cbn. intros _. split; discriminate.
  - destruct (h_live_side s h Rx) as [hd|]; [|inversion Hs; subst; apply AK_same; [exact A|noack]].
    destruct (negb (h_async hd) || ahas f (fs s)) eqn:Hc; inversion Hs; subst; [apply AK_same; [exact A|noack]|].
    cbn [fs set_fs]. apply orb_false_iff in Hc. destruct Hc as [_ Hc].
    apply AK_app; [exact A| | |noack].
    + cbn. unfold ahas in Hc. destruct (aget f (fs s)); [discriminate|reflexivity].
    + cbn. intros X; discriminate.
  - destruct (aget f (fs s)) as [r0|] eqn:Hg; [|inversion Hs; subst; apply AK_same; [exact A|noack]].
    destruct (f_side r0) eqn:Hsd.
    + eapply poll_send_AK; eauto.
    + eapply poll_recv_AK; eauto.
  - destruct (aget f (fs s)) as [r0|] eqn:Hg; [|inversion Hs; subst; apply AK_same; [exact A|noack]].
    eapply drop_fut_AK; eauto.
Qed.

Theorem run_AK c ops : forall s s' tr E,
  WF s -> AK (fs s) E -> run c s ops = (s', tr) -> AK (fs s') (E ++ evs_of tr).
Proof.
  induction ops as [|o t IH]; intros s s' tr E W A Hr; cbn [run] in Hr.
  - inversion Hr; subst. cbn. rewrite app_nil_r. exact A.
  - destruct (step c s o) as [[s1 r1] e1] eqn:Hs.
    destruct (run c s1 t) as [s2 tr2] eqn:Hr2. inversion Hr; subst.
    rewrite evs_of_cons, app_assoc. eapply IH; [| |exact Hr2].
    + eapply step_WF; eauto.
    + eapply step_AK; eauto.
Qed.

Lemma AK_init : AK [] [].
Proof. split; [intros v []|intros f r H; discriminate]. Qed.

(* C01 / C06, for every configuration and history: a payload whose send was acknowledged (try_send
   or send returned Ok, or the send future resolved Ok) has been returned to a receiver, or sits in
   the dest of a live receive future, or -- finding F-31 -- was destroyed inside a receive future
   that was dropped after the handoff and before its next poll. *)
Theorem rv_acked_delivered_except_F31 c a ops s tr v :
  run c (init a) ops = (s, tr) -> In (EAck v) (evs_of tr) ->
  In (ERecv v) (evs_of tr) \/ in_dest (fs s) v \/ In (EDropDest v) (evs_of tr).
Proof.
  intros Hr Hi. pose proof (run_AK c ops _ _ _ [] (WF_init a) AK_init Hr) as [A _].
  cbn [app] in A. exact (A v Hi).
Qed.

(* where EDropDest comes from: only the Drop of a receive future that completed (DONE, still
   registered) and was not polled since *)
Theorem rv_drop_dest_only_completed_recv c s o s' r e v :
  WF s -> step c s o = (s', r, e) -> In (EDropDest v) e ->
  exists f r0, o = DropF f /\ aget f (fs s) = Some r0 /\ f_side r0 = Rx /\ f_cell r0 = Some v
               /\ f_st r0 = DONE /\ f_reg r0 = true.
Proof.
  intros W Hs Hi.
  assert (Q : forall q, ~ In (EDropDest v) (wakes_of q)).
  { induction q as [|p t IH]; cbn; [tauto|]. intros [X|X]; [discriminate|exact (IH X)]. }
  destruct o; cbn [step] in Hs;
    try (repeat match type of Hs with
                | context [match ?x with _ => _ end] => destruct x eqn:?
                end; inversion Hs; subst; cbn in Hi; exfalso; intuition discriminate).
  - (* TrySend *)
    destruct (h_live_side s h Tx) as [hd|]; [|inversion Hs; subst; destruct Hi].
    destruct (h_closed hd); [inversion Hs; subst; cbn in Hi; exfalso; intuition discriminate|].
    destruct (core_send false s v0) as [[s1 r1] e1] eqn:Hc. inversion Hs; subst.
    unfold core_send in Hc. exfalso.
    destruct (N.eqb (rcnt s) 0); [|destruct (rq s) as [|[g w] rest]]; inversion Hc; subst;
      cbn in Hi; intuition discriminate.
  - (* Send *)
    destruct (h_live_side s h Tx) as [hd|]; [|inversion Hs; subst; destruct Hi].
    destruct (h_async hd); [inversion Hs; subst; destruct Hi|].
    destruct (h_closed hd); [inversion Hs; subst; cbn in Hi; exfalso; intuition discriminate|].
    destruct (core_send true s v0) as [[s1 r1] e1] eqn:Hc. inversion Hs; subst.
    unfold core_send in Hc. exfalso.
    destruct (N.eqb (rcnt s) 0); [|destruct (rq s) as [|[g w] rest]]; inversion Hc; subst;
      cbn in Hi; intuition discriminate.
  - (* TryRecv *)
    exfalso. destruct (h_live_side s h Rx) as [hd|]; [|inversion Hs; subst; destruct Hi].
    destruct (h_closed hd); [inversion Hs; subst; destruct Hi|].
    unfold core_recv in Hs. destruct (sq s); [destruct (N.eqb (scnt s) 0)|destruct (take_from_sender s) as [[[? ?] ?]|]];
      inversion Hs; subst; cbn in Hi; intuition discriminate.
  - exfalso. destruct (h_live_side s h Rx) as [hd|]; [|inversion Hs; subst; destruct Hi].
    destruct (h_async hd); [inversion Hs; subst; destruct Hi|].
    destruct (h_closed hd); [inversion Hs; subst; destruct Hi|].
    unfold core_recv in Hs. destruct (sq s); [destruct (N.eqb (scnt s) 0)|destruct (take_from_sender s) as [[[? ?] ?]|]];
      inversion Hs; subst; cbn in Hi; intuition discriminate.
  - exfalso. destruct (h_live_side s h Rx) as [hd|]; [|inversion Hs; subst; destruct Hi].
    destruct (h_async hd); [inversion Hs; subst; destruct Hi|].
    destruct (h_closed hd); [inversion Hs; subst; destruct Hi|].
    unfold core_recv in Hs. destruct (sq s); [destruct (N.eqb (scnt s) 0)|destruct (take_from_sender s) as [[[? ?] ?]|]];
      inversion Hs; subst; cbn in Hi; intuition discriminate.
  - (* Close *)
    exfalso. destruct (aget h (hs s)) as [hd|]; [|inversion Hs; subst; destruct Hi].
    unfold do_close, core_drop_sender, core_drop_receiver in Hs.
    destruct (h_closed hd); [inversion Hs; subst; destruct Hi|].
    destruct (h_side hd); cbn [scnt rcnt set_hs rq sq] in Hs.
    + destruct (N.eqb (scnt s) 0); [|destruct (N.eqb (N.pred (scnt s)) 0)]; inversion Hs; subst;
        try destruct Hi. exact (Q _ Hi).
    + destruct (N.eqb (rcnt s) 0); [|destruct (N.eqb (N.pred (rcnt s)) 0)]; inversion Hs; subst;
        try destruct Hi. exact (Q _ Hi).
  - (* DropH *)
    exfalso. destruct (aget h (hs s)) as [hd|]; [|inversion Hs; subst; destruct Hi].
    destruct (borrowed s h); [inversion Hs; subst; destruct Hi|].
    destruct (do_close s h hd) as [[s1 r1] e1] eqn:Hc. inversion Hs; subst.
    unfold do_close, core_drop_sender, core_drop_receiver in Hc.
    destruct (h_closed hd); [inversion Hc; subst; destruct Hi|].
    destruct (h_side hd); cbn [scnt rcnt set_hs rq sq] in Hc.
    + destruct (N.eqb (scnt s) 0); [|destruct (N.eqb (N.pred (scnt s)) 0)]; inversion Hc; subst;
        try destruct Hi. exact (Q _ Hi).
    + destruct (N.eqb (rcnt s) 0); [|destruct (N.eqb (N.pred (rcnt s)) 0)]; inversion Hc; subst;
        try destruct Hi. exact (Q _ Hi).
  - (* Poll *)
    exfalso. destruct (aget f (fs s)) as [r0|]; [|inversion Hs; subst; destruct Hi].
    destruct (f_side r0); [unfold poll_send in Hs|unfold poll_recv in Hs];
      repeat match type of Hs with
             | context [if ?b then _ else _] => destruct b
             | context [match ?x with _ => _ end] => destruct x
             end; inversion Hs; subst; cbn in Hi; intuition discriminate.
  - (* DropF *)
    destruct (aget f (fs s)) as [r0|] eqn:Hg; [|inversion Hs; subst; destruct Hi].
    unfold drop_fut in Hs. inversion Hs; subst. unfold drop_cell_ev in Hi.
    destruct (f_cell r0) as [x|] eqn:Hc; [|destruct Hi].
    destruct (f_side r0) eqn:Hsd; cbn in Hi; destruct Hi as [Hi|[]]; [discriminate|].
    inversion Hi; subst x. exists f, r0.
    destruct (wf_fut _ _ _ _ W f r0 Hg) as [Hk _]. rewrite Hsd in Hk. destruct Hk as [Hk _]. destruct (Hk v Hc) as [X Y].
    repeat split; auto.
Qed.

(* the full statement (what C01/C06 ask for: an acknowledged send is never lost by dropping a
   future) is false of the code as it is -- finding F-31 *)
Definition rv_acked_delivered_full (c : cfg) : Prop :=
  forall a ops s tr v, run c (init a) ops = (s, tr) -> In (EAck v) (evs_of tr) ->
    In (ERecv v) (evs_of tr) \/ in_dest (fs s) v.

Definition F31_witness : list op := [MkRecv 10 1; Poll 10 0; TrySend 0 100; DropF 10].

Theorem rv_acked_delivered_refuted_F31 c : ~ rv_acked_delivered_full c.
Proof.
  intros H. destruct c as [m t r x ff y].
  assert (X : exists s tr, run (mkCfg m t r x ff y) (init true) F31_witness = (s, tr)
                           /\ In (EAck 100) (evs_of tr) /\ ~ In (ERecv 100) (evs_of tr) /\ fs s = []).
  { destruct m, ff; eexists; eexists; (split; [vm_compute; reflexivity|]); cbn;
      (split; [tauto|]); (split; [intuition discriminate|reflexivity]). }
  destruct X as [s [tr [Hr [Ha [Hn Hf]]]]].
  destruct (H true _ s tr 100 Hr Ha) as [Y|[f [r0 [Y _]]]]; [exact (Hn Y)|].
  rewrite Hf in Y. discriminate.
Qed.
