(* Proofs/AMapProofs.v — lemmas about Cache/AMap.v *)
From Fibre Require Import Common.Base Cache.AMap.

Section AMapProofs.
  Variable V : Type.
  Implicit Types (m : amap V) (k : N) (v : V).

  Lemma afind_adel_same k m : afind k (adel k m) = None.
  Proof.
    induction m as [|[k' v'] t IH]; cbn [adel afind]; [reflexivity|].
    destruct (N.eqb_spec k k') as [->|Hn]; [exact IH|].
    cbn [afind]. destruct (N.eqb_spec k k'); [congruence | exact IH].
  Qed.

  Lemma afind_adel_other k k' m : k <> k' -> afind k (adel k' m) = afind k m.
  Proof.
    intros Hne. induction m as [|[k2 v2] t IH]; cbn [adel afind]; [reflexivity|].
    destruct (N.eqb_spec k' k2) as [->|Hn].
    - destruct (N.eqb_spec k k2); [congruence | exact IH].
    - cbn [afind]. destruct (N.eqb_spec k k2); [reflexivity | exact IH].
  Qed.

  Lemma afind_aset_same k v m : afind k (aset k v m) = match afind k m with Some _ => Some v | None => None end.
  Proof.
    induction m as [|[k' v'] t IH]; cbn [aset afind]; [reflexivity|].
    destruct (N.eqb_spec k k') as [->|Hn]; cbn [afind].
    - rewrite N.eqb_refl. reflexivity.
    - destruct (N.eqb_spec k k'); [congruence | exact IH].
  Qed.

  Lemma afind_aset_other k k' v m : k <> k' -> afind k (aset k' v m) = afind k m.
  Proof.
    intros Hne. induction m as [|[k2 v2] t IH]; cbn [aset afind]; [reflexivity|].
    destruct (N.eqb_spec k' k2) as [->|Hn]; cbn [afind].
    - destruct (N.eqb_spec k k2); [congruence | exact IH].
    - destruct (N.eqb_spec k k2); [reflexivity | exact IH].
  Qed.

  Lemma akeys_aset k v m : akeys (aset k v m) = akeys m.
  Proof.
    induction m as [|[k' v'] t IH]; cbn [aset akeys map fst]; [reflexivity|].
    destruct (N.eqb k k'); cbn [map fst]; f_equal; exact IH.
  Qed.

  Lemma afind_aput_same k v m : afind k (aput k v m) = Some v.
  Proof.
    unfold aput, ahas. destruct (afind k m) eqn:E.
    - rewrite afind_aset_same, E. reflexivity.
    - cbn [afind]. rewrite N.eqb_refl. reflexivity.
  Qed.

  Lemma afind_aput_other k k' v m : k <> k' -> afind k (aput k' v m) = afind k m.
  Proof.
    intros Hne. unfold aput. destruct (ahas k' m).
    - apply afind_aset_other. exact Hne.
    - cbn [afind]. destruct (N.eqb_spec k k'); [congruence | reflexivity].
  Qed.

  Lemma afind_None_keys k m : afind k m = None <-> ~ In k (akeys m).
  Proof.
    induction m as [|[k' v'] t IH]; cbn [afind akeys map fst].
    - split; auto.
    - destruct (N.eqb_spec k k') as [->|Hn].
      + split; [discriminate | intros H; exfalso; apply H; left; reflexivity].
      + rewrite IH. unfold akeys. split.
        * intros H [He|Hi]; [congruence | auto].
        * intros H Hi. apply H. right. exact Hi.
  Qed.

  Lemma afind_Some_keys k v m : afind k m = Some v -> In k (akeys m).
  Proof.
    intros H. destruct (in_dec N.eq_dec k (akeys m)) as [Hi|Hn]; [exact Hi|].
    apply afind_None_keys in Hn. congruence.
  Qed.

  Lemma afind_In k v m : afind k m = Some v -> In (k, v) m.
  Proof.
    induction m as [|[k' v'] t IH]; cbn [afind]; intros H; [discriminate|].
    destruct (N.eqb_spec k k') as [->|Hn].
    - inversion H; subst. left. reflexivity.
    - right. apply IH. exact H.
  Qed.

  Lemma In_afind k v m : NoDup (akeys m) -> In (k, v) m -> afind k m = Some v.
  Proof.
    induction m as [|[k' v'] t IH]; cbn [afind akeys map fst]; intros Hnd Hin; [contradiction|].
    inversion Hnd as [|? ? Hni Hnd']; subst.
    destruct Hin as [He|Hin].
    - inversion He; subst. rewrite N.eqb_refl. reflexivity.
    - destruct (N.eqb_spec k k') as [->|Hn].
      + exfalso. apply Hni. change (In k' (akeys t)). unfold akeys.
        apply in_map_iff. exists (k', v). auto.
      + apply IH; assumption.
  Qed.

  Lemma akeys_adel_subset k m x : In x (akeys (adel k m)) -> In x (akeys m) /\ x <> k.
  Proof.
    induction m as [|[k' v'] t IH]; cbn [adel akeys map fst]; intros H; [contradiction|].
    destruct (N.eqb_spec k k') as [->|Hn].
    - destruct (IH H) as [A B]. split; [right; exact A | exact B].
    - cbn [akeys map fst] in H. destruct H as [He|Hi].
      + subst. split; [left; reflexivity | congruence].
      + destruct (IH Hi) as [A B]. split; [right; exact A | exact B].
  Qed.

  Lemma adel_NoDup k m : NoDup (akeys m) -> NoDup (akeys (adel k m)).
  Proof.
    induction m as [|[k' v'] t IH]; cbn [adel akeys map fst]; intros H; [constructor|].
    inversion H as [|? ? Hni Hnd]; subst.
    destruct (N.eqb_spec k k') as [->|Hn]; [apply IH; exact Hnd|].
    cbn [akeys map fst]. constructor; [|apply IH; exact Hnd].
    intros Hi. apply akeys_adel_subset in Hi. destruct Hi. contradiction.
  Qed.

  Lemma aset_NoDup k v m : NoDup (akeys m) -> NoDup (akeys (aset k v m)).
  Proof. rewrite akeys_aset. auto. Qed.

  Lemma aput_NoDup k v m : NoDup (akeys m) -> NoDup (akeys (aput k v m)).
  Proof.
    intros H. unfold aput, ahas. destruct (afind k m) eqn:E.
    - apply aset_NoDup. exact H.
    - cbn [akeys map fst]. constructor; [|exact H]. apply afind_None_keys. exact E.
  Qed.

  Lemma adel_id k m : afind k m = None -> adel k m = m.
  Proof.
    induction m as [|[k' v'] t IH]; cbn [adel afind]; intros H; [reflexivity|].
    destruct (N.eqb_spec k k') as [->|Hn]; [discriminate|].
    f_equal. apply IH. exact H.
  Qed.

  Lemma afind_adel_Some k k' v m : afind k (adel k' m) = Some v -> afind k m = Some v /\ k <> k'.
  Proof.
    intros H. destruct (N.eq_dec k k') as [->|Hn].
    - rewrite afind_adel_same in H. discriminate.
    - rewrite afind_adel_other in H by exact Hn. auto.
  Qed.

  (* the entries of a sub-list are found in the list *)
  Lemma afind_filter_Some (f : N * V -> bool) k v m :
    NoDup (akeys m) -> In (k, v) (filter f m) -> afind k m = Some v.
  Proof. intros Hnd Hin. apply In_afind; [exact Hnd|]. apply filter_In in Hin. tauto. Qed.
End AMapProofs.

Arguments afind_adel_same {V}.
Arguments afind_adel_other {V}.
Arguments afind_aset_same {V}.
Arguments afind_aset_other {V}.
Arguments afind_aput_same {V}.
Arguments afind_aput_other {V}.
Arguments akeys_aset {V}.
Arguments afind_None_keys {V}.
Arguments afind_Some_keys {V}.
Arguments afind_In {V}.
Arguments In_afind {V}.
Arguments akeys_adel_subset {V}.
Arguments adel_NoDup {V}.
Arguments aset_NoDup {V}.
Arguments aput_NoDup {V}.
Arguments adel_id {V}.
Arguments afind_adel_Some {V}.
Arguments afind_filter_Some {V}.
