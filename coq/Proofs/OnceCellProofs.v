(* Proofs/OnceCellProofs.v — all-schedules theorems about the once-cell protocol (Ioc/OnceCell.v). *)
From Fibre Require Import Common.Base Ioc.OnceCell.

Definition running (s : ost) : N := match ocell s with Running _ => 1 | _ => 0 end.

Definition OInv (s : ost) : Prop :=
  runs s = fails s + completions s + running s /\
  match ocell s with
  | Uninit => (forall t, opc s t <> InFactory) /\ (forall t v, opc s t <> Done v) /\ completions s = 0
  | Running t0 => opc s t0 = InFactory /\ (forall t, t <> t0 -> opc s t <> InFactory) /\
                  (forall t v, opc s t <> Done v) /\ completions s = 0
  | Init v => (forall t, opc s t <> InFactory) /\ (forall t v', opc s t = Done v' -> v' = v) /\
              completions s = 1
  end.

Lemma upd_eq f t x : upd f t x t = x.
Proof. unfold upd. rewrite N.eqb_refl. reflexivity. Qed.

Lemma upd_neq f t x u : u <> t -> upd f t x u = f u.
Proof. unfold upd. intros H. destruct (N.eqb_spec u t); [contradiction | reflexivity]. Qed.

Lemma oinv_init : OInv oinit.
Proof.
  unfold OInv, oinit, running. cbn [ocell opc runs fails completions]. split; [reflexivity|].
  repeat split; intros; discriminate.
Qed.

Lemma oinv_enter s t : OInv s -> (opc s t = Idle \/ opc s t = Blocked) -> OInv (enter s t).
Proof.
  intros (HR & HC) Ht. unfold enter. destruct (ocell s) as [|t0|v] eqn:Ec.
  - destruct HC as (A & B & C). unfold OInv, running in *. cbn [ocell opc runs fails completions].
    split; [rewrite Ec in HR; lia|]. split; [apply upd_eq|]. split.
    + intros u Hu. rewrite upd_neq by exact Hu. apply A.
    + split; [|exact C]. intros u v. unfold upd. destruct (N.eqb u t); [discriminate | apply B].
  - destruct HC as (A & B & C & D). unfold OInv, running in *. cbn [ocell opc runs fails completions].
    rewrite Ec in *. split; [exact HR|].
    assert (Hne : t <> t0) by (intros ->; destruct Ht; congruence).
    split; [rewrite upd_neq by (intros E; apply Hne; symmetry; exact E); exact A|]. split.
    + intros u Hu. unfold upd. destruct (N.eqb u t); [discriminate | apply B; exact Hu].
    + split; [|exact D]. intros u v. unfold upd. destruct (N.eqb u t); [discriminate | apply C].
  - destruct HC as (A & B & C). unfold OInv, running in *. cbn [ocell opc runs fails completions].
    rewrite Ec in *. split; [exact HR|]. split.
    + intros u. unfold upd. destruct (N.eqb u t); [discriminate | apply A].
    + split; [|exact C]. intros u v'. unfold upd. destruct (N.eqb u t); [congruence | apply B].
Qed.

Lemma oinv_step s e : OInv s -> OInv (ostep s e).
Proof.
  intros I. destruct e as [t|t]; cbn [ostep].
  - destruct (opc s t) as [| | |v|] eqn:Et; try exact I; try (apply oinv_enter; [exact I | auto]).
    destruct I as (HR & HC). destruct (ocell s) as [|t0|v0] eqn:Ec.
    + destruct HC as (A & _). exfalso. apply (A t). exact Et.
    + destruct HC as (A & B & C & D).
      assert (t = t0) by (destruct (N.eq_dec t t0); [assumption | exfalso; apply (B t); assumption]). subst t0.
      unfold OInv, running in *. cbn [ocell opc runs fails completions]. rewrite Ec in HR. split; [lia|]. split.
      * intros u. unfold upd. destruct (N.eqb_spec u t); [discriminate | apply B; assumption].
      * split; [|lia]. intros u v'. unfold upd. destruct (N.eqb u t); [congruence|]. intros H. exfalso. apply (C u v'). exact H.
    + destruct HC as (A & _). exfalso. apply (A t). exact Et.
  - destruct (opc s t) as [| | |v|] eqn:Et; try exact I.
    destruct I as (HR & HC). destruct (ocell s) as [|t0|v0] eqn:Ec.
    + destruct HC as (A & _). exfalso. apply (A t). exact Et.
    + destruct HC as (A & B & C & D).
      assert (t = t0) by (destruct (N.eq_dec t t0); [assumption | exfalso; apply (B t); assumption]). subst t0.
      unfold OInv, running in *. cbn [ocell opc runs fails completions]. rewrite Ec in HR. split; [lia|]. split.
      * intros u. unfold upd. destruct (N.eqb_spec u t); [discriminate | apply B; assumption].
      * split; [|exact D]. intros u v'. unfold upd. destruct (N.eqb u t); [discriminate | apply C].
    + destruct HC as (A & _). exfalso. apply (A t). exact Et.
Qed.

Lemma oinv_run_from s sched : OInv s -> OInv (fold_left ostep sched s).
Proof.
  revert s. induction sched as [|e t IH]; intros s I; cbn [fold_left]; [exact I|].
  apply IH. apply oinv_step. exact I.
Qed.

Lemma oinv_run sched : OInv (orun sched).
Proof. apply oinv_run_from. apply oinv_init. Qed.

Lemma fails_zero_from s sched :
  forallb (fun e => negb (is_fail e)) sched = true -> fails (fold_left ostep sched s) = fails s.
Proof.
  revert s. induction sched as [|e t IH]; intros s H; cbn [fold_left forallb] in *; [reflexivity|].
  apply andb_true_iff in H as [H1 H2]. rewrite (IH _ H2).
  destruct e as [u|u]; cbn [is_fail negb] in H1; [|discriminate]. cbn [ostep].
  destruct (opc s u); try reflexivity; unfold enter; destruct (ocell s); reflexivity.
Qed.

(** For ALL schedules: at most one closure run completes; every caller that returned got the same
    value, which is the value in the cell; closure invocations <= panicked invocations + 1. *)
Theorem once_all_schedules sched :
  let s := orun sched in
  completions s <= 1 /\
  (forall t1 t2 v1 v2, opc s t1 = Done v1 -> opc s t2 = Done v2 -> v1 = v2) /\
  (forall t v, opc s t = Done v -> ocell s = Init v) /\
  runs s <= fails s + 1.
Proof.
  cbn zeta. pose proof (oinv_run sched) as (HR & HC). unfold running in HR.
  destruct (ocell (orun sched)) as [|t0|v0] eqn:Ec.
  - destruct HC as (A & B & C). repeat split; try lia.
    + intros t1 t2 v1 v2 H. exfalso. apply (B t1 v1). exact H.
    + intros t v H. exfalso. apply (B t v). exact H.
  - destruct HC as (A & B & C & D). repeat split; try lia.
    + intros t1 t2 v1 v2 H. exfalso. apply (C t1 v1). exact H.
    + intros t v H. exfalso. apply (C t v). exact H.
  - destruct HC as (A & B & C). repeat split; try lia.
    + intros t1 t2 v1 v2 H1 H2. rewrite (B t1 v1 H1), (B t2 v2 H2). reflexivity.
    + intros t v H. rewrite (B t v H). reflexivity.
Qed.

(** If no closure panics, the closure is invoked at most once whatever the interleaving. *)
Theorem once_no_panic sched :
  forallb (fun e => negb (is_fail e)) sched = true -> runs (orun sched) <= 1.
Proof.
  intros H. pose proof (once_all_schedules sched) as (_ & _ & _ & R). cbn zeta in R.
  unfold orun in *. rewrite (fails_zero_from oinit sched H) in R. cbn [oinit fails] in R. lia.
Qed.

(** no lost wake-up, as a safety statement: a blocked caller that gets to run once the cell is
    initialised returns the stored value; if the runner panicked it becomes the next runner. *)
Theorem blocked_returns s t v :
  opc s t = Blocked -> ocell s = Init v -> opc (ostep s (Step t)) t = Done v.
Proof. intros Hp Hc. cbn [ostep]. rewrite Hp. unfold enter. rewrite Hc. cbn [opc]. apply upd_eq. Qed.

Theorem blocked_takes_over s t :
  opc s t = Blocked -> ocell s = Uninit ->
  opc (ostep s (Step t)) t = InFactory /\ ocell (ostep s (Step t)) = Running t.
Proof.
  intros Hp Hc. cbn [ostep]. rewrite Hp. unfold enter. rewrite Hc. cbn [opc ocell].
  split; [apply upd_eq | reflexivity].
Qed.
