(* Proofs/SpmcWakeProofs.v — C06 for the broadcast SPMC channel: wake-up accounting of pending futures
   in the K2 model Chan/SpmcOps.v, for ALL op histories. *)
From Fibre Require Import Common.Base Chan.SpmcOps Proofs.SpmcOpsProofs.
From Coq Require Import ZifyBool ZifyNat ZifyN.
Ltac Zify.zify_post_hook ::= Z.div_mod_to_equations.

(* a batch send future keeps `sent + |rest| = total` *)
Definition fut_wf (k : fkind) : Prop :=
  match k with FSendB rest sent total => sent + lenN rest = total | _ => True end.

(* what must hold of a future whose last poll returned Pending (waker w) and whose waker has not been
   invoked since: it is still registered where the notifier will look, and it cannot make progress —
   except for the two recorded defects: its receiver handle was closed meanwhile (nothing wakes the
   handle's own futures), or another send future replaced the single producer waker slot *)
Definition Pw (s : st) (x : fut) (w : N) : Prop :=
  match fut_rx (f_kind x) with
  | Some r => exists y, get (rxs s) r = Some y /\
               (r_closed y = true \/ r_taint y = true \/
                (has_reg (r_cur y mod cap s) w (regs s) = true /\ head s <= r_cur y /\ pdrop s = false))
  | None => f_disp x = true \/ (pw s = Some w /\ s_closed s = false /\ space s = Some 0)
  end.

Definition J (s : st) : Prop :=
  forall f x, get (futs s) f = Some x -> f_live x = true ->
    fut_wf (f_kind x) /\ (forall w, f_wait x = Some w -> f_woken x = false -> Pw s x w).

(* ------------------------------------------------------------------ futures under wake *)
Lemma mark_fst w p : fst (mark w p) = fst p.
Proof.
  destruct p as [k x]. unfold mark. destruct (f_wait x) as [w'|]; [destruct (N.eqb w w')|]; reflexivity.
Qed.

Lemma get_map_mark w l f :
  get (map (mark w) l) f = match get l f with Some x => Some (snd (mark w (f, x))) | None => None end.
Proof.
  induction l as [|[k x] t IH]; cbn [map get]; [reflexivity|].
  pose proof (mark_fst w (k, x)) as Hf. destruct (mark w (k, x)) as [k' x'] eqn:E. cbn [fst] in Hf. subst k'.
  cbn [get]. destruct (N.eqb_spec f k) as [->|Hn]; [rewrite E; reflexivity | exact IH].
Qed.

Lemma mark_fields w f x :
  f_kind (snd (mark w (f, x))) = f_kind x /\ f_live (snd (mark w (f, x))) = f_live x /\
  f_wait (snd (mark w (f, x))) = f_wait x /\ f_disp (snd (mark w (f, x))) = f_disp x /\
  (f_woken (snd (mark w (f, x))) = false -> snd (mark w (f, x)) = x /\ f_wait x <> Some w).
Proof.
  unfold mark. destruct (f_wait x) as [w'|] eqn:Ew.
  - destruct (N.eqb_spec w w') as [->|Hn]; cbn [snd f_kind f_live f_wait f_disp f_woken].
    + repeat split; auto; discriminate.
    + repeat split; auto. congruence.
  - cbn [snd]. repeat split; auto. congruence.
Qed.

(* fields that `wake` leaves alone *)
Definition same_chan (s s' : st) : Prop :=
  cap s' = cap s /\ log s' = log s /\ s_alive s' = s_alive s /\ s_closed s' = s_closed s /\
  pdrop s' = pdrop s /\ rxs s' = rxs s /\ regs s' = regs s /\ pw s' = pw s.

Lemma Pw_same s s' x w : same_chan s s' -> Pw s x w -> Pw s' x w.
Proof.
  intros (H1 & H2 & H3 & H4 & H5 & H6 & H7 & H8). unfold Pw, space, cursors, head.
  rewrite H1, H2, H4, H5, H6, H7, H8. auto.
Qed.

Lemma J_wake w s : J s -> J (wake w s).
Proof.
  intros Hj f x Hg Hl. unfold wake in Hg. cbn [set_futs set_wlog futs] in Hg. rewrite get_map_mark in Hg.
  destruct (get (futs s) f) as [x0|] eqn:E0; [|discriminate].
  assert (Hx : x = snd (mark w (f, x0))) by (inversion Hg; reflexivity). clear Hg. subst x.
  destruct (mark_fields w f x0) as (Hk & Hlv & Hw & Hd & Hun). 
  rewrite Hlv in Hl. destruct (Hj f x0 E0 Hl) as [Hwf Hp]. rewrite Hk. split; [exact Hwf|].
  intros w0 Hw0 Hwk. destruct (Hun Hwk) as [Heq _]. rewrite Heq in *.
  apply (Pw_same s); [repeat split|]. apply Hp; assumption.
Qed.

Lemma J_wake_list ws : forall s, J s -> J (wake_list ws s).
Proof.
  induction ws as [|w t IH]; intros s Hj; [exact Hj|]. cbn [wake_list fold_left].
  change (J (wake_list t (wake w s))). apply IH. apply J_wake. exact Hj.
Qed.

(* after waking w, nobody waits unwoken on w *)
Definition none_waiting (w : N) (s : st) : Prop :=
  forall f x, get (futs s) f = Some x -> f_wait x = Some w -> f_woken x = true.

Lemma none_waiting_wake w s : none_waiting w (wake w s).
Proof.
  intros f x Hg Hw. unfold wake in Hg. cbn [set_futs set_wlog futs] in Hg. rewrite get_map_mark in Hg.
  destruct (get (futs s) f) as [x0|]; [|discriminate].
  assert (Hx : x = snd (mark w (f, x0))) by (inversion Hg; reflexivity). clear Hg. subst x.
  destruct (f_woken (snd (mark w (f, x0)))) eqn:E; [reflexivity|].
  destruct (mark_fields w f x0) as (_ & _ & Hw' & _ & Hun). 
  destruct (Hun E) as [_ Hne]. rewrite Hw' in Hw. contradiction.
Qed.

Lemma none_waiting_keep w w' s : none_waiting w s -> none_waiting w (wake w' s).
Proof.
  intros Hn f x Hg Hw. unfold wake in Hg. cbn [set_futs set_wlog futs] in Hg. rewrite get_map_mark in Hg.
  destruct (get (futs s) f) as [x0|] eqn:E0; [|discriminate].
  assert (Hx : x = snd (mark w' (f, x0))) by (inversion Hg; reflexivity). clear Hg. subst x.
  destruct (mark_fields w' f x0) as (_ & _ & Hw' & _ & Hun). 
  destruct (f_woken (snd (mark w' (f, x0)))) eqn:E; [reflexivity|].
  destruct (Hun eq_refl) as [Heq _]. rewrite Heq in *. rewrite (Hn f x0 E0 Hw) in E. discriminate.
Qed.

Lemma none_waiting_list w ws : forall s, (In w ws \/ none_waiting w s) -> none_waiting w (wake_list ws s).
Proof.
  induction ws as [|w' t IH]; intros s H.
  - destruct H as [[]|H]. exact H.
  - cbn [wake_list fold_left]. change (none_waiting w (wake_list t (wake w' s))). apply IH.
    destruct H as [[->|H]|H].
    + right. apply none_waiting_wake.
    + left. exact H.
    + right. apply none_waiting_keep. exact H.
Qed.

Lemma same_chan_wake_list ws s : same_chan s (wake_list ws s).
Proof.
  revert s. induction ws as [|w t IH]; intros s; [repeat split|].
  cbn [wake_list fold_left]. change (same_chan s (wake_list t (wake w s))).
  destruct (IH (wake w s)) as (H1 & H2 & H3 & H4 & H5 & H6 & H7 & H8). repeat split; assumption.
Qed.

(* ------------------------------------------------------------------ a weaker intermediate form:
   between a cursor update and the wake_producer call that follows it, send futures are registered
   but "cannot make progress" is no longer known *)
Definition Pw' (strict : bool) (s : st) (x : fut) (w : N) : Prop :=
  match fut_rx (f_kind x) with
  | Some r => exists y, get (rxs s) r = Some y /\
               (r_closed y = true \/ r_taint y = true \/
                (has_reg (r_cur y mod cap s) w (regs s) = true /\ head s <= r_cur y /\ pdrop s = false))
  | None => f_disp x = true \/
            (pw s = Some w /\ (strict = true -> s_closed s = false /\ space s = Some 0))
  end.

Definition Jg (strict : bool) (s : st) : Prop :=
  forall f x, get (futs s) f = Some x -> f_live x = true ->
    fut_wf (f_kind x) /\ (forall w, f_wait x = Some w -> f_woken x = false -> Pw' strict s x w).

Lemma J_Jg s : J s <-> Jg true s.
Proof.
  unfold J, Jg, Pw, Pw'. split; intros H f x Hg Hl; destruct (H f x Hg Hl) as [A B]; (split; [exact A|]);
    intros w Hw Hk; specialize (B w Hw Hk); destruct (fut_rx (f_kind x)); auto.
  - destruct B as [B|(B1 & B2 & B3)]; [left; exact B|right; split; [exact B1|intros _; split; assumption]].
  - destruct B as [B|(B1 & B2)]; [left; exact B|right]. destruct (B2 eq_refl). auto.
Qed.

Lemma Jg_weaken s : Jg true s -> Jg false s.
Proof.
  intros H f x Hg Hl. destruct (H f x Hg Hl) as [A B]. split; [exact A|]. intros w Hw Hk.
  specialize (B w Hw Hk). unfold Pw' in *. destruct (fut_rx (f_kind x)); [exact B|].
  destruct B as [B|[B1 _]]; [left; exact B|right; split; [exact B1|discriminate]].
Qed.

(* the part of the state the receive-side clause reads *)
Definition same_rx_view (s s' : st) : Prop :=
  cap s' = cap s /\ log s' = log s /\ pdrop s' = pdrop s /\ rxs s' = rxs s /\ regs s' = regs s.

Lemma Jg_wake strict w s : Jg strict s -> Jg strict (wake w s).
Proof.
  intros Hj f x Hg Hl. unfold wake in Hg. cbn [set_futs set_wlog futs] in Hg. rewrite get_map_mark in Hg.
  destruct (get (futs s) f) as [x0|] eqn:E0; [|discriminate].
  assert (Hx : x = snd (mark w (f, x0))) by (inversion Hg; reflexivity). clear Hg. subst x.
  destruct (mark_fields w f x0) as (Hk & Hlv & Hw & Hd & Hun).
  rewrite Hlv in Hl. destruct (Hj f x0 E0 Hl) as [Hwf Hp]. rewrite Hk. split; [exact Hwf|].
  intros w0 Hw0 Hwk. destruct (Hun Hwk) as [Heq _]. rewrite Heq in *. exact (Hp w0 Hw0 Hwk).
Qed.

Lemma Jg_wake_list strict ws : forall s, Jg strict s -> Jg strict (wake_list ws s).
Proof.
  induction ws as [|w t IH]; intros s Hj; [exact Hj|]. cbn [wake_list fold_left].
  change (Jg strict (wake_list t (wake w s))). apply IH. apply Jg_wake. exact Hj.
Qed.

(* C: wake_producer re-establishes the strict form: every registered send future gets woken *)
Lemma Jg_wake_producer s : Jg false s -> Jg true (wake_producer s).
Proof.
  intros Hj. unfold wake_producer. destruct (pw s) as [w0|] eqn:Epw.
  - intros f x Hg Hl. unfold wake in Hg. cbn [set_futs set_wlog set_pw futs] in Hg. rewrite get_map_mark in Hg.
    destruct (get (futs s) f) as [x0|] eqn:E0; [|discriminate].
    assert (Hx : x = snd (mark w0 (f, x0))) by (inversion Hg; reflexivity). clear Hg. subst x.
    destruct (mark_fields w0 f x0) as (Hk & Hlv & Hw & Hd & Hun).
    rewrite Hlv in Hl. destruct (Hj f x0 E0 Hl) as [Hwf Hp]. rewrite Hk. split; [exact Hwf|].
    intros w Hw0 Hwk. destruct (Hun Hwk) as [Heq Hne]. rewrite Heq in *. specialize (Hp w Hw0 Hwk).
    unfold Pw' in *. destruct (fut_rx (f_kind x0)); [exact Hp|].
    destruct Hp as [Hp|[Hp _]]; [left; exact Hp|]. rewrite Epw in Hp. congruence.
  - intros f x Hg Hl. destruct (Hj f x Hg Hl) as [Hwf Hp]. split; [exact Hwf|].
    intros w Hw Hk. specialize (Hp w Hw Hk). unfold Pw' in *. destruct (fut_rx (f_kind x)); [exact Hp|].
    destruct Hp as [Hp|[Hp _]]; [left; exact Hp|]. rewrite Epw in Hp. discriminate.
Qed.

(* futures bookkeeping helpers *)
Lemma no_live_rx_fut s r f x :
  rx_busy s r = false -> get (futs s) f = Some x -> f_live x = true -> fut_rx (f_kind x) <> Some r.
Proof.
  unfold rx_busy. intros Hb Hg Hl He. apply get_In in Hg.
  assert (Ht : existsb (fun p => f_live (snd p) &&
            match fut_rx (f_kind (snd p)) with Some r' => N.eqb r r' | None => false end) (futs s) = true).
  { apply existsb_exists. exists (f, x). split; [exact Hg|]. cbn [snd]. rewrite Hl, He, N.eqb_refl. reflexivity. }
  congruence.
Qed.

Lemma no_live_tx_fut s f x :
  tx_busy s = false -> get (futs s) f = Some x -> f_live x = true -> fut_rx (f_kind x) <> None.
Proof.
  unfold tx_busy. intros Hb Hg Hl He. apply get_In in Hg.
  assert (Ht : existsb (fun p => f_live (snd p) &&
            match fut_rx (f_kind (snd p)) with Some _ => false | None => true end) (futs s) = true).
  { apply existsb_exists. exists (f, x). split; [exact Hg|]. cbn [snd]. rewrite Hl, He. reflexivity. }
  congruence.
Qed.

(* A: a receive on r (cursor moves forward, strictly below head before) *)
Lemma Jg_set_rx_adv s r y k :
  Jg true s -> get (rxs s) r = Some y -> r_closed y = false -> r_cur y < head s ->
  Jg false (set_rx s r (adv y k)).
Proof.
  intros Hj Hgy Hc Hlt f x Hg Hl. cbn [set_rx set_rxs futs] in Hg. destruct (Hj f x Hg Hl) as [Hwf Hp].
  split; [exact Hwf|]. intros w Hw Hk. specialize (Hp w Hw Hk). unfold Pw' in *.
  cbn [set_rx set_rxs rxs cap regs pdrop pw]. change (head (set_rxs s (set (rxs s) r (adv y k)))) with (head s).
  destruct (fut_rx (f_kind x)) as [r0|].
  - destruct Hp as (y0 & Hg0 & Hp). destruct (N.eq_dec r0 r) as [->|Hne].
    + rewrite Hgy in Hg0. inversion Hg0; subst y0. exists (adv y k). split; [apply get_set_eq|].
      cbn [adv r_closed r_taint r_cur]. destruct Hp as [Hp|[Hp|(_ & Hp & _)]]; [congruence|auto|lia].
    + exists y0. split; [rewrite get_set_neq by exact Hne; exact Hg0|exact Hp].
  - destruct Hp as [Hp|[Hp _]]; [left; exact Hp|right; split; [exact Hp|discriminate]].
Qed.

(* B: close / drop of r *)
Lemma Jg_set_rx_unreg s r y :
  Jg true s -> get (rxs s) r = Some y -> Jg false (set_rx s r (rx_unreg y)).
Proof.
  intros Hj Hgy f x Hg Hl. cbn [set_rx set_rxs futs] in Hg. destruct (Hj f x Hg Hl) as [Hwf Hp].
  split; [exact Hwf|]. intros w Hw Hk. specialize (Hp w Hw Hk). unfold Pw' in *.
  cbn [set_rx set_rxs rxs cap regs pdrop pw]. change (head (set_rxs s (set (rxs s) r (rx_unreg y)))) with (head s).
  destruct (fut_rx (f_kind x)) as [r0|].
  - destruct Hp as (y0 & Hg0 & Hp). destruct (N.eq_dec r0 r) as [->|Hne].
    + exists (rx_unreg y). split; [apply get_set_eq|]. left. reflexivity.
    + exists y0. split; [rewrite get_set_neq by exact Hne; exact Hg0|exact Hp].
  - destruct Hp as [Hp|[Hp _]]; [left; exact Hp|right; split; [exact Hp|discriminate]].
Qed.

(* D: flag updates of a receiver no live future refers to, cursor list unchanged *)
Lemma cursors_set_same l r y y' :
  get l r = Some y -> r_reg y' = r_reg y -> r_cur y' = r_cur y ->
  map (fun p => r_cur (snd p)) (filter (fun p => r_reg (snd p)) (set l r y')) =
  map (fun p => r_cur (snd p)) (filter (fun p => r_reg (snd p)) l).
Proof.
  intros Hg Hr Hc. induction l as [|[k a] t IH]; cbn [get] in Hg; [discriminate|].
  cbn [set]. destruct (N.eqb_spec r k) as [->|Hn].
  - inversion Hg; subst a. cbn [filter snd]. rewrite Hr. destruct (r_reg y); cbn [map snd]; rewrite ?Hc; reflexivity.
  - cbn [filter snd]. destruct (r_reg a); cbn [map]; rewrite IH by exact Hg; reflexivity.
Qed.

Lemma Jg_set_rx_quiet s r y y' :
  Jg true s -> get (rxs s) r = Some y -> rx_busy s r = false ->
  r_reg y' = r_reg y -> r_cur y' = r_cur y -> Jg true (set_rx s r y').
Proof.
  intros Hj Hgy Hb Hr Hc f x Hg Hl. cbn [set_rx set_rxs futs] in Hg. destruct (Hj f x Hg Hl) as [Hwf Hp].
  split; [exact Hwf|]. intros w Hw Hk. specialize (Hp w Hw Hk). unfold Pw' in *.
  pose proof (no_live_rx_fut s r f x Hb Hg Hl) as Hnr.
  assert (Hsp : space (set_rx s r y') = space s).
  { unfold space, cursors. cbn [set_rx set_rxs rxs cap]. rewrite (cursors_set_same _ _ _ _ Hgy Hr Hc). reflexivity. }
  rewrite Hsp. cbn [set_rx set_rxs rxs cap regs pdrop pw s_closed].
  change (head (set_rxs s (set (rxs s) r y'))) with (head s).
  destruct (fut_rx (f_kind x)) as [r0|]; [|exact Hp].
  destruct Hp as (y0 & Hg0 & Hp). assert (Hne : r0 <> r) by congruence.
  exists y0. split; [rewrite get_set_neq by exact Hne; exact Hg0|exact Hp].
Qed.

(* E: Clone adds a receiver no future knows yet; a registered send future still cannot progress *)
Lemma set_fresh {A} (l : list (N * A)) k a : get l k = None -> set l k a = l ++ [(k, a)].
Proof.
  induction l as [|[k' a'] t IH]; cbn [get set app]; intros H; [reflexivity|].
  destruct (N.eqb_spec k k'); [discriminate|]. rewrite IH by exact H. reflexivity.
Qed.

Lemma minl_app_one l a :
  minl (l ++ [a]) = match minl l with Some m => Some (N.min m a) | None => Some a end.
Proof.
  induction l as [|x t IH]; cbn [app minl]; [reflexivity|]. rewrite IH.
  destruct (minl t) as [m|]; f_equal; lia.
Qed.

Lemma Jg_clone s c xc :
  Jg true s -> get (rxs s) c = None -> Jg true (set_rx s c xc).
Proof.
  intros Hj Hn f x Hg Hl. cbn [set_rx set_rxs futs] in Hg. destruct (Hj f x Hg Hl) as [Hwf Hp].
  split; [exact Hwf|]. intros w Hw Hk. specialize (Hp w Hw Hk). unfold Pw' in *.
  cbn [set_rx set_rxs rxs cap regs pdrop pw s_closed]. change (head (set_rxs s (set (rxs s) c xc))) with (head s).
  destruct (fut_rx (f_kind x)) as [r0|].
  - destruct Hp as (y0 & Hg0 & Hp). assert (Hne : r0 <> c) by congruence.
    exists y0. split; [rewrite get_set_neq by exact Hne; exact Hg0|exact Hp].
  - destruct Hp as [Hp|(Hp1 & Hp2)]; [left; exact Hp|right]. split; [exact Hp1|]. intros _.
    destruct (Hp2 eq_refl) as [Hc Hs]. split; [exact Hc|].
    unfold space, cursors in *. cbn [set_rx set_rxs rxs cap]. change (head (set_rxs s (set (rxs s) c xc))) with (head s).
    rewrite (set_fresh _ _ _ Hn), filter_app, map_app. cbn [filter snd].
    destruct (r_reg xc); cbn [map app]; [|rewrite app_nil_r; exact Hs].
    rewrite minl_app_one.
    destruct (minl (map (fun p => r_cur (snd p)) (filter (fun p => r_reg (snd p)) (rxs s)))) as [m|]; [|discriminate].
    inversion Hs as [Hs']. f_equal. cbn [snd]. change (head (set_rx s c xc)) with (head s). lia.
Qed.

(* commuting wake with the field setters write1 / drain use *)
Lemma wake_set_regs w s l : wake w (set_regs s l) = set_regs (wake w s) l.
Proof. reflexivity. Qed.
Lemma wake_set_log w s l : wake w (set_log s l) = set_log (wake w s) l.
Proof. reflexivity. Qed.
Lemma wake_add_drops w s l : wake w (add_drops s l) = add_drops (wake w s) l.
Proof. reflexivity. Qed.
Lemma wake_set_sender w s a c y t p : wake w (set_sender s a c y t p) = set_sender (wake w s) a c y t p.
Proof. reflexivity. Qed.

Lemma wake_list_set_regs ws : forall s l, wake_list ws (set_regs s l) = set_regs (wake_list ws s) l.
Proof.
  induction ws as [|w t IH]; intros s l; [reflexivity|]. cbn [wake_list fold_left].
  change (wake_list t (wake w (set_regs s l)) = set_regs (wake_list t (wake w s)) l).
  rewrite wake_set_regs. apply IH.
Qed.
Lemma wake_list_set_log ws : forall s l, wake_list ws (set_log s l) = set_log (wake_list ws s) l.
Proof.
  induction ws as [|w t IH]; intros s l; [reflexivity|]. cbn [wake_list fold_left].
  change (wake_list t (wake w (set_log s l)) = set_log (wake_list t (wake w s)) l).
  rewrite wake_set_log. apply IH.
Qed.
Lemma wake_list_add_drops ws : forall s l, wake_list ws (add_drops s l) = add_drops (wake_list ws s) l.
Proof.
  induction ws as [|w t IH]; intros s l; [reflexivity|]. cbn [wake_list fold_left].
  change (wake_list t (wake w (add_drops s l)) = add_drops (wake_list t (wake w s)) l).
  rewrite wake_add_drops. apply IH.
Qed.
Lemma wake_list_set_sender ws : forall s a c y t p,
  wake_list ws (set_sender s a c y t p) = set_sender (wake_list ws s) a c y t p.
Proof.
  induction ws as [|w t0 IH]; intros s a c y t p; [reflexivity|]. cbn [wake_list fold_left].
  change (wake_list t0 (wake w (set_sender s a c y t p)) = set_sender (wake_list t0 (wake w s)) a c y t p).
  rewrite wake_set_sender. apply IH.
Qed.

Lemma has_reg_in slot w l : has_reg slot w l = true -> In w (map snd (filter (fun p => N.eqb (fst p) slot) l)).
Proof.
  unfold has_reg. intros H. apply existsb_exists in H. destruct H as ([a b] & Hin & Hb).
  cbn [fst snd] in Hb. apply andb_true_iff in Hb. destruct Hb as [H1 H2].
  apply N.eqb_eq in H1. apply N.eqb_eq in H2. subst.
  apply in_map_iff. exists (slot, w). split; [reflexivity|]. apply filter_In. split; [exact Hin|].
  cbn [fst]. apply N.eqb_refl.
Qed.

Lemma has_reg_in_all slot w l : has_reg slot w l = true -> In w (map snd l).
Proof.
  unfold has_reg. intros H. apply existsb_exists in H. destruct H as ([a b] & Hin & Hb).
  cbn [fst snd] in Hb. apply andb_true_iff in Hb. destruct Hb as [_ H2]. apply N.eqb_eq in H2. subst.
  apply in_map_iff. exists (a, w). split; [reflexivity|exact Hin].
Qed.

(* F: one write at index head *)
Lemma Jg_write1 v s sp :
  Jg true s ->
  (forall r y, get (rxs s) r = Some y -> r_taint y = false -> r_closed y = false -> r_cur y <= head s) ->
  space s = Some sp -> 1 <= sp -> Jg true (write1 v s).
Proof.
  intros Hj Hcur Hsp Hge. unfold write1.
  set (h := head s). set (slot := h mod cap s).
  set (s1 := if N.leb (cap s) h then add_drops s [nth (N.to_nat (h - cap s)) (log s) 0] else s).
  assert (Hs1 : regs s1 = regs s /\ futs s1 = futs s /\ rxs s1 = rxs s /\ cap s1 = cap s /\ log s1 = log s
                /\ pdrop s1 = pdrop s /\ pw s1 = pw s /\ s_closed s1 = s_closed s).
  { unfold s1. destruct (N.leb (cap s) h); repeat split. }
  destruct Hs1 as (Hr1 & Hf1 & Hx1 & Hc1 & Hl1 & Hp1 & Hw1 & Hcl1).
  unfold drain. cbn [set_log regs]. rewrite Hr1.
  set (ws := map snd (filter (fun p => N.eqb (fst p) slot) (regs s))).
  rewrite wake_list_set_regs, wake_list_set_log.
  set (sa := wake_list ws s1).
  assert (Hja : Jg true sa).
  { apply Jg_wake_list. intros f x Hg Hl. rewrite Hf1 in Hg. destruct (Hj f x Hg Hl) as [A B]. split; [exact A|].
    intros w Hw Hk. specialize (B w Hw Hk). unfold Pw', space, cursors, head in *.
    rewrite Hx1, Hc1, Hl1, Hp1, Hw1, Hcl1, Hr1. exact B. }
  assert (Hnw : forall w, In w ws -> none_waiting w sa).
  { intros w Hin. apply none_waiting_list. left. exact Hin. }
  destruct (same_chan_wake_list ws s1) as (Sc & Sl & _ & Scl & Sp & Sx & Sr & Sw). fold sa in Sc, Sl, Scl, Sp, Sx, Sr, Sw.
  intros f x Hg Hl. cbn [set_regs set_log futs] in Hg. destruct (Hja f x Hg Hl) as [A B]. split; [exact A|].
  intros w Hw Hk. specialize (B w Hw Hk). unfold Pw' in *.
  cbn [set_regs set_log rxs cap regs pdrop pw s_closed].
  destruct (fut_rx (f_kind x)) as [r0|].
  - destruct B as (y0 & Hg0 & B). exists y0. split; [exact Hg0|].
    destruct B as [B|[B|(B1 & B2 & B3)]]; [left; exact B|right; left; exact B|].
    destruct (r_closed y0) eqn:Ec; [left; reflexivity|]. destruct (r_taint y0) eqn:Et; [right; left; reflexivity|].
    exfalso. rewrite Sx, Hx1 in Hg0. specialize (Hcur r0 y0 Hg0 Et Ec).
    unfold head in B2. rewrite Sl, Hl1 in B2. fold (head s) in B2.
    assert (Heq : r_cur y0 = h) by (unfold h; lia).
    rewrite Sc, Hc1, Sr, Hr1, Heq in B1. fold slot in B1. apply has_reg_in in B1.
    pose proof (Hnw w B1 f x Hg Hw). congruence.
  - destruct B as [B|(B1 & B2)]; [left; exact B|]. destruct (B2 eq_refl) as [_ B3].
    exfalso. unfold space, cursors, head in B3. rewrite Sx, Sc, Sl, Hx1, Hc1, Hl1 in B3.
    unfold space, cursors, head in Hsp. rewrite Hsp in B3. inversion B3. lia.
Qed.

Lemma space_write1 v s sp :
  space s = Some sp -> exists sp', space (write1 v s) = Some sp' /\ sp <= sp' + 1.
Proof.
  intros Hs. pose proof (proj_write1 v s) as Hp. unfold space in *.
  change (cursors (write1 v s)) with (c_cursors (proj (write1 v s))). rewrite Hp.
  change (c_cursors (with_log (proj s) (log s ++ [v]))) with (cursors s).
  destruct (minl (cursors s)) as [m|]; [|discriminate]. inversion Hs; subst sp.
  change (cap (write1 v s)) with (c_cap (proj (write1 v s))).
  change (head (write1 v s)) with (c_head (proj (write1 v s))). rewrite Hp.
  unfold c_head. cbn [with_log c_log c_cap proj]. rewrite lenN_app. fold (head s).
  eexists. split; [reflexivity|]. unfold lenN. cbn [length]. lia.
Qed.

Lemma Jg_write_many vs : forall s sp,
  Jg true s ->
  (forall r y, get (rxs s) r = Some y -> r_taint y = false -> r_closed y = false -> r_cur y <= head s) ->
  space s = Some sp -> lenN vs <= sp -> Jg true (write_many vs s).
Proof.
  induction vs as [|v t IH]; intros s sp Hj Hcur Hsp Hle; [exact Hj|].
  cbn [write_many fold_left]. change (Jg true (write_many t (write1 v s))).
  assert (Hlen : lenN (v :: t) = lenN t + 1) by (unfold lenN; cbn [length]; lia).
  destruct (space_write1 v s sp Hsp) as (sp' & Hsp' & Hle').
  apply (IH (write1 v s) sp').
  - apply (Jg_write1 v s sp); auto. lia.
  - intros r y Hg Ht Hc. pose proof (proj_write1 v s) as Hp.
    change (rxs (write1 v s)) with (c_rxs (proj (write1 v s))) in Hg. rewrite Hp in Hg.
    change (head (write1 v s)) with (c_head (proj (write1 v s))). rewrite Hp.
    unfold c_head. cbn [with_log c_log]. rewrite lenN_app. specialize (Hcur r y Hg Ht Hc). unfold head in Hcur. lia.
  - exact Hsp'.
  - lia.
Qed.
