(* Proofs/SpmcWakeProofs.v — C06 for the broadcast SPMC channel: wake-up accounting of pending futures
   in the K2 model Chan/SpmcOps.v, for ALL op histories. *)
From Fibre Require Import Common.Base Chan.SpmcOps Proofs.SpmcOpsProofs.
From Coq Require Import ZifyBool ZifyNat ZifyN.
Ltac Zify.zify_post_hook ::= Z.div_mod_to_equations.

(* a batch send future keeps `sent + |rest| = total` *)
Definition fut_wf (k : fkind) : Prop :=
  match k with FSendB rest sent total => sent + lenN rest = total | _ => True end.

(* what must hold of a future whose last poll returned Pending (waker w) and whose waker has not been
   invoked since: it is still registered where the notifier will look, and it cannot make progress —
   except for the two recorded defects: its receiver handle was closed meanwhile (nothing wakes the
   handle's own futures), or another send future replaced the single producer waker slot *)
Definition Pw (s : st) (x : fut) (w : N) : Prop :=
  match fut_rx (f_kind x) with
  | Some r => exists y, get (rxs s) r = Some y /\
               (r_closed y = true \/ r_taint y = true \/
                (has_reg (r_cur y mod cap s) w (regs s) = true /\ head s <= r_cur y /\ pdrop s = false))
  | None => f_disp x = true \/ (pw s = Some w /\ s_closed s = false /\ space s = Some 0)
  end.

Definition J (s : st) : Prop :=
  forall f x, get (futs s) f = Some x -> f_live x = true ->
    fut_wf (f_kind x) /\ (forall w, f_wait x = Some w -> f_woken x = false -> Pw s x w).

(* ------------------------------------------------------------------ futures under wake *)
Lemma mark_fst w p : fst (mark w p) = fst p.
Proof.
  destruct p as [k x]. unfold mark. destruct (f_wait x) as [w'|]; [destruct (N.eqb w w')|]; reflexivity.
Qed.

Lemma get_map_mark w l f :
  get (map (mark w) l) f = match get l f with Some x => Some (snd (mark w (f, x))) | None => None end.
Proof.
  induction l as [|[k x] t IH]; cbn [map get]; [reflexivity|].
  pose proof (mark_fst w (k, x)) as Hf. destruct (mark w (k, x)) as [k' x'] eqn:E. cbn [fst] in Hf. subst k'.
  cbn [get]. destruct (N.eqb_spec f k) as [->|Hn]; [rewrite E; reflexivity | exact IH].
Qed.

Lemma mark_fields w f x :
  f_kind (snd (mark w (f, x))) = f_kind x /\ f_live (snd (mark w (f, x))) = f_live x /\
  f_wait (snd (mark w (f, x))) = f_wait x /\ f_disp (snd (mark w (f, x))) = f_disp x /\
  (f_woken (snd (mark w (f, x))) = false -> snd (mark w (f, x)) = x /\ f_wait x <> Some w).
Proof.
  unfold mark. destruct (f_wait x) as [w'|] eqn:Ew.
  - destruct (N.eqb_spec w w') as [->|Hn]; cbn [snd f_kind f_live f_wait f_disp f_woken].
    + repeat split; auto; discriminate.
    + repeat split; auto. congruence.
  - cbn [snd]. repeat split; auto. congruence.
Qed.

(* fields that `wake` leaves alone *)
Definition same_chan (s s' : st) : Prop :=
  cap s' = cap s /\ log s' = log s /\ s_alive s' = s_alive s /\ s_closed s' = s_closed s /\
  pdrop s' = pdrop s /\ rxs s' = rxs s /\ regs s' = regs s /\ pw s' = pw s.

Lemma Pw_same s s' x w : same_chan s s' -> Pw s x w -> Pw s' x w.
Proof.
  intros (H1 & H2 & H3 & H4 & H5 & H6 & H7 & H8). unfold Pw, space, cursors, head.
  rewrite H1, H2, H4, H5, H6, H7, H8. auto.
Qed.

Lemma J_wake w s : J s -> J (wake w s).
Proof.
  intros Hj f x Hg Hl. unfold wake in Hg. cbn [set_futs set_wlog futs] in Hg. rewrite get_map_mark in Hg.
  destruct (get (futs s) f) as [x0|] eqn:E0; [|discriminate].
  assert (Hx : x = snd (mark w (f, x0))) by (inversion Hg; reflexivity). clear Hg. subst x.
  destruct (mark_fields w f x0) as (Hk & Hlv & Hw & Hd & Hun). 
  rewrite Hlv in Hl. destruct (Hj f x0 E0 Hl) as [Hwf Hp]. rewrite Hk. split; [exact Hwf|].
  intros w0 Hw0 Hwk. destruct (Hun Hwk) as [Heq _]. rewrite Heq in *.
  apply (Pw_same s); [repeat split|]. apply Hp; assumption.
Qed.

Lemma J_wake_list ws : forall s, J s -> J (wake_list ws s).
Proof.
  induction ws as [|w t IH]; intros s Hj; [exact Hj|]. cbn [wake_list fold_left].
  change (J (wake_list t (wake w s))). apply IH. apply J_wake. exact Hj.
Qed.

(* after waking w, nobody waits unwoken on w *)
Definition none_waiting (w : N) (s : st) : Prop :=
  forall f x, get (futs s) f = Some x -> f_wait x = Some w -> f_woken x = true.

Lemma none_waiting_wake w s : none_waiting w (wake w s).
Proof.
  intros f x Hg Hw. unfold wake in Hg. cbn [set_futs set_wlog futs] in Hg. rewrite get_map_mark in Hg.
  destruct (get (futs s) f) as [x0|]; [|discriminate].
  assert (Hx : x = snd (mark w (f, x0))) by (inversion Hg; reflexivity). clear Hg. subst x.
  destruct (f_woken (snd (mark w (f, x0)))) eqn:E; [reflexivity|].
  destruct (mark_fields w f x0) as (_ & _ & Hw' & _ & Hun). 
  destruct (Hun E) as [_ Hne]. rewrite Hw' in Hw. contradiction.
Qed.

Lemma none_waiting_keep w w' s : none_waiting w s -> none_waiting w (wake w' s).
Proof.
  intros Hn f x Hg Hw. unfold wake in Hg. cbn [set_futs set_wlog futs] in Hg. rewrite get_map_mark in Hg.
  destruct (get (futs s) f) as [x0|] eqn:E0; [|discriminate].
  assert (Hx : x = snd (mark w' (f, x0))) by (inversion Hg; reflexivity). clear Hg. subst x.
  destruct (mark_fields w' f x0) as (_ & _ & Hw' & _ & Hun). 
  destruct (f_woken (snd (mark w' (f, x0)))) eqn:E; [reflexivity|].
  destruct (Hun eq_refl) as [Heq _]. rewrite Heq in *. rewrite (Hn f x0 E0 Hw) in E. discriminate.
Qed.

Lemma none_waiting_list w ws : forall s, (In w ws \/ none_waiting w s) -> none_waiting w (wake_list ws s).
Proof.
  induction ws as [|w' t IH]; intros s H.
  - destruct H as [[]|H]. exact H.
  - cbn [wake_list fold_left]. change (none_waiting w (wake_list t (wake w' s))). apply IH.
    destruct H as [[->|H]|H].
    + right. apply none_waiting_wake.
    + left. exact H.
    + right. apply none_waiting_keep. exact H.
Qed.

Lemma same_chan_wake_list ws s : same_chan s (wake_list ws s).
Proof.
  revert s. induction ws as [|w t IH]; intros s; [repeat split|].
  cbn [wake_list fold_left]. change (same_chan s (wake_list t (wake w s))).
  destruct (IH (wake w s)) as (H1 & H2 & H3 & H4 & H5 & H6 & H7 & H8). repeat split; assumption.
Qed.

(* ------------------------------------------------------------------ a weaker intermediate form:
   between a cursor update and the wake_producer call that follows it, send futures are registered
   but "cannot make progress" is no longer known *)
Definition Pw' (strict : bool) (s : st) (x : fut) (w : N) : Prop :=
  match fut_rx (f_kind x) with
  | Some r => exists y, get (rxs s) r = Some y /\
               (r_closed y = true \/ r_taint y = true \/
                (has_reg (r_cur y mod cap s) w (regs s) = true /\ head s <= r_cur y /\ pdrop s = false))
  | None => f_disp x = true \/
            (pw s = Some w /\ (strict = true -> s_closed s = false /\ space s = Some 0))
  end.

Definition Jg (strict : bool) (s : st) : Prop :=
  forall f x, get (futs s) f = Some x -> f_live x = true ->
    fut_wf (f_kind x) /\ (forall w, f_wait x = Some w -> f_woken x = false -> Pw' strict s x w).

Lemma J_Jg s : J s <-> Jg true s.
Proof.
  unfold J, Jg, Pw, Pw'. split; intros H f x Hg Hl; destruct (H f x Hg Hl) as [A B]; (split; [exact A|]);
    intros w Hw Hk; specialize (B w Hw Hk); destruct (fut_rx (f_kind x)); auto.
  - destruct B as [B|(B1 & B2 & B3)]; [left; exact B|right; split; [exact B1|intros _; split; assumption]].
  - destruct B as [B|(B1 & B2)]; [left; exact B|right]. destruct (B2 eq_refl). auto.
Qed.

Lemma Jg_weaken s : Jg true s -> Jg false s.
Proof.
  intros H f x Hg Hl. destruct (H f x Hg Hl) as [A B]. split; [exact A|]. intros w Hw Hk.
  specialize (B w Hw Hk). unfold Pw' in *. destruct (fut_rx (f_kind x)); [exact B|].
  destruct B as [B|[B1 _]]; [left; exact B|right; split; [exact B1|discriminate]].
Qed.

(* the part of the state the receive-side clause reads *)
Definition same_rx_view (s s' : st) : Prop :=
  cap s' = cap s /\ log s' = log s /\ pdrop s' = pdrop s /\ rxs s' = rxs s /\ regs s' = regs s.

Lemma Jg_wake strict w s : Jg strict s -> Jg strict (wake w s).
Proof.
  intros Hj f x Hg Hl. unfold wake in Hg. cbn [set_futs set_wlog futs] in Hg. rewrite get_map_mark in Hg.
  destruct (get (futs s) f) as [x0|] eqn:E0; [|discriminate].
  assert (Hx : x = snd (mark w (f, x0))) by (inversion Hg; reflexivity). clear Hg. subst x.
  destruct (mark_fields w f x0) as (Hk & Hlv & Hw & Hd & Hun).
  rewrite Hlv in Hl. destruct (Hj f x0 E0 Hl) as [Hwf Hp]. rewrite Hk. split; [exact Hwf|].
  intros w0 Hw0 Hwk. destruct (Hun Hwk) as [Heq _]. rewrite Heq in *. exact (Hp w0 Hw0 Hwk).
Qed.

Lemma Jg_wake_list strict ws : forall s, Jg strict s -> Jg strict (wake_list ws s).
Proof.
  induction ws as [|w t IH]; intros s Hj; [exact Hj|]. cbn [wake_list fold_left].
  change (Jg strict (wake_list t (wake w s))). apply IH. apply Jg_wake. exact Hj.
Qed.

(* C: wake_producer re-establishes the strict form: every registered send future gets woken *)
Lemma Jg_wake_producer s : Jg false s -> Jg true (wake_producer s).
Proof.
  intros Hj. unfold wake_producer. destruct (pw s) as [w0|] eqn:Epw.
  - intros f x Hg Hl. unfold wake in Hg. cbn [set_futs set_wlog set_pw futs] in Hg. rewrite get_map_mark in Hg.
    destruct (get (futs s) f) as [x0|] eqn:E0; [|discriminate].
    assert (Hx : x = snd (mark w0 (f, x0))) by (inversion Hg; reflexivity). clear Hg. subst x.
    destruct (mark_fields w0 f x0) as (Hk & Hlv & Hw & Hd & Hun).
    rewrite Hlv in Hl. destruct (Hj f x0 E0 Hl) as [Hwf Hp]. rewrite Hk. split; [exact Hwf|].
    intros w Hw0 Hwk. destruct (Hun Hwk) as [Heq Hne]. rewrite Heq in *. specialize (Hp w Hw0 Hwk).
    unfold Pw' in *. destruct (fut_rx (f_kind x0)); [exact Hp|].
    destruct Hp as [Hp|[Hp _]]; [left; exact Hp|]. rewrite Epw in Hp. congruence.
  - intros f x Hg Hl. destruct (Hj f x Hg Hl) as [Hwf Hp]. split; [exact Hwf|].
    intros w Hw Hk. specialize (Hp w Hw Hk). unfold Pw' in *. destruct (fut_rx (f_kind x)); [exact Hp|].
    destruct Hp as [Hp|[Hp _]]; [left; exact Hp|]. rewrite Epw in Hp. discriminate.
Qed.

(* futures bookkeeping helpers *)
Lemma no_live_rx_fut s r f x :
  rx_busy s r = false -> get (futs s) f = Some x -> f_live x = true -> fut_rx (f_kind x) <> Some r.
Proof.
  unfold rx_busy. intros Hb Hg Hl He. apply get_In in Hg.
  assert (Ht : existsb (fun p => f_live (snd p) &&
            match fut_rx (f_kind (snd p)) with Some r' => N.eqb r r' | None => false end) (futs s) = true).
  { apply existsb_exists. exists (f, x). split; [exact Hg|]. cbn [snd]. rewrite Hl, He, N.eqb_refl. reflexivity. }
  congruence.
Qed.

Lemma no_live_tx_fut s f x :
  tx_busy s = false -> get (futs s) f = Some x -> f_live x = true -> fut_rx (f_kind x) <> None.
Proof.
  unfold tx_busy. intros Hb Hg Hl He. apply get_In in Hg.
  assert (Ht : existsb (fun p => f_live (snd p) &&
            match fut_rx (f_kind (snd p)) with Some _ => false | None => true end) (futs s) = true).
  { apply existsb_exists. exists (f, x). split; [exact Hg|]. cbn [snd]. rewrite Hl, He. reflexivity. }
  congruence.
Qed.

(* A: a receive on r (cursor moves forward, strictly below head before) *)
Lemma Jg_set_rx_adv s r y k :
  Jg true s -> get (rxs s) r = Some y -> r_closed y = false -> r_cur y < head s ->
  Jg false (set_rx s r (adv y k)).
Proof.
  intros Hj Hgy Hc Hlt f x Hg Hl. cbn [set_rx set_rxs futs] in Hg. destruct (Hj f x Hg Hl) as [Hwf Hp].
  split; [exact Hwf|]. intros w Hw Hk. specialize (Hp w Hw Hk). unfold Pw' in *.
  cbn [set_rx set_rxs rxs cap regs pdrop pw]. change (head (set_rxs s (set (rxs s) r (adv y k)))) with (head s).
  destruct (fut_rx (f_kind x)) as [r0|].
  - destruct Hp as (y0 & Hg0 & Hp). destruct (N.eq_dec r0 r) as [->|Hne].
    + rewrite Hgy in Hg0. inversion Hg0; subst y0. exists (adv y k). split; [apply get_set_eq|].
      cbn [adv r_closed r_taint r_cur]. destruct Hp as [Hp|[Hp|(_ & Hp & _)]]; [congruence|auto|lia].
    + exists y0. split; [rewrite get_set_neq by exact Hne; exact Hg0|exact Hp].
  - destruct Hp as [Hp|[Hp _]]; [left; exact Hp|right; split; [exact Hp|discriminate]].
Qed.

(* B: close / drop of r *)
Lemma Jg_set_rx_unreg s r y :
  Jg true s -> get (rxs s) r = Some y -> Jg false (set_rx s r (rx_unreg y)).
Proof.
  intros Hj Hgy f x Hg Hl. cbn [set_rx set_rxs futs] in Hg. destruct (Hj f x Hg Hl) as [Hwf Hp].
  split; [exact Hwf|]. intros w Hw Hk. specialize (Hp w Hw Hk). unfold Pw' in *.
  cbn [set_rx set_rxs rxs cap regs pdrop pw]. change (head (set_rxs s (set (rxs s) r (rx_unreg y)))) with (head s).
  destruct (fut_rx (f_kind x)) as [r0|].
  - destruct Hp as (y0 & Hg0 & Hp). destruct (N.eq_dec r0 r) as [->|Hne].
    + exists (rx_unreg y). split; [apply get_set_eq|]. left. reflexivity.
    + exists y0. split; [rewrite get_set_neq by exact Hne; exact Hg0|exact Hp].
  - destruct Hp as [Hp|[Hp _]]; [left; exact Hp|right; split; [exact Hp|discriminate]].
Qed.

(* D: flag updates of a receiver no live future refers to, cursor list unchanged *)
Lemma cursors_set_same l r y y' :
  get l r = Some y -> r_reg y' = r_reg y -> r_cur y' = r_cur y ->
  map (fun p => r_cur (snd p)) (filter (fun p => r_reg (snd p)) (set l r y')) =
  map (fun p => r_cur (snd p)) (filter (fun p => r_reg (snd p)) l).
Proof.
  intros Hg Hr Hc. induction l as [|[k a] t IH]; cbn [get] in Hg; [discriminate|].
  cbn [set]. destruct (N.eqb_spec r k) as [->|Hn].
  - inversion Hg; subst a. cbn [filter snd]. rewrite Hr. destruct (r_reg y); cbn [map snd]; rewrite ?Hc; reflexivity.
  - cbn [filter snd]. destruct (r_reg a); cbn [map]; rewrite IH by exact Hg; reflexivity.
Qed.

Lemma Jg_set_rx_quiet s r y y' :
  Jg true s -> get (rxs s) r = Some y -> rx_busy s r = false ->
  r_reg y' = r_reg y -> r_cur y' = r_cur y -> Jg true (set_rx s r y').
Proof.
  intros Hj Hgy Hb Hr Hc f x Hg Hl. cbn [set_rx set_rxs futs] in Hg. destruct (Hj f x Hg Hl) as [Hwf Hp].
  split; [exact Hwf|]. intros w Hw Hk. specialize (Hp w Hw Hk). unfold Pw' in *.
  pose proof (no_live_rx_fut s r f x Hb Hg Hl) as Hnr.
  assert (Hsp : space (set_rx s r y') = space s).
  { unfold space, cursors. cbn [set_rx set_rxs rxs cap]. rewrite (cursors_set_same _ _ _ _ Hgy Hr Hc). reflexivity. }
  rewrite Hsp. cbn [set_rx set_rxs rxs cap regs pdrop pw s_closed].
  change (head (set_rxs s (set (rxs s) r y'))) with (head s).
  destruct (fut_rx (f_kind x)) as [r0|]; [|exact Hp].
  destruct Hp as (y0 & Hg0 & Hp). assert (Hne : r0 <> r) by congruence.
  exists y0. split; [rewrite get_set_neq by exact Hne; exact Hg0|exact Hp].
Qed.

(* E: Clone adds a receiver no future knows yet; a registered send future still cannot progress *)
Lemma set_fresh {A} (l : list (N * A)) k a : get l k = None -> set l k a = l ++ [(k, a)].
Proof.
  induction l as [|[k' a'] t IH]; cbn [get set app]; intros H; [reflexivity|].
  destruct (N.eqb_spec k k'); [discriminate|]. rewrite IH by exact H. reflexivity.
Qed.

Lemma minl_app_one l a :
  minl (l ++ [a]) = match minl l with Some m => Some (N.min m a) | None => Some a end.
Proof.
  induction l as [|x t IH]; cbn [app minl]; [reflexivity|]. rewrite IH.
  destruct (minl t) as [m|]; f_equal; lia.
Qed.

Lemma Jg_clone s c xc :
  Jg true s -> get (rxs s) c = None -> Jg true (set_rx s c xc).
Proof.
  intros Hj Hn f x Hg Hl. cbn [set_rx set_rxs futs] in Hg. destruct (Hj f x Hg Hl) as [Hwf Hp].
  split; [exact Hwf|]. intros w Hw Hk. specialize (Hp w Hw Hk). unfold Pw' in *.
  cbn [set_rx set_rxs rxs cap regs pdrop pw s_closed]. change (head (set_rxs s (set (rxs s) c xc))) with (head s).
  destruct (fut_rx (f_kind x)) as [r0|].
  - destruct Hp as (y0 & Hg0 & Hp). assert (Hne : r0 <> c) by congruence.
    exists y0. split; [rewrite get_set_neq by exact Hne; exact Hg0|exact Hp].
  - destruct Hp as [Hp|(Hp1 & Hp2)]; [left; exact Hp|right]. split; [exact Hp1|]. intros _.
    destruct (Hp2 eq_refl) as [Hc Hs]. split; [exact Hc|].
    unfold space, cursors in *. cbn [set_rx set_rxs rxs cap]. change (head (set_rxs s (set (rxs s) c xc))) with (head s).
    rewrite (set_fresh _ _ _ Hn), filter_app, map_app. cbn [filter snd].
    destruct (r_reg xc); cbn [map app]; [|rewrite app_nil_r; exact Hs].
    rewrite minl_app_one.
    destruct (minl (map (fun p => r_cur (snd p)) (filter (fun p => r_reg (snd p)) (rxs s)))) as [m|]; [|discriminate].
    inversion Hs as [Hs']. f_equal. cbn [snd]. change (head (set_rx s c xc)) with (head s). lia.
Qed.

(* commuting wake with the field setters write1 / drain use *)
Lemma wake_set_regs w s l : wake w (set_regs s l) = set_regs (wake w s) l.
Proof. reflexivity. Qed.
Lemma wake_set_log w s l : wake w (set_log s l) = set_log (wake w s) l.
Proof. reflexivity. Qed.
Lemma wake_add_drops w s l : wake w (add_drops s l) = add_drops (wake w s) l.
Proof. reflexivity. Qed.
Lemma wake_set_sender w s a c y t p : wake w (set_sender s a c y t p) = set_sender (wake w s) a c y t p.
Proof. reflexivity. Qed.

Lemma wake_list_set_regs ws : forall s l, wake_list ws (set_regs s l) = set_regs (wake_list ws s) l.
Proof.
  induction ws as [|w t IH]; intros s l; [reflexivity|]. cbn [wake_list fold_left].
  change (wake_list t (wake w (set_regs s l)) = set_regs (wake_list t (wake w s)) l).
  rewrite wake_set_regs. apply IH.
Qed.
Lemma wake_list_set_log ws : forall s l, wake_list ws (set_log s l) = set_log (wake_list ws s) l.
Proof.
  induction ws as [|w t IH]; intros s l; [reflexivity|]. cbn [wake_list fold_left].
  change (wake_list t (wake w (set_log s l)) = set_log (wake_list t (wake w s)) l).
  rewrite wake_set_log. apply IH.
Qed.
Lemma wake_list_add_drops ws : forall s l, wake_list ws (add_drops s l) = add_drops (wake_list ws s) l.
Proof.
  induction ws as [|w t IH]; intros s l; [reflexivity|]. cbn [wake_list fold_left].
  change (wake_list t (wake w (add_drops s l)) = add_drops (wake_list t (wake w s)) l).
  rewrite wake_add_drops. apply IH.
Qed.
Lemma wake_list_set_sender ws : forall s a c y t p,
  wake_list ws (set_sender s a c y t p) = set_sender (wake_list ws s) a c y t p.
Proof.
  induction ws as [|w t0 IH]; intros s a c y t p; [reflexivity|]. cbn [wake_list fold_left].
  change (wake_list t0 (wake w (set_sender s a c y t p)) = set_sender (wake_list t0 (wake w s)) a c y t p).
  rewrite wake_set_sender. apply IH.
Qed.

Lemma has_reg_in slot w l : has_reg slot w l = true -> In w (map snd (filter (fun p => N.eqb (fst p) slot) l)).
Proof.
  unfold has_reg. intros H. apply existsb_exists in H. destruct H as ([a b] & Hin & Hb).
  cbn [fst snd] in Hb. apply andb_true_iff in Hb. destruct Hb as [H1 H2].
  apply N.eqb_eq in H1. apply N.eqb_eq in H2. subst.
  apply in_map_iff. exists (slot, w). split; [reflexivity|]. apply filter_In. split; [exact Hin|].
  cbn [fst]. apply N.eqb_refl.
Qed.

Lemma has_reg_in_all slot w l : has_reg slot w l = true -> In w (map snd l).
Proof.
  unfold has_reg. intros H. apply existsb_exists in H. destruct H as ([a b] & Hin & Hb).
  cbn [fst snd] in Hb. apply andb_true_iff in Hb. destruct Hb as [_ H2]. apply N.eqb_eq in H2. subst.
  apply in_map_iff. exists (a, w). split; [reflexivity|exact Hin].
Qed.

(* F: one write at index head *)
Lemma Jg_write1 v s sp :
  Jg true s ->
  (forall r y, get (rxs s) r = Some y -> r_taint y = false -> r_closed y = false -> r_cur y <= head s) ->
  space s = Some sp -> 1 <= sp -> Jg true (write1 v s).
Proof.
  intros Hj Hcur Hsp Hge. unfold write1.
  set (h := head s). set (slot := h mod cap s).
  set (s1 := if N.leb (cap s) h then add_drops s [nth (N.to_nat (h - cap s)) (log s) 0] else s).
  assert (Hs1 : regs s1 = regs s /\ futs s1 = futs s /\ rxs s1 = rxs s /\ cap s1 = cap s /\ log s1 = log s
                /\ pdrop s1 = pdrop s /\ pw s1 = pw s /\ s_closed s1 = s_closed s).
  { unfold s1. destruct (N.leb (cap s) h); repeat split. }
  destruct Hs1 as (Hr1 & Hf1 & Hx1 & Hc1 & Hl1 & Hp1 & Hw1 & Hcl1).
  unfold drain. cbn [set_log regs]. rewrite Hr1.
  set (ws := map snd (filter (fun p => N.eqb (fst p) slot) (regs s))).
  rewrite wake_list_set_regs, wake_list_set_log.
  set (sa := wake_list ws s1).
  assert (Hja : Jg true sa).
  { apply Jg_wake_list. intros f x Hg Hl. rewrite Hf1 in Hg. destruct (Hj f x Hg Hl) as [A B]. split; [exact A|].
    intros w Hw Hk. specialize (B w Hw Hk). unfold Pw', space, cursors, head in *.
    rewrite Hx1, Hc1, Hl1, Hp1, Hw1, Hcl1, Hr1. exact B. }
  assert (Hnw : forall w, In w ws -> none_waiting w sa).
  { intros w Hin. apply none_waiting_list. left. exact Hin. }
  destruct (same_chan_wake_list ws s1) as (Sc & Sl & _ & Scl & Sp & Sx & Sr & Sw). fold sa in Sc, Sl, Scl, Sp, Sx, Sr, Sw.
  intros f x Hg Hl. cbn [set_regs set_log futs] in Hg. destruct (Hja f x Hg Hl) as [A B]. split; [exact A|].
  intros w Hw Hk. specialize (B w Hw Hk). unfold Pw' in *.
  cbn [set_regs set_log rxs cap regs pdrop pw s_closed].
  destruct (fut_rx (f_kind x)) as [r0|].
  - destruct B as (y0 & Hg0 & B). exists y0. split; [exact Hg0|].
    destruct B as [B|[B|(B1 & B2 & B3)]]; [left; exact B|right; left; exact B|].
    destruct (r_closed y0) eqn:Ec; [left; reflexivity|]. destruct (r_taint y0) eqn:Et; [right; left; reflexivity|].
    exfalso. rewrite Sx, Hx1 in Hg0. specialize (Hcur r0 y0 Hg0 Et Ec).
    unfold head in B2. rewrite Sl, Hl1 in B2. fold (head s) in B2.
    assert (Heq : r_cur y0 = h) by (unfold h; lia).
    rewrite Sc, Hc1, Sr, Hr1, Heq in B1. fold slot in B1. apply has_reg_in in B1.
    pose proof (Hnw w B1 f x Hg Hw). congruence.
  - destruct B as [B|(B1 & B2)]; [left; exact B|]. destruct (B2 eq_refl) as [_ B3].
    exfalso. unfold space, cursors, head in B3. rewrite Sx, Sc, Sl, Hx1, Hc1, Hl1 in B3.
    unfold space, cursors, head in Hsp. rewrite Hsp in B3. inversion B3. lia.
Qed.

Lemma space_write1 v s sp :
  space s = Some sp -> exists sp', space (write1 v s) = Some sp' /\ sp <= sp' + 1.
Proof.
  intros Hs. pose proof (proj_write1 v s) as Hp. unfold space in *.
  change (cursors (write1 v s)) with (c_cursors (proj (write1 v s))). rewrite Hp.
  change (c_cursors (with_log (proj s) (log s ++ [v]))) with (cursors s).
  destruct (minl (cursors s)) as [m|]; [|discriminate]. inversion Hs; subst sp.
  change (cap (write1 v s)) with (c_cap (proj (write1 v s))).
  change (head (write1 v s)) with (c_head (proj (write1 v s))). rewrite Hp.
  unfold c_head. cbn [with_log c_log c_cap proj]. rewrite lenN_app. fold (head s).
  eexists. split; [reflexivity|]. unfold lenN. cbn [length]. lia.
Qed.

Lemma Jg_write_many vs : forall s sp,
  Jg true s ->
  (forall r y, get (rxs s) r = Some y -> r_taint y = false -> r_closed y = false -> r_cur y <= head s) ->
  space s = Some sp -> lenN vs <= sp -> Jg true (write_many vs s).
Proof.
  induction vs as [|v t IH]; intros s sp Hj Hcur Hsp Hle; [exact Hj|].
  cbn [write_many fold_left]. change (Jg true (write_many t (write1 v s))).
  assert (Hlen : lenN (v :: t) = lenN t + 1) by (unfold lenN; cbn [length]; lia).
  destruct (space_write1 v s sp Hsp) as (sp' & Hsp' & Hle').
  apply (IH (write1 v s) sp').
  - apply (Jg_write1 v s sp); auto. lia.
  - intros r y Hg Ht Hc. pose proof (proj_write1 v s) as Hp.
    change (rxs (write1 v s)) with (c_rxs (proj (write1 v s))) in Hg. rewrite Hp in Hg.
    change (head (write1 v s)) with (c_head (proj (write1 v s))). rewrite Hp.
    unfold c_head. cbn [with_log c_log]. rewrite lenN_app. specialize (Hcur r y Hg Ht Hc). unfold head in Hcur. lia.
  - exact Hsp'.
  - lia.
Qed.

(* G: the sender's close_internal: producer_dropped is set and every registered waker is invoked *)
Lemma Jg_sender_close s a c y t :
  Jg true s -> tx_busy s = false -> Jg true (wake_all (set_sender s a c y t true)).
Proof.
  intros Hj Hb. unfold wake_all. cbn [set_sender regs]. rewrite wake_list_set_regs, wake_list_set_sender.
  set (ws := map snd (regs s)). set (sa := wake_list ws s).
  assert (Hja : Jg true sa) by (apply Jg_wake_list; exact Hj).
  assert (Hnw : forall w, In w ws -> none_waiting w sa) by (intros w Hin; apply none_waiting_list; left; exact Hin).
  destruct (same_chan_wake_list ws s) as (Sc & Sl & _ & Scl & Sp & Sx & Sr & Sw). fold sa in Sc, Sl, Scl, Sp, Sx, Sr, Sw.
  intros f x Hg Hl. cbn [set_regs set_sender futs] in Hg. destruct (Hja f x Hg Hl) as [A B]. split; [exact A|].
  intros w Hw Hk. specialize (B w Hw Hk). unfold Pw' in *. cbn [set_regs set_sender rxs cap regs pdrop pw s_closed].
  destruct (fut_rx (f_kind x)) as [r0|] eqn:Ek.
  - destruct B as (y0 & Hg0 & B). exists y0. split; [exact Hg0|].
    destruct B as [B|[B|(B1 & _)]]; [left; exact B|right; left; exact B|].
    exfalso. rewrite Sr in B1. apply has_reg_in_all in B1. pose proof (Hnw w B1 f x Hg Hw). congruence.
  - exfalso.
    assert (Hfs : exists x0, get (futs s) f = Some x0 /\ f_live x0 = true /\ f_kind x0 = f_kind x).
    { clear - Hg Hl. unfold sa in Hg. revert Hg. generalize s. induction ws as [|w0 t0 IH]; intros s0 Hg.
      - eauto.
      - cbn [wake_list fold_left] in Hg. change (get (futs (wake_list t0 (wake w0 s0))) f = Some x) in Hg.
        destruct (IH _ Hg) as (x1 & Hg1 & Hl1 & Hk1). unfold wake in Hg1. cbn [set_futs set_wlog futs] in Hg1.
        rewrite get_map_mark in Hg1. destruct (get (futs s0) f) as [x0|]; [|discriminate].
        assert (Hx : x1 = snd (mark w0 (f, x0))) by (inversion Hg1; reflexivity). subst x1.
        destruct (mark_fields w0 f x0) as (Hk0 & Hlv0 & _). exists x0. rewrite <- Hlv0, <- Hk0, Hk1. auto. }
    destruct Hfs as (x0 & Hg0 & Hl0 & Hk0). apply (no_live_tx_fut s f x0 Hb Hg0 Hl0). rewrite Hk0. exact Ek.
Qed.

(* H: sender flag updates while no send future is alive, producer_dropped unchanged *)
Lemma Jg_set_sender s a c y t :
  Jg true s -> tx_busy s = false -> Jg true (set_sender s a c y t (pdrop s)).
Proof.
  intros Hj Hb f x Hg Hl. cbn [set_sender futs] in Hg. destruct (Hj f x Hg Hl) as [A B]. split; [exact A|].
  intros w Hw Hk. specialize (B w Hw Hk). unfold Pw' in *. cbn [set_sender rxs cap regs pdrop pw].
  change (head (set_sender s a c y t (pdrop s))) with (head s).
  destruct (fut_rx (f_kind x)) as [r0|] eqn:Ek; [exact B|].
  exfalso. apply (no_live_tx_fut s f x Hb Hg Hl). exact Ek.
Qed.

(* I: the futures table *)
Lemma get_set_fut s f x g : get (futs (set_fut s f x)) g = if N.eqb g f then Some x else get (futs s) g.
Proof.
  cbn [set_fut set_futs futs]. destruct (N.eqb_spec g f) as [->|Hn]; [apply get_set_eq|apply get_set_neq; exact Hn].
Qed.

Lemma Pw'_set_fut strict s f x0 x w : Pw' strict (set_fut s f x0) x w <-> Pw' strict s x w.
Proof. unfold Pw', space, cursors, head. cbn [set_fut set_futs rxs cap regs pdrop pw s_closed log]. tauto. Qed.

Lemma Jg_set_fut_quiet s f x0 :
  Jg true s -> fut_wf (f_kind x0) -> (f_live x0 = true -> f_wait x0 = None) -> Jg true (set_fut s f x0).
Proof.
  intros Hj Hwf Hq g x Hg Hl. rewrite get_set_fut in Hg. destruct (N.eqb_spec g f) as [->|Hn].
  - inversion Hg; subst x. split; [exact Hwf|]. intros w Hw. rewrite (Hq Hl) in Hw. discriminate.
  - destruct (Hj g x Hg Hl) as [A B]. split; [exact A|]. intros w Hw Hk. apply Pw'_set_fut. auto.
Qed.

Lemma Jg_kill s f x : Jg true s -> Jg true (kill s f x).
Proof.
  intros Hj g x1 Hg Hl. unfold kill in Hg. rewrite get_set_fut in Hg. destruct (N.eqb_spec g f) as [->|Hn].
  - inversion Hg; subst x1. cbn [f_live] in Hl. discriminate.
  - destruct (Hj g x1 Hg Hl) as [A B]. split; [exact A|]. intros w Hw Hk. apply Pw'_set_fut. auto.
Qed.

Lemma has_reg_app slot w l l2 : has_reg slot w l = true -> has_reg slot w (l ++ l2) = true.
Proof. unfold has_reg. rewrite existsb_app. intros ->. reflexivity. Qed.

Lemma register_has slot w s : has_reg slot w (regs (register slot w s)) = true.
Proof.
  unfold register. destruct (has_reg slot w (regs s)) eqn:E; [exact E|].
  cbn [set_regs regs]. unfold has_reg. rewrite existsb_app. cbn [existsb fst snd]. rewrite !N.eqb_refl. apply orb_true_r.
Qed.

Lemma register_mono slot w s slot' w' :
  has_reg slot' w' (regs s) = true -> has_reg slot' w' (regs (register slot w s)) = true.
Proof.
  unfold register. destruct (has_reg slot w (regs s)); [auto|]. cbn [set_regs regs]. apply has_reg_app.
Qed.

Lemma Jg_register slot w s : Jg true s -> Jg true (register slot w s).
Proof.
  intros Hj f x Hg Hl.
  assert (Hf : futs (register slot w s) = futs s) by (unfold register; destruct (has_reg slot w (regs s)); reflexivity).
  rewrite Hf in Hg. destruct (Hj f x Hg Hl) as [A B]. split; [exact A|].
  intros w0 Hw Hk. specialize (B w0 Hw Hk). unfold Pw' in *.
  assert (Hs : rxs (register slot w s) = rxs s /\ cap (register slot w s) = cap s /\ log (register slot w s) = log s /\
               pdrop (register slot w s) = pdrop s /\ pw (register slot w s) = pw s /\
               s_closed (register slot w s) = s_closed s)
    by (unfold register; destruct (has_reg slot w (regs s)); repeat split).
  destruct Hs as (H1 & H2 & H3 & H4 & H5 & H6). unfold space, cursors, head. rewrite H1, H2, H3, H4, H5, H6.
  destruct (fut_rx (f_kind x)); [|exact B].
  destruct B as (y0 & Hg0 & B). exists y0. split; [exact Hg0|].
  destruct B as [B|[B|(B1 & B2 & B3)]]; auto. right. right. split; [apply register_mono; exact B1|auto].
Qed.

(* a receive future goes (back) to sleep: registered at its cursor's slot, nothing to read, sender there *)
Lemma Jg_pend_rx s f k w r y :
  Jg true s -> fut_rx k = Some r -> fut_wf k -> get (rxs s) r = Some y ->
  (r_closed y = true \/ r_taint y = true \/ (head s <= r_cur y /\ pdrop s = false)) ->
  Jg true (pend (register (r_cur y mod cap s) w s) f k w).
Proof.
  intros Hj Hk Hwf Hgy Hy. pose proof (Jg_register (r_cur y mod cap s) w s Hj) as Hj1.
  intros g x Hg Hl. unfold pend in Hg. rewrite get_set_fut in Hg. destruct (N.eqb_spec g f) as [->|Hn].
  - inversion Hg; subst x. cbn [f_kind f_wait]. split; [exact Hwf|]. intros w0 Hw _. inversion Hw; subst w0.
    apply Pw'_set_fut. unfold Pw'. cbn [f_kind]. rewrite Hk.
    assert (Hs : rxs (register (r_cur y mod cap s) w s) = rxs s /\ cap (register (r_cur y mod cap s) w s) = cap s /\
                 log (register (r_cur y mod cap s) w s) = log s /\ pdrop (register (r_cur y mod cap s) w s) = pdrop s)
      by (unfold register; destruct (has_reg (r_cur y mod cap s) w (regs s)); repeat split).
    destruct Hs as (H1 & H2 & H3 & H4). unfold head. rewrite H1, H2, H3, H4. exists y. split; [exact Hgy|].
    destruct Hy as [Hy|[Hy|[Hy1 Hy2]]]; auto. right. right. split; [apply register_has|]. split; assumption.
  - destruct (Hj1 g x Hg Hl) as [A B]. split; [exact A|]. intros w0 Hw Hkk. apply Pw'_set_fut. auto.
Qed.

(* a send future goes (back) to sleep: it takes the single producer waker slot *)
Lemma get_map_displace w f l g :
  get (map (displace w f) l) g =
  match get l g with Some x => Some (snd (displace w f (g, x))) | None => None end.
Proof.
  induction l as [|[k x] t IH]; cbn [map get]; [reflexivity|].
  assert (Hf : fst (displace w f (k, x)) = k).
  { unfold displace. destruct (N.eqb k f); [reflexivity|].
    destruct (fut_rx (f_kind x)); [reflexivity|]. destruct (f_wait x) as [w'|]; [destruct (N.eqb w w')|]; reflexivity. }
  destruct (displace w f (k, x)) as [k' x'] eqn:E. cbn [fst] in Hf. subst k'.
  cbn [get]. destruct (N.eqb_spec g k) as [->|Hn]; [rewrite E; reflexivity | exact IH].
Qed.

Lemma Jg_pend_tx s f k w :
  Jg true s -> fut_rx k = None -> fut_wf k -> s_closed s = false -> space s = Some 0 ->
  Jg true (pend (reg_producer f w s) f k w).
Proof.
  intros Hj Hk Hwf Hc Hs g x Hg Hl. unfold pend in Hg. rewrite get_set_fut in Hg.
  destruct (N.eqb_spec g f) as [->|Hn].
  - inversion Hg; subst x. cbn [f_kind f_wait]. split; [exact Hwf|]. intros w0 Hw _. inversion Hw; subst w0.
    apply Pw'_set_fut. unfold Pw'. cbn [f_kind]. rewrite Hk. right.
    split; [reflexivity|]. intros _. split; [exact Hc|exact Hs].
  - unfold reg_producer in Hg. cbn [set_pw set_futs futs] in Hg. rewrite get_map_displace in Hg.
    destruct (get (futs s) g) as [x0|] eqn:E0; [|discriminate].
    assert (Hx : x = snd (displace w f (g, x0))) by (inversion Hg; reflexivity). clear Hg. subst x.
    unfold displace in *. destruct (N.eqb_spec g f) as [|_]; [contradiction|].
    destruct (fut_rx (f_kind x0)) as [r0|] eqn:Ek.
    + cbn [snd] in *. destruct (Hj g x0 E0 Hl) as [A B]. split; [exact A|]. intros w0 Hw Hkk.
      apply Pw'_set_fut. specialize (B w0 Hw Hkk). unfold Pw' in *. rewrite Ek in *. exact B.
    + destruct (f_wait x0) as [w'|] eqn:Ew.
      * destruct (N.eqb_spec w w') as [->|Hne]; cbn [snd] in *.
        -- destruct (Hj g x0 E0 Hl) as [A B]. split; [exact A|]. intros w0 Hw Hkk.
           apply Pw'_set_fut. specialize (B w0 Hw Hkk). unfold Pw' in *. rewrite Ek in *.
           destruct B as [B|(B1 & B2)]; [left; exact B|right]. rewrite Ew in Hw. inversion Hw; subst w0.
           split; [reflexivity|exact B2].
        -- cbn [f_live f_kind f_wait f_woken f_disp] in *. destruct (Hj g x0 E0 Hl) as [A _]. split; [exact A|].
           intros w0 Hw Hkk. apply Pw'_set_fut. unfold Pw'. cbn [f_kind f_disp]. rewrite Ek. left. reflexivity.
      * cbn [snd] in *. destruct (Hj g x0 E0 Hl) as [A B]. split; [exact A|]. intros w0 Hw. rewrite Ew in Hw. discriminate.
Qed.

Lemma Jg_ext s s' :
  futs s' = futs s -> rxs s' = rxs s -> cap s' = cap s -> log s' = log s -> regs s' = regs s ->
  pdrop s' = pdrop s -> pw s' = pw s -> s_closed s' = s_closed s -> Jg true s -> Jg true s'.
Proof.
  intros H1 H2 H3 H4 H5 H6 H7 H8 Hj f x Hg Hl. rewrite H1 in Hg. destruct (Hj f x Hg Hl) as [A B]. split; [exact A|].
  intros w Hw Hk. specialize (B w Hw Hk). unfold Pw', space, cursors, head in *.
  rewrite H2, H3, H4, H5, H6, H7, H8. exact B.
Qed.

Lemma Jg_add_drops s l : Jg true s -> Jg true (add_drops s l).
Proof. apply Jg_ext; reflexivity. Qed.

Lemma Jg_release s : Jg true s -> Jg true (release s).
Proof. unfold release. destruct (all_dead s); [apply Jg_add_drops|auto]. Qed.

Lemma Jg_ext_any strict s s' :
  futs s' = futs s -> rxs s' = rxs s -> cap s' = cap s -> log s' = log s -> regs s' = regs s ->
  pdrop s' = pdrop s -> pw s' = pw s -> s_closed s' = s_closed s -> Jg strict s -> Jg strict s'.
Proof.
  intros H1 H2 H3 H4 H5 H6 H7 H8 Hj f x Hg Hl. rewrite H1 in Hg. destruct (Hj f x Hg Hl) as [A B]. split; [exact A|].
  intros w Hw Hk. specialize (B w Hw Hk). unfold Pw', space, cursors, head in *.
  rewrite H2, H3, H4, H5, H6, H7, H8. exact B.
Qed.

(* busy flags only read liveness and kind, which waking never changes *)
Lemma existsb_mark w (g : fkind -> bool) l :
  existsb (fun p => f_live (snd p) && g (f_kind (snd p))) (map (mark w) l) =
  existsb (fun p => f_live (snd p) && g (f_kind (snd p))) l.
Proof.
  induction l as [|[k x] t IH]; [reflexivity|]. cbn [map existsb]. rewrite IH. f_equal.
  destruct (mark_fields w k x) as (Hk & Hl & _). rewrite Hk, Hl. reflexivity.
Qed.

Lemma rx_busy_wake w s r : rx_busy (wake w s) r = rx_busy s r.
Proof.
  unfold rx_busy, wake. cbn [set_futs set_wlog futs].
  apply (existsb_mark w (fun k => match fut_rx k with Some r' => N.eqb r r' | None => false end)).
Qed.

Lemma tx_busy_wake w s : tx_busy (wake w s) = tx_busy s.
Proof.
  unfold tx_busy, wake. cbn [set_futs set_wlog futs].
  apply (existsb_mark w (fun k => match fut_rx k with Some _ => false | None => true end)).
Qed.

Lemma tx_busy_wake_list ws : forall s, tx_busy (wake_list ws s) = tx_busy s.
Proof.
  induction ws as [|w t IH]; intros s; [reflexivity|]. cbn [wake_list fold_left].
  change (tx_busy (wake_list t (wake w s)) = tx_busy s). rewrite IH. apply tx_busy_wake.
Qed.

Lemma rx_busy_wake_producer s r : rx_busy (wake_producer s) r = rx_busy s r.
Proof. unfold wake_producer. destruct (pw s); [rewrite rx_busy_wake|]; reflexivity. Qed.

(* exact space after a batch write *)
Lemma space_write_many vs s m :
  minl (cursors s) = Some m ->
  space (write_many vs s) = Some (cap s - N.min (head s + lenN vs - m) (cap s)).
Proof.
  intros Hm. pose proof (proj_write_many vs s) as Hp. unfold space.
  change (cursors (write_many vs s)) with (c_cursors (proj (write_many vs s))). rewrite Hp.
  change (c_cursors (with_log (proj s) (log s ++ vs))) with (cursors s). rewrite Hm.
  change (cap (write_many vs s)) with (c_cap (proj (write_many vs s))).
  change (head (write_many vs s)) with (c_head (proj (write_many vs s))). rewrite Hp.
  unfold c_head. cbn [with_log c_log c_cap proj]. rewrite lenN_app. reflexivity.
Qed.

Definition cur_le_head (s : st) : Prop :=
  forall r y, get (rxs s) r = Some y -> r_taint y = false -> r_closed y = false -> r_cur y <= head s.

Lemma inv_cur_le_head s outs : InvC (proj s) outs -> cur_le_head s.
Proof. intros I r y Hg _ _. destruct (i_rx _ _ I r y Hg) as (_ & B & _). exact B. Qed.

Definition min_le_head (s : st) : Prop := forall m, minl (cursors s) = Some m -> m <= head s.

Lemma inv_min_le_head s outs : InvC (proj s) outs -> min_le_head s.
Proof.
  intros I m Hm. apply minl_in in Hm. change (cursors s) with (c_cursors (proj s)) in Hm.
  apply in_cursors in Hm; [|exact (i_nd _ _ I)]. destruct Hm as (r & x & Hg & _ & <-).
  destruct (i_rx _ _ I r x Hg) as (_ & B & _). exact B.
Qed.

Lemma try_send_core_J v s s' res :
  Jg true s -> cur_le_head s -> try_send_core v s = (s', res) ->
  Jg true s' /\ (res = SFull -> s' = s /\ space s = Some 0).
Proof.
  intros Hj Hc. unfold try_send_core. destruct (minl (cursors s)) as [m|] eqn:Em.
  - destruct (N.leb_spec (cap s) (head s - m)) as [Hle|Hlt]; intros H; inversion H; subst.
    + split; [exact Hj|]. intros _. split; [reflexivity|]. unfold space. rewrite Em. f_equal. lia.
    + split; [|discriminate]. apply (Jg_write1 v s (cap s - N.min (head s - m) (cap s))); auto.
      * unfold space. rewrite Em. reflexivity.
      * lia.
  - intros H; inversion H; subst. split; [exact Hj|discriminate].
Qed.

Lemma send_some_J vs s s' k rest :
  Jg true s -> cur_le_head s -> min_le_head s -> send_some vs s = Some (s', k, rest) ->
  Jg true s' /\ s_closed s' = s_closed s /\ rest = skipnN k vs /\ k <= lenN vs /\
  (k <> lenN vs -> space s' = Some 0).
Proof.
  intros Hj Hc Hm. unfold send_some. destruct (space s) as [sp|] eqn:Es; [|discriminate].
  intros H. inversion H; subst. clear H.
  split; [|split; [|split; [reflexivity|split; [lia|]]]].
  - apply (Jg_write_many _ s sp); auto. rewrite firstnN_len. lia.
  - change (c_closed (proj (write_many (firstnN (N.min sp (lenN vs)) vs) s)) = s_closed s).
    rewrite proj_write_many. reflexivity.
  - intros Hne. unfold space in Es. destruct (minl (cursors s)) as [m|] eqn:Em; [|discriminate].
    specialize (Hm m Em).
    inversion Es; subst sp. rewrite (space_write_many _ s m Em), firstnN_len. f_equal. lia.
Qed.

Lemma recv_J r y s s' res outs :
  Jg true s -> InvC (proj s) outs -> get (rxs s) r = Some y -> r_closed y = false ->
  try_recv_core r y s = (s', res) ->
  Jg true s' /\ (res = REmpty -> s' = s /\ (r_taint y = true \/ (head s <= r_cur y /\ pdrop s = false))).
Proof.
  intros Hj I Hg Hc H. pose proof (try_recv_core_spec _ _ _ _ _ H) as Hs. destruct res as [v| |].
  - destruct Hs as (_ & _ & _ & Hw). split; [|discriminate].
    unfold try_recv_core in H. rewrite Hw in H. inversion H; subst. apply Jg_wake_producer.
    apply (Jg_ext_any false (set_rx s r (adv y 1))); try reflexivity.
    apply Jg_set_rx_adv; auto. apply in_window_spec in Hw. tauto.
  - destruct Hs as (-> & Hw & Hp). split; [exact Hj|]. intros _. split; [reflexivity|].
    destruct (r_taint y) eqn:Et; [left; reflexivity|right].
    destruct (i_rx _ _ I r y Hg) as (A & B & C & D & E & F & G).
    assert (Hr : r_reg y = true).
    { destruct (r_reg y) eqn:Er; [reflexivity|]. specialize (E Et eq_refl). congruence. }
    specialize (C Et Hr). change (c_head (proj s)) with (head s) in *. change (c_cap (proj s)) with (cap s) in *.
    assert (Hh : head s <= r_cur y).
    { destruct (N.lt_ge_cases (r_cur y) (head s)) as [Hlt|]; [|assumption].
      assert (in_window s (r_cur y) = true) by (apply in_window_spec; split; assumption). congruence. }
    split; [exact Hh|]. destruct Hp as [Hp|Hp]; [exact Hp|lia].
  - destruct Hs as (-> & _). split; [exact Hj|discriminate].
Qed.

Lemma recv_batch_J r y n s s' res :
  Jg true s -> get (rxs s) r = Some y -> r_closed y = false ->
  try_recv_batch_core r y n s = (s', res) ->
  Jg true s' /\ (res = BEmpty -> s' = s /\ head s <= r_cur y /\ pdrop s = false).
Proof.
  intros Hj Hg Hc H. unfold try_recv_batch_core in H.
  destruct (N.leb_spec (head s) (r_cur y)) as [Hle|Hlt].
  - destruct (pdrop s) eqn:Ep; inversion H; subst; (split; [exact Hj|]); [discriminate|auto].
  - inversion H; subst. split; [|discriminate]. apply Jg_wake_producer.
    eapply (Jg_ext_any false (set_rx s r (adv y _))); try reflexivity.
    apply Jg_set_rx_adv; auto.
Qed.

Lemma skipnN_len {A} k (l : list A) : k <= lenN l -> lenN (skipnN k l) + k = lenN l.
Proof. unfold lenN, skipnN. intros H. rewrite skipn_length. lia. Qed.

Lemma poll_J s f x w s' o outs :
  Jg true s -> InvC (proj s) outs -> get (futs s) f = Some x -> f_live x = true ->
  poll_fut s f x w = (s', o) -> Jg true s'.
Proof.
  intros Hj I Hgf Hlf. destruct (Hj f x Hgf Hlf) as [Hwf _]. pose proof (inv_cur_le_head s outs I) as Hcl.
  pose proof (inv_min_le_head s outs I) as Hml.
  unfold poll_fut. destruct (f_kind x) as [r|r n|v|rest sent total|rest sent] eqn:Ek.
  - destruct (get (rxs s) r) as [y|] eqn:Eg; [|intros H; pinv H; exact Hj].
    destruct (r_closed y) eqn:Ec; [intros H; pinv H; apply Jg_kill; exact Hj|].
    destruct (try_recv_core r y s) as [s1 res] eqn:Et.
    destruct (recv_J r y s s1 res outs Hj I Eg Ec Et) as [Hj1 He].
    destruct res; intros H; pinv H; try (apply Jg_kill; exact Hj1).
    destruct (He eq_refl) as [-> Hy]. apply (Jg_pend_rx s f (FRecv r) w r y); auto; try exact Logic.I.
  - destruct (get (rxs s) r) as [y|] eqn:Eg; [|intros H; pinv H; exact Hj].
    destruct (r_closed y) eqn:Ec; [intros H; pinv H; apply Jg_kill; exact Hj|].
    destruct (N.eqb n 0); [intros H; pinv H; apply Jg_kill; exact Hj|].
    destruct (try_recv_batch_core r y n s) as [s1 res] eqn:Et.
    destruct (recv_batch_J r y n s s1 res Hj Eg Ec Et) as [Hj1 He].
    destruct res; intros H; pinv H; try (apply Jg_kill; exact Hj1).
    destruct (He eq_refl) as (-> & Hy1 & Hy2). apply (Jg_pend_rx s f (FRecvB r n) w r y); auto; try exact Logic.I.
  - destruct (s_alive s); cbn [negb]; [|intros H; pinv H; exact Hj].
    destruct (s_closed s) eqn:Ec; [intros H; pinv H; apply Jg_add_drops, Jg_kill; exact Hj|].
    destruct (try_send_core v s) as [s1 res] eqn:Et.
    destruct (try_send_core_J v s s1 res Hj Hcl Et) as [Hj1 Hf].
    destruct res; intros H; pinv H; try (apply Jg_add_drops); try (apply Jg_kill; exact Hj1).
    destruct (Hf eq_refl) as [-> Hsp]. apply Jg_pend_tx; auto; try exact Logic.I.
  - destruct (s_alive s); cbn [negb]; [|intros H; pinv H; exact Hj].
    destruct (N.eqb sent total); [intros H; pinv H; apply Jg_add_drops, Jg_kill; exact Hj|].
    destruct (s_closed s) eqn:Ec; [intros H; pinv H; apply Jg_add_drops, Jg_kill; exact Hj|].
    destruct (send_some rest s) as [[[s1 k] rest']|] eqn:Es;
      [|intros H; pinv H; apply Jg_add_drops, Jg_kill; exact Hj].
    destruct (send_some_J rest s s1 k rest' Hj Hcl Hml Es) as (Hj1 & Hc1 & Hr & Hk & Hsp).
    destruct (N.eqb_spec (sent + k) total) as [He|Hne]; intros H; pinv H; [apply Jg_add_drops, Jg_kill; exact Hj1|].
    cbn [fut_wf] in Hwf. apply Jg_pend_tx; auto.
    + cbn [fut_wf]. pose proof (skipnN_len k rest Hk). lia.
    + congruence.
    + apply Hsp. intros Heq. apply Hne. lia.
  - destruct (s_alive s); cbn [negb]; [|intros H; pinv H; exact Hj].
    destruct rest as [|v0 rest0]; [intros H; pinv H; apply Jg_kill; exact Hj|].
    destruct (s_closed s) eqn:Ec; [intros H; pinv H; apply Jg_add_drops, Jg_kill; exact Hj|].
    destruct (send_some (v0 :: rest0) s) as [[[s1 k] rest']|] eqn:Es;
      [|intros H; pinv H; apply Jg_add_drops, Jg_kill; exact Hj].
    destruct (send_some_J _ s s1 k rest' Hj Hcl Hml Es) as (Hj1 & Hc1 & Hr & Hk & Hsp).
    destruct rest' as [|v1 rest1] eqn:Er; intros H; pinv H; [apply Jg_kill; exact Hj1|].
    apply Jg_pend_tx; auto; try exact Logic.I; try congruence.
    apply Hsp. intros Heq. pose proof (skipnN_len k (v0 :: rest0) Hk) as Hl. rewrite <- Hr in Hl.
    unfold lenN in Hl at 1. cbn [length] in Hl. lia.
Qed.

Lemma new_fut_J s f k s' o : Jg true s -> fut_wf k -> new_fut s f k = (s', o) -> Jg true s'.
Proof.
  intros Hj Hwf. unfold new_fut. destruct (get (futs s) f); intros H; pinv H; [exact Hj|].
  apply Jg_set_fut_quiet; auto.
Qed.

Lemma step_J s o s' x outs :
  Jg true s -> InvC (proj s) outs -> step s o = (s', x) -> Jg true s'.
Proof.
  intros Hj I. pose proof (inv_cur_le_head s outs I) as Hcl. pose proof (inv_min_le_head s outs I) as Hml.
  destruct o; cbn [step].
  - (* TrySend *)
    destruct (s_alive s); cbn [negb]; [|intros H; pinv H; exact Hj].
    destruct (s_closed s); [intros H; pinv H; apply Jg_add_drops; exact Hj|].
    destruct (try_send_core v s) as [s1 res] eqn:Et. destruct (try_send_core_J v s s1 res Hj Hcl Et) as [Hj1 _].
    destruct res; intros H; pinv H; try apply Jg_add_drops; exact Hj1.
  - (* Send *)
    destruct (s_alive s); cbn [negb orb]; [|intros H; pinv H; exact Hj].
    destruct (s_async s); [intros H; pinv H; exact Hj|].
    destruct (s_closed s); [intros H; pinv H; apply Jg_add_drops; exact Hj|].
    destruct (try_send_core v s) as [s1 res] eqn:Et. destruct (try_send_core_J v s s1 res Hj Hcl Et) as [Hj1 _].
    destruct res; intros H; pinv H; try apply Jg_add_drops; assumption.
  - (* TrySendB *)
    destruct (s_alive s); cbn [negb]; [|intros H; pinv H; exact Hj].
    destruct vs as [|v0 vs0]; [intros H; pinv H; exact Hj|].
    destruct (s_closed s); [intros H; pinv H; apply Jg_add_drops; exact Hj|].
    destruct (send_some (v0 :: vs0) s) as [[[s1 k] rest']|] eqn:Es; [|intros H; pinv H; apply Jg_add_drops; exact Hj].
    destruct (send_some_J _ s s1 k rest' Hj Hcl Hml Es) as (Hj1 & _).
    destruct rest'; intros H; pinv H; try apply Jg_add_drops; exact Hj1.
  - (* TrySendM *)
    destruct (s_alive s); cbn [negb]; [|intros H; pinv H; exact Hj].
    destruct vs as [|v0 vs0]; [intros H; pinv H; exact Hj|].
    destruct (s_closed s); [intros H; pinv H; apply Jg_add_drops; exact Hj|].
    destruct (send_some (v0 :: vs0) s) as [[[s1 k] rest']|] eqn:Es; [|intros H; pinv H; apply Jg_add_drops; exact Hj].
    destruct (send_some_J _ s s1 k rest' Hj Hcl Hml Es) as (Hj1 & _).
    intros H; pinv H; apply Jg_add_drops; exact Hj1.
  - (* SendB *)
    destruct (s_alive s); cbn [negb orb]; [|intros H; pinv H; exact Hj].
    destruct (s_async s); [intros H; pinv H; exact Hj|].
    destruct vs as [|v0 vs0]; [intros H; pinv H; exact Hj|].
    destruct (s_closed s); [intros H; pinv H; apply Jg_add_drops; exact Hj|].
    destruct (send_some (v0 :: vs0) s) as [[[s1 k] rest']|] eqn:Es; [|intros H; pinv H; apply Jg_add_drops; exact Hj].
    destruct (send_some_J _ s s1 k rest' Hj Hcl Hml Es) as (Hj1 & _).
    destruct rest'; intros H; pinv H; assumption.
  - (* SendM *)
    destruct (s_alive s); cbn [negb orb]; [|intros H; pinv H; exact Hj].
    destruct (s_async s); [intros H; pinv H; exact Hj|].
    destruct vs as [|v0 vs0]; [intros H; pinv H; exact Hj|].
    destruct (s_closed s); [intros H; pinv H; apply Jg_add_drops; exact Hj|].
    destruct (send_some (v0 :: vs0) s) as [[[s1 k] rest']|] eqn:Es; [|intros H; pinv H; apply Jg_add_drops; exact Hj].
    destruct (send_some_J _ s s1 k rest' Hj Hcl Hml Es) as (Hj1 & _).
    destruct rest'; intros H; pinv H; assumption.
  - (* SClose *)
    destruct (s_alive s); cbn [negb]; [|intros H; pinv H; exact Hj].
    destruct (tx_busy s) eqn:Eb; [intros H; pinv H; exact Hj|].
    destruct (s_closed s); intros H; pinv H; [exact Hj|].
    change (Jg true (wake_all (set_sender s true true (s_async s) (s_taint s) true))).
    apply Jg_sender_close; assumption.
  - (* SDrop *)
    destruct (s_alive s); cbn [negb]; [|intros H; pinv H; exact Hj].
    destruct (tx_busy s) eqn:Eb; [intros H; pinv H; exact Hj|].
    intros H; pinv H. apply Jg_release. destruct (s_closed s).
    + apply Jg_set_sender; assumption.
    + set (s1 := sender_close_internal s).
      assert (Hj1 : Jg true s1) by (apply Jg_sender_close; assumption).
      assert (Hb1 : tx_busy s1 = false).
      { unfold s1, sender_close_internal, wake_all. cbn [set_sender regs]. rewrite tx_busy_wake_list. exact Eb. }
      apply Jg_set_sender; assumption.
  - (* SConv *)
    destruct (s_alive s); cbn [negb]; [|intros H; pinv H; exact Hj].
    destruct (tx_busy s) eqn:Eb; [intros H; pinv H; exact Hj|].
    destruct (fixedm s); intros H; pinv H; apply Jg_set_sender; assumption.
  - (* SObs *)
    destruct (s_alive s); cbn [negb]; intros H; pinv H; exact Hj.
  - (* TryRecv *)
    intros H. apply with_rx_inv in H. destruct H as [[-> ->]|(y & Hg & Hl & H)]; [exact Hj|].
    destruct (r_closed y) eqn:Ec; [pinv H; exact Hj|].
    destruct (try_recv_core r y s) as [s1 res] eqn:Et.
    destruct (recv_J r y s s1 res outs Hj I Hg Ec Et) as [Hj1 _]. pinv H. exact Hj1.
  - (* Recv *)
    intros H. apply with_rx_inv in H. destruct H as [[-> ->]|(y & Hg & Hl & H)]; [exact Hj|].
    destruct (r_async y); [pinv H; exact Hj|].
    destruct (r_closed y) eqn:Ec; [pinv H; exact Hj|].
    destruct (try_recv_core r y s) as [s1 res] eqn:Et.
    destruct (recv_J r y s s1 res outs Hj I Hg Ec Et) as [Hj1 _]. pinv H. exact Hj1.
  - (* RecvT *)
    intros H. apply with_rx_inv in H. destruct H as [[-> ->]|(y & Hg & Hl & H)]; [exact Hj|].
    destruct (r_async y); [pinv H; exact Hj|].
    destruct (r_closed y) eqn:Ec; [pinv H; exact Hj|].
    destruct (try_recv_core r y s) as [s1 res] eqn:Et.
    destruct (recv_J r y s s1 res outs Hj I Hg Ec Et) as [Hj1 _]. pinv H. exact Hj1.
  - (* TryRecvB *)
    intros H. apply with_rx_inv in H. destruct H as [[-> ->]|(y & Hg & Hl & H)]; [exact Hj|].
    destruct (N.eqb n 0); [pinv H; exact Hj|].
    destruct (r_closed y) eqn:Ec; [pinv H; exact Hj|].
    destruct (try_recv_batch_core r y n s) as [s1 res] eqn:Et.
    destruct (recv_batch_J r y n s s1 res Hj Hg Ec Et) as [Hj1 _]. pinv H. exact Hj1.
  - (* RecvB *)
    intros H. apply with_rx_inv in H. destruct H as [[-> ->]|(y & Hg & Hl & H)]; [exact Hj|].
    destruct (r_async y); [pinv H; exact Hj|].
    destruct (N.eqb n 0); [pinv H; exact Hj|].
    destruct (r_closed y) eqn:Ec; [pinv H; exact Hj|].
    destruct (try_recv_batch_core r y n s) as [s1 res] eqn:Et.
    destruct (recv_batch_J r y n s s1 res Hj Hg Ec Et) as [Hj1 _]. pinv H. exact Hj1.
  - (* RClose *)
    intros H. apply with_rx_inv in H. destruct H as [[-> ->]|(y & Hg & Hl & H)]; [exact Hj|].
    destruct (r_closed y); pinv H; [exact Hj|].
    apply Jg_wake_producer. apply Jg_set_rx_unreg; assumption.
  - (* RDrop *)
    intros H. apply with_rx_inv in H. destruct H as [[-> ->]|(y & Hg & Hl & H)]; [exact Hj|].
    destruct (rx_busy s r) eqn:Eb; [pinv H; exact Hj|].
    destruct (r_closed y) eqn:Ec.
    + rewrite Hg in H. pinv H. apply Jg_release. apply (Jg_set_rx_quiet s r y); auto.
    + set (s1 := wake_producer (set_rx s r (rx_unreg y))) in *.
      assert (Hj1 : Jg true s1) by (apply Jg_wake_producer; apply Jg_set_rx_unreg; assumption).
      assert (Hr1 : rxs s1 = set (rxs s) r (rx_unreg y)).
      { change (c_rxs (proj s1) = set (rxs s) r (rx_unreg y)). unfold s1. rewrite proj_wake_producer. reflexivity. }
      assert (Hb1 : rx_busy s1 r = false) by (unfold s1; rewrite rx_busy_wake_producer; exact Eb).
      rewrite Hr1, get_set_eq in H. pinv H. apply Jg_release.
      apply (Jg_set_rx_quiet s1 r (rx_unreg y)); auto. rewrite Hr1. apply get_set_eq.
  - (* RClone *)
    intros H. apply with_rx_inv in H. destruct H as [[-> ->]|(y & Hg & Hl & H)]; [exact Hj|].
    destruct (get (rxs s) c) eqn:Egc; [pinv H; exact Hj|].
    destruct (fixedm s && r_closed y); pinv H; apply Jg_clone; assumption.
  - (* RConv *)
    intros H. apply with_rx_inv in H. destruct H as [[-> ->]|(y & Hg & Hl & H)]; [exact Hj|].
    destruct (rx_busy s r) eqn:Eb; [pinv H; exact Hj|].
    destruct (fixedm s); pinv H; apply (Jg_set_rx_quiet s r y); auto.
  - (* RObs *)
    intros H. apply with_rx_inv in H. destruct H as [[-> ->]|(y & Hg & Hl & H)]; [exact Hj|]. pinv H. exact Hj.
  - (* MkRecv *)
    intros H. apply with_rx_inv in H. destruct H as [[-> ->]|(y & Hg & Hl & H)]; [exact Hj|].
    destruct (r_async y); [eapply new_fut_J; eauto; exact Logic.I | pinv H; exact Hj].
  - (* MkRecvB *)
    intros H. apply with_rx_inv in H. destruct H as [[-> ->]|(y & Hg & Hl & H)]; [exact Hj|].
    destruct (r_async y); [eapply new_fut_J; eauto; exact Logic.I | pinv H; exact Hj].
  - destruct (s_alive s && s_async s); [intros H; eapply new_fut_J; eauto; exact Logic.I | intros H; pinv H; exact Hj].
  - destruct (s_alive s && s_async s); [intros H; eapply new_fut_J; eauto; cbn [fut_wf]; lia | intros H; pinv H; exact Hj].
  - destruct (s_alive s && s_async s); [intros H; eapply new_fut_J; eauto; exact Logic.I | intros H; pinv H; exact Hj].
  - (* Poll *)
    destruct (get (futs s) f) as [y|] eqn:Eg; [|intros H; pinv H; exact Hj].
    destruct (f_live y) eqn:El; [intros H; eapply poll_J; eauto | intros H; pinv H; exact Hj].
  - (* DropF *)
    destruct (get (futs s) f) as [y|]; [|intros H; pinv H; exact Hj].
    destruct (f_live y); intros H; pinv H; [apply Jg_add_drops, Jg_kill|]; exact Hj.
  - (* PollNext *)
    intros H. apply with_rx_inv in H. destruct H as [[-> ->]|(y & Hg & Hl & H)]; [exact Hj|].
    destruct (r_async y); cbn [negb] in H; [|pinv H; exact Hj].
    destruct (rx_busy s r); [pinv H; exact Hj|].
    destruct (r_closed y) eqn:Ec; [pinv H; exact Hj|].
    destruct (try_recv_core r y s) as [s1 res] eqn:Et.
    destruct (recv_J r y s s1 res outs Hj I Hg Ec Et) as [Hj1 _].
    destruct res; pinv H; try exact Hj1. apply Jg_register. exact Hj1.
  - (* Snap *)
    intros H; pinv H; exact Hj.
Qed.

(* ------------------------------------------------------------------ all histories *)
Lemma J_init fx c a : Jg true (init fx c a).
Proof. intros f x Hg. cbn [init futs get] in Hg. discriminate. Qed.

Lemma J_end_of ops : forall s outs, Jg true s -> InvC (proj s) outs -> Jg true (end_of s ops).
Proof.
  induction ops as [|o t IH]; intros s outs Hj I; [exact Hj|]. cbn [end_of].
  destruct (step s o) as [s1 x] eqn:Es. cbn [fst]. apply (IH s1 (outs ++ [x])).
  - eapply step_J; eauto.
  - eapply inv_step; [exact I|]. apply step_shape with (op := o). exact Es.
Qed.

Theorem spmc_wake_invariant fx c a ops s outs :
  0 < c -> run fx c a ops = (s, outs) -> J s.
Proof.
  intros Hc Hr. rewrite run_outs in Hr. inversion Hr; subst. apply J_Jg.
  apply (J_end_of ops (init fx c a) []); [apply J_init|apply inv_init; exact Hc].
Qed.

(* ------------------------------------------------------------------ corollaries in terms of the model's
   own poll: a future that is still asleep would get Pending again *)
Theorem spmc_recv_future_asleep_means_pending fx c a ops s outs f x w r y w2 :
  0 < c -> run fx c a ops = (s, outs) ->
  get (futs s) f = Some x -> f_live x = true -> f_wait x = Some w -> f_woken x = false ->
  f_kind x = FRecv r -> get (rxs s) r = Some y -> r_closed y = false -> r_taint y = false ->
  snd (poll_fut s f x w2) = OPending /\ has_reg (r_cur y mod cap s) w (regs s) = true.
Proof.
  intros Hc Hr Hg Hl Hw Hk Hkind Hgy Hcl Ht.
  pose proof (spmc_wake_invariant _ _ _ _ _ _ Hc Hr) as Hj.
  destruct (Hj f x Hg Hl) as [_ Hp]. specialize (Hp w Hw Hk). unfold Pw in Hp. rewrite Hkind in Hp. cbn [fut_rx] in Hp.
  destruct Hp as (y0 & Hg0 & Hp). rewrite Hgy in Hg0. inversion Hg0; subst y0.
  destruct Hp as [Hp|[Hp|(H1 & H2 & H3)]]; [congruence|congruence|]. split; [|exact H1].
  unfold poll_fut. rewrite Hkind, Hgy, Hcl. unfold try_recv_core.
  assert (Hwin : in_window s (r_cur y) = false).
  { unfold in_window. destruct (N.ltb_spec (r_cur y) (head s)); [lia|reflexivity]. }
  rewrite Hwin, H3. reflexivity.
Qed.

Theorem spmc_send_future_asleep_means_pending fx c a ops s outs f x w v w2 :
  0 < c -> run fx c a ops = (s, outs) ->
  get (futs s) f = Some x -> f_live x = true -> f_wait x = Some w -> f_woken x = false ->
  f_kind x = FSend v -> f_disp x = false -> s_alive s = true ->
  snd (poll_fut s f x w2) = OPending /\ pw s = Some w.
Proof.
  intros Hc Hr Hg Hl Hw Hk Hkind Hd Ha.
  pose proof (spmc_wake_invariant _ _ _ _ _ _ Hc Hr) as Hj.
  destruct (Hj f x Hg Hl) as [_ Hp]. specialize (Hp w Hw Hk). unfold Pw in Hp. rewrite Hkind in Hp. cbn [fut_rx] in Hp.
  destruct Hp as [Hp|(H1 & H2 & H3)]; [congruence|]. split; [|exact H1].
  unfold poll_fut. rewrite Hkind, Ha, H2. cbn [negb]. unfold try_send_core. unfold space in H3.
  destruct (minl (cursors s)) as [m|]; [|discriminate]. inversion H3 as [H4].
  pose proof (inv_run _ _ _ _ _ _ Hc Hr) as I. pose proof (i_cap _ _ I) as Hcap. cbn [proj c_cap] in Hcap.
  destruct (N.leb_spec (cap s) (head s - m)); [reflexivity|lia].
Qed.

(* ------------------------------------------------------------------ the full statement and the two
   recorded defects *)
Definition spmc_wake_full (fx : bool) : Prop :=
  forall c a ops s outs f x w,
    0 < c -> run fx c a ops = (s, outs) ->
    get (futs s) f = Some x -> f_live x = true -> f_wait x = Some w -> f_woken x = false ->
    snd (poll_fut s f x w) = OPending.

(* a receive future is pending on r; r.close() (through &r from another task) makes it Ready(Disconnected)
   but invokes no waker *)
Definition witness_rx_close_no_wake : list op := [MkRecv 0 0; Poll 0 1; RClose 0].

Lemma spmc_wake_refuted_rx_close fx : ~ spmc_wake_full fx.
Proof.
  intros H.
  specialize (H 2 true witness_rx_close_no_wake
                (fst (run fx 2 true witness_rx_close_no_wake)) (snd (run fx 2 true witness_rx_close_no_wake))
                0 (mkFut (FRecv 0) true (Some 1) false false) 1 ltac:(lia)).
  assert (He : run fx 2 true witness_rx_close_no_wake =
               (fst (run fx 2 true witness_rx_close_no_wake), snd (run fx 2 true witness_rx_close_no_wake)))
    by (destruct (run fx 2 true witness_rx_close_no_wake); reflexivity).
  specialize (H He). clear He.
  destruct fx; vm_compute in H; specialize (H eq_refl eq_refl eq_refl eq_refl); discriminate H.
Qed.

(* two send futures with different wakers are pending on one sender: the second registration replaces
   the first in the single AtomicWaker; the receive that frees the slot wakes only the second *)
Definition witness_send_waker_displaced : list op :=
  [TrySend 1; MkSend 0 2; Poll 0 0; MkSend 1 3; Poll 1 1; TryRecv 0].

Lemma spmc_wake_refuted_displaced fx : ~ spmc_wake_full fx.
Proof.
  intros H.
  specialize (H 1 true witness_send_waker_displaced
                (fst (run fx 1 true witness_send_waker_displaced)) (snd (run fx 1 true witness_send_waker_displaced))
                0 (mkFut (FSend 2) true (Some 0) false true) 0 ltac:(lia)).
  assert (He : run fx 1 true witness_send_waker_displaced =
               (fst (run fx 1 true witness_send_waker_displaced), snd (run fx 1 true witness_send_waker_displaced)))
    by (destruct (run fx 1 true witness_send_waker_displaced); reflexivity).
  specialize (H He). clear He.
  destruct fx; vm_compute in H; specialize (H eq_refl eq_refl eq_refl eq_refl); discriminate H.
Qed.

(* ------------------------------------------------------------------ cancellation: dropping a future
   changes nothing in the channel, removes no registration and touches no other future *)
Theorem spmc_drop_future_harmless s f :
  let s' := fst (step s (DropF f)) in
  proj s' = proj s /\ regs s' = regs s /\ pw s' = pw s /\ wlog s' = wlog s /\
  (forall g, g <> f -> get (futs s') g = get (futs s) g) /\
  (Jg true s -> Jg true s').
Proof.
  assert (Hid : proj s = proj s /\ regs s = regs s /\ pw s = pw s /\ wlog s = wlog s /\
                (forall g, g <> f -> get (futs s) g = get (futs s) g) /\ (Jg true s -> Jg true s))
    by (split; [reflexivity|]; split; [reflexivity|]; split; [reflexivity|]; split; [reflexivity|]; split; auto).
  cbn [step]. destruct (get (futs s) f) as [x|] eqn:Eg; [|cbn [fst]; exact Hid].
  destruct (f_live x); cbn [fst]; [|exact Hid].
  split; [reflexivity|]. split; [reflexivity|]. split; [reflexivity|]. split; [reflexivity|]. split.
  - intros g Hne. cbn [add_drops kill set_fut set_futs futs]. apply get_set_neq. exact Hne.
  - intros Hj. apply Jg_add_drops, Jg_kill. exact Hj.
Qed.
