(* Proofs/MpmcK3Wake1.v — milestone 3 (wake protocol), part 1: the waiter queues are well formed.
   Every linked record (u, g) is the CURRENT done_flag of thread u, whose frame is alive and at a
   program point from which it will unlink it (or be unlinked by its waker) before the frame
   dies; no thread is linked twice; hence the wake CAS of a lock holder never touches a dead
   frame (`bad` stays false: C09) - with the F-02 repair also no unreachable!(). *)
From Coq Require Import List NArith Arith Bool Lia Sorted.
From Fibre Require Import Common.Conc Chan.MpmcK3 Proofs.MpmcK3Base Proofs.MpmcK3Queue Proofs.MpmcK3Life.
Import ListNotations.

(* ------------------------------------------------------------------ list helpers for the waiter queues *)
Lemma remove_nth_In A i (l : list A) x : In x (remove_nth i l) -> In x l.
Proof.
  revert i. induction l as [|a l IH]; intros i H; [destruct i; exact H|].
  destruct i; cbn in H; [right; exact H|]. destruct H as [H|H]; [left; exact H|right; eapply IH; exact H].
Qed.

Lemma remove_nth_keep A i (l : list A) a x : nth_error l i = Some a -> In x l -> x <> a -> In x (remove_nth i l).
Proof.
  revert i. induction l as [|b l IH]; intros i Hn Hin Hne; [destruct Hin|].
  destruct i; cbn in *.
  - inversion Hn; subst. destruct Hin as [H|H]; [congruence|exact H].
  - destruct Hin as [H|H]; [left; exact H|right; eapply IH; eassumption].
Qed.

Lemma remove_nth_map A B (f : A -> B) i l : map f (remove_nth i l) = remove_nth i (map f l).
Proof. revert i. induction l as [|a l IH]; intros [|i]; cbn; try reflexivity. f_equal. apply IH. Qed.

Lemma remove_nth_NoDup A i (l : list A) : NoDup l -> NoDup (remove_nth i l).
Proof.
  revert i. induction l as [|a l IH]; intros i H; [destruct i; exact H|].
  inversion H; subst. destruct i; cbn; [assumption|]. constructor; [|apply IH; assumption].
  intros X. apply remove_nth_In in X. contradiction.
Qed.

Lemma ent_eqb_spec a b : ent_eqb a b = true <-> a = b.
Proof.
  destruct a as [a1 a2], b as [b1 b2]. unfold ent_eqb. cbn [fst snd]. rewrite andb_true_iff, !Nat.eqb_eq.
  split; [intros [-> ->]; reflexivity|intros H; inversion H; auto].
Qed.

Lemma unlink_In t g l x : In x (unlink t g l) <-> In x l /\ x <> (t, g).
Proof.
  unfold unlink. rewrite filter_In. split; intros [H1 H2]; split; auto.
  - intros ->. rewrite (proj2 (ent_eqb_spec (t, g) (t, g)) eq_refl) in H2. discriminate.
  - destruct (ent_eqb x (t, g)) eqn:E; [|reflexivity]. apply ent_eqb_spec in E. contradiction.
Qed.

Lemma NoDup_map_filter A B (f : A -> B) p l : NoDup (map f l) -> NoDup (map f (filter p l)).
Proof.
  induction l as [|a l IH]; intros H; [constructor|]. cbn in *. inversion H; subst.
  destruct (p a); [|auto]. cbn. constructor; [|auto]. intros X. apply H2.
  apply in_map_iff in X. destruct X as [y [E Hy]]. apply filter_In in Hy. apply in_map_iff. exists y. tauto.
Qed.

Lemma in_map_fst (l : list (nat * nat)) u : In u (map fst l) -> exists g, In (u, g) l.
Proof. intros H. apply in_map_iff in H. destruct H as [[a b] [E H]]. cbn in E. subst. exists b. exact H. Qed.

(* ------------------------------------------------------------------ where a linked record's owner can be *)
Definition r_link (p : pc) : bool :=
  match p with
  | RRegUnlock _ GoWait | RWLoad | RWNext | RFinal | TWLoad | TWNext | TFinal | TCancelLock | RUnlLock _ => true
  | _ => false
  end.
Definition s_link (p : pc) : bool :=
  match p with SRegUnlock GoWait | SWLoad | SWNext | SFinal | SUnlLock _ => true | _ => false end.
Definition deaf_ctx (k : rctx) : bool := match k with CRtD | CRtDL => true | _ => false end.
Definition deaf_pc (p : pc) : bool :=
  match p with
  | TDeafNext | TDeafLoad | Panicked => true
  | RLock k | RScan k _ _ | RUnpark k _ _ | RUnlock k _ => deaf_ctx k
  | _ => false
  end.

Lemma r_link_frame p : r_link p = true -> in_frame p = true.
Proof. destruct p; cbn; intros H; try reflexivity; try discriminate H; try (destruct o; try reflexivity; discriminate H). Qed.
Lemma s_link_frame p : s_link p = true -> in_frame p = true.
Proof. destruct p; cbn; intros H; try reflexivity; try discriminate H; try (destruct o; try reflexivity; discriminate H). Qed.

Record InvE (s : st) : Prop := {
  E_r : forall u g, In (u, g) (wr s) -> g = gen s u /\ r_link (pcs s u) = true /\ flag s u <> FSuccess;
  E_s : forall u g, In (u, g) (ws s) -> g = gen s u /\ s_link (pcs s u) = true;
  E_ndr : NoDup (map fst (wr s));
  E_nds : NoDup (map fst (ws s));
  E_bad : bad s = false;
  E_deaf : forall u, deaf_pc (pcs s u) = false;
  E_ds : forall u i w, pcs s u = DScan false i w -> is_prod (prog s u) = false }.

(* the record the lock holder is about to CAS is valid *)
Ltac entry_valid Er Es :=
  match goal with
  | N : nth_error (wr ?s) _ = Some (?u, ?g), H : (?g =? gen ?s ?u) && in_frame (pcs ?s ?u) = false |- _ =>
      exfalso; destruct (Er _ _ (nth_error_In _ _ N)) as [X1 [X2 _]]; apply r_link_frame in X2;
      rewrite X1, Nat.eqb_refl, X2 in H; discriminate H
  | N : nth_error (ws ?s) _ = Some (?u, ?g), H : (?g =? gen ?s ?u) && in_frame (pcs ?s ?u) = false |- _ =>
      exfalso; destruct (Es _ _ (nth_error_In _ _ N)) as [X1 X2]; apply s_link_frame in X2;
      rewrite X1, Nat.eqb_refl, X2 in H; discriminate H
  end.

Lemma link_disjoint p : r_link p = true -> s_link p = true -> False.
Proof. destruct p; cbn; congruence. Qed.

Lemma nodup_fst_remove (l : list (nat * nat)) i u g g' :
  NoDup (map fst l) -> nth_error l i = Some (u, g) -> In (u, g') (remove_nth i l) -> False.
Proof.
  revert i. induction l as [|a l IH]; intros i Hn Hi Hin; [destruct i; discriminate|].
  cbn in Hn. inversion Hn; subst. destruct i; cbn in *.
  - inversion Hi; subst. apply H1. cbn. apply (in_map fst) in Hin. exact Hin.
  - destruct Hin as [Hin|Hin].
    + subst a. apply H1. cbn. apply nth_error_In in Hi. apply (in_map fst) in Hi. exact Hi.
    + eapply IH; eassumption.
Qed.

(* E_r / E_s goals of the leaves that CAS a waiter record (flag of thread n changes) *)
Ltac pc_part t Epc Xb :=
  match goal with |- ?lnk (upd _ t _ ?uu) = true =>
    split_thr uu t; [ rewrite Epc in Xb; cbn [r_link s_link] in Xb; first [discriminate Xb | reflexivity] | exact Xb ] end.

Ltac er_cas Er Es Nr Ns t Epc :=
  let uu := fresh "uu" in let gg := fresh "gg" in let Hin := fresh "Hin" in
  let Xa := fresh "Xa" in let Xb := fresh "Xb" in let Xc := fresh "Xc" in
  intros uu gg Hin;
  match goal with N : nth_error ?l ?i = Some (?n, ?g) |- _ =>
    let Hn := fresh "Hn" in pose proof (nth_error_In _ _ N) as Hn;
    let Hin2 := fresh "Hin2" in pose proof Hin as Hin2;
    try apply remove_nth_In in Hin;
    destruct (Er _ _ Hin) as (Xa & Xb & Xc);
    destruct (Nat.eq_dec uu n) as [->|Nn];
    [ rewrite ?upd_eq;
      first [ exfalso; eapply (@nodup_fst_remove l); eassumption
            | exfalso; destruct (Es _ _ Hn) as (_ & Ys); eapply link_disjoint; eassumption
            | split; [exact Xa | split; [ pc_part t Epc Xb | discriminate ] ] ]
    | rewrite (upd_neq (flag _) _ Nn); split; [exact Xa | split; [ pc_part t Epc Xb | exact Xc ] ] ]
  end.

Ltac es_cas Er Es Nr Ns t Epc :=
  let uu := fresh "uu" in let gg := fresh "gg" in let Hin := fresh "Hin" in
  let Xa := fresh "Xa" in let Xb := fresh "Xb" in
  intros uu gg Hin; try apply remove_nth_In in Hin;
  destruct (Es _ _ Hin) as (Xa & Xb); split; [exact Xa | pc_part t Epc Xb].

Ltac flag_contra :=
  match goal with E : f_ok (flag ?s ?t) = true, X : flag ?s ?t <> FSuccess |- _ =>
    destruct (flag s t); cbn in E; congruence end.

Ltac er_old Er t Epc Hin uu :=
  let X1 := fresh "Xa" in let X2 := fresh "Xb" in let X3 := fresh "Xc" in
  destruct (Er _ _ Hin) as (X1 & X2 & X3);
  split_thr uu t;
  [ rewrite Epc in X2; cbn [r_link] in X2;
    first [ discriminate X2
          | split; [exact X1 | split; [ first [ reflexivity | exfalso; flag_contra ] | exact X3 ] ] ]
  | split; [exact X1 | split; [exact X2 | exact X3]] ].

Ltac es_old Es t Epc Hin uu :=
  let X1 := fresh "Xa" in let X2 := fresh "Xb" in
  destruct (Es _ _ Hin) as (X1 & X2);
  split_thr uu t;
  [ rewrite Epc in X2; cbn [s_link] in X2;
    first [ discriminate X2 | split; [exact X1 | reflexivity ] ]
  | split; [exact X1 | exact X2] ].

Lemma InvE_step cap cf s t c s' e :
  rearm_after_steal cf = true ->
  InvL s -> InvE s -> step cap cf s t c = Some (s', e) -> InvE s'.
Proof.
  intros Hcf HL [Er Es Nr Ns Eb Ed Eds] H.
  pose proof (proj1 HL t) as L1t. pose proof (Ed t) as Edt. pose proof (Eds t) as Edst.
  assert (Hnr : r_link (pcs s t) = false -> ~ In t (map fst (wr s))).
  { intros X Y. apply in_map_fst in Y. destruct Y as [g Y]. apply Er in Y. destruct Y as (_ & Y & _). congruence. }
  assert (Hns : s_link (pcs s t) = false -> ~ In t (map fst (ws s))).
  { intros X Y. apply in_map_fst in Y. destruct Y as [g Y]. apply Es in Y. destruct Y as (_ & Y). congruence. }
  step_cases H; cbn [in_sec deaf_pc deaf_ctx r_link s_link] in *.
  all: try congruence.
  all: try solve [ entry_valid Er Es ].
  all: try solve [ exfalso; specialize (Edst _ _ eq_refl); congruence ].
  all: constructor; fsimpl.
  all: try solve [ intros uu ii ww X; split_thr uu t;
                   [ try discriminate X; rewrite ?next_prog_role;
                     first [ assumption | inversion X; subst; eapply Edst; reflexivity ]
                   | eapply Eds; eassumption ] ].
  all: try solve [ exact Nr | exact Ns | exact Eb ].
  all: try solve [ intros uu; split_thr uu t; [ cbn [deaf_pc deaf_ctx]; first [reflexivity | assumption] | apply Ed ] ].
  all: try solve [ intros uu gg Hin; er_old Er t Epc Hin uu ].
  all: try solve [ intros uu gg Hin; es_old Es t Epc Hin uu ].
  (* NoDup after remove / append / unlink *)
  all: try solve [ rewrite remove_nth_map; apply remove_nth_NoDup; assumption
                 | apply NoDup_map_filter; assumption
                 | rewrite map_app; apply NoDup_snoc; [assumption | first [apply Hnr | apply Hns]; reflexivity] ].
  all: try solve [ er_cas Er Es Nr Ns t Epc | es_cas Er Es Nr Ns t Epc ].
  (* registration: a fresh record of this thread is appended *)
  all: try solve [ intros uu gg Hin; apply in_app_iff in Hin; destruct Hin as [Hin|[Hin|[]]];
    [ assert (Nt : uu <> t) by (intros ->; apply (in_map fst) in Hin; first [ exact (Hnr eq_refl Hin) | exact (Hns eq_refl Hin) ]);
      rewrite !upd_neq by exact Nt; first [ exact (Er _ _ Hin) | exact (Es _ _ Hin) ]
    | inversion Hin; subst; rewrite !upd_eq; cbn [r_link s_link]; repeat split; discriminate ] ].
  (* unlink by the owner *)
  all: try solve [ intros uu gg Hin; apply unlink_In in Hin; destruct Hin as [Hin Hne];
    first [ destruct (Er _ _ Hin) as (Xa & Xb & Xc) | destruct (Es _ _ Hin) as (Xa & Xb) ];
    split_thr uu t; [ exfalso; apply Hne; rewrite Xa; reflexivity | repeat split; assumption ] ].
  (* cancel CAS of the owner *)
  all: try solve [ intros uu gg Hin; destruct (Er _ _ Hin) as (Xa & Xb & Xc);
    split_thr uu t; [ repeat split; [ exact Xa | discriminate ] | repeat split; assumption ] ].
Qed.
