(* Proofs/MpmcK3Queue.v — milestone 1 of the K3' bounded-MPMC proofs: the queue invariant
   (queue_len = ring length <= capacity, FIFO, the Full answer is exact) and the structure of
   the accepted ids (fresh, no duplicates, per-producer increasing). *)
From Coq Require Import List NArith Arith Bool Lia Sorted.
From Fibre Require Import Common.Conc Chan.MpmcK3 Proofs.MpmcK3Base.
Import ListNotations.

Record InvQ (cap : nat) (s : st) : Prop := {
  Q_len : qlen s = length (q s);
  Q_cap : length (q s) <= cap;
  Q_fifo : map snd (popped s) ++ q s = accepted s;
  Q_scan : forall u k i, pcs s u = SScan k i -> qlen s <> cap;
  Q_full : forall u k, pcs s u = SUnlock k SFull -> qlen s = cap }.

Lemma InvQ_step cap cf s t c s' e :
  InvL s -> InvQ cap s -> step cap cf s t c = Some (s', e) -> InvQ cap s'.
Proof.
  intros HL [Q1 Q2 Q3 Q4 Q5] H.
  pose proof (proj1 HL t) as L1t. pose proof (Q4 t) as Q4t.
  step_cases H; cbn [in_sec] in L1t.
  all: constructor; fsimpl; auto.
  all: try solve [ intros uu k0 i0 X; split_thr uu t;
         [ try discriminate X; try (inversion X; subst; eapply Q4t; reflexivity)
         | first [ eapply Q4; eassumption | kill_other HL L1t X ] ] ].
  all: try solve [ intros uu k0 X; split_thr uu t;
         [ try discriminate X
         | first [ eapply Q5; eassumption | kill_other HL L1t X ] ] ].
  all: try (pose proof (Q4t _ _ eq_refl) as Q4tt).
  all: arith_facts.
  all: try solve [ rewrite ?app_length; cbn [length]; lia ].
  all: try solve [ rewrite app_assoc, Q3; reflexivity ].
  all: try match goal with H : q _ = _ |- _ => rewrite ?H end.
  all: cbn [length] in *.
  all: try solve [ assumption | lia ].
  all: try solve [ rewrite map_app, <- app_assoc; cbn [map snd app]; assumption ].
Qed.

Definition unpushed (p : pc) : bool :=
  match p with
  | SLock _ | SScan _ _ | SUnlock _ SFull | SUnlock _ SClosed | SRegLock | SRegUnlock _
  | SWLoad | SWNext | SFinal | SUnlLock _ | SUnlUnlock _ => true
  | _ => false
  end.

Definition res_ids (r : res) : list id := res_failed r ++ res_ok r.

Record InvA (s : st) : Prop := {
  A_le : forall p n, In (p, n) (accepted s) -> n <= pseq s p;
  A_fresh : forall p, unpushed (pcs s p) = true -> ~ In (p, pseq s p) (accepted s);
  A_nodup : NoDup (accepted s);
  A_sorted : forall p, StronglySorted lt (map snd (from_prod p (accepted s))) }.

Lemma NoDup_snoc A (l : list A) x : NoDup l -> ~ In x l -> NoDup (l ++ [x]).
Proof.
  induction 1 as [|a l Ha Hl IH]; intros N; cbn.
  - constructor; [intros []|constructor].
  - constructor.
    + rewrite in_app_iff. intros [X|[X|[]]]; [contradiction|]. subst. apply N. left. reflexivity.
    + apply IH. intros X. apply N. right. exact X.
Qed.

Lemma sorted_push p t n l :
  StronglySorted lt (map snd (from_prod p l)) ->
  (forall m, In (t, m) l -> m < n) ->
  StronglySorted lt (map snd (from_prod p (l ++ [(t, n)]))).
Proof.
  intros Hs Hn. rewrite from_prod_app.
  destruct (Nat.eq_dec t p) as [->|N].
  - rewrite from_prod_one_eq, map_app. cbn [map snd]. apply sorted_snoc; [exact Hs|].
    intros y Hy. apply in_map_iff in Hy. destruct Hy as [[a b] [E Hin]]. cbn in E. subst b.
    unfold from_prod in Hin. apply filter_In in Hin. destruct Hin as [Hin Hf]. cbn in Hf.
    apply Nat.eqb_eq in Hf. subst a. apply Hn. exact Hin.
  - rewrite from_prod_one_neq by exact N. rewrite app_nil_r. exact Hs.
Qed.

Lemma InvA_step cap cf s t c s' e :
  InvL s -> InvA s -> step cap cf s t c = Some (s', e) -> InvA s'.
Proof.
  intros HL [A1 A2 A3 A4] H.
  pose proof (proj1 HL t) as L1t. pose proof (A2 t) as A2t.
  assert (Hlt : unpushed (pcs s t) = true -> forall m, In (t, m) (accepted s) -> m < pseq s t).
  { intros U m Hm. pose proof (A1 _ _ Hm) as Hle. destruct (Nat.eq_dec m (pseq s t)) as [->|]; [|lia].
    exfalso. exact (A2 t U Hm). }
  step_cases H; cbn [in_sec unpushed] in *.
  all: constructor; fsimpl.
  (* A_le *)
  all: try solve [ exact A1 | exact A3 | exact A4
                 | intros pp nn Hin; specialize (A1 _ _ Hin); split_thr pp t; lia
                 | intros pp nn Hin; apply in_app_iff in Hin; destruct Hin as [Hin|[Hin|[]]];
                   [ apply A1; exact Hin | inversion Hin; subst; lia ] ].
  (* A_nodup / A_sorted on a push *)
  all: try solve [ apply NoDup_snoc; [exact A3 | apply A2t; reflexivity]
                 | intros p0; apply sorted_push; [apply A4 | apply Hlt; reflexivity] ].
  (* A_fresh *)
  all: try solve [ intros pp U; split_thr pp t; cbn [unpushed] in U; try discriminate U;
                   first [ apply A2; exact U | apply A2t; reflexivity
                         | intros Hin; apply A1 in Hin; lia
                         | intros Hin; apply in_app_iff in Hin; destruct Hin as [Hin|[Hin|[]]];
                           [ exact (A2 _ U Hin) | inversion Hin; congruence ] ] ].
Qed.
