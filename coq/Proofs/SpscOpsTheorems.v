(* Proofs/SpscOpsTheorems.v — property theorems of the K2 SPSC model, derived from the invariant `Inv`
   (Proofs/SpscOpsProofs.v).  Everything is quantified over ALL op histories (`reach cf c k ops`) or over
   all states satisfying the invariant. *)
From Coq Require Import List Arith ZArith Bool Lia Permutation.
From Fibre Require Import Chan.SpscOps Proofs.SpscOpsProofs.
Import ListNotations.
Open Scope nat_scope.

(** * Theorems for every cfg (the code as it is, and the repaired code) *)
Definition reach (cf : cfg) (c : nat) (k : kind) (ops : list op) : st := fst (run cf (init c k) ops).
Definition res_of (x : st * out) : res := fst (snd x).

Lemma reach_inv cf c k ops : Inv (reach cf c k ops).
Proof. apply inv_run, inv_init. Qed.

(* ---------- C01 / C09 : conservation *)
Definition places (s : st) : list nat :=
  received s ++ q s ++ held s ++ returned s ++ dropped s ++ drained s.

Lemma cnt_places x s : cnt x (places s) = tot x s.
Proof. unfold places, tot. rewrite !cnt_app. lia. Qed.

Lemma conservation_inv s : Inv s -> Permutation (places s) (seq 0 (next s)).
Proof.
  intros (HD & _). apply (Permutation_count_occ Nat.eq_dec). intros x.
  change (cnt x (places s) = cnt x (seq 0 (next s))).
  rewrite cnt_places, (d_cons _ HD), cnt_seq, Nat.add_0_l.
  replace (0 <=? x) with true by (symmetry; apply Nat.leb_le; lia). reflexivity.
Qed.

Lemma nodup_places s : Inv s -> NoDup (places s).
Proof.
  intros H. apply (Permutation_NoDup (l := seq 0 (next s))).
  - symmetry. apply conservation_inv, H.
  - apply seq_NoDup.
Qed.

Lemma nodup_app_l {A} (a b : list A) : NoDup (a ++ b) -> NoDup a.
Proof.
  induction a as [|x a IH]; cbn; intros H; [constructor|].
  inversion H; subst. constructor.
  - intros Hin. apply H2. apply in_or_app. left. exact Hin.
  - apply IH. assumption.
Qed.

Theorem spsc_conservation cf c k ops :
  let s := reach cf c k ops in
  Permutation (received s ++ q s ++ held s ++ returned s ++ dropped s ++ drained s) (seq 0 (next s)).
Proof. apply conservation_inv, reach_inv. Qed.

Theorem spsc_received_once cf c k ops :
  let s := reach cf c k ops in
  NoDup (received s) /\ incl (received s) (accepted s) /\ accepted s = received s ++ q s ++ drained s.
Proof.
  cbn. pose proof (reach_inv cf c k ops) as H. set (s := reach cf c k ops) in *.
  pose proof (nodup_places s H) as Hn. destruct H as (HD & _).
  split; [|split].
  - unfold places in Hn. apply nodup_app_l in Hn. exact Hn.
  - rewrite (d_fifo _ HD). intros x Hx. apply in_or_app. left. exact Hx.
  - apply (d_fifo _ HD).
Qed.

(* every teardown order: once both handles are gone nothing is buffered or held, and every id ever
   allocated is in exactly one of received / handed back / dropped by an op / drained by Ring::drop *)
Theorem spsc_teardown cf c k ops :
  let s := reach cf c k ops in
  sh s = HGone -> rh s = HGone ->
  q s = [] /\ sf s = None /\ rf s = None /\
  Permutation (received s ++ returned s ++ dropped s ++ drained s) (seq 0 (next s)) /\
  NoDup (received s ++ returned s ++ dropped s ++ drained s).
Proof.
  cbn. pose proof (reach_inv cf c k ops) as H. set (s := reach cf c k ops) in *.
  intros Hs Hr. pose proof (conservation_inv s H) as Hp. pose proof (nodup_places s H) as Hn.
  destruct H as (HD & _).
  assert (Hq : q s = []) by (apply (d_dead _ HD); unfold alive; rewrite Hs, Hr; reflexivity).
  assert (Hf : sf s = None).
  { destruct (sf s) eqn:E; [|reflexivity]. destruct (d_sf _ HD) as [c0 Hc]; [rewrite E; discriminate|congruence]. }
  assert (Hg : rf s = None).
  { destruct (rf s) eqn:E; [|reflexivity]. destruct (d_rf _ HD) as [c0 Hc]; [rewrite E; discriminate|congruence]. }
  unfold places, held in *. rewrite Hq, Hf in *. cbn [app] in *.
  repeat split; auto.
Qed.

(* ---------- C01 : an operation that reports failure has no effect on the channel *)
Definition failed (r : res) : bool :=
  match r with
  | RFull _ | RClosedV _ | RClosed | REmpty | RDisc | RTimeout | RNone | RCloseErr | RMutClosed _
  | RTryBatchErr 0 _ _ | RBatchErr 0 _ | RGone | RBusy | RNA | RNoFut | RWouldBlock => true
  | _ => false
  end.

Theorem spsc_failed_no_effect cf s o :
  failed (res_of (step cf s o)) = true ->
  q (fst (step cf s o)) = q s /\ accepted (fst (step cf s o)) = accepted s /\
  received (fst (step cf s o)) = received s.
Proof.
  unfold step, res_of.
  destruct o; cbn [exec]; unf_ops; cbn;
    repeat (split1; cbn); try discriminate; unf_prims; cbn; auto.
  all: try match goal with |- context [Nat.min ?a ?b] => destruct (Nat.min a b) eqn:? end; cbn; try discriminate.
  all: rewrite ?firstn_O, ?app_nil_r; auto.
Qed.

(* ---------- C02 : FIFO refinement; the ghost `received` is exactly what the receive forms output *)
Definition vals_of (r : res) : list nat :=
  match r with RVal v => [v] | RVals vs => vs | _ => [] end.

Lemma firstn1 (x : nat) l : firstn 1 (x :: l) = [x].
Proof. reflexivity. Qed.

Lemma exec_tracks cf s o :
  received (fst (exec cf s o)) = received s ++ vals_of (snd (exec cf s o)) /\
  exists pushed, accepted (fst (exec cf s o)) = accepted s ++ pushed.
Proof.
  destruct o; cbn [exec]; unf_ops; cbn.
  all: repeat (split1; cbn).
  all: unf_prims; cbn; hrw; rewrite ?firstn1, ?app_nil_r.
  all: split; [try reflexivity | first [eexists; reflexivity | exists []; rewrite app_nil_r; reflexivity]].
Qed.

Lemma step_data cf s o :
  received (fst (step cf s o)) = received s ++ vals_of (res_of (step cf s o)) /\
  exists pushed, accepted (fst (step cf s o)) = accepted s ++ pushed.
Proof.
  unfold step, res_of. pose proof (exec_tracks cf (set_ev [] s) o) as H.
  destruct (exec cf (set_ev [] s) o) as [s1 r]. cbn in *. exact H.
Qed.

(* forward simulation to the FIFO specification: the values an op returns are the front of the queue,
   the values it accepts go to the back, in order *)
Theorem spsc_step_fifo cf s o :
  Inv s -> alive (fst (step cf s o)) = true ->
  exists pushed,
    accepted (fst (step cf s o)) = accepted s ++ pushed /\
    q s ++ pushed = vals_of (res_of (step cf s o)) ++ q (fst (step cf s o)).
Proof.
  intros H Hal. pose proof (inv_step cf s o H) as H'.
  destruct (step_data cf s o) as (Hr & pushed & Ha).
  exists pushed. split; [exact Ha|].
  destruct H as (HD & _). destruct H' as (HD' & _).
  pose proof (d_fifo _ HD) as F. pose proof (d_fifo _ HD') as F'.
  rewrite (d_alive _ HD' Hal) in F'.
  assert (Hal0 : alive s = true).
  { destruct (alive s) eqn:E; [reflexivity|]. exfalso.
    (* a channel whose two handles are gone stays gone: every op is gated *)
    unfold alive in E. destruct (sh s) eqn:E1; [|discriminate]. destruct (rh s) eqn:E2; [|discriminate].
    revert Hal. unfold step. destruct o; cbn [exec]; unf_ops; cbn; rewrite ?E1, ?E2; cbn; unfold alive; cbn;
      rewrite ?E1, ?E2; try discriminate;
      repeat (split1; cbn; rewrite ?E1, ?E2); unfold alive; cbn; rewrite ?E1, ?E2; discriminate. }
  rewrite (d_alive _ HD Hal0) in F. rewrite app_nil_r in F, F'.
  rewrite Ha, Hr, F in F'. rewrite <- !app_assoc in F'. apply app_inv_head in F'. exact F'.
Qed.

Fixpoint all_vals (outs : list out) : list nat :=
  match outs with [] => [] | (r, _) :: t => vals_of r ++ all_vals t end.

Lemma run_received cf ops : forall s,
  received (fst (run cf s ops)) = received s ++ all_vals (snd (run cf s ops)).
Proof.
  induction ops as [|o r IH]; intros s; cbn [run].
  - cbn. rewrite app_nil_r. reflexivity.
  - pose proof (step_data cf s o) as (Hr & _). unfold res_of in Hr.
    destruct (step cf s o) as [s1 [r1 e1]] eqn:E1. specialize (IH s1).
    destruct (run cf s1 r) as [s2 xs] eqn:E2. cbn in *. rewrite IH, Hr, <- app_assoc. reflexivity.
Qed.

(* the values returned by all receive operations of a history, in order, are a prefix of the ids in the
   order their sends were accepted; what is missing is exactly what is still buffered (or was drained
   by Ring::drop after both handles were gone) *)
Theorem spsc_fifo cf c k ops :
  let s := reach cf c k ops in
  accepted s = all_vals (snd (run cf (init c k) ops)) ++ q s ++ drained s.
Proof.
  cbn. pose proof (reach_inv cf c k ops) as (HD & _). unfold reach in *.
  rewrite (d_fifo _ HD), run_received. reflexivity.
Qed.

(* ---------- C03 : capacity *)
Lemma cap_step cf s o : cap (fst (step cf s o)) = cap s.
Proof.
  unfold step. destruct (exec cf (set_ev [] s) o) as [s1 r] eqn:E. cbn.
  replace s1 with (fst (exec cf (set_ev [] s) o)) by (rewrite E; reflexivity). clear E.
  destruct o; cbn [exec]; unf_ops; cbn; repeat (split1; cbn); unf_prims; cbn; reflexivity.
Qed.

Lemma cap_run cf ops : forall s, cap (fst (run cf s ops)) = cap s.
Proof.
  induction ops as [|o r IH]; intros s; cbn [run]; [reflexivity|].
  pose proof (cap_step cf s o) as Hk. destruct (step cf s o) as [s1 x]. specialize (IH s1).
  destruct (run cf s1 r). cbn in *. congruence.
Qed.

(* never more than the requested (logical) capacity, whatever the physical ring size *)
Theorem spsc_len_le_cap cf c k ops :
  let s := reach cf c k ops in length (q s) <= c.
Proof.
  cbn. pose proof (reach_inv cf c k ops) as (HD & _). pose proof (d_len _ HD) as H.
  unfold reach in *. rewrite cap_run in H. exact H.
Qed.

(* try_send on a live, un-borrowed handle succeeds exactly when the channel is neither full nor closed *)
Theorem spsc_try_send_iff cf s k c :
  sh s = HLive k c -> sf s = None ->
  (res_of (step cf s TrySend) = ROk <-> (length (q s) < cap s /\ c = false /\ cdrop s = false)).
Proof.
  intros Hs Hf. unfold step, res_of. cbn [exec]. unfold do_try_send, gate_s. cbn. rewrite Hs, Hf.
  destruct c, (cdrop s) eqn:Ec; cbn; try (split; [discriminate | intros (_ & A & B); discriminate]).
  destruct (length (q s) <? cap s) eqn:E; cbn; b2p.
  - split; auto.
  - split; [discriminate | intros (A & _); lia].
Qed.

(* and when it succeeds / fails: the effect on the queue *)
Theorem spsc_try_send_effect cf s :
  let '(s', (r, _)) := step cf s TrySend in
  match r with
  | ROk => q s' = q s ++ [next s] /\ accepted s' = accepted s ++ [next s]
  | RFull v | RClosedV v => v = next s /\ q s' = q s /\ accepted s' = accepted s /\ returned s' = returned s ++ [v]
  | _ => s' = set_ev [] s
  end.
Proof.
  unfold step. cbn [exec]. unfold do_try_send, gate_s. cbn.
  repeat (split1; cbn); unf_prims; cbn; auto.
Qed.

(* the observers are exact *)
Theorem spsc_observers cf s k c :
  sh s = HLive k c -> sf s = None ->
  res_of (step cf s ObsS) =
    RObs (length (q s)) (length (q s) =? 0) (cap s <=? length (q s)) (c || cdrop s) (cap s).
Proof.
  intros Hs Hf. unfold step, res_of. cbn [exec]. unfold do_obs_s, gate_s. cbn. rewrite Hs, Hf. reflexivity.
Qed.

(* batch sends: what was sent and what was handed back are the input, in order *)
Theorem spsc_try_send_batch_effect cf s n :
  let '(s', (r, _)) := step cf s (TrySendBatch n) in
  match r with
  | ROkN m => m = n /\ q s' = q s ++ seq (next s) n /\ accepted s' = accepted s ++ seq (next s) n
  | RTryBatchErr sent unsent _ =>
      exists done, done ++ unsent = seq (next s) n /\ length done = sent /\
                   q s' = q s ++ done /\ accepted s' = accepted s ++ done /\ returned s' = returned s ++ unsent
  | _ => s' = set_ev [] s
  end.
Proof.
  unfold step. cbn [exec]. unfold do_try_send_batch, gate_s, free. cbn.
  repeat (split1; cbn); unf_prims; cbn; auto; b2p.
  - repeat split; rewrite ?app_nil_r; reflexivity.
  - exists []. cbn. repeat split; rewrite ?app_nil_r; reflexivity.
  - rewrite Heqb0. rewrite firstn_all2 by (rewrite seq_length; lia). auto.
  - eexists. repeat split; [apply firstn_skipn | rewrite firstn_length, seq_length; lia].
Qed.

(* a pending async send is pending because the channel is full *)
Theorem spsc_pending_send_means_full cf c k ops w :
  let s := reach cf c k ops in
  s_pend s = Some w -> s_woken s = false -> length (q s) = cap s.
Proof.
  intros s Hp Hw. destruct (reach_inv cf c k ops) as (_ & _ & HS & _).
  exact (proj1 (proj2 (s_spw _ HS _ Hp Hw))).
Qed.

(* ---------- C06 : wake-ups and cancellation *)
Definition is_ready (r : res) : bool :=
  match r with RPending | RBusy | RGone | RNA | RNoFut => false | _ => true end.

(* sender side: a future whose last poll returned Pending and that could now complete has been woken *)
Theorem spsc_wake_sender_inv cf s :
  Inv s -> forall w0, s_pend s = Some w0 ->
  (exists w, is_ready (res_of (step cf s (PollS w))) = true) -> s_woken s = true.
Proof.
  intros (HD & HK & HS & HR) w0 Hp [w Hr].
  destruct (s_woken s) eqn:Ew; [reflexivity|exfalso].
  destruct (s_sp _ HS _ Hp) as (f & k & Hf & Hne & Hh).
  destruct (s_spw _ HS _ Hp Ew) as (Hpw & Hlen & Hcd).
  revert Hr. unfold step, res_of. cbn [exec]. unfold do_poll_s, free. cbn. rewrite Hh, Hf, Hcd. cbn.
  destruct f as [v|rest sent|items sent]; cbn in *.
  - replace (length (q s) <? cap s) with false by (symmetry; apply Nat.ltb_ge; lia). cbn. discriminate.
  - destruct rest as [|a rest]; [congruence|].
    replace (cap s - length (q s)) with 0 by lia. rewrite Nat.min_0_r. cbn. discriminate.
  - destruct items as [|a items]; [congruence|].
    replace (cap s - length (q s)) with 0 by lia. rewrite Nat.min_0_r. cbn. discriminate.
Qed.

Definition closed_of (h : hst) : bool := match h with HLive _ c => c | HGone => false end.

(* receiver side (recv / recv_batch futures and Stream::poll_next); the obligation belongs to the most
   recent Pending poll on the receiver (`r_pend`), and a receiver that closed itself is excluded *)
Theorem spsc_wake_receiver_inv cf s :
  Inv s -> forall o w0, r_pend s = Some (o, w0) -> closed_of (rh s) = false ->
  (exists w, is_ready (res_of (step cf s (match o with OFut => PollR w | OStream => StreamNext w end))) = true) ->
  r_woken s = true.
Proof.
  intros (HD & HK & HS & HR) o w0 Hp Hcl [w Hr].
  destruct (r_woken s) eqn:Ew; [reflexivity|exfalso].
  destruct (r_pw _ HR _ _ Hp Ew) as (Hcw & Hq & Hsc & Hb).
  revert Hr. unfold step, res_of. destruct o; cbn [exec].
  - destruct (r_pf _ HR _ Hp) as (f & k & Hf & Hh & Hm).
    unfold do_poll_r, senders_alive. cbn. rewrite Hh, Hf, Hq. cbn.
    replace (scount s =? 0)%Z with false by (symmetry; apply Z.eqb_neq; exact Hsc). cbn.
    destruct f as [|m]; cbn; [discriminate|].
    destruct m as [|m]; [exfalso; apply (Hm 0); reflexivity|].
    rewrite (Hb eq_refl _ _ Hf). cbn. discriminate.
  - pose proof (r_ps _ HR _ Hp) as Hreg. destruct (r_rreg _ HR Hreg) as [c Hh].
    unfold do_stream_next, gate_r, senders_alive. cbn. rewrite Hh in *. cbn in Hcl. subst c.
    destruct (rf s); cbn; [discriminate|]. rewrite Hq. cbn.
    replace (scount s =? 0)%Z with false by (symmetry; apply Z.eqb_neq; exact Hsc). cbn. discriminate.
Qed.

Theorem spsc_wake_sender cf c k ops w0 :
  let s := reach cf c k ops in
  s_pend s = Some w0 ->
  (exists w, is_ready (res_of (step cf s (PollS w))) = true) -> s_woken s = true.
Proof. cbn. intros. eapply spsc_wake_sender_inv; eauto. apply reach_inv. Qed.

Theorem spsc_wake_receiver cf c k ops o w0 :
  let s := reach cf c k ops in
  r_pend s = Some (o, w0) -> closed_of (rh s) = false ->
  (exists w, is_ready (res_of (step cf s (match o with OFut => PollR w | OStream => StreamNext w end))) = true) ->
  r_woken s = true.
Proof. cbn. intros. eapply spsc_wake_receiver_inv; eauto. apply reach_inv. Qed.

(* no registration outlives its future (no dangling pointer to a dropped future): a waker in a slot
   belongs to a live registered future or to the live async receiver's Stream registration *)
Theorem spsc_no_dangling_inv s :
  Inv s ->
  (forall w, pw s = Some w -> s_pend s = Some w /\ exists f, sf s = Some (f, true)) /\
  (forall w, cw s = Some w ->
     (exists f, rf s = Some (f, true)) \/ (rreg s = true /\ exists c, rh s = HLive KAsync c)).
Proof.
  intros (HD & HK & HS & HR). split.
  - intros w Hw. pose proof (s_pw _ HS _ Hw) as Hp. split; [exact Hp|].
    destruct (s_sp _ HS _ Hp) as (f & k & Hf & _). eauto.
  - intros w Hw. destruct (r_cw _ HR _ Hw) as [H|H]; [left; exact H|right].
    split; [exact H | apply (r_rreg _ HR H)].
Qed.

Theorem spsc_no_dangling cf c k ops :
  let s := reach cf c k ops in
  (forall w, pw s = Some w -> s_pend s = Some w /\ exists f, sf s = Some (f, true)) /\
  (forall w, cw s = Some w ->
     (exists f, rf s = Some (f, true)) \/ (rreg s = true /\ exists c, rh s = HLive KAsync c)).
Proof. cbn. apply spsc_no_dangling_inv, reach_inv. Qed.

(* dropping a future leaves no registration of that side's futures behind *)
Theorem spsc_drop_future_unregisters cf s :
  Inv s ->
  pw (fst (step cf s DropFutS)) = None /\
  (forall w, cw (fst (step cf s DropFutR)) = Some w -> rreg s = true).
Proof.
  intros (HD & HK & HS & HR). unfold step. cbn [exec]. unfold do_dropfut_s, do_dropfut_r. cbn. split.
  - destruct (sf s) as [[f reg]|] eqn:Ef; cbn.
    + destruct f; unf_prims; cbn; destruct reg; auto;
        destruct (pw s) eqn:Ep; auto; pose proof (s_pw _ HS _ Ep) as Hp;
        destruct (s_sp _ HS _ Hp) as (f' & k & Hf & _); congruence.
    + destruct (pw s) eqn:Ep; auto. pose proof (s_pw _ HS _ Ep) as Hp.
      destruct (s_sp _ HS _ Hp) as (f' & k & Hf & _); congruence.
  - intros w. destruct (rf s) as [[f reg]|] eqn:Ef; unf_prims; cbn.
    + destruct reg; [discriminate|]. intros Hw.
      destruct (r_cw _ HR _ Hw) as [[f' Hf]|H]; [congruence|exact H].
    + intros Hw. destruct (r_cw _ HR _ Hw) as [[f' Hf]|H]; [congruence|exact H].
Qed.

(* ---------- C04 (clauses that hold for every cfg) *)
Definition is_recv_op (o : op) : bool :=
  match o with
  | TryRecv | Recv | RecvTimeout | TryRecvBatch _ | RecvBatch _ | PollR _ | StreamNext _ => true
  | _ => false
  end.
Definition is_send_op (o : op) : bool :=
  match o with
  | TrySend | Send | TrySendBatch _ | SendBatch _ | TrySendBatchMut _ | SendBatchMut _ => true
  | _ => false
  end.
Definition is_disc (r : res) : bool := match r with RDisc | RNone => true | _ => false end.

(* a receiver that did not close itself is told Disconnected only after it has received every accepted id *)
Theorem spsc_drain_before_disc cf s o k :
  Inv s -> rh s = HLive k false -> is_recv_op o = true ->
  is_disc (res_of (step cf s o)) = true -> accepted s = received s.
Proof.
  intros (HD & _) Hh Ho. pose proof (d_fifo _ HD) as F.
  assert (Hdr : drained s = []) by (apply (d_alive _ HD); unfold alive; rewrite Hh; destruct (sh s); reflexivity).
  rewrite Hdr, app_nil_r in F.
  unfold step, res_of. destruct o; try discriminate Ho; cbn [exec]; unf_ops; cbn; rewrite Hh; cbn;
    repeat (split1; cbn); try discriminate; intros _;
    repeat match goal with H : q _ = [] |- _ => rewrite H in F end; rewrite ?app_nil_r in F; exact F.
Qed.

(* what "rejected" means for a send form: nothing is accepted, the queue is untouched, and the result is a
   Closed-class error (or the op was not executed at all / an empty batch) *)
Definition closed_class (r : res) : bool :=
  match r with
  | RClosedV _ | RClosed | RTryBatchErr _ _ true | RBatchErr _ _ | RMutClosed _
  | RGone | RBusy | RNA | RNoFut => true
  | ROkN 0 | RMutOk _ [] => true          (* empty batch / already completed batch future *)
  | _ => false
  end.

(* after the receiver was closed or dropped every send form fails with Closed and accepts nothing *)
Theorem spsc_send_after_receiver_left cf s o :
  cdrop s = true -> is_send_op o = true ->
  closed_class (res_of (step cf s o)) = true /\
  accepted (fst (step cf s o)) = accepted s /\ q (fst (step cf s o)) = q s.
Proof.
  intros Hc Ho. unfold step, res_of.
  destruct o; try discriminate Ho; cbn [exec]; unf_ops; cbn; rewrite ?Hc, ?orb_true_r; cbn;
    repeat (split1; cbn; rewrite ?Hc, ?orb_true_r; cbn); unf_prims; cbn; auto.
Qed.

(* a send future polled after the receiver left resolves at once, accepts nothing more, and reports Closed
   (or Ok for a batch that had already been written completely / was empty) *)
Theorem spsc_poll_after_receiver_left cf s w :
  cdrop s = true ->
  (closed_class (res_of (step cf s (PollS w))) = true \/ exists n, res_of (step cf s (PollS w)) = ROkN n) /\
  accepted (fst (step cf s (PollS w))) = accepted s /\ q (fst (step cf s (PollS w))) = q s.
Proof.
  intros Hc. unfold step, res_of. cbn [exec]; unf_ops; cbn; rewrite ?Hc, ?orb_true_r; cbn;
    repeat (split1; cbn; rewrite ?Hc, ?orb_true_r; cbn); unf_prims; cbn; eauto.
Qed.

(* ... and the values come back: try_send returns its value, batches their whole input *)
Theorem spsc_closed_hands_back cf s :
  cdrop s = true -> forall k c, sh s = HLive k c -> sf s = None ->
  res_of (step cf s TrySend) = RClosedV (next s) /\
  (forall n, n <> 0 -> res_of (step cf s (TrySendBatch n)) = RTryBatchErr 0 (seq (next s) n) true) /\
  (forall n, n <> 0 -> res_of (step cf s (TrySendBatchMut n)) = RMutClosed (seq (next s) n)).
Proof.
  intros Hc k c Hs Hf. unfold step, res_of. cbn [exec]. unf_ops. cbn. rewrite Hs, Hf, Hc, orb_true_r. cbn.
  repeat split; intros n Hn; destruct n; try congruence; reflexivity.
Qed.

(* cdrop is exactly "the receiver endpoint was closed or dropped"; pdrop likewise *)
Theorem spsc_flags_inv s :
  Inv s -> cdrop s = r_ever s || is_gone (rh s) /\ pdrop s = s_ever s || is_gone (sh s).
Proof. intros (_ & HK & _). split; [apply (k_cdrop _ HK) | apply (k_pdrop _ HK)]. Qed.

(** * The repaired code (cfg_fixed): the full C04 statement *)
Record InvF (s : st) : Prop := {
  f_s : forall k c, sh s = HLive k c -> c = s_ever s;
  f_r : forall k c, rh s = HLive k c -> c = r_ever s;
  f_sc : scount s = if s_ever s || is_gone (sh s) then 0%Z else 1%Z;
  f_disc : rdisc s = true -> (r_ever s || is_gone (rh s)) = true \/ (q s = [] /\ scount s = 0%Z)
}.

Ltac ffin Hpdrop Hfs Hfr Hsc Hdisc :=
  intros; kinds; unfold alive, senders_alive in *; unf_prims; cbn in *;
  try match goal with H : sh _ = HLive _ _ |- _ => first [pose proof (Hfs _ _ H) | pose proof (Hfs _ _ eq_refl)] end;
  try match goal with H : rh _ = HLive _ _ |- _ => first [pose proof (Hfr _ _ H) | pose proof (Hfr _ _ eq_refl)] end;
  try match goal with H : rdisc _ = true |- _ =>
        let X := fresh in pose proof (Hdisc H) as X; destruct X as [?|[? ?]] end;
  hrw; cbn in *;
  repeat (split1; cbn in * ); hyps_ifs; orbs; cbn in *;
  repeat match goal with H : HLive _ _ = HLive _ _ |- _ => inversion H; clear H; subst end;
  subst; cbn in *; rewrite ?andb_true_r, ?andb_false_r, ?orb_false_r, ?orb_true_r in *;
  try discriminate; try congruence;
  b2p; z2p; subst; cbn in *;
  try discriminate; try congruence; try lia; auto;
  try solve [eapply Hfs; first [reflexivity | eassumption]];
  try solve [eapply Hfr; first [reflexivity | eassumption]];
  try solve [left; first [reflexivity | assumption | rewrite ?orb_true_r; reflexivity]];
  try solve [right; split; first [reflexivity | assumption | lia | congruence]];
  try solve [left; match goal with H : _ \/ _ |- _ => destruct H as [E|E]; rewrite E; rewrite ?orb_true_r; reflexivity end].

Lemma invf_exec s o : Inv s -> InvF s -> InvF (fst (exec cfg_fixed s o)).
Proof.
  intros (HD & HK & HS & HR) [Hfs Hfr Hsc Hdisc].
  pose proof (k_pdrop _ HK) as Hpdrop.
  destruct o; cbn [exec]; unf_ops; cbn.
  all: repeat (split1; cbn).
  all: try (constructor; assumption).
  all: constructor; ffin Hpdrop Hfs Hfr Hsc Hdisc.
Qed.

Lemma invf_init c k : InvF (init c k).
Proof. constructor; cbn; intros; try congruence; auto. Qed.

Lemma invf_set_ev e s : InvF s -> InvF (set_ev e s).
Proof. intros [A B C D]. constructor; cbn; assumption. Qed.

Lemma invf_step s o : Inv s -> InvF s -> InvF (fst (step cfg_fixed s o)).
Proof.
  intros H HF. unfold step.
  destruct (exec cfg_fixed (set_ev [] s) o) as [s1 r] eqn:E. cbn.
  replace s1 with (fst (exec cfg_fixed (set_ev [] s) o)) by (rewrite E; reflexivity).
  apply invf_exec; [apply inv_set_ev; exact H | apply invf_set_ev; exact HF].
Qed.

Lemma invf_run ops : forall s, Inv s -> InvF s -> InvF (fst (run cfg_fixed s ops)).
Proof.
  induction ops as [|o r IH]; intros s H HF; cbn [run]; [exact HF|].
  pose proof (inv_step cfg_fixed s o H) as H1. pose proof (invf_step s o H HF) as HF1.
  destruct (step cfg_fixed s o) as [s1 x]. cbn in *.
  specialize (IH s1 H1 HF1). destruct (run cfg_fixed s1 r). exact IH.
Qed.

Lemma reach_invf c k ops : InvF (reach cfg_fixed c k ops).
Proof. apply invf_run; [apply inv_init | apply invf_init]. Qed.

Definition no_value (r : res) : bool :=
  match r with RVal _ => false | RVals (_ :: _) => false | _ => true end.

(* The four C04 clauses that the code as it is violates, as statements about an arbitrary cfg *)
Definition C04_closed_sender_rejects (cf : cfg) : Prop :=
  forall c k ops o, let s := reach cf c k ops in
  s_ever s = true -> is_send_op o = true ->
  closed_class (res_of (step cf s o)) = true /\ accepted (fst (step cf s o)) = accepted s.
Definition C04_closed_receiver_rejects (cf : cfg) : Prop :=
  forall c k ops o, let s := reach cf c k ops in
  r_ever s = true -> no_value (res_of (step cf s o)) = true /\ received (fst (step cf s o)) = received s.
Definition C04_close_idempotent (cf : cfg) : Prop :=
  forall c k ops, let s := reach cf c k ops in
  (s_ever s = true -> res_of (step cf s CloseS) <> ROk) /\
  (r_ever s = true -> res_of (step cf s CloseR) <> ROk).
Definition C04_disc_when_drained (cf : cfg) : Prop :=
  forall c k ops kk, let s := reach cf c k ops in
  s_ever s || is_gone (sh s) = true -> q s = [] -> rh s = HLive kk false -> rf s = None ->
  res_of (step cf s TryRecv) = RDisc.
Definition C04_no_value_after_disc (cf : cfg) : Prop :=
  forall c k ops o, let s := reach cf c k ops in
  rdisc s = true -> no_value (res_of (step cf s o)) = true.
Definition C04_full (cf : cfg) : Prop :=
  C04_closed_sender_rejects cf /\ C04_closed_receiver_rejects cf /\ C04_close_idempotent cf /\
  C04_disc_when_drained cf /\ C04_no_value_after_disc cf.

Lemma fixed_closed_sender_rejects : C04_closed_sender_rejects cfg_fixed.
Proof.
  intros c k ops o s He Ho. subst s.
  pose proof (reach_invf c k ops) as HF. set (s := reach cfg_fixed c k ops) in *.
  unfold step, res_of.
  destruct o; try discriminate Ho; cbn [exec]; unf_ops; cbn;
    destruct (sh s) eqn:Es; cbn; auto;
    rewrite <- (f_s _ HF _ _ Es) in He; subst; cbn;
    repeat (split1; cbn); unf_prims; cbn; auto.
Qed.

Lemma fixed_closed_receiver_rejects : C04_closed_receiver_rejects cfg_fixed.
Proof.
  intros c k ops o s He. subst s.
  pose proof (reach_invf c k ops) as HF. set (s := reach cfg_fixed c k ops) in *.
  unfold step, res_of.
  destruct o; cbn [exec]; unf_ops; cbn;
    repeat (split1; cbn); unf_prims; cbn; auto;
    try (match goal with H : rh s = HLive _ _ |- _ => pose proof (f_r _ HF _ _ H) end; congruence).
Qed.

Lemma fixed_close_idempotent : C04_close_idempotent cfg_fixed.
Proof.
  intros c k ops s. subst s.
  pose proof (reach_invf c k ops) as HF. set (s := reach cfg_fixed c k ops) in *.
  unfold step, res_of. cbn [exec]. unf_ops. cbn. split; intros He.
  - destruct (sh s) eqn:Es; cbn; try discriminate. rewrite <- (f_s _ HF _ _ Es) in He. subst.
    destruct (sf s); cbn; discriminate.
  - destruct (rh s) eqn:Es; cbn; try discriminate. rewrite <- (f_r _ HF _ _ Es) in He. subst.
    destruct (rf s); cbn; discriminate.
Qed.

Lemma fixed_disc_when_drained : C04_disc_when_drained cfg_fixed.
Proof.
  intros c k ops kk s He Hq Hr Hf. subst s.
  pose proof (reach_invf c k ops) as HF. set (s := reach cfg_fixed c k ops) in *.
  unfold step, res_of. cbn [exec]. unfold do_recv1, gate_r, senders_alive. cbn.
  rewrite Hr, Hf, Hq. cbn. rewrite (f_sc _ HF), He. reflexivity.
Qed.

Lemma fixed_no_value_after_disc : C04_no_value_after_disc cfg_fixed.
Proof.
  intros c k ops o s Hd. subst s.
  pose proof (reach_invf c k ops) as HF. set (s := reach cfg_fixed c k ops) in *.
  destruct (f_disc _ HF Hd) as [Hc|[Hq Hs]].
  - unfold step, res_of.
    destruct o; cbn [exec]; unf_ops; cbn;
      repeat (split1; cbn); unf_prims; cbn; auto;
      try (match goal with H : rh s = HLive _ _ |- _ => pose proof (f_r _ HF _ _ H) as E; rewrite ?H in Hc; rewrite <- E in Hc end;
           cbn in Hc; rewrite ?orb_false_r in Hc; discriminate).
  - unfold step, res_of.
    destruct o; cbn [exec]; unf_ops; cbn; rewrite ?Hq; cbn;
      repeat (split1; cbn; rewrite ?Hq; cbn); unf_prims; cbn; auto; congruence.
Qed.

Theorem spsc_fixed_C04_full : C04_full cfg_fixed.
Proof.
  unfold C04_full. split; [|split; [|split; [|split]]].
  - apply fixed_closed_sender_rejects.
  - apply fixed_closed_receiver_rejects.
  - apply fixed_close_idempotent.
  - apply fixed_disc_when_drained.
  - apply fixed_no_value_after_disc.
Qed.

(** * The code as it is (cfg_repo): refutations by explicit witnesses, and what holds instead *)

(* F-03-spsc: tx.close(); tx.send_batch(vec![a,b]) is accepted *)
Theorem spsc_repo_closed_sender_rejects_refuted_F03 : ~ C04_closed_sender_rejects cfg_repo.
Proof.
  intros H. specialize (H 2 KSync [CloseS] (SendBatch 2) eq_refl eq_refl).
  vm_compute in H. destruct H as [H _]. discriminate H.
Qed.

(* ... and it is the send_batch guard alone that is missing: with the conversions repaired but not the
   guard the clause is still false, with the guard but not the conversions it is still false (F-07) *)
Theorem spsc_closed_sender_rejects_needs_f03 :
  ~ C04_closed_sender_rejects {| fix_f03 := false; fix_conv := true |}.
Proof.
  intros H. specialize (H 2 KSync [CloseS] (SendBatch 2) eq_refl eq_refl).
  vm_compute in H. destruct H as [H _]. discriminate H.
Qed.

(* F-07-spsc: tx.close(); let tx = tx.to_async(); tx.try_send(v) is accepted *)
Theorem spsc_repo_closed_sender_rejects_refuted_F07 :
  ~ C04_closed_sender_rejects {| fix_f03 := true; fix_conv := false |}.
Proof.
  intros H. specialize (H 2 KSync [CloseS; ConvS] TrySend eq_refl eq_refl).
  vm_compute in H. destruct H as [H _]. discriminate H.
Qed.

(* F-07-spsc: rx.close(); rx.to_async().try_recv() returns a buffered value *)
Theorem spsc_repo_closed_receiver_rejects_refuted_F07 : ~ C04_closed_receiver_rejects cfg_repo.
Proof.
  intros H. specialize (H 2 KSync [TrySend; CloseR; ConvR] TryRecv eq_refl).
  vm_compute in H. destruct H as [H _]. discriminate H.
Qed.

(* F-07-spsc: close(); to_async(); close() returns Ok a second time (and decrements the count again) *)
Theorem spsc_repo_close_idempotent_refuted_F07 : ~ C04_close_idempotent cfg_repo.
Proof.
  intros H. destruct (H 2 KSync [CloseS; ConvS]) as [H1 _]. apply H1; reflexivity.
Qed.

(* F-07-spsc: after close(); to_async(); drop the sender count is -1 (usize::MAX): the receiver never sees
   Disconnected although every sender is gone and the channel is drained *)
Theorem spsc_repo_disc_when_drained_refuted_F07 : ~ C04_disc_when_drained cfg_repo.
Proof.
  intros H. specialize (H 2 KSync [CloseS; ConvS; DropS] KSync eq_refl eq_refl eq_refl eq_refl).
  vm_compute in H. discriminate H.
Qed.

(* F-03-spsc / F-07-spsc: a value arrives after the receiver was told Disconnected *)
Theorem spsc_repo_no_value_after_disc_refuted_F03 : ~ C04_no_value_after_disc cfg_repo.
Proof.
  intros H. specialize (H 2 KSync [CloseS; TryRecv; SendBatch 1] TryRecv eq_refl).
  vm_compute in H. discriminate H.
Qed.

Theorem spsc_repo_C04_full_refuted : ~ C04_full cfg_repo.
Proof. intros (H & _). exact (spsc_repo_closed_sender_rejects_refuted_F03 H). Qed.

(* What holds of the code as it is: on every history that never (F-03) calls the sync send_batch on a
   sender whose own closed flag is set and never (F-07) converts a handle whose closed flag is set, the
   code behaves exactly like the repaired code - so the full C04 theorem applies to it. *)
Definition trigger (s : st) (o : op) : bool :=
  match o with
  | SendBatch _ => match sh s with HLive _ true => true | _ => false end
  | ConvS => match sh s with HLive _ true => true | _ => false end
  | ConvR => match rh s with HLive _ true => true | _ => false end
  | _ => false
  end.

Fixpoint trig_free (s : st) (ops : list op) : Prop :=
  match ops with
  | [] => True
  | o :: r => trigger s o = false /\ trig_free (fst (step cfg_fixed s o)) r
  end.

Lemma exec_same cf s o : trigger s o = false -> exec cf s o = exec cfg_fixed s o.
Proof.
  destruct o; cbn [exec trigger]; try reflexivity; intros H.
  - unfold do_send_batch, gate_s. destruct (sh s) as [|k c]; [reflexivity|]. destruct c; [discriminate|].
    rewrite !andb_false_r. reflexivity.
  - unfold do_conv_s, gate_s. destruct (sh s) as [|k c]; [reflexivity|]. destruct c; [discriminate|].
    destruct (fix_conv cf); reflexivity.
  - unfold do_conv_r, gate_r. destruct (rh s) as [|k c]; [reflexivity|]. destruct c; [discriminate|].
    destruct (fix_conv cf); reflexivity.
Qed.

Lemma trigger_ev e s o : trigger (set_ev e s) o = trigger s o.
Proof. destruct o; reflexivity. Qed.

Lemma run_same cf ops : forall s, trig_free s ops -> run cf s ops = run cfg_fixed s ops.
Proof.
  induction ops as [|o r IH]; intros s H; cbn [run]; [reflexivity|].
  destruct H as [H1 H2].
  assert (E : step cf s o = step cfg_fixed s o).
  { unfold step. rewrite (exec_same cf (set_ev [] s) o); [reflexivity|]. rewrite trigger_ev. exact H1. }
  rewrite E. destruct (step cfg_fixed s o) as [s1 x]. cbn in H2. rewrite (IH s1 H2). reflexivity.
Qed.

Theorem spsc_repo_except_F03_F07 c k ops :
  trig_free (init c k) ops ->
  run cfg_repo (init c k) ops = run cfg_fixed (init c k) ops.
Proof. apply run_same. Qed.

(* ---------- C06, strict per-poll form for Stream::poll_next, and its refutation (F-33-spsc) *)
Definition C06_stream_strict (cf : cfg) : Prop :=
  forall c k ops w0, let s := reach cf c k ops in
  st_pend s = Some w0 -> closed_of (rh s) = false ->
  (exists w, is_ready (res_of (step cf s (StreamNext w))) = true) -> st_woken s = true.

(* poll_next(w1) Pending; a recv() future polled with w2 replaces the registration, its drop clears it;
   a send then wakes nobody although poll_next would now return a value *)
Theorem spsc_stream_strict_refuted_F33 cf : ~ C06_stream_strict cf.
Proof.
  intros H.
  specialize (H 2 KAsync [StreamNext 1; MkRecv; PollR 2; DropFutR; TrySend] 1).
  assert (E : reach cf 2 KAsync [StreamNext 1; MkRecv; PollR 2; DropFutR; TrySend]
              = reach cfg_repo 2 KAsync [StreamNext 1; MkRecv; PollR 2; DropFutR; TrySend]).
  { unfold reach. rewrite (run_same cf), (run_same cfg_repo); [reflexivity| |]; cbn; auto 10. }
  cbn zeta in H. rewrite E in H.
  assert (X : st_woken (reach cfg_repo 2 KAsync [StreamNext 1; MkRecv; PollR 2; DropFutR; TrySend]) = true).
  { apply H; [reflexivity | reflexivity |]. exists 0.
    unfold step. rewrite (exec_same cf), <- (exec_same cfg_repo) by reflexivity. reflexivity. }
  vm_compute in X. discriminate X.
Qed.

(* what holds instead is spsc_wake_receiver_inv: the obligation follows the most recent Pending poll on
   the receiver; in particular a Stream poll that no later future poll has superseded is woken *)
Theorem spsc_stream_except_F33 cf c k ops w0 :
  let s := reach cf c k ops in
  r_pend s = Some (OStream, w0) -> closed_of (rh s) = false ->
  (exists w, is_ready (res_of (step cf s (StreamNext w))) = true) -> r_woken s = true.
Proof.
  cbn. intros Hp Hc Hr. exact (spsc_wake_receiver_inv cf _ (reach_inv cf c k ops) OStream w0 Hp Hc Hr).
Qed.
