(* Proofs/OneshotK3Life.v — lifecycle invariant of the K3 oneshot model (flags, state-machine ownership,
   counters), for every cfg, every number of senders, all programs and schedules. *)
From Coq Require Import List Arith Bool Lia.
From Fibre Require Import Common.Conc Chan.OneshotK3 Proofs.OneshotK3Base.
Import ListNotations.

Section Life.
  Variable C : cfg.
  Variable n : nat.
  Variable sprog : nat -> sop.

  Definition inr (t : nat) : Prop := 1 <= t <= n.

  Record LInv (s : st) : Prop := mkLInv {
    l_rng : forall t, ~ inr t -> spc s t = SIdle;
    l_rd : rd s = true -> rclosed s = true \/ rfin (rpc s) = true;
    l_open : ropen (rpc s) = true -> rclosed s = false;
    l_w1 : forall t, writer (spc s t) = true -> cs s = Writing;
    l_wu : forall t u, writer (spc s t) = true -> writer (spc s u) = true -> t = u;
    l_w3 : cs s = Writing -> exists t, inr t /\ writer (spc s t) = true;
    l_dcas2 : forall t, spc s t = DCas2 -> rd s = true;
    l_tk : forall t, spc s t = DLock -> cs s = Taken;
    l_tkr : rtaker (rpc s) = true -> cs s = Taken;
    l_tku1 : rtaker (rpc s) = true -> forall t, spc s t <> DLock;
    l_tku2 : forall t u, spc s t = DLock -> spc s u = DLock -> t = u;
    l_tcas : forall c, rpc s = TCas c -> cs s = Sent;
    l_unr : forall c, rpc s <> TFLoad c /\ rpc s <> TFCnt c;
    l_abs : rpc s = PCntA -> cs s = Taken \/ cs s = Closed;
    l_tclose : (rpc s = PClose \/ exists c, rpc s = TClose c) -> cnt s = 0;
    l_last : forall t, lastz (spc s t) = true -> cnt s = 0;
    l_cnt : cnt s = cntf (fun t => pre_fsub (spc s t)) n;
    l_arc : arc s = (if rrel (rpc s) then 0 else 1) + cntf (fun t => negb (srel (spc s t))) n;
    l_sh1 : rpc s = RShLoad -> arc s = 0 /\ forall t, spc s t <> SShLoad;
    l_sh2 : forall t, spc s t = SShLoad -> arc s = 0 /\ forall u, spc s u = SShLoad -> t = u
  }.

  Lemma LInv_init rp : LInv (init n rp).
  Proof.
    constructor; cbn; intros; try discriminate; try congruence; auto.
    - rewrite (cntf_ext (fun _ => true) (fun _ => true)) by reflexivity.
      induction n; cbn; congruence.
    - f_equal. induction n; cbn; congruence.
    - destruct H. discriminate. destruct H. discriminate.
  Qed.
End Life.
