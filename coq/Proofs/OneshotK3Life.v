(* Proofs/OneshotK3Life.v — lifecycle invariant of the K3 oneshot model (handle flags, state-machine
   ownership, sender_count / Arc counting, unreachable branches), for every cfg, every number of
   senders, all programs and all schedules. *)
From Coq Require Import List Arith Bool Lia.
From Fibre Require Import Common.Conc Chan.OneshotK3 Proofs.OneshotK3Base.
Import ListNotations.

Section Life.
  Variable C : cfg.
  Variable n : nat.
  Variable sprog : nat -> sop.

  Definition inr (t : nat) : Prop := 1 <= t <= n.

  Record LInv (s : st) : Prop := mkLInv {
    l_rng : forall t, ~ inr t -> spc s t = SIdle;
    l_rd : rd s = true -> rclosed s = true \/ rfin (rpc s) = true;
    l_open : ropen (rpc s) = true -> rclosed s = false;
    l_w1 : forall t, writer (spc s t) = true -> cs s = Writing;
    l_wu : forall t u, writer (spc s t) = true -> writer (spc s u) = true -> t = u;
    l_w3 : cs s = Writing -> exists t, inr t /\ writer (spc s t) = true;
    l_dcas2 : forall t, spc s t = DCas2 -> rd s = true;
    l_tk : forall t, spc s t = DLock -> cs s = Taken;
    l_tkr : rtakz (rpc s) = true -> cs s = Taken;
    l_tku1 : rtakz (rpc s) = true -> forall t, spc s t <> DLock;
    l_cl : rcl (rpc s) = true -> rclosed s = true;
    l_tku2 : forall t u, spc s t = DLock -> spc s u = DLock -> t = u;
    l_tcas : forall c, rpc s = TCas c -> cs s = Sent;
    l_unr : forall c, rpc s <> TFLoad c /\ rpc s <> TFCnt c;
    l_abs : rpc s = PCntA -> cs s = Taken \/ cs s = Closed;
    l_tclose : (rpc s = PClose \/ exists c, rpc s = TClose c) -> cnt s = 0;
    l_last : forall t, lastz (spc s t) = true -> cnt s = 0;
    l_cnt : cnt s = cntf (fun t => pre_fsub (spc s t)) n;
    l_arc : arc s = (if rrel (rpc s) then 0 else 1) + cntf (fun t => negb (srel (spc s t))) n;
    l_sh1a : rpc s = RShLoad -> arc s = 0;
    l_sh1b : rpc s = RShLoad -> forall t, spc s t <> SShLoad;
    l_sh2a : forall t, spc s t = SShLoad -> arc s = 0;
    l_sh2b : forall t u, spc s t = SShLoad -> spc s u = SShLoad -> t = u
  }.

  Lemma LInv_init rp : LInv (init n rp).
  Proof.
    constructor; cbn; intros; try discriminate; try congruence; auto.
    - split; discriminate.
    - destruct H as [H|[c H]]; discriminate.
    - induction n; cbn; congruence.
    - f_equal. induction n; cbn; congruence.
  Qed.



  Ltac fwd :=
    repeat match goal with
           | I : forall t, writer (spc ?s t) = true -> cs ?s = Writing, H : writer (spc ?s ?t) = true |- _ =>
               lazymatch goal with X : cs s = Writing |- _ => fail | _ => pose proof (I t H) end
           | I : forall t, spc ?s t = DLock -> cs ?s = Taken, H : spc ?s ?t = DLock |- _ =>
               lazymatch goal with X : cs s = Taken |- _ => fail | _ => pose proof (I t H) end
           | I : forall t, spc ?s t = DCas2 -> rd ?s = true, H : spc ?s ?t = DCas2 |- _ =>
               lazymatch goal with X : rd s = true |- _ => fail | _ => pose proof (I t H) end
           | I : forall t, lastz (spc ?s t) = true -> cnt ?s = 0, H : lastz (spc ?s ?t) = true |- _ =>
               lazymatch goal with X : cnt s = 0 |- _ => fail | _ => pose proof (I t H) end
           | I : forall t, spc ?s t = SShLoad -> arc ?s = 0, H : spc ?s ?t = SShLoad |- _ =>
               lazymatch goal with X : arc s = 0 |- _ => fail | _ => pose proof (I t H) end
           | I : forall u, writer (spc ?s u) = true -> ?t = u, H : writer (spc ?s ?u) = true |- _ =>
               lazymatch goal with X : t = u |- _ => fail | _ => pose proof (I u H) end
           | I : forall u, spc ?s u = DLock -> ?t = u, H : spc ?s ?u = DLock |- _ =>
               lazymatch goal with X : t = u |- _ => fail | _ => pose proof (I u H) end
           | I : forall u, spc ?s u = SShLoad -> ?t = u, H : spc ?s ?u = SShLoad |- _ =>
               lazymatch goal with X : t = u |- _ => fail | _ => pose proof (I u H) end
           | I : forall c, rpc ?s = TCas c -> cs ?s = Sent, H : rpc ?s = TCas ?c |- _ =>
               lazymatch goal with X : cs s = Sent |- _ => fail | _ => pose proof (I c H) end
           | I : forall c0, TCas ?c = TCas c0 -> _ |- _ => pose proof (I c eq_refl); clear I
           end.


  Ltac lsolve1 :=
    try discriminate; try congruence; try (exfalso; congruence); eauto; try lia;
    try (fwd; first [congruence | lia | (exfalso; congruence) | (intro; fwd; first [congruence|lia])]);
    try (intro; fwd; first [congruence|lia]).

  Ltac lsolve :=
    intros; fsimpl; pcsimpl; spec_refl;
    repeat match goal with
           | I : ?P -> _, H : ?P |- _ => match type of P with Prop => specialize (I H) end
           end;
    repeat match goal with
           | H : _ \/ _ |- _ => destruct H as [H|H]
           | H : exists _, _ |- _ => destruct H as [? H]
           | H : _ /\ _ |- _ => destruct H
           end;
    repeat match goal with |- _ /\ _ => split end;
    intros; lsolve1.

  Ltac unreach :=
    try (exfalso;
         match goal with
         | I : forall c0 : tctx, TFLoad ?c <> TFLoad c0 /\ _ |- _ => exact (proj1 (I c) eq_refl)
         | I : forall c0 : tctx, TFCnt ?c <> TFLoad c0 /\ _ |- _ => exact (proj2 (I c) eq_refl)
         end).

  Lemma LInv_rstep s s' e : LInv s -> rstep C s = Some (s', e) -> LInv s'.
  Proof.
    intros I H. rstep_cases H; norm; try exact I;
    destruct I as [Irng Ird Iopen Iw1 Iwu Iw3 Idcas2 Itk Itkr Itku1 Icl Itku2 Itcas Iunr Iabs Itclose Ilast Icnt Iarc Ish1a Ish1b Ish2a Ish2b];
    repeat match goal with b : bool |- _ => destruct b end;
    rewrite ?Epc in *; pcsimpl; spec_refl; fwd; unreach.
    all: constructor; lsolve.
  Qed.


  Ltac splitvars :=
    repeat match goal with
           | u : nat |- _ => lazymatch goal with
                             | |- context [upd _ ?t0 _ u] => split_thr u t0
                             | H : context [upd _ ?t0 _ u] |- _ => split_thr u t0
                             end
           end.

  Ltac cntfix s t Ep :=
    try (rewrite (cntf_upd_same _ pre_fsub (spc s) t _ n) by (rewrite Ep; reflexivity));
    try (rewrite (cntf_upd_same _ (fun p => negb (srel p)) (spc s) t _ n) by (rewrite Ep; reflexivity)).

  Ltac w3 :=
    match goal with
    | |- exists u, inr u /\ writer (upd _ ?t _ u) = true =>
        first [ exists t; split; [assumption| rewrite upd_eq; reflexivity]
              | match goal with
                | H1 : writer (spc _ ?x) = true, Ep : spc _ t = _ |- _ =>
                    exists x; split; [assumption|];
                    destruct (Nat.eq_dec x t) as [->|?];
                    [ rewrite Ep in H1; discriminate H1 | rewrite upd_neq by assumption; exact H1 ]
                end ]
    end.

  Ltac lsolveS :=
    intros; fsimpl; pcsimpl; spec_refl;
    repeat match goal with
           | I : ?P -> _, H : ?P |- _ => match type of P with Prop => specialize (I H) end
           end;
    repeat match goal with
           | H : _ \/ _ |- _ => destruct H as [H|H]
           | H : exists _, _ |- _ => destruct H as [? H]
           | H : _ /\ _ |- _ => destruct H
           end;
    repeat match goal with |- _ /\ _ => split end;
    intros; splitvars;
    repeat match goal with H : rpc _ = _ |- _ => rewrite H in * end;
    pcsimpl; spec_refl;
    repeat match goal with
           | I : ?P -> _, H : ?P |- _ => match type of P with Prop => specialize (I H) end
           end;
    repeat match goal with
           | H : _ \/ _ |- _ => destruct H as [H|H]
           end;
    try w3; lsolve1.

  Lemma LInv_sstep s t s' e : inr t -> LInv s -> sstep sprog s t = Some (s', e) -> LInv s'.
  Proof.
    intros Rt I H. sstep_cases H; norm; try exact I;
    destruct I as [Irng Ird Iopen Iw1 Iwu Iw3 Idcas2 Itk Itkr Itku1 Icl Itku2 Itcas Iunr Iabs Itclose Ilast Icnt Iarc Ish1a Ish1b Ish2a Ish2b];
    repeat match goal with E : ?w = _ |- _ => is_var w; lazymatch type of w with wsite => subst w | tctx => subst w end end;
    pose proof (Iw1 t) as Iw1t;
    assert (Iwut : writer (spc s t) = true -> forall u, writer (spc s u) = true -> t = u) by (intros X u; exact (Iwu t u X));
    pose proof (Idcas2 t) as Idcas2t; pose proof (Itk t) as Itkt;
    assert (Itku2t : spc s t = DLock -> forall u, spc s u = DLock -> t = u) by (intros X u; exact (Itku2 t u X));
    pose proof (Ilast t) as Ilastt; pose proof (Ish2a t) as Ish2at;
    assert (Ish2bt : spc s t = SShLoad -> forall u, spc s u = SShLoad -> t = u) by (intros X u; exact (Ish2b t u X));
    pose proof (fun (X : rtakz (rpc s) = true) => Itku1 X t) as Itku1t;
    cbv beta in *; rewrite Epc in *; pcsimpl; spec_refl.
    all: constructor; intros; fsimpl; cntfix s t Epc; splitvars; try (apply Iunr);
      rewrite ?Epc in *; lsolveS.
    all: try (match goal with
              | |- cnt ?s - 1 = cntf (fun u => pre_fsub (upd (spc ?s) ?t ?p u)) _ =>
                  pose proof (cntf_upd_dec _ pre_fsub (spc s) t p n Rt ltac:(rewrite Epc; reflexivity) eq_refl); lia
              | |- arc ?s - 1 = _ + cntf (fun u => negb (srel (upd (spc ?s) ?t ?p u))) _ =>
                  pose proof (cntf_upd_dec _ (fun q => negb (srel q)) (spc s) t p n Rt ltac:(cbv beta; rewrite Epc; reflexivity) eq_refl) as X; cbv beta in X; destruct (rrel (rpc s)); lia
              end).
  Qed.

  Lemma LInv_step s t c s' e : LInv s -> step C n sprog s t c = Some (s', e) -> LInv s'.
  Proof.
    intros I H. unfold step in H. destruct t as [|k].
    - exact (LInv_rstep _ _ _ I H).
    - destruct (Nat.leb (S k) n) eqn:L; [|discriminate].
      apply Nat.leb_le in L. apply (LInv_sstep s (S k) s' e); [unfold inr; lia|exact I|exact H].
  Qed.

  Theorem LInv_reachable rp s : reachable (sys C n sprog rp) s -> LInv s.
  Proof.
    apply (invariant_lift (sys C n sprog rp)).
    - apply LInv_init.
    - intros s0 t c s1 e I H. exact (LInv_step s0 t c s1 e I H).
  Qed.
End Life.

