(* Proofs/TopicOpsProofs.v — main theorems about the topic K2 model (all histories, all fix switches). *)
From Fibre Require Import Common.Base Chan.TopicOps Chan.TopicSpec Proofs.TopicLemmas Proofs.TopicInv
     Proofs.TopicInvRecv Proofs.TopicInvSub Proofs.TopicInvRx Proofs.TopicInvPub Proofs.TopicInvTx.

Theorem step_ok c o : step_ok_for c o.
Proof.
  destruct o.
  - apply ok_Publish.
  - apply ok_CloneS.
  - apply ok_CloseS.
  - apply ok_DropS.
  - apply ok_ConvS.
  - apply ok_observers. exact Logic.I.
  - apply ok_Subscribe.
  - apply ok_Unsubscribe.
  - apply ok_CloneR.
  - apply ok_CloseR.
  - apply ok_DropR.
  - apply ok_ConvR.
  - apply ok_TryRecv.
  - apply ok_RecvTimeout0.
  - apply ok_MkRecv.
  - apply ok_Poll.
  - apply ok_DropF.
  - apply ok_PollNext.
  - apply ok_observers. exact Logic.I.
  - apply ok_observers. exact Logic.I.
  - apply ok_observers. exact Logic.I.
Qed.

(* state of the model after a history *)
Definition state_from (c : cfg) (s : state) (h : list op) : state := fst (run_from c s h).

Lemma state_from_cons c s o h :
  state_from c s (o :: h) = state_from c (fst (step c s o)) h.
Proof.
  unfold state_from. cbn [run_from]. destruct (step c s o) as [s1 x]. cbn [fst].
  destruct (run_from c s1 h). reflexivity.
Qed.

Lemma spec_from_cons c s sp o h :
  spec_from c s sp (o :: h) =
  spec_from c (fst (step c s o)) (fst (sp_step sp o (fst (snd (step c s o))))) h.
Proof. cbn [spec_from]. destruct (step c s o) as [s1 [rs w]]. reflexivity. Qed.

(* every complaint of the reference is raised in a state that satisfies the invariant, and is of a kind
   that the invariant allows there *)
Lemma check_from_sound c : forall h s sp, Inv c s sp -> forall v, In v (check_from c s sp h) ->
  exists h1 h2, h = h1 ++ h2 /\ Inv c (state_from c s h1) (spec_from c s sp h1) /\ v_ok c (spec_from c s sp h1) v.
Proof.
  induction h as [|o h IH]; intros s sp I v Hv; [destruct Hv|].
  cbn [check_from] in Hv. destruct (step c s o) as [s1 [rs w]] eqn:Es.
  destruct (sp_step sp o rs) as [sp1 vs] eqn:Ep.
  destruct (step_ok c o s sp s1 rs w sp1 vs I Es Ep) as [I1 Hvs].
  apply in_app_or in Hv. destruct Hv as [Hv|Hv].
  - exists [], (o :: h). split; [reflexivity|]. split; [exact I | apply Hvs; exact Hv].
  - destruct (IH s1 sp1 I1 v Hv) as [h1 [h2 [E [I2 Hok]]]].
    exists (o :: h1), h2. split; [rewrite E; reflexivity|].
    rewrite state_from_cons, spec_from_cons, Es. cbn [fst snd]. rewrite Ep. cbn [fst]. auto.
Qed.

Lemma inv_after c a cap h : Inv c (state_from c (init a cap) h) (spec_after c a cap h).
Proof.
  unfold spec_after. generalize (inv_init c a cap). generalize (init a cap), (sp_init cap).
  induction h as [|o h IH]; intros s sp I; [exact I|].
  rewrite state_from_cons, spec_from_cons.
  destruct (step c s o) as [s1 [rs w]] eqn:Es. cbn [fst snd].
  destruct (sp_step sp o rs) as [sp1 vs] eqn:Ep. cbn [fst].
  apply IH. eapply step_ok; eauto.
Qed.

(** C08, routing *)
Theorem routing_postfix c : fix14 c = true ->
  forall a cap h r, ~ In (VRouting r) (violations c a cap h).
Proof.
  intros F14 a cap h r Hin. unfold violations in Hin.
  destruct (check_from_sound c h _ _ (inv_init c a cap) _ Hin) as [h1 [h2 [_ [_ Hok]]]].
  cbn in Hok. destruct Hok as [y [_ Hg]]. unfold good in Hg. rewrite F14 in Hg. discriminate.
Qed.

Theorem routing_except_F14 c a cap h r :
  In (VRouting r) (violations c a cap h) ->
  fix14 c = false /\
  exists h1 h2 y, h = h1 ++ h2 /\ find_srx r (sp_rx (spec_after c a cap h1)) = Some y /\ s_closed y = true.
Proof.
  intros Hin. unfold violations in Hin.
  destruct (check_from_sound c h _ _ (inv_init c a cap) _ Hin) as [h1 [h2 [E [_ Hok]]]].
  cbn in Hok. destruct Hok as [y [Hy Hg]]. unfold good in Hg. apply orb_false_iff in Hg. destruct Hg as [G1 G2].
  split; [exact G1|]. exists h1, h2, y. split; [exact E|]. split; [exact Hy|].
  apply negb_false_iff in G2. exact G2.
Qed.

(** C08, Disconnected only after every sender handle is gone *)
Theorem disc_sound_postfix c : fix04 c = true ->
  forall a cap h r, ~ In (VDiscLive r) (violations c a cap h).
Proof.
  intros F4 a cap h r Hin. unfold violations in Hin.
  destruct (check_from_sound c h _ _ (inv_init c a cap) _ Hin) as [h1 [h2 [_ [_ Hok]]]].
  cbn in Hok. unfold sg in Hok. rewrite F4 in Hok. discriminate.
Qed.

Definition not_clone_s (o : op) : Prop := match o with CloneS _ _ => False | _ => True end.

Lemma sp_recv_tx sp r rs : sp_tx (fst (sp_recv sp r rs)) = sp_tx sp.
Proof.
  unfold sp_recv. destruct (find_srx r (sp_rx sp)); [|reflexivity].
  destruct rs; try reflexivity.
  - destruct (s_q s); [reflexivity|]. destruct (msg_eqb m (t, v)); reflexivity.
  - destruct (s_q s); [|reflexivity]. destruct (negb (s_closed s) && negb (any_open sp)); reflexivity.
  - destruct (s_q s); [|reflexivity]. destruct (negb (s_closed s) && negb (any_open sp)); reflexivity.
  - destruct (s_q s); [|reflexivity]. destruct (negb (s_closed s) && negb (any_open sp)); reflexivity.
  - destruct (s_closed s); [reflexivity|]. destruct (s_q s); [|reflexivity]. destruct (any_open sp); reflexivity.
Qed.

Lemma after_sender_gone_tx sp : sp_tx (after_sender_gone sp) = sp_tx sp.
Proof. unfold after_sender_gone. destruct (any_open sp); reflexivity. Qed.

Lemma sp_step_single sp o rs : not_clone_s o -> length (sp_tx (fst (sp_step sp o rs))) = length (sp_tx sp).
Proof.
  intros Hn. destruct o; try contradiction; cbn [sp_step].
  - destruct rs; reflexivity.
  - destruct rs; try reflexivity. cbn [fst]. rewrite after_sender_gone_tx. cbn [sp_tx sp_set_tx].
    unfold upd_stx. apply map_length.
  - destruct rs; try reflexivity. cbn [fst].
    destruct (match find_stx s (sp_tx sp) with Some x => x_open x | None => false end);
      rewrite ?after_sender_gone_tx; cbn [sp_tx sp_set_tx]; unfold upd_stx; apply map_length.
  - destruct rs; reflexivity.
  - destruct rs; reflexivity.
  - destruct rs; reflexivity.
  - destruct rs; reflexivity.
  - destruct rs; try reflexivity. destruct (find_srx r (sp_rx sp)); [|reflexivity].
    destruct (find_srx r' (sp_rx sp)); reflexivity.
  - destruct rs; reflexivity.
  - destruct rs; reflexivity.
  - destruct rs; reflexivity.
  - rewrite sp_recv_tx. reflexivity.
  - rewrite sp_recv_tx. reflexivity.
  - destruct rs; reflexivity.
  - destruct (find (fun p => N.eqb (fst p) f) (sp_futs sp)) as [[f' r]|]; [rewrite sp_recv_tx|]; reflexivity.
  - destruct rs; reflexivity.
  - rewrite sp_recv_tx. reflexivity.
  - destruct rs; reflexivity.
  - destruct rs; reflexivity.
  - destruct rs; reflexivity.
Qed.

Lemma spec_from_single c : forall h s sp, Forall not_clone_s h ->
  length (sp_tx (spec_from c s sp h)) = length (sp_tx sp).
Proof.
  induction h as [|o h IH]; intros s sp Hf; [reflexivity|].
  inversion Hf as [|? ? Ho Hh]; subst. rewrite spec_from_cons, IH by exact Hh. apply sp_step_single. exact Ho.
Qed.

Theorem disc_sound_except_F04 c a cap h :
  Forall not_clone_s h -> forall r, ~ In (VDiscLive r) (violations c a cap h).
Proof.
  intros Hf r Hin. unfold violations in Hin.
  destruct (check_from_sound c h _ _ (inv_init c a cap) _ Hin) as [h1 [h2 [E [_ Hok]]]].
  cbn in Hok. unfold sg, single in Hok. apply orb_false_iff in Hok. destruct Hok as [_ Hok].
  rewrite spec_from_single in Hok; [cbn in Hok; discriminate|].
  rewrite E in Hf. apply Forall_app in Hf. tauto.
Qed.

(** C08, Disconnected is observed once every sender handle is gone and the mailbox is drained *)
Theorem disc_complete_postfix c : fix04 c = true -> fix05 c = true ->
  forall a cap h r, ~ In (VNoDisc r) (violations c a cap h).
Proof.
  intros F4 F5 a cap h r Hin. unfold violations in Hin.
  destruct (check_from_sound c h _ _ (inv_init c a cap) _ Hin) as [h1 [h2 [_ [_ Hok]]]].
  cbn in Hok. rewrite F4, F5 in Hok. destruct Hok as [Hok _]. discriminate.
Qed.

Theorem disc_complete_except_F05 c a cap h r :
  In (VNoDisc r) (violations c a cap h) ->
  fix04 c && fix05 c = false /\
  exists h1 h2 y, h = h1 ++ h2 /\ find_srx r (sp_rx (spec_after c a cap h1)) = Some y /\ s_reach y = false.
Proof.
  intros Hin. unfold violations in Hin.
  destruct (check_from_sound c h _ _ (inv_init c a cap) _ Hin) as [h1 [h2 [E [_ Hok]]]].
  cbn in Hok. destruct Hok as [G1 [y [Hy Hr]]]. split; [exact G1|]. exists h1, h2, y. auto.
Qed.

(** the full statement *)
Definition C08_full (c : cfg) : Prop := forall a cap h, violations c a cap h = [].

Theorem full_postfix c : fix04 c = true -> fix05 c = true -> fix14 c = true -> C08_full c.
Proof.
  intros F4 F5 F14 a cap h. destruct (violations c a cap h) as [|v l] eqn:E; [reflexivity|].
  exfalso. assert (Hin : In v (violations c a cap h)) by (rewrite E; left; reflexivity).
  destruct v.
  - eapply routing_postfix; eauto.
  - eapply disc_sound_postfix; eauto.
  - eapply disc_complete_postfix; eauto.
Qed.

Definition w_F04 : list op := [Subscribe 0 1; CloneS 0 1; Publish 0 1 7; DropS 1; TryRecv 0; TryRecv 0].
Definition w_F05 : list op := [DropS 0; TryRecv 0].
Definition w_F14 : list op := [CloneR 0 1; Subscribe 0 1; CloseR 0; Publish 0 1 7; TryRecv 0].

Lemma refuted_F04 : ~ C08_full pre_fix.
Proof. intros H. specialize (H false 4 w_F04). vm_compute in H. discriminate. Qed.
Lemma refuted_F05 : ~ C08_full pre_fix.
Proof. intros H. specialize (H false 4 w_F05). vm_compute in H. discriminate. Qed.
Lemma refuted_F14 : ~ C08_full pre_fix.
Proof. intros H. specialize (H false 4 w_F14). vm_compute in H. discriminate. Qed.

Lemma witness_F04 : violations pre_fix false 4 w_F04 = [VDiscLive 0].
Proof. vm_compute. reflexivity. Qed.
Lemma witness_F05 : violations pre_fix false 4 w_F05 = [VNoDisc 0].
Proof. vm_compute. reflexivity. Qed.
Lemma witness_F14 : violations pre_fix false 4 w_F14 = [VRouting 0].
Proof. vm_compute. reflexivity. Qed.

(* each patch removes its complaint on its witness *)
Lemma witnesses_postfix :
  violations post_fix false 4 w_F04 = [] /\ violations post_fix false 4 w_F05 = [] /\ violations post_fix false 4 w_F14 = [].
Proof. vm_compute. auto. Qed.

(** the model's mailbox is the reference's ideal mailbox (for handles in the class) *)
Theorem mailbox_is_reference c a cap h r x y :
  find_rx r (rxs (state_from c (init a cap) h)) = Some x ->
  find_srx r (sp_rx (spec_after c a cap h)) = Some y ->
  r_live x = true -> good c y = true ->
  m_buf (r_mb x) = s_q y /\ m_dropped (r_mb x) = s_full y.
Proof.
  intros Hx Hy Hl Hg. pose proof (inv_after c a cap h) as I.
  destruct (pair_rx _ _ _ _ _ I Hx) as [y' [Hy' [_ [_ HR]]]].
  assert (y' = y) by congruence. subst y'. apply (rr_buf _ _ _ _ _ _ _ HR Hl Hg).
Qed.

(** publishing is a single step that never blocks: it returns Ok/Closed (or the harness-level NoHandle),
    wakes at most registered wakers, and touches nothing but mailboxes *)
Theorem publish_nonblocking c s h t v :
  exists s' rs w, step c s (Publish h t v) = (s', (rs, w)) /\ (rs = ROk \/ rs = RClosed \/ rs = RNoHandle) /\
    txs s' = txs s /\ lists s' = lists s /\ rcount s' = rcount s /\ futs s' = futs s.
Proof.
  cbn [step]. destruct (live_tx h s); [|eauto 12].
  destruct (t_closed t0 || Z.eqb (rcount s) 0); [eauto 12|].
  destruct (get_list t (lists s)); [|eauto 12].
  destruct (deliver_list l (t, v) (rxs s)) as [rs' w]. eauto 12.
Qed.
