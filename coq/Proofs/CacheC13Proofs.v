(* Proofs/CacheC13Proofs.v — C13: current_cost = cost of the resident entries
   (with the F-18 patch, or on unbounded caches), the refutations on the code as
   found (F-28, F-29, F-34), and the capacity clause for a shard whose policy is
   in sync with its map. *)
From Fibre Require Import Common.Base Cache.PolicySpec Cache.PolicyLru Cache.AMap Cache.CacheOps Cache.CacheSpec
     Proofs.AMapProofs Proofs.PolicyCommon Proofs.PolicyLruProofs Proofs.CacheCoreProofs Proofs.CacheStepProofs.

Section C13.
  Set Default Proof Using "All".
  Variable P : policy.
  Variable c : cfg.
  Hypothesis Hn : 0 < c_shards c.

  Notation state := (state P).
  Notation find := (find P c).
  Notation wfp := (wfp P c).
  Notation smap := (smap P).

  (** ** sums over the shards *)
  Definition sum_sh (f : N -> Z) (l : list N) : Z := fold_right (fun j z => (f j + z)%Z) 0%Z l.

  Lemma resident_sum s : resident_cost P c s = sum_sh (fun j => map_cost (smap s j)) (nseq (c_shards c)).
  Proof. reflexivity. Qed.

  Lemma sum_sh_ext f g l : (forall j, In j l -> f j = g j) -> sum_sh f l = sum_sh g l.
  Proof.
    induction l as [|j t IH]; intros H; cbn [sum_sh fold_right]; [reflexivity|].
    fold (sum_sh f t) (sum_sh g t). rewrite (H j (or_introl eq_refl)), IH; [reflexivity|].
    intros j' Hj. apply H. right. exact Hj.
  Qed.

  Lemma sum_sh_upd f g l i :
    NoDup l -> In i l -> (forall j, j <> i -> g j = f j) -> sum_sh g l = (sum_sh f l - f i + g i)%Z.
  Proof.
    induction l as [|j t IH]; intros Hnd Hi Hg; [destruct Hi|].
    inversion Hnd as [|? ? Hni Hnd']; subst. cbn [sum_sh fold_right]. fold (sum_sh f t) (sum_sh g t).
    destruct Hi as [->|Hi].
    - rewrite (sum_sh_ext g f t); [lia|]. intros j' Hj. apply Hg. intros ->. contradiction.
    - rewrite IH by assumption. rewrite (Hg j); [lia|]. intros ->. contradiction.
  Qed.

  Lemma sum_sh_add f g l : sum_sh (fun j => (f j + g j)%Z) l = (sum_sh f l + sum_sh g l)%Z.
  Proof.
    induction l as [|j t IH]; cbn [sum_sh fold_right]; [reflexivity|].
    fold (sum_sh (fun j => (f j + g j)%Z) t) (sum_sh f t) (sum_sh g t). lia.
  Qed.

  Lemma sum_sh_indicator x v l :
    NoDup l -> In x l -> sum_sh (fun j => if N.eqb x j then v else 0%Z) l = v.
  Proof.
    induction l as [|j t IH]; intros Hnd Hi; [destruct Hi|].
    inversion Hnd as [|? ? Hni Hnd']; subst. cbn [sum_sh fold_right].
    fold (sum_sh (fun j => if N.eqb x j then v else 0%Z) t).
    destruct Hi as [->|Hi].
    - rewrite N.eqb_refl. rewrite (sum_sh_ext _ (fun _ => 0%Z) t).
      + assert (Hz : sum_sh (fun _ => 0%Z) t = 0%Z) by (clear; induction t; cbn [sum_sh fold_right]; [reflexivity | fold (sum_sh (fun _ : N => 0%Z) t); lia]).
        lia.
      + intros j' Hj. destruct (N.eqb_spec x j') as [->|]; [contradiction | reflexivity].
    - rewrite IH by assumption. destruct (N.eqb_spec x j) as [->|]; [contradiction | lia].
  Qed.

  (** ** single-shard effects *)
  Lemma resident_ueff s s' i m' dcc de :
    ueff P s s' i m' dcc de -> i < c_shards c ->
    resident_cost P c s' = (resident_cost P c s - map_cost (smap s i) + map_cost m')%Z.
  Proof.
    intros [M _] Hi. rewrite !resident_sum.
    rewrite (sum_sh_upd (fun j => map_cost (smap s j)) (fun j => map_cost (smap s' j)) _ i).
    - rewrite M, N.eqb_refl. reflexivity.
    - apply nseq_NoDup.
    - apply nseq_In. exact Hi.
    - intros j Hne. rewrite M. destruct (N.eqb_spec j i); [contradiction | reflexivity].
  Qed.

  Definition drift (s : state) : Z := (st_cc P s - resident_cost P c s)%Z.

  Lemma drift_ueff_aput s s' k e dcc de :
    wfp s ->
    ueff P s s' (shard_of c k) (aput k e (smap s (shard_of c k))) dcc de ->
    dcc = (Z.of_N (e_cost e) - old_cost P c s k)%Z ->
    drift s' = drift s.
  Proof.
    intros Hw H Hd. unfold drift.
    rewrite (resident_ueff _ _ _ _ _ _ H) by (apply shard_of_lt; exact Hn).
    destruct H as [_ [C _]]. rewrite C, Hd. rewrite map_cost_aput by apply Hw.
    unfold old_cost. rewrite find_smap. destruct (afind k (smap s (shard_of c k))); lia.
  Qed.

  Lemma drift_ueff_aset s s' k e e' :
    wfp s -> find s k = Some e -> e_cost e' = e_cost e ->
    ueff P s s' (shard_of c k) (aset k e' (smap s (shard_of c k))) 0 0 ->
    drift s' = drift s.
  Proof.
    intros Hw Hf Hc H. unfold drift.
    rewrite (resident_ueff _ _ _ _ _ _ H) by (apply shard_of_lt; exact Hn).
    destruct H as [_ [C _]]. rewrite C. rewrite find_smap in Hf.
    rewrite (map_cost_aset k e e') by (try apply Hw; exact Hf). lia.
  Qed.

  Lemma drift_same s s' :
    (forall j, smap s' j = smap s j) -> st_cc P s' = st_cc P s -> drift s' = drift s.
  Proof.
    intros M C. unfold drift. rewrite C, !resident_sum. f_equal. apply sum_sh_ext. intros j _. rewrite M. reflexivity.
  Qed.

  Lemma drift_refr s s' : wfp s -> refr P c s s' -> drift s' = drift s.
  Proof.
    intros Hw [K [R [C _]]]. unfold drift. rewrite C, !resident_sum. f_equal. apply sum_sh_ext. intros j _.
    (* same keys, entrywise same cost *)
    specialize (K j). specialize (R j). pose proof (proj1 Hw j) as Hnd.
    revert K R Hnd. generalize (smap s j) (smap s' j). intros m m'. revert m'.
    induction m as [|[k e] t IH]; intros [|[k' e'] t'] K R Hnd; cbn [akeys map fst] in K; try discriminate; [reflexivity|].
    inversion K; subst k'. inversion Hnd as [|? ? Hni Hnd']; subst.
    cbn [map_cost fold_right snd]. fold (map_cost t) (map_cost t').
    assert (Hc : e_cost e' = e_cost e).
    { specialize (R k). cbn [afind] in R. rewrite N.eqb_refl in R. cbn in R.
      destruct R as [->|[-> _]]; [reflexivity|]. unfold refreshed. destruct (c_tti c); reflexivity. }
    rewrite Hc. f_equal. apply IH; [assumption | | assumption].
    intros k0. pose proof (R k0) as R0. cbn [afind] in R0.
    destruct (N.eqb_spec k0 k) as [Heq|Hne]; [|exact R0]. subst k0.
    assert (Ha : afind k t = None) by (apply afind_None_keys; exact Hni).
    assert (Hb : afind k t' = None).
    { apply afind_None_keys. unfold akeys in *. rewrite H1. exact Hni. }
    rewrite Ha, Hb. exact I.
  Qed.

  (** ** removal steps *)
  Lemma map_cost_adel_list (L : list drop) : forall m,
    NoDup (akeys m) -> NoDup (map d_key L) -> (forall d, In d L -> afind (d_key d) m = Some (d_ent d)) ->
    map_cost (adel_all (map d_key L) m) = (map_cost m - dcost L)%Z.
  Proof.
    induction L as [|d t IH]; intros m Hnd Hk Hf; cbn [map adel_all fold_left].
    - change (dcost []) with 0%Z. lia.
    - change (fold_left (fun m k => adel k m) (map d_key t) (adel (d_key d) m)) with (adel_all (map d_key t) (adel (d_key d) m)).
      inversion Hk as [|? ? Hni Hk']; subst.
      rewrite IH.
      + rewrite (map_cost_adel (d_key d) (d_ent d)) by (try exact Hnd; apply Hf; left; reflexivity).
        change (dcost (d :: t)) with (Z.of_N (e_cost (d_ent d)) + dcost t)%Z. lia.
      + apply adel_NoDup. exact Hnd.
      + exact Hk'.
      + intros d' Hd'. rewrite afind_adel_other; [apply Hf; right; exact Hd'|].
        intros He. apply Hni. rewrite <- He. apply in_map. exact Hd'.
  Qed.

  Definition dcost_sh (j : N) (D : list drop) : Z := dcost (filter (fun d => N.eqb (d_sh d) j) D).

  Lemma dcost_sh_sum D l :
    NoDup l -> (forall d, In d D -> In (d_sh d) l) -> sum_sh (fun j => dcost_sh j D) l = dcost D.
  Proof.
    intros Hnd. induction D as [|d t IH]; intros Hin.
    - unfold dcost_sh. cbn [filter]. change (dcost []) with 0%Z.
      clear. induction l; cbn [sum_sh fold_right]; [reflexivity | fold (sum_sh (fun _ : N => 0%Z) l); lia].
    - rewrite (sum_sh_ext _ (fun j => ((if N.eqb (d_sh d) j then Z.of_N (e_cost (d_ent d)) else 0) + dcost_sh j t)%Z)).
      + rewrite sum_sh_add, IH by (intros d' Hd'; apply Hin; right; exact Hd').
        rewrite sum_sh_indicator by (try exact Hnd; apply Hin; left; reflexivity).
        change (dcost (d :: t)) with (Z.of_N (e_cost (d_ent d)) + dcost t)%Z. reflexivity.
      + intros j _. unfold dcost_sh. cbn [filter]. destruct (N.eqb (d_sh d) j); [|lia].
        change (dcost (d :: filter (fun d0 => N.eqb (d_sh d0) j) t))
          with (Z.of_N (e_cost (d_ent d)) + dcost (filter (fun d0 => N.eqb (d_sh d0) j) t))%Z. reflexivity.
  Qed.

  Lemma resident_mstepx s s' D dcc :
    wfp s -> mstepx P c s s' D dcc -> resident_cost P c s' = (resident_cost P c s - dcost D)%Z.
  Proof.
    intros Hw [[M [_ [_ [_ [_ [U F]]]]]] [Hok _]]. rewrite !resident_sum.
    rewrite (sum_sh_ext (fun j => map_cost (smap s' j)) (fun j => (map_cost (smap s j) + - dcost_sh j D)%Z)).
    - rewrite sum_sh_add.
      assert (Hs : sum_sh (fun j => (- dcost_sh j D)%Z) (nseq (c_shards c)) = (- dcost D)%Z).
      { rewrite <- (dcost_sh_sum D (nseq (c_shards c))).
        - generalize (nseq (c_shards c)). intros l. induction l as [|j t IH]; cbn [sum_sh fold_right]; [reflexivity|].
          fold (sum_sh (fun j => (- dcost_sh j D)%Z) t) (sum_sh (fun j => dcost_sh j D) t). lia.
        - apply nseq_NoDup.
        - intros d Hd. apply nseq_In. rewrite Forall_forall in Hok. apply Hok. exact Hd. }
      rewrite Hs. lia.
    - intros j _. rewrite M. unfold dkeys, dcost_sh.
      rewrite (map_cost_adel_list (filter (fun d => N.eqb (d_sh d) j) D)).
      + lia.
      + apply Hw.
      + apply (U j).
      + intros d Hd. apply filter_In in Hd. destruct Hd as [Hd Hs]. apply N.eqb_eq in Hs. rewrite <- Hs. apply F. exact Hd.
  Qed.

  Lemma drift_mstepx s s' D dcc :
    wfp s -> exact_cost c -> mstepx P c s s' D dcc -> drift s' = drift s.
  Proof.
    intros Hw Hx H. unfold drift. rewrite (resident_mstepx s s' D dcc Hw H).
    destruct H as [[_ [C _]] [_ X]]. rewrite C, (X Hx). lia.
  Qed.

  (* user removals are exact whatever the switches say *)
  Lemma drift_mstepx_inval s s' D dcc :
    wfp s -> mstepx P c s s' D dcc -> dcc = (- dcost D)%Z -> drift s' = drift s.
  Proof.
    intros Hw H Hd. unfold drift. rewrite (resident_mstepx s s' D dcc Hw H).
    destruct H as [[_ [C _]] _]. rewrite C, Hd. lia.
  Qed.

  (** ** every operation keeps the accounting exact (maintenance: when capacity cleanup is exact) *)
  Lemma c13_multi_insert items : forall s,
    wfp s -> drift (do_multi_insert P c s items) = drift s.
  Proof.
    unfold do_multi_insert. induction items as [|[[k v] cost] t IH]; intros s Hw; cbn [fold_left]; [reflexivity|].
    destruct (insert_core_ueff P c s k v cost (ttl_exp c (st_now P s)) (c_ttl c)) as [h H]. cbn zeta in H.
    rewrite IH by (eapply (ueff_aput_wfp P c Hn); eassumption).
    eapply drift_ueff_aput; [exact Hw | exact H |]. cbn [e_cost]. unfold old_cost. rewrite find_smap. reflexivity.
  Qed.

  Lemma c13_step s o :
    wfp s -> exact_cost c \/ is_maint o = false ->
    drift (fst (step P c s o)) = (match o with OClear => 0 | _ => drift s end)%Z.
  Proof.
    intros Hw Hx.
    assert (Hread : forall hit k, drift (fst (do_read P c hit s k)) = drift s).
    { intros hit k. pose proof (do_read_spec P c Hn hit s k) as H.
      destruct (find s k) as [e|]; [destruct (expired c (st_now P s) e)|]; try (rewrite H; reflexivity).
      apply drift_refr; [exact Hw | apply H]. }
    assert (Hcomp : forall k f, drift (fst (do_compute P c s k f)) = drift s).
    { intros k f. pose proof (do_compute_ueff P c s k f) as H. cbn zeta in H.
      destruct (computable P c s k) as [e|]; [|rewrite H; reflexivity].
      destruct H as [H [_ Hf]]. eapply drift_ueff_aset; [exact Hw | exact Hf | | exact H]. reflexivity. }
    assert (Hrem : forall k, drift (fst (do_remove P c s k)) = drift s).
    { intros k. pose proof (do_remove_mstepx P c s k Hn) as H.
      destruct (find s k) as [e|]; [|rewrite H; reflexivity]. destruct H as [H _].
      eapply drift_mstepx_inval; [exact Hw | exact H |]. cbn [dcost fold_right d_ent]. lia. }
    assert (Hmr : forall ks, drift (fst (do_multi_remove P c s ks [])) = drift s).
    { intros ks. destruct (do_multi_remove P c s ks []) as [s' l] eqn:E. cbn [fst].
      destruct (do_multi_remove_spec P c Hn ks s [] s' l E) as [D [dcc [H [X _]]]].
      eapply drift_mstepx_inval; eassumption. }
    destruct o; cbn [step fst].
    - destruct (do_insert_ueff P c Hn s k v c0) as [h H]. cbn zeta in H.
      eapply drift_ueff_aput; [exact Hw | exact H | reflexivity].
    - destruct (do_insert_ttl_ueff P c Hn s k v c0 d) as [h H]. cbn zeta in H.
      eapply drift_ueff_aput; [exact Hw | exact H | reflexivity].
    - specialize (Hread true k). destruct (do_read P c true s k). exact Hread.
    - specialize (Hread true k). destruct (do_read P c true s k). exact Hread.
    - specialize (Hread false k). destruct (do_read P c false s k). exact Hread.
    - unfold do_or_insert. destruct (occupied P c s k); cbn [fst]; [reflexivity|].
      eapply drift_ueff_aput; [exact Hw | apply (vacant_insert_ueff' P c Hn) | reflexivity].
    - reflexivity.
    - specialize (Hcomp k f). destruct (do_compute P c s k f). exact Hcomp.
    - specialize (Hcomp k f). destruct (do_compute P c s k f). exact Hcomp.
    - specialize (Hrem k). destruct (do_remove P c s k). exact Hrem.
    - specialize (Hrem k). destruct (do_remove P c s k). exact Hrem.
    - (* clear *)
      destruct (do_clear_spec P c Hn s) as [M [C _]]. unfold drift. rewrite C, resident_sum.
      rewrite (sum_sh_ext _ (fun _ => 0%Z)).
      + generalize (nseq (c_shards c)). intros l. induction l as [|j t IH]; cbn [sum_sh fold_right]; [reflexivity|].
        fold (sum_sh (fun _ : N => 0%Z) t). lia.
      + intros j Hj. rewrite M. apply nseq_In in Hj. apply N.ltb_lt in Hj. rewrite Hj. reflexivity.
    - destruct (do_multiget_gen P (do_read P c true) s ks []) as [s' l] eqn:E. cbn [fst].
      apply drift_refr; [exact Hw|]. eapply (multiget_gen_spec P c Hn _ (do_read_rd_ok P c Hn true)). exact E.
    - destruct (do_multiget_gen P (do_read_direct P c) s ks []) as [s' l] eqn:E. cbn [fst].
      apply drift_refr; [exact Hw|]. eapply (multiget_gen_spec P c Hn _ (do_read_direct_rd_ok P c Hn)). exact E.
    - apply c13_multi_insert. exact Hw.
    - specialize (Hmr ks). destruct (do_multi_remove P c s ks []). exact Hmr.
    - specialize (Hmr ks). destruct (do_multi_remove P c s ks []). exact Hmr.
    - destruct Hx as [Hx|Hx]; [|discriminate].
      destruct (run_maintenance_mstepx P c ord s Hw) as [D [dcc [H _]]]. eapply drift_mstepx; eassumption.
    - destruct Hx as [Hx|Hx]; [|discriminate].
      destruct (janitor_tick_mstepx P c i ord s Hw) as [D [dcc [H _]]]. eapply drift_mstepx; eassumption.
    - destruct Hx as [Hx|Hx]; [|discriminate].
      destruct (janitor_signal_mstepx P c i ord s Hw) as [D [dcc [H _]]]. eapply drift_mstepx; eassumption.
    - apply drift_same; reflexivity.
    - destruct (flush_intro_spec P c Hn s) as [M [C _]]. apply drift_same; assumption.
    - destruct (do_deliver_spec P c Hn s n) as [M [C _]]. apply drift_same; assumption.
  Qed.

  Theorem c13_cost_run ops : forall s,
    exact_cost c -> wfp s -> drift s = 0%Z -> drift (fst (run P c s ops)) = 0%Z.
  Proof.
    induction ops as [|o t IH]; intros s Hx Hw Hd; cbn [run fst]; [exact Hd|].
    pose proof (c13_step s o Hw (or_introl Hx)) as H1. pose proof (step_wfp P c Hn s o Hw) as Hw1.
    destruct (step P c s o) as [s1 x]. cbn [fst] in *.
    specialize (IH s1 Hx Hw1). destruct (run P c s1 t) as [s2 xs]. cbn [fst] in *.
    apply IH. rewrite H1. destruct o; try exact Hd; reflexivity.
  Qed.

  Theorem c13_cost now0 ops :
    exact_cost c ->
    st_cc P (state_after P c now0 ops) = resident_cost P c (state_after P c now0 ops).
  Proof.
    intros Hx. pose proof (c13_cost_run ops (init P now0) Hx (init_wfp P c Hn now0)) as H.
    unfold drift in H. unfold state_after.
    assert (H0 : (st_cc P (init P now0) - resident_cost P c (init P now0))%Z = 0%Z).
    { cbn [st_cc init]. rewrite resident_sum.
      generalize (nseq (c_shards c)). intros l. induction l as [|j t IHl]; cbn [sum_sh fold_right]; [reflexivity|].
      fold (sum_sh (fun j => map_cost (smap (init P now0) j)) t).
      change (map_cost (smap (init P now0) j)) with 0%Z. lia. }
    specialize (H H0). lia.
  Qed.
End C13.

Section C13cap.
  Set Default Proof Using "All".
  Variable P : policy.
  Variable c : cfg.
  Hypothesis Hn : 0 < c_shards c.

  Notation state := (state P).
  Notation smap := (smap P).
  Notation wfp := (wfp P c).

  Lemma lookup_without k vs T : lookup k (without vs T) = if mem k vs then None else lookup k T.
  Proof.
    unfold without. induction T as [|[k' c'] t IH]; cbn [filter lookup fst]; [destruct (mem k vs); reflexivity|].
    destruct (mem k' vs) eqn:Em; cbn [negb].
    - rewrite IH. destruct (N.eqb_spec k k') as [->|]; [rewrite Em; reflexivity | reflexivity].
    - cbn [lookup]. rewrite IH. destruct (N.eqb_spec k k') as [->|]; [rewrite Em; reflexivity | reflexivity].
  Qed.

  Lemma sumN_perm (f : N -> N) a b : Permutation a b -> sumN (map f a) = sumN (map f b).
  Proof. induction 1; cbn [map sumN]; lia. Qed.

  Lemma afind_all_None (m : amap entry) : (forall k, afind k m = None) -> m = [].
  Proof.
    destruct m as [|[k e] t]; [reflexivity|]. intros H. specialize (H k). cbn [afind] in H.
    rewrite N.eqb_refl in H. discriminate.
  Qed.

  Lemma cost_sum_tracked T (rem : list (N * entry)) :
    (forall k e, In (k, e) rem -> lookup k T = Some (e_cost e)) ->
    cost_sum rem = Z.of_N (sumN (map (cost_of T) (map fst rem))).
  Proof.
    induction rem as [|[k e] t IH]; intros H; cbn [cost_sum fold_right map fst sumN snd]; [reflexivity|].
    fold (cost_sum t). rewrite IH by (intros k' e' Hi; apply H; right; exact Hi).
    assert (Hc : cost_of T k = e_cost e) by (unfold cost_of; rewrite (H k e (or_introl eq_refl)); reflexivity).
    rewrite Hc. lia.
  Qed.

  Lemma cost_sum_nonneg (rem : list (N * entry)) : (0 <= cost_sum rem)%Z.
  Proof. induction rem as [|x r IH]; cbn [cost_sum fold_right]; [lia|]. fold (cost_sum r). lia. Qed.

  (* capacity cleanup on a shard whose policy is in sync with its map *)
  Theorem c13_capacity_shard s i :
    wfp s -> i < c_shards c ->
    st_cc P s = resident_cost P c s -> (resident_cost P c s < Z.of_N U64)%Z ->
    in_sync P s i -> evict_ok_at P s i ->
    let s' := cleanup_cap P c i s in
    st_cc P s' = resident_cost P c s'
    /\ in_sync P s' i
    /\ (forall j, j <> i -> smap s' j = smap s j)
    /\ ((resident_cost P c s' <= Z.of_N (c_cap c))%Z \/ smap s' i = []).
  Proof.
    intros Hw Hi Hcc Hlt [HndT Hsync] Hev. cbn zeta.
    assert (Hres0 : (0 <= resident_cost P c s)%Z).
    { rewrite (resident_sum P c Hn). generalize (nseq (c_shards c)). intros l.
      induction l as [|j t IH]; cbn [sum_sh fold_right]; [lia|].
      fold (sum_sh (fun j => map_cost (smap s j)) t).
      assert (0 <= map_cost (smap s j))%Z by (generalize (smap s j); intros m; induction m as [|x r IHr]; cbn [map_cost fold_right]; [lia | fold (map_cost r); lia]).
      lia. }
    assert (Hobs : Z.of_N (cc_obs P s) = st_cc P s).
    { unfold cc_obs. rewrite Z2N.id by (apply Z.mod_pos_bound; reflexivity). apply Z.mod_small. lia. }
    unfold cleanup_cap. destruct (N.leb_spec (cc_obs P s) (c_cap c)) as [Hle|Hgt].
    { split; [exact Hcc|]. split; [split; assumption|]. split; [reflexivity|]. left. lia. }
    set (want := cc_obs P s - c_cap c).
    specialize (Hev want). cbn zeta in Hev.
    destruct (pstep P (s_pol P (st_sh P s i)) (Evict want)) as [p' o] eqn:Ep.
    destruct Hev as [vs [rel [-> [[Hvnd [Hvin [Hrel [Hperm Hsuff]]]] Hgreedy]]]].
    set (T := ptracked P (s_pol P (st_sh P s i))) in *.
    set (s1 := set_sh P s i (sh_pol P (st_sh P s i) p')).
    assert (Hm1 : forall j, smap s1 j = smap s j).
    { intros j. unfold s1. rewrite smap_set_sh. destruct (N.eqb_spec j i) as [->|]; reflexivity. }
    assert (Hp1 : s_pol P (st_sh P s1 i) = p') by (unfold s1; cbn [st_sh set_sh]; rewrite N.eqb_refl; reflexivity).
    assert (Hc1 : st_cc P s1 = st_cc P s) by reflexivity.
    clearbody s1.
    (* no victim: nothing tracked or nothing wanted *)
    destruct vs as [|v0 vt].
    { assert (Hrel0 : rel = 0) by (rewrite Hrel; reflexivity).
      split; [|split; [|split]].
      - rewrite Hc1, (resident_sum P c Hn), (sum_sh_ext P c Hn _ (fun j => map_cost (smap s j))) by (intros j _; rewrite Hm1; reflexivity).
        rewrite <- (resident_sum P c Hn). exact Hcc.
      - unfold in_sync. cbn zeta. rewrite Hp1, Hm1. split.
        + eapply perm_NoDup_keys; [exact Hperm|]. rewrite without_nil. exact HndT.
        + intros k. rewrite (lookup_perm (ptracked P p') (without [] T) k).
          * rewrite without_nil. apply Hsync.
          * eapply perm_NoDup_keys; [exact Hperm|]. rewrite without_nil. exact HndT.
          * exact Hperm.
      - intros j _. apply Hm1.
      - right. rewrite Hm1. apply afind_all_None. intros k.
        assert (HT : T = []).
        { destruct (N.ltb_spec (total T) want) as [Hl|Hg].
          - specialize (Hgreedy Hl). rewrite Hgreedy in Hperm. rewrite without_nil in Hperm.
            apply Permutation_nil in Hperm. exact Hperm.
          - specialize (Hsuff Hg). unfold want in *. lia. }
        specialize (Hsync k). rewrite HT in Hsync. cbn [lookup] in Hsync.
        destruct (afind k (smap s i)); [discriminate | reflexivity]. }
    destruct (fold_left (evict_victim P c i) (v0 :: vt) (s1, 0)) as [s2 freed] eqn:Ef.
    destruct (evict_victims_eff P c i (v0 :: vt) s1 0 s2 freed Ef) as [rem [Hrnd [Hrin [Hgone [Hfr Heff]]]]].
    rewrite Hm1 in Hrin, Hgone, Heff.
    (* every victim is resident, so exactly the victims were removed *)
    assert (Hres : forall k, In k (v0 :: vt) -> exists e, afind k (smap s i) = Some e /\ lookup k T = Some (e_cost e)).
    { intros k Hk. apply Hvin in Hk. apply In_keys_lookup in Hk. destruct Hk as [ck Hck].
      pose proof (Hsync k) as Hs. rewrite Hck in Hs. destruct (afind k (smap s i)) as [e|]; [|discriminate].
      exists e. cbn [option_map] in Hs. inversion Hs; subst. auto. }
    assert (Hsame : Permutation (map fst rem) (v0 :: vt)).
    { apply NoDup_Permutation; [exact Hrnd | exact Hvnd|]. intros k. split.
      - intros Hk. apply in_map_iff in Hk. destruct Hk as [[k' e'] [<- Hk]]. apply (Hrin k' e' Hk).
      - intros Hk. destruct (Hres k Hk) as [e [He _]]. specialize (Hgone k Hk). rewrite afind_adel_all, He in Hgone.
        destruct (mem k (map fst rem)) eqn:Em; [apply mem_In; exact Em | discriminate]. }
    assert (Hfreed : freed = rel).
    { rewrite Hfr, Hrel, N.add_0_l. rewrite (cost_sum_tracked T rem).
      - rewrite N2Z.id. apply sumN_perm. exact Hsame.
      - intros k e Hk. destruct (Hrin k e Hk) as [He Hv]. destruct (Hres k Hv) as [e' [He' Hl]]. congruence. }
    set (s' := add_cc P s2 (- Z.of_N (if fix_f18 (c_fix c) then freed else rel))).
    assert (Hdcc : (- Z.of_N (if fix_f18 (c_fix c) then freed else rel) = - Z.of_N rel)%Z)
      by (destruct (fix_f18 (c_fix c)); rewrite ?Hfreed; reflexivity).
    destruct Heff as [M2 [C2 _]].
    assert (Hmap' : forall j, smap s' j = if N.eqb j i then adel_all (map fst rem) (smap s i) else smap s j).
    { intros j. unfold s'. rewrite smap_add_cc, M2, Hm1. reflexivity. }
    assert (Hcs : cost_sum rem = Z.of_N rel).
    { rewrite (cost_sum_tracked T rem).
      - f_equal. rewrite Hrel. apply sumN_perm. exact Hsame.
      - intros k e Hk. destruct (Hrin k e Hk) as [He Hv]. destruct (Hres k Hv) as [e' [He' Hl]]. congruence. }
    assert (Hres' : resident_cost P c s' = (resident_cost P c s - Z.of_N rel)%Z).
    { rewrite !(resident_sum P c Hn).
      rewrite (sum_sh_upd P c Hn (fun j => map_cost (smap s j)) (fun j => map_cost (smap s' j)) _ i).
      - rewrite Hmap', N.eqb_refl.
        assert (Hmc : map_cost (adel_all (map fst rem) (smap s i)) = (map_cost (smap s i) - cost_sum rem)%Z).
        { clear -Hrnd Hrin Hw. pose proof (proj1 Hw i) as Hnd. revert Hnd Hrin. generalize (smap s i). intros m.
          revert m. induction rem as [|[k e] t IH]; intros m Hnd Hin; cbn [map fst adel_all fold_left cost_sum fold_right snd]; [lia|].
          change (fold_left (fun m k => adel k m) (map fst t) (adel k m)) with (adel_all (map fst t) (adel k m)).
          fold (cost_sum t). inversion Hrnd as [|? ? Hni Hnd']; subst. rewrite IH.
          - rewrite (map_cost_adel k e) by (try exact Hnd; apply Hin; left; reflexivity). lia.
          - exact Hnd'.
          - apply adel_NoDup. exact Hnd.
          - intros k' e' Hk'. destruct (Hin k' e' (or_intror Hk')) as [Ha Hb]. split; [|exact Hb].
            rewrite afind_adel_other; [exact Ha|]. intros ->. apply Hni. apply in_map_iff. exists (k, e'). auto. }
        rewrite Hmc, Hcs. lia.
      - apply nseq_NoDup.
      - apply nseq_In. exact Hi.
      - intros j Hne. rewrite Hmap'. destruct (N.eqb_spec j i); [contradiction | reflexivity]. }
    assert (Hcc' : st_cc P s' = (st_cc P s - Z.of_N rel)%Z).
    { unfold s'. rewrite st_cc_add_cc, C2, Hdcc, Hc1. lia. }
    split; [rewrite Hcc', Hres', Hcc; reflexivity|]. split; [|split].
    - (* still in sync *)
      assert (Hpol' : s_pol P (st_sh P s' i) = p').
      { unfold s'. cbn [add_cc set_cc st_sh].
        clear -Ef Hp1. revert Ef. generalize (v0 :: vt). intros l. revert s1 Hp1. generalize 0.
        induction l as [|k t IH]; intros f0 s1 Hp1 Ef; cbn [fold_left] in Ef; [inversion Ef as [[H1 H2]]; rewrite <- H1; exact Hp1|].
        unfold evict_victim at 2 in Ef. destruct (afind k (s_map P (st_sh P s1 i))) as [e|].
        - eapply IH; [|exact Ef]. rewrite st_sh_notify. cbn [st_sh set_sh]. rewrite N.eqb_refl. cbn [s_pol sh_map]. exact Hp1.
        - eapply IH; eassumption. }
      unfold in_sync. cbn zeta. rewrite Hpol', Hmap', N.eqb_refl.
      assert (HndT' : NoDup (keys (ptracked P p'))) by (eapply perm_NoDup_keys; [exact Hperm | apply without_NoDup; exact HndT]).
      split; [exact HndT'|]. intros k.
      rewrite (lookup_perm (ptracked P p') (without (v0 :: vt) T) k HndT' Hperm), lookup_without, afind_adel_all.
      assert (Hmem : mem k (map fst rem) = mem k (v0 :: vt)).
      { destruct (mem k (v0 :: vt)) eqn:E1.
        - apply mem_In. apply mem_In in E1. eapply Permutation_in; [apply Permutation_sym; exact Hsame | exact E1].
        - apply mem_false_In. apply mem_false_In in E1. intros Hx. apply E1. eapply Permutation_in; eassumption. }
      rewrite Hmem. destruct (mem k (v0 :: vt)); [reflexivity | apply Hsync].
    - intros j Hne. rewrite Hmap'. destruct (N.eqb_spec j i); [contradiction | reflexivity].
    - destruct (N.ltb_spec (total T) want) as [Hl|Hg].
      + right. rewrite Hmap', N.eqb_refl. apply afind_all_None. intros k. rewrite afind_adel_all.
        destruct (mem k (map fst rem)) eqn:Em; [reflexivity|].
        specialize (Hgreedy Hl). rewrite Hgreedy in Hperm. apply Permutation_nil in Hperm.
        pose proof (lookup_without k (v0 :: vt) T) as Hlw. rewrite Hperm in Hlw. cbn [lookup] in Hlw.
        assert (Hmem : mem k (v0 :: vt) = false).
        { apply mem_false_In. apply mem_false_In in Em. intros Hx. apply Em. eapply Permutation_in; [apply Permutation_sym; exact Hsame | exact Hx]. }
        rewrite Hmem in Hlw. specialize (Hsync k). rewrite <- Hlw in Hsync.
        destruct (afind k (smap s i)); [discriminate | reflexivity].
      + left. specialize (Hsuff Hg). rewrite Hres', <- Hcc, <- Hobs. unfold want in *. lia.
  Qed.
End C13cap.

(** * the full statement and its refutations on the code as found *)
Definition C13_cost_full (P : policy) (c : cfg) : Prop :=
  forall now0 ops, st_cc P (state_after P c now0 ops) = resident_cost P c (state_after P c now0 ops).

Definition c13_cfg (cap : N) : cfg := mkCfg 1 cap None None 60 1 false true false false no_fixes.

(* F-28: insert, remove, maintenance admits the stale Write event; a later capacity
   eviction nominates the non-resident key and subtracts its cost *)
Definition c13_ops_F28 : list op :=
  [OInsert 1 100 5; ORemove 1; OMaint []; OInsert 2 101 4; OMaint []].

Lemma c13_cost_refuted_F28 : ~ C13_cost_full LruP (c13_cfg 3).
Proof. intros H. specialize (H 1000 c13_ops_F28). vm_compute in H. discriminate. Qed.

(* F-29: Fifo keeps the old cost of a re-admitted key *)
Definition c13_ops_F29 : list op :=
  [OInsert 1 100 1; OMaint []; OInsert 1 101 8; OInsert 2 102 8; OMaint []].

Lemma c13_cost_refuted_F29 : ~ C13_cost_full FifoP (c13_cfg 10).
Proof. intros H. specialize (H 1000 c13_ops_F29). vm_compute in H. discriminate. Qed.

(* F-34: run_maintenance drains at most 16 Write events per shard: the 17th (an
   overwrite of key 1 with another cost) is still queued when capacity cleanup runs *)
Definition c13_ops_F34 : list op :=
  [OInsert 1 100 1] ++ map (fun i => OInsert 2 (200 + i) 5) (nseq 15) ++ [OInsert 1 101 0; OMaint []].

Lemma c13_cost_refuted_F34 : ~ C13_cost_full LruP (c13_cfg 4).
Proof. intros H. specialize (H 1000 c13_ops_F34). vm_compute in H. discriminate. Qed.

(* lossy buffer: 513 Write events for one shard, the last ones are dropped, among them the
   overwrite of key 1 with cost 0; metrics() with introspection drains everything that was kept *)
Definition c13_cfg_intro (cap : N) : cfg := mkCfg 1 cap None None 60 1 false true false true no_fixes.
Definition c13_ops_lossy : list op :=
  [OInsert 1 100 1] ++ map (fun i => OInsert 2 (200 + i) 5) (nseq 512) ++ [OInsert 1 101 0; OCost; OMaint []].

Lemma c13_cost_refuted_lossy : ~ C13_cost_full LruP (c13_cfg_intro 4).
Proof. intros H. specialize (H 1000 c13_ops_lossy). vm_compute in H. discriminate. Qed.

(** * the evict clause for the recency-list policies (Lru, Fifo share LruList::evict) *)
Lemma ll_evict_ok_at (l : lru_list) n :
  NoDup (keys l) ->
  let '(l', vs, f) := ll_evict n l in
  evict_ok l l' n vs f /\ (total l < n -> l' = []).
Proof.
  intros Hnd. destruct (ll_evict n l) as [[l' vs] f] eqn:E. split; [apply ll_evict_ok; assumption|].
  intros Hlt. destruct (ll_evict_order _ _ _ _ _ E) as [V [Hl [_ [Hf [[Hs|Hs] _]]]]]; [|exact Hs].
  exfalso. subst l. rewrite total_app, total_rev in Hlt. lia.
Qed.

Lemma lru_evict_ok_at (c : cfg) (s : state LruP) i : in_sync LruP s i -> evict_ok_at LruP s i.
Proof.
  intros [Hnd _] n. cbn [pstep LruP lru_step ptracked] in *.
  pose proof (ll_evict_ok_at (s_pol LruP (st_sh LruP s i)) n Hnd) as H.
  destruct (ll_evict n (s_pol LruP (st_sh LruP s i))) as [[l' vs] f]. exists vs, f. split; [reflexivity | exact H].
Qed.

Lemma fifo_evict_ok_at (c : cfg) (s : state FifoP) i : in_sync FifoP s i -> evict_ok_at FifoP s i.
Proof.
  intros [Hnd _] n. cbn [pstep FifoP fifo_step ptracked] in *.
  pose proof (ll_evict_ok_at (s_pol FifoP (st_sh FifoP s i)) n Hnd) as H.
  destruct (ll_evict n (s_pol FifoP (st_sh FifoP s i))) as [[l' vs] f]. exists vs, f. split; [reflexivity | exact H].
Qed.

(** * the capacity clause at the level of run_maintenance, and its refutations *)
Definition C13_capacity_full (P : policy) (c : cfg) : Prop :=
  forall now0 ops,
    let s' := run_maintenance P c [] (state_after P c now0 ops) in
    (forall i, s_evq P (st_sh P s' i) = []) -> st_evdrops P s' = 0 ->
    (resident_cost P c s' <= Z.of_N (c_cap c))%Z.

(* F-28: the stale tracked key is nominated, nothing resident is freed *)
Lemma c13_capacity_refuted_F28 : ~ C13_capacity_full LruP (c13_cfg 3).
Proof.
  intros H. specialize (H 1000 [OInsert 1 100 5; ORemove 1; OMaint []; OInsert 2 101 4]).
  cbn zeta in H. assert (Hx : (4 <= 3)%Z); [|lia].
  apply H; [intros i; vm_compute; destruct i; reflexivity | vm_compute; reflexivity].
Qed.

(* F-29: Fifo believes key 1 still costs 8 *)
Lemma c13_capacity_refuted_F29 : ~ C13_capacity_full FifoP (c13_cfg 10).
Proof.
  intros H. specialize (H 1000 [OInsert 1 100 8; OMaint []; OInsert 1 101 1; OInsert 2 102 8; OInsert 3 103 8]).
  cbn zeta in H. assert (Hx : (16 <= 10)%Z); [|lia].
  apply H; [intros i; vm_compute; destruct i; reflexivity | vm_compute; reflexivity].
Qed.
