(* Proofs/SpscK3Values.v — payload ids and API results of the K3 SPSC model: the ids accepted by
   the ring are strictly increasing (no duplicates), the API results the two threads have seen so
   far are tied to the ring's ghost lists, a failed send never entered the ring. *)
From Fibre Require Import Common.Base Common.Conc Chan.SpscK3 Proofs.SpscK3Proofs.
From Coq Require Import ZifyBool ZifyNat ZifyN Sorted.

Lemma pow2_ge_ok cap fuel : forall p, cap <= p * 2 ^ N.of_nat fuel -> cap <= pow2_ge fuel p cap.
Proof.
  induction fuel as [|f IH]; intros p H; cbn [pow2_ge].
  - cbn in H. lia.
  - destruct (N.leb_spec cap p); [assumption|]. apply IH.
    rewrite Nat2N.inj_succ, N.pow_succ_r' in H. lia.
Qed.

(* the physical length Ring::new computes is admissible for the theorems *)
Lemma phys_of_ge cap : cap <= phys_of cap.
Proof.
  unfold phys_of. apply pow2_ge_ok. rewrite N2Nat.id.
  pose proof (N.pow_gt_lin_r 2 cap ltac:(lia)). lia.
Qed.

(* ================================================================ ValInv: payload ids and API results *)
Definition pres_fail (r : pres) : list N :=
  match r with POk _ => [] | PFull v | PClosed v | PGone v => [v] end.
Definition failed (s : st) : list N := flat_map pres_fail (presults s).

Definition p_prepub pc := match pc with
  | PCd _ | PPush _ _ | PPark | PSwap | PSpinDec | PReg _ | PFence | PUnreg UClosed _ => true | _ => false end.
Definition p_postpub pc := match pc with
  | PUnreg UOk _ | PNfFence | PNfLd | PWake WNotify _ => true | _ => false end.
Definition c_inhand pc := match pc with
  | CPop _ StIdx | CUnreg CUVal _ | CNfFence | CNfLd | CWake WNotify _ => true | _ => false end.

Ltac vcl := cbn [p_prepub p_postpub c_inhand orb negb b2n].

Record ValInv (s : st) : Prop := {
  V_sorted : StronglySorted N.lt (accepted s);
  V_acc : Forall (fun x => x < pseq s + b2n (negb (p_prepub (ppc s)))) (accepted s);
  V_fail : Forall (fun x => x < pseq s + b2n (negb (p_prepub (ppc s) || p_postpub (ppc s)))) (failed s);
  V_disj : forall v, In v (failed s) -> ~ In v (accepted s);
  V_ok : sent_ok s ++ (if p_postpub (ppc s) then [pseq s] else []) = accepted s;
  V_got : bad s = false -> got s ++ (if c_inhand (cpc s) then [chand s] else []) = received s
}.

Lemma Val_init pp0 cp0 : ValInv (init pp0 cp0).
Proof. constructor; cbn; try constructor; try reflexivity. intros v []. Qed.

Lemma ssorted_snoc (l : list N) x : StronglySorted N.lt l -> Forall (fun y => y < x) l -> StronglySorted N.lt (l ++ [x]).
Proof.
  induction l as [|a l IH]; intros Hs Hf; cbn.
  - constructor; constructor.
  - inversion Hs; subst. inversion Hf; subst. constructor; [apply IH; assumption|].
    apply Forall_app. split; [assumption | constructor; [assumption | constructor]].
Qed.

Lemma Forall_lt_weaken (l : list N) a b : a <= b -> Forall (fun x => x < a) l -> Forall (fun x => x < b) l.
Proof. intros H. apply Forall_impl. intros; lia. Qed.

Ltac vfin V2 V3 V4 :=
  first
  [ assumption
  | congruence
  | solve [eapply Forall_lt_weaken; [|eassumption]; lia]
  | solve [apply Forall_app; split; [eapply Forall_lt_weaken; [|eassumption]; lia | repeat constructor; lia]]
  | solve [apply ssorted_snoc; [assumption | eapply Forall_lt_weaken; [|eassumption]; lia]]
  | solve [let v := fresh "v" in let Hi := fresh "Hi" in let Ha := fresh "Ha" in
           intros v Hi Ha; apply in_app_or in Hi; destruct Hi as [Hi | [Hi | []]];
           [ exact (V4 v Hi Ha) | subst v; rewrite Forall_forall in V2; specialize (V2 _ Ha); lia ]]
  | solve [let v := fresh "v" in let Hi := fresh "Hi" in let Ha := fresh "Ha" in
           intros v Hi Ha; apply in_app_or in Ha; destruct Ha as [Ha | [Ha | []]];
           [ exact (V4 v Hi Ha) | subst v; rewrite Forall_forall in V3; specialize (V3 _ Hi); lia ]] ].

Section V.
Variables cap phys : N.

Lemma Val_step s t c s' e : LifeInv s -> ValInv s -> step cap phys s t c = Some (s', e) -> ValInv s'.
Proof.
  intros HL [V1 V2 V3 V4 V5 V6] Hs.
  pose proof (L_pcl _ HL) as Lpcl. clear HL.
  destruct t; cbn [step] in Hs; [unfold pstep in Hs | unfold cstep in Hs].
  - destruct (ppc s) eqn:Epc; rewrite ?Epc in *; cbn [p_afterswap p_afterst p_aftersub] in Lpcl; vcl; cbn [p_prepub p_postpub orb negb b2n] in V2, V3, V5;
      unf_steps; inv_step Hs; unf_steps; split_goal.
    all: try congruence.
    all: constructor; unfold failed, sent_ok, got in *; st_goal; rewrite ?Epc; vcl;
      rewrite ?flat_map_app; cbn [flat_map pres_ok pres_fail cres_val]; rewrite ?app_nil_r in *.
    all: cbn [p_prepub p_postpub negb orb b2n] in V2, V3, V5.
    all: try (match goal with |- bad _ = false -> _ => intros Hb; specialize (V6 Hb) end).
    all: try vfin V2 V3 V4.
  - destruct (cpc s) eqn:Epc; rewrite ?Epc in *; vcl; cbn [c_inhand] in V6;
      unf_steps; inv_step Hs; unf_steps; split_goal.
    all: constructor; unfold failed, sent_ok, got in *; st_goal; rewrite ?Epc; vcl;
      rewrite ?flat_map_app; cbn [flat_map pres_ok pres_fail cres_val]; rewrite ?app_nil_r in *.
    all: cbn [p_prepub p_postpub negb orb b2n] in V2, V3, V5.
    all: try (intros Hb; try discriminate Hb; specialize (V6 Hb)).
    all: try vfin V2 V3 V4.
Qed.
End V.

Definition hand_c (s : st) : list N := if c_inhand (cpc s) then [chand s] else [].
Definition hand_p (s : st) : list N :=
  (if p_postpub (ppc s) then [pseq s] else []) ++ (if wrote s then [pseq s] else []).

Lemma ssorted_nodup (l : list N) : StronglySorted N.lt l -> NoDup l.
Proof.
  induction 1 as [|a l Hs IH Hf]; constructor; [|assumption].
  intros Hi. rewrite Forall_forall in Hf. specialize (Hf _ Hi). lia.
Qed.

Lemma nodup_app_l (a b : list N) : NoDup (a ++ b) -> NoDup a.
Proof.
  induction a as [|x a IH]; cbn; intros H; [constructor|].
  inversion H; subst. constructor; [|apply IH; assumption].
  intros Hi. apply H2. apply in_or_app. left. exact Hi.
Qed.

Section VMain.
Variables cap phys : N.
Hypothesis Hcap : 0 < cap.
Hypothesis Hphys : cap <= phys.
Variable pp0 : list pop.
Variable cp0 : list cop.

Theorem Val_reachable s : reachable (sys cap phys pp0 cp0) s -> ValInv s.
Proof.
  intros Hr.
  assert (H : LifeInv s /\ ValInv s); [|exact (proj2 H)].
  revert s Hr. apply (invariant_lift (sys cap phys pp0 cp0) (fun s => LifeInv s /\ ValInv s)).
  - split; [apply Life_init | apply Val_init].
  - intros s0 t c s' e [HL HV] Hs. split;
      [exact (Life_step cap phys s0 t c s' e HL Hs) | exact (Val_step cap phys s0 t c s' e HL HV Hs)].
Qed.

(* accepted ids are strictly increasing: in particular no id is accepted (hence delivered) twice *)
Theorem accepted_strictly_increasing s :
  reachable (sys cap phys pp0 cp0) s -> StronglySorted N.lt (accepted s) /\ NoDup (accepted s).
Proof.
  intros Hr. pose proof (V_sorted _ (Val_reachable s Hr)) as H. split; [exact H | apply ssorted_nodup; exact H].
Qed.

(* conservation in terms of what the two threads have actually been told by the API:
   values returned by receives ++ the one in the consumer's hand ++ dropped by Ring::drop ++ owned
   by the ring  =  values whose send returned Ok ++ the one the producer has in flight *)
Theorem results_conservation s :
  reachable (sys cap phys pp0 cp0) s ->
  (got s ++ hand_c s) ++ dropped s ++ buffered s = sent_ok s ++ hand_p s.
Proof.
  intros Hr. pose proof (Val_reachable s Hr) as HV.
  pose proof (fifo_conservation cap phys Hcap Hphys pp0 cp0 s Hr) as HF.
  pose proof (R_bad _ _ _ (I_ring _ _ _ (Inv_reachable cap phys Hcap Hphys pp0 cp0 s Hr))) as Hbad.
  unfold hand_c, hand_p. rewrite (V_got _ HV Hbad), (app_assoc (sent_ok s)), (V_ok _ HV). exact HF.
Qed.

Theorem delivered_once_in_order s :
  reachable (sys cap phys pp0 cp0) s ->
  NoDup (got s) /\ exists rest, accepted s = (got s ++ hand_c s) ++ rest.
Proof.
  intros Hr. pose proof (Val_reachable s Hr) as HV.
  pose proof (fifo_conservation cap phys Hcap Hphys pp0 cp0 s Hr) as HF.
  destruct (accepted_strictly_increasing s Hr) as [_ Hnd].
  pose proof (R_bad _ _ _ (I_ring _ _ _ (Inv_reachable cap phys Hcap Hphys pp0 cp0 s Hr))) as Hbad.
  assert (Hpre : exists rest, accepted s = received s ++ rest).
  { destruct (I_ring _ _ _ (Inv_reachable cap phys Hcap Hphys pp0 cp0 s Hr)) as [_ _ _ _ _ _ _ _ _ Rfifo _ _ _].
    exists (dropped s ++ skipn (N.to_nat (lo s)) (accepted s)).
    rewrite app_assoc, Rfifo. symmetry. apply firstn_skipn. }
  destruct Hpre as [rest Hrest]. split.
  - unfold hand_c in *. rewrite <- (V_got _ HV Hbad) in Hrest. rewrite Hrest in Hnd.
    apply nodup_app_l in Hnd. apply nodup_app_l in Hnd. exact Hnd.
  - exists rest. unfold hand_c. rewrite (V_got _ HV Hbad). exact Hrest.
Qed.

(* a failed send (Full / Closed, value handed back or dropped by send itself) never entered the ring *)
Theorem failed_send_not_accepted s v :
  reachable (sys cap phys pp0 cp0) s -> In v (failed s) -> ~ In v (accepted s).
Proof. intros Hr. apply (V_disj _ (Val_reachable s Hr)). Qed.

(* at the end: every value whose send returned Ok was either returned by a receive or dropped by
   Ring::drop, exactly once, in order *)
Theorem final_accounting s :
  reachable (sys cap phys pp0 cp0) s -> ppc s = PDone -> cpc s = CDone ->
  got s ++ dropped s = sent_ok s.
Proof.
  intros Hr Ep Ec. pose proof (Val_reachable s Hr) as HV.
  destruct (teardown_drains_residue cap phys Hcap Hphys pp0 cp0 s Hr Ep Ec) as [_ H].
  pose proof (V_got _ HV (R_bad _ _ _ (I_ring _ _ _ (Inv_reachable cap phys Hcap Hphys pp0 cp0 s Hr)))) as G. pose proof (V_ok _ HV) as O. rewrite Ep in O. rewrite Ec in G.
  cbn in G, O. rewrite app_nil_r in G, O. congruence.
Qed.
End VMain.
