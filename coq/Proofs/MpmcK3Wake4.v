(* Proofs/MpmcK3Wake4.v — milestone 3 (wake protocol), part 4: wake accounting (InvAcc), scan indices
   (InvS), the combined invariant Inv3 for the repaired configuration, and the C05 / C09 theorems:
   no lost wakeup (safety form), deadlock freedom, no access to a dead waiter record. *)
From Coq Require Import List NArith Arith Bool Lia Sorted.
From Fibre Require Import Common.Conc Chan.MpmcK3 Proofs.MpmcK3Base Proofs.MpmcK3Queue Proofs.MpmcK3Res Proofs.MpmcK3Proofs
  Proofs.MpmcK3Life Proofs.MpmcK3Wake1 Proofs.MpmcK3Wake2 Proofs.MpmcK3Wake3.
Import ListNotations.

Lemma remove1_length t l : length l <= S (length (remove1 t l)).
Proof. induction l as [|a l IH]; cbn; [lia|]. destruct (Nat.eqb a t); cbn; lia. Qed.

(* the receiver holding the lock has popped a value and is still looking for a sender to tell *)
Definition rscan_of (l : option nat) (p : nat -> pc) : nat :=
  match l with
  | Some h => match p h with RScan _ _ _ => 1 | _ => 0 end
  | None => 0
  end.

Lemma rscan_frame s t p' :
  InvL s -> in_sec (pcs s t) = false -> rscan_of (lk s) (upd (pcs s) t p') = rscan_of (lk s) (pcs s).
Proof.
  intros [L1 L2] X. unfold rscan_of. destruct (lk s) as [h|] eqn:Lk; [|reflexivity].
  assert (N : h <> t) by (intros ->; specialize (L2 t eq_refl); congruence).
  rewrite upd_neq by exact N. reflexivity.
Qed.

(* wake accounting: while some receiver is linked and WAITING, every buffered value is matched by
   a signalled receiver that still owes its try_recv_core; while some sender is linked and WAITING,
   every free slot is matched by a signalled sender that still owes its retry (or by the
   receiver that has just popped and is still scanning for a sender to signal) *)
Record InvAcc (cap : nat) (s : st) : Prop := {
  W_r : has_w (flag s) (wr s) -> length (q s) <= length (owedR s);
  W_s : has_w (flag s) (ws s) -> cap - length (q s) <= length (owedS s) + rscan_of (lk s) (pcs s) }.

Ltac acc_norm HL L1t Epc RF :=
  rewrite ?upd_eq in *;
  try rewrite (RF _ HL eq_refl) in *;
  try (rewrite (L1t eq_refl) in *; rewrite ?upd_eq in *; rewrite ?Epc in * );
  cbn iota in *.

Ltac acc_arith Q1 t :=
  match goal with s : st |- _ =>
    pose proof (remove1_length t (owedS s)); pose proof (remove1_length t (owedR s)) end;
  arith_facts; nil_facts;
  repeat match goal with Hq : q _ = _ |- _ => rewrite Hq in * end;
  rewrite ?app_length in *; cbn [length] in *; lia.

Lemma InvAcc_step cap cf s t c s' e :
  InvL s -> InvQ cap s -> InvE s -> InvP s -> InvC s -> InvAcc cap s ->
  step cap cf s t c = Some (s', e) -> InvAcc cap s'.
Proof.
  intros HL [Q1 Q2 Q3 Q4 Q5] [Er Es Nr Ns Eb Ed Eds] [Ps Pr Pd] [Cr Cs] [Wr Ws] H.
  pose proof (proj1 HL t) as L1t. pose proof (Ps t) as Pst. pose proof (Pr t) as Prt.
  pose proof (rscan_frame s t) as RF. unfold rscan_of in Ws, RF.
  step_cases H; cbn [in_sec] in *.
  all: try solve [ entry_valid Er Es ].
  all: try match goal with E : false && _ = true |- _ => discriminate E end.
  all: constructor; fsimpl; unfold rscan_of; fsimpl; intros W.
  all: acc_norm HL L1t Epc RF.
  all: try solve [ w_old W; first [ pose proof (Wr W) | pose proof (Ws W) ]; acc_arith Q1 t ].
  (* Closed answer of try_send_core: nobody is linked and WAITING unless a closer scans, but the lock was free *)
  all: try solve [ exfalso; arith_facts;
         match goal with Z : rcnt _ = 0 |- _ => destruct (Cs Z W) as (hh & ii & ww & Hp & _) end;
         pose proof (proj1 HL hh) as X; rewrite Hp in X; specialize (X eq_refl); congruence ].
  (* push / pop without a wake: no record was linked *)
  all: try solve [ exfalso; match type of W with has_w _ ?l => destruct l eqn:Hw end;
         [ exact (has_w_nil _ W) | cbn [isnil negb andb] in *; arith_facts; nil_facts; arith_facts; first [ lia | discriminate ] ] ].
  (* the scan is complete and every CAS failed: nobody linked is WAITING *)
  all: try solve [ exfalso; revert W; eapply scanned_all;
         [ first [ eapply Pst; reflexivity | eapply Prt; reflexivity ] | eassumption | cas_failed; assumption | assumption ] ].
  (* registration *)
  all: try solve [ nil_facts; match goal with Hq : q _ = [] |- _ => rewrite Hq end; cbn [length]; lia ].
  all: try solve [ apply has_w_upd_notin in W;
         [ first [ pose proof (Wr W) | pose proof (Ws W) ]; acc_arith Q1 t
         | intros gg Hg; first [ destruct (Es _ _ Hg) as (_ & Y) | destruct (Er _ _ Hg) as (_ & Y & _) ];
           rewrite Epc in Y; discriminate Y ] ].
  all: try solve [ destruct (Nat.eqb_spec (qlen s) cap); destruct (Nat.ltb_spec 0 cap); destruct (Nat.ltb_spec (qlen s) cap);
                   destruct (isnil (wr s)); cbn in E0; try discriminate E0; lia ].
Qed.

(* a scanning lock holder's index is inside the list it scans; an unparking closer has somebody left
   to unpark; a CANCELLED flag belongs to a thread that has left its wait loop *)
Record InvS (s : st) : Prop := {
  S_s : forall h k i, pcs s h = SScan k i -> i < length (wr s);
  S_r : forall h k v i, pcs s h = RScan k v i -> i < length (ws s);
  S_d : forall h a i w, pcs s h = DScan a i w -> i < length (if is_prod (prog s h) then wr s else ws s);
  S_u : forall h, pcs s h <> DUnpark [];
  S_c : forall u, flag s u = FCancelled -> r_wait (pcs s u) = false /\ s_wait (pcs s u) = false }.

Lemma isnil_len A (l : list A) : isnil l = false -> 0 < length l.
Proof. destruct l; cbn; [discriminate|lia]. Qed.

Lemma InvS_step cap cf s t c s' e :
  InvL s -> InvE s -> InvS s -> step cap cf s t c = Some (s', e) -> InvS s'.
Proof.
  intros HL [Er Es Nr Ns Eb Ed Eds] [Ss Sr Sd Su Sc] H.
  pose proof (proj1 HL t) as L1t. pose proof (Su t) as Sut. pose proof (Sc t) as Sct.
  step_cases H; cbn [in_sec r_wait s_wait] in *.
  all: try solve [ entry_valid Er Es ].
  all: try match goal with E : false && _ = true |- _ => discriminate E end.
  all: constructor; fsimpl.
  (* S_u *)
  all: try solve [ intros hh X; split_thr hh t; [ first [ discriminate X | congruence ] | exact (Su _ X) ] ].
  (* S_c *)
  all: try solve [ intros uu X;
         first [ split_thr uu t;
                 [ cbn [r_wait s_wait]; first [ split; reflexivity | discriminate X | exact (Sct X) ]
                 | first [ exact (Sc _ X)
                         | unfold upd in X; match type of X with (if ?b then _ else _) = _ => destruct b end;
                           [ discriminate X | exact (Sc _ X) ] ] ] ] ].
  (* scan indices *)
  all: try solve [ intros hh k0 i0 X; split_thr hh t;
         [ try discriminate X; inversion X; subst; arith_facts; nil_facts;
           first [ assumption | apply isnil_len; assumption | lia ]
         | first [ eapply Ss; eassumption | kill_other HL L1t X ] ] ].
  all: try solve [ intros hh k0 v0 i0 X; split_thr hh t;
         [ try discriminate X; inversion X; subst; arith_facts; nil_facts;
           first [ assumption | apply isnil_len; assumption | lia ]
         | first [ eapply Sr; eassumption | kill_other HL L1t X ] ] ].
  all: try solve [ intros hh a0 i0 w0 X; split_thr hh t;
         [ try discriminate X; inversion X; subst;
           try match goal with E : is_prod (prog _ _) = _ |- _ => rewrite E in *; cbn iota in * end;
           arith_facts; nil_facts;
           first [ assumption | apply isnil_len; assumption | lia ]
         | rewrite ?next_prog_role; first [ eapply Sd; eassumption | kill_other HL L1t X ] ] ].
Qed.

(* ------------------------------------------------------------------ the combined invariant *)
Record Inv3 (cap n : nat) (s : st) : Prop := {
  I_l : InvL s; I_q : InvQ cap s; I_t : InvT n s; I_e : InvE s; I_k : InvK s; I_tk : InvTk s;
  I_p : InvP s; I_c : InvC s; I_o : InvO s; I_acc : InvAcc cap s; I_s : InvS s }.

Ltac init_pc th u := destruct (init_pcs th u) as [?E|?E]; rewrite E in *; try discriminate.

Lemma Inv3_init cap th : Inv3 cap (length th) (init th).
Proof.
  destruct (Inv1_init cap th) as (HL & HQ & _).
  constructor; try assumption.
  - apply InvT_init.
  - constructor; cbn [init wr ws bad]; try (intros; contradiction); try constructor.
    + intros u. init_pc th u; reflexivity.
    + intros u i w X. init_pc th u.
  - constructor; intros u X; init_pc th u.
  - intros u X. init_pc th u.
  - constructor; intros; match goal with X : pcs (init th) ?h = _ |- _ => init_pc th h end.
  - constructor; cbn [init wr ws flag]; intros _ W; exfalso; exact (has_w_nil _ W).
  - constructor; cbn [init owedR owedS]; try (intros; contradiction); try constructor.
    intros u X. init_pc th u.
  - constructor; cbn [init wr ws flag]; intros W; exfalso; exact (has_w_nil _ W).
  - constructor.
    + intros h k i X. init_pc th h.
    + intros h k v i X. init_pc th h.
    + intros h a i w X. init_pc th h.
    + intros h X. init_pc th h.
    + intros u X. cbn [init flag] in X. discriminate X.
Qed.

Lemma Inv3_step cap n cf s t c s' e :
  rearm_after_steal cf = true -> redrain_on_close cf = true ->
  Inv3 cap n s -> step cap cf s t c = Some (s', e) -> Inv3 cap n s'.
Proof.
  intros H1 H2 [HL HQ HT HE HK HTk HP HC HO HA HS] H. constructor.
  - eapply InvL_step; eassumption.
  - eapply InvQ_step; eassumption.
  - eapply InvT_step; eassumption.
  - eapply InvE_step; eassumption.
  - eapply InvK_step; eassumption.
  - eapply InvTk_step; eassumption.
  - eapply InvP_step; eassumption.
  - eapply InvC_step; eassumption.
  - eapply InvO_step; eassumption.
  - eapply InvAcc_step; eassumption.
  - eapply InvS_step; eassumption.
Qed.

Lemma Inv3_reachable cap cf th s :
  rearm_after_steal cf = true -> redrain_on_close cf = true ->
  reachable (sys cap cf th) s -> Inv3 cap (length th) s.
Proof.
  intros H1 H2. apply (invariant_lift (sys cap cf th) (Inv3 cap (length th))).
  - apply Inv3_init.
  - intros s0 t c s' e HI H. change (step cap cf s0 t c = Some (s', e)) in H. eapply Inv3_step; eassumption.
Qed.

(* ------------------------------------------------------------------ who can be stuck *)
Definition wait_next (p : pc) : bool := match p with SWNext | RWNext | TWNext | TDeafNext => true | _ => false end.
Definition lockpc (p : pc) : bool :=
  match p with
  | SLock _ | SRegLock | SUnlLock _ | RLock _ | RRegLock _ | TCancelLock | RUnlLock _ | DLock => true
  | _ => false
  end.

Lemma stuck_inv cap cf s t :
  step cap cf s t CGo = None ->
  pcs s t = Done \/ pcs s t = Panicked \/ (wait_next (pcs s t) = true /\ tok s t = false) \/
  (lockpc (pcs s t) = true /\ lk s <> None) \/
  (exists k i, pcs s t = SScan k i /\ nth_error (wr s) i = None) \/
  (exists k v i, pcs s t = RScan k v i /\ nth_error (ws s) i = None) \/
  (exists a i w, pcs s t = DScan a i w /\ nth_error (if is_prod (prog s t) then wr s else ws s) i = None) \/
  pcs s t = DUnpark [].
Proof.
  intros H. unfold step in H. destruct (pcs s t) eqn:Epc; cbn [wait_next lockpc].
  all: try solve [ left; reflexivity | right; left; reflexivity ].
  all: try solve [ right; right; right; left; split; [reflexivity|]; destruct (lk s); [discriminate|discriminate H] ].
  all: try solve [ right; right; left; split; [reflexivity|]; destruct (tok s t); [discriminate H|reflexivity] ].
  all: try solve [ exfalso; unfold ret, fin, fin_disc in H; repeat break_match H; discriminate H ].
  - (* SScan *) right. right. right. right. left. exists k, i. split; [reflexivity|].
    destruct (nth_error (wr s) i) as [[u g]|]; [|reflexivity]. exfalso.
    unfold cas_entry, ret in H; repeat break_match H; discriminate H.
  - (* RScan *) right. right. right. right. right. left. exists k, v, i. split; [reflexivity|].
    destruct (nth_error (ws s) i) as [[u g]|]; [|reflexivity]. exfalso.
    unfold cas_entry, ret in H; repeat break_match H; discriminate H.
  - (* DScan *) right. right. right. right. right. right. left. exists all, i, w. split; [reflexivity|].
    destruct (nth_error (if is_prod (prog s t) then wr s else ws s) i) as [[u g]|]; [|reflexivity]. exfalso.
    unfold cas_entry, ret in H; repeat break_match H; discriminate H.
  - (* DUnpark *) destruct w; [right; right; right; right; right; right; right; reflexivity|]. exfalso.
    unfold ret in H; repeat break_match H; discriminate H.
Qed.

Lemma park_wait p : park_pc p = true -> r_wait p = true \/ s_wait p = true.
Proof. destruct p; cbn; try discriminate; auto. Qed.

Section Final.
  Variables (cap : nat) (cf : cfg) (th : list tprog) (s : st).
  Hypothesis Hcap : 0 < cap.
  Hypothesis Hcf1 : rearm_after_steal cf = true.
  Hypothesis Hcf2 : redrain_on_close cf = true.
  Hypothesis Hr : reachable (sys cap cf th) s.

  Let HI := Inv3_reachable cap cf th s Hcf1 Hcf2 Hr.

  (* ---- C09: no access to a dead waiter record, no unreachable!() *)
  Theorem no_bad : bad s = false.
  Proof. apply (E_bad _ (I_e _ _ _ HI)). Qed.

  (* a linked record is the current done_flag of a thread whose frame is alive *)
  Theorem linked_records_live :
    (forall u g, In (u, g) (wr s) -> g = gen s u /\ in_frame (pcs s u) = true) /\
    (forall u g, In (u, g) (ws s) -> g = gen s u /\ in_frame (pcs s u) = true) /\
    NoDup (map fst (wr s)) /\ NoDup (map fst (ws s)).
  Proof.
    pose proof (I_e _ _ _ HI) as HE. split; [|split; [|split]].
    - intros u g X. destruct (E_r _ HE _ _ X) as (A & B & _). split; [exact A|apply r_link_frame; exact B].
    - intros u g X. destruct (E_s _ HE _ _ X) as (A & B). split; [exact A|apply s_link_frame; exact B].
    - apply (E_ndr _ HE).
    - apply (E_nds _ HE).
  Qed.

  (* ---- C05 *)
  Hypothesis Hq : quiescent_go cap cf s.

  Lemma lock_free : lk s = None.
  Proof.
    destruct (lk s) as [h|] eqn:Lk; [exfalso|reflexivity].
    pose proof (proj2 (I_l _ _ _ HI) h Lk) as X.
    pose proof (I_s _ _ _ HI) as HS.
    destruct (stuck_inv _ _ _ _ (Hq h)) as [A|[A|[[A _]|[[A _]|[A|[A|[A|A]]]]]]].
    - rewrite A in X. discriminate.
    - rewrite A in X. discriminate.
    - destruct (pcs s h); discriminate.
    - destruct (pcs s h); discriminate.
    - destruct A as (k & i & A & B). apply nth_error_None in B. pose proof (S_s _ HS _ _ _ A). lia.
    - destruct A as (k & v & i & A & B). apply nth_error_None in B. pose proof (S_r _ HS _ _ _ _ A). lia.
    - destruct A as (a & i & w & A & B). apply nth_error_None in B. pose proof (S_d _ HS _ _ _ _ A). lia.
    - exact (S_u _ HS _ A).
  Qed.

  Lemma stuck_thread t : pcs s t = Done \/ (park_pc (pcs s t) = true /\ tok s t = false).
  Proof.
    pose proof (I_s _ _ _ HI) as HS. pose proof (E_deaf _ (I_e _ _ _ HI) t) as Dt.
    destruct (stuck_inv _ _ _ _ (Hq t)) as [A|[A|[[A B]|[[_ A]|[A|[A|[A|A]]]]]]].
    - left. exact A.
    - rewrite A in Dt. discriminate.
    - right. split; [|exact B]. destruct (pcs s t); try discriminate; reflexivity.
    - exfalso. apply A. apply lock_free.
    - exfalso. destruct A as (k & i & A & B). apply nth_error_None in B. pose proof (S_s _ HS _ _ _ A). lia.
    - exfalso. destruct A as (k & v & i & A & B). apply nth_error_None in B. pose proof (S_r _ HS _ _ _ _ A). lia.
    - exfalso. destruct A as (a & i & w & A & B). apply nth_error_None in B. pose proof (S_d _ HS _ _ _ _ A). lia.
    - exfalso. exact (S_u _ HS _ A).
  Qed.

  Lemma nobody_pending h : pend (pcs s h) = [].
  Proof. destruct (stuck_thread h) as [A|[A _]]; [rewrite A; reflexivity|]. destruct (pcs s h); try discriminate; reflexivity. Qed.

  Lemma parked_waiting u : park_pc (pcs s u) = true -> tok s u = false -> flag s u = FWaiting.
  Proof.
    intros P T. destruct (f_fin (flag s u)) eqn:F.
    - exfalso. destruct (I_tk _ _ _ HI u P F) as [X|[h X]]; [congruence|]. rewrite nobody_pending in X. destruct X.
    - destruct (flag s u) eqn:Fl; try discriminate F; [reflexivity|]. exfalso.
      destruct (S_c _ (I_s _ _ _ HI) u Fl) as [A B]. destruct (park_wait _ P); congruence.
  Qed.

  Lemma owedR_nil : owedR s = [].
  Proof.
    destruct (owedR s) as [|x l] eqn:E; [reflexivity|exfalso].
    pose proof (O_r _ (I_o _ _ _ HI) x) as A. rewrite E in A. specialize (A (or_introl eq_refl)).
    destruct (stuck_thread x) as [D|[P T]].
    - rewrite D in A. discriminate.
    - pose proof (parked_waiting x P T) as W. rewrite W in A. destruct (pcs s x); discriminate.
  Qed.

  Lemma owedS_nil : owedS s = [].
  Proof.
    destruct (owedS s) as [|x l] eqn:E; [reflexivity|exfalso].
    pose proof (O_s _ (I_o _ _ _ HI) x) as A. rewrite E in A. specialize (A (or_introl eq_refl)).
    destruct (stuck_thread x) as [D|[P T]].
    - rewrite D in A. discriminate.
    - pose proof (parked_waiting x P T) as W. rewrite W in A. destruct (pcs s x); discriminate.
  Qed.

  Lemma no_closer h a i w : pcs s h <> DScan a i w.
  Proof. intros X. destruct (stuck_thread h) as [D|[P _]]; rewrite X in *; discriminate. Qed.

  (* no lost wakeup, receivers: a receiver parked in a quiescent state faces an empty ring and a live sender *)
  Theorem parked_receiver u :
    pcs s u = RWNext \/ pcs s u = TWNext -> tok s u = false -> q s = [] /\ scnt s <> 0.
  Proof.
    intros P T.
    assert (Pp : park_pc (pcs s u) = true) by (destruct P as [P|P]; rewrite P; reflexivity).
    assert (Rw : r_wait (pcs s u) = true) by (destruct P as [P|P]; rewrite P; reflexivity).
    pose proof (parked_waiting u Pp T) as W.
    pose proof (K_r _ (I_k _ _ _ HI) u Rw W) as L.
    assert (HW : has_w (flag s) (wr s)) by (exists u, (gen s u); split; assumption).
    split.
    - pose proof (W_r _ _ (I_acc _ _ _ HI) HW) as A. rewrite owedR_nil in A. destruct (q s); [reflexivity|cbn in A; lia].
    - intros Z. destruct (C_r _ (I_c _ _ _ HI) Z HW) as (h & i & w & X & _). exact (no_closer _ _ _ _ X).
  Qed.

  (* no lost wakeup, senders: a sender parked in a quiescent state faces a full ring and a live receiver *)
  Theorem parked_sender u :
    pcs s u = SWNext -> tok s u = false -> length (q s) = cap /\ rcnt s <> 0.
  Proof.
    intros P T.
    assert (Pp : park_pc (pcs s u) = true) by (rewrite P; reflexivity).
    assert (Sw : s_wait (pcs s u) = true) by (rewrite P; reflexivity).
    pose proof (parked_waiting u Pp T) as W.
    pose proof (K_s _ (I_k _ _ _ HI) u Sw W) as L.
    assert (HW : has_w (flag s) (ws s)) by (exists u, (gen s u); split; assumption).
    split.
    - pose proof (W_s _ _ (I_acc _ _ _ HI) HW) as A. rewrite owedS_nil, lock_free in A. cbn in A.
      pose proof (Q_cap _ _ (I_q _ _ _ HI)). lia.
    - intros Z. destruct (C_s _ (I_c _ _ _ HI) Z HW) as (h & i & w & X & _). exact (no_closer _ _ _ _ X).
  Qed.

  (* consequently nobody is parked in a quiescent state: the only states of any schedule in which no
     thread can take a normal step are the final ones *)
  Theorem deadlock_free : forall t, pcs s t = Done.
  Proof.
    pose proof (I_t _ _ _ HI) as HT.
    assert (NoR : forall u, pcs s u = RWNext \/ pcs s u = TWNext -> tok s u = false -> False).
    { intros u P T. destruct (parked_receiver u P T) as [Qe Sn].
      rewrite (T_scnt _ _ HT) in Sn. destruct (cnt_pos _ _ Sn) as (p & _ & Ap).
      unfold alive_p in Ap. apply andb_prop in Ap. destruct Ap as [Pp Dp]. apply negb_true_iff in Dp.
      destruct (stuck_thread p) as [D|[Pk Tk]]; [rewrite D in Dp; discriminate|].
      destruct (pcs s p) eqn:Ep; try discriminate Pk.
      - destruct (parked_sender p Ep Tk) as [L _]. rewrite Qe in L. cbn in L. lia.
      - pose proof (T_r _ _ HT p) as X. rewrite Ep in X. specialize (X eq_refl). congruence.
      - pose proof (T_r _ _ HT p) as X. rewrite Ep in X. specialize (X eq_refl). congruence. }
    assert (NoS : forall u, pcs s u = SWNext -> tok s u = false -> False).
    { intros u P T. destruct (parked_sender u P T) as [Qf Rn].
      rewrite (T_rcnt _ _ HT) in Rn. destruct (cnt_pos _ _ Rn) as (p & _ & Ap).
      unfold alive_c in Ap. apply andb_prop in Ap. destruct Ap as [Pp Dp]. apply negb_true_iff in Pp. apply negb_true_iff in Dp.
      destruct (stuck_thread p) as [D|[Pk Tk]]; [rewrite D in Dp; discriminate|].
      destruct (pcs s p) eqn:Ep; try discriminate Pk.
      - pose proof (T_s _ _ HT p) as X. rewrite Ep in X. specialize (X eq_refl). congruence.
      - destruct (parked_receiver p (or_introl Ep) Tk) as [Qe _]. rewrite Qe in Qf. cbn in Qf. lia.
      - destruct (parked_receiver p (or_intror Ep) Tk) as [Qe _]. rewrite Qe in Qf. cbn in Qf. lia. }
    intros t. destruct (stuck_thread t) as [D|[Pk Tk]]; [exact D|exfalso].
    destruct (pcs s t) eqn:Ep; try discriminate Pk.
    - apply (NoS t); [exact Ep|exact Tk].
    - apply (NoR t); [left; exact Ep|exact Tk].
    - apply (NoR t); [right; exact Ep|exact Tk].
  Qed.
End Final.
