(* Proofs/RvK3Thm.v — property lemmas of the K3' rendezvous model, for every reachable state of
   `sys true cfg` (cancel CAS under the lock): exactly-once delivery (C01), a send completes only
   by pairing (C03), no lost wakeup / deadlock freedom (C05), payload and record ownership (C09). *)
From Coq Require Import List NArith Arith Bool Lia.
From Fibre Require Import Common.Conc Chan.RvK3 Proofs.RvK3Base Proofs.RvK3Queue Proofs.RvK3Cell
  Proofs.RvK3Val Proofs.RvK3Wake Proofs.RvK3Count Proofs.RvK3Proofs.
Import ListNotations.

(* ------------------------------------------------------------------ list helpers *)
Lemma fst_unique A B (l : list (A * B)) v a b :
  NoDup (map fst l) -> In (v, a) l -> In (v, b) l -> a = b.
Proof.
  induction l as [|[x y] l IH]; intros N Ha Hb; [destruct Ha|].
  cbn [map fst] in N. apply NoDup_cons_inv in N. destruct N as [N1 N2].
  destruct Ha as [Ha|Ha], Hb as [Hb|Hb].
  - congruence.
  - inversion Ha; subst. exfalso. apply N1. apply in_map_iff. exists (v, b). split; [reflexivity|exact Hb].
  - inversion Hb; subst. exfalso. apply N1. apply in_map_iff. exists (v, a). split; [reflexivity|exact Ha].
  - exact (IH N2 Ha Hb).
Qed.

Lemma NoDup_map_filter A B (f : A -> B) (p : A -> bool) l : NoDup (map f l) -> NoDup (map f (filter p l)).
Proof.
  induction l as [|x l IH]; intros N; [constructor|].
  cbn [map] in N. apply NoDup_cons_inv in N. destruct N as [N1 N2]. cbn [filter].
  destruct (p x); [|exact (IH N2)]. cbn [map]. constructor; [|exact (IH N2)].
  intros H. apply N1. apply in_map_iff in H. destruct H as [y [Hy Hin]]. apply filter_In in Hin.
  apply in_map_iff. exists y. tauto.
Qed.

Lemma In_handed_to s v r : In v (handed_to s r) <-> In (v, r) (handed s).
Proof.
  unfold handed_to. rewrite in_map_iff. split.
  - intros [[v' r'] [Hf Hin]]. apply filter_In in Hin. destruct Hin as [Hin He]. cbn in *.
    apply Nat.eqb_eq in He. subst. exact Hin.
  - intros H. exists (v, r). split; [reflexivity|]. apply filter_In. split; [exact H|]. cbn. apply Nat.eqb_refl.
Qed.

Lemma In_res_ok r v : In v (res_ok r) -> r = POk v.
Proof. destruct r; cbn; intros H; try contradiction. destruct H as [->|[]]. reflexivity. Qed.
Lemma In_res_failed r v : In v (res_failed r) -> res_sval r = Some v /\ is_pok r = false.
Proof. destruct r; cbn; intros H; try contradiction; destruct H as [->|[]]; split; reflexivity. Qed.

Section Thm.
  Variable cfg : list tcfg.
  Variable s : st.
  Hypothesis HR : reachable (sys true cfg) s.

  Let HI : Inv cfg s := Inv_reachable cfg s HR.

  (* ---------------------------------------------------------------- C01 / C03 *)
  (* a send reported Ok only if its payload was handed to a receiver *)
  Lemma ok_is_handed p v :
    is_sender cfg p = true -> In v (sent_ok s p) -> exists r, In (v, r) (handed s) /\ is_receiver cfg r = true.
  Proof.
    intros Hp Hv. unfold sent_ok in Hv. apply in_flat_map in Hv. destruct Hv as [res [Hres Hv]].
    apply In_res_ok in Hv. subst res. apply In_nth_error in Hres. destruct Hres as [i Hi].
    destruct (I_v2 _ _ HI p Hp i _ Hi) as [B1 B2]. cbn in B1, B2. inversion B1; subst.
    assert (Hh : was_handed s (p, S i)) by (apply B2; reflexivity).
    unfold was_handed in Hh. apply in_map_iff in Hh. destruct Hh as [[v' r] [Hf Hin]]. cbn in Hf. subst v'.
    exists r. split; [exact Hin|]. exact (H_role _ _ (I_v1 _ _ HI) _ _ Hin).
  Qed.

  (* a failed try_send / send never handed its payload to anybody *)
  Lemma failed_not_handed p v : is_sender cfg p = true -> In v (failed s p) -> ~ was_handed s v.
  Proof.
    intros Hp Hv. unfold failed in Hv. apply in_flat_map in Hv. destruct Hv as [res [Hres Hv]].
    apply In_res_failed in Hv. destruct Hv as [Hs Hk]. apply In_nth_error in Hres. destruct Hres as [i Hi].
    destruct (I_v2 _ _ HI p Hp i _ Hi) as [B1 B2]. rewrite Hs in B1. inversion B1; subst.
    intros Hh. apply B2 in Hh. congruence.
  Qed.

  (* every payload is handed off at most once, to one receiver *)
  Lemma handed_once : NoDup (map fst (handed s)).
  Proof. exact (H_nd _ _ (I_v1 _ _ HI)). Qed.

  (* a handoff commits the send: the sender has reported Ok, or is about to (it never reports
     Closed / Full for a payload a receiver got) *)
  Lemma handed_commits v r :
    In (v, r) (handed s) ->
    In v (sent_ok s (fst v)) \/ (cur s (fst v) = v /\ committed s (fst v) = true).
  Proof.
    intros Hin. destruct v as [p k]. cbn [fst].
    assert (Hh : was_handed s (p, k)) by (apply in_map_iff; exists ((p, k), r); split; [reflexivity|exact Hin]).
    destruct (I_v4 _ _ HI p k Hh) as [Hp Hk]. pose proof (S_bound _ _ (I_v1 _ _ HI) p k Hh) as Hb.
    pose proof (S_len _ _ (I_v1 _ _ HI) p Hp) as Hl.
    destruct (Nat.le_gt_cases k (length (results s p))) as [Hle|Hgt].
    - left. destruct (nth_error (results s p) (k - 1)) as [res|] eqn:En.
      + destruct (I_v2 _ _ HI p Hp _ _ En) as [B1 B2]. replace (S (k - 1)) with k in * by lia.
        apply B2 in Hh. destruct res; cbn in Hh; try discriminate. cbn in B1. inversion B1; subst.
        unfold sent_ok. apply in_flat_map. exists (POk (p, k)). split; [|left; reflexivity].
        exact (nth_error_In _ _ En).
      + apply nth_error_None in En. lia.
    - right. destruct (midop (pcs s p)) eqn:Em; cbn [b2nat] in Hl; [|lia].
      assert (k = seq s p) by lia. subst k. split; [reflexivity|].
      apply (S_cur _ _ (I_v1 _ _ HI) p Em). exact Hh.
  Qed.

  Lemma taken_is_val (l : list res) : (forall r, In r l -> res_lost r = []) -> flat_map res_taken l = flat_map res_val l.
  Proof.
    induction l as [|x l IH]; intros H; [reflexivity|]. cbn [flat_map]. unfold res_taken at 1.
    rewrite (H x) by (left; reflexivity). rewrite app_nil_r, IH; [reflexivity|]. intros r Hr. apply H. right. exact Hr.
  Qed.

  (* no receive ever reported Timeout with a payload in its destination cell *)
  Lemma no_lost r : lost s r = [].
  Proof.
    unfold lost. pose proof (R_nl _ _ (I_v3 _ _ HI) r) as H. induction (results s r) as [|x l IH]; [reflexivity|].
    cbn [flat_map]. rewrite (H x) by (left; reflexivity). apply IH. intros y Hy. apply H. right. exact Hy.
  Qed.

  Lemma no_timeout_after_handoff r v : ~ In (RTimeout (Some v)) (results s r).
  Proof. intros H. apply (R_nl _ _ (I_v3 _ _ HI)) in H. discriminate H. Qed.

  (* what receiver r was handed = what its receives returned (in order) ++ what is still in its hand / cell *)
  Lemma receiver_accounting r :
    is_receiver cfg r = true -> handed_to s r = got s r ++ r_inflight cfg s r.
  Proof.
    intros Hr. rewrite (R_eq _ _ (I_v3 _ _ HI) r Hr). unfold got, r_inflight. rewrite Hr.
    rewrite taken_is_val; [reflexivity|]. exact (R_nl _ _ (I_v3 _ _ HI) r).
  Qed.

  Lemma received_was_handed r v :
    is_receiver cfg r = true -> In v (got s r ++ r_inflight cfg s r) -> In (v, r) (handed s).
  Proof. intros Hr H. rewrite <- (receiver_accounting r Hr) in H. apply In_handed_to. exact H. Qed.

  Lemma received_nodup r : is_receiver cfg r = true -> NoDup (got s r ++ r_inflight cfg s r).
  Proof.
    intros Hr. rewrite <- (receiver_accounting r Hr). unfold handed_to. apply NoDup_map_filter. exact handed_once.
  Qed.

  (* rv_exactly_once, in-flight form: the payload of every Ok send is with exactly one receiver,
     exactly once: returned by one of its receives or in its hand / destination cell *)
  Theorem exactly_once p v :
    is_sender cfg p = true -> In v (sent_ok s p) ->
    exists r, is_receiver cfg r = true /\ In v (got s r ++ r_inflight cfg s r) /\
              NoDup (got s r ++ r_inflight cfg s r) /\
              forall r', is_receiver cfg r' = true -> In v (got s r' ++ r_inflight cfg s r') -> r' = r.
  Proof.
    intros Hp Hv. destruct (ok_is_handed p v Hp Hv) as [r [Hin Hr]]. exists r. split; [exact Hr|]. split.
    - rewrite <- (receiver_accounting r Hr). apply In_handed_to. exact Hin.
    - split; [exact (received_nodup r Hr)|]. intros r' Hr' Hv'.
      exact (fst_unique _ _ _ _ _ _ handed_once (received_was_handed r' v Hr' Hv') Hin).
  Qed.

  Lemma done_inflight r : all_done cfg s -> r_inflight cfg s r = [].
  Proof.
    intros Hd. unfold r_inflight. destruct (is_receiver cfg r) eqn:Hr; [|reflexivity].
    assert (Hlt : r < length cfg).
    { unfold is_receiver in Hr. destruct (role cfg r) as [b|] eqn:Er; [exact (role_lt _ _ Er)|discriminate]. }
    pose proof (C_ok _ (I_c _ _ HI) r) as Cr. unfold cellok in Cr. rewrite (Hd r Hlt) in *. cbn in Cr. rewrite Cr. reflexivity.
  Qed.

  (* final form: after every thread has finished and dropped its handle, every Ok-sent payload
     was returned by exactly one receive of exactly one receiver *)
  Theorem exactly_once_final p v :
    all_done cfg s -> is_sender cfg p = true -> In v (sent_ok s p) ->
    exists r, is_receiver cfg r = true /\ In v (got s r) /\ NoDup (got s r) /\
              forall r', is_receiver cfg r' = true -> In v (got s r') -> r' = r.
  Proof.
    intros Hd Hp Hv. destruct (exactly_once p v Hp Hv) as [r [Hr [Hin [Hn Hu]]]].
    rewrite (done_inflight r Hd), app_nil_r in Hin, Hn. exists r. repeat split; try assumption.
    intros r' Hr' Hv'. apply Hu; [exact Hr'|]. apply in_app_iff. left. exact Hv'.
  Qed.

  (* ---------------------------------------------------------------- C09 *)
  Lemma never_bad : bad s = false.
  Proof. exact (C_bad _ (I_c _ _ HI)). Qed.

  Lemma cells_ok u : cellok s u.
  Proof. exact (C_ok _ (I_c _ _ HI) u). Qed.

  (* records are linked exactly while the owner's frame is registered and WAITING; both queues
     are duplicate-free and never both non-empty *)
  Lemma queues_ok : NoDup (sq s) /\ NoDup (rq s) /\ (sq s = [] \/ rq s = []) /\ forall u, qok s u.
  Proof. destruct (I_q _ _ HI) as [A B C D _]. auto. Qed.

  Lemma linked_is_live u : In u (sq s) \/ In u (rq s) -> live (pcs s u) = true /\ wstate s u = W.
  Proof.
    pose proof (Q_ok _ _ (I_q _ _ HI) u) as Q. intros [H|H].
    - destruct (in_sq_class _ _ Q H) as [K Hw]. split; [apply linked_live; congruence|exact Hw].
    - destruct (in_rq_class _ _ Q H) as [K Hw]. split; [apply linked_live; congruence|exact Hw].
  Qed.

  (* a payload still in its sender's slot has not been handed to anybody (no duplication) *)
  Lemma sender_slot_not_handed p v : is_sender cfg p = true -> cell s p = Some v -> v = cur s p /\ ~ was_handed s v.
  Proof.
    intros Hp Hc. pose proof (cells_ok p) as Cp. unfold cellok in Cp.
    pose proof (L_role (I_l _ _ HI) p) as Rp. unfold roleok in Rp. unfold is_sender in Hp.
    destruct (role cfg p) as [[|]|]; try discriminate.
    destruct (qrel (pcs s p)) eqn:K.
    - assert (Hm : midop (pcs s p) = true) by (apply qls_midop; left; exact K).
      pose proof (S_cur _ _ (I_v1 _ _ HI) p Hm) as Sc. rewrite (committed_qls _ _ K) in Sc.
      destruct (wstate s p); try congruence; try contradiction; (split; [congruence|]);
        replace v with (cur s p) by congruence; intros Hh; apply Sc in Hh; discriminate.
    - assert (Hm : midop (pcs s p) = true) by (apply qls_midop; right; exact K).
      pose proof (S_cur _ _ (I_v1 _ _ HI) p Hm) as Sc.
      assert (Hc2 : committed s p = match wstate s p with D => true | _ => false end).
      { unfold committed. destruct (pcs s p) as [ | | | ? [| | |] | | | | | | | ? [| | |] | | | | | | | | | | | | | | | | ];
          cbn in K; try discriminate. reflexivity. }
      rewrite Hc2 in Sc.
      destruct (wstate s p); try congruence; try contradiction; (split; [congruence|]);
        replace v with (cur s p) by congruence; intros Hh; apply Sc in Hh; discriminate.
    - rewrite (qlr_not_spc _ K) in Rp. discriminate.
    - exfalso. destruct (pcs s p) as [ | | | ? [| | |] | | | | | | | ? [| | |] | | | | | | | | | | | | | | | | ];
        cbn in K, Rp; discriminate.
    - congruence.
  Qed.
End Thm.
