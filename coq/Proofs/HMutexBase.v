(* Proofs/HMutexBase.v — basics for the HybridMutex proofs: list/upd lemmas, classification of
   program counters, inversion of `dispatch`, and the step case-analysis tactic. *)
From Coq Require Import List NArith Arith Bool Lia.
From Fibre Require Import Common.Conc Sync.HMutex.
Import ListNotations.

Set Implicit Arguments.

(* ------------------------------------------------------------------ basics *)
Lemma upd_eq A (f : nat -> A) t v : upd f t v t = v.
Proof. unfold upd. rewrite Nat.eqb_refl. reflexivity. Qed.

Lemma upd_neq A (f : nat -> A) t v u : u <> t -> upd f t v u = f u.
Proof. intros H. unfold upd. destruct (Nat.eqb_spec u t); [contradiction|reflexivity]. Qed.

Lemma mem_In t l : mem t l = true <-> In t l.
Proof.
  unfold mem. rewrite existsb_exists. split.
  - intros [x [Hx E]]. apply Nat.eqb_eq in E. subst. exact Hx.
  - intros H. exists t. split; [exact H|apply Nat.eqb_refl].
Qed.

Lemma mem_false t l : mem t l = false <-> ~ In t l.
Proof.
  rewrite <- mem_In. destruct (mem t l); split; intros H; try congruence; exfalso; apply H; reflexivity.
Qed.

Lemma rem_In u t l : In u (rem t l) <-> In u l /\ u <> t.
Proof.
  unfold rem. rewrite filter_In. split; intros [H1 H2]; split; auto.
  - intros ->. rewrite Nat.eqb_refl in H2. discriminate.
  - destruct (Nat.eqb_spec u t); [contradiction|reflexivity].
Qed.

Lemma rem_NoDup t l : NoDup l -> NoDup (rem t l).
Proof. apply NoDup_filter. Qed.

Lemma rem_notin t l : ~ In t l -> rem t l = l.
Proof.
  induction l as [|a l IH]; intros H; cbn; [reflexivity|].
  destruct (Nat.eqb_spec a t) as [->|N]; cbn.
  - exfalso. apply H. left. reflexivity.
  - f_equal. apply IH. intros X. apply H. right. exact X.
Qed.

Lemma rem_head t l : NoDup (t :: l) -> rem t (t :: l) = l.
Proof.
  intros H. inversion H; subst. cbn. rewrite Nat.eqb_refl. cbn. apply rem_notin. assumption.
Qed.

(* ------------------------------------------------------------------ classification of pcs *)
Definition holds (p : pc) : bool :=
  match p with
  | CS | UFand | XFix _ | XUnl _ | QFix _ | QUnl _ true => true
  | LLSwap (LX _) | LLLoad (LX _) | LLSpin (LX _) => true
  | _ => false
  end.

Definition inlist (p : pc) : bool :=
  match p with
  | QRearm _ | QFor _ | QLoad _ | QCas _ _ | QFix _ | QUnl _ _ | XFix _ | XUnl _
  | WMark | WUnl _ | DFix | DUnl => true
  | _ => false
  end.

(* the thread is inside lock_slow (its stack node is alive) *)
Definition insync (p : pc) : bool :=
  match p with
  | TALoad (ASpin _) | TACas (ASpin _) _ | Yield _ | SpinNext _ => true
  | LLSwap (LQ (QSync _)) | LLLoad (LQ (QSync _)) | LLSpin (LQ (QSync _)) => true
  | QRearm (QSync _) | QFor (QSync _) | QLoad (QSync _) | QCas (QSync _) _ | QFix (QSync _) | QUnl (QSync _) _ => true
  | PLoad | Park => true
  | LLSwap (LX (QSync _)) | LLLoad (LX (QSync _)) | LLSpin (LX (QSync _)) | XFix (QSync _) | XUnl (QSync _) => true
  | _ => false
  end.

(* ------------------------------------------------------------------ inversion of dispatch *)
Definition start_actx (f : option bool) (a : actx) : Prop :=
  match f with
  | None => a = ALock \/ a = AFirst true \/ a = ATry \/ a = AFirst false
  | Some _ => a = ATry \/ a = APoll false
  end.

Lemma dispatch_inv s t c p s' e :
  dispatch s t c p = Some (s', e) ->
  exists p',
    ((fut s t <> None /\ do_llswap (set_prog s t p') t LDrop = Some (s', e)) \/
     (fut s t <> None /\ do_wait (set_prog s t p') t c = Some (s', e))) \/
    (exists a, start_actx (fut s t) a /\ do_taload (set_prog s t p') t a = Some (s', e)).
Proof.
  revert s. induction p as [|o r IH]; intros s H; cbn [dispatch] in H.
  - destruct (fut s t) eqn:F; [|discriminate]. exists []. left. left. split; [congruence|exact H].
  - destruct o.
    + destruct (fut s t) eqn:F.
      * exists (OLock :: r). left. left. split; [congruence|exact H].
      * exists r. right. exists ALock. split; [cbn; auto|exact H].
    + exists r. right. exists ATry. split; [|exact H]. destruct (fut s t); cbn; auto.
    + destruct (fut s t) eqn:F.
      * exists (OAsync :: r). left. left. split; [congruence|exact H].
      * exists r. right. exists (AFirst true). split; [cbn; auto|exact H].
    + destruct (fut s t) eqn:F.
      * exists r. right. exists (APoll false). split; [cbn; auto|exact H].
      * exists r. right. exists (AFirst false). split; [cbn; auto 6|exact H].
    + destruct (fut s t) eqn:F.
      * exists r. left. left. split; [congruence|exact H].
      * apply IH in H. rewrite F in H. exact H.
    + destruct (fut s t) eqn:F.
      * exists r. left. right. split; [congruence|exact H].
      * apply IH in H. rewrite F in H. exact H.
Qed.

(* ------------------------------------------------------------------ step case analysis *)
Ltac fsimpl :=
  cbn [locked hasq llock queue narm nwk token bwoken prog pcs fut holders results
       set_locked set_hasq set_llock set_queue set_narm set_nwk set_token set_bwoken set_prog set_pc
       set_fut set_holders log] in *.

Ltac break_match H :=
  match type of H with
  | context [match ?x with _ => _ end] =>
      lazymatch x with
      | context [match _ with _ => _ end] => fail
      | _ => let y := fresh "v" in let E := fresh "E" in
             remember x as y eqn:E in H; symmetry in E; destruct y
      end
  end.

Ltac step_cases H :=
  unfold mstep in H;
  match type of H with context [pcs ?s ?t] =>
    let y := fresh "v" in remember (pcs s t) as y eqn:Epc in H; symmetry in Epc; destruct y end;
  [ apply dispatch_inv in H;
    let p' := fresh "p'" in let a := fresh "a" in let Ha := fresh "Ha" in let Hf := fresh "Hf" in
    destruct H as [p' [[[Hf H]|[Hf H]]|[a [Ha H]]]];
    [ | | unfold start_actx in Ha;
        match type of Ha with context [fut ?s ?t] =>
          let y := fresh "v" in remember (fut s t) as y eqn:Ef in Ha; symmetry in Ef; destruct y end;
        repeat match type of Ha with _ \/ _ => destruct Ha as [Ha|Ha] end; subst a ]
  | .. ];
  unfold do_taload, do_llswap, do_wait, after_llock, ret, block_next, fix_flags in H;
  fsimpl; cbv beta iota zeta in H;
  repeat (break_match H; fsimpl; cbv beta iota zeta in H);
  try discriminate H;
  match type of H with Some (?a, ?b) = Some (?s', ?e) => inversion H; subst s' e; clear H end;
  repeat match goal with
         | E : ?x = _ |- _ =>
             is_var x;
             lazymatch type of x with
             | actx => subst x | qctx => subst x | lctx => subst x | bool => subst x
             | option _ => subst x | wk => subst x | pc => subst x
             end
         end.

Ltac split_thr u t :=
  destruct (Nat.eq_dec u t) as [->|?]; [rewrite ?upd_eq | rewrite ?upd_neq by assumption].
