(* Proofs/MpscUProofs.v — main theorems about the unbounded-MPSC K2 model (C01, C02, C04, C09). *)
From Fibre Require Import Common.Base Chan.MpscU Chan.MpscUSpec Proofs.MpscUBase Proofs.MpscUInv.
From Coq Require Import ZifyBool ZifyNat ZifyN.
Ltac Zify.zify_post_hook ::= Z.div_mod_to_equations.

Lemma reach_inv s : reach s -> Inv s.
Proof. intros (a&fc&ops&->). apply reach_Inv. Qed.

Lemma final_snoc ops : forall s o, final s (ops ++ [o]) = fst (step (final s ops) o).
Proof.
  unfold final. induction ops as [|x t IH]; intros s o.
  - cbn [app]. rewrite run_fst_cons. reflexivity.
  - cbn [app]. rewrite !run_fst_cons. apply IH.
Qed.

Lemma reach_step s o : reach s -> reach (fst (step s o)).
Proof.
  intros (a&fc&ops&->). exists a, fc, (ops ++ [o]). symmetry. apply final_snoc.
Qed.

(** C01/C09: conservation in multiset form *)
Theorem conservation s : reach s -> NoDup (used s) /\ Permutation (used s) (held s).
Proof.
  intros R. destruct (reach_inv s R) as (_&_&[C U]). split.
  - apply (NoDup_count_occ N.eq_dec). exact U.
  - apply (Permutation_count_occ N.eq_dec). exact C.
Qed.

Theorem received_once s : reach s -> NoDup (rcv s) /\ incl (rcv s) (acc s).
Proof.
  intros R. destruct (reach_inv s R) as (_&[F _]&[C U]). split.
  - apply (NoDup_count_occ N.eq_dec). intros x. specialize (C x). specialize (U x).
    unfold held, cnt in *. rewrite count_occ_app in C. lia.
  - rewrite F. intros x Hx. apply in_or_app. left. exact Hx.
Qed.

Theorem failed_no_effect s o :
  failed (snd (exec s o)) = true ->
  q (fst (exec s o)) = q s /\ rcv (fst (exec s o)) = rcv s /\ acc (fst (exec s o)) = acc s.
Proof.
  destruct o; symex; cbn [failed]; intros Hf; try discriminate; auto.
  all: repeat match goal with H : _ /\ _ |- _ => destruct H end.
  all: repeat match goal with H : is_nil _ = true |- _ => apply is_nil_true in H; subst end.
  all: cbn [app] in *.
  all: rewrite ?app_nil_r in *; repeat split; congruence.
Qed.

(** try_send never reports Full: Ok unless the handle or the receiver is closed *)
Theorem try_send_exact s h v r :
  has_futs h s = false -> aget h (hs s) = Some r -> htx r = true -> fresh [v] s = true ->
  snd (exec s (TrySend h v)) = if hclosed r || rdrop s then RClosedV v else ROk.
Proof.
  intros NF A B C. cbn [exec]. unfold do_try_send, lookup_free. rewrite NF, A, B, C. cbn [andb].
  unfold tx_dead, use. cb. destruct (hclosed r || rdrop s); reflexivity.
Qed.

(** batch sends are all-or-nothing: Ok(total) with everything queued in order, or Closed with
    everything handed back *)
Theorem send_batch_all_or_nothing s h vs ip so :
  match snd (exec s (SendB h vs ip so)) with
  | RBatchOk k | RMutOk k [] => k = len vs /\ q (fst (exec s (SendB h vs ip so))) = q s ++ vs
  | RBatchErr k l => k = 0 /\ l = vs /\ q (fst (exec s (SendB h vs ip so))) = q s
  | RMutClosed l => l = vs /\ q (fst (exec s (SendB h vs ip so))) = q s
  | RMutOk _ (_ :: _) => False
  | _ => True
  end.
Proof.
  symex; auto.
  all: try (apply is_nil_true in Heqb1; subst; cbn [app]; rewrite ?app_nil_r; auto).
Qed.

Lemma exec_frame s o :
  let s' := fst (exec s o) in let r := snd (exec s o) in
  rcv s' = rcv s ++ recv_ids r
  /\ (exists d, drp s' = drp s ++ d /\ evd s' = evd s ++ d)
  /\ (exists b, back s' = back s ++ b)
  /\ (exists d, acc s' = acc s ++ d)
  /\ (exists u, used s' = u ++ used s)
  /\ (rdrop s = true -> rdrop s' = true)
  /\ fixcl s' = fixcl s.
Proof.
  destruct o; symex; cbn [recv_ids].
  all: repeat match goal with H : _ /\ _ |- _ => destruct H end.
  all: repeat match goal with H : is_nil _ = true |- _ => apply is_nil_true in H; subst end.
  all: rewrite ?app_nil_r in *.
  all: repeat match goal with
       | |- _ /\ _ => split
       | |- exists _, _ ++ ?d = _ ++ _ /\ _ => exists d; split; reflexivity
       | |- exists _, ?x = ?x ++ _ /\ _ => exists []; rewrite ?app_nil_r; split; reflexivity
       | |- exists _, _ ++ ?d = _ ++ _ => exists d; reflexivity
       | |- exists _, ?x = ?x ++ _ => exists []; rewrite ?app_nil_r; reflexivity
       | |- exists _, ?u ++ ?x = _ ++ ?x => exists u; reflexivity
       | |- exists _, ?x = _ ++ ?x => exists []; reflexivity
       end; try congruence; try reflexivity; auto.
Qed.

Lemma open_tx_zero l h r : open_tx l = 0 -> aget h l = Some r -> isopen r = false.
Proof.
  unfold open_tx. induction l as [|[k v] t IH]; cbn [aget filter snd]; intros Z G; [discriminate|].
  destruct (N.eqb_spec h k) as [->|Hn].
  - inversion G; subst. destruct (isopen r); [rewrite len_cons in Z; lia | reflexivity].
  - apply IH; [|exact G]. destruct (isopen v); [rewrite len_cons in Z; lia | exact Z].
Qed.

Ltac deqnil :=
  try match goal with
  | E : deqn (N.to_nat ?m) ?s = (_, []), H : (?m =? 0) = false |- _ =>
      let A := fresh "DQ" in let B := fresh "DS" in
      destruct (deqn_nil' _ _ _ E H) as [A B]; subst
  end.

(** C04: Disconnected (on a handle that was not itself closed) only with nothing buffered and no open sender *)
Theorem disc_means_drained s o :
  fut_ok s ->
  snd (exec s o) = RDisc \/ snd (exec s o) = RReady RDisc ->
  (q s = [] /\ scount s = 0)
  \/ (exists h r, aget h (hs s) = Some r /\ htx r = false /\ hclosed r = true).
Proof.
  intros FO. destruct o; symex; intros [Hd|Hd]; try discriminate.
  all: repeat match goal with H : _ /\ _ |- _ => destruct H end.
  all: repeat match goal with H : is_nil _ = true |- _ => apply is_nil_true in H; subst end.
  all: cbn [app] in *; deqnil.
  all: try (left; split; [congruence | apply N.eqb_eq; congruence]).
  all: bools.
  all: try (right; eexists; eexists; split; [eassumption|]; split; congruence).
  all: match goal with H : aget _ (fs _) = Some _ |- _ => destruct (FO _ _ H) as (r0&A&B&C) end.
  all: somes; repeat match goal with H : fk _ = _ |- _ => rewrite H in * end; cbn [is_recv_kind negb] in *.
  all: right; eexists; eexists; split; [eassumption|]; split; congruence.
Qed.

Theorem disc_stable s o :
  GS s -> disc_state s -> (fixcl s = true \/ ~ clones_closed s o) ->
  disc_state (fst (exec s o)) /\ has_value (snd (exec s o)) = false.
Proof.
  intros (N1&N2&FO&RO&SC&RL) [Z Q0] FX. unfold disc_state, has_value.
  destruct o; symex; cbn [recv_ids is_nil negb]; auto.
  all: repeat match goal with H : _ /\ _ |- _ => destruct H end.
  all: try congruence.
  all: repeat match goal with H : is_nil _ = true |- _ => apply is_nil_true in H; subst end.
  all: cbn [app] in *; rewrite ?app_nil_r in *; deqnil.
  all: try (split; [split; congruence | reflexivity]).
  all: rewrite ?Q0 in *.
  all: repeat match goal with
       | H : aget _ (fs _) = Some ?fr |- _ =>
           lazymatch goal with
           | K : htx _ = negb (is_recv_kind (fk fr)) |- _ => fail
           | _ => let r0 := fresh "r" in destruct (FO _ _ H) as (r0 & ? & ? & ?)
           end
       end; somes; repeat match goal with H : fk _ = _ |- _ => rewrite H in * end; cbn [is_recv_kind negb] in *.
  all: try match goal with H : [] = ?a ++ ?b |- _ => symmetry in H end.
  all: try match goal with H : ?a ++ ?b = [] |- _ => apply app_eq_nil in H; destruct H; subst end.
  all: try (split; [split; congruence | reflexivity]).
  all: bools; unfold tx_dead in *; cbh.
  all: try match goal with
       | H : aget ?h (hs _) = Some ?r, T : htx ?r = true |- _ =>
           let K := fresh "K" in
           pose proof (open_tx_zero _ _ _ (eq_trans (eq_sym SC) Z) H) as K; unfold isopen in K;
           rewrite T in K; cbn [andb] in K; apply negb_false_iff in K
       end.
  all: try (exfalso; congruence).
  all: try match goal with H : _ || _ = false |- _ => apply orb_false_iff in H; destruct H end.
  all: try (exfalso; congruence).
  all: try (exfalso; destruct FX as [FX|FX]; [congruence | apply FX; do 3 eexists; split; [reflexivity|]; split; eassumption]).
  exfalso. rewrite K, andb_true_r in Heqb1. destruct FX as [FX|FX]; [congruence|].
  apply FX. exists h, h2, h0. auto.
Qed.

Theorem send_after_rx_gone s o r h :
  rdrop s = true -> has_futs h s = false ->
  aget h (hs s) = Some r -> htx r = true ->
  match o with
  | TrySend h' v => h' = h /\ fresh [v] s = true
  | Send h' v => h' = h /\ hasync r = false /\ fresh [v] s = true
  | SendB h' vs _ so => h' = h /\ (so && hasync r) = false /\ fresh vs s = true /\ vs <> []
  | _ => False
  end ->
  closed_with_value o (snd (exec s o)).
Proof.
  intros RD NF A B. destruct o; try contradiction; cbn [exec closed_with_value].
  - intros [-> F]. unfold do_try_send, lookup_free, tx_dead, use. rewrite NF, A, B, F. cb. rewrite RD, orb_true_r. reflexivity.
  - intros (-> & AS & F). unfold do_send, lookup_free, tx_dead, use. rewrite NF, A, B, AS, F. cb. rewrite RD, orb_true_r. reflexivity.
  - intros (-> & AS & F & NE). unfold do_send_b, lookup_free, tx_dead, use. rewrite NF, A, B, AS, F. cb.
    destruct vs; [congruence|]. cbn [is_nil andb negb]. cb. rewrite RD, orb_true_r. destruct inplace; reflexivity.
Qed.

Theorem poll_after_rx_gone s f w fr r v :
  rdrop s = true -> aget f (fs s) = Some fr -> aget (fh fr) (hs s) = Some r -> fk fr = FSend (Some v) ->
  snd (exec s (Poll f w)) = RReady RClosed.
Proof.
  intros RD A B K. cbn [exec]. unfold do_poll. rewrite A, B, K, RD. destruct (hclosed r); reflexivity.
Qed.

(** every operation on a handle whose close() returned Ok fails and leaves the queue alone *)
Theorem closed_handle_rejects s h r o :
  has_futs h s = false -> aget h (hs s) = Some r -> hclosed r = true ->
  match o with
  | TrySend h' v => h' = h /\ htx r = true /\ fresh [v] s = true
  | Send h' v => h' = h /\ htx r = true /\ hasync r = false /\ fresh [v] s = true
  | SendB h' vs _ so => h' = h /\ htx r = true /\ (so && hasync r) = false /\ fresh vs s = true /\ vs <> []
  | TryRecv h' => h' = h /\ htx r = false
  | Recv h' => h' = h /\ htx r = false /\ hasync r = false
  | RecvT0 h' => h' = h /\ htx r = false /\ hasync r = false
  | TryRecvB h' m => h' = h /\ htx r = false /\ m <> 0
  | RecvB h' m => h' = h /\ htx r = false /\ hasync r = false /\ m <> 0
  | PollNext h' _ => h' = h /\ htx r = false /\ hasync r = true
  | Close h' => h' = h
  | _ => False
  end ->
  failed (snd (exec s o)) = true /\ q (fst (exec s o)) = q s.
Proof.
  intros NF A C. destruct o; try contradiction; cbn [exec].
  all: intros K; repeat match goal with H : _ /\ _ |- _ => destruct H end; subst.
  all: unfold do_try_send, do_send, do_send_b, do_try_recv, do_recv, do_try_recv_b, do_recv_b,
         do_poll_next, do_close, lookup_free, tx_dead, use, giveback, dropv, put_h.
  all: rewrite NF, A; repeat match goal with H : _ = _ |- _ => rewrite H end; cb.
  all: rewrite ?C, ?orb_true_l; cbn [andb orb negb].
  all: try (destruct vs; [congruence|]; cbn [is_nil]; cb; rewrite ?C, ?orb_true_l).
  all: try (destruct (N.eqb_spec max 0); [congruence|]).
  all: try destruct inplace; cb; cbn [failed]; auto.
Qed.

Theorem double_close s h r :
  has_futs h s = false -> aget h (hs s) = Some r -> hclosed r = true -> exec s (Close h) = (s, RCloseErr).
Proof. intros NF A C. cbn [exec]. unfold do_close, lookup_free. rewrite NF, A, C. reflexivity. Qed.

Theorem first_close s h r :
  has_futs h s = false -> aget h (hs s) = Some r -> hclosed r = false ->
  snd (exec s (Close h)) = ROk /\
  exists r', aget h (hs (fst (exec s (Close h)))) = Some r' /\ hclosed r' = true.
Proof.
  intros NF A C. cbn [exec]. unfold do_close, lookup_free. rewrite NF, A, C. cb. split; [reflexivity|].
  exists (with_closed r). split; [|reflexivity].
  unfold close_h, put_h, notify_receiver, dropv. cb.
  destruct (htx r).
  - destruct (scount s =? 1); [destruct (rw s) as [[? ?]|]|]; cb; apply aget_aset_eq.
  - cb. apply aget_aset_eq.
Qed.

(** closing the receiver drops (exactly) what was buffered, at once *)
Theorem receiver_close_drains s h r :
  has_futs h s = false -> aget h (hs s) = Some r -> htx r = false -> hclosed r = false ->
  let s' := fst (exec s (Close h)) in
  q s' = [] /\ drp s' = drp s ++ q s /\ evd s' = evd s ++ q s /\ rdrop s' = true.
Proof.
  intros NF A T C. cbn [exec]. unfold do_close, lookup_free. rewrite NF, A, C. cb.
  unfold close_h, put_h, dropv. rewrite T. cb. auto.
Qed.

Theorem clone_isolation s h r h' r' :
  GS s -> has_futs h s = false -> aget h (hs s) = Some r -> htx r = true -> hclosed r = false ->
  aget h' (hs s) = Some r' -> h' <> h -> isopen r' = true ->
  let s' := fst (exec s (Close h)) in
  0 < scount s' /\ q s' = q s /\ rdrop s' = rdrop s
  /\ rw s' = rw s /\ evw s' = evw s /\ fs s' = fs s
  /\ (forall k, k <> h -> aget k (hs s') = aget k (hs s)).
Proof.
  intros (N1&N2&FO&RO&SC&RL) NF A T C A' NE O'. cbn [exec]. unfold do_close, lookup_free. rewrite NF, A, C. cb.
  unfold close_h, put_h. rewrite T. cb.
  assert (2 <= scount s).
  { pose proof (open_tx_adel h (hs s) N1) as E1. rewrite A in E1.
    pose proof (open_tx_adel h' (adel h (hs s)) (NoDup_adel h _ N1)) as E2.
    rewrite (aget_adel_neq h h' (hs s) NE), A', O' in E2.
    assert (O : isopen r = true) by (unfold isopen; rewrite T, C; reflexivity).
    rewrite O in E1. lia. }
  destruct (N.eqb_spec (scount s) 1); [lia|]. cb.
  repeat split; try reflexivity; try lia.
  intros k Hk. apply aget_aset_neq. exact Hk.
Qed.

Definition disc_is_final : Prop :=
  forall s o, reach s -> disc_state s -> disc_state (fst (exec s o)) /\ has_value (snd (exec s o)) = false.

Theorem disc_is_final_refuted_FM1 : ~ disc_is_final.
Proof.
  intros H.
  assert (R : reach (final (init false false) [Close 0])) by (exists false, false, [Close 0]; reflexivity).
  specialize (H _ (Clone 0 2) R). vm_compute in H.
  destruct H as [[H _] _]; [split; reflexivity | discriminate H].
Qed.

Lemma reach_ind' (P : st -> Prop) :
  (forall a fc, P (init a fc)) ->
  (forall s o, reach s -> P s -> P (fst (step s o))) ->
  forall s, reach s -> P s.
Proof.
  intros HI HS s (a&fc&ops&->). induction ops as [|o t IH] using rev_ind.
  - apply HI.
  - rewrite final_snoc. apply HS; [|exact IH]. exists a, fc, t. reflexivity.
Qed.

Definition G4 (s : st) : Prop := hs s = [] -> q s = [].

Lemma exec_G4 s o : GS s -> G4 s -> G4 (fst (exec s o)).
Proof.
  intros (N1&N2&FO&RO&SC&RL) G. unfold G4 in *. destruct o; symex; try assumption.
  all: intros X; try discriminate X.
  all: try (apply is_nil_true; assumption).
  all: try match goal with H : is_nil ?l = false |- _ => rewrite X in H; discriminate H end.
  all: repeat match goal with
       | H : aget _ (fs _) = Some _ |- _ => apply FO in H; destruct H as (?&H&_)
       end.
  all: try match goal with H : aget _ (hs _) = Some _ |- _ => rewrite X in H; discriminate H end.
  all: reflexivity.
Qed.

Lemma reach_GS s : reach s -> GS s.
Proof. intros R. apply (reach_inv s R). Qed.

Lemma reach_G4 s : reach s -> G4 s.
Proof.
  apply reach_ind'.
  - intros a fc. unfold G4, init. cb. discriminate.
  - intros s0 o R H. rewrite step_fst. apply exec_G4; [apply (reach_GS s0 R) | exact H].
Qed.

Theorem teardown s : reach s -> hs s = [] ->
  q s = [] /\ fs s = [] /\ NoDup (used s) /\ Permutation (used s) (rcv s ++ back s ++ drp s).
Proof.
  intros R HE. destruct (conservation s R) as [ND P].
  destruct (reach_GS s R) as (N1&N2&FO&RO&SC&RL).
  assert (FE : fs s = []).
  { destruct (fs s) as [|[f fr] t] eqn:E; [reflexivity|]. exfalso.
    destruct (FO f fr) as (r&A&_); [rewrite E; cbn [aget]; rewrite N.eqb_refl; reflexivity|].
    rewrite HE in A. discriminate A. }
  pose proof (reach_G4 s R HE) as QE.
  split; [exact QE|]. split; [exact FE|]. split; [exact ND|].
  unfold held in P. rewrite QE, FE in P. exact P.
Qed.

Theorem recv_trace ops : forall s,
  rcv (final s ops) = rcv s ++ flat_map (fun x => recv_ids (out_res x)) (snd (run s ops)).
Proof.
  unfold final. induction ops as [|o t IH]; intros s; cbn [run].
  - cbn. rewrite app_nil_r. reflexivity.
  - pose proof (exec_frame (clear_ev s) o) as (F&_).
    unfold step. destruct (exec (clear_ev s) o) as [s1 r] eqn:E. cbn [fst snd] in F.
    specialize (IH s1). destruct (run s1 t) as [s2 xs]. cbn [fst snd flat_map out_res] in *.
    rewrite IH, F. rewrite <- app_assoc. reflexivity.
Qed.

Theorem drop_events s o : exists d,
  drp (fst (step s o)) = drp s ++ d /\ out_drops (snd (step s o)) = d.
Proof.
  pose proof (exec_frame (clear_ev s) o) as (_&(d&D1&D2)&_).
  unfold step. destruct (exec (clear_ev s) o) as [s1 r]. cbn [fst snd out_drops] in *.
  exists d. split; [exact D1|]. rewrite D2. reflexivity.
Qed.

Theorem fifo_all s : reach s -> acc s = rcv s ++ q s ++ qdrp s.
Proof. intros R. destruct (reach_inv s R) as (_&[F _]&_). exact F. Qed.

Theorem drained_all_received s : reach s -> rdrop s = false -> hs s <> [] -> q s = [] -> rcv s = acc s.
Proof.
  intros R RD HN Q. destruct (reach_inv s R) as (_&(F&D&_)&_).
  destruct (qdrp s) eqn:E.
  - rewrite F, Q. cbn [app]. rewrite app_nil_r. reflexivity.
  - exfalso. destruct D as [D|D]; [discriminate | congruence | contradiction].
Qed.

Lemma run_const ops : forall s, fixcl (final s ops) = fixcl s.
Proof.
  unfold final. induction ops as [|o t IH]; intros s; [auto|].
  rewrite run_fst_cons, step_fst. rewrite (IH (fst (exec (clear_ev s) o))).
  pose proof (exec_frame (clear_ev s) o) as (_&_&_&_&_&_&Z). cbn zeta in *. rewrite Z. reflexivity.
Qed.

Theorem no_open_sender s h r :
  GS s -> scount s = 0 -> aget h (hs s) = Some r -> htx r = true -> hclosed r = true.
Proof.
  intros (N1&N2&FO&RO&SC&RL) Z A T.
  pose proof (open_tx_zero _ _ _ (eq_trans (eq_sym SC) Z) A) as K. unfold isopen in K.
  rewrite T in K. cbn [andb] in K. apply negb_false_iff in K. exact K.
Qed.

Theorem receiver_gone s : GS s ->
  (forall r, aget 1 (hs s) = Some r -> htx r = true \/ hclosed r = true) -> rdrop s = true.
Proof.
  intros (N1&N2&FO&RO&SC&RL) H. destruct (rdrop s) eqn:E; [reflexivity|]. exfalso.
  apply RL in E. destruct E as (r&A&B&C). destruct (H r A); congruence.
Qed.

Theorem disc_is_final_fixed a ops o :
  let s := final (init a true) ops in
  disc_state s -> disc_state (fst (exec s o)) /\ has_value (snd (exec s o)) = false.
Proof.
  intros s D. apply disc_stable; [|exact D|].
  - apply reach_GS. exists a, true, ops. reflexivity.
  - left. unfold s. rewrite (run_const ops (init a true)). reflexivity.
Qed.

